(* Model/Batch.v -- C03: batching of queued packets.
   c2/vars.go   nextPacket, writeUnpack, mergeTags, isPacketNoP, verifyPacket, receive (FlagMulti
                branch and the per-packet branches), c2/session.go Session.next / pick,
   c2/channel.go conn.process / processMultiple (server side, o = true),
   com/packet.go Size, MarshalStream (length only), com/flag.go.
   Definitions only.

   Abstractions (also listed in notes/C03.md):
   - a device id is a Z, 0 = the empty ID; payloads are (length, content id), never inspected;
   - the flag word is a record: nine named bits, bits 9..15 (f_rest), group, position, len;
   - a transmission is either one packet or a container holding the list of packed packets
     (the container's Chunk is the MarshalStream concatenation of that list: only its length
     is computed, stream_len);
   - a queued packet that is itself a container (FlagMulti / FlagMultiDevice) carries the list of
     packets it holds (p_in); write_unpack splices it in; a container nested INSIDE a container is
     not modelled (the server ignores it, the client unpacks it recursively);
   - verifyPacket's random job number for Job = 0 is not modelled; `sendable` excludes it;
   - notifier.accept (job bookkeeping) and the key exchange are outside the model;
   - pick: the channel-mode cases and the random re-key packet are outside the model;
   - key material: next() sends a picked own packet with FlagCrypt alone (modelled); what the peer's
     key machinery does with the payload of such a packet is outside the model (`queueable`
     admits FlagCrypt packets with an empty payload only). *)
From XMT Require Import Base.Prelude.

(* ---- constants ----------------------------------------------------------- *)
Definition HDR : Z := 46.                 (* com.PacketHeaderSize *)
Definition LimitSmall : Z := 256.
Definition LimitMedium : Z := 65536.
Definition LimitLarge : Z := 4294967296.
Definition SvRegister : Z := 3.
Definition SvComplete : Z := 4.
Definition SvDrop : Z := 6.
Definition MvRefresh : Z := 7.
(* receiver error codes *)
Definition E_COUNT : Z := 1.              (* ErrInvalidPacketCount *)
Definition E_DEVICE : Z := 2.             (* 0x57: packet does not match our own device ID *)
Definition E_MALFORMED : Z := 3.          (* ErrMalformedPacket *)
Definition E_STREAM : Z := 4.             (* UnmarshalStream failed *)

(* ---- flags --------------------------------------------------------------- *)
Record flags := mkF {
  f_frag : bool; f_multi : bool; f_proxy : bool; f_error : bool; f_chan : bool;
  f_chanend : bool; f_oneshot : bool; f_mdev : bool; f_crypt : bool;
  f_rest : Z;                              (* bits 9..15 of the word *)
  f_group : Z; f_pos : Z; f_len : Z }.

Definition b2z (b : bool) : Z := if b then 1 else 0.
(* the uint64 word, for reference and for the non-vacuity example *)
Definition flags_word (f : flags) : Z :=
  b2z (f_frag f) + 2 * b2z (f_multi f) + 4 * b2z (f_proxy f) + 8 * b2z (f_error f) + 16 * b2z (f_chan f) +
  32 * b2z (f_chanend f) + 64 * b2z (f_oneshot f) + 128 * b2z (f_mdev f) + 256 * b2z (f_crypt f) +
  512 * f_rest f + 65536 * f_group f + 4294967296 * f_pos f + 281474976710656 * f_len f.

Definition fl0 : flags := mkF false false false false false false false false false 0 0 0 0.
Definition fl_proxy : flags := mkF false false true false false false false false false 0 0 0 0.
Definition fl_multi : flags := mkF false true false false false false false false false 0 0 0 0.
Definition fl_multi_mdev : flags := mkF false true false false false false false true false 0 0 0 0.

Definition flags_eqb (a b : flags) : bool :=
  Bool.eqb (f_frag a) (f_frag b) && Bool.eqb (f_multi a) (f_multi b) && Bool.eqb (f_proxy a) (f_proxy b) &&
  Bool.eqb (f_error a) (f_error b) && Bool.eqb (f_chan a) (f_chan b) && Bool.eqb (f_chanend a) (f_chanend b) &&
  Bool.eqb (f_oneshot a) (f_oneshot b) && Bool.eqb (f_mdev a) (f_mdev b) && Bool.eqb (f_crypt a) (f_crypt b) &&
  (f_rest a =? f_rest b) && (f_group a =? f_group b) && (f_pos a =? f_pos b) && (f_len a =? f_len b).

(* Flag.SetLen: Flag(n)<<48 | Position<<32 | uint32(f) | FlagFrag *)
Definition set_len (f : flags) (n : Z) : flags :=
  mkF true (f_multi f) (f_proxy f) (f_error f) (f_chan f) (f_chanend f) (f_oneshot f) (f_mdev f) (f_crypt f)
      (f_rest f) (f_group f) (f_pos f) (u16 n).
(* Flag.Clear: Flag(uint16(f)) ^ FlagFrag *)
Definition fl_clear (f : flags) : flags :=
  mkF (negb (f_frag f)) (f_multi f) (f_proxy f) (f_error f) (f_chan f) (f_chanend f) (f_oneshot f) (f_mdev f)
      (f_crypt f) (f_rest f) 0 0 0.
Definition set_multi (f : flags) : flags :=
  mkF (f_frag f) true (f_proxy f) (f_error f) (f_chan f) (f_chanend f) (f_oneshot f) (f_mdev f) (f_crypt f)
      (f_rest f) (f_group f) (f_pos f) (f_len f).
Definition set_mdev (f : flags) : flags :=
  mkF (f_frag f) (f_multi f) (f_proxy f) (f_error f) (f_chan f) (f_chanend f) (f_oneshot f) true (f_crypt f)
      (f_rest f) (f_group f) (f_pos f) (f_len f).
Definition or_chan (f : flags) (b : bool) : flags :=
  mkF (f_frag f) (f_multi f) (f_proxy f) (f_error f) (f_chan f || b) (f_chanend f) (f_oneshot f) (f_mdev f) (f_crypt f)
      (f_rest f) (f_group f) (f_pos f) (f_len f).

(* ---- packets ------------------------------------------------------------- *)
(* a queued packet may itself be a container (FlagMulti and/or FlagMultiDevice set): Proxy.notify
   re-queues the batch of a proxied client whole on the parent Session, Proxy.accept the batch the
   server sent for a client on that client's queue.  p_in is the list of packets its Chunk holds
   (meaningful only for containers; p_len is then the length of their stream forms). *)
Inductive packet := mkP {
  p_id : Z; p_job : Z; p_dev : Z; p_fl : flags; p_tags : list Z;
  p_len : Z;                               (* Chunk.Size(), read position 0 *)
  p_cid : Z;                               (* content id (checksum of the payload bytes) *)
  p_in : list packet }.                    (* the packed packets when this is a container *)

Definition set_dev (p : packet) (d : Z) : packet :=
  mkP (p_id p) (p_job p) d (p_fl p) (p_tags p) (p_len p) (p_cid p) (p_in p).
Definition set_tags (p : packet) (t : list Z) : packet :=
  mkP (p_id p) (p_job p) (p_dev p) (p_fl p) t (p_len p) (p_cid p) (p_in p).
Definition set_fl (p : packet) (f : flags) : packet :=
  mkP (p_id p) (p_job p) (p_dev p) f (p_tags p) (p_len p) (p_cid p) (p_in p).
Definition untag (p : packet) : packet := set_tags p [].

Definition packet_eqb (a b : packet) : bool :=
  (p_id a =? p_id b) && (p_job a =? p_job b) && (p_dev a =? p_dev b) && flags_eqb (p_fl a) (p_fl b) &&
  zlist_eqb (p_tags a) (p_tags b) && (p_len a =? p_len b) && (p_cid a =? p_cid b).

Definition keepalive (i : Z) (t : list Z) : packet := mkP 0 0 i fl0 t 0 0 [].

Definition len_prefix (s : Z) : Z :=
  if s <? LimitSmall then 1 else if s <? LimitMedium then 2 else if s <? LimitLarge then 4 else 8.

(* Packet.Size *)
Definition psize (p : packet) : Z :=
  if p_len p =? 0 then HDR
  else let s := p_len p + HDR + 4 * len (p_tags p) in s + len_prefix s.

(* bytes MarshalStream appends: id 1, job 2, tag count 2, flags 8, device 32, tags, WriteBytes(payload) *)
Definition stream_len (p : packet) : Z :=
  45 + 4 * len (p_tags p) + (if p_len p =? 0 then 1 else 1 + len_prefix (p_len p) + p_len p).

(* isPacketNoP *)
Definition is_nop (p : packet) : bool :=
  (p_id p <? 2) && (p_len p =? 0) && (flags_eqb (p_fl p) fl0 || flags_eqb (p_fl p) fl_proxy).

(* verifyPacket: fills an empty device; true iff the packet is ours *)
Definition is_own (i : Z) (p : packet) : bool := (p_dev p =? 0) || (p_dev p =? i).
Definition norm (i : Z) (p : packet) : packet := if p_dev p =? 0 then set_dev p i else p.

(* ---- containers and transmissions ---------------------------------------- *)
Record cont := mkC { c_dev : Z; c_fl : flags; c_tags : list Z; c_in : list packet }.

Inductive tx :=
| TSingle (p : packet)
| TMulti (c : cont).

(* a container, and what a queued item contributes to a transmission *)
Definition is_cont (p : packet) : bool := f_multi (p_fl p) || f_mdev (p_fl p).
Definition expand (p : packet) : list packet := if is_cont p then p_in p else [p].
Definition FRAG_MAX : Z := 65535.         (* fragMax *)

(* writeUnpack(dst, src, true, true).  A src that is itself a container (either flag) is spliced
   in: its Chunk is appended and the counts are added; neither its tags nor its flags are taken
   over.  The two error returns (count 0, too many packets) are ignored by nextPacket: dst stays
   as it is and src is dropped. *)
Definition write_unpack (o : cont) (src : packet) : cont :=
  if is_cont src then
    let x := f_len (p_fl src) in
    if x =? 0 then o
    else if FRAG_MAX <? x + f_len (c_fl o) then o
    else mkC (c_dev o) (set_len (c_fl o) (f_len (c_fl o) + x)) (c_tags o) (c_in o ++ p_in src)
  else mkC (c_dev o)
           (set_multi (or_chan (set_len (c_fl o) (f_len (c_fl o) + 1)) (f_chan (p_fl src))))
           (c_tags o ++ p_tags src)
           (c_in o ++ [src]).

(* what goes on the wire when a queued packet is sent as it is: a container stays a container *)
Definition as_tx (p : packet) : tx :=
  if is_cont p then TMulti (mkC (p_dev p) (p_fl p) (p_tags p) (p_in p)) else TSingle p.

(* The loop of nextPacket.  l is the packet handed in (if any) followed by the channel content:
   on entry of the slow path the channel is non-empty, so iteration 0 (which uses the packet
   handed in without receiving) always runs, and every later iteration runs iff the channel is
   non-empty and then receives: that is iteration over l.  fuel counts x < limits.Packets
   (an elided keep-alive consumes an iteration as well).  s = running Size sum, m = a foreign
   device was seen.  Result: container, carried-over packet, what is left in the channel. *)
Fixpoint np_loop (F i : Z) (fuel : nat) (l : list packet) (s : Z) (m : bool) (o : cont)
  : cont * option packet * list packet :=
  match fuel, l with
  | S fuel', n :: rest =>
    if is_nop n && (((0 <? s) && negb m) || is_own i n) then np_loop F i fuel' rest s m o
    else if (0 <? s) && (F <? s + psize n) then (o, Some n, rest)
    else
      let md := negb (is_own i n) && negb m in
      let o1 := if md then mkC (c_dev o) (set_mdev (c_fl o)) (c_tags o) (c_in o) else o in
      np_loop F i fuel' rest (s + psize n) (m || md) (write_unpack o1 (norm i n))
  | _, _ => (o, None, l)
  end.

Definition tx_tags (t : tx) : list Z := match t with TSingle p => p_tags p | TMulti c => c_tags c end.
Definition tx_set_tags (t : tx) (g : list Z) : tx :=
  match t with TSingle p => TSingle (set_tags p g) | TMulti c => TMulti (mkC (c_dev c) (c_fl c) g (c_in c)) end.

(* the single-packet shortcut at the end of nextPacket (o.ID is always 0) *)
Definition unwrap (o : cont) : tx :=
  if (f_len (c_fl o) =? 1) && negb (f_mdev (c_fl o)) then
    match c_in o with [v] => TSingle v | _ => TMulti o end
  else TMulti o.

(* nextPacket(a, q, n, i, t): (packet to send, carried-over packet, rest of the channel) *)
Definition next_packet (F NP i : Z) (n : option packet) (q : list packet) (t : list Z)
  : option tx * option packet * list packet :=
  match n, q with
  | None, [] => (None, None, [])
  | _, _ =>
    if (NP <=? 1) || (match n with Some _ => is_nil q | None => false end) then
      let '(cur, q') := match n with
                        | Some p => (Some p, q)
                        | None => match q with p :: r => (Some p, r) | [] => (None, []) end
                        end in
      match cur with
      | None => (None, None, q')
      | Some p =>
        if is_own i p then (Some (as_tx (set_tags (norm i p) (p_tags p ++ t))), None, q')
        else
          let o := write_unpack (mkC i fl_multi_mdev [] []) p in
          (Some (TMulti (mkC (c_dev o) (c_fl o) (c_tags o ++ t) (c_in o))), None, q')
      end
    else
      let l := match n with Some p => p :: q | None => q end in
      match np_loop F i (Z.to_nat NP) l 0 false (mkC i fl_multi [] []) with
      | (o, k, rest) => (Some (unwrap o), k, rest)
      end
  end.

(* mergeTags; when both are non-empty Go iterates a map: the order is unspecified and
   duplicates disappear (compared as sets by `check`) *)
Definition merge_tags (one two : list Z) : list Z :=
  match one, two with
  | [], [] => []
  | [], _ => two
  | _, [] => one
  | _, _ => nodup Z.eq_dec (one ++ two)
  end.

(* ---- the session ---------------------------------------------------------- *)
Record conf := mkConf {
  c_frag : Z;                              (* limits.Frag *)
  c_packets : Z;                           (* limits.Packets *)
  c_own : Z;                               (* Session.ID, non-empty *)
  c_inter : bool;                          (* the argument of next(): true = return nil when idle *)
  c_ptags : option (list Z) }.             (* Some t: an active proxy whose tags() are t *)

Record state := mkS { s_q : list packet; s_peek : option packet; s_last : Z }.

Definition pending (st : state) : list packet :=
  match s_peek st with Some p => p :: s_q st | None => s_q st end.

(* pick: peek first, then the queue, else nil / a keep-alive *)
Definition pick (c : conf) (st : state) : option packet * list packet :=
  match s_peek st with
  | Some p => (Some p, s_q st)
  | None => match s_q st with
            | p :: r => (Some p, r)
            | [] => if c_inter c then (None, []) else (Some (keepalive (c_own c) []), [])
            end
  end.

(* for n.Flags.Group() == l && len(s.send) > 0 { n = <-s.send } *)
Fixpoint skip_group (l : Z) (n : packet) (q : list packet) : packet * list packet :=
  match q with
  | p :: r => if f_group (p_fl n) =? l then skip_group l p r else (n, q)
  | [] => (n, [])
  end.

Definition finish (c : conf) (n : packet) (q : list packet) (t : list Z) : option tx * state :=
  match next_packet (c_frag c) (c_packets c) (c_own c) (Some n) q t with
  | (o, k, rest) =>
    (match o with Some x => Some (tx_set_tags x (merge_tags (tx_tags x) t)) | None => None end, mkS rest k 0)
  end.

(* Session.next *)
Definition session_next (c : conf) (st : state) : option tx * state :=
  match pick c st with
  | (None, q) => (None, mkS q None (s_last st))
  | (Some n0, q) =>
    let n := match c_ptags c with Some t => set_tags n0 t | None => n0 end in
    if is_nil q && is_own (c_own c) n then (Some (as_tx (norm (c_own c) n)), mkS [] None 0)
    (* KeyCrypt: a picked packet of our own that carries key material is sent alone; the rest of the
       queue stays queued and state.Last is NOT reset on this path *)
    else if f_crypt (p_fl n) && is_own (c_own c) n then (Some (as_tx (norm (c_own c) n)), mkS q None (s_last st))
    else
      let t := p_tags n in
      if 0 <? s_last st then
        match skip_group (s_last st) n q with
        | (n1, q1) =>
          if f_group (p_fl n1) =? s_last st then (Some (TSingle (keepalive (c_own c) t)), mkS q1 None 0)
          else finish c n1 q1 t
        end
      else finish c n q t
  end.

(* ---- the proxy's queue for one of its clients -------------------------------- *)
(* c2/proxy.go proxyClient.pick / proxyClient.next: the smaller copy of Session.pick / next over
   the same nextPacket.  State: (send queue, peek); s_last is unused and kept 0.  pick is the same
   function (peek first and the slot is emptied, then the queue, else nil / a keep-alive; channel
   mode is outside the model); next has no proxy tags, no key-material rule, no abandoned group
   and no mergeTags (the tags handed to nextPacket are those of the picked packet). *)
Definition pc_next (c : conf) (st : state) : option tx * state :=
  match pick c st with
  | (None, q) => (None, mkS q None 0)
  | (Some n, q) =>
    if is_nil q && is_own (c_own c) n then (Some (as_tx (norm (c_own c) n)), mkS [] None 0)
    else
      match next_packet (c_frag c) (c_packets c) (c_own c) (Some n) q (p_tags n) with
      | (o, k, rest) => (o, mkS rest k 0)
      end
  end.

(* ---- the receiving side ---------------------------------------------------- *)
Record dlv := mkD { d_sid : Z; d_pkt : packet }.   (* session that processes it, the packet *)
Definition dlv_eqb (a b : dlv) : bool := (d_sid a =? d_sid b) && packet_eqb (d_pkt a) (d_pkt b).

(* receive(s, l, p) for a packet that is not a container, after the nop / device tests:
   a delivery is "p reaches receiveSingle or the fragment table of session sid" *)
Definition handle_body (sid : Z) (p : packet) : list dlv * Z :=
  if f_oneshot (p_fl p) then ([], 0)                       (* listener's oneshot handler: outside *)
  else if (p_id p =? SvComplete) && negb (f_crypt (p_fl p)) then ([], 0)
  else if f_multi (p_fl p) then ([], 0)                    (* nested container: not modelled *)
  else if f_frag (p_fl p) then
    if (p_id p =? SvDrop) then ([], 0)                     (* receiver notes the abandoned group *)
    else if (p_id p =? SvRegister) then ([mkD sid p], 0)
    else if f_len (p_fl p) =? 0 then ([], E_COUNT)
    else ([mkD sid p], 0)                                  (* len 1 is handled by the caller *)
  else ([mkD sid p], 0).

Definition handle_pre (sid : Z) (p : packet) : option (list dlv * Z) :=
  if (p_dev p =? 0) || is_nop p then Some ([], 0)
  else if negb (f_mdev (p_fl p)) && negb (sid =? p_dev p) then Some ([], E_DEVICE)
  else None.

Definition single_frag (p : packet) : bool :=
  f_frag (p_fl p) && negb (f_multi (p_fl p)) && negb (f_oneshot (p_fl p)) &&
  negb ((p_id p =? SvComplete) && negb (f_crypt (p_fl p))) &&
  negb (p_id p =? SvDrop) && negb (p_id p =? SvRegister) && (f_len (p_fl p) =? 1).

Definition handle (sid : Z) (p : packet) : list dlv * Z :=
  match handle_pre sid p with
  | Some r => r
  | None =>
    if single_frag p then
      (* n.Flags.Clear(); return receive(s, l, n) *)
      let p' := set_fl p (fl_clear (p_fl p)) in
      match handle_pre sid p' with Some r => r | None => handle_body sid p' end
    else handle_body sid p
  end.

(* the FlagMulti branch of receive: unpack Len packets, stop at the first error *)
Fixpoint recv_inner (sid : Z) (n : nat) (inner : list packet) : list dlv * Z :=
  match n with
  | O => ([], 0)
  | S n' =>
    match inner with
    | [] => ([], E_STREAM)
    | v :: r =>
      match handle sid v with
      | (d, e) => if e =? 0 then (match recv_inner sid n' r with (d', e') => (d ++ d', e') end) else (d, e)
      end
    end
  end.

(* conn.processMultiple with o = true; reg d: a session for device d is registered *)
Fixpoint proc_multi (reg : Z -> bool) (hid : Z) (n : nat) (inner : list packet) : list dlv * Z :=
  match n with
  | O => ([], 0)
  | S n' =>
    match inner with
    | [] => ([], E_STREAM)
    | v0 :: r =>
      if p_dev v0 =? 0 then ([], E_MALFORMED)
      else
        let v := untag v0 in
        let here :=
          if f_multi (p_fl v) || f_mdev (p_fl v) then ([], 0)
          else if f_oneshot (p_fl v) || (hid =? p_dev v) then (fst (handle hid v), 0)   (* error only logged *)
          else if reg (p_dev v) then handle (p_dev v) v                               (* talkSub *)
          else ([], 0) in                                                              (* asks to re-register *)
        match here with
        | (d, e) => if e =? 0 then (match proc_multi reg hid n' r with (d', e') => (d ++ d', e') end) else (d, e)
        end
    end
  end.

(* conn.process(.., n, true) on the session hid of the listener *)
Definition recv_tx (reg : Z -> bool) (hid : Z) (t : tx) : list dlv * Z :=
  match t with
  | TSingle p => if f_mdev (p_fl p) then ([], E_STREAM) (* not modelled *) else handle hid p
  | TMulti c =>
    if f_mdev (c_fl c) then
      if f_len (c_fl c) =? 0 then ([], E_COUNT)
      else proc_multi reg hid (Z.to_nat (f_len (c_fl c))) (c_in c)
    else if c_dev c =? 0 then ([], 0)
    else if negb (hid =? c_dev c) then ([], E_DEVICE)
    else if f_len (c_fl c) =? 0 then ([], E_COUNT)
    else recv_inner hid (Z.to_nat (f_len (c_fl c))) (c_in c)
  end.

(* ---- draining --------------------------------------------------------------- *)
Record step := mkStep { st_tx : tx; st_after : state; st_dlv : list dlv; st_err : Z }.

Fixpoint drain_fuel (c : conf) (reg : Z -> bool) (fuel : nat) (st : state) : list step :=
  match fuel with
  | O => []
  | S f =>
    match session_next c st with
    | (None, _) => []
    | (Some t, st') =>
      match recv_tx reg (c_own c) t with
      | (d, e) =>
        mkStep t st' d e :: (if is_nil (pending st') then [] else drain_fuel c reg f st')
      end
    end
  end.

(* next() is called once per wake-up, then again as long as something is pending *)
Definition drain (c : conf) (reg : Z -> bool) (st : state) : list step :=
  drain_fuel c reg (S (length (pending st))) st.

Definition deliveries (l : list step) : list dlv := flat_map st_dlv l.

(* the client's side of a proxied connection: receive(s, nil, n) on the client's Session *)
Definition recv_client (sid : Z) (t : tx) : list dlv * Z :=
  match t with
  | TSingle p => handle sid p
  | TMulti c =>
    if c_dev c =? 0 then ([], 0)
    else if negb (f_mdev (c_fl c)) && negb (sid =? c_dev c) then ([], E_DEVICE)
    else if f_len (c_fl c) =? 0 then ([], E_COUNT)
    else recv_inner sid (Z.to_nat (f_len (c_fl c))) (c_in c)
  end.

(* a client Session that HOSTS a Proxy: receive(s, nil, n) with s.proxy active.  A packet that names
   another device and carries no FlagMultiDevice is handed to Proxy.accept: if that device is one of
   the proxied clients (prox) it is put on that client's queue as it is (a keep-alive is accepted and
   dropped) - delivery (device, packet) - else the device error.  Everything else as in handle. *)
Definition handle_h (prox : Z -> bool) (sid : Z) (p : packet) : list dlv * Z :=
  if negb ((p_dev p =? 0) || is_nop p) && negb (f_mdev (p_fl p)) && negb (sid =? p_dev p) && prox (p_dev p)
  then ([mkD (p_dev p) p], 0)
  else handle sid p.

Fixpoint recv_inner_h (prox : Z -> bool) (sid : Z) (n : nat) (inner : list packet) : list dlv * Z :=
  match n with
  | O => ([], 0)
  | S n' =>
    match inner with
    | [] => ([], E_STREAM)
    | v :: r =>
      match handle_h prox sid v with
      | (d, e) => if e =? 0 then (match recv_inner_h prox sid n' r with (d', e') => (d ++ d', e') end) else (d, e)
      end
    end
  end.

(* a container addressed to a proxied client (no FlagMultiDevice) is queued whole for it *)
Definition cont_packet (c : cont) : packet :=
  mkP 0 0 (c_dev c) (c_fl c) (c_tags c) (fold_right (fun p a => stream_len p + a) 0 (c_in c)) 0 (c_in c).

Definition recv_host (prox : Z -> bool) (sid : Z) (t : tx) : list dlv * Z :=
  match t with
  | TSingle p => handle_h prox sid p
  | TMulti c =>
    if c_dev c =? 0 then ([], 0)
    else if negb (f_mdev (c_fl c)) && negb (sid =? c_dev c) then
      (if prox (c_dev c) then ([mkD (c_dev c) (cont_packet c)], 0) else ([], E_DEVICE))
    else if f_len (c_fl c) =? 0 then ([], E_COUNT)
    else recv_inner_h prox sid (Z.to_nat (f_len (c_fl c))) (c_in c)
  end.

(* draining towards such a host: the sender is a Session (the server's side of the host) *)
Fixpoint hdrain_fuel (c : conf) (prox : Z -> bool) (fuel : nat) (st : state) : list step :=
  match fuel with
  | O => []
  | S f =>
    match session_next c st with
    | (None, _) => []
    | (Some t, st') =>
      match recv_host prox (c_own c) t with
      | (d, e) =>
        mkStep t st' d e :: (if is_nil (pending st') then [] else hdrain_fuel c prox f st')
      end
    end
  end.
Definition hdrain (c : conf) (prox : Z -> bool) (st : state) : list step :=
  hdrain_fuel c prox (S (length (pending st))) st.

(* what such a host does with packet p arriving on its own: its own handlers, or the queue of the
   proxied device p names *)
Definition direct_h (prox : Z -> bool) (i : Z) (p : packet) : list dlv :=
  fst (handle_h prox i (untag (norm i p))).

(* the client keeps polling: n more calls of next() *)
Fixpoint pc_polls (c : conf) (n : nat) (st : state) : list step :=
  match n with
  | O => []
  | S n' =>
    match pc_next c st with
    | (None, _) => []
    | (Some t, st') =>
      match recv_client (c_own c) t with (d, e) => mkStep t st' d e :: pc_polls c n' st' end
    end
  end.

(* polls until nothing is pending, then `extra` more polls *)
Fixpoint pc_drain_fuel (c : conf) (extra fuel : nat) (st : state) : list step :=
  match fuel with
  | O => []
  | S f =>
    match pc_next c st with
    | (None, _) => []
    | (Some t, st') =>
      match recv_client (c_own c) t with
      | (d, e) =>
        mkStep t st' d e :: (if is_nil (pending st') then pc_polls c extra st' else pc_drain_fuel c extra f st')
      end
    end
  end.

Definition pc_drain (c : conf) (extra : nat) (st : state) : list step :=
  pc_drain_fuel c extra (S (length (pending st))) st.

(* ---- specification side ------------------------------------------------------ *)
(* what Session.next removes because the peer abandoned group l: the leading run of packets
   of that group (a lone packet of our own is sent anyway; so is a picked packet of our own that
   carries key material, and then group l stays abandoned for the call after it) *)
Fixpoint abandon (i l : Z) (q : list packet) : list packet :=
  match q with
  | [] => []
  | n :: r =>
    if is_nil r && is_own i n then q
    else if f_crypt (p_fl n) && is_own i n then n :: abandon i l r
    else if 0 <? l then
      match skip_group l n r with (n1, q1) => if f_group (p_fl n1) =? l then [] else n1 :: q1 end
    else q
  end.

(* what the peer does with packet p when it arrives on its own *)
Definition direct (i : Z) (p : packet) : list dlv := fst (handle (p_dev (norm i p)) (untag (norm i p))).

Definition tag_ok (t : Z) : bool := (0 <? t) && (t <? 4294967296).

(* what a session can have in its queue (and where the model is faithful): not a container or
   oneshot, a fragment carries a count (or is a drop / re-register notice), the job number is
   assigned (verifyPacket draws a random one for Job 0), tags are valid, the length is a length;
   a packet flagged as key material (FlagCrypt) is modelled without payload only: the payload of
   such a packet is read by the peer's key machinery (Listener.notify -> keyCryptAndUpdate, C06),
   it is not data for the handlers *)
Definition queueable (p : packet) : bool :=
  negb (f_multi (p_fl p)) && negb (f_mdev (p_fl p)) && negb (f_oneshot (p_fl p)) &&
  (negb (f_frag (p_fl p)) || (1 <=? f_len (p_fl p)) || (p_id p =? SvDrop) || (p_id p =? SvRegister)) &&
  ((1 <=? p_job p) || f_proxy (p_fl p) || (p_id p <? 2)) &&
  (negb (f_crypt (p_fl p)) || (p_len p =? 0)) &&
  forallb tag_ok (p_tags p) && (0 <=? p_len p).
(* ... and fits a fragment (C02 guarantees it for what Session.write queues) *)
Definition sendable (F : Z) (p : packet) : bool := queueable p && (psize p <=? F).

(* a queued container as another session's next() builds it: it counts the packets it holds, they
   are ordinary packets with a device; an own container holds own packets only, the packets of a
   foreign one are ours or belong to devices registered at the receiving listener *)
Definition cont_ok (reg : Z -> bool) (i : Z) (p : packet) : bool :=
  is_cont p && (1 <=? f_len (p_fl p)) && (f_len (p_fl p) =? len (p_in p)) &&
  forallb (fun v => queueable v && negb (p_dev v =? 0) &&
                    ((p_dev v =? i) || (negb (is_own i p) && reg (p_dev v)))) (p_in p).
(* a queued item: an ordinary packet (own, or for a registered device) or such a container *)
Definition item_ok (reg : Z -> bool) (i : Z) (p : packet) : bool :=
  if is_cont p then cont_ok reg i p else queueable p && (is_own i p || reg (p_dev p)).
(* the packets a queue holds, containers opened *)
Definition flatten (q : list packet) : list packet := flat_map expand q.

(* an ordinary data packet: the peer hands it to receiveSingle / the fragment table unchanged *)
Definition plain (p : packet) : bool :=
  negb ((p_id p =? SvComplete) && negb (f_crypt (p_fl p))) &&
  (negb (f_frag (p_fl p)) || ((2 <=? f_len (p_fl p)) && negb (p_id p =? SvDrop) && negb (p_id p =? SvRegister))).

Definition untag_d (d : dlv) : dlv := mkD (d_sid d) (untag (d_pkt d)).
(* delivered to the session of its own device, tags aside *)
Definition to_own (i : Z) (p : packet) : dlv := mkD (p_dev (norm i p)) (untag (norm i p)).

(* every foreign device in the list has a session on the receiving listener *)
Definition all_reg (reg : Z -> bool) (i : Z) (l : list packet) : Prop :=
  Forall (fun p => is_own i p = true \/ reg (p_dev p) = true) l.

Definition first_packet (t : tx) : option packet :=
  match t with TSingle p => Some p | TMulti c => match c_in c with v :: _ => Some v | [] => None end end.

(* the tags next() starts from: those of the packet picked first, or the proxy's *)
Definition first_tags (c : conf) (st : state) : list Z :=
  match fst (pick c st) with
  | Some n0 => match c_ptags c with Some t => t | None => p_tags n0 end
  | None => []
  end.

Definition wf_conf (c : conf) : Prop := c_own c <> 0 /\ c_packets c < 65536.

Definition sum_size (l : list packet) : Z := fold_right (fun p a => psize p + a) 0 l.
Definition sum_stream (l : list packet) : Z := fold_right (fun p a => stream_len p + a) 0 l.

Definition tx_packets (t : tx) : list packet := match t with TSingle p => [p] | TMulti c => c_in c end.

Definition incl_b (a b : list Z) : bool := forallb (fun x => existsb (Z.eqb x) b) a.
Definition set_eqb (a b : list Z) : bool := incl_b a b && incl_b b a.

(* ---- correspondence cases ------------------------------------------------------ *)
(* one observed transmission *)
Record obs := mkO {
  o_multi : bool;                      (* FlagMulti set on what next() returned *)
  o_id : Z; o_job : Z; o_dev : Z; o_fl : flags; o_tags : list Z;
  o_plen : Z;                          (* Chunk.Size() of the returned packet *)
  o_size : Z;                          (* its Size() *)
  o_cid : Z;                           (* content id when not a container, else 0 *)
  o_peek : option (Z * Z);             (* (job, content id) of Session.peek afterwards *)
  o_qlen : Z;                          (* len(Session.send) afterwards *)
  o_dlv : list dlv;                    (* mux events, in order (packets with ID >= MvRefresh that are not stored fragments) *)
  o_frags : list dlv;                  (* packets newly stored in fragment tables (order across groups not observable) *)
  o_err : Z }.

(* compact constructors used by the harness: the flag word is decoded here, not in Go *)
Definition fw (w : Z) : flags :=
  mkF (Z.testbit w 0) (Z.testbit w 1) (Z.testbit w 2) (Z.testbit w 3) (Z.testbit w 4) (Z.testbit w 5)
      (Z.testbit w 6) (Z.testbit w 7) (Z.testbit w 8) ((w / 512) mod 128)
      ((w / 65536) mod 65536) ((w / 4294967296) mod 65536) ((w / 281474976710656) mod 65536).
Definition pk (id job dev w : Z) (tags : list Z) (ln cid : Z) : packet := mkP id job dev (fw w) tags ln cid [].
(* a queued container: ln = Chunk.Size() = the stream forms of `inner` *)
Definition pkc (id job dev w : Z) (tags : list Z) (ln : Z) (inner : list packet) : packet :=
  mkP id job dev (fw w) tags ln 0 inner.
Definition dl (sid id job dev w : Z) (tags : list Z) (ln cid : Z) : dlv := mkD sid (pk id job dev w tags ln cid).
Definition ob (id job dev w : Z) (tags : list Z) (plen size cid : Z) (peek : option (Z * Z)) (qlen : Z)
              (d f : list dlv) (err : Z) : obs :=
  mkO (Z.testbit w 1) id job dev (fw w) tags plen size cid peek qlen d f err.

Inductive case :=
| CDrain (c : conf) (reg : list Z) (last : Z) (q : list packet) (out : list obs)
| CProxy (c : conf) (extra : Z) (q : list packet) (out : list obs)    (* a proxyClient queue, polled by its client *)
| CHost (c : conf) (prox : list Z) (last : Z) (q : list packet) (out : list obs).  (* the receiver hosts a Proxy *)

Definition tx_obs_head (t : tx) : bool * Z * Z * Z * flags * list Z * Z * Z * Z :=
  match t with
  | TSingle p => (f_multi (p_fl p), p_id p, p_job p, p_dev p, p_fl p, p_tags p, p_len p, psize p, p_cid p)
  | TMulti c =>
    let pl := sum_stream (c_in c) in
    (f_multi (c_fl c), 0, 0, c_dev c, c_fl c, c_tags c, pl, psize (mkP 0 0 (c_dev c) (c_fl c) (c_tags c) pl 0 []), 0)
  end.

Definition stored_frag (d : dlv) : bool :=
  f_frag (p_fl (d_pkt d)) && negb (p_id (d_pkt d) =? SvRegister).
Definition mux_visible (d : dlv) : bool := negb (stored_frag d) && (MvRefresh <=? p_id (d_pkt d)).

(* observed packets: an active proxy's tags() iterates a Go map, so the ORDER of tags that stem
   from it is unspecified even on packed packets: tags are compared as sets of equal size *)
Definition packet_obs_eqb (a b : packet) : bool :=
  (p_id a =? p_id b) && (p_job a =? p_job b) && (p_dev a =? p_dev b) && flags_eqb (p_fl a) (p_fl b) &&
  set_eqb (p_tags a) (p_tags b) && (len (p_tags a) =? len (p_tags b)) && (p_len a =? p_len b) && (p_cid a =? p_cid b).
Definition dlv_obs_eqb (a b : dlv) : bool := (d_sid a =? d_sid b) && packet_obs_eqb (d_pkt a) (d_pkt b).

Definition perm_b (a b : list dlv) : bool :=
  (len a =? len b) && forallb (fun x => existsb (dlv_obs_eqb x) b) a && forallb (fun x => existsb (dlv_obs_eqb x) a) b.

Fixpoint all2 {A B} (f : A -> B -> bool) (a : list A) (b : list B) : bool :=
  match a, b with
  | [], [] => true
  | x :: a', y :: b' => f x y && all2 f a' b'
  | _, _ => false
  end.

Definition peek_eqb (a : option packet) (b : option (Z * Z)) : bool :=
  match a, b with
  | None, None => true
  | Some p, Some (j, c) => (p_job p =? j) && (p_cid p =? c)
  | _, _ => false
  end.

Definition step_matches (s : step) (o : obs) : bool :=
  match tx_obs_head (st_tx s) with
  | (mu, id, job, dev, fl, tags, pl, sz, cid) =>
    Bool.eqb mu (o_multi o) && (id =? o_id o) && (job =? o_job o) && (dev =? o_dev o) && flags_eqb fl (o_fl o) &&
    set_eqb tags (o_tags o) && (pl =? o_plen o) && (cid =? o_cid o) &&
    (* Size() counts the tags, and mergeTags removes duplicates in an unspecified way only when
       both lists are non-empty: compare it through the observed tag count *)
    (psize (mkP id job dev fl (o_tags o) pl 0 []) =? o_size o) &&
    peek_eqb (s_peek (st_after s)) (o_peek o) && (len (s_q (st_after s)) =? o_qlen o) &&
    list_eqb dlv_obs_eqb (filter mux_visible (st_dlv s)) (o_dlv o) &&
    perm_b (filter stored_frag (st_dlv s)) (o_frags o) &&
    (st_err s =? o_err o)
  end.

(* towards a proxy host the observation is per destination: the host's mux, then each proxied
   client's queue (in the order of prox): the model's deliveries are grouped the same way *)
Definition by_dest (i : Z) (prox : list Z) (l : list dlv) : list dlv :=
  filter mux_visible (filter (fun d => d_sid d =? i) l) ++
  flat_map (fun x => filter (fun d => (d_sid d =? x) && negb (x =? i)) l) prox.

Definition step_matches_h (i : Z) (prox : list Z) (s : step) (o : obs) : bool :=
  match tx_obs_head (st_tx s) with
  | (mu, id, job, dev, fl, tags, pl, sz, cid) =>
    Bool.eqb mu (o_multi o) && (id =? o_id o) && (job =? o_job o) && (dev =? o_dev o) && flags_eqb fl (o_fl o) &&
    set_eqb tags (o_tags o) && (pl =? o_plen o) && (cid =? o_cid o) &&
    (psize (mkP id job dev fl (o_tags o) pl 0 []) =? o_size o) &&
    peek_eqb (s_peek (st_after s)) (o_peek o) && (len (s_q (st_after s)) =? o_qlen o) &&
    list_eqb dlv_obs_eqb (by_dest i prox (st_dlv s)) (o_dlv o) &&
    perm_b (filter stored_frag (filter (fun d => d_sid d =? i) (st_dlv s))) (o_frags o) &&
    (st_err s =? o_err o)
  end.

Definition check (c : case) : bool :=
  match c with
  | CDrain cf reg last q out =>
    all2 step_matches (drain cf (fun d => existsb (Z.eqb d) reg) (mkS q None last)) out
  | CProxy cf extra q out =>
    all2 step_matches (pc_drain cf (Z.to_nat extra) (mkS q None 0)) out
  | CHost cf prox last q out =>
    all2 (step_matches_h (c_own cf) prox) (hdrain cf (fun d => existsb (Z.eqb d) prox) (mkS q None last)) out
  end.
