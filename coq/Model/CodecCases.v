(* Model/CodecCases.v -- correspondence cases for C10 with generator-described payloads
   (large byte strings are never written literally into a case file). *)
From XMT Require Import Base.Prelude Model.Codec.

(* deterministic payload bytes, reproduced by the Go harness *)
Fixpoint gen_from (n : nat) (seed i : Z) : list Z :=
  match n with O => [] | S n' => ((seed + i * 131 + i / 251) mod 256) :: gen_from n' seed (i + 1) end.
Definition gen (seed n : Z) : list Z := gen_from (Z.to_nat n) seed 0.

(* Adler-32-like checksum *)
Definition cksum (b : list Z) : Z :=
  let '(a, s) := fold_left (fun '(a, s) x => let a' := (a + x) mod 65521 in (a', (s + a') mod 65521)) b (1, 0) in
  a + 65536 * s.

(* long byte strings are compared by (length, checksum): marker -1 cannot be a byte *)
Definition dig_bytes (b : list Z) : list Z := if len b <=? 48 then b else [-1; len b; cksum b].
Definition digest (v : value) : value :=
  match v with
  | VBytes t b => VBytes t (dig_bytes b)
  | VStrList l => VStrList (map dig_bytes l)
  | x => x
  end.

(* chop a byte list into the chunks a scripted reader will deliver: the cut sizes are cycled *)
Fixpoint chop (fuel : nat) (cuts all : list Z) (b : list Z) : src :=
  match fuel with
  | O => [b]
  | S f =>
    match b with
    | [] => []
    | _ => match cuts with
           | [] => chop f all all b
           | c :: cs => let c' := if c <? 1 then 1 else c in take c' b :: chop f cs all (drop c' b)
           end
    end
  end.
Definition chop_all (cuts : list Z) (b : list Z) : src :=
  match cuts with [] => (match b with [] => [] | _ => [b] end) | _ => chop (2 * length b + 2) cuts cuts b end.

Inductive ccase :=
(* both writers produced these bytes for vs (the harness checks they are identical) *)
| KEnc (vs : list value) (n : Z) (sum : Z)
(* input = first k bytes of (enc_seq vs ++ tail); read as ts by the chunk reader (stream = false)
   or by the stream reader over the chunks given by cuts; out = digested values and bytes left *)
| KRead (stream : bool) (vs : list value) (tail : list Z) (k : Z) (cuts : list Z) (ts : list ty)
        (out : res (list value * Z))
(* literal input (forged class bytes, random bytes) *)
| KRaw (stream : bool) (input : list Z) (cuts : list Z) (ts : list ty) (out : res (list value * Z)).

Definition run_read (stream : bool) (input : list Z) (cuts : list Z) (ts : list ty) : res (list value * Z) :=
  if stream then do '(vs, r) <- srd_seq ts (chop_all cuts input); Ok (map digest vs, src_len r)
  else do '(vs, r) <- rd_seq ts input; Ok (map digest vs, len r).

Definition ccheck (c : ccase) : bool :=
  match c with
  | KEnc vs n sum => let b := enc_seq vs in (len b =? n) && (cksum b =? sum)
  | KRead st vs tail k cuts ts o => out_eqb (run_read st (take k (enc_seq vs ++ tail)) cuts ts) o
  | KRaw st input cuts ts o => out_eqb (run_read st input cuts ts) o
  end.
