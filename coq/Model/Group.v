(* Model/Group.v -- C17: multi-group profiles (c2/cfg/group.go, the tail of Config.Build).
   Definitions only.

   A Group holds `entries` (distinct *profile pointers, sorted once by sort.Sort in Build), a
   lazily initialised cursor `cur` (nil until the first Switch / accessor) and the selector id.
   Pointers are distinct, so the model identifies an entry with its POSITION in `entries`:
   the cursor is `option Z` (None = nil).  Random draws (util.FastRandN) are inputs. *)
From XMT Require Import Base.Prelude.

(* selector ids (c2/cfg/group.go) *)
Definition SelLastValid : Z := 170.        (* 0xAA *)
Definition SelRoundRobin : Z := 171.       (* 0xAB *)
Definition SelRandom : Z := 172.           (* 0xAC *)
Definition SelSemiRoundRobin : Z := 173.   (* 0xAD *)
Definition SelSemiRandom : Z := 174.       (* 0xAE *)
Definition SelSemiLastValid : Z := 167.    (* 0xA7 *)

Definition cur_eqb : option Z -> option Z -> bool := option_eqb Z.eqb.
Definition is_some {A} (o : option A) : bool := match o with Some _ => true | None => false end.

(* ---- Group.Switch ---------------------------------------------------- *)

(* does the `if g.cur != nil { ... }` prologue call util.FastRandN(4)?  (short-circuit order of
   the three tests as written) *)
Definition uses_gate (sel : Z) (cur : option Z) (e : bool) : bool :=
  is_some cur &&
  ((negb e && (sel =? SelSemiLastValid)) || (sel =? SelSemiRandom) || (sel =? SelSemiRoundRobin)).

(* the prologue returns false (cursor kept); g is the value FastRandN(4) returned, if called *)
Definition stay (sel : Z) (cur : option Z) (e : bool) (g : Z) : bool :=
  is_some cur &&
  ((negb e && (sel =? SelLastValid))
   || (negb e && (sel =? SelSemiLastValid) && negb (g =? 0))
   || (((sel =? SelSemiRandom) || (sel =? SelSemiRoundRobin)) && negb (g =? 0))).

Definition zrange (n : Z) : list Z := map Z.of_nat (seq 0 (Z.to_nat n)).

(* the `for i := range g.entries` loop: c = position of g.cur, f = "found" flag; returns the
   position selected inside the loop (if any) and the final flag *)
Fixpoint rr_loop (idxs : list Z) (c : Z) (f : bool) : option Z * bool :=
  match idxs with
  | [] => (None, f)
  | i :: r => if i =? c then rr_loop r c true
              else if f then (Some i, f) else rr_loop r c f
  end.

(* the loop and the two statements after it *)
Definition rr_advance (n c : Z) : option Z * bool :=
  match rr_loop (zrange n) c false with
  | (Some i, _) => (Some i, true)
  | (None, f) => if f && (c =? 0) then (Some c, false) else (Some 0, true)
  end.

(* Switch(e) on a group with n entries; g = result of FastRandN(4) (if called), p = result of
   FastRandN(n) (if called).  Result: new cursor, returned bool. *)
Definition switch (sel n : Z) (cur : option Z) (e : bool) (g p : Z) : option Z * bool :=
  if n <=? 0 then (cur, false)
  else if stay sel cur e g then (cur, false)
  else if (sel =? SelRandom) || (sel =? SelSemiRandom) then
    (if cur_eqb cur (Some p) then (cur, false) else (Some p, true))
  else match cur with
       | None => (Some 0, true)
       | Some c => rr_advance n c
       end.

(* does Switch call FastRandN(len(entries))? *)
Definition uses_pick (sel n : Z) (cur : option Z) (e : bool) (g : Z) : bool :=
  (0 <? n) && negb (stay sel cur e g) && ((sel =? SelRandom) || (sel =? SelSemiRandom)).

(* draws as a list consumed in call order; `calls` records (argument, value) of every
   FastRandN call so that the consumption itself is compared with the implementation *)
Definition take_draw (ds : list Z) : Z * list Z :=
  match ds with [] => (0, []) | d :: r => (d, r) end.

Definition gate_of (sel : Z) (cur : option Z) (e : bool) (ds : list Z) : Z :=
  if uses_gate sel cur e then fst (take_draw ds) else 0.
Definition after_gate (sel : Z) (cur : option Z) (e : bool) (ds : list Z) : list Z :=
  if uses_gate sel cur e then snd (take_draw ds) else ds.
Definition pick_of (sel n : Z) (cur : option Z) (e : bool) (ds : list Z) : Z :=
  if uses_pick sel n cur e (gate_of sel cur e ds) then fst (take_draw (after_gate sel cur e ds)) else 0.
Definition after_pick (sel n : Z) (cur : option Z) (e : bool) (ds : list Z) : list Z :=
  if uses_pick sel n cur e (gate_of sel cur e ds) then snd (take_draw (after_gate sel cur e ds))
  else after_gate sel cur e ds.
Definition switch_calls (sel n : Z) (cur : option Z) (e : bool) (ds : list Z) : list (Z * Z) :=
  (if uses_gate sel cur e then [(4, gate_of sel cur e ds)] else []) ++
  (if uses_pick sel n cur e (gate_of sel cur e ds) then [(n, pick_of sel n cur e ds)] else []).
Definition switch_d (sel n : Z) (cur : option Z) (e : bool) (ds : list Z) : option Z * bool :=
  switch sel n cur e (gate_of sel cur e ds) (pick_of sel n cur e ds).

(* ---- entries and accessors ---------------------------------------------- *)
(* what the harness can tell apart about a profile entry; all numbers are ids chosen by the
   harness (host ids, wrapper/transform/connector kinds), times in ns / unix seconds *)
Record entry := mkE {
  e_weight : Z; e_hosts : list Z; e_wrap : Z; e_trans : Z; e_sleep : Z; e_jitter : Z;
  e_kill : Z; e_kds : bool; e_work : Z; e_keys : list Z; e_conn : Z }.

Definition b2z (b : bool) : Z := if b then 1 else 0.
Definition zero_time_unix : Z := -62135596800.   (* time.Time{}.Unix() *)

Inductive op :=
| OSwitch (e : bool)
| ONext | OSleep | OJitter | OKill | OWork
| OTrusted (h : Z) (empty : bool)      (* TrustedKey(k): h = k.Hash(), empty = k.Empty() *)
| OConnect.

(* g.init(): if g.cur == nil { g.Switch(false) } *)
Definition init_cur (sel n : Z) (cur : option Z) (ds : list Z) : option Z :=
  match cur with None => fst (switch_d sel n None false ds) | Some _ => cur end.
Definition init_calls (sel n : Z) (cur : option Z) (ds : list Z) : list (Z * Z) :=
  match cur with None => switch_calls sel n None false ds | Some _ => [] end.
Definition init_rest (sel n : Z) (cur : option Z) (ds : list Z) : list Z :=
  match cur with None => after_pick sel n None false ds | Some _ => ds end.

Definition current (ents : list entry) (cur : option Z) : option entry :=
  match cur with
  | None => None
  | Some i => if i <? 0 then None else nth_error ents (Z.to_nat i)
  end.

(* profile.Next: the host draw happens only with two or more hosts *)
Definition host_pick (hosts : list Z) (ds : list Z) : Z :=
  match hosts with
  | [] => -1
  | [h] => h
  | _ => nth (Z.to_nat (fst (take_draw ds))) hosts (-2)
  end.
Definition host_calls (hosts : list Z) (ds : list Z) : list (Z * Z) :=
  match hosts with
  | [] => [] | [_] => []
  | _ => [(len hosts, fst (take_draw ds))]
  end.

Definition trusted (keys : list Z) (h : Z) (empty : bool) : bool :=
  if empty then false else if is_nil keys then true else existsb (Z.eqb h) keys.

(* accessor on the profile entry itself *)
Definition access (en : entry) (o : op) (ds : list Z) : list Z :=
  match o with
  | OSwitch _ => [0]                       (* (profile).Switch is constant false *)
  | ONext => [host_pick (e_hosts en) ds; e_wrap en; e_trans en]
  | OSleep => [e_sleep en]
  | OJitter => [e_jitter en]
  | OKill => [e_kill en; b2z (e_kds en)]
  | OWork => [e_work en]
  | OTrusted h em => [b2z (trusted (e_keys en) h em)]
  | OConnect => [e_conn en]
  end.
Definition access_calls (en : entry) (o : op) (ds : list Z) : list (Z * Z) :=
  match o with ONext => host_calls (e_hosts en) ds | _ => [] end.

(* what a Group accessor returns when the cursor is still nil after init (no entries) *)
Definition nil_result (o : op) : list Z :=
  match o with
  | OSwitch _ => [0]
  | ONext => [-1; 0; 0]
  | OSleep => [-1]
  | OJitter => [-1]
  | OKill => [zero_time_unix; 0]
  | OWork => [-1]
  | OTrusted _ em => [b2z (negb em)]
  | OConnect => [-1]
  end.

Definition cur_code (c : option Z) : Z := match c with None => -1 | Some i => i end.

(* one call on a *Group: observed values, new cursor, FastRandN calls made *)
Definition step_cur (sel : Z) (ents : list entry) (cur : option Z) (o : op) (ds : list Z) : option Z :=
  match o with
  | OSwitch e => fst (switch_d sel (len ents) cur e ds)
  | _ => init_cur sel (len ents) cur ds
  end.
Definition step_vals (sel : Z) (ents : list entry) (cur : option Z) (o : op) (ds : list Z) : list Z :=
  match o with
  | OSwitch e => [b2z (snd (switch_d sel (len ents) cur e ds))]
  | _ => match current ents (init_cur sel (len ents) cur ds) with
         | None => nil_result o
         | Some en => access en o (init_rest sel (len ents) cur ds)
         end
  end.
Definition step_calls (sel : Z) (ents : list entry) (cur : option Z) (o : op) (ds : list Z) : list (Z * Z) :=
  match o with
  | OSwitch e => switch_calls sel (len ents) cur e ds
  | _ => init_calls sel (len ents) cur ds ++
         match current ents (init_cur sel (len ents) cur ds) with
         | None => []
         | Some en => access_calls en o (init_rest sel (len ents) cur ds)
         end
  end.

Definition obs := (list Z * Z * list (Z * Z))%type.    (* values, cursor position (-1 nil), calls *)

Fixpoint run (sel : Z) (ents : list entry) (cur : option Z) (ops : list (op * list Z)) : list obs :=
  match ops with
  | [] => []
  | (o, ds) :: r =>
      (step_vals sel ents cur o ds, cur_code (step_cur sel ents cur o ds), step_calls sel ents cur o ds)
      :: run sel ents (step_cur sel ents cur o ds) r
  end.

(* a single-group Config builds to a bare *profile: no cursor, Switch is constant false *)
Definition prun (en : entry) (ops : list (op * list Z)) : list obs :=
  map (fun od => (access en (fst od) (snd od), 0, access_calls en (fst od) (snd od))) ops.

(* ---- the weight order established by Build (sort.Sort is not stable) ------ *)
(* `order` lists, for each position of g.entries, the index of the configured group placed
   there.  Any permutation with non-increasing weights is accepted. *)
Definition in_range (n i : Z) : bool := (0 <=? i) && (i <? n).
Fixpoint nodupb (l : list Z) : bool :=
  match l with [] => true | x :: r => negb (existsb (Z.eqb x) r) && nodupb r end.
Fixpoint desc_sorted (l : list Z) : bool :=
  match l with
  | [] => true
  | x :: r => match r with [] => true | y :: _ => (y <=? x) && desc_sorted r end
  end.
Definition weight_at (ws : list Z) (i : Z) : Z := nth (Z.to_nat i) ws (-1).
Definition valid_order (ws order : list Z) : bool :=
  (len order =? len ws) && forallb (in_range (len ws)) order && nodupb order
  && desc_sorted (map (weight_at ws) order).

(* Group.Less *)
Definition less (ws : list Z) (i j : Z) : bool := weight_at ws j <? weight_at ws i.

(* reference sort (insertion, stable) -- only to show that a valid order always exists and what
   it is when the weights are pairwise different *)
Fixpoint insert_desc (ws : list Z) (i : Z) (l : list Z) : list Z :=
  match l with
  | [] => [i]
  | j :: r => if weight_at ws j <? weight_at ws i then i :: l else j :: insert_desc ws i r
  end.
Definition sort_desc (ws : list Z) : list Z := fold_right (insert_desc ws) [] (zrange (len ws)).

(* Build: the selector of the LAST group that names one wins; 0 when none does *)
Definition effective_sel (sels : list Z) : Z :=
  fold_left (fun g s => if 0 <? s then s else g) sels 0.

Fixpoint pick_entries (cfgd : list entry) (order : list Z) : option (list entry) :=
  match order with
  | [] => Some []
  | i :: r => match (if i <? 0 then None else nth_error cfgd (Z.to_nat i)), pick_entries cfgd r with
              | Some e, Some l => Some (e :: l)
              | _, _ => None
              end
  end.

(* ---- the consumer: Session.listen / connectContextInner (c2/session.go, c2/c2.go) ------ *)
(* what the session holds between passes: the host it talks to and the wrapper / transform it
   wraps every exchange with *)
Record held := mkH { h_host : Z; h_wrap : Z; h_trans : Z }.

(* `if h, s.w, s.t = s.p.Next(); len(h) > 0 { s.host.Set(h) }` -- vals is what Next returned
   ([host; wrapper; transform], host -1 = the empty string): wrapper and transform are always
   taken, the host only when the group names one *)
Definition take_next (hd : held) (vals : list Z) : held :=
  match vals with
  | [h; w; t] => mkH (if h =? -1 then h_host hd else h) w t
  | _ => hd
  end.

(* at start (connectContextInner: `h, w, t := p.Next()`) and at a Profile swap (listen): one
   Next() on the new profile, whose cursor is still nil; ds = the FastRandN results it consumes *)
Definition consumer_enter (sel : Z) (ents : list entry) (hd : held) (ds : list Z) : option Z * held :=
  (step_cur sel ents None ONext ds, take_next hd (step_vals sel ents None ONext ds)).

(* one pass of the listen loop: `if s.p.Switch(e) { h, s.w, s.t = s.p.Next(); ... }`;
   ds1 = draws of Switch, ds2 = draws of Next (when called) *)
Definition consumer_pass (sel : Z) (ents : list entry) (st : option Z * held) (e : bool) (ds1 ds2 : list Z)
  : option Z * held :=
  let cur1 := step_cur sel ents (fst st) (OSwitch e) ds1 in
  if snd (switch_d sel (len ents) (fst st) e ds1)
  then (step_cur sel ents cur1 ONext ds2, take_next (snd st) (step_vals sel ents cur1 ONext ds2))
  else (cur1, snd st).

(* what a Connect shows: the connector it went through (the active entry's) and what the
   session holds: [connector; host; wrapper; transform] *)
Definition connect_event (sel : Z) (ents : list entry) (st : option Z * held) : list Z :=
  step_vals sel ents (fst st) OConnect [] ++ [h_host (snd st); h_wrap (snd st); h_trans (snd st)].

Record pass := mkPass { ps_e : bool; ps_ds1 : list Z; ps_ds2 : list Z }.

Fixpoint consumer_passes (sel : Z) (ents : list entry) (st : option Z * held) (ps : list pass)
  : list (list Z) * (option Z * held) :=
  match ps with
  | [] => ([], st)
  | p :: r =>
      let st1 := consumer_pass sel ents st (ps_e p) (ps_ds1 p) (ps_ds2 p) in
      let '(evs, stf) := consumer_passes sel ents st1 r in
      (connect_event sel ents st1 :: evs, stf)
  end.

(* a life of a session: segments = the profiles it runs with (the first at start, the others by
   a Profile swap); the first segment begins with the initial Connect *)
Record segment := mkSeg { sg_sel : Z; sg_ents : list entry; sg_enter : list Z; sg_passes : list pass }.

Fixpoint consumer_segments (hd : held) (first : bool) (segs : list segment) : list (list Z) :=
  match segs with
  | [] => []
  | sg :: r =>
      let st0 := consumer_enter (sg_sel sg) (sg_ents sg) hd (sg_enter sg) in
      (* connectContextInner: `if len(h) == 0 { return nil, ErrNoHost }` -- no session, no Connect *)
      if first && (h_host (snd st0) =? -1) then []
      else
      let '(evs, stf) := consumer_passes (sg_sel sg) (sg_ents sg) st0 (sg_passes sg) in
      (if first then [connect_event (sg_sel sg) (sg_ents sg) st0] else []) ++ evs
      ++ consumer_segments (snd stf) false r
  end.

Definition no_held : held := mkH (-1) 0 0.

(* the failure flag listen hands to Switch: `e` is true exactly when the PREVIOUS attempt failed --
   at Connect (`e = true` in the error branch) or in the exchange after a successful Connect
   (`e = !s.session(c)`).  An attempt's outcome = (Connect failed, exchange failed); the first
   pass follows the initial Connect of connectContextInner, which succeeded *)
Definition attempt_failed (o : bool * bool) : bool := fst o || snd o.
Definition expected_flags (outs : list (bool * bool)) : list bool := map attempt_failed outs.
Definition flags_of (segs : list segment) : list bool := flat_map (fun sg => map ps_e (sg_passes sg)) segs.
Fixpoint bools_prefix (a b : list bool) : bool :=      (* a is a prefix of b *)
  match a, b with
  | [], _ => true
  | x :: a', y :: b' => Bool.eqb x y && bools_prefix a' b'
  | _, [] => false
  end.

(* ---- correspondence cases ---------------------------------------------- *)
Definition pair_eqb (a b : Z * Z) : bool := (fst a =? fst b) && (snd a =? snd b).
Definition obs_eqb (a b : obs) : bool :=
  zlist_eqb (fst (fst a)) (fst (fst b)) && (snd (fst a) =? snd (fst b)) && list_eqb pair_eqb (snd a) (snd b).

Inductive case :=
(* a Config with >= 2 groups built by the real Build: per-group selector bytes (0 = none), the
   configured entries, the observed order of g.entries, the observed g.sel, a history *)
| CGroup (sels : list Z) (cfgd : list entry) (order : list Z) (sel_obs : Z)
         (ops : list (op * list Z)) (outs : list obs)
(* a *Group assembled by the shim from the first k sorted entries with an arbitrary selector byte *)
| CRaw (sel : Z) (ents : list entry) (ops : list (op * list Z)) (outs : list obs)
(* a single-group Config: Build returns the bare profile *)
| CProfile (en : entry) (ops : list (op * list Z)) (outs : list obs)
(* the real Session.listen over built multi-group profiles: per segment the configured groups,
   the observed order of g.entries and g.sel, the draws of the entering Next and the passes
   (e handed to Switch, draws of Switch, draws of Next); events = per Connect
   [connector; host; s.w; s.t];
   outs = per attempt (Connect failed, exchange failed), attempt 0 = the initial Connect *)
| CListen (segs : list (list entry * list Z * Z * list Z * list pass)) (events : list (list Z))
          (outs : list (bool * bool)).

Fixpoint build_segments (l : list (list entry * list Z * Z * list Z * list pass)) : option (list segment) :=
  match l with
  | [] => Some []
  | (cfgd, order, sel, enter, ps) :: r =>
      if valid_order (map e_weight cfgd) order then
        match pick_entries cfgd order, build_segments r with
        | Some ents, Some segs => Some (mkSeg sel ents enter ps :: segs)
        | _, _ => None
        end
      else None
  end.

Definition check (c : case) : bool :=
  match c with
  | CGroup sels cfgd order sel_obs ops outs =>
      (effective_sel sels =? sel_obs) && (len sels =? len cfgd) &&
      valid_order (map e_weight cfgd) order &&
      match pick_entries cfgd order with
      | None => false
      | Some ents => list_eqb obs_eqb (run sel_obs ents None ops) outs
      end
  | CRaw sel ents ops outs => list_eqb obs_eqb (run sel ents None ops) outs
  | CProfile en ops outs => list_eqb obs_eqb (prun en ops) outs
  | CListen segs events outs =>
      match build_segments segs with
      | None => false
      | Some sg => list_eqb zlist_eqb (consumer_segments no_held true sg) events
                   && bools_prefix (flags_of sg) (expected_flags outs)
      end
  end.
