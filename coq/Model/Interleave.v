(* Model/Interleave.v -- C13: interleaving semantics of threads that share one 32-bit word, and
   the small language in which tools/atomics2v describes the sync/atomic calls of
   state.Set / Unset / SetLast (Gen/StateAtomics.v).  Definitions only.

   A thread is a list of ATOMIC steps plus a program counter and one local register (the value
   returned by its last atomic load).  One step is exactly one sync/atomic call of the Go code.
   A schedule is a list of thread ids; `run_sched` executes it; a thread that has finished (or
   an id that names no thread) stutters.  Theorems quantify over ALL schedules. *)
From XMT Require Import Base.Prelude.

(* ---- generic machine ---------------------------------------------------- *)
Inductive ctl : Type := Next | Goto (pc : nat).
(* shared word -> local register -> (shared word', local register', control) *)
Definition step : Type := Z -> Z -> Z * Z * ctl.

Record thread : Type := Thread { code : list step; pc : nat; reg : Z }.

Definition finished (t : thread) : bool := (length (code t) <=? pc t)%nat.

Definition thread_step (w : Z) (t : thread) : Z * thread :=
  match nth_error (code t) (pc t) with
  | None => (w, t)
  | Some s =>
      let '(w', r', c) := s w (reg t) in
      (w', Thread (code t) (match c with Next => S (pc t) | Goto k => k end) r')
  end.

Fixpoint set_nth {A} (l : list A) (i : nat) (x : A) : list A :=
  match l, i with
  | [], _ => []
  | _ :: r, O => x :: r
  | y :: r, S i' => y :: set_nth r i' x
  end.

Definition config : Type := (Z * list thread)%type.

Definition sched_step (c : config) (i : nat) : config :=
  match nth_error (snd c) i with
  | None => c
  | Some t => let '(w', t') := thread_step (fst c) t in (w', set_nth (snd c) i t')
  end.

Definition run_sched (c : config) (sched : list nat) : config := fold_left sched_step sched c.

(* a schedule is complete for a configuration when it leaves every thread finished *)
Definition all_done (c : config) : bool := forallb finished (snd c).

(* ---- the language of the translator -------------------------------------- *)
(* value expressions: Cur = the value returned by the preceding atomic load, Arg = the method's
   argument.  Shl is the unbounded shift; the translator wraps it in U16/U32 according to the
   Go type of the operand, so `uint32(v) << 16` is  U32 (Shl (U32 Arg) 16). *)
Inductive expr : Type :=
| ECur | EArg | EConst (c : Z)
| EOr (a b : expr) | EAnd (a b : expr) | EAndNot (a b : expr)
| EShl (a : expr) (k : Z) | EShr (a : expr) (k : Z)
| EU16 (a : expr) | EU32 (a : expr).

Fixpoint eval (e : expr) (cur arg : Z) : Z :=
  match e with
  | ECur => cur
  | EArg => arg
  | EConst c => c
  | EOr a b => Z.lor (eval a cur arg) (eval b cur arg)
  | EAnd a b => Z.land (eval a cur arg) (eval b cur arg)
  | EAndNot a b => Z.ldiff (eval a cur arg) (eval b cur arg)
  | EShl a k => Z.shiftl (eval a cur arg) k
  | EShr a k => Z.shiftr (eval a cur arg) k
  | EU16 a => u16 (eval a cur arg)
  | EU32 a => u32 (eval a cur arg)
  end.

(* one sync/atomic call on the state word *)
Inductive aop : Type :=
| ALoad                  (* atomic.LoadUint32(p)                      : reg := word *)
| AStore (e : expr)      (* atomic.StoreUint32(p, e)                  : word := e[Cur := reg] *)
| ACas (e : expr)        (* atomic.CompareAndSwapUint32(p, reg, e)    : succeeds iff word = reg *)
| AOr (e : expr)         (* atomic.OrUint32(p, e)                     : word := word | e *)
| AAnd (e : expr).       (* atomic.AndUint32(p, e)                    : word := word & e *)

(* control shape around the calls:
   LoadStore : the calls run once, in program order, nothing is retried;
   CasLoop   : `for { o := load; if cas(o, e) { return } }` -- a failed CAS goes back to the load;
   AtomicRMW : a single read-modify-write call;
   Unknown   : anything the translator does not recognise (no theorem applies). *)
Inductive shape : Type := LoadStore | CasLoop | AtomicRMW | Unknown.

Record mutator : Type := Mutator { m_shape : shape; m_ops : list aop }.

Definition step_of (arg : Z) (o : aop) : step :=
  fun w r =>
    match o with
    | ALoad => (w, w, Next)
    | AStore e => (eval e r arg, r, Next)
    | ACas e => if w =? r then (eval e r arg, r, Next) else (w, r, Goto 0%nat)
    | AOr e => (Z.lor w (eval e r arg), r, Next)
    | AAnd e => (Z.land w (eval e r arg), r, Next)
    end.

(* the thread executing one call of the mutator with argument arg.  For the shape Unknown the
   thread has no steps: nothing is claimed about it. *)
Definition instantiate (m : mutator) (arg : Z) : thread :=
  match m_shape m with
  | Unknown => Thread [] 0 0
  | _ => Thread (map (step_of arg) (m_ops m)) 0 0
  end.

(* the shapes whose every execution commits in ONE atomic step: the word changes only in the
   successful CAS (where word = reg, so the new value is a function of the word itself) or in
   the single RMW call *)
Definition linearisable (m : mutator) : bool :=
  match m_shape m, m_ops m with
  | CasLoop, [ALoad; ACas _] => true
  | AtomicRMW, [AOr _] => true
  | AtomicRMW, [AAnd _] => true
  | _, _ => false
  end.

(* the function such a mutator applies to the word at its commit point *)
Definition commit_fn (m : mutator) (arg : Z) (w : Z) : Z :=
  match m_ops m with
  | [ALoad; ACas e] => eval e w arg
  | [AOr e] => Z.lor w (eval e w arg)
  | [AAnd e] => Z.land w (eval e w arg)
  | _ => w
  end.

(* what a load-then-store mutator writes when nothing intervenes (its sequential meaning) *)
Definition seq_fn (m : mutator) (arg : Z) (w : Z) : Z :=
  fst (fold_left (fun '(w, r) o => let '(w', r', _) := step_of arg o w r in (w', r')) (m_ops m) (w, 0)).
