(* Model/Interleave.v -- C13: interleaving semantics of threads that share one 32-bit word, and
   the small language in which tools/atomics2v describes the sync/atomic calls of
   state.Set / Unset / SetLast (Gen/StateAtomics.v).  Definitions only.

   A thread is a list of ATOMIC steps plus a program counter and one local register (the value
   returned by its last atomic load).  One step is exactly one sync/atomic call of the Go code.
   A schedule is a list of thread ids; `run_sched` executes it; a thread that has finished (or
   an id that names no thread) stutters.  Theorems quantify over ALL schedules. *)
From XMT Require Import Base.Prelude Model.State.

(* ---- generic machine ---------------------------------------------------- *)
Inductive ctl : Type := Next | Goto (pc : nat).
(* shared word -> local register -> (shared word', local register', control) *)
Definition step : Type := Z -> Z -> Z * Z * ctl.

Record thread : Type := Thread { code : list step; pc : nat; reg : Z }.

Definition finished (t : thread) : bool := (length (code t) <=? pc t)%nat.

Definition thread_step (w : Z) (t : thread) : Z * thread :=
  match nth_error (code t) (pc t) with
  | None => (w, t)
  | Some s =>
      let '(w', r', c) := s w (reg t) in
      (w', Thread (code t) (match c with Next => S (pc t) | Goto k => k end) r')
  end.

Fixpoint set_nth {A} (l : list A) (i : nat) (x : A) : list A :=
  match l, i with
  | [], _ => []
  | _ :: r, O => x :: r
  | y :: r, S i' => y :: set_nth r i' x
  end.

Definition config : Type := (Z * list thread)%type.

Definition sched_step (c : config) (i : nat) : config :=
  match nth_error (snd c) i with
  | None => c
  | Some t => let '(w', t') := thread_step (fst c) t in (w', set_nth (snd c) i t')
  end.

Definition run_sched (c : config) (sched : list nat) : config := fold_left sched_step sched c.

(* a schedule is complete for a configuration when it leaves every thread finished *)
Definition all_done (c : config) : bool := forallb finished (snd c).

(* ---- the language of the translator -------------------------------------- *)
(* value expressions: Cur = the value returned by the preceding atomic load, Arg = the method's
   argument.  Shl is the unbounded shift; the translator wraps it in U16/U32 according to the
   Go type of the operand, so `uint32(v) << 16` is  U32 (Shl (U32 Arg) 16). *)
Inductive expr : Type :=
| ECur | EArg | EConst (c : Z)
| EOr (a b : expr) | EAnd (a b : expr) | EAndNot (a b : expr)
| EShl (a : expr) (k : Z) | EShr (a : expr) (k : Z)
| EU16 (a : expr) | EU32 (a : expr).

Fixpoint eval (e : expr) (cur arg : Z) : Z :=
  match e with
  | ECur => cur
  | EArg => arg
  | EConst c => c
  | EOr a b => Z.lor (eval a cur arg) (eval b cur arg)
  | EAnd a b => Z.land (eval a cur arg) (eval b cur arg)
  | EAndNot a b => Z.ldiff (eval a cur arg) (eval b cur arg)
  | EShl a k => Z.shiftl (eval a cur arg) k
  | EShr a k => Z.shiftr (eval a cur arg) k
  | EU16 a => u16 (eval a cur arg)
  | EU32 a => u32 (eval a cur arg)
  end.

(* one sync/atomic call on the state word *)
Inductive aop : Type :=
| ALoad                  (* atomic.LoadUint32(p)                      : reg := word *)
| AStore (e : expr)      (* atomic.StoreUint32(p, e)                  : word := e[Cur := reg] *)
| ACas (e : expr)        (* atomic.CompareAndSwapUint32(p, reg, e)    : succeeds iff word = reg *)
| AOr (e : expr)         (* atomic.OrUint32(p, e)                     : word := word | e *)
| AAnd (e : expr).       (* atomic.AndUint32(p, e)                    : word := word & e *)

(* control shape around the calls:
   LoadStore : the calls run once, in program order, nothing is retried;
   CasLoop   : `for { o := load; if cas(o, e) { return } }` -- a failed CAS goes back to the load;
   AtomicRMW : a single read-modify-write call;
   Unknown   : anything the translator does not recognise (no theorem applies). *)
Inductive shape : Type := LoadStore | CasLoop | AtomicRMW | Unknown.

Record mutator : Type := Mutator { m_shape : shape; m_ops : list aop }.

Definition step_of (arg : Z) (o : aop) : step :=
  fun w r =>
    match o with
    | ALoad => (w, w, Next)
    | AStore e => (eval e r arg, r, Next)
    | ACas e => if w =? r then (eval e r arg, r, Next) else (w, r, Goto 0%nat)
    | AOr e => (Z.lor w (eval e r arg), r, Next)
    | AAnd e => (Z.land w (eval e r arg), r, Next)
    end.

(* the thread executing one call of the mutator with argument arg.  For the shape Unknown the
   thread has no steps: nothing is claimed about it. *)
Definition instantiate (m : mutator) (arg : Z) : thread :=
  match m_shape m with
  | Unknown => Thread [] 0 0
  | _ => Thread (map (step_of arg) (m_ops m)) 0 0
  end.

(* the shapes whose every execution commits in ONE atomic step: the word changes only in the
   successful CAS (where word = reg, so the new value is a function of the word itself) or in
   the single RMW call *)
Definition linearisable (m : mutator) : bool :=
  match m_shape m, m_ops m with
  | CasLoop, [ALoad; ACas _] => true
  | AtomicRMW, [AOr _] => true
  | AtomicRMW, [AAnd _] => true
  | _, _ => false
  end.

(* the function such a mutator applies to the word at its commit point.  A read-modify-write call
   evaluates its operand with the register still at its initial value 0 (the translator refuses an
   operand that mentions a loaded value). *)
Definition commit_fn (m : mutator) (arg : Z) (w : Z) : Z :=
  match m_ops m with
  | [ALoad; ACas e] => eval e w arg
  | [AOr e] => Z.lor w (eval e 0 arg)
  | [AAnd e] => Z.land w (eval e 0 arg)
  | _ => w
  end.

(* what a load-then-store mutator writes when nothing intervenes (its sequential meaning) *)
Definition seq_fn (m : mutator) (arg : Z) (w : Z) : Z :=
  fst (fold_left (fun '(w, r) o => let '(w', r', _) := step_of arg o w r in (w', r')) (m_ops m) (w, 0)).

(* ---- concurrent calls ------------------------------------------------------ *)
(* one call = a mutator with its argument; thread i of the initial configuration executes call i *)
Definition call : Type := (mutator * Z)%type.
Definition thread_of (c : call) : thread := instantiate (fst c) (snd c).
Definition commit (c : call) (w : Z) : Z := commit_fn (fst c) (snd c) w.
Definition init (w0 : Z) (cs : list call) : config := (w0, map thread_of cs).

(* the calls applied one after the other, each in one piece, in the given order of thread ids *)
Definition apply_calls (cs : list call) (order : list nat) (w0 : Z) : Z :=
  fold_left (fun w i => match nth_error cs i with Some c => commit c w | None => w end) order w0.

Definition inb (i : nat) (l : list nat) : bool := existsb (Nat.eqb i) l.

(* ---- the calls of the state word --------------------------------------------- *)
(* a call of one of the three mutators of c2/state.go, its meaning on the word in one piece
   (Model/State.v), and the thread that executes it given the atomic shapes of the three methods
   (the translated ones of Gen/StateAtomics.v, or the old ones of the regression section) *)
Inductive mcall : Type := MSet (v : Z) | MUnset (v : Z) | MSetLast (g : Z).

Definition mcall_fn (c : mcall) (w : Z) : Z :=
  match c with MSet v => st_set w v | MUnset v => st_unset w v | MSetLast g => st_setlast w g end.

Definition to_call (mset munset msetlast : mutator) (c : mcall) : call :=
  match c with MSet v => (mset, v) | MUnset v => (munset, v) | MSetLast g => (msetlast, g) end.

(* the calls applied in one piece in the given order of thread ids *)
Definition apply_mcalls (cs : list mcall) (order : list nat) (w0 : Z) : Z :=
  fold_left (fun w i => match nth_error cs i with Some c => mcall_fn c w | None => w end) order w0.

Definition sets_bit (k : Z) (c : mcall) : bool := match c with MSet v => Z.testbit v k | _ => false end.
Definition clears_bit (k : Z) (c : mcall) : bool := match c with MUnset v => Z.testbit v k | _ => false end.
(* the argument stays inside the half the method owns *)
Definition arg_in_half (c : mcall) : Prop :=
  match c with MSet v => half_ok v | MUnset v => half_ok v | MSetLast g => half_ok g end.
Definition is_flag_call (c : mcall) : bool := match c with MSetLast _ => false | _ => true end.
(* the effect of the call on the flag half alone *)
Definition flag_fn (c : mcall) (w : Z) : Z := match c with MSetLast _ => w | _ => mcall_fn c w end.

(* the flag calls alone, and the group left by the last SetLast, in the given order *)
Definition apply_flag_calls (cs : list mcall) (order : list nat) (w0 : Z) : Z :=
  fold_left (fun w i => match nth_error cs i with Some c => flag_fn c w | None => w end) order w0.
Definition last_group (cs : list mcall) (order : list nat) (g0 : Z) : Z :=
  fold_left (fun g i => match nth_error cs i with Some (MSetLast g') => g' | _ => g end) order g0.

(* every thread in turn, two scheduling slots each (load, compare-and-swap) *)
Definition serial_sched (n : nat) : list nat := flat_map (fun i => [i; i]) (seq 0 n).

(* ---- the lost-update witness -------------------------------------------------- *)
(* two threads; thread 0 executes its first atomic call, thread 1 runs to completion, thread 0
   executes the rest: [T0.load; T1.load; T1.store; T0.store] for load-then-store mutators.  The
   surplus entries let a retry loop finish (a finished thread stutters). *)
Definition witness_sched : list nat := [0; 1; 1; 1; 1; 0; 0; 0; 0]%nat.
Definition serial01 : list nat := [0; 0; 0; 0; 1; 1; 1; 1]%nat.
Definition serial10 : list nat := [1; 1; 1; 1; 0; 0; 0; 0]%nat.

Record witness_result : Type := Witness {
  wr_final : Z;            (* the word after witness_sched *)
  wr_done : bool;          (* both calls returned *)
  wr_serial01 : Z;         (* the word when call 0 runs entirely before call 1 *)
  wr_serial10 : Z;         (* ... and the other way round *)
  wr_lost : bool           (* both returned and the word is neither of the two serial results *)
}.

Definition lost_update_witness (c0 c1 : call) (w0 : Z) : witness_result :=
  let cf := run_sched (init w0 [c0; c1]) witness_sched in
  let s01 := run_sched (init w0 [c0; c1]) serial01 in
  let s10 := run_sched (init w0 [c0; c1]) serial10 in
  Witness (fst cf) (all_done cf) (fst s01) (fst s10)
          (all_done cf && all_done s01 && all_done s10 && negb (fst cf =? fst s01) && negb (fst cf =? fst s10)).

(* ---- compound methods ---------------------------------------------------------- *)
(* Tag, ChannelCanStop, ChannelCanStart and SetChannel make SEVERAL sync/atomic calls: loads (the
   getters they call, with their early exits) and the Set/Unset calls.  tools/atomics2v translates
   each of them into a decision tree over its atomic calls, in source order, getters and `e`
   inlined:
     PRet b            the method returns b
     PTest m a b       ONE atomic load of the word, `load & m != 0` ? continue with a : with b
     PCall set arg k   a call of Set (set = true) or Unset (set = false) with the constant arg,
                       executed as the atomic calls of THAT method (its translated shape), then k
     PUnknown          something the translator does not recognise (never finishes: nothing is
                       claimed about it) *)
Inductive prog : Type :=
| PRet (b : bool)
| PTest (m : Z) (ifset ifclear : prog)
| PCall (set : bool) (arg : Z) (k : prog)
| PUnknown.

(* a thread executing a program: what is left of it, the position inside the atomic calls of the
   Set/Unset call it is in, and the register of that call *)
Record pthread : Type := PThread { pt_prog : prog; pt_k : nat; pt_reg : Z }.
Definition pstart (p : prog) : pthread := PThread p 0 0.
Definition pret (t : pthread) : option bool := match pt_prog t with PRet b => Some b | _ => None end.
Definition pfinished (t : pthread) : bool := match pt_prog t with PRet _ => true | _ => false end.

(* two threads and the word *)
Definition pconfig : Type := (Z * pthread * pthread)%type.
Definition pc_word (c : pconfig) : Z := fst (fst c).
Definition pc_a (c : pconfig) : pthread := snd (fst c).
Definition pc_b (c : pconfig) : pthread := snd c.

Section Machine.
  (* the translated shapes of Set and Unset *)
  Variables mset munset : mutator.

  Definition call_ops (set : bool) : list aop :=
    let m := if set then mset else munset in
    match m_shape m with Unknown => [] | _ => m_ops m end.

  (* one scheduling slot of a thread = exactly one sync/atomic call *)
  Definition pstep (w : Z) (t : pthread) : Z * pthread :=
    match pt_prog t with
    | PRet _ => (w, t)
    | PUnknown => (w, t)
    | PTest m a b => (w, pstart (if ld_and w m then a else b))
    | PCall set arg k =>
        match nth_error (call_ops set) (pt_k t) with
        | None => (w, t)
        | Some o =>
            let '(w', r', c) := step_of arg o w (pt_reg t) in
            let k' := match c with Next => S (pt_k t) | Goto j => j end in
            if (length (call_ops set) <=? k')%nat then (w', pstart k)
            else (w', PThread (PCall set arg k) k' r')
        end
    end.

  (* thread id 0 = the first thread, 1 = the second, any other id stutters *)
  Definition pstep2 (c : pconfig) (i : nat) : pconfig :=
    let '(w, a, b) := c in
    match i with
    | O => let '(w', a') := pstep w a in (w', a', b)
    | S O => let '(w', b') := pstep w b in (w', a, b')
    | _ => c
    end.

  Definition prun (c : pconfig) (sched : list nat) : pconfig := fold_left pstep2 sched c.
  Definition pinit (w0 : Z) (pa pb : prog) : pconfig := (w0, pstart pa, pstart pb).

  (* one program alone, to completion *)
  Fixpoint run_alone (fuel : nat) (w : Z) (t : pthread) : option bool * Z :=
    match fuel with
    | O => (pret t, w)
    | S n => if pfinished t then (pret t, w) else let '(w', t') := pstep w t in run_alone n w' t'
    end.
  Definition run_prog (p : prog) (w : Z) : option bool * Z := run_alone 64 w (pstart p).

  (* a thread that can never move: an unrecognised program, or a Set/Unset call whose method was
     not recognised (no atomic calls) *)
  Definition pblocked (t : pthread) : bool :=
    match pt_prog t with
    | PUnknown => true
    | PCall set _ _ => match nth_error (call_ops set) (pt_k t) with None => true | Some _ => false end
    | _ => false
    end.

  (* EVERY interleaving: P holds in every configuration reachable by any schedule, and within
     `fuel` slots per path both threads have returned
  (written with `if` throughout: andb/orb evaluate both arguments under vm_compute) *)
  Fixpoint explore (P : pconfig -> bool) (fuel : nat) (c : pconfig) : bool :=
    if P c then
      match fuel with
      | O => if pfinished (pc_a c) then pfinished (pc_b c) else false
      | S n =>
          if (if pfinished (pc_a c) then true else if pblocked (pc_a c) then false else explore P n (pstep2 c 0%nat))
          then (if pfinished (pc_b c) then true else if pblocked (pc_b c) then false else explore P n (pstep2 c 1%nat))
          else false
      end
    else false.

  (* a schedule leading to a configuration where P fails (the check prints it) *)
  Fixpoint find_bad (P : pconfig -> bool) (fuel : nat) (c : pconfig) : option (list nat) :=
    if negb (P c) then Some [] else
    match fuel with
    | O => None
    | S n =>
        match (if pfinished (pc_a c) || pblocked (pc_a c) then None else find_bad P n (pstep2 c 0%nat)) with
        | Some s => Some (0%nat :: s)
        | None =>
            match (if pfinished (pc_b c) || pblocked (pc_b c) then None else find_bad P n (pstep2 c 1%nat)) with
            | Some s => Some (1%nat :: s)
            | None => None
            end
        end
    end.

  (* ---- the channel request protocol under concurrency -------------------------- *)
  (* a channel is running: the poller is past its first exit *)
  Definition chan_active (w : Z) : bool := negb (st_closing w) && st_channel w.

  (* Thread a = one SetChannel(e) call, thread b = one ChannelCanStop call (`poller`), initial word
     w0 with a running channel.  In every reachable configuration:
     1. SetChannel answers whether the request differs from the standing one (as alone);
     2. the poller answers "stop" only because of an OFF request: this one, or an earlier one whose
        notice was still pending in w0 -- it never acts on a notice with the value of another request;
     3. once both have returned and the request differed: the standing request is e, and
        - if the notice is gone, the poller consumed it and its answer is the one for e;
        - if the notice is pending, the next poll consumes it (exactly that) and answers for e;
        so the request is never lost, and after that poll a further one sees no notice. *)
  Definition protocol_ok (poller : prog) (e : bool) (w0 : Z) (c : pconfig) : bool :=
    let '(w, ts, tp) := c in
    negb (chan_active w0) ||
    ((match pret ts with Some rs => eqb rs (request_differs e w0) | None => true end) &&
     (match pret tp with
      | Some true => negb e || (st_channel_updated w0 && negb (st_channel_value w0))
      | _ => true
      end) &&
     (match pret ts, pret tp with
      | Some true, Some rp =>
          eqb (st_channel_value w) e &&
          (if st_channel_updated w
           then let '(r2, w2) := run_prog poller w in
                (match r2 with Some b => eqb b (negb e) | None => false end) &&
                negb (st_channel_updated w2) && eqb (st_channel_value w2) e
           else eqb rp (negb e))
      | _, _ => true
      end)).

  (* Thread b = one ChannelCanStart call: it never writes, and its answer is the answer for the
     word before the request or for the word after it *)
  Definition canstart_ok (e : bool) (w0 : Z) (c : pconfig) : bool :=
    let '(w, ts, tp) := c in
    let after := negb (st_closed w0) &&
                 (st_channel w0 || (if request_differs e w0 then e else st_channel_value w0)) in
    (match pret tp with
     | Some r => eqb r (st_channel_can_start w0) || eqb r after
     | None => true
     end) &&
    (match pret ts, pret tp with
     | Some rs, Some _ =>
         eqb rs (request_differs e w0) &&
         eqb (st_channel_value w) (if rs then e else st_channel_value w0) &&
         eqb (st_channel_updated w) (rs || st_channel_updated w0)
     | _, _ => true
     end).
End Machine.

(* the masks a program tests or writes *)
Fixpoint prog_mask (p : prog) : Z :=
  match p with
  | PRet _ => 0
  | PUnknown => 0
  | PTest m a b => Z.lor m (Z.lor (prog_mask a) (prog_mask b))
  | PCall _ arg k => Z.lor arg (prog_mask k)
  end.
Fixpoint prog_known (p : prog) : bool :=
  match p with
  | PRet _ => true
  | PUnknown => false
  | PTest m a b => (0 <=? m) && prog_known a && prog_known b
  | PCall _ arg k => (0 <=? arg) && prog_known k
  end.
(* the words below 2^16 made of bits of M only *)
Definition submasks (M : Z) : list Z := filter (fun x => Z.land x M =? x) flag_states.

(* slots per path: more than any interleaving of two compound calls needs *)
Definition protocol_fuel : nat := 40.

(* the bits the channel protocol reads or writes: Closed, Closing, Channel, ChannelValue,
   ChannelUpdated, ChannelProxy.  Every other bit of the word is carried along unchanged. *)
Definition proto_mask : Z := 3852.
(* every mask a program tests or writes lies inside proto_mask *)
Fixpoint prog_in (p : prog) : bool :=
  match p with
  | PRet _ => true
  | PUnknown => false
  | PTest m a b => (Z.land m proto_mask =? m) && prog_in a && prog_in b
  | PCall _ arg k => (Z.land arg proto_mask =? arg) && prog_in k
  end.

(* ---- a failing schedule of the channel protocol (printed by the check) ------------------- *)
Fixpoint first_bad {A} (f : Z -> option A) (l : list Z) : option (Z * A) :=
  match l with
  | [] => None
  | x :: r => match f x with Some a => Some (x, a) | None => first_bad f r end
  end.

Record protocol_witness : Type := ProtocolWitness {
  pw_request : bool;              (* the e of SetChannel(e) *)
  pw_word0 : Z;                   (* initial word *)
  pw_sched : list nat;            (* thread ids: 0 = SetChannel, 1 = ChannelCanStop *)
  pw_word : Z;                    (* the word reached *)
  pw_setchannel : option bool;    (* answers, if returned *)
  pw_canstop : option bool;
  pw_next_poll : option bool      (* the answer of one more ChannelCanStop from that word *)
}.

(* the first (request, word, schedule) reaching a configuration where protocol_ok fails: the words
   Ready|Channel|ChannelValue and Ready|Channel first, then every word made of protocol bits *)
Definition protocol_counterexample (mset munset : mutator) (poller : prog) (sc : bool -> prog)
  : option protocol_witness :=
  let words := 770 :: 258 :: submasks proto_mask in
  let search e := first_bad (fun x => find_bad mset munset (protocol_ok mset munset poller e x) protocol_fuel
                                               (pinit x (sc e) poller)) words in
  let mk e (r : Z * list nat) :=
    let '(x, s) := r in
    let c := prun mset munset (pinit x (sc e) poller) s in
    ProtocolWitness e x s (pc_word c) (pret (pc_a c)) (pret (pc_b c))
                    (fst (run_prog mset munset poller (pc_word c))) in
  match search false with
  | Some r => Some (mk false r)
  | None => match search true with Some r => Some (mk true r) | None => None end
  end.
