(* Model/Exchange.v -- C05: the abstract client/server exchange machine.  Definitions only.

   One `sess` is the PAIR of ends of one client session: the server-side Session (job table
   Session.jobs, finished Jobs, send queue + peek) and the client-side Session (tasks received
   whose tasker goroutine has not finished, execution log, result queue + peek), plus the key
   epoch of either end and the mode bit.  The global state maps a device to its `sess`; a
   step only touches the `sess` of the device it names (packets reach only their own session:
   property C15 is assumed by construction).

   What the atomic steps abstract (anchors: c2/session.go listen/session/next/pick,
   c2/session_no_implant.go Task/handle/newJobID, c2/channel.go handle/process,
   c2/listener.go talk, c2/vars.go receive/nextPacket, c2/mux.go, c2/job.go):
   - `Exchange c kc ks ok`: one connection.  The client sends the first `kc` packets of its
     result queue (ANY kc: this abstracts nextPacket's batching, write()'s fragmentation and
     the carry-over into `peek`: what is not sent stays queued in order = C02/C03), the server
     handles each with the semantics of Session.handle (C14), then the server sends the first
     `ks` packets of its send queue and the client hands every task to a tasker goroutine
     (the inbox).  kc = 0 or ks = 0 is one direction of a channel.  ok = false (or different
     key epochs, C06) means the connection is garbled or cut: what was taken from the queues
     is lost.
   - `Run c i`: the tasker goroutine of the i-th received task finishes (ANY order): the task
     is executed ONCE through `run` and its result queued (Session.queue: dropped when the
     128-slot queue is full).
   - `Task c j pl`: Session.Task with the id j drawn by newJobID; refused (no Job) when j < 2,
     j is already tracked (C14 contract) or the send queue is full (ErrFullBuffer).
   - `Dup c j r`: a further result packet for job j reaches the server (re-delivery).
   - ChannelOn/Off queue a flag packet (job 0) and set the mode bit, Rekey bumps the key epoch
     of the client and (both = true: the reply was not lost, C06) of the server, KeepAlive
     has no effect.
   `p_ser` is a ghost serial number (the n-th accepted Task of the session): no decision reads
   it; it names the Job object, since a job id may be drawn again once it is finished. *)
From XMT Require Import Base.Prelude.

Record pkt := Pkt { p_job : Z; p_ser : Z; p_pl : Z }.

Record sess := Sess {
  s_serial : Z;               (* ghost: number of accepted Tasks *)
  s_sched  : list pkt;        (* ghost: every accepted Task, newest first *)
  s_jobs   : list pkt;        (* server: Session.jobs, the tracked (pending) jobs *)
  s_done   : list (pkt * Z);  (* server: finished Jobs with Job.Result, newest first *)
  s_peek   : option pkt;      (* server: Session.peek *)
  s_send   : list pkt;        (* server: Session.send (128 slots) *)
  c_inbox  : list pkt;        (* client: tasks handed to a tasker goroutine, not finished *)
  c_exec   : list pkt;        (* client: execution log, newest first (ghost) *)
  c_peek   : option pkt;      (* client: Session.peek *)
  c_send   : list pkt;        (* client: Session.send; p_pl is the RESULT payload *)
  s_key    : Z;               (* key epoch of the server end *)
  c_key    : Z;               (* key epoch of the client end *)
  s_chan   : bool             (* mode bit: false = polling, true = channel *)
}.

Definition qcap : Z := 128.

Definition init_sess : sess := Sess 0 [] [] [] None [] [] [] None [] 0 0 false.

Definition all_q (pk : option pkt) (q : list pkt) : list pkt :=
  match pk with Some p => p :: q | None => q end.
(* the remainder of a queue after a batch: its head is the carried-over packet *)
Definition repeek (l : list pkt) : option pkt * list pkt :=
  match l with [] => (None, []) | p :: r => (Some p, r) end.

(* everything the server / the client still has to send, in order *)
Definition sq (s : sess) : list pkt := all_q (s_peek s) (s_send s).
Definition rq (s : sess) : list pkt := all_q (c_peek s) (c_send s).

Definition set_sq (l : list pkt) (s : sess) : sess :=
  Sess (s_serial s) (s_sched s) (s_jobs s) (s_done s) (fst (repeek l)) (snd (repeek l))
       (c_inbox s) (c_exec s) (c_peek s) (c_send s) (s_key s) (c_key s) (s_chan s).
Definition set_rq (l : list pkt) (s : sess) : sess :=
  Sess (s_serial s) (s_sched s) (s_jobs s) (s_done s) (s_peek s) (s_send s)
       (c_inbox s) (c_exec s) (fst (repeek l)) (snd (repeek l)) (s_key s) (c_key s) (s_chan s).
(* Session.queue on either end: non-blocking send into the 128-slot channel *)
Definition s_enqueue (p : pkt) (s : sess) : sess :=
  if len (s_send s) <? qcap then
    Sess (s_serial s) (s_sched s) (s_jobs s) (s_done s) (s_peek s) (s_send s ++ [p])
         (c_inbox s) (c_exec s) (c_peek s) (c_send s) (s_key s) (c_key s) (s_chan s)
  else s.
Definition c_enqueue (p : pkt) (s : sess) : sess :=
  if len (c_send s) <? qcap then
    Sess (s_serial s) (s_sched s) (s_jobs s) (s_done s) (s_peek s) (s_send s)
         (c_inbox s) (c_exec s) (c_peek s) (c_send s ++ [p]) (s_key s) (c_key s) (s_chan s)
  else s.
Definition set_inbox (l : list pkt) (s : sess) : sess :=
  Sess (s_serial s) (s_sched s) (s_jobs s) (s_done s) (s_peek s) (s_send s)
       l (c_exec s) (c_peek s) (c_send s) (s_key s) (c_key s) (s_chan s).
Definition add_exec (p : pkt) (s : sess) : sess :=
  Sess (s_serial s) (s_sched s) (s_jobs s) (s_done s) (s_peek s) (s_send s)
       (c_inbox s) (p :: c_exec s) (c_peek s) (c_send s) (s_key s) (c_key s) (s_chan s).
Definition set_table (jobs : list pkt) (done : list (pkt * Z)) (s : sess) : sess :=
  Sess (s_serial s) (s_sched s) jobs done (s_peek s) (s_send s)
       (c_inbox s) (c_exec s) (c_peek s) (c_send s) (s_key s) (c_key s) (s_chan s).
Definition set_keys (ks kc : Z) (s : sess) : sess :=
  Sess (s_serial s) (s_sched s) (s_jobs s) (s_done s) (s_peek s) (s_send s)
       (c_inbox s) (c_exec s) (c_peek s) (c_send s) ks kc (s_chan s).
Definition set_chan (b : bool) (s : sess) : sess :=
  Sess (s_serial s) (s_sched s) (s_jobs s) (s_done s) (s_peek s) (s_send s)
       (c_inbox s) (c_exec s) (c_peek s) (c_send s) (s_key s) (c_key s) b.
(* a Task is accepted: the packet is queued first (write), then the Job is tracked *)
Definition add_job (p : pkt) (s : sess) : sess :=
  Sess (s_serial s + 1) (p :: s_sched s) (p :: s_jobs s) (s_done s) (s_peek s) (s_send s ++ [p])
       (c_inbox s) (c_exec s) (c_peek s) (c_send s) (s_key s) (c_key s) (s_chan s).

(* ---- the job table ------------------------------------------------------ *)
Fixpoint find_job (j : Z) (t : list pkt) : option pkt :=
  match t with
  | [] => None
  | p :: r => if p_job p =? j then Some p else find_job j r
  end.
Fixpoint del_job (j : Z) (t : list pkt) : list pkt :=
  match t with
  | [] => []
  | p :: r => if p_job p =? j then del_job j r else p :: del_job j r
  end.
Definition tracked (j : Z) (s : sess) : bool :=
  match find_job j (s_jobs s) with Some _ => true | None => false end.

(* Session.handle: a result for an id below 2 or for an id that is not tracked (unknown, or
   finished already) is ignored; otherwise the tracked Job takes the result and is removed. *)
Definition handle (s : sess) (q : pkt) : sess :=
  if p_job q <? 2 then s else
  match find_job (p_job q) (s_jobs s) with
  | None => s
  | Some p => set_table (del_job (p_job q) (s_jobs s)) ((p, p_pl q) :: s_done s) s
  end.

(* client receive of one packet of the server's batch: flag / keep-alive packets (job 0) carry
   no task; a task goes to its own tasker goroutine *)
Definition recv_task (s : sess) (t : pkt) : sess :=
  if p_job t <? 2 then s else set_inbox (c_inbox s ++ [t]) s.

(* Session.Task: refusals *)
Definition task_ok (j : Z) (s : sess) : bool :=
  (2 <=? j) && negb (tracked j s) && (len (s_send s) + 1 <? qcap).

(* one connection, packet by packet: the client's batch ... *)
Fixpoint send_results (deliver : bool) (k : nat) (s : sess) : sess :=
  match k with
  | O => s
  | S k' =>
    match rq s with
    | [] => s
    | q :: rest =>
      let s1 := set_rq rest s in
      send_results deliver k' (if deliver then handle s1 q else s1)
    end
  end.
(* ... then the server's batch *)
Fixpoint send_tasks (deliver : bool) (k : nat) (s : sess) : sess :=
  match k with
  | O => s
  | S k' =>
    match sq s with
    | [] => s
    | t :: rest =>
      let s1 := set_sq rest s in
      send_tasks deliver k' (if deliver then recv_task s1 t else s1)
    end
  end.

Fixpoint remove_nth {A} (i : nat) (l : list A) : list A :=
  match l, i with
  | [], _ => []
  | _ :: r, O => r
  | x :: r, S i' => x :: remove_nth i' r
  end.

Inductive label :=
| Task (c j pl : Z)
| Exchange (c : Z) (kc ks : nat) (ok : bool)
| Run (c : Z) (i : nat)
| Dup (c j r : Z)
| ChannelOn (c : Z)
| ChannelOff (c : Z)
| Rekey (c : Z) (both : bool)
| KeepAlive (c : Z).

Definition client_of (l : label) : Z :=
  match l with
  | Task c _ _ | Exchange c _ _ _ | Run c _ | Dup c _ _ | ChannelOn c | ChannelOff c
  | Rekey c _ | KeepAlive c => c
  end.

Definition flag_pkt : pkt := Pkt 0 0 0.

Section Machine.
  Variable run : Z -> Z -> Z.    (* device -> task payload -> result payload *)

  (* the step of the session of device c *)
  Definition sstep (c : Z) (l : label) (s : sess) : sess :=
    match l with
    | Task _ j pl => if task_ok j s then add_job (Pkt j (s_serial s) pl) s else s
    | Exchange _ kc ks ok =>
      let deliver := ok && (s_key s =? c_key s) in
      send_tasks deliver ks (send_results deliver kc s)
    | Run _ i =>
      match nth_error (c_inbox s) i with
      | None => s
      | Some t =>
        c_enqueue (Pkt (p_job t) (p_ser t) (run c (p_pl t)))
                  (add_exec t (set_inbox (remove_nth i (c_inbox s)) s))
      end
    | Dup _ j r => handle s (Pkt j 0 r)
    | ChannelOn _ => if s_chan s then s else s_enqueue flag_pkt (set_chan true s)
    | ChannelOff _ => if s_chan s then s_enqueue flag_pkt (set_chan false s) else s
    | Rekey _ both => set_keys (if both then s_key s + 1 else s_key s) (c_key s + 1) s
    | KeepAlive _ => s
    end.

  Definition state := Z -> sess.
  Definition init : state := fun _ => init_sess.
  Definition upd (st : state) (c : Z) (s : sess) : state :=
    fun c' => if c' =? c then s else st c'.

  Definition step (st : state) (l : label) : state :=
    upd st (client_of l) (sstep (client_of l) l (st (client_of l))).
  Definition run_hist (h : list label) (st : state) : state := fold_left step h st.

  (* ---- draining: a fair round of device c = one intact exchange with non-zero budgets in
     both directions, after which every tasker goroutine that was started finishes ------- *)
  Definition run_all_labels (c : Z) (n : nat) : list label := repeat (Run c O) n.
  Definition round_labels (c : Z) (kc ks : nat) (s : sess) : list label :=
    Exchange c kc ks true ::
    run_all_labels c (length (c_inbox (sstep c (Exchange c kc ks true) s))).
  Definition sround (c : Z) (kc ks : nat) (s : sess) : sess :=
    fold_left (fun s l => sstep c l s) (round_labels c kc ks s) s.

  Definition round := (Z * (nat * nat))%type.
  Definition ground (st : state) (r : round) : state :=
    let '(c, (kc, ks)) := r in run_hist (round_labels c kc ks (st c)) st.
  Definition drain (rs : list round) (st : state) : state := fold_left ground rs st.

  (* the explicit bound: rounds of device c that empty its queues *)
  Definition mu (s : sess) : nat :=
    2 * length (sq s) + 2 * length (c_inbox s) + length (rq s).

  Definition drain_client (c : Z) (st : state) : state :=
    drain (repeat (c, (32%nat, 32%nat)) (mu (st c))) st.
End Machine.

(* ---- hypotheses on histories (what the abstraction takes from the component properties) -- *)
(* safety needs only: a re-delivered result arrives while its id is not tracked again *)
Definition l_safe (l : label) (s : sess) : Prop :=
  match l with
  | Dup _ j _ => tracked j s = false
  | _ => True
  end.
(* liveness needs in addition: fewer outstanding jobs than queue slots (the property's side
   condition), every connection intact (C02/C03: in order, exactly once), every key swap
   completed on both ends (C06) *)
Definition l_live (l : label) (s : sess) : Prop :=
  match l with
  | Task _ _ _ => len (s_jobs s) + 1 < qcap
  | Exchange _ _ _ ok => ok = true
  | Rekey _ both => both = true
  | Dup _ j _ => tracked j s = false
  | _ => True
  end.

Section Hist.
  Variable run : Z -> Z -> Z.
  Fixpoint hist_ok (P : label -> sess -> Prop) (h : list label) (st : state) : Prop :=
    match h with
    | [] => True
    | l :: h' => P l (st (client_of l)) /\ hist_ok P h' (step run st l)
    end.
End Hist.

Definition sers (l : list pkt) : list Z := map p_ser l.
Definition is_task (p : pkt) : bool := 2 <=? p_job p.
Definition tasks_of (l : list pkt) : list pkt := filter is_task l.

(* ---- correspondence ------------------------------------------------------ *)
(* The harness cannot see the batch boundaries of the real exchanges (five goroutines per
   client).  It reports the operator's steps in order (with the accepted flag of every Task),
   the completions it observed (ODone: the implementation HAS delivered that result, so the
   model may drain that session), the key swaps it saw, and per device the accepted results
   (job id, result token read back from the bytes received) and the execution log.  `check`
   runs the abstract machine on that history and compares the outcome as multisets. *)
Inductive op :=
| OTask (c j p : Z) (acc : bool)
| OChan (c : Z) (on : bool)
| ODone (c j : Z)
| ORekey (c : Z).

Inductive case := Case (ncl : Z) (ops : list op) (obs : list (list (Z * Z) * list Z)).

(* the echo tasker of the harness on tokens: the result names the device that ran the task *)
Definition run_echo (c p : Z) : Z := c * 18446744073709551616 + p.

Fixpoint insert_z (x : Z) (l : list Z) : list Z :=
  match l with
  | [] => [x]
  | y :: r => if x <=? y then x :: l else y :: insert_z x r
  end.
Definition sort_z (l : list Z) : list Z := fold_right insert_z [] l.
Definition same_multiset (a b : list Z) : bool := zlist_eqb (sort_z a) (sort_z b).

Definition enc_done (jr : Z * Z) : Z := fst jr + 65536 * snd jr.
(* payload tokens below 2^62 are echo tasks (logged by the harness's tasker); the others are
   SetSleep / SetJitter jobs, executed by the client's own mux and not logged *)
Definition is_echo (p : pkt) : bool := p_pl p <? 4611686018427387904.

(* (state, all accepted flags agreed so far) *)
Definition op_step (acc : state * bool) (o : op) : state * bool :=
  let '(st, good) := acc in
  match o with
  | OTask c j p a =>
    if a then (step run_echo st (Task c j p), good && task_ok j (st c))
    else (st, false)            (* the implementation refused a Task within the capacity *)
  | OChan c on => (step run_echo st (if on then ChannelOn c else ChannelOff c), good)
  | ODone c _ => (drain_client run_echo c st, good)
  | ORekey c => (step run_echo st (Rekey c true), good)
  end.

Fixpoint drain_all (n : nat) (c : Z) (st : state) : state :=
  match n with
  | O => st
  | S n' => drain_all n' (c + 1) (drain_client run_echo c st)
  end.

Fixpoint check_obs (c : Z) (obs : list (list (Z * Z) * list Z)) (st : state) : bool :=
  match obs with
  | [] => true
  | (done, exec) :: r =>
    let s := st c in
    is_nil (s_jobs s) && is_nil (sq s) && is_nil (rq s) && is_nil (c_inbox s) &&
    same_multiset (map enc_done done)
                  (map (fun d => enc_done (p_job (fst d), snd d)) (s_done s)) &&
    same_multiset exec (map p_job (filter is_echo (c_exec s))) &&
    check_obs (c + 1) r st
  end.

Definition check (x : case) : bool :=
  let '(Case ncl ops obs) := x in
  let '(st, good) := fold_left op_step ops (init, true) in
  let st' := drain_all (Z.to_nat ncl) 0 st in
  good && (len obs =? ncl) && check_obs 0 obs st'.
