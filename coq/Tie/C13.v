(* Tie/C13.v -- the state bits of Model/State.v are those of c2/state.go in the tree under check, as read by
   BOTH translators (tools/consts2v through go/types, tools/atomics2v through the AST). *)
From XMT Require Import Base.Prelude Model.State Gen.Consts Gen.StateAtomics.
Example tie_C13 :
  [stateCanRecv; stateReady; stateClosed; stateClosing; stateShutdown; stateSendClose; stateRecvClose; stateWakeClose;
   stateChannel; stateChannelValue; stateChannelUpdated; stateChannelProxy; stateSeen; stateMoving; stateReplacing;
   stateShutdownWait] =
  [c2_stateCanRecv; c2_stateReady; c2_stateClosed; c2_stateClosing; c2_stateShutdown; c2_stateSendClose; c2_stateRecvClose;
   c2_stateWakeClose; c2_stateChannel; c2_stateChannelValue; c2_stateChannelUpdated; c2_stateChannelProxy; c2_stateSeen;
   c2_stateMoving; c2_stateReplacing; c2_stateShutdownWait] /\
  gen_state_bits =
  [c2_stateCanRecv; c2_stateReady; c2_stateClosed; c2_stateClosing; c2_stateShutdown; c2_stateSendClose; c2_stateRecvClose;
   c2_stateWakeClose; c2_stateChannel; c2_stateChannelValue; c2_stateChannelUpdated; c2_stateChannelProxy; c2_stateSeen;
   c2_stateMoving; c2_stateReplacing; c2_stateShutdownWait].
Proof. split; reflexivity. Qed.
