(* Tie/C20.v -- the UTF-16 constants of Model/Utf16.v are those of device/winapi/utf16.go in the tree under check. *)
From XMT Require Import Base.Prelude Model.Utf16 Gen.Consts.
Example tie_C20 :
  utfSelf = winapi_utfSelf /\ utfSurgA = winapi_utfSurgA /\ utfSurgB = winapi_utfSurgB /\
  utfSurgC = winapi_utfSurgC /\ utfRuneMax = winapi_utfRuneMax /\ utfRepl = winapi_utfReplacement.
Proof. repeat split; reflexivity. Qed.
