(* Tie/C07.v -- the framing constants the C07 models were written against, from the tree under check. *)
From XMT Require Import Base.Prelude Gen.Consts.
Example tie_C07 : transform_dnsMax = 2048 /\ transform_dnsSeg = 256 /\ crypto_size = 128.
Proof. repeat split; reflexivity. Qed.
