(* Tie/C17.v -- the selector bytes of Model/Group.v are those of c2/cfg in the tree under check. *)
From XMT Require Import Base.Prelude Model.Group Gen.Consts.
Example tie_C17 :
  SelLastValid = cfg_SelectorLastValid /\ SelRoundRobin = cfg_SelectorRoundRobin /\ SelRandom = cfg_SelectorRandom /\
  SelSemiRoundRobin = cfg_SelectorSemiRoundRobin /\ SelSemiRandom = cfg_SelectorSemiRandom /\
  SelSemiLastValid = cfg_SelectorSemiLastValid.
Proof. repeat split; reflexivity. Qed.
