(* Tie/C03.v -- the literals of Model/Batch.v are the constants of the tree under check.  The budget F and the
   packet count are parameters of the model; the harness passes limits.Frag / limits.Packets of the build
   under test (tag tiny) and this file pins the values the evidence quotes. *)
From XMT Require Import Base.Prelude Model.Batch Gen.Consts.
Example tie_C03 :
  HDR = com_PacketHeaderSize /\ LimitSmall = data_LimitSmall /\ LimitMedium = data_LimitMedium /\
  LimitLarge = data_LimitLarge /\ SvRegister = c2_SvRegister /\ SvComplete = c2_SvComplete /\ SvDrop = c2_SvDrop /\
  MvRefresh = task_MvRefresh /\ limits_tiny_Frag = 262144 /\ limits_tiny_Packets = 32 /\
  limits_Frag = 33554432 /\ limits_Packets = 256.
Proof. repeat split; reflexivity. Qed.
