(* Tie/C10.v -- the length-prefix limits of Model/Codec.v are those of package data in the tree under check. *)
From XMT Require Import Base.Prelude Model.Codec Gen.Consts.
Example tie_C10 :
  MaxSlice = data_MaxSlice /\ LimitSmall = data_LimitSmall /\ LimitMedium = data_LimitMedium /\ LimitLarge = data_LimitLarge.
Proof. repeat split; reflexivity. Qed.
