(* Tie/C01.v -- literals of Model/Packet.v = constants of the tree under check (Gen/Consts.v, regenerated every run). *)
From XMT Require Import Base.Prelude Model.Codec Model.Packet Gen.Consts.
Example tie_C01 :
  PacketMaxTags = com_PacketMaxTags /\ PacketHeaderSize = com_PacketHeaderSize /\ IDSize = device_IDSize /\
  Packet.bufSize = data_bufSize /\ FlagFrag = com_FlagFrag /\ LimitSmall = data_LimitSmall /\
  LimitMedium = data_LimitMedium /\ LimitLarge = data_LimitLarge /\ MaxSlice = data_MaxSlice.
Proof. repeat split; reflexivity. Qed.
