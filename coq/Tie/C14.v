(* Tie/C14.v -- the job status codes of Model/Job.v = those of c2/job.go in the tree under check. *)
From XMT Require Import Base.Prelude Model.Job Gen.Consts.
Example tie_C14 :
  StWaiting = c2_StatusWaiting /\ StAccepted = c2_StatusAccepted /\ StReceiving = c2_StatusReceiving /\
  StCompleted = c2_StatusCompleted /\ StError = c2_StatusError /\ StCanceled = c2_StatusCanceled.
Proof. repeat split; reflexivity. Qed.
