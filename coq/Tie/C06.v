(* Tie/C06.v -- the share size of Model/Keys.v is data.sharedKeySize of the tree under check. *)
From XMT Require Import Base.Prelude Model.Keys Gen.Consts.
Example tie_C06 : Z.of_nat share_size = data_sharedKeySize.
Proof. reflexivity. Qed.
