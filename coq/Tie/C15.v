(* Tie/C15.v -- literals of Model/Table.v = constants of the tree under check. *)
From XMT Require Import Base.Prelude Model.Table Gen.Consts.
Example tie_C15 :
  SvHello = c2_SvHello /\ SvRegister = c2_SvRegister /\ SvComplete = c2_SvComplete /\ MvRefresh = task_MvRefresh /\
  device_IDSize = 32 /\ com_FlagMulti = 2 /\ com_FlagMultiDevice = 128 /\ com_FlagProxy = 4.
Proof. repeat split; reflexivity. Qed.
