(* Tie/C02.v -- literals of Model/Frag.v = constants of the tree under check. *)
From XMT Require Import Base.Prelude Model.Frag Gen.Consts.
Example tie_C02 :
  HeaderSize = com_PacketHeaderSize /\ fragMaxMisses = c2_fragMaxMisses /\ SvResync = c2_SvResync /\
  SvRegister = c2_SvRegister /\ SvComplete = c2_SvComplete /\ SvShutdown = c2_SvShutdown /\ SvDrop = c2_SvDrop /\
  MvRefresh = task_MvRefresh /\ c2_fragMax = 65535 /\ limits_tiny_Frag = 262144 /\ limits_Frag = 33554432 /\
  com_FlagFrag = 1 /\ com_FlagMulti = 2 /\ com_FlagMultiDevice = 128.
Proof. repeat split; reflexivity. Qed.
