(* Tie/C11.v -- the literals used by Model/Chunk.v and Model/Codec.v are the constants of the tree under
   check (Gen/Consts.v is regenerated from /repo by tools/consts2v on every run).  A changed constant
   breaks this file, which the C11 check reports as a broken proof obligation. *)
From XMT Require Import Base.Prelude Model.Codec Model.Chunk Gen.Consts.
Example tie_C11 :
  bufSize = data_bufSize /\ MaxSlice = data_MaxSlice /\ LimitSmall = data_LimitSmall /\
  LimitMedium = data_LimitMedium /\ LimitLarge = data_LimitLarge.
Proof. repeat split; reflexivity. Qed.
