(* Tie/C09.v -- the setting tags, separator and defaults Model/Cfg.v / CfgSettings.v were written against
   (they appear as literals in the models' case analyses), from the tree under check. *)
From XMT Require Import Base.Prelude Model.Cfg Gen.Consts.
Example tie_C09 :
  Separator = cfg_Separator /\ DefaultSleep = cfg_DefaultSleep /\
  [cfg_valHost; cfg_valSleep; cfg_valJitter; cfg_valWeight; cfg_valKillDate; cfg_valWorkHours; cfg_valKeyPin;
   cfg_SelectorSemiLastValid; cfg_valSelectorPercent; cfg_valSelectorPercentRoundRobin; cfg_SelectorLastValid;
   cfg_SelectorRoundRobin; cfg_SelectorRandom; cfg_SelectorSemiRoundRobin; cfg_SelectorSemiRandom;
   cfg_valIP; cfg_valWC2; cfg_valTLSx; cfg_valMuTLS; cfg_valTLSxCA; cfg_valTLSCert;
   cfg_valXOR; cfg_valCBK; cfg_valAES; cfg_valDNS; cfg_valB64Shift] =
  [160; 161; 162; 163; 164; 165; 166; 167; 168; 169; 170; 171; 172; 173; 174; 176; 177; 178; 179; 180; 181; 212; 213; 214; 225; 226].
Proof. repeat split; reflexivity. Qed.
