(* Tie/C04.v -- literals of Model/Decoders.v = constants of the tree under check. *)
From XMT Require Import Base.Prelude Model.Codec Model.Decoders Gen.Consts.
Example tie_C04 :
  IDSize = device_IDSize /\ PacketMaxTags = com_PacketMaxTags /\ infoHello = c2_infoHello /\ infoMigrate = c2_infoMigrate /\
  infoRefresh = c2_infoRefresh /\ infoSync = c2_infoSync /\ infoProxy = c2_infoProxy /\ infoSyncMigrate = c2_infoSyncMigrate /\
  MaxSlice = data_MaxSlice /\ LimitSmall = data_LimitSmall /\ LimitMedium = data_LimitMedium /\ LimitLarge = data_LimitLarge /\
  transform_dnsMax = 2048 /\ transform_dnsSeg = 256 /\ com_PacketHeaderSize = 46 /\ com_FlagFrag = 1 /\ com_FlagMulti = 2 /\
  com_FlagMultiDevice = 128.
Proof. repeat split; reflexivity. Qed.
