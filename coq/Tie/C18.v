(* Tie/C18.v -- constants of Model/Tasks.v and the codec limits, from the tree under check. *)
From XMT Require Import Base.Prelude Model.Codec Model.Tasks Gen.Consts.
Example tie_C18 :
  sentPathDownload = man_sentPathDownload /\ LimitSmall = data_LimitSmall /\ LimitMedium = data_LimitMedium /\
  LimitLarge = data_LimitLarge.
Proof. repeat split; reflexivity. Qed.
