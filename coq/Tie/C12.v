(* Tie/C12.v -- literals of Model/DevInfo.v = constants of the tree under check. *)
From XMT Require Import Base.Prelude Model.DevInfo Gen.Consts.
Example tie_C12 :
  infoHello = c2_infoHello /\ infoMigrate = c2_infoMigrate /\ infoRefresh = c2_infoRefresh /\ infoSync = c2_infoSync /\
  infoProxy = c2_infoProxy /\ infoSyncMigrate = c2_infoSyncMigrate /\ timeSleepJitter = c2_timeSleepJitter /\
  timeKillDate = c2_timeKillDate /\ timeWorkHours = c2_timeWorkHours /\ IDSize = device_IDSize /\
  publicKeySize = data_publicKeySize /\ privateKeySize = data_privateKeySize /\ sharedKeySize = data_sharedKeySize /\
  task_MvTime = 8 /\ task_MvProfile = 18 /\ task_MvProxy = 11 /\ task_MvRefresh = 7.
Proof. repeat split; reflexivity. Qed.
