(* Base/BitLemmas.v -- the few bit-level facts the codec proofs need, stated arithmetically. *)
From XMT Require Import Base.Prelude.

Lemma land_shiftl_low a b k : 0 <= k -> 0 <= b < 2 ^ k -> Z.land (Z.shiftl a k) b = 0.
Proof.
  intros Hk Hb. apply Z.bits_inj'. intros n Hn.
  rewrite Z.land_spec, Z.bits_0.
  destruct (Z.lt_ge_cases n k) as [H|H].
  - rewrite Z.shiftl_spec_low by lia. reflexivity.
  - replace b with (b mod 2 ^ k) by (apply Z.mod_small; lia).
    rewrite Z.mod_pow2_bits_high by lia. apply andb_false_r.
Qed.

Lemma lor_shiftl_add a b k : 0 <= k -> 0 <= b < 2 ^ k -> Z.lor (Z.shiftl a k) b = a * 2 ^ k + b.
Proof.
  intros Hk Hb. rewrite <- Z.shiftl_mul_pow2 by lia.
  rewrite <- Z.lxor_lor by (apply land_shiftl_low; lia).
  symmetry. apply Z.add_nocarry_lxor. apply land_shiftl_low; lia.
Qed.

Lemma land_ones_mod a k : 0 <= k -> Z.land a (2 ^ k - 1) = a mod 2 ^ k.
Proof. intros Hk. rewrite <- Z.land_ones by lia. rewrite Z.ones_equiv. reflexivity. Qed.

Lemma shiftr_div a k : 0 <= k -> Z.shiftr a k = a / 2 ^ k.
Proof. intros. apply Z.shiftr_div_pow2; lia. Qed.

Lemma u8_small x : 0 <= x < 256 -> u8 x = x.
Proof. intros. unfold u8. apply Z.mod_small; lia. Qed.
Lemma u16_small x : 0 <= x < 65536 -> u16 x = x.
Proof. intros. unfold u16. apply Z.mod_small; lia. Qed.
Lemma u32_small x : 0 <= x < 4294967296 -> u32 x = x.
Proof. intros. unfold u32. apply Z.mod_small; lia. Qed.
Lemma u64_small x : 0 <= x < 18446744073709551616 -> u64 x = x.
Proof. intros. unfold u64. apply Z.mod_small; lia. Qed.

Lemma len_app {A} (a b : list A) : len (a ++ b) = len a + len b.
Proof. unfold len. rewrite app_length. lia. Qed.
Lemma len_cons {A} (x : A) l : len (x :: l) = 1 + len l.
Proof. unfold len. cbn [length]. lia. Qed.
Lemma len_nonneg {A} (l : list A) : 0 <= len l.
Proof. unfold len. lia. Qed.
Lemma len_nil {A} : len (@nil A) = 0.
Proof. reflexivity. Qed.
