(* Base/Prelude.v -- shared conventions of the XMT models (stdlib only).
   Integers are Z with explicit wraps; results are Ok / Err code / Panic. *)
From Coq Require Export List ZArith Lia Bool.
Export ListNotations.
#[global] Open Scope Z_scope.

(* ---- results ---------------------------------------------------------- *)
Inductive res (A : Type) : Type :=
| Ok (a : A)
| Err (e : Z)      (* an ordinary Go error, mapped to a small code *)
| Panic.           (* a Go run-time panic (index, slice, makeslice, close of closed channel) *)
Arguments Ok {A} a.
Arguments Err {A} e.
Arguments Panic {A}.

Definition bind {A B} (r : res A) (f : A -> res B) : res B :=
  match r with Ok a => f a | Err e => Err e | Panic => Panic end.
Notation "'do' x <- r ; k" := (bind r (fun x => k))
  (at level 200, x name, r at level 100, k at level 200, right associativity).
Notation "'do' ' p <- r ; k" := (bind r (fun x => match x with p => k end))
  (at level 200, p pattern, r at level 100, k at level 200, right associativity).

Definition is_panic {A} (r : res A) : bool := match r with Panic => true | _ => false end.
Definition is_ok {A} (r : res A) : bool := match r with Ok _ => true | _ => false end.

(* ---- fixed-width wraps ------------------------------------------------ *)
Definition u8  (x : Z) : Z := x mod 256.
Definition u16 (x : Z) : Z := x mod 65536.
Definition u32 (x : Z) : Z := x mod 4294967296.
Definition u64 (x : Z) : Z := x mod 18446744073709551616.
(* two's complement reinterpretation of an unsigned n-bit value *)
Definition sgn (bits : Z) (x : Z) : Z :=
  let m := 2 ^ bits in let y := x mod m in if y <? m / 2 then y else y - m.
Definition i8  := sgn 8.
Definition i16 := sgn 16.
Definition i32 := sgn 32.
Definition i64 := sgn 64.

Definition is_byte (x : Z) : bool := (0 <=? x) && (x <? 256).
Definition bytes_ok (l : list Z) : bool := forallb is_byte l.

(* ---- lists ------------------------------------------------------------ *)
Definition len {A} (l : list A) : Z := Z.of_nat (length l).
Definition is_nil {A} (l : list A) : bool := match l with [] => true | _ => false end.
Definition take {A} (n : Z) (l : list A) : list A := firstn (Z.to_nat n) l.
Definition drop {A} (n : Z) (l : list A) : list A := skipn (Z.to_nat n) l.

Fixpoint list_eqb {A} (eqb : A -> A -> bool) (a b : list A) : bool :=
  match a, b with
  | [], [] => true
  | x :: a', y :: b' => eqb x y && list_eqb eqb a' b'
  | _, _ => false
  end.
Definition zlist_eqb := list_eqb Z.eqb.

Definition option_eqb {A} (eqb : A -> A -> bool) (a b : option A) : bool :=
  match a, b with
  | None, None => true
  | Some x, Some y => eqb x y
  | _, _ => false
  end.

Definition res_eqb {A} (eqb : A -> A -> bool) (a b : res A) : bool :=
  match a, b with
  | Ok x, Ok y => eqb x y
  | Err e, Err f => Z.eqb e f
  | Panic, Panic => true
  | _, _ => false
  end.

(* Go index / slice expressions: Panic exactly where Go panics. *)
Definition idx {A} (l : list A) (i : Z) : res A :=
  if (i <? 0) then Panic else
  match nth_error l (Z.to_nat i) with Some x => Ok x | None => Panic end.
(* l[a:b] with 0 <= a <= b <= len l *)
Definition slice {A} (l : list A) (a b : Z) : res (list A) :=
  if (a <? 0) || (b <? a) || (len l <? b) then Panic
  else Ok (take (b - a) (drop a l)).

(* ---- big-endian integers ---------------------------------------------- *)
Definition be16 (x : Z) : list Z := [u8 (x / 256); u8 x].
Definition be32 (x : Z) : list Z := [u8 (x / 16777216); u8 (x / 65536); u8 (x / 256); u8 x].
Definition be64 (x : Z) : list Z :=
  [u8 (x / 72057594037927936); u8 (x / 281474976710656); u8 (x / 1099511627776); u8 (x / 4294967296);
   u8 (x / 16777216); u8 (x / 65536); u8 (x / 256); u8 x].
Fixpoint of_be (l : list Z) (acc : Z) : Z :=
  match l with [] => acc | b :: r => of_be r (acc * 256 + b) end.

(* ---- correspondence helper: indices of the cases on which a check fails -- *)
Fixpoint bad_from {A} (f : A -> bool) (l : list A) (i : Z) : list Z :=
  match l with
  | [] => []
  | x :: r => if f x then bad_from f r (i + 1) else i :: bad_from f r (i + 1)
  end.
Definition bad_cases {A} (f : A -> bool) (l : list A) : list Z := bad_from f l 0.
