(* GENERATED on every run by tools/atomics2v from c2/state.go of the tree under check -- do not edit.
   The atomic shape of the three mutators of the state word, the compound methods, and the state bit constants. *)
From XMT Require Import Base.Prelude Model.Interleave.

Definition gen_set : mutator := Mutator CasLoop [ALoad; ACas (EOr ECur EArg)].
Definition gen_set_argbits : Z := 32.

Definition gen_unset : mutator := Mutator CasLoop [ALoad; ACas (EAndNot ECur EArg)].
Definition gen_unset_argbits : Z := 32.

Definition gen_setlast : mutator := Mutator CasLoop [ALoad; ACas (EOr (EU32 (EShl (EU32 EArg) 16)) (EU32 (EU16 ECur)))].
Definition gen_setlast_argbits : Z := 16.

(* the compound methods as decision trees over their atomic calls (getters and e inlined) *)
Definition gen_tag : prog := (PTest 4096 (PCall false 4096 (PRet true)) (PRet false)).
Definition gen_channelcanstop : prog := (PTest 4 (PRet true) (PTest 8 (PRet true) (PTest 256 (PTest 1024 (PCall false 1024 (PTest 512 (PRet false) (PRet true))) (PTest 256 (PRet false) (PRet true))) (PRet true)))).
Definition gen_channelcanstart : prog := (PTest 4 (PRet false) (PTest 256 (PRet true) (PTest 512 (PRet true) (PRet false)))).
Definition gen_setchannel (e : bool) : prog :=
  if e then (PTest 512 (PRet false) (PCall true 512 (PCall true 1024 (PRet true))))
  else (PTest 256 (PTest 2048 (PCall false 512 (PCall true 1024 (PRet true))) (PTest 512 (PCall false 512 (PCall true 1024 (PRet true))) (PRet false))) (PTest 512 (PCall false 512 (PCall true 1024 (PRet true))) (PRet false))).

(* constants of c2/state.go in declaration order *)
Definition gen_stateCanRecv : Z := 1.
Definition gen_stateReady : Z := 2.
Definition gen_stateClosed : Z := 4.
Definition gen_stateClosing : Z := 8.
Definition gen_stateShutdown : Z := 16.
Definition gen_stateSendClose : Z := 32.
Definition gen_stateRecvClose : Z := 64.
Definition gen_stateWakeClose : Z := 128.
Definition gen_stateChannel : Z := 256.
Definition gen_stateChannelValue : Z := 512.
Definition gen_stateChannelUpdated : Z := 1024.
Definition gen_stateChannelProxy : Z := 2048.
Definition gen_stateSeen : Z := 4096.
Definition gen_stateMoving : Z := 8192.
Definition gen_stateReplacing : Z := 16384.
Definition gen_stateShutdownWait : Z := 32768.
Definition gen_state_bits : list Z := [gen_stateCanRecv; gen_stateReady; gen_stateClosed; gen_stateClosing; gen_stateShutdown; gen_stateSendClose; gen_stateRecvClose; gen_stateWakeClose; gen_stateChannel; gen_stateChannelValue; gen_stateChannelUpdated; gen_stateChannelProxy; gen_stateSeen; gen_stateMoving; gen_stateReplacing; gen_stateShutdownWait].
