(* GENERATED on every run by tools/atomics2v from c2/state.go of the tree under check -- do not edit.
   The atomic shape of the three mutators of the state word, the compound methods, and the state bit constants. *)
From XMT Require Import Base.Prelude Model.Interleave.

Definition gen_set : mutator := Mutator CasLoop [ALoad; ACas (EOr ECur EArg)].
Definition gen_set_argbits : Z := 32.

Definition gen_unset : mutator := Mutator CasLoop [ALoad; ACas (EAndNot ECur EArg)].
Definition gen_unset_argbits : Z := 32.

Definition gen_setlast : mutator := Mutator CasLoop [ALoad; ACas (EOr (EU32 (EShl (EU32 EArg) 16)) (EU32 (EU16 ECur)))].
Definition gen_setlast_argbits : Z := 16.

(* the compound methods as decision trees over their atomic calls (getters and e inlined) *)
Definition gen_tag : prog := (PTest 4096 (PCall false 4096 (PRet true)) (PRet false)).
Definition gen_channelcanstop : prog := (PTest 4 (PRet true) (PTest 8 (PRet true) (PTest 256 (PTest 1024 (PCall false 1024 (PTest 512 (PRet false) (PRet true))) (PTest 256 (PRet false) (PRet true))) (PRet true)))).
Definition gen_channelcanstart : prog := (PTest 4 (PRet false) (PTest 256 (PRet true) (PTest 512 (PRet true) (PRet false)))).
Definition gen_setchannel (e : bool) : prog :=
  if e then (PTest 512 (PRet false) (PCall true 512 (PCall true 1024 (PRet true))))
  else (PTest 256 (PTest 2048 (PCall false 512 (PCall true 1024 (PRet true))) (PTest 512 (PCall false 512 (PCall true 1024 (PRet true))) (PRet false))) (PTest 512 (PCall false 512 (PCall true 1024 (PRet true))) (PRet false))).

(* methods outside state.go with a VALUE receiver that write the state word of their receiver (the write is lost) *)
Definition gen_value_receiver_writers : Z := 0.

(* every statement list outside state.go that clears flags through <x>.state.Unset: (flags cleared, flags set) *)
(* Listener.clientClear listener.go:194: clears 2048 sets 0 *)
(* Listener.Replace listener.go:268: clears 16384 sets 16384 *)
(* proxyClient.Close proxy.go:181: clears 1792 sets 4 *)
(* Proxy.clientClear proxy.go:254: clears 2048 sets 0 *)
(* proxyClient.next proxy.go:367: clears 2 sets 0 *)
(* proxyClient.next proxy.go:374: clears 2 sets 0 *)
(* proxyClient.next proxy.go:381: clears 2 sets 0 *)
(* Proxy.Replace proxy.go:440: clears 16384 sets 16384 *)
(* Session.listen session.go:205: clears 1792 sets 16 *)
(* Session.close session.go:462: clears 1792 sets 8 *)
(* Session.close session.go:457: clears 1792 sets 0 *)
(* Session.session session.go:620: clears 256 sets 0 *)
(* Session.MigrateProfile session.go:1121: clears 8192 sets 0 *)
(* Session.MigrateProfile session.go:1130: clears 8192 sets 0 *)
(* Session.MigrateProfile session.go:1144: clears 8192 sets 0 *)
(* Session.MigrateProfile session.go:1150: clears 8192 sets 0 *)
(* Session.MigrateProfile session.go:1156: clears 8192 sets 0 *)
(* Session.MigrateProfile session.go:1165: clears 8192 sets 0 *)
(* Session.MigrateProfile session.go:1171: clears 8192 sets 0 *)
Definition gen_state_sites : list (Z * Z) := [(2048, 0); (16384, 16384); (1792, 4); (2048, 0); (2, 0); (2, 0); (2, 0); (16384, 16384); (1792, 16); (1792, 8); (1792, 0); (256, 0); (8192, 0); (8192, 0); (8192, 0); (8192, 0); (8192, 0); (8192, 0); (8192, 0)].

(* the statement lists of Session.close among them *)
(* Session.close session.go:462: clears 1792 sets 8 *)
(* Session.close session.go:457: clears 1792 sets 0 *)
Definition gen_session_close_sites : list (Z * Z) := [(1792, 8); (1792, 0)].

(* constants of c2/state.go in declaration order *)
Definition gen_stateCanRecv : Z := 1.
Definition gen_stateReady : Z := 2.
Definition gen_stateClosed : Z := 4.
Definition gen_stateClosing : Z := 8.
Definition gen_stateShutdown : Z := 16.
Definition gen_stateSendClose : Z := 32.
Definition gen_stateRecvClose : Z := 64.
Definition gen_stateWakeClose : Z := 128.
Definition gen_stateChannel : Z := 256.
Definition gen_stateChannelValue : Z := 512.
Definition gen_stateChannelUpdated : Z := 1024.
Definition gen_stateChannelProxy : Z := 2048.
Definition gen_stateSeen : Z := 4096.
Definition gen_stateMoving : Z := 8192.
Definition gen_stateReplacing : Z := 16384.
Definition gen_stateShutdownWait : Z := 32768.
Definition gen_state_bits : list Z := [gen_stateCanRecv; gen_stateReady; gen_stateClosed; gen_stateClosing; gen_stateShutdown; gen_stateSendClose; gen_stateRecvClose; gen_stateWakeClose; gen_stateChannel; gen_stateChannelValue; gen_stateChannelUpdated; gen_stateChannelProxy; gen_stateSeen; gen_stateMoving; gen_stateReplacing; gen_stateShutdownWait].
