(* Proofs/State.v -- C13: lemmas about the sequential model of c2/state.go (Model/State.v). *)
From XMT Require Import Base.Prelude Base.BitLemmas Model.State.

(* ---- bit-level toolkit --------------------------------------------------- *)
Lemma tb_mod_pow2 a n k : 0 <= n -> Z.testbit (a mod 2 ^ n) k = (k <? n) && Z.testbit a k.
Proof.
  intros Hn. destruct (Z.ltb_spec k n) as [H|H].
  - destruct (Z.lt_ge_cases k 0) as [Hk|Hk].
    + rewrite !Z.testbit_neg_r by lia. reflexivity.
    + rewrite Z.mod_pow2_bits_low by lia. reflexivity.
  - rewrite Z.mod_pow2_bits_high by lia. reflexivity.
Qed.

Lemma tb_small a n k : 0 <= a < 2 ^ n -> n <= k -> Z.testbit a k = false.
Proof.
  intros Ha Hk. assert (0 <= n \/ n < 0) as [Hn|Hn] by lia.
  - replace a with (a mod 2 ^ n) by (apply Z.mod_small; lia).
    apply Z.mod_pow2_bits_high. lia.
  - rewrite Z.pow_neg_r in Ha by lia. lia.
Qed.

Lemma tb_pow2 n k : 0 <= n -> Z.testbit (2 ^ n) k = (k =? n).
Proof.
  intros Hn. destruct (Z.lt_ge_cases k 0) as [Hk|Hk].
  - rewrite Z.testbit_neg_r by lia. symmetry. apply Z.eqb_neq. lia.
  - rewrite Z.pow2_bits_eqb by lia. rewrite Z.eqb_sym. reflexivity.
Qed.

(* mask-and-compare with a single-bit mask is the test of that bit *)
Lemma ld_and_bit w i : 0 <= i -> ld_and w (2 ^ i) = Z.testbit w i.
Proof.
  intros Hi. unfold ld_and. destruct (Z.testbit w i) eqn:E.
  - destruct (Z.eqb_spec (Z.land w (2 ^ i)) 0) as [H|H]; [|reflexivity].
    assert (Z.testbit (Z.land w (2 ^ i)) i = true) as T.
    { rewrite Z.land_spec, E, tb_pow2, Z.eqb_refl by lia. reflexivity. }
    rewrite H, Z.bits_0 in T. discriminate.
  - replace (Z.land w (2 ^ i)) with 0; [reflexivity|].
    symmetry. apply Z.bits_inj'. intros k Hk.
    rewrite Z.land_spec, Z.bits_0, tb_pow2 by lia.
    destruct (Z.eqb_spec k i) as [->|]; [rewrite E|]; auto using andb_false_r.
Qed.

(* ---- every getter is the test of its bit ---------------------------------- *)
Ltac one_bit i := intros; match goal with |- ld_and ?w ?c = _ => change c with (2 ^ i) end; apply ld_and_bit; lia.

Lemma can_recv_bit w : ld_and w stateCanRecv = Z.testbit w 0.        Proof. one_bit 0. Qed.
Lemma ready_bit w : ld_and w stateReady = Z.testbit w 1.              Proof. one_bit 1. Qed.
Lemma closed_bit w : ld_and w stateClosed = Z.testbit w 2.            Proof. one_bit 2. Qed.
Lemma closing_bit w : ld_and w stateClosing = Z.testbit w 3.          Proof. one_bit 3. Qed.
Lemma shutdown_bit w : ld_and w stateShutdown = Z.testbit w 4.        Proof. one_bit 4. Qed.
Lemma send_close_bit w : ld_and w stateSendClose = Z.testbit w 5.     Proof. one_bit 5. Qed.
Lemma recv_close_bit w : ld_and w stateRecvClose = Z.testbit w 6.     Proof. one_bit 6. Qed.
Lemma wake_close_bit w : ld_and w stateWakeClose = Z.testbit w 7.     Proof. one_bit 7. Qed.
Lemma channel_bit w : ld_and w stateChannel = Z.testbit w 8.          Proof. one_bit 8. Qed.
Lemma value_bit w : ld_and w stateChannelValue = Z.testbit w 9.       Proof. one_bit 9. Qed.
Lemma updated_bit w : ld_and w stateChannelUpdated = Z.testbit w 10.  Proof. one_bit 10. Qed.
Lemma proxy_bit w : ld_and w stateChannelProxy = Z.testbit w 11.      Proof. one_bit 11. Qed.
Lemma seen_bit w : ld_and w stateSeen = Z.testbit w 12.               Proof. one_bit 12. Qed.
Lemma moving_bit w : ld_and w stateMoving = Z.testbit w 13.           Proof. one_bit 13. Qed.
Lemma replacing_bit w : ld_and w stateReplacing = Z.testbit w 14.     Proof. one_bit 14. Qed.
Lemma shutdown_wait_bit w : ld_and w stateShutdownWait = Z.testbit w 15. Proof. one_bit 15. Qed.

Ltac to_bits :=
  rewrite ?can_recv_bit, ?ready_bit, ?closed_bit, ?closing_bit, ?shutdown_bit, ?send_close_bit, ?recv_close_bit,
    ?wake_close_bit, ?channel_bit, ?value_bit, ?updated_bit, ?proxy_bit, ?seen_bit, ?moving_bit, ?replacing_bit,
    ?shutdown_wait_bit.

Ltac unfold_preds :=
  unfold st_ready, st_can_recv, st_closing, st_shutdown, st_recv_closed, st_send_closed, st_wake_closed,
    st_channel_can_start, st_seen, st_moving, st_closed, st_channel, st_replacing, st_shutdown_wait,
    st_channel_value, st_channel_proxy, st_channel_updated in *.

(* ---- the mutators, bit by bit --------------------------------------------- *)
Lemma set_spec w v i : Z.testbit (st_set w v) i = Z.testbit w i || Z.testbit v i.
Proof. apply Z.lor_spec. Qed.
Lemma unset_spec w v i : Z.testbit (st_unset w v) i = Z.testbit w i && negb (Z.testbit v i).
Proof. apply Z.ldiff_spec. Qed.

(* Set/Unset of one of the 16 flags: that bit, nothing else, in either half *)
Lemma set_bit_spec w n i : 0 <= n -> Z.testbit (st_set w (2 ^ n)) i = Z.testbit w i || (i =? n).
Proof. intros. rewrite set_spec, tb_pow2 by lia. reflexivity. Qed.
Lemma unset_bit_spec w n i : 0 <= n -> Z.testbit (st_unset w (2 ^ n)) i = Z.testbit w i && negb (i =? n).
Proof. intros. rewrite unset_spec, tb_pow2 by lia. reflexivity. Qed.

Lemma setlast_spec w v i :
  0 <= i ->
  Z.testbit (st_setlast w v) i = if i <? 16 then Z.testbit w i else (i <? 32) && Z.testbit v (i - 16).
Proof.
  intros Hi. unfold st_setlast, u32, u16.
  change 4294967296 with (2 ^ 32). change 65536 with (2 ^ 16).
  rewrite Z.lor_spec, !tb_mod_pow2 by lia. rewrite Z.shiftl_spec by lia. rewrite tb_mod_pow2 by lia.
  destruct (Z.ltb_spec i 16) as [H|H].
  - rewrite (Z.testbit_neg_r _ (i - 16)) by lia.
    replace (i <? 32) with true by (symmetry; apply Z.ltb_lt; lia).
    rewrite andb_false_r. reflexivity.
  - rewrite !andb_false_r, orb_false_r.
    destruct (Z.ltb_spec i 32) as [H2|H2]; [|reflexivity].
    replace (i - 16 <? 32) with true by (symmetry; apply Z.ltb_lt; lia). reflexivity.
Qed.

Lemma flags_spec w i : Z.testbit (st_flags w) i = (i <? 16) && Z.testbit w i.
Proof. unfold st_flags. change 65536 with (2 ^ 16). apply tb_mod_pow2. lia. Qed.

Lemma last_spec w i : 0 <= i -> Z.testbit (st_last w) i = (i <? 16) && Z.testbit w (i + 16).
Proof.
  intros. unfold st_last, u16. change 65536 with (2 ^ 16).
  rewrite tb_mod_pow2 by lia. rewrite Z.shiftr_spec by lia. reflexivity.
Qed.

(* ---- the two halves are independent ---------------------------------------- *)
Lemma set_keeps_group w v : half_ok v -> st_last (st_set w v) = st_last w.
Proof.
  intros Hv. apply Z.bits_inj'. intros i Hi. rewrite !last_spec, set_spec by lia.
  rewrite (tb_small v 16 (i + 16)) by (unfold half_ok in Hv; lia). rewrite orb_false_r. reflexivity.
Qed.

Lemma unset_keeps_group w v : half_ok v -> st_last (st_unset w v) = st_last w.
Proof.
  intros Hv. apply Z.bits_inj'. intros i Hi. rewrite !last_spec, unset_spec by lia.
  rewrite (tb_small v 16 (i + 16)) by (unfold half_ok in Hv; lia). rewrite andb_true_r. reflexivity.
Qed.

Lemma setlast_keeps_flags w v : st_flags (st_setlast w v) = st_flags w.
Proof.
  apply Z.bits_inj'. intros i Hi. rewrite !flags_spec, setlast_spec by lia.
  destruct (i <? 16); reflexivity.
Qed.

Lemma setlast_sets w v : half_ok v -> st_last (st_setlast w v) = v.
Proof.
  intros Hv. apply Z.bits_inj'. intros i Hi. rewrite last_spec, setlast_spec by lia.
  replace (i + 16 <? 16) with false by (symmetry; apply Z.ltb_ge; lia).
  replace (i + 16 - 16) with i by lia.
  destruct (Z.ltb_spec i 16) as [H|H].
  - replace (i + 16 <? 32) with true by (symmetry; apply Z.ltb_lt; lia). reflexivity.
  - symmetry. apply (tb_small v 16); unfold half_ok in Hv; lia.
Qed.

Lemma set_flags w v : st_flags (st_set w v) = Z.lor (st_flags w) (st_flags v).
Proof.
  apply Z.bits_inj'. intros i Hi. rewrite Z.lor_spec, !flags_spec, set_spec.
  destruct (i <? 16); reflexivity.
Qed.

Lemma unset_flags w v : st_flags (st_unset w v) = Z.ldiff (st_flags w) (st_flags v).
Proof.
  apply Z.bits_inj'. intros i Hi. rewrite Z.ldiff_spec, !flags_spec, unset_spec.
  destruct (i <? 16); cbn [andb negb]; [reflexivity|reflexivity].
Qed.

(* words stay words *)
Lemma word_ok_bits w : word_ok w <-> (0 <= w /\ forall i, 32 <= i -> Z.testbit w i = false).
Proof.
  unfold word_ok. change 4294967296 with (2 ^ 32). split.
  - intros H. split; [lia|]. intros i Hi. apply (tb_small w 32); lia.
  - intros [H0 H]. split; [lia|].
    replace w with (w mod 2 ^ 32); [apply Z.mod_pos_bound; lia|].
    apply Z.bits_inj'. intros i Hi. rewrite tb_mod_pow2 by lia.
    destruct (Z.ltb_spec i 32) as [L|L]; [reflexivity|]. rewrite H by lia. reflexivity.
Qed.

Lemma set_word_ok w v : word_ok w -> word_ok v -> word_ok (st_set w v).
Proof.
  rewrite !word_ok_bits. intros [Hw Bw] [Hv Bv]. split.
  - unfold st_set. apply Z.lor_nonneg. lia.
  - intros i Hi. rewrite set_spec, Bw, Bv by lia. reflexivity.
Qed.

Lemma unset_word_ok w v : word_ok w -> word_ok (st_unset w v).
Proof.
  rewrite !word_ok_bits. intros [Hw Bw]. split.
  - unfold st_unset. apply Z.ldiff_nonneg. lia.
  - intros i Hi. rewrite unset_spec, Bw by lia. reflexivity.
Qed.

Lemma setlast_word_ok w v : word_ok (st_setlast w v).
Proof.
  rewrite word_ok_bits. split.
  - unfold st_setlast, u32. apply Z.lor_nonneg. split; apply Z.mod_pos_bound; lia.
  - intros i Hi. rewrite setlast_spec by lia.
    replace (i <? 16) with false by (symmetry; apply Z.ltb_ge; lia).
    replace (i <? 32) with false by (symmetry; apply Z.ltb_ge; lia). reflexivity.
Qed.

(* ---- the truth table -------------------------------------------------------- *)
(* (a) over the complete finite domain of flag states, by computation *)
Lemma table_flags_computed : forallb table_ok flag_states = true.
Proof. vm_compute. reflexivity. Qed.

Lemma in_zrange n x s : s <= x < s + Z.of_nat n -> In x (zrange n s).
Proof.
  revert s. induction n as [|n IH]; intros s H.
  - cbn in H. lia.
  - cbn [zrange]. destruct (Z.eq_dec x s) as [->|Hne]; [left; reflexivity|].
    right. apply IH. rewrite Nat2Z.inj_succ in H. lia.
Qed.

Lemma in_flag_states f : 0 <= f < 65536 -> In f flag_states.
Proof.
  intros H. unfold flag_states. apply in_zrange. rewrite Z2Nat.id by lia. lia.
Qed.

Lemma table_flags f : 0 <= f < 65536 -> table_ok f = true.
Proof.
  intros H. exact (proj1 (forallb_forall table_ok flag_states) table_flags_computed f (in_flag_states f H)).
Qed.

(* (b) the predicates and the bits they are compared with depend on the flag half only *)
Lemma ld_and_flags w m : half_ok m -> ld_and w m = ld_and (st_flags w) m.
Proof.
  intros Hm. unfold ld_and. f_equal. f_equal.
  apply Z.bits_inj'. intros i Hi. rewrite !Z.land_spec, flags_spec.
  destruct (Z.ltb_spec i 16) as [H|H]; [reflexivity|].
  rewrite (tb_small m 16 i) by (unfold half_ok in Hm; lia). rewrite !andb_false_r. reflexivity.
Qed.

Lemma testbit_flags w i : 0 <= i < 16 -> Z.testbit w i = Z.testbit (st_flags w) i.
Proof.
  intros H. rewrite flags_spec. replace (i <? 16) with true by (symmetry; apply Z.ltb_lt; lia). reflexivity.
Qed.

Lemma unset_updated_value w : ld_and (st_unset w stateChannelUpdated) stateChannelValue = ld_and w stateChannelValue.
Proof.
  rewrite !value_bit. change stateChannelUpdated with (2 ^ 10). rewrite unset_bit_spec by lia. apply andb_true_r.
Qed.

Lemma table_independent w : table_ok w = table_ok (st_flags w).
Proof.
  unfold table_ok, st_tag, st_channel_can_stop, st_set_channel. unfold_preds.
  rewrite !unset_updated_value.
  to_bits.
  rewrite <- !(testbit_flags w) by lia.
  destruct (Z.testbit w 12), (Z.testbit w 2), (Z.testbit w 3), (Z.testbit w 8), (Z.testbit w 10), (Z.testbit w 9), (Z.testbit w 11); reflexivity.
Qed.

Lemma truth_table w : table_ok w = true.
Proof.
  rewrite table_independent. apply table_flags. unfold st_flags. apply Z.mod_pos_bound. lia.
Qed.

(* ---- closed dominates (read off the table) ---------------------------------- *)
Lemma closed_dominates w :
  st_closed w = true ->
  st_ready w = false /\ st_can_recv w = false /\ st_closing w = true /\ st_shutdown w = true /\
  st_send_closed w = true /\ st_recv_closed w = true /\ st_wake_closed w = true /\
  st_channel_can_start w = false /\ st_channel_can_stop w = (true, w).
Proof.
  intros Hc. pose proof (truth_table w) as T. unfold table_ok in T.
  repeat (apply andb_prop in T; destruct T as [T ?]).
  repeat match goal with H : eqb _ _ = true |- _ => apply eqb_prop in H end.
  assert (Z.testbit w 2 = true) as B by congruence.
  rewrite B in *. cbn [negb andb orb] in *.
  repeat split; try assumption.
  unfold st_channel_can_stop. replace (st_closing w) with true by congruence. reflexivity.
Qed.

(* ---- the channel request protocol ------------------------------------------- *)
(* SetChannel(e): the answer says whether the request differs from the standing one; a request
   that does not differ changes nothing; one that does makes bit 9 (the request) equal to e and
   raises bit 10 (the notice), and leaves every other bit of the word as it was. *)
Lemma channel_protocol e w :
  let '(r, w') := st_set_channel e w in
  r = request_differs e w /\
  (r = false -> w' = w) /\
  (r = true -> forall i, 0 <= i ->
     Z.testbit w' i = if i =? 9 then e else if i =? 10 then true else Z.testbit w i).
Proof.
  assert (forall i, 0 <= i -> Z.testbit (st_set (st_set w stateChannelValue) stateChannelUpdated) i =
                              if i =? 9 then true else if i =? 10 then true else Z.testbit w i) as Bon.
  { intros i Hi. change stateChannelUpdated with (2 ^ 10). change stateChannelValue with (2 ^ 9).
    rewrite !set_bit_spec by lia.
    destruct (i =? 9), (i =? 10), (Z.testbit w i); reflexivity. }
  assert (forall i, 0 <= i -> Z.testbit (st_set (st_unset w stateChannelValue) stateChannelUpdated) i =
                              if i =? 9 then false else if i =? 10 then true else Z.testbit w i) as Boff.
  { intros i Hi. change stateChannelUpdated with (2 ^ 10). change stateChannelValue with (2 ^ 9).
    rewrite set_bit_spec, unset_bit_spec by lia.
    destruct (Z.eqb_spec i 9) as [->|N9].
    - change (9 =? 10) with false. cbn [negb]. rewrite andb_false_r. reflexivity.
    - destruct (i =? 10), (Z.testbit w i); reflexivity. }
  unfold st_set_channel, request_differs.
  destruct e.
  - destruct (st_channel_value w) eqn:V; cbn [negb].
    + split; [reflexivity|]. split; [reflexivity|discriminate].
    + split; [reflexivity|]. split; [discriminate|]. intros _. exact Bon.
  - destruct (st_channel_value w) eqn:V, (st_channel w) eqn:C, (st_channel_proxy w) eqn:P; cbn [negb andb orb];
      (split; [reflexivity|]); (split; [first [reflexivity|discriminate]|]); try discriminate;
      intros _; exact Boff.
Qed.

(* ---- the updated notice is consumed exactly once ------------------------------ *)
(* while a channel is running (Channel set, not closing): the first ChannelCanStop after a request
   clears bit 10 and nothing else and answers with the negated request; a second call without a new
   request finds no notice, changes nothing and answers false.  Outside that mode, or without a
   pending notice, ChannelCanStop never writes. *)
Lemma updated_consumed_once w :
  st_closing w = false -> st_channel w = true -> st_channel_updated w = true ->
  let '(r1, w1) := st_channel_can_stop w in
  let '(r2, w2) := st_channel_can_stop w1 in
  r1 = negb (st_channel_value w) /\
  (forall i, 0 <= i -> Z.testbit w1 i = if i =? 10 then false else Z.testbit w i) /\
  st_channel_updated w1 = false /\
  r2 = false /\ w2 = w1.
Proof.
  intros Hcl Hch Hup.
  assert (forall i, 0 <= i -> Z.testbit (st_unset w stateChannelUpdated) i = if i =? 10 then false else Z.testbit w i) as B.
  { intros i Hi. change stateChannelUpdated with (2 ^ 10). rewrite unset_bit_spec by lia.
    destruct (i =? 10); [apply andb_false_r|apply andb_true_r]. }
  unfold st_channel_can_stop at 1. rewrite Hcl, Hch, Hup. cbn [negb orb].
  set (w1 := st_unset w stateChannelUpdated) in *.
  assert (st_closing w1 = false) as Hcl1.
  { revert Hcl. unfold st_closing, st_closed. to_bits. rewrite !B by lia. cbn. auto. }
  assert (st_channel w1 = true) as Hch1.
  { revert Hch. unfold st_channel. to_bits. rewrite !B by lia. cbn. auto. }
  assert (st_channel_updated w1 = false) as Hup1.
  { unfold st_channel_updated. to_bits. rewrite !B by lia. reflexivity. }
  unfold st_channel_can_stop. rewrite Hcl1, Hch1, Hup1. cbn [negb orb].
  split; [|split; [exact B|split; [reflexivity|split; reflexivity]]].
  unfold st_channel_value. to_bits. rewrite B by lia. reflexivity.
Qed.

Lemma can_stop_without_notice w :
  st_closing w = true \/ st_channel w = false \/ st_channel_updated w = false ->
  snd (st_channel_can_stop w) = w.
Proof.
  unfold st_channel_can_stop. intros [H|[H|H]]; rewrite H; cbn [negb orb snd].
  - reflexivity.
  - rewrite orb_true_r. reflexivity.
  - destruct (st_closing w || negb (st_channel w)); reflexivity.
Qed.

(* Tag takes the seen mark once *)
Lemma tag_once w :
  let '(r1, w1) := st_tag w in
  r1 = st_seen w /\
  (forall i, 0 <= i -> Z.testbit w1 i = if i =? 12 then false else Z.testbit w i) /\
  st_tag w1 = (false, w1).
Proof.
  assert (forall i, 0 <= i -> Z.testbit (st_unset w stateSeen) i = if i =? 12 then false else Z.testbit w i) as B.
  { intros i Hi. change stateSeen with (2 ^ 12). rewrite unset_bit_spec by lia.
    destruct (i =? 12); [apply andb_false_r|apply andb_true_r]. }
  unfold st_tag at 1. destruct (st_seen w) eqn:S; cbn [negb].
  - split; [reflexivity|]. split; [exact B|].
    unfold st_tag, st_seen. to_bits. rewrite B by lia. reflexivity.
  - split; [reflexivity|]. split.
    + intros i Hi. destruct (Z.eqb_spec i 12) as [->|]; [|reflexivity].
      revert S. unfold st_seen. to_bits. auto.
    + unfold st_tag. rewrite S. reflexivity.
Qed.

(* ---- tearing the channel request down (Session.close and the other call sites) ------------- *)
Lemma teardown_mask_bits m :
  Z.land m teardown_mask = teardown_mask -> Z.testbit m 8 = true /\ Z.testbit m 9 = true /\ Z.testbit m 10 = true.
Proof.
  intros H.
  assert (forall i, Z.testbit teardown_mask i = true -> Z.testbit m i = true) as B.
  { intros i T. rewrite <- H, Z.land_spec in T. apply andb_prop in T. tauto. }
  repeat split; apply B; reflexivity.
Qed.

(* clearing (at least) ChannelValue, ChannelUpdated and Channel in one or several Unset calls leaves
   no request and no notice; and when a channel is started later (the peer sets Channel) the first
   ChannelCanStop finds no stale notice: it answers "no stop" and writes nothing *)
Lemma no_stale_notice_after_teardown m w :
  Z.land m teardown_mask = teardown_mask ->
  let w1 := st_unset w m in
  st_channel w1 = false /\ st_channel_value w1 = false /\ st_channel_updated w1 = false /\
  (forall s, Z.testbit s 10 = false -> let w2 := st_set (st_set w1 s) stateChannel in
             st_closing w2 = false -> st_channel_can_stop w2 = (false, w2)).
Proof.
  intros H w1. destruct (teardown_mask_bits m H) as (B8 & B9 & B10).
  assert (st_channel w1 = false) as C by (unfold st_channel, w1; to_bits; rewrite unset_spec, B8; apply andb_false_r).
  assert (st_channel_value w1 = false) as V by (unfold st_channel_value, w1; to_bits; rewrite unset_spec, B9; apply andb_false_r).
  assert (st_channel_updated w1 = false) as U by (unfold st_channel_updated, w1; to_bits; rewrite unset_spec, B10; apply andb_false_r).
  repeat split; try assumption.
  intros s Hs w2 Hcl. unfold st_channel_can_stop. rewrite Hcl.
  assert (st_channel w2 = true) as C2.
  { unfold st_channel, w2. to_bits. change stateChannel with (2 ^ 8). rewrite set_bit_spec by lia. apply orb_true_r. }
  assert (st_channel_updated w2 = false) as U2.
  { unfold st_channel_updated, w2. to_bits. change stateChannel with (2 ^ 8). rewrite set_bit_spec, set_spec by lia.
    unfold st_channel_updated in U. revert U. to_bits. intros ->. rewrite Hs. reflexivity. }
  rewrite C2, U2. reflexivity.
Qed.

Lemma teardown_is_one_unset w : st_teardown w = st_unset w teardown_mask.
Proof.
  apply Z.bits_inj'. intros i Hi. unfold st_teardown. rewrite !unset_spec.
  change stateChannelValue with (2 ^ 9). change stateChannelUpdated with (2 ^ 10). change stateChannel with (2 ^ 8).
  change teardown_mask with (Z.lor (2 ^ 9) (Z.lor (2 ^ 10) (2 ^ 8))). rewrite !Z.lor_spec, !tb_pow2 by lia.
  destruct (Z.testbit w i), (i =? 9), (i =? 10), (i =? 8); reflexivity.
Qed.

(* Session.close, either branch: the request, its notice and the channel mode are gone *)
Lemma close_drops_request server w :
  st_closing w = false ->
  let w' := st_close server w in
  st_channel w' = false /\ st_channel_value w' = false /\ st_channel_updated w' = false.
Proof.
  intros Hc. unfold st_close. rewrite Hc.
  destruct (no_stale_notice_after_teardown teardown_mask w eq_refl) as (C & V & U & _).
  rewrite <- teardown_is_one_unset in C, V, U.
  destruct (server && negb (st_shutdown_wait w)); cbv zeta; [auto|].
  unfold st_channel, st_channel_value, st_channel_updated in *. revert C V U. to_bits.
  change stateClosing with (2 ^ 3). rewrite !set_bit_spec by lia. intros -> -> ->. repeat split.
Qed.
