(* Proofs/Table.v -- lemmas for C15 (packets only reach the session of the device they name).

   Structure:
   1. IDs, sessions, the table invariant wf (every entry under key k holds a session whose ID
      hashes to k, whose ID is not empty and whose queue only holds packets naming that ID);
   2. per-function lemmas for rekey / recv_leaf / recv_batch / next / talk_sub / resolve_tags /
      process_multiple / talk_process / talk (the code as it is: chk = true);
   3. steps and histories (induction over the history);
   4. the proxy;
   5. the real colliding pair, what still fails because the table is keyed by the hash, and the
      regression statements about the code as it was (chk = false). *)
From stdpp Require Import gmap.
From XMT Require Import Base.Prelude Model.Table.

(* ------------------------------------------------------------------------- *)
(* 1. basics                                                                  *)

Lemma zlist_eqb_eq (a b : list Z) : zlist_eqb a b = true <-> a = b.
Proof.
  unfold zlist_eqb. revert b. induction a as [|x a IH]; intros [|y b]; cbn [list_eqb]; split; intros H;
    try reflexivity; try discriminate.
  - apply andb_true_iff in H as [H1 H2]. apply Z.eqb_eq in H1. apply IH in H2. congruence.
  - injection H as -> ->. rewrite Z.eqb_refl. cbn. apply IH. reflexivity.
Qed.

Lemma id_eqb_eq (a b : id) : id_eqb a b = true <-> a = b.
Proof. apply zlist_eqb_eq. Qed.
Lemma id_eqb_refl (a : id) : id_eqb a a = true.
Proof. apply id_eqb_eq. reflexivity. Qed.
Lemma id_eqb_neq (a b : id) : id_eqb a b = false <-> a <> b.
Proof.
  split.
  - intros H E. apply id_eqb_eq in E. congruence.
  - intros H. destruct (id_eqb a b) eqn:E; [|reflexivity]. apply id_eqb_eq in E. contradiction.
Qed.

(* the device an outbound leaf packet names *)
Definition o_dev (o : out) : id := o.1.1.

Definition q_own (s : session) : Prop := Forall (fun o => o_dev o = s_id s) (s_out s).

Definition wf (t : table) : Prop :=
  forall k s, t !! k = Some s -> hash (s_id s) = k /\ id_empty (s_id s) = false /\ q_own s.

Lemma wf_empty : wf ∅.
Proof. intros k s H. unfold table in *. rewrite lookup_empty in H. discriminate. Qed.

Lemma wf_insert t k s :
  wf t -> hash (s_id s) = k -> id_empty (s_id s) = false -> q_own s -> wf (<[k := s]> t).
Proof.
  intros W H1 H2 H3 k' s' H. unfold table in *. destruct (decide (k = k')) as [->|N].
  - rewrite lookup_insert in H. injection H as <-. auto.
  - rewrite lookup_insert_ne in H by exact N. apply W. exact H.
Qed.

(* replacing an entry by a session of the same ID *)
Lemma wf_update t k s s' :
  wf t -> t !! k = Some s -> s_id s' = s_id s -> q_own s' -> wf (<[k := s']> t).
Proof.
  intros W H E Q. destruct (W _ _ H) as (H1 & H2 & _).
  apply wf_insert; rewrite ?E; auto.
Qed.

Lemma wf_delete t k : wf t -> wf (delete k t).
Proof.
  intros W k' s H. unfold table in *. destruct (decide (k = k')) as [->|N].
  - rewrite lookup_delete in H. discriminate.
  - rewrite lookup_delete_ne in H by exact N. apply W. exact H.
Qed.

(* the IDs stored under each key are kept (entries may change their queue, address and key) *)
Definition ids_mono (t t' : table) : Prop :=
  forall k s, t !! k = Some s -> exists s', t' !! k = Some s' /\ s_id s' = s_id s.

Lemma ids_mono_refl t : ids_mono t t.
Proof. intros k s H. eauto. Qed.
Lemma ids_mono_trans t1 t2 t3 : ids_mono t1 t2 -> ids_mono t2 t3 -> ids_mono t1 t3.
Proof.
  intros A B k s H. destruct (A _ _ H) as (s' & H' & E). destruct (B _ _ H') as (s'' & H'' & E').
  exists s''. split; [exact H''|congruence].
Qed.
Lemma ids_mono_update t k s s' : t !! k = Some s -> s_id s' = s_id s -> ids_mono t (<[k := s']> t).
Proof.
  intros H E k' x Hx. unfold table in *. destruct (decide (k = k')) as [->|N].
  - rewrite lookup_insert. exists s'. split; [reflexivity|]. congruence.
  - rewrite lookup_insert_ne by exact N. eauto.
Qed.
Lemma ids_mono_fresh t k s : t !! k = None -> ids_mono t (<[k := s]> t).
Proof.
  intros H k' x Hx. unfold table in *. destruct (decide (k = k')) as [->|N]; [congruence|].
  rewrite lookup_insert_ne by exact N. eauto.
Qed.

(* ---- the lookup ---------------------------------------------------------- *)
Lemma lookup_own t d s : lookup true t d = Own s -> t !! hash d = Some s /\ s_id s = d.
Proof.
  unfold lookup. destruct (t !! hash d) as [x|]; [|discriminate]. cbn [andb].
  destruct (id_eqb (s_id x) d) eqn:E; cbn [negb]; [|discriminate].
  intros [= <-]. split; [reflexivity|]. apply id_eqb_eq. exact E.
Qed.
Lemma lookup_other t d s : lookup true t d = Other s -> t !! hash d = Some s /\ s_id s <> d.
Proof.
  unfold lookup. destruct (t !! hash d) as [x|]; [|discriminate]. cbn [andb].
  destruct (id_eqb (s_id x) d) eqn:E; cbn [negb]; [discriminate|].
  intros [= <-]. split; [reflexivity|]. apply id_eqb_neq. exact E.
Qed.
Lemma lookup_free chk t d : lookup chk t d = Free -> t !! hash d = None.
Proof.
  unfold lookup. destruct (t !! hash d) as [x|]; [|reflexivity].
  destruct (chk && negb (id_eqb (s_id x) d)); discriminate.
Qed.
Lemma lookup_own_intro t d s : t !! hash d = Some s -> s_id s = d -> lookup true t d = Own s.
Proof. intros H E. unfold lookup. rewrite H. cbn [andb]. rewrite <- E, id_eqb_refl. reflexivity. Qed.
Lemma lookup_other_intro t d s : t !! hash d = Some s -> s_id s <> d -> lookup true t d = Other s.
Proof.
  intros H E. unfold lookup. rewrite H. cbn [andb]. apply id_eqb_neq in E. rewrite E. reflexivity.
Qed.
Lemma lookup_free_intro chk t d : t !! hash d = None -> lookup chk t d = Free.
Proof. intros H. unfold lookup. rewrite H. reflexivity. Qed.

(* ---- session operations --------------------------------------------------- *)
Lemma next_true_spec s s' l :
  next_true s = (s', l) -> q_own s ->
  s_id s' = s_id s /\ q_own s' /\ Forall (fun o => o_dev o = s_id s) l.
Proof.
  unfold next_true. intros H Q. destruct (s_out s) as [|x q] eqn:E.
  - injection H as <- <-. auto.
  - injection H as <- <-. cbn. split; [reflexivity|]. split; [constructor|].
    unfold q_own in Q. rewrite E in Q. exact Q.
Qed.
Lemma next_false_spec s s' l :
  next_false s = (s', l) -> q_own s ->
  s_id s' = s_id s /\ q_own s' /\ Forall (fun o => o_dev o = s_id s) l.
Proof.
  unfold next_false. intros H Q. destruct (s_out s) as [|x q] eqn:E.
  - injection H as <- <-. split; [reflexivity|]. split; [exact Q|]. repeat constructor.
  - injection H as <- <-. cbn. split; [reflexivity|]. split; [constructor|].
    unfold q_own in Q. rewrite E in Q. exact Q.
Qed.

Lemma q_own_set_host s a : q_own s -> q_own (set_host s a).
Proof. intros H. exact H. Qed.
Lemma q_own_set_key s k : q_own s -> q_own (set_key s k).
Proof. intros H. exact H. Qed.

(* what is done in a session on behalf of a packet: in the session of the device the packet
   names (N: the devices the incoming packet names, T: its tags) *)
Definition eff_ok (N : list id) (T : list Z) (e : eff) : Prop :=
  match e with
  | ETouch s p => s = p /\ In p N
  | ERekey s p _ => s = p /\ In p N
  | EHandle s p _ => s = p /\ In p N
  | EFetch s tag => hash s = tag /\ In tag T
  | ENew s => In s N
  | EDrop _ => True
  end.
(* an outbound packet names a device the incoming packet named, or one whose hash is a tag *)
Definition out_ok (N : list id) (T : list Z) (o : out) : Prop := In (o_dev o) N \/ In (hash (o_dev o)) T.

Lemma eff_ok_mono N N' T T' e : incl N N' -> incl T T' -> eff_ok N T e -> eff_ok N' T' e.
Proof. intros HN HT. destruct e; cbn; intuition. Qed.
Lemma out_ok_mono N N' T T' o : incl N N' -> incl T T' -> out_ok N T o -> out_ok N' T' o.
Proof. intros HN HT [H|H]; [left|right]; auto. Qed.

Lemma rekey_spec s n s' e N T :
  rekey s n = (s', e) -> s_id s = l_dev n -> In (l_dev n) N ->
  s_id s' = s_id s /\ s_out s' = s_out s /\ Forall (eff_ok N T) e.
Proof.
  unfold rekey. intros H E I. destruct (body_key (l_body n)); injection H as <- <-.
  - cbn. repeat split; auto. constructor; [|constructor]. cbn. auto.
  - auto.
Qed.

(* receive compares the full ID itself: its effects are own whatever session it is given *)
Lemma recv_leaf_spec s n s' e r N T :
  recv_leaf s n = (s', e, r) -> In (l_dev n) N ->
  s_id s' = s_id s /\ s_out s' = s_out s /\ Forall (eff_ok N T) e.
Proof.
  unfold recv_leaf. intros H I.
  destruct (id_empty (l_dev n) || is_nop n); [injection H as <- <- <-; auto|].
  destruct (id_eqb (s_id s) (l_dev n)) eqn:E; cbn [negb] in H; [|injection H as <- <- <-; auto].
  apply id_eqb_eq in E.
  destruct (l_pid n =? SvComplete).
  { destruct (body_key (l_body n)); injection H as <- <- <-; auto.
    cbn. repeat split; auto. constructor; [|constructor]. cbn. auto. }
  destruct (l_pid n <? MvRefresh); injection H as <- <- <-; auto.
  repeat split; auto. constructor; [|constructor]. cbn. auto.
Qed.

Lemma recv_batch_spec subs : forall s s' e r N T,
  recv_batch s subs = (s', e, r) -> (forall v, In v subs -> In (l_dev v) N) ->
  s_id s' = s_id s /\ s_out s' = s_out s /\ Forall (eff_ok N T) e.
Proof.
  induction subs as [|v subs IH]; intros s s' e r N T H I; cbn [recv_batch] in H.
  - injection H as <- <- <-. auto.
  - destruct (id_empty (l_dev v)); [injection H as <- <- <-; auto|].
    destruct (recv_leaf s v) as [[s1 e1] [err|]] eqn:R.
    + injection H as <- <- <-. eapply recv_leaf_spec; [exact R|]. apply I. left. reflexivity.
    + destruct (recv_batch s1 subs) as [[s2 e2] r2] eqn:B. injection H as <- <- <-.
      eapply recv_leaf_spec with (N := N) (T := T) in R as (A1 & A2 & A3); [|apply I; left; reflexivity].
      eapply IH in B as (B1 & B2 & B3); [|intros x Hx; apply I; right; exact Hx].
      repeat split; try congruence. apply Forall_app. split; eauto.
Qed.

Lemma q_own_eq s s' : s_id s' = s_id s -> s_out s' = s_out s -> q_own s -> q_own s'.
Proof. unfold q_own. intros -> ->. auto. Qed.

(* ------------------------------------------------------------------------- *)
(* 2. the dispatch functions (the code as it is)                              *)

Lemma Forall_one {A} (P : A -> Prop) x : P x -> Forall P [x].
Proof. intros H. constructor; [exact H|constructor]. Qed.

Lemma new_session_q_own a d j : q_own (new_session a d j).
Proof. apply Forall_one. reflexivity. Qed.

Lemma talk_sub_spec a t n o t' e r N T :
  talk_sub a t n o = (t', e, r) -> wf t -> In (l_dev n) N ->
  wf t' /\ ids_mono t t' /\ Forall (eff_ok N T) e /\
  match r with
  | ASub k q reg l =>
      Forall (fun x => o_dev x = l_dev n) l /\
      (forall d, reg = Some d -> d = l_dev n /\ t' = t /\ e = [] /\ k = None) /\
      (forall d, k = Some d -> d = l_dev n)
  | AErr _ => True
  | _ => False
  end.
Proof.
  unfold talk_sub, talk_sub_g. intros H W I.
  assert (REG : wf t /\ ids_mono t t /\ Forall (eff_ok N T) [] /\
                (Forall (fun x => o_dev x = l_dev n) [] /\
                 (forall d, Some (l_dev n) = Some d -> d = l_dev n /\ t = t /\ @nil eff = [] /\ @None id = None) /\
                 (forall d, @None id = Some d -> d = l_dev n))).
  { split; [exact W|]. split; [apply ids_mono_refl|]. split; [constructor|]. split; [constructor|].
    split; [intros d [= <-]; auto|intros d; discriminate]. }
  assert (ERR : wf t /\ ids_mono t t /\ Forall (eff_ok N T) [] /\ True).
  { split; [exact W|]. split; [apply ids_mono_refl|]. split; [constructor|exact Logic.I]. }
  destruct (id_empty (l_dev n)) eqn:NE.
  { injection H as <- <- <-. exact ERR. }
  destruct (lookup true t (l_dev n)) as [|s|s] eqn:L.
  - (* the slot is free *)
    apply lookup_free in L.
    destruct (negb (l_pid n =? SvHello)).
    { injection H as <- <- <-. exact REG. }
    destruct (l_body n); try (injection H as <- <- <-; exact ERR).
    pose proof (new_session_q_own a (l_dev n) (l_job n)) as Q.
    assert (EF : Forall (eff_ok N T) [ETouch (l_dev n) (l_dev n); ENew (l_dev n)]).
    { constructor; [cbn; auto|]. apply Forall_one. cbn. auto. }
    destruct o.
    + injection H as <- <- <-. cbn [s_id new_session].
      split; [apply wf_insert; auto|]. split; [apply ids_mono_fresh; exact L|]. split; [exact EF|].
      split; [constructor|]. split; [intros d; discriminate|intros d [= <-]; reflexivity].
    + destruct (next_true (new_session a (l_dev n) (l_job n))) as [s' l] eqn:X.
      injection H as <- <- <-. cbn [s_id new_session].
      apply next_true_spec in X as (X1 & X2 & X3); [|exact Q]. cbn [s_id new_session] in X1, X3.
      split; [apply wf_insert; auto; rewrite X1; auto|]. split; [apply ids_mono_fresh; exact L|].
      split; [exact EF|]. split; [exact X3|].
      split; [intros d; discriminate|intros d [= <-]; reflexivity].
  - (* the session of this very device *)
    apply lookup_own in L as [L E].
    destruct (rekey (set_host s a) n) as [s2 ek] eqn:K.
    eapply rekey_spec with (N := N) (T := T) in K as (K1 & K2 & K3); [|exact E|exact I].
    cbn [set_host s_id s_out] in K1, K2.
    destruct (W _ _ L) as (_ & _ & Q).
    destruct (recv_leaf s2 n) as [[s2' e2] r2] eqn:R.
    eapply recv_leaf_spec with (N := N) (T := T) in R as (R1 & R2 & R3); [|exact I].
    assert (Q2 : q_own s2') by (eapply q_own_eq; [| |exact Q]; congruence).
    assert (EF : Forall (eff_ok N T) ((ETouch (s_id s) (l_dev n) :: ek) ++ e2)).
    { apply Forall_app. split; [|exact R3]. constructor; [cbn; auto|exact K3]. }
    assert (W2 : wf (<[hash (l_dev n) := s2']> t)) by (eapply wf_update; eauto; congruence).
    assert (M2 : ids_mono t (<[hash (l_dev n) := s2']> t)) by (eapply ids_mono_update; eauto; congruence).
    destruct r2 as [err|].
    + injection H as <- <- <-. split; [exact W2|]. split; [exact M2|]. split; [exact EF|exact Logic.I].
    + destruct o.
      * injection H as <- <- <-. split; [exact W2|]. split; [exact M2|]. split; [exact EF|].
        split; [constructor|]. split; [intros d; discriminate|intros d [= <-]; exact E].
      * destruct (next_true s2') as [s3 l] eqn:X. injection H as <- <- <-.
        apply next_true_spec in X as (X1 & X2 & X3); [|exact Q2].
        split; [eapply wf_update; eauto; congruence|].
        split; [eapply ids_mono_update; eauto; congruence|]. split; [exact EF|].
        split; [refine (List.Forall_impl _ _ X3); cbn; intros x Hx; rewrite Hx; congruence|].
        split; [intros d; discriminate|intros d [= <-]; exact E].
  - (* the slot holds another device: nothing is touched *)
    injection H as <- <- <-. exact REG.
Qed.

Lemma resolve_tags_spec a host tags : forall t seen add e t' add' e' r N T,
  resolve_tags a host t tags seen add e = (t', add', e', r) -> wf t -> incl tags T ->
  Forall (out_ok N T) add -> Forall (eff_ok N T) e ->
  wf t' /\ ids_mono t t' /\ Forall (out_ok N T) add' /\ Forall (eff_ok N T) e'.
Proof.
  induction tags as [|x tags IH]; intros t seen add e t' add' e' r N T H W I A E; cbn [resolve_tags] in H.
  - injection H as <- <- <- <-. auto using ids_mono_refl.
  - assert (I' : incl tags T) by (intros y Hy; apply I; right; exact Hy).
    assert (Ix : In x T) by (apply I; left; reflexivity).
    destruct (x =? 0). { injection H as <- <- <- <-. auto using ids_mono_refl. }
    destruct (existsb (Z.eqb x) seen). { eapply IH; eauto. }
    destruct (t !! x) as [v|] eqn:L; [|eapply IH; eauto].
    destruct (id_eqb (s_id v) host). { eapply IH; eauto. }
    destruct (next_true (set_host v a)) as [v' l] eqn:X.
    destruct (W _ _ L) as (Hk & _ & Q).
    apply next_true_spec in X as (X1 & X2 & X3); [|exact Q]. cbn [set_host s_id] in X1, X3.
    eapply (IH _ _ _ _ _ _ _ _ N T) in H as (H1 & H2 & H3 & H4); auto.
    + split; [exact H1|]. split; [|split; assumption].
      eapply ids_mono_trans; [|exact H2]. eapply ids_mono_update; eauto.
    + eapply wf_update; eauto.
    + apply Forall_app. split; [exact A|]. refine (List.Forall_impl _ _ X3).
      cbn. intros o Ho. right. rewrite Ho, Hk. exact Ix.
    + apply Forall_app. split; [exact E|]. apply Forall_one. cbn. auto.
Qed.

Lemma process_multiple_spec a hk subs : forall t acc e t' acc' e' r N T,
  process_multiple true a hk t subs acc e = (t', acc', e', r) -> wf t ->
  (forall v, In v subs -> In (l_dev v) N) -> Forall (out_ok N T) acc -> Forall (eff_ok N T) e ->
  wf t' /\ ids_mono t t' /\ Forall (out_ok N T) acc' /\ Forall (eff_ok N T) e'.
Proof.
  induction subs as [|v subs IH]; intros t acc e t' acc' e' r N T H W I A E; cbn [process_multiple] in H.
  - injection H as <- <- <- <-. auto using ids_mono_refl.
  - assert (I' : forall x, In x subs -> In (l_dev x) N) by (intros y Hy; apply I; right; exact Hy).
    assert (Iv : In (l_dev v) N) by (apply I; left; reflexivity).
    destruct (id_empty (l_dev v)). { injection H as <- <- <- <-. auto using ids_mono_refl. }
    destruct (t !! hk) as [h|] eqn:L; [|injection H as <- <- <- <-; auto using ids_mono_refl].
    destruct (id_eqb (s_id h) (l_dev v)) eqn:EQ.
    + (* a packet of the host's own device *)
      apply id_eqb_eq in EQ. destruct (W _ _ L) as (_ & _ & Q).
      destruct (rekey h v) as [h1 ek] eqn:K.
      eapply rekey_spec with (N := N) (T := T) in K as (K1 & K2 & K3); [|exact EQ|exact Iv].
      destruct (recv_leaf h1 v) as [[h1' er] rr] eqn:R.
      eapply recv_leaf_spec with (N := N) (T := T) in R as (R1 & R2 & R3); [|exact Iv].
      assert (Q1 : q_own h1') by (eapply q_own_eq; [| |exact Q]; congruence).
      destruct (next_false h1') as [h2 l] eqn:X.
      apply next_false_spec in X as (X1 & X2 & X3); [|exact Q1].
      eapply (IH _ _ _ _ _ _ _ N T) in H as (H1 & H2 & H3 & H4); auto.
      * split; [exact H1|]. split; [|split; assumption].
        eapply ids_mono_trans; [|exact H2]. eapply ids_mono_update; eauto. congruence.
      * eapply wf_update; eauto. congruence.
      * apply Forall_app. split; [exact A|]. refine (List.Forall_impl _ _ X3).
        cbn. intros o Ho. left. rewrite Ho. congruence.
      * apply Forall_app. split; [exact E|]. apply Forall_app. split; assumption.
    + (* a packet of another device: through talkSub *)
      destruct (talk_sub_g true a t v false) as [[t1 e1] r1] eqn:S.
      change (talk_sub_g true) with talk_sub in S.
      eapply talk_sub_spec with (N := N) (T := T) in S as (S1 & S2 & S3 & S4); [|exact W|exact Iv].
      assert (E1 : Forall (eff_ok N T) (e ++ e1)) by (apply Forall_app; split; assumption).
      destruct r1 as [err| | |k q reg l| | |]; try contradiction.
      * injection H as <- <- <- <-. auto.
      * destruct S4 as (L1 & L2 & L3). destruct reg as [d|].
        -- destruct (L2 d eq_refl) as (-> & _).
           eapply (IH _ _ _ _ _ _ _ N T) in H as (H1 & H2 & H3 & H4); auto.
           ++ split; [exact H1|]. split; [|split; assumption]. eapply ids_mono_trans; eauto.
           ++ apply Forall_app. split; [exact A|]. apply Forall_one. left. exact Iv.
        -- eapply (IH _ _ _ _ _ _ _ N T) in H as (H1 & H2 & H3 & H4); auto.
           ++ split; [exact H1|]. split; [|split; assumption]. eapply ids_mono_trans; eauto.
           ++ apply Forall_app. split; [exact A|]. refine (List.Forall_impl _ _ L1).
              cbn. intros o Ho. left. rewrite Ho. exact Iv.
Qed.

Definition names (p : pkt) : list id := p_dev p :: p_subdevs p.

Lemma talk_enter_spec a t p t1 e1 known N T :
  talk_enter true a t p = Ok (t1, e1, known) -> wf t -> id_empty (p_dev p) = false -> In (p_dev p) N ->
  wf t1 /\ ids_mono t t1 /\ Forall (eff_ok N T) e1 /\
  exists h, t1 !! hash (p_dev p) = Some h /\ s_id h = p_dev p.
Proof.
  unfold talk_enter. intros H W NE I. destruct (lookup true t (p_dev p)) as [|s|s] eqn:L.
  - apply lookup_free in L.
    destruct (p_empty p && (p_pid p =? SvHello)); [discriminate|].
    destruct (negb (p_pid p =? SvHello)); [discriminate|].
    destruct p as [[d pid j []] tags| |]; try discriminate. cbn [p_dev l_dev] in *.
    injection H as <- <- <-.
    split; [apply wf_insert; auto using new_session_q_own|].
    split; [apply ids_mono_fresh; exact L|].
    split; [constructor; [cbn; auto|apply Forall_one; cbn; auto]|].
    exists (new_session a d j). unfold table in *. rewrite lookup_insert. auto.
  - apply lookup_own in L as [L E]. injection H as <- <- <-.
    destruct (W _ _ L) as (_ & _ & Q).
    split; [eapply wf_update; eauto|]. split; [eapply ids_mono_update; eauto|].
    split; [apply Forall_one; cbn; auto|].
    exists (set_host s a). unfold table in *. rewrite lookup_insert. auto.
  - destruct (p_empty p && (p_pid p =? SvHello)); discriminate.
Qed.

(* a re-registration request or an error out of the lookup leaves everything as it was *)
Lemma talk_enter_err a t p e :
  talk_enter true a t p = Err e -> e = 0 \/ e = EMalformed \/ e = EOther.
Proof.
  unfold talk_enter. destruct (lookup true t (p_dev p)).
  - destruct (p_empty p && (p_pid p =? SvHello)); [intros [= <-]; auto|].
    destruct (negb (p_pid p =? SvHello)); [intros [= <-]; auto|].
    destruct p as [[d pid j []] tags| |]; intros [= <-]; auto.
  - discriminate.
  - destruct (p_empty p && (p_pid p =? SvHello)); intros [= <-]; auto.
Qed.

Definition reply_ok (N : list id) (T : list Z) (r : ans) : Prop :=
  match r with
  | AReply _ l => Forall (out_ok N T) l
  | AErr _ => True
  | _ => False
  end.

Lemma talk_process_spec a i t2 p add known t3 e3 r N T :
  talk_process true a i t2 p add known = (t3, e3, r) -> wf t2 ->
  (forall h, t2 !! i = Some h -> s_id h = p_dev p) ->
  incl (names p) N -> Forall (out_ok N T) add ->
  wf t3 /\ ids_mono t2 t3 /\ Forall (eff_ok N T) e3 /\ reply_ok N T r.
Proof.
  unfold talk_process. intros H W HH I A.
  assert (Id : In (p_dev p) N) by (apply I; left; reflexivity).
  destruct (t2 !! i) as [h|] eqn:L.
  2:{ injection H as <- <- <-. split; [exact W|]. split; [apply ids_mono_refl|]. split; [constructor|exact Logic.I]. }
  specialize (HH h eq_refl). destruct (W _ _ L) as (_ & _ & Q).
  destruct p as [n tags|d j subs tags|d j subs tags]; cbn [p_dev] in *.
  - (* a single packet *)
    destruct (rekey h n) as [h1 ek] eqn:K.
    eapply rekey_spec with (N := N) (T := T) in K as (K1 & K2 & K3); [|exact HH|exact Id].
    destruct (recv_leaf h1 n) as [[h1' er] rr] eqn:R.
    eapply recv_leaf_spec with (N := N) (T := T) in R as (R1 & R2 & R3); [|exact Id].
    assert (Q1 : q_own h1') by (eapply q_own_eq; [| |exact Q]; congruence).
    assert (EF : Forall (eff_ok N T) (ek ++ er)) by (apply Forall_app; split; assumption).
    destruct rr as [err|].
    + injection H as <- <- <-. split; [eapply wf_update; eauto; congruence|].
      split; [eapply ids_mono_update; eauto; congruence|]. split; [exact EF|exact Logic.I].
    + destruct (next_false h1') as [h2 l] eqn:X. injection H as <- <- <-.
      apply next_false_spec in X as (X1 & X2 & X3); [|exact Q1].
      split; [eapply wf_update; eauto; congruence|].
      split; [eapply ids_mono_update; eauto; congruence|]. split; [exact EF|].
      cbn. apply Forall_app. split; [|exact A]. refine (List.Forall_impl _ _ X3).
      cbn. intros o Ho. left. rewrite Ho. congruence.
  - (* a batch of one device *)
    destruct (negb (id_eqb (s_id h) d)).
    { injection H as <- <- <-. split; [exact W|]. split; [apply ids_mono_refl|]. split; [constructor|exact Logic.I]. }
    destruct (is_nil subs).
    { injection H as <- <- <-. split; [exact W|]. split; [apply ids_mono_refl|]. split; [constructor|exact Logic.I]. }
    destruct (recv_batch h subs) as [[h1 er] rr] eqn:R.
    eapply recv_batch_spec with (N := N) (T := T) in R as (R1 & R2 & R3).
    2:{ intros v Hv. apply I. right. cbn. apply in_map. exact Hv. }
    assert (Q1 : q_own h1) by (eapply q_own_eq; [| |exact Q]; congruence).
    destruct rr as [err|].
    + injection H as <- <- <-. split; [eapply wf_update; eauto|].
      split; [eapply ids_mono_update; eauto|]. split; [exact R3|exact Logic.I].
    + destruct (next_false h1) as [h2 l] eqn:X. injection H as <- <- <-.
      apply next_false_spec in X as (X1 & X2 & X3); [|exact Q1].
      split; [eapply wf_update; eauto; congruence|].
      split; [eapply ids_mono_update; eauto; congruence|]. split; [exact R3|].
      cbn. apply Forall_app. split; [|exact A]. refine (List.Forall_impl _ _ X3).
      cbn. intros o Ho. left. rewrite Ho. congruence.
  - (* a batch of several devices *)
    destruct (is_nil subs).
    { injection H as <- <- <-. split; [exact W|]. split; [apply ids_mono_refl|]. split; [constructor|exact Logic.I]. }
    destruct (process_multiple true a i t2 subs [] []) as [[[t4 acc] e4] rr] eqn:P.
    eapply process_multiple_spec with (N := N) (T := T) in P as (P1 & P2 & P3 & P4); auto.
    2:{ intros v Hv. apply I. right. cbn. apply in_map. exact Hv. }
    destruct rr as [err|]; injection H as <- <- <-.
    + split; [exact P1|]. split; [exact P2|]. split; [exact P4|exact Logic.I].
    + split; [exact P1|]. split; [exact P2|]. split; [exact P4|]. cbn.
      destruct (acc ++ add) eqn:AA; cbn [is_nil].
      * apply Forall_one. left. cbn. rewrite HH. exact Id.
      * rewrite <- AA. apply Forall_app. split; assumption.
Qed.

(* Listener.talk: the table stays well formed, everything done is done in the session of the
   device on whose behalf it is done, everything handed to the connection names a device the
   packet named (or tagged), and a re-registration request changes nothing. *)
Lemma talk_spec a t p t' e r :
  talk a t p = (t', e, r) -> wf t ->
  wf t' /\ ids_mono t t' /\ Forall (eff_ok (names p) (p_tags p)) e /\
  match r with
  | ARegister d => d = p_dev p /\ t' = t /\ e = []
  | _ => reply_ok (names p) (p_tags p) r
  end.
Proof.
  unfold talk, talk_g. intros H W.
  assert (ERR : forall c, wf t /\ ids_mono t t /\ Forall (eff_ok (names p) (p_tags p)) [] /\ reply_ok (names p) (p_tags p) (AErr c)).
  { intros c. split; [exact W|]. split; [apply ids_mono_refl|]. split; [constructor|exact Logic.I]. }
  destruct (id_empty (p_dev p)) eqn:NE. { injection H as <- <- <-. apply ERR. }
  destruct (talk_enter true a t p) as [[[t1 e1] known]|c|] eqn:EN.
  - eapply talk_enter_spec with (N := names p) (T := p_tags p) in EN as (W1 & M1 & F1 & h & L & E); auto.
    2:{ left. reflexivity. }
    rewrite L in H.
    destruct (resolve_tags a (s_id h) t1 (p_tags p) [] [] []) as [[[t2 add] e2] rr] eqn:RT.
    eapply resolve_tags_spec with (N := names p) (T := p_tags p) in RT as (W2 & M2 & A2 & F2); auto.
    2:{ apply incl_refl. }
    destruct rr as [err|].
    + injection H as <- <- <-. split; [exact W2|]. split; [eapply ids_mono_trans; eauto|].
      split; [apply Forall_app; split; assumption|exact Logic.I].
    + destruct (talk_process true a (hash (p_dev p)) t2 p add known) as [[t3 e3] r3] eqn:TP.
      injection H as <- <- <-.
      eapply talk_process_spec with (N := names p) (T := p_tags p) in TP as (W3 & M3 & F3 & R3); auto.
      * split; [exact W3|]. split; [eapply ids_mono_trans; [|exact M3]; eapply ids_mono_trans; eauto|].
        split; [apply Forall_app; split; [exact F1|apply Forall_app; split; assumption]|].
        destruct r3; try contradiction; exact R3.
      * intros h2 L2. destruct (M2 _ _ L) as (h2' & L2' & E2). congruence.
      * apply incl_refl.
  - destruct (c =? 0); injection H as <- <- <-.
    + split; [exact W|]. split; [apply ids_mono_refl|]. split; [constructor|]. auto.
    + apply ERR.
  - injection H as <- <- <-. apply ERR.
Qed.

(* ------------------------------------------------------------------------- *)
(* 3. Server.Session / send / Remove, steps and histories                     *)

(* Server.Session returns the session of the device asked for, or nothing *)
Lemma server_session_own t d s : server_session t d = Some s -> t !! hash d = Some s /\ s_id s = d.
Proof.
  unfold server_session, server_session_g. destruct (id_empty d); [discriminate|].
  destruct (lookup true t d) eqn:L; try discriminate. intros [= <-]. apply lookup_own. exact L.
Qed.

(* ... and it does find every registered device *)
Lemma server_session_complete t k s : wf t -> t !! k = Some s -> server_session t (s_id s) = Some s.
Proof.
  intros W H. destruct (W _ _ H) as (Hk & NE & _).
  unfold server_session, server_session_g. rewrite NE.
  rewrite (lookup_own_intro t (s_id s) s); [reflexivity| |reflexivity]. rewrite Hk. exact H.
Qed.

Lemma server_session_none_iff t d :
  id_empty d = false ->
  (server_session t d = None <-> forall s, t !! hash d = Some s -> s_id s <> d).
Proof.
  intros NE. unfold server_session, server_session_g. rewrite NE. split.
  - intros H s L E. rewrite (lookup_own_intro _ _ _ L E) in H. discriminate.
  - intros H. destruct (lookup true t d) eqn:L; try reflexivity.
    apply lookup_own in L as [L E]. exfalso. eapply H; eauto.
Qed.

Lemma server_send_spec t d pid job t' r :
  server_send t d pid job = (t', r) -> wf t ->
  wf t' /\ ids_mono t t' /\ (forall x, r = Some x -> x = d) /\
  (forall k, k <> hash d -> t' !! k = t !! k).
Proof.
  unfold server_send, server_send_g. intros H W.
  change (server_session_g true) with server_session in H.
  destruct (server_session t d) as [s|] eqn:S.
  - apply server_session_own in S as [L E]. injection H as <- <-.
    destruct (W _ _ L) as (_ & _ & Q).
    split; [|split; [|split]].
    + eapply wf_update; eauto. unfold q_own. cbn. apply Forall_app. split; [exact Q|].
      apply Forall_one. cbn. congruence.
    + eapply ids_mono_update; eauto.
    + intros x [= <-]. exact E.
    + intros k Hk. unfold table in *. rewrite lookup_insert_ne; auto.
  - injection H as <- <-. split; [exact W|]. split; [apply ids_mono_refl|]. split; [discriminate|reflexivity].
Qed.

Lemma server_remove_wf t d : wf t -> wf (server_remove t d).1.
Proof.
  intros W. unfold server_remove. destruct (t !! hash d); cbn; [apply wf_delete|]; exact W.
Qed.

(* after Remove(d) a lookup of d finds nothing; entries under other keys are not affected *)
Lemma remove_forgets t d : server_session (server_remove t d).1 d = None.
Proof.
  unfold server_session, server_session_g. destruct (id_empty d); [reflexivity|].
  rewrite lookup_free_intro; [reflexivity|].
  unfold server_remove. destruct (t !! hash d) eqn:L; cbn; [|exact L].
  unfold table in *. apply lookup_delete.
Qed.
Lemma remove_keeps_other_keys t d k : k <> hash d -> (server_remove t d).1 !! k = t !! k.
Proof.
  intros N. unfold server_remove. destruct (t !! hash d); cbn; [|reflexivity].
  unfold table in *. apply lookup_delete_ne. auto.
Qed.
(* what is dropped sits under the hash of d (it IS d's session when hashes do not collide) *)
Lemma remove_drops_slot t d t' e :
  server_remove t d = (t', e) -> wf t -> Forall (fun x => exists s, x = EDrop s /\ hash s = hash d) e.
Proof.
  unfold server_remove. intros H W. destruct (t !! hash d) as [s|] eqn:L; injection H as <- <-.
  - apply Forall_one. exists (s_id s). split; [reflexivity|]. apply (W _ _ L).
  - constructor.
Qed.

Definition op_names (o : op) : list id :=
  match o with OTalk p => names p | OTalkSub n _ => [l_dev n] | _ => [] end.
Definition op_tags (o : op) : list Z := match o with OTalk p => p_tags p | _ => [] end.

(* what a step may answer *)
Definition ans_ok (o : op) (r : ans) : Prop :=
  match o, r with
  | OTalk p, ARegister d => d = p_dev p
  | OTalk p, AReply _ l => Forall (out_ok (names p) (p_tags p)) l
  | OTalk p, AErr _ => True
  | OTalkSub n _, ASub k _ reg l =>
      Forall (fun x => o_dev x = l_dev n) l /\ (forall d, reg = Some d -> d = l_dev n) /\
      (forall d, k = Some d -> d = l_dev n)
  | OTalkSub n _, AErr _ => True
  | OSend d _ _, AFound x => forall y, x = Some y -> y = d
  | OLookup d, AFound x => forall y, x = Some y -> y = d
  | ORemove _, ABool _ => True
  | OSessions, AList _ => True
  | _, _ => False
  end.

Lemma step_spec a t o t' e r :
  step a t o = (t', e, r) -> wf t ->
  wf t' /\ Forall (eff_ok (op_names o) (op_tags o)) e /\ ans_ok o r.
Proof.
  unfold step, step_g. intros H W. destruct o as [p|n b|d pid job|d|d|].
  - change (talk_g true) with talk in H. apply talk_spec in H as (W' & _ & F & R); [|exact W].
    split; [exact W'|]. split; [exact F|]. cbn. destruct r; try contradiction; try exact R; try exact Logic.I.
    apply R.
  - change (talk_sub_g true) with talk_sub in H.
    eapply talk_sub_spec with (N := [l_dev n]) (T := []) in H as (W' & _ & F & R); [|exact W|left; reflexivity].
    split; [exact W'|]. split; [exact F|]. cbn. destruct r; try contradiction; try exact Logic.I.
    destruct R as (R1 & R2 & R3). split; [exact R1|]. split; [|exact R3]. intros x Hx. apply (R2 x Hx).
  - change (server_send_g true) with server_send in H.
    destruct (server_send t d pid job) as [t1 r1] eqn:S. injection H as <- <- <-.
    apply server_send_spec in S as (W' & _ & R & _); [|exact W].
    split; [exact W'|]. split; [constructor|]. exact R.
  - injection H as <- <- <-. split; [exact W|]. split; [constructor|]. cbn.
    change (server_session_g true) with server_session.
    destruct (server_session t d) as [s|] eqn:S; cbn; [|discriminate].
    intros y [= <-]. apply (server_session_own _ _ _ S).
  - destruct (server_remove t d) as [t1 e1] eqn:S. injection H as <- <- <-.
    split; [change t1 with (t1, e1).1; rewrite <- S; apply server_remove_wf; exact W|].
    split; [|exact Logic.I]. apply remove_drops_slot in S; [|exact W].
    refine (List.Forall_impl _ _ S). intros x (s & -> & _). exact Logic.I.
  - injection H as <- <- <-. split; [exact W|]. split; [constructor|exact Logic.I].
Qed.

(* induction over the history *)
Lemma run_spec ops : forall a t t' l,
  run a t ops = (t', l) -> wf t ->
  wf t' /\ Forall2 (fun o er => Forall (eff_ok (op_names o) (op_tags o)) er.1 /\ ans_ok o er.2) ops l.
Proof.
  unfold run. induction ops as [|o ops IH]; intros a t t' l H W; cbn [run_g] in H.
  - injection H as <- <-. split; [exact W|constructor].
  - destruct (step_g true a t o) as [[t1 e1] r1] eqn:S. change (step_g true) with step in S.
    destruct (run_g true (a + 1) t1 ops) as [t2 l2] eqn:R. injection H as <- <-.
    apply step_spec in S as (W1 & F1 & A1); [|exact W].
    apply IH in R as (W2 & F2); [|exact W1].
    split; [exact W2|]. constructor; [split; assumption|exact F2].
Qed.

(* every table a server can reach from the empty one *)
Definition reachable (t : table) : Prop := exists ops a, (run a ∅ ops).1 = t.
Lemma reachable_wf t : reachable t -> wf t.
Proof.
  intros (ops & a & <-). destruct (run a ∅ ops) as [t' l] eqn:R.
  apply run_spec in R as [W _]; [exact W|apply wf_empty].
Qed.
