(* Proofs/Table.v -- lemmas for C15 (packets only reach the session of the device they name).

   Structure:
   1. IDs, sessions, the table invariant wf (every entry under key k holds a session whose ID
      hashes to k, whose ID is not empty and whose queue only holds packets naming that ID);
   2. per-function lemmas for rekey / recv_leaf / recv_batch / next / talk_sub / resolve_tags /
      process_multiple / talk_process / talk (the code as it is: chk = true);
   3. steps and histories (induction over the history);
   4. the proxy;
   5. the real colliding pair, what still fails because the table is keyed by the hash, and the
      regression statements about the code as it was (chk = false). *)
From stdpp Require Import gmap.
From XMT Require Import Base.Prelude Model.Table.

(* ------------------------------------------------------------------------- *)
(* 1. basics                                                                  *)

Lemma zlist_eqb_eq (a b : list Z) : zlist_eqb a b = true <-> a = b.
Proof.
  unfold zlist_eqb. revert b. induction a as [|x a IH]; intros [|y b]; cbn [list_eqb]; split; intros H;
    try reflexivity; try discriminate.
  - apply andb_true_iff in H as [H1 H2]. apply Z.eqb_eq in H1. apply IH in H2. congruence.
  - injection H as -> ->. rewrite Z.eqb_refl. cbn. apply IH. reflexivity.
Qed.

Lemma id_eqb_eq (a b : id) : id_eqb a b = true <-> a = b.
Proof. apply zlist_eqb_eq. Qed.
Lemma id_eqb_refl (a : id) : id_eqb a a = true.
Proof. apply id_eqb_eq. reflexivity. Qed.
Lemma id_eqb_neq (a b : id) : id_eqb a b = false <-> a <> b.
Proof.
  split.
  - intros H E. apply id_eqb_eq in E. congruence.
  - intros H. destruct (id_eqb a b) eqn:E; [|reflexivity]. apply id_eqb_eq in E. contradiction.
Qed.

(* the device an outbound leaf packet names *)
Definition o_dev (o : out) : id := o.1.1.

Definition q_own (s : session) : Prop := Forall (fun o => o_dev o = s_id s) (s_out s).

Definition wf (t : table) : Prop :=
  forall k s, t !! k = Some s -> hash (s_id s) = k /\ id_empty (s_id s) = false /\ q_own s.

Lemma wf_empty : wf ∅.
Proof. intros k s H. unfold table in *. rewrite lookup_empty in H. discriminate. Qed.

Lemma wf_insert t k s :
  wf t -> hash (s_id s) = k -> id_empty (s_id s) = false -> q_own s -> wf (<[k := s]> t).
Proof.
  intros W H1 H2 H3 k' s' H. unfold table in *. destruct (decide (k = k')) as [->|N].
  - rewrite lookup_insert in H. injection H as <-. auto.
  - rewrite lookup_insert_ne in H by exact N. apply W. exact H.
Qed.

(* replacing an entry by a session of the same ID *)
Lemma wf_update t k s s' :
  wf t -> t !! k = Some s -> s_id s' = s_id s -> q_own s' -> wf (<[k := s']> t).
Proof.
  intros W H E Q. destruct (W _ _ H) as (H1 & H2 & _).
  apply wf_insert; rewrite ?E; auto.
Qed.

Lemma wf_delete t k : wf t -> wf (delete k t).
Proof.
  intros W k' s H. unfold table in *. destruct (decide (k = k')) as [->|N].
  - rewrite lookup_delete in H. discriminate.
  - rewrite lookup_delete_ne in H by exact N. apply W. exact H.
Qed.

(* the IDs stored under each key are kept (entries may change their queue, address and key) *)
Definition ids_mono (t t' : table) : Prop :=
  forall k s, t !! k = Some s -> exists s', t' !! k = Some s' /\ s_id s' = s_id s.

Lemma ids_mono_refl t : ids_mono t t.
Proof. intros k s H. eauto. Qed.
Lemma ids_mono_trans t1 t2 t3 : ids_mono t1 t2 -> ids_mono t2 t3 -> ids_mono t1 t3.
Proof.
  intros A B k s H. destruct (A _ _ H) as (s' & H' & E). destruct (B _ _ H') as (s'' & H'' & E').
  exists s''. split; [exact H''|congruence].
Qed.
Lemma ids_mono_update t k s s' : t !! k = Some s -> s_id s' = s_id s -> ids_mono t (<[k := s']> t).
Proof.
  intros H E k' x Hx. unfold table in *. destruct (decide (k = k')) as [->|N].
  - rewrite lookup_insert. exists s'. split; [reflexivity|]. congruence.
  - rewrite lookup_insert_ne by exact N. eauto.
Qed.
Lemma ids_mono_fresh t k s : t !! k = None -> ids_mono t (<[k := s]> t).
Proof.
  intros H k' x Hx. unfold table in *. destruct (decide (k = k')) as [->|N]; [congruence|].
  rewrite lookup_insert_ne by exact N. eauto.
Qed.

(* ---- the lookup ---------------------------------------------------------- *)
Lemma lookup_own t d s : lookup true t d = Own s -> t !! hash d = Some s /\ s_id s = d.
Proof.
  unfold lookup. destruct (t !! hash d) as [x|]; [|discriminate]. cbn [andb].
  destruct (id_eqb (s_id x) d) eqn:E; cbn [negb]; [|discriminate].
  intros [= <-]. split; [reflexivity|]. apply id_eqb_eq. exact E.
Qed.
Lemma lookup_other t d s : lookup true t d = Other s -> t !! hash d = Some s /\ s_id s <> d.
Proof.
  unfold lookup. destruct (t !! hash d) as [x|]; [|discriminate]. cbn [andb].
  destruct (id_eqb (s_id x) d) eqn:E; cbn [negb]; [discriminate|].
  intros [= <-]. split; [reflexivity|]. apply id_eqb_neq. exact E.
Qed.
Lemma lookup_free chk t d : lookup chk t d = Free -> t !! hash d = None.
Proof.
  unfold lookup. destruct (t !! hash d) as [x|]; [|reflexivity].
  destruct (chk && negb (id_eqb (s_id x) d)); discriminate.
Qed.
Lemma lookup_own_intro t d s : t !! hash d = Some s -> s_id s = d -> lookup true t d = Own s.
Proof. intros H E. unfold lookup. rewrite H. cbn [andb]. rewrite <- E, id_eqb_refl. reflexivity. Qed.
Lemma lookup_other_intro t d s : t !! hash d = Some s -> s_id s <> d -> lookup true t d = Other s.
Proof.
  intros H E. unfold lookup. rewrite H. cbn [andb]. apply id_eqb_neq in E. rewrite E. reflexivity.
Qed.
Lemma lookup_free_intro chk t d : t !! hash d = None -> lookup chk t d = Free.
Proof. intros H. unfold lookup. rewrite H. reflexivity. Qed.

(* ---- session operations --------------------------------------------------- *)
Lemma take_next_spec s x q s' l :
  take_next s x q = (s', l) -> s_out s = x :: q -> q_own s ->
  s_id s' = s_id s /\ q_own s' /\ Forall (fun o => o_dev o = s_id s) l.
Proof.
  unfold take_next, q_own. intros H E Q. rewrite E in Q.
  pose proof (Forall_inv Q) as Qx. pose proof (Forall_inv_tail Q) as Qq.
  destruct (o_crypt x && o_names x (s_id s)); injection H as <- <-; cbn.
  - split; [reflexivity|]. split; [exact Qq|]. constructor; [exact Qx|constructor].
  - split; [reflexivity|]. split; [constructor|exact Q].
Qed.
Lemma next_true_spec s s' l :
  next_true s = (s', l) -> q_own s ->
  s_id s' = s_id s /\ q_own s' /\ Forall (fun o => o_dev o = s_id s) l.
Proof.
  unfold next_true. intros H Q. destruct (s_out s) as [|x q] eqn:E.
  - injection H as <- <-. auto.
  - eapply take_next_spec; eauto.
Qed.
Lemma next_false_spec s s' l :
  next_false s = (s', l) -> q_own s ->
  s_id s' = s_id s /\ q_own s' /\ Forall (fun o => o_dev o = s_id s) l.
Proof.
  unfold next_false. intros H Q. destruct (s_out s) as [|x q] eqn:E.
  - injection H as <- <-. split; [reflexivity|]. split; [exact Q|]. repeat constructor.
  - eapply take_next_spec; eauto.
Qed.

Lemma q_own_set_host s a : q_own s -> q_own (set_host s a).
Proof. intros H. exact H. Qed.
Lemma q_own_set_key s k : q_own s -> q_own (set_key s k).
Proof. intros H. exact H. Qed.

(* what is done in a session on behalf of a packet: in the session of the device the packet
   names (N: the devices the incoming packet names, T: its tags) *)
Definition eff_ok (N : list id) (T : list Z) (e : eff) : Prop :=
  match e with
  | ETouch s p => s = p /\ In p N
  | ERekey s p _ => s = p /\ In p N
  | EHandle s p _ => s = p /\ In p N
  | EFetch s tag => hash s = tag /\ In tag T
  | ENew s => In s N
  | EDrop _ => True
  end.
(* an outbound packet names a device the incoming packet named, or one whose hash is a tag *)
Definition out_ok (N : list id) (T : list Z) (o : out) : Prop := In (o_dev o) N \/ In (hash (o_dev o)) T.

Lemma eff_ok_mono N N' T T' e : incl N N' -> incl T T' -> eff_ok N T e -> eff_ok N' T' e.
Proof. intros HN HT. destruct e; cbn; intuition. Qed.
Lemma out_ok_mono N N' T T' o : incl N N' -> incl T T' -> out_ok N T o -> out_ok N' T' o.
Proof. intros HN HT [H|H]; [left|right]; auto. Qed.

Lemma rekey_spec s n s' e N T :
  rekey s n = (s', e) -> s_id s = l_dev n -> In (l_dev n) N ->
  s_id s' = s_id s /\ s_out s' = s_out s /\ Forall (eff_ok N T) e.
Proof.
  unfold rekey. intros H E I. destruct (body_key (l_body n)); injection H as <- <-.
  - cbn. repeat split; auto. constructor; [|constructor]. cbn. auto.
  - auto.
Qed.

(* receive compares the full ID itself: its effects are own whatever session it is given *)
Lemma recv_leaf_spec s n s' e r N T :
  recv_leaf s n = (s', e, r) -> In (l_dev n) N ->
  s_id s' = s_id s /\ s_out s' = s_out s /\ Forall (eff_ok N T) e.
Proof.
  unfold recv_leaf. intros H I.
  destruct (id_empty (l_dev n) || is_nop n); [injection H as <- <- <-; auto|].
  destruct (id_eqb (s_id s) (l_dev n)) eqn:E; cbn [negb] in H; [|injection H as <- <- <-; auto].
  apply id_eqb_eq in E.
  destruct (l_pid n =? SvComplete).
  { destruct (body_key (l_body n)); injection H as <- <- <-; auto.
    cbn. repeat split; auto. constructor; [|constructor]. cbn. auto. }
  destruct (l_pid n <? MvRefresh); injection H as <- <- <-; auto.
  repeat split; auto. constructor; [|constructor]. cbn. auto.
Qed.

Lemma recv_batch_spec subs : forall s s' e r N T,
  recv_batch s subs = (s', e, r) -> (forall v, In v subs -> In (l_dev v) N) ->
  s_id s' = s_id s /\ s_out s' = s_out s /\ Forall (eff_ok N T) e.
Proof.
  induction subs as [|v subs IH]; intros s s' e r N T H I; cbn [recv_batch] in H.
  - injection H as <- <- <-. auto.
  - destruct (id_empty (l_dev v)); [injection H as <- <- <-; auto|].
    destruct (recv_leaf s v) as [[s1 e1] [err|]] eqn:R.
    + injection H as <- <- <-. eapply recv_leaf_spec; [exact R|]. apply I. left. reflexivity.
    + destruct (recv_batch s1 subs) as [[s2 e2] r2] eqn:B. injection H as <- <- <-.
      eapply recv_leaf_spec with (N := N) (T := T) in R as (A1 & A2 & A3); [|apply I; left; reflexivity].
      eapply IH in B as (B1 & B2 & B3); [|intros x Hx; apply I; right; exact Hx].
      repeat split; try congruence. apply Forall_app. split; eauto.
Qed.

Lemma q_own_eq s s' : s_id s' = s_id s -> s_out s' = s_out s -> q_own s -> q_own s'.
Proof. unfold q_own. intros -> ->. auto. Qed.

(* ------------------------------------------------------------------------- *)
(* 2. the dispatch functions (the code as it is)                              *)

Lemma Forall_one {A} (P : A -> Prop) x : P x -> Forall P [x].
Proof. intros H. constructor; [exact H|constructor]. Qed.

Lemma new_session_q_own a d j : q_own (new_session a d j).
Proof. apply Forall_one. reflexivity. Qed.

Lemma talk_sub_spec a t n o t' e r N T :
  talk_sub a t n o = (t', e, r) -> wf t -> In (l_dev n) N ->
  wf t' /\ ids_mono t t' /\ Forall (eff_ok N T) e /\
  match r with
  | ASub k q reg l =>
      Forall (fun x => o_dev x = l_dev n) l /\
      (forall d, reg = Some d -> d = l_dev n /\ t' = t /\ e = [] /\ k = None) /\
      (forall d, k = Some d -> d = l_dev n)
  | AErr _ => True
  | _ => False
  end.
Proof.
  unfold talk_sub, talk_sub_g. intros H W I.
  assert (REG : wf t /\ ids_mono t t /\ Forall (eff_ok N T) [] /\
                (Forall (fun x => o_dev x = l_dev n) [] /\
                 (forall d, Some (l_dev n) = Some d -> d = l_dev n /\ t = t /\ @nil eff = [] /\ @None id = None) /\
                 (forall d, @None id = Some d -> d = l_dev n))).
  { split; [exact W|]. split; [apply ids_mono_refl|]. split; [constructor|]. split; [constructor|].
    split; [intros d [= <-]; auto|intros d; discriminate]. }
  assert (ERR : wf t /\ ids_mono t t /\ Forall (eff_ok N T) [] /\ True).
  { split; [exact W|]. split; [apply ids_mono_refl|]. split; [constructor|exact Logic.I]. }
  destruct (id_empty (l_dev n)) eqn:NE.
  { injection H as <- <- <-. exact ERR. }
  destruct (lookup true t (l_dev n)) as [|s|s] eqn:L.
  - (* the slot is free *)
    apply lookup_free in L.
    destruct (body_empty (l_body n) && (l_pid n =? SvHello)). { injection H as <- <- <-. exact ERR. }
    destruct (negb (l_pid n =? SvHello)).
    { injection H as <- <- <-. exact REG. }
    destruct (l_body n); try (injection H as <- <- <-; exact ERR).
    pose proof (new_session_q_own a (l_dev n) (l_job n)) as Q.
    assert (EF : Forall (eff_ok N T) [ETouch (l_dev n) (l_dev n); ENew (l_dev n)]).
    { constructor; [cbn; auto|]. apply Forall_one. cbn. auto. }
    destruct o.
    + injection H as <- <- <-. cbn [s_id new_session].
      split; [apply wf_insert; auto|]. split; [apply ids_mono_fresh; exact L|]. split; [exact EF|].
      split; [constructor|]. split; [intros d; discriminate|intros d [= <-]; reflexivity].
    + destruct (next_true (new_session a (l_dev n) (l_job n))) as [s' l] eqn:X.
      injection H as <- <- <-. cbn [s_id new_session].
      apply next_true_spec in X as (X1 & X2 & X3); [|exact Q]. cbn [s_id new_session] in X1, X3.
      split; [apply wf_insert; auto; rewrite X1; auto|]. split; [apply ids_mono_fresh; exact L|].
      split; [exact EF|]. split; [exact X3|].
      split; [intros d; discriminate|intros d [= <-]; reflexivity].
  - (* the session of this very device *)
    apply lookup_own in L as [L E].
    destruct (rekey (set_host s a) n) as [s2 ek] eqn:K.
    eapply rekey_spec with (N := N) (T := T) in K as (K1 & K2 & K3); [|exact E|exact I].
    cbn [set_host s_id s_out] in K1, K2.
    destruct (W _ _ L) as (_ & _ & Q).
    destruct (recv_leaf s2 n) as [[s2' e2] r2] eqn:R.
    eapply recv_leaf_spec with (N := N) (T := T) in R as (R1 & R2 & R3); [|exact I].
    assert (Q2 : q_own s2') by (eapply q_own_eq; [| |exact Q]; congruence).
    assert (EF : Forall (eff_ok N T) ((ETouch (s_id s) (l_dev n) :: ek) ++ e2)).
    { apply Forall_app. split; [|exact R3]. constructor; [cbn; auto|exact K3]. }
    assert (W2 : wf (<[hash (l_dev n) := s2']> t)) by (eapply wf_update; eauto; congruence).
    assert (M2 : ids_mono t (<[hash (l_dev n) := s2']> t)) by (eapply ids_mono_update; eauto; congruence).
    destruct r2 as [err|].
    + injection H as <- <- <-. split; [exact W2|]. split; [exact M2|]. split; [exact EF|exact Logic.I].
    + destruct o.
      * injection H as <- <- <-. split; [exact W2|]. split; [exact M2|]. split; [exact EF|].
        split; [constructor|]. split; [intros d; discriminate|intros d [= <-]; exact E].
      * destruct (next_true s2') as [s3 l] eqn:X. injection H as <- <- <-.
        apply next_true_spec in X as (X1 & X2 & X3); [|exact Q2].
        split; [eapply wf_update; eauto; congruence|].
        split; [eapply ids_mono_update; eauto; congruence|]. split; [exact EF|].
        split; [refine (List.Forall_impl _ _ X3); cbn; intros x Hx; rewrite Hx; congruence|].
        split; [intros d; discriminate|intros d [= <-]; exact E].
  - (* the slot holds another device: nothing is touched *)
    destruct (body_empty (l_body n) && (l_pid n =? SvHello)); injection H as <- <- <-; [exact ERR|exact REG].
Qed.

Lemma resolve_tags_spec a host tags : forall t seen add e t' add' e' r N T,
  resolve_tags a host t tags seen add e = (t', add', e', r) -> wf t -> incl tags T ->
  Forall (out_ok N T) add -> Forall (eff_ok N T) e ->
  wf t' /\ ids_mono t t' /\ Forall (out_ok N T) add' /\ Forall (eff_ok N T) e'.
Proof.
  induction tags as [|x tags IH]; intros t seen add e t' add' e' r N T H W I A E; cbn [resolve_tags] in H.
  - injection H as <- <- <- <-. auto using ids_mono_refl.
  - assert (I' : incl tags T) by (intros y Hy; apply I; right; exact Hy).
    assert (Ix : In x T) by (apply I; left; reflexivity).
    destruct (x =? 0). { injection H as <- <- <- <-. auto using ids_mono_refl. }
    destruct (existsb (Z.eqb x) seen). { eapply IH; eauto. }
    destruct (t !! x) as [v|] eqn:L; [|eapply IH; eauto].
    destruct (id_eqb (s_id v) host). { eapply IH; eauto. }
    destruct (next_true (set_host v a)) as [v' l] eqn:X.
    destruct (W _ _ L) as (Hk & _ & Q).
    apply next_true_spec in X as (X1 & X2 & X3); [|exact Q]. cbn [set_host s_id] in X1, X3.
    eapply (IH _ _ _ _ _ _ _ _ N T) in H as (H1 & H2 & H3 & H4); auto.
    + split; [exact H1|]. split; [|split; assumption].
      eapply ids_mono_trans; [|exact H2]. eapply ids_mono_update; eauto.
    + eapply wf_update; eauto.
    + apply Forall_app. split; [exact A|]. refine (List.Forall_impl _ _ X3).
      cbn. intros o Ho. right. rewrite Ho, Hk. exact Ix.
    + apply Forall_app. split; [exact E|]. apply Forall_one. cbn. auto.
Qed.

Lemma process_multiple_spec a hk subs : forall t acc e t' acc' e' r N T,
  process_multiple true a hk t subs acc e = (t', acc', e', r) -> wf t ->
  (forall v, In v subs -> In (l_dev v) N) -> Forall (out_ok N T) acc -> Forall (eff_ok N T) e ->
  wf t' /\ ids_mono t t' /\ Forall (out_ok N T) acc' /\ Forall (eff_ok N T) e'.
Proof.
  induction subs as [|v subs IH]; intros t acc e t' acc' e' r N T H W I A E; cbn [process_multiple] in H.
  - injection H as <- <- <- <-. auto using ids_mono_refl.
  - assert (I' : forall x, In x subs -> In (l_dev x) N) by (intros y Hy; apply I; right; exact Hy).
    assert (Iv : In (l_dev v) N) by (apply I; left; reflexivity).
    destruct (id_empty (l_dev v)). { injection H as <- <- <- <-. auto using ids_mono_refl. }
    destruct (t !! hk) as [h|] eqn:L; [|injection H as <- <- <- <-; auto using ids_mono_refl].
    destruct (id_eqb (s_id h) (l_dev v)) eqn:EQ.
    + (* a packet of the host's own device *)
      apply id_eqb_eq in EQ. destruct (W _ _ L) as (_ & _ & Q).
      destruct (rekey h v) as [h1 ek] eqn:K.
      eapply rekey_spec with (N := N) (T := T) in K as (K1 & K2 & K3); [|exact EQ|exact Iv].
      destruct (recv_leaf h1 v) as [[h1' er] rr] eqn:R.
      eapply recv_leaf_spec with (N := N) (T := T) in R as (R1 & R2 & R3); [|exact Iv].
      assert (Q1 : q_own h1') by (eapply q_own_eq; [| |exact Q]; congruence).
      destruct (next_false h1') as [h2 l] eqn:X.
      apply next_false_spec in X as (X1 & X2 & X3); [|exact Q1].
      eapply (IH _ _ _ _ _ _ _ N T) in H as (H1 & H2 & H3 & H4); auto.
      * split; [exact H1|]. split; [|split; assumption].
        eapply ids_mono_trans; [|exact H2]. eapply ids_mono_update; eauto. congruence.
      * eapply wf_update; eauto. congruence.
      * apply Forall_app. split; [exact A|]. refine (List.Forall_impl _ _ X3).
        cbn. intros o Ho. left. rewrite Ho. congruence.
      * apply Forall_app. split; [exact E|]. apply Forall_app. split; assumption.
    + (* a packet of another device: through talkSub *)
      destruct (talk_sub_g true a t v false) as [[t1 e1] r1] eqn:S.
      change (talk_sub_g true) with talk_sub in S.
      eapply talk_sub_spec with (N := N) (T := T) in S as (S1 & S2 & S3 & S4); [|exact W|exact Iv].
      assert (E1 : Forall (eff_ok N T) (e ++ e1)) by (apply Forall_app; split; assumption).
      destruct r1 as [err| | |k q reg l| | |]; try contradiction.
      * injection H as <- <- <- <-. auto.
      * destruct S4 as (L1 & L2 & L3). destruct reg as [d|].
        -- destruct (L2 d eq_refl) as (-> & _).
           eapply (IH _ _ _ _ _ _ _ N T) in H as (H1 & H2 & H3 & H4); auto.
           ++ split; [exact H1|]. split; [|split; assumption]. eapply ids_mono_trans; eauto.
           ++ apply Forall_app. split; [exact A|]. apply Forall_one. left. exact Iv.
        -- eapply (IH _ _ _ _ _ _ _ N T) in H as (H1 & H2 & H3 & H4); auto.
           ++ split; [exact H1|]. split; [|split; assumption]. eapply ids_mono_trans; eauto.
           ++ apply Forall_app. split; [exact A|]. refine (List.Forall_impl _ _ L1).
              cbn. intros o Ho. left. rewrite Ho. exact Iv.
Qed.

Definition names (p : pkt) : list id := p_dev p :: p_subdevs p.

Lemma talk_enter_spec a t p t1 e1 known N T :
  talk_enter true a t p = Ok (t1, e1, known) -> wf t -> id_empty (p_dev p) = false -> In (p_dev p) N ->
  wf t1 /\ ids_mono t t1 /\ Forall (eff_ok N T) e1 /\
  exists h, t1 !! hash (p_dev p) = Some h /\ s_id h = p_dev p.
Proof.
  unfold talk_enter. intros H W NE I. destruct (lookup true t (p_dev p)) as [|s|s] eqn:L.
  - apply lookup_free in L.
    destruct (p_empty p && (p_pid p =? SvHello)); [discriminate|].
    destruct (negb (p_pid p =? SvHello)); [discriminate|].
    destruct p as [[d pid j []] tags| |]; try discriminate. cbn [p_dev l_dev] in *.
    injection H as <- <- <-.
    split; [apply wf_insert; auto using new_session_q_own|].
    split; [apply ids_mono_fresh; exact L|].
    split; [constructor; [cbn; auto|apply Forall_one; cbn; auto]|].
    exists (new_session a d j). unfold table in *. rewrite lookup_insert. auto.
  - apply lookup_own in L as [L E]. injection H as <- <- <-.
    destruct (W _ _ L) as (_ & _ & Q).
    split; [eapply wf_update; eauto|]. split; [eapply ids_mono_update; eauto|].
    split; [apply Forall_one; cbn; auto|].
    exists (set_host s a). unfold table in *. rewrite lookup_insert. auto.
  - destruct (p_empty p && (p_pid p =? SvHello)); discriminate.
Qed.

(* a re-registration request or an error out of the lookup leaves everything as it was *)
Lemma talk_enter_err a t p e :
  talk_enter true a t p = Err e -> e = 0 \/ e = EMalformed \/ e = EOther.
Proof.
  unfold talk_enter. destruct (lookup true t (p_dev p)).
  - destruct (p_empty p && (p_pid p =? SvHello)); [intros [= <-]; auto|].
    destruct (negb (p_pid p =? SvHello)); [intros [= <-]; auto|].
    destruct p as [[d pid j []] tags| |]; intros [= <-]; auto.
  - discriminate.
  - destruct (p_empty p && (p_pid p =? SvHello)); intros [= <-]; auto.
Qed.

Definition reply_ok (N : list id) (T : list Z) (r : ans) : Prop :=
  match r with
  | AReply _ l => Forall (out_ok N T) l
  | AErr _ => True
  | _ => False
  end.

Lemma talk_process_spec a i t2 p add known t3 e3 r N T :
  talk_process true a i t2 p add known = (t3, e3, r) -> wf t2 ->
  (forall h, t2 !! i = Some h -> s_id h = p_dev p) ->
  incl (names p) N -> Forall (out_ok N T) add ->
  wf t3 /\ ids_mono t2 t3 /\ Forall (eff_ok N T) e3 /\ reply_ok N T r.
Proof.
  unfold talk_process. intros H W HH I A.
  assert (Id : In (p_dev p) N) by (apply I; left; reflexivity).
  destruct (t2 !! i) as [h|] eqn:L.
  2:{ injection H as <- <- <-. split; [exact W|]. split; [apply ids_mono_refl|]. split; [constructor|exact Logic.I]. }
  specialize (HH h eq_refl). destruct (W _ _ L) as (_ & _ & Q).
  destruct p as [n tags|d j subs tags|d j subs tags]; cbn [p_dev] in *.
  - (* a single packet *)
    destruct (rekey h n) as [h1 ek] eqn:K.
    eapply rekey_spec with (N := N) (T := T) in K as (K1 & K2 & K3); [|exact HH|exact Id].
    destruct (recv_leaf h1 n) as [[h1' er] rr] eqn:R.
    eapply recv_leaf_spec with (N := N) (T := T) in R as (R1 & R2 & R3); [|exact Id].
    assert (Q1 : q_own h1') by (eapply q_own_eq; [| |exact Q]; congruence).
    assert (EF : Forall (eff_ok N T) (ek ++ er)) by (apply Forall_app; split; assumption).
    destruct rr as [err|].
    + injection H as <- <- <-. split; [eapply wf_update; eauto; congruence|].
      split; [eapply ids_mono_update; eauto; congruence|]. split; [exact EF|exact Logic.I].
    + destruct (next_false h1') as [h2 l] eqn:X. injection H as <- <- <-.
      apply next_false_spec in X as (X1 & X2 & X3); [|exact Q1].
      split; [eapply wf_update; eauto; congruence|].
      split; [eapply ids_mono_update; eauto; congruence|]. split; [exact EF|].
      cbn. apply Forall_app. split; [|exact A]. refine (List.Forall_impl _ _ X3).
      cbn. intros o Ho. left. rewrite Ho. congruence.
  - (* a batch of one device *)
    destruct (negb (id_eqb (s_id h) d)).
    { injection H as <- <- <-. split; [exact W|]. split; [apply ids_mono_refl|]. split; [constructor|exact Logic.I]. }
    destruct (is_nil subs).
    { injection H as <- <- <-. split; [exact W|]. split; [apply ids_mono_refl|]. split; [constructor|exact Logic.I]. }
    destruct (recv_batch h subs) as [[h1 er] rr] eqn:R.
    eapply recv_batch_spec with (N := N) (T := T) in R as (R1 & R2 & R3).
    2:{ intros v Hv. apply I. right. cbn. apply in_map. exact Hv. }
    assert (Q1 : q_own h1) by (eapply q_own_eq; [| |exact Q]; congruence).
    destruct rr as [err|].
    + injection H as <- <- <-. split; [eapply wf_update; eauto|].
      split; [eapply ids_mono_update; eauto|]. split; [exact R3|exact Logic.I].
    + destruct (next_false h1) as [h2 l] eqn:X. injection H as <- <- <-.
      apply next_false_spec in X as (X1 & X2 & X3); [|exact Q1].
      split; [eapply wf_update; eauto; congruence|].
      split; [eapply ids_mono_update; eauto; congruence|]. split; [exact R3|].
      cbn. apply Forall_app. split; [|exact A]. refine (List.Forall_impl _ _ X3).
      cbn. intros o Ho. left. rewrite Ho. congruence.
  - (* a batch of several devices *)
    destruct (is_nil subs).
    { injection H as <- <- <-. split; [exact W|]. split; [apply ids_mono_refl|]. split; [constructor|exact Logic.I]. }
    destruct (process_multiple true a i t2 subs [] []) as [[[t4 acc] e4] rr] eqn:P.
    eapply process_multiple_spec with (N := N) (T := T) in P as (P1 & P2 & P3 & P4); auto.
    2:{ intros v Hv. apply I. right. cbn. apply in_map. exact Hv. }
    destruct rr as [err|]; injection H as <- <- <-.
    + split; [exact P1|]. split; [exact P2|]. split; [exact P4|exact Logic.I].
    + split; [exact P1|]. split; [exact P2|]. split; [exact P4|]. cbn.
      destruct (acc ++ add) eqn:AA; cbn [is_nil].
      * apply Forall_one. left. cbn. rewrite HH. exact Id.
      * rewrite <- AA. apply Forall_app. split; assumption.
Qed.

(* Listener.talk: the table stays well formed, everything done is done in the session of the
   device on whose behalf it is done, everything handed to the connection names a device the
   packet named (or tagged), and a re-registration request changes nothing. *)
Lemma talk_spec a t p t' e r :
  talk a t p = (t', e, r) -> wf t ->
  wf t' /\ ids_mono t t' /\ Forall (eff_ok (names p) (p_tags p)) e /\
  match r with
  | ARegister d => d = p_dev p /\ t' = t /\ e = []
  | _ => reply_ok (names p) (p_tags p) r
  end.
Proof.
  unfold talk, talk_g. intros H W.
  assert (ERR : forall c, wf t /\ ids_mono t t /\ Forall (eff_ok (names p) (p_tags p)) [] /\ reply_ok (names p) (p_tags p) (AErr c)).
  { intros c. split; [exact W|]. split; [apply ids_mono_refl|]. split; [constructor|exact Logic.I]. }
  destruct (id_empty (p_dev p)) eqn:NE. { injection H as <- <- <-. apply ERR. }
  destruct (talk_enter true a t p) as [[[t1 e1] known]|c|] eqn:EN.
  - eapply talk_enter_spec with (N := names p) (T := p_tags p) in EN as (W1 & M1 & F1 & h & L & E); auto.
    2:{ left. reflexivity. }
    rewrite L in H.
    destruct (resolve_tags a (s_id h) t1 (p_tags p) [] [] []) as [[[t2 add] e2] rr] eqn:RT.
    eapply resolve_tags_spec with (N := names p) (T := p_tags p) in RT as (W2 & M2 & A2 & F2); auto.
    2:{ apply incl_refl. }
    destruct rr as [err|].
    + injection H as <- <- <-. split; [exact W2|]. split; [eapply ids_mono_trans; eauto|].
      split; [apply Forall_app; split; assumption|exact Logic.I].
    + destruct (talk_process true a (hash (p_dev p)) t2 p add known) as [[t3 e3] r3] eqn:TP.
      injection H as <- <- <-.
      eapply talk_process_spec with (N := names p) (T := p_tags p) in TP as (W3 & M3 & F3 & R3); auto.
      * split; [exact W3|]. split; [eapply ids_mono_trans; [|exact M3]; eapply ids_mono_trans; eauto|].
        split; [apply Forall_app; split; [exact F1|apply Forall_app; split; assumption]|].
        destruct r3; try contradiction; exact R3.
      * intros h2 L2. destruct (M2 _ _ L) as (h2' & L2' & E2). congruence.
      * apply incl_refl.
  - destruct (c =? 0); injection H as <- <- <-.
    + split; [exact W|]. split; [apply ids_mono_refl|]. split; [constructor|]. auto.
    + apply ERR.
  - injection H as <- <- <-. apply ERR.
Qed.

(* ------------------------------------------------------------------------- *)
(* 3. Server.Session / send / Remove, steps and histories                     *)

(* Server.Session returns the session of the device asked for, or nothing *)
Lemma server_session_own t d s : server_session t d = Some s -> t !! hash d = Some s /\ s_id s = d.
Proof.
  unfold server_session, server_session_g. destruct (id_empty d); [discriminate|].
  destruct (lookup true t d) eqn:L; try discriminate. intros [= <-]. apply lookup_own. exact L.
Qed.

(* ... and it does find every registered device *)
Lemma server_session_complete t k s : wf t -> t !! k = Some s -> server_session t (s_id s) = Some s.
Proof.
  intros W H. destruct (W _ _ H) as (Hk & NE & _).
  unfold server_session, server_session_g. rewrite NE.
  rewrite (lookup_own_intro t (s_id s) s); [reflexivity| |reflexivity]. rewrite Hk. exact H.
Qed.

Lemma server_session_none_iff t d :
  id_empty d = false ->
  (server_session t d = None <-> forall s, t !! hash d = Some s -> s_id s <> d).
Proof.
  intros NE. unfold server_session, server_session_g. rewrite NE. split.
  - intros H s L E. rewrite (lookup_own_intro _ _ _ L E) in H. discriminate.
  - intros H. destruct (lookup true t d) eqn:L; try reflexivity.
    apply lookup_own in L as [L E]. exfalso. eapply H; eauto.
Qed.

Lemma server_send_spec t d pid job t' r :
  server_send t d pid job = (t', r) -> wf t ->
  wf t' /\ ids_mono t t' /\ (forall x, r = Some x -> x = d) /\
  (forall k, k <> hash d -> t' !! k = t !! k).
Proof.
  unfold server_send, server_send_g. intros H W.
  change (server_session_g true) with server_session in H.
  destruct (server_session t d) as [s|] eqn:S.
  - apply server_session_own in S as [L E]. injection H as <- <-.
    destruct (W _ _ L) as (_ & _ & Q).
    split; [|split; [|split]].
    + eapply wf_update; eauto. unfold q_own. cbn. apply Forall_app. split; [exact Q|].
      apply Forall_one. cbn. congruence.
    + eapply ids_mono_update; eauto.
    + intros x [= <-]. exact E.
    + intros k Hk. unfold table in *. rewrite lookup_insert_ne; auto.
  - injection H as <- <-. split; [exact W|]. split; [apply ids_mono_refl|]. split; [discriminate|reflexivity].
Qed.

Lemma server_remove_wf t d : wf t -> wf (server_remove t d).1.
Proof.
  intros W. unfold server_remove. destruct (t !! hash d); cbn; [apply wf_delete|]; exact W.
Qed.

(* after Remove(d) a lookup of d finds nothing; entries under other keys are not affected *)
Lemma remove_forgets t d : server_session (server_remove t d).1 d = None.
Proof.
  unfold server_session, server_session_g. destruct (id_empty d); [reflexivity|].
  rewrite lookup_free_intro; [reflexivity|].
  unfold server_remove. destruct (t !! hash d) eqn:L; cbn; [|exact L].
  unfold table in *. apply lookup_delete.
Qed.
Lemma remove_keeps_other_keys t d k : k <> hash d -> (server_remove t d).1 !! k = t !! k.
Proof.
  intros N. unfold server_remove. destruct (t !! hash d); cbn; [|reflexivity].
  unfold table in *. apply lookup_delete_ne. auto.
Qed.
(* what is dropped sits under the hash of d (it IS d's session when hashes do not collide) *)
Lemma remove_drops_slot t d t' e :
  server_remove t d = (t', e) -> wf t -> Forall (fun x => exists s, x = EDrop s /\ hash s = hash d) e.
Proof.
  unfold server_remove. intros H W. destruct (t !! hash d) as [s|] eqn:L; injection H as <- <-.
  - apply Forall_one. exists (s_id s). split; [reflexivity|]. apply (W _ _ L).
  - constructor.
Qed.

Definition op_names (o : op) : list id :=
  match o with OTalk p => names p | OTalkSub n _ => [l_dev n] | _ => [] end.
Definition op_tags (o : op) : list Z := match o with OTalk p => p_tags p | _ => [] end.

(* what a step may answer *)
Definition ans_ok (o : op) (r : ans) : Prop :=
  match o, r with
  | OTalk p, ARegister d => d = p_dev p
  | OTalk p, AReply _ l => Forall (out_ok (names p) (p_tags p)) l
  | OTalk p, AErr _ => True
  | OTalkSub n _, ASub k _ reg l =>
      Forall (fun x => o_dev x = l_dev n) l /\ (forall d, reg = Some d -> d = l_dev n) /\
      (forall d, k = Some d -> d = l_dev n)
  | OTalkSub n _, AErr _ => True
  | OSend d _ _, AFound x => forall y, x = Some y -> y = d
  | OLookup d, AFound x => forall y, x = Some y -> y = d
  | ORemove _, ABool _ => True
  | OSessions, AList _ => True
  | _, _ => False
  end.

Lemma step_spec a t o t' e r :
  step a t o = (t', e, r) -> wf t ->
  wf t' /\ Forall (eff_ok (op_names o) (op_tags o)) e /\ ans_ok o r.
Proof.
  unfold step, step_g. intros H W. destruct o as [p|n b|d pid job|d|d|].
  - change (talk_g true) with talk in H. apply talk_spec in H as (W' & _ & F & R); [|exact W].
    split; [exact W'|]. split; [exact F|]. cbn. destruct r; try contradiction; try exact R; try exact Logic.I.
    apply R.
  - change (talk_sub_g true) with talk_sub in H.
    eapply talk_sub_spec with (N := [l_dev n]) (T := []) in H as (W' & _ & F & R); [|exact W|left; reflexivity].
    split; [exact W'|]. split; [exact F|]. cbn. destruct r; try contradiction; try exact Logic.I.
    destruct R as (R1 & R2 & R3). split; [exact R1|]. split; [|exact R3]. intros x Hx. apply (R2 x Hx).
  - change (server_send_g true) with server_send in H.
    destruct (server_send t d pid job) as [t1 r1] eqn:S. injection H as <- <- <-.
    apply server_send_spec in S as (W' & _ & R & _); [|exact W].
    split; [exact W'|]. split; [constructor|]. exact R.
  - injection H as <- <- <-. split; [exact W|]. split; [constructor|]. cbn.
    change (server_session_g true) with server_session.
    destruct (server_session t d) as [s|] eqn:S; cbn; [|discriminate].
    intros y [= <-]. apply (server_session_own _ _ _ S).
  - destruct (server_remove t d) as [t1 e1] eqn:S. injection H as <- <- <-.
    split; [change t1 with (t1, e1).1; rewrite <- S; apply server_remove_wf; exact W|].
    split; [|exact Logic.I]. apply remove_drops_slot in S; [|exact W].
    refine (List.Forall_impl _ _ S). intros x (s & -> & _). exact Logic.I.
  - injection H as <- <- <-. split; [exact W|]. split; [constructor|exact Logic.I].
Qed.

(* induction over the history *)
Lemma run_spec ops : forall a t t' l,
  run a t ops = (t', l) -> wf t ->
  wf t' /\ Forall2 (fun o er => Forall (eff_ok (op_names o) (op_tags o)) er.1 /\ ans_ok o er.2) ops l.
Proof.
  unfold run. induction ops as [|o ops IH]; intros a t t' l H W; cbn [run_g] in H.
  - injection H as <- <-. split; [exact W|constructor].
  - destruct (step_g true a t o) as [[t1 e1] r1] eqn:S. change (step_g true) with step in S.
    destruct (run_g true (a + 1) t1 ops) as [t2 l2] eqn:R. injection H as <- <-.
    apply step_spec in S as (W1 & F1 & A1); [|exact W].
    apply IH in R as (W2 & F2); [|exact W1].
    split; [exact W2|]. constructor; [split; assumption|exact F2].
Qed.

(* every table a server can reach from the empty one *)
Definition reachable (t : table) : Prop := exists ops a, (run a ∅ ops).1 = t.
Lemma reachable_wf t : reachable t -> wf t.
Proof.
  intros (ops & a & <-). destruct (run a ∅ ops) as [t' l] eqn:R.
  apply run_spec in R as [W _]; [exact W|apply wf_empty].
Qed.

(* ---- an unknown device ------------------------------------------------------ *)
(* "unknown": no session with this ID is registered (whatever sits under its hash) *)
Lemma unknown_not_own t d : id_empty d = false -> server_session t d = None ->
  forall s, lookup true t d <> Own s.
Proof.
  intros NE H s L. unfold server_session, server_session_g in H. rewrite NE, L in H. discriminate.
Qed.

(* a packet that is not a hello and names an unknown device: re-registration request, nothing
   else happens (no session is touched, the table is the same), with or without a collision *)
Lemma unknown_gets_register_talk a t p :
  id_empty (p_dev p) = false -> server_session t (p_dev p) = None -> (p_pid p =? SvHello) = false ->
  talk a t p = (t, [], ARegister (p_dev p)).
Proof.
  intros NE U NH. unfold talk, talk_g, talk_enter. rewrite NE, NH, andb_false_r. cbn [negb].
  pose proof (unknown_not_own t _ NE U) as X.
  destruct (lookup true t (p_dev p)) as [|s|s]; [reflexivity| |reflexivity]. exfalso. eapply X. reflexivity.
Qed.

Lemma unknown_gets_register_talk_sub a t n o :
  id_empty (l_dev n) = false -> server_session t (l_dev n) = None -> (l_pid n =? SvHello) = false ->
  talk_sub a t n o = (t, [], ASub None 0 (Some (l_dev n)) []).
Proof.
  intros NE U NH. unfold talk_sub, talk_sub_g. rewrite NE, NH, andb_false_r. cbn [negb].
  pose proof (unknown_not_own t _ NE U) as X.
  destruct (lookup true t (l_dev n)) as [|s|s]; [reflexivity| |reflexivity]. exfalso. eapply X. reflexivity.
Qed.

(* inside a multi-device batch: the sub-packet of an unknown device adds exactly the
   re-registration request naming it to the reply; the rest of the batch goes on from the same table *)
Lemma unknown_gets_register_in_batch a hk t v r acc e h :
  id_empty (l_dev v) = false -> server_session t (l_dev v) = None -> (l_pid v =? SvHello) = false ->
  t !! hk = Some h -> s_id h <> l_dev v ->
  process_multiple true a hk t (v :: r) acc e =
  process_multiple true a hk t r (acc ++ [(l_dev v, SvRegister, 0)]) e.
Proof.
  intros NE U NH L D. cbn [process_multiple]. rewrite NE, L.
  apply id_eqb_neq in D. rewrite D.
  change (talk_sub_g true) with talk_sub. rewrite unknown_gets_register_talk_sub by assumption.
  rewrite app_nil_r. reflexivity.
Qed.

(* ---- registration ----------------------------------------------------------- *)
(* a well-formed hello of a device whose slot is free registers it (even when the tag list is bad) *)
Lemma hello_registers_free a t d j tags t' e r :
  wf t -> id_empty d = false -> t !! hash d = None ->
  talk a t (Single (Leaf d SvHello j BHello) tags) = (t', e, r) ->
  (exists s, server_session t' d = Some s) /\ In (ENew d) e.
Proof.
  intros W NE F H. unfold talk, talk_g in H. cbn [p_dev l_dev] in H. rewrite NE in H.
  unfold talk_enter in H. cbn [p_dev l_dev p_empty l_body p_pid l_pid] in H.
  rewrite (lookup_free_intro true _ _ F) in H. cbn in H.
  unfold table in *. rewrite lookup_insert in H. cbn [s_id new_session] in H.
  set (t1 := <[hash d := new_session a d j]> t) in *.
  assert (W1 : wf t1) by (apply wf_insert; auto using new_session_q_own).
  assert (L1 : t1 !! hash d = Some (new_session a d j)) by (unfold t1; apply lookup_insert).
  assert (FIN : forall t2, wf t2 -> ids_mono t1 t2 -> exists s, server_session t2 d = Some s).
  { intros t2 W2 M. destruct (M _ _ L1) as (s' & L' & E'). cbn in E'. exists s'.
    rewrite <- E'. eapply server_session_complete; eauto. }
  destruct (resolve_tags a d t1 tags [] [] []) as [[[t2 add] e2] rr] eqn:RT.
  eapply resolve_tags_spec with (N := [d]) (T := tags) in RT as (W2 & M2 & A2 & _);
    [|exact W1|apply incl_refl|constructor|constructor].
  destruct rr as [err|].
  - injection H as <- <- <-. split; [apply FIN; assumption|]. cbn. auto.
  - destruct (talk_process true a (hash d) t2 (Single (Leaf d SvHello j BHello) tags) add false) as [[t3 e3] r3] eqn:TP.
    injection H as <- <- <-.
    eapply talk_process_spec with (N := [d]) (T := tags) in TP as (W3 & M3 & _ & _);
      [|exact W2| |cbn; apply incl_refl|exact A2].
    + split; [apply FIN; [exact W3|eapply ids_mono_trans; eauto]|]. cbn. auto.
    + intros h L. destruct (M2 _ _ L1) as (h' & L' & E'). cbn in E'. cbn. congruence.
Qed.

Definition registered (t : table) (d : id) : Prop := exists k s, t !! k = Some s /\ s_id s = d.
Definition hash_injective_on (S : id -> Prop) : Prop := forall a b, S a -> S b -> hash a = hash b -> a = b.

(* without a collision an unregistered device finds its slot free *)
Lemma no_collision_slot_free t d :
  wf t -> hash_injective_on (fun x => registered t x \/ x = d) -> ~ registered t d -> t !! hash d = None.
Proof.
  intros W INJ NR. destruct (t !! hash d) as [s|] eqn:L; [|reflexivity]. exfalso.
  destruct (W _ _ L) as (Hk & _). apply NR. exists (hash d), s. split; [exact L|].
  apply INJ; auto. left. exists (hash d), s. auto.
Qed.

Lemma hello_registers a t d j tags t' e r :
  wf t -> id_empty d = false -> hash_injective_on (fun x => registered t x \/ x = d) -> ~ registered t d ->
  talk a t (Single (Leaf d SvHello j BHello) tags) = (t', e, r) ->
  (exists s, server_session t' d = Some s) /\ In (ENew d) e.
Proof.
  intros W NE INJ NR H. eapply hello_registers_free; eauto. apply no_collision_slot_free; assumption.
Qed.

(* with a collision: the slot is taken by another device, every hello is answered by a
   re-registration request and changes nothing -- the second device can never register *)
Lemma collider_cannot_register a t d s p :
  t !! hash d = Some s -> s_id s <> d -> id_empty d = false -> p_dev p = d ->
  talk a t p = (t, [], if p_empty p && (p_pid p =? SvHello) then AErr EMalformed else ARegister d).
Proof.
  intros L D NE <-. unfold talk, talk_g, talk_enter. rewrite NE.
  rewrite (lookup_other_intro _ _ _ L D).
  destruct (p_empty p && (p_pid p =? SvHello)); reflexivity.
Qed.

Lemma collider_cannot_register_sub a t d s n o :
  t !! hash d = Some s -> s_id s <> d -> id_empty d = false -> l_dev n = d ->
  talk_sub a t n o = (t, [], if body_empty (l_body n) && (l_pid n =? SvHello) then AErr EMalformed
                             else ASub None 0 (Some d) []).
Proof.
  intros L D NE <-. unfold talk_sub, talk_sub_g. rewrite NE.
  rewrite (lookup_other_intro _ _ _ L D).
  destruct (body_empty (l_body n) && (l_pid n =? SvHello)); reflexivity.
Qed.

(* ------------------------------------------------------------------------- *)
(* 4. the proxy                                                               *)

Definition pq_own (c : pclient) : Prop := Forall (fun o => o_dev o = c_id c) (c_out c).
Definition pwf (cl : gmap Z pclient) : Prop :=
  forall k c, cl !! k = Some c -> hash (c_id c) = k /\ pq_own c.
Definition pids_mono (cl cl' : gmap Z pclient) : Prop :=
  forall k c, cl !! k = Some c -> exists c', cl' !! k = Some c' /\ c_id c' = c_id c.

Lemma pwf_empty : pwf ∅.
Proof. intros k c H. rewrite lookup_empty in H. discriminate. Qed.
Lemma pwf_insert cl k c : pwf cl -> hash (c_id c) = k -> pq_own c -> pwf (<[k := c]> cl).
Proof.
  intros W H1 H2 k' c' H. destruct (decide (k = k')) as [->|N].
  - rewrite lookup_insert in H. injection H as <-. auto.
  - rewrite lookup_insert_ne in H by exact N. apply W. exact H.
Qed.
Lemma pwf_update cl k c c' : pwf cl -> cl !! k = Some c -> c_id c' = c_id c -> pq_own c' -> pwf (<[k := c']> cl).
Proof. intros W H E Q. destruct (W _ _ H) as (H1 & _). apply pwf_insert; rewrite ?E; auto. Qed.
Lemma pids_mono_refl cl : pids_mono cl cl.
Proof. intros k c H. eauto. Qed.
Lemma pids_mono_trans c1 c2 c3 : pids_mono c1 c2 -> pids_mono c2 c3 -> pids_mono c1 c3.
Proof.
  intros A B k s H. destruct (A _ _ H) as (s' & H' & E). destruct (B _ _ H') as (s'' & H'' & E').
  exists s''. split; [exact H''|congruence].
Qed.
Lemma pids_mono_update cl k c c' : cl !! k = Some c -> c_id c' = c_id c -> pids_mono cl (<[k := c']> cl).
Proof.
  intros H E k' x Hx. destruct (decide (k = k')) as [->|N].
  - rewrite lookup_insert. exists c'. split; [reflexivity|]. congruence.
  - rewrite lookup_insert_ne by exact N. eauto.
Qed.

Lemma plookup_own cl d c : plookup true cl d = POwn c -> cl !! hash d = Some c /\ c_id c = d.
Proof.
  unfold plookup. destruct (cl !! hash d) as [x|]; [|discriminate]. cbn [andb].
  destruct (id_eqb (c_id x) d) eqn:E; cbn [negb]; [|discriminate].
  intros [= <-]. split; [reflexivity|]. apply id_eqb_eq. exact E.
Qed.
Lemma plookup_free chk cl d : plookup chk cl d = PFree -> cl !! hash d = None.
Proof.
  unfold plookup. destruct (cl !! hash d) as [x|]; [|reflexivity].
  destruct (chk && negb (id_eqb (c_id x) d)); discriminate.
Qed.
Lemma plookup_not_own cl d :
  (forall c, cl !! hash d = Some c -> c_id c <> d) -> forall c, plookup true cl d <> POwn c.
Proof. intros H c L. apply plookup_own in L as [L E]. eapply H; eauto. Qed.

Lemma pnext_true_spec c c' l :
  pnext_true c = (c', l) -> pq_own c -> c_id c' = c_id c /\ pq_own c' /\ Forall (fun o => o_dev o = c_id c) l.
Proof.
  unfold pnext_true. intros H Q. destruct (c_out c) as [|x q] eqn:E.
  - injection H as <- <-. auto.
  - injection H as <- <-. cbn. split; [reflexivity|]. split; [constructor|].
    unfold pq_own in Q. rewrite E in Q. exact Q.
Qed.
Lemma pnext_false_spec c c' l :
  pnext_false c = (c', l) -> pq_own c -> c_id c' = c_id c /\ pq_own c' /\ Forall (fun o => o_dev o = c_id c) l.
Proof.
  unfold pnext_false. intros H Q. destruct (c_out c) as [|x q] eqn:E.
  - injection H as <- <-. split; [reflexivity|]. split; [exact Q|]. apply Forall_one. reflexivity.
  - injection H as <- <-. cbn. split; [reflexivity|]. split; [constructor|].
    unfold pq_own in Q. rewrite E in Q. exact Q.
Qed.

(* Proxy.accept queues a packet only on the client entry of the device the packet names *)
Lemma proxy_accept_spec x n x' b :
  proxy_accept x n = (x', b) -> pwf (x_clients x) ->
  pwf (x_clients x') /\ x_up x' = x_up x /\
  (b = true -> exists c, x_clients x !! hash (l_dev n) = Some c /\ c_id c = l_dev n) /\
  (forall k, k <> hash (l_dev n) -> x_clients x' !! k = x_clients x !! k) /\
  (b = false -> x' = x).
Proof.
  unfold proxy_accept, proxy_accept_g. intros H W.
  destruct (plookup true (x_clients x) (l_dev n)) as [|c|c] eqn:L.
  - injection H as <- <-. repeat (split; [auto; discriminate|]). auto.
  - apply plookup_own in L as [L E]. destruct (W _ _ L) as (_ & Q). destruct (is_nop n).
    + injection H as <- <-. split; [exact W|]. split; [reflexivity|]. split; [eauto|]. split; [auto|discriminate].
    + injection H as <- <-. cbn [x_clients x_up]. split; [|split; [reflexivity|split; [eauto|split; [|discriminate]]]].
      * eapply pwf_update; eauto. unfold pq_own. cbn. apply Forall_app. split; [exact Q|].
        apply Forall_one. cbn. congruence.
      * intros k Hk. rewrite lookup_insert_ne; auto.
  - injection H as <- <-. repeat (split; [auto; discriminate|]). auto.
Qed.

Lemma proxy_accept_refuses x n :
  (forall c, x_clients x !! hash (l_dev n) = Some c -> c_id c <> l_dev n) -> proxy_accept x n = (x, false).
Proof.
  intros H. unfold proxy_accept, proxy_accept_g. pose proof (plookup_not_own _ _ H) as X.
  destruct (plookup true (x_clients x) (l_dev n)) as [|c|c]; [reflexivity| |reflexivity].
  exfalso. eapply X. reflexivity.
Qed.

Lemma presolve_tags_spec host tags : forall cl seen add cl' add' r N T,
  presolve_tags host cl tags seen add = (cl', add', r) -> pwf cl -> incl tags T ->
  Forall (out_ok N T) add ->
  pwf cl' /\ pids_mono cl cl' /\ Forall (out_ok N T) add'.
Proof.
  induction tags as [|x tags IH]; intros cl seen add cl' add' r N T H W I A; cbn [presolve_tags] in H.
  - injection H as <- <- <-. auto using pids_mono_refl.
  - assert (I' : incl tags T) by (intros y Hy; apply I; right; exact Hy).
    assert (Ix : In x T) by (apply I; left; reflexivity).
    destruct (x =? 0). { injection H as <- <- <-. auto using pids_mono_refl. }
    destruct (existsb (Z.eqb x) seen). { eapply IH; eauto. }
    destruct (cl !! x) as [v|] eqn:L; [|eapply IH; eauto].
    destruct (id_eqb (c_id v) host). { eapply IH; eauto. }
    destruct (pnext_true v) as [v' l] eqn:X.
    destruct (W _ _ L) as (Hk & Q).
    apply pnext_true_spec in X as (X1 & X2 & X3); [|exact Q].
    eapply (IH _ _ _ _ _ _ N T) in H as (H1 & H2 & H3); auto.
    + split; [exact H1|]. split; [|exact H3].
      eapply pids_mono_trans; [|exact H2]. eapply pids_mono_update; eauto.
    + eapply pwf_update; eauto.
    + apply Forall_app. split; [exact A|]. refine (List.Forall_impl _ _ X3).
      cbn. intros o Ho. right. rewrite Ho, Hk. exact Ix.
Qed.

Lemma pwf_delete cl k : pwf cl -> pwf (delete k cl).
Proof.
  intros W k' c H. destruct (decide (k = k')) as [->|N].
  - rewrite lookup_delete in H. discriminate.
  - rewrite lookup_delete_ne in H by exact N. apply W. exact H.
Qed.
Lemma p_is_own_true x d : p_is_own true x d = true -> exists c, x_clients x !! hash d = Some c /\ c_id c = d.
Proof.
  unfold p_is_own. destruct (plookup true (x_clients x) d) eqn:L; try discriminate.
  intros _. apply plookup_own in L. eauto.
Qed.

(* Proxy.talk: what is handed to the connection names the packet's device (or a tagged one);
   what is forwarded upstream is the packet itself; a re-registration request changes nothing *)
Lemma proxy_talk_spec x n tags x' r :
  proxy_talk x n tags = (x', r) -> pwf (x_clients x) ->
  pwf (x_clients x') /\
  (exists u, x_up x' = x_up x ++ u /\ Forall (fun o => o_dev o = l_dev n) u) /\
  match r with
  | ARegister d => d = l_dev n /\ x' = x
  | _ => reply_ok [l_dev n] tags r
  end.
Proof.
  unfold proxy_talk, proxy_talk_g. intros H W.
  assert (U0 : exists u, x_up x = x_up x ++ u /\ Forall (fun o => o_dev o = l_dev n) u).
  { exists []. rewrite app_nil_r. split; [reflexivity|constructor]. }
  destruct (id_empty (l_dev n)). { injection H as <- <-. split; [exact W|]. split; [exact U0|exact Logic.I]. }
  destruct ((l_pid n =? SvShutdown) && p_is_own true x (l_dev n)).
  { injection H as <- <-. cbn [proxy_shutdown x_clients x_up]. split; [apply pwf_delete; exact W|]. split.
    - eexists. split; [reflexivity|]. apply Forall_one. reflexivity.
    - cbn. apply Forall_one. left. left. reflexivity. }
  assert (MAIN : forall x1 known, pwf (x_clients x1) ->
            (exists u, x_up x1 = x_up x ++ u /\ Forall (fun o => o_dev o = l_dev n) u) ->
            (forall c, x_clients x1 !! hash (l_dev n) = Some c -> c_id c = l_dev n) ->
            match x_clients x1 !! hash (l_dev n) with
            | None => (x1, AErr EOther)
            | Some c0 =>
              match presolve_tags (c_id c0) (x_clients x1) tags [] [] with
              | (cl2, add, Some err) => (Proxy cl2 (x_up x1), AErr err)
              | (cl2, add, None) =>
                match cl2 !! hash (l_dev n) with
                | None => (Proxy cl2 (x_up x1), AErr EOther)
                | Some c =>
                  let up := if is_nop n then x_up x1 else x_up x1 ++ [(l_dev n, l_pid n, l_job n)] in
                  let '(c', l) := pnext_false c in
                  (Proxy (<[hash (l_dev n) := c']> cl2) up, AReply known (l ++ add))
                end
              end
            end = (x', r) ->
            pwf (x_clients x') /\
            (exists u, x_up x' = x_up x ++ u /\ Forall (fun o => o_dev o = l_dev n) u) /\
            match r with ARegister d => d = l_dev n /\ x' = x | _ => reply_ok [l_dev n] tags r end).
  { clear H. intros x1 known W1 U1 ID H.
    destruct (x_clients x1 !! hash (l_dev n)) as [c0|] eqn:L0.
    2:{ injection H as <- <-. split; [exact W1|]. split; [exact U1|exact Logic.I]. }
    destruct (presolve_tags (c_id c0) (x_clients x1) tags [] []) as [[cl2 add] rr] eqn:PT.
    eapply presolve_tags_spec with (N := [l_dev n]) (T := tags) in PT as (W2 & M2 & A2);
      [|exact W1|apply incl_refl|constructor].
    destruct rr as [err|]. { injection H as <- <-. split; [exact W2|]. split; [exact U1|exact Logic.I]. }
    destruct (cl2 !! hash (l_dev n)) as [c|] eqn:L2.
    2:{ injection H as <- <-. split; [exact W2|]. split; [exact U1|exact Logic.I]. }
    destruct (pnext_false c) as [c' l] eqn:X. injection H as <- <-.
    destruct (W2 _ _ L2) as (_ & Q). apply pnext_false_spec in X as (X1 & X2 & X3); [|exact Q].
    destruct (M2 _ _ L0) as (c2 & L2' & E2). rewrite L2 in L2'. injection L2' as <-.
    pose proof (ID _ eq_refl) as E0.
    split; [cbn; eapply pwf_update; eauto|]. split.
    - cbn [x_up]. destruct U1 as (u & Hu & Fu). destruct (is_nop n).
      + exists u. auto.
      + exists (u ++ [(l_dev n, l_pid n, l_job n)]). rewrite Hu, app_assoc. split; [reflexivity|].
        apply Forall_app. split; [exact Fu|]. apply Forall_one. reflexivity.
    - cbn. apply Forall_app. split; [|exact A2]. refine (List.Forall_impl _ _ X3).
      cbn. intros o Ho. left. left. rewrite Ho. congruence. }
  destruct (plookup true (x_clients x) (l_dev n)) as [|c|c] eqn:L.
  - apply plookup_free in L. destruct (negb (l_pid n =? SvHello)).
    { injection H as <- <-. split; [exact W|]. split; [exact U0|]. auto. }
    eapply MAIN in H; [exact H| | |]; cbn [x_clients x_up].
    + apply pwf_insert; auto. apply Forall_one. reflexivity.
    + exists [(l_dev n, l_pid n, l_job n)]. split; [reflexivity|]. apply Forall_one. reflexivity.
    + intros c. rewrite lookup_insert. intros [= <-]. reflexivity.
  - apply plookup_own in L as [L E]. eapply MAIN in H; [exact H|exact W|exact U0|].
    intros c1. rewrite L. intros [= <-]. exact E.
  - injection H as <- <-. split; [exact W|]. split; [exact U0|]. auto.
Qed.

Lemma proxy_talk_sub_spec x n o x' r :
  proxy_talk_sub x n o = (x', r) -> pwf (x_clients x) ->
  pwf (x_clients x') /\
  (exists u, x_up x' = x_up x ++ u /\ Forall (fun o => o_dev o = l_dev n) u) /\
  match r with
  | ASub k _ reg l =>
      Forall (fun y => o_dev y = l_dev n) l /\ (forall d, reg = Some d -> d = l_dev n /\ x' = x) /\
      (forall d, k = Some d -> d = l_dev n)
  | AErr _ => True
  | _ => False
  end.
Proof.
  unfold proxy_talk_sub, proxy_talk_sub_g. intros H W.
  assert (U0 : exists u, x_up x = x_up x ++ u /\ Forall (fun o => o_dev o = l_dev n) u).
  { exists []. rewrite app_nil_r. split; [reflexivity|constructor]. }
  assert (REG : pwf (x_clients x) /\
    (exists u, x_up x = x_up x ++ u /\ Forall (fun o => o_dev o = l_dev n) u) /\
    (Forall (fun y => o_dev y = l_dev n) [] /\ (forall d, Some (l_dev n) = Some d -> d = l_dev n /\ x = x) /\
     (forall d, @None id = Some d -> d = l_dev n))).
  { split; [exact W|]. split; [exact U0|]. split; [constructor|]. split; [intros d [= <-]; auto|discriminate]. }
  destruct (id_empty (l_dev n)). { injection H as <- <-. split; [exact W|]. split; [exact U0|exact Logic.I]. }
  destruct ((l_pid n =? SvShutdown) && p_is_own true x (l_dev n)).
  { injection H as <- <-. cbn [proxy_shutdown x_clients x_up]. split; [apply pwf_delete; exact W|]. split.
    - eexists. split; [reflexivity|]. apply Forall_one. reflexivity.
    - split; [apply Forall_one; reflexivity|]. split; intros d; discriminate. }
  assert (MAIN : forall x1, pwf (x_clients x1) -> x_up x1 = x_up x ->
            (forall c, x_clients x1 !! hash (l_dev n) = Some c -> c_id c = l_dev n) ->
            match x_clients x1 !! hash (l_dev n) with
            | None => (x1, AErr EOther)
            | Some c =>
              let up := if is_nop n then x_up x1 ++ [(l_dev n, l_pid n, l_job n)] else x_up x1 in
              if o then (Proxy (x_clients x1) up, ASub (Some (c_id c)) (hash (l_dev n)) None [])
              else let '(c', l) := pnext_true c in
                   (Proxy (<[hash (l_dev n) := c']> (x_clients x1)) up, ASub (Some (c_id c)) (hash (l_dev n)) None l)
            end = (x', r) ->
            pwf (x_clients x') /\
            (exists u, x_up x' = x_up x ++ u /\ Forall (fun o => o_dev o = l_dev n) u) /\
            match r with
            | ASub k _ reg l =>
                Forall (fun y => o_dev y = l_dev n) l /\ (forall d, reg = Some d -> d = l_dev n /\ x' = x) /\
                (forall d, k = Some d -> d = l_dev n)
            | AErr _ => True
            | _ => False
            end).
  { clear H. intros x1 W1 U1 ID H.
    destruct (x_clients x1 !! hash (l_dev n)) as [c|] eqn:L.
    2:{ injection H as <- <-. split; [exact W1|]. split; [rewrite U1; exact U0|exact Logic.I]. }
    pose proof (ID _ eq_refl) as E. destruct (W1 _ _ L) as (_ & Q).
    assert (UP : exists u, (if is_nop n then x_up x1 ++ [(l_dev n, l_pid n, l_job n)] else x_up x1) = x_up x ++ u /\
                           Forall (fun o => o_dev o = l_dev n) u).
    { rewrite U1. destruct (is_nop n); [|exact U0]. eexists. split; [reflexivity|]. apply Forall_one. reflexivity. }
    cbv zeta in H. destruct o.
    - injection H as <- <-. split; [exact W1|]. split; [exact UP|]. split; [constructor|].
      split; [discriminate|]. intros d [= <-]. exact E.
    - destruct (pnext_true c) as [c' l] eqn:X. injection H as <- <-.
      apply pnext_true_spec in X as (X1 & X2 & X3); [|exact Q].
      split; [cbn; eapply pwf_update; eauto|]. split; [exact UP|].
      split; [refine (List.Forall_impl _ _ X3); cbn; intros y Hy; rewrite Hy; exact E|].
      split; [discriminate|]. intros d [= <-]. exact E. }
  destruct (plookup true (x_clients x) (l_dev n)) as [|c|c] eqn:L.
  - apply plookup_free in L. destruct (negb (l_pid n =? SvHello)).
    { injection H as <- <-. exact REG. }
    eapply MAIN in H; [exact H| | |]; cbn [x_clients x_up].
    + apply pwf_insert; auto. apply Forall_one. reflexivity.
    + reflexivity.
    + intros c. rewrite lookup_insert. intros [= <-]. reflexivity.
  - apply plookup_own in L as [L E]. eapply MAIN in H; [exact H|exact W|reflexivity|].
    intros c1. rewrite L. intros [= <-]. exact E.
  - injection H as <- <-. exact REG.
Qed.

(* a packet that is not a hello and names a device the proxy does not serve *)
Lemma proxy_unknown_gets_register x n tags :
  id_empty (l_dev n) = false -> (forall c, x_clients x !! hash (l_dev n) = Some c -> c_id c <> l_dev n) ->
  (l_pid n =? SvHello) = false ->
  proxy_talk x n tags = (x, ARegister (l_dev n)) /\
  forall o, proxy_talk_sub x n o = (x, ASub None 0 (Some (l_dev n)) []).
Proof.
  intros NE U NH. pose proof (plookup_not_own _ _ U) as X.
  unfold proxy_talk, proxy_talk_g, proxy_talk_sub, proxy_talk_sub_g, p_is_own. rewrite NE, NH. cbn [negb].
  destruct (plookup true (x_clients x) (l_dev n)) as [|c|c]; rewrite ?andb_false_r; auto. exfalso. eapply X. reflexivity.
Qed.

(* with a collision the second device can never register at the proxy either *)
Lemma proxy_collider_cannot_register x n tags c :
  id_empty (l_dev n) = false -> x_clients x !! hash (l_dev n) = Some c -> c_id c <> l_dev n ->
  proxy_talk x n tags = (x, ARegister (l_dev n)) /\
  forall o, proxy_talk_sub x n o = (x, ASub None 0 (Some (l_dev n)) []).
Proof.
  intros NE L D. unfold proxy_talk, proxy_talk_g, proxy_talk_sub, proxy_talk_sub_g, p_is_own, plookup. rewrite NE, L.
  apply id_eqb_neq in D. rewrite D. cbn. rewrite andb_false_r. auto.
Qed.

Definition pans_ok (o : pop) (x x' : proxy) (r : ans) : Prop :=
  match o with
  | PTalk n tags =>
      (exists u, x_up x' = x_up x ++ u /\ Forall (fun y => o_dev y = l_dev n) u) /\
      match r with ARegister d => d = l_dev n /\ x' = x | _ => reply_ok [l_dev n] tags r end
  | PTalkSub n _ =>
      (exists u, x_up x' = x_up x ++ u /\ Forall (fun y => o_dev y = l_dev n) u) /\
      match r with
      | ASub k _ reg l => Forall (fun y => o_dev y = l_dev n) l /\ (forall d, reg = Some d -> d = l_dev n /\ x' = x) /\
                          (forall d, k = Some d -> d = l_dev n)
      | AErr _ => True
      | _ => False
      end
  | PAccept n =>
      x_up x' = x_up x /\
      (r = ABool true -> exists c, x_clients x !! hash (l_dev n) = Some c /\ c_id c = l_dev n) /\
      (forall k, k <> hash (l_dev n) -> x_clients x' !! k = x_clients x !! k)
  end.

Lemma pstep_spec x o x' r :
  pstep x o = (x', r) -> pwf (x_clients x) -> pwf (x_clients x') /\ pans_ok o x x' r.
Proof.
  unfold pstep, pstep_g. intros H W. destruct o as [n tags|n b|n].
  - change (proxy_talk_g true) with proxy_talk in H. apply proxy_talk_spec in H as (A & B & C); auto.
    split; [exact A|]. split; assumption.
  - change (proxy_talk_sub_g true) with proxy_talk_sub in H. apply proxy_talk_sub_spec in H as (A & B & C); auto.
    split; [exact A|]. split; assumption.
  - change (proxy_accept_g true) with proxy_accept in H.
    destruct (proxy_accept x n) as [x1 b] eqn:P. injection H as <- <-.
    apply proxy_accept_spec in P as (A & B & C & D & _); auto.
    split; [exact A|]. split; [exact B|]. split; [|exact D]. intros [= ->]. auto.
Qed.

Fixpoint prun (x : proxy) (ops : list pop) : proxy * list (proxy * proxy * ans) :=
  match ops with
  | [] => (x, [])
  | o :: r => let '(x', a) := pstep x o in let '(x'', l) := prun x' r in (x'', (x, x', a) :: l)
  end.

Lemma prun_spec ops : forall x x' l,
  prun x ops = (x', l) -> pwf (x_clients x) ->
  pwf (x_clients x') /\ Forall2 (fun o s => pans_ok o s.1.1 s.1.2 s.2) ops l.
Proof.
  induction ops as [|o ops IH]; intros x x' l H W; cbn [prun] in H.
  - injection H as <- <-. split; [exact W|constructor].
  - destruct (pstep x o) as [x1 a1] eqn:S. destruct (prun x1 ops) as [x2 l2] eqn:R. injection H as <- <-.
    apply pstep_spec in S as (W1 & A1); [|exact W]. apply IH in R as (W2 & F2); [|exact W1].
    split; [exact W2|]. constructor; [exact A1|exact F2].
Qed.

(* ------------------------------------------------------------------------- *)
(* 5. a real collision of device.ID.Hash, what it still breaks, and the code as it was *)

(* two 32-byte IDs found by the harness' birthday search (seed 1, 104567 draws); the harness emits
   CHash cases for both on every run, so the equality below is also checked against ID.Hash *)
Definition idA : id := [34;242;139;54;30;30;197;160;80;5;178;199;10;158;94;217;190;137;109;65;229;182;244;163;213;161;227;244;214;184;8;199].
Definition idB : id := [143;104;114;102;31;248;22;180;236;21;207;155;106;105;30;180;218;102;25;79;124;49;186;59;156;28;0;153;235;231;210;143].
Definition idC : id := [1;2;3;4;5;6;7;8;9;10;11;12;13;14;15;16;17;18;19;20;21;22;23;24;25;26;27;28;29;30;31;32].

Lemma real_collision : hash idA = 827974963 /\ hash idB = 827974963 /\ idA <> idB.
Proof. split; [vm_compute; reflexivity|]. split; [vm_compute; reflexivity|]. discriminate. Qed.

Lemma hash_not_injective : ~ hash_injective_on (fun _ => True).
Proof.
  intros H. destruct real_collision as (HA & HB & NE). apply NE. apply H; auto; congruence.
Qed.

(* the table after A registered *)
Definition tA : table := <[hash idA := new_session 1 idA 10]> ∅.

Lemma tA_wf : wf tA.
Proof. apply wf_insert; auto using wf_empty, new_session_q_own. Qed.
Lemma tA_slot_B : tA !! hash idB = Some (new_session 1 idA 10).
Proof.
  destruct real_collision as (HA & HB & _). unfold tA, table. rewrite HB, <- HA. apply lookup_insert.
Qed.
Lemma tA_B_unregistered : ~ registered tA idB.
Proof.
  intros (k & s & L & E). unfold tA, table in L. destruct (decide (hash idA = k)) as [<-|N].
  - rewrite lookup_insert in L. injection L as <-. cbn in E. discriminate.
  - rewrite lookup_insert_ne in L by exact N. rewrite lookup_empty in L. discriminate.
Qed.

(* B's hello, any number of times, with any tags: a re-registration request and nothing else *)
Lemma second_device_cannot_register a j tags :
  talk a tA (Single (Leaf idB SvHello j BHello) tags) = (tA, [], ARegister idB).
Proof.
  rewrite (collider_cannot_register a tA idB (new_session 1 idA 10)).
  - reflexivity.
  - apply tA_slot_B.
  - cbn. discriminate.
  - reflexivity.
  - reflexivity.
Qed.

(* the bare statement "a well-formed hello of an unregistered device registers it" is false *)
Lemma collision_refuted :
  ~ (forall a t d j tags t' e r, wf t -> id_empty d = false -> ~ registered t d ->
       talk a t (Single (Leaf d SvHello j BHello) tags) = (t', e, r) ->
       exists s, server_session t' d = Some s).
Proof.
  intros H.
  destruct (H 2 tA idB 11 [] _ _ _ tA_wf eq_refl tA_B_unregistered (second_device_cannot_register 2 11 [])) as (s & S).
  apply server_session_own in S as [L E]. rewrite tA_slot_B in L. injection L as <-. cbn in E. discriminate.
Qed.

(* Server.Remove works by hash: Remove(B) drops A's session (not a packet matter; stated for the record) *)
Lemma remove_by_hash_drops_collider : (server_remove tA idB).2 = [EDrop idA].
Proof. unfold server_remove. rewrite tA_slot_B. reflexivity. Qed.

(* without collisions the hash-only lookup and the repaired lookup agree *)
Lemma lookup_hash_only_eq t d :
  wf t -> hash_injective_on (fun x => registered t x \/ x = d) -> lookup false t d = lookup true t d.
Proof.
  intros W INJ. unfold lookup. destruct (t !! hash d) as [s|] eqn:L; [|reflexivity].
  destruct (W _ _ L) as (Hk & _). assert (E : s_id s = d).
  { apply INJ; auto. left. exists (hash d), s. auto. }
  cbn [andb]. rewrite E, id_eqb_refl. reflexivity.
Qed.

(* ---- the code as it was (hash only): what a colliding ID did ------------------ *)
(* Server.Session(B) returned A's session; now it returns nothing *)
Lemma old_session_refuted :
  option_map s_id (server_session_g false tA idB) = Some idA /\ server_session tA idB = None.
Proof. split; vm_compute; reflexivity. Qed.

(* a packet naming B (carrying key material) reaching Listener.talk: A's session had its address
   and last-seen time updated and its key material overwritten before receive() refused the
   packet; now nothing is touched and B is asked to register *)
Lemma old_talk_refuted :
  (let '(_, e, r) := talk_g false 2 tA (Single (Leaf idB 192 11 (BKey 77)) []) in (e, r))
    = ([ETouch idA idB; ERekey idA idB 77], AErr EMismatch) /\
  (let '(_, e, r) := talk 2 tA (Single (Leaf idB 192 11 (BKey 77)) []) in (e, r)) = ([], ARegister idB).
Proof. split; vm_compute; reflexivity. Qed.

(* the same through talkSub (a sub-packet naming B in a batch of another device) *)
Lemma old_talk_sub_refuted :
  (let '(_, e, r) := talk_sub_g false 2 tA (Leaf idB 192 11 (BKey 9)) false in (e, r))
    = ([ETouch idA idB; ERekey idA idB 9], AErr EMismatch) /\
  (let '(_, e, r) := talk_sub 2 tA (Leaf idB 192 11 (BKey 9)) false in (e, r))
    = ([], ASub None 0 (Some idB) []).
Proof. split; vm_compute; reflexivity. Qed.

(* a multi-device packet naming B that produces no reply packets was answered with a packet
   naming A (outbound misdelivery of an empty packet); now B is asked to register.  (hello is
   defined below; the table is the one after A and C registered and fetched their replies.) *)
Lemma old_multi_refuted :
  let tAC := (run 1 ∅ [OTalk (Single (Leaf idA SvHello 10 BHello) []); OTalk (Single (Leaf idC SvHello 11 BHello) [])]).1 in
  (talk_g false 3 tAC (MultiDev idB 12 [Leaf idC 0 0 BEmpty] [])).2 = AReply true [(idA, 0, 0)] /\
  (talk 3 tAC (MultiDev idB 12 [Leaf idC 0 0 BEmpty] [])).2 = ARegister idB.
Proof. split; vm_compute; reflexivity. Qed.

(* the proxy: A is a client of the proxy *)
Definition xA : proxy := Proxy (<[hash idA := PClient idA [(idA, SvComplete, 10)]]> ∅) [].

(* Proxy.accept queued a packet naming B for A; Proxy.talk handed A's queued packets to the
   connection of a packet naming B; now both treat B as unknown *)
Lemma old_proxy_refuted :
  (let '(x', b) := proxy_accept_g false xA (Leaf idB 208 11 BData) in (psnapshot x', b))
    = ([(827974963, idA, [(idA, SvComplete, 10); (idB, 208, 11)])], true) /\
  (proxy_talk_g false xA (Leaf idB 192 11 BData) []).2 = AReply true [(idA, SvComplete, 10)] /\
  (let '(x', b) := proxy_accept xA (Leaf idB 208 11 BData) in (psnapshot x', b))
    = ([(827974963, idA, [(idA, SvComplete, 10)])], false) /\
  (proxy_talk xA (Leaf idB 192 11 BData) []).2 = ARegister idB.
Proof. repeat split; vm_compute; reflexivity. Qed.

(* ---- a concrete history (non-vacuity) ------------------------------------------ *)
Definition hello (d : id) (j : Z) : op := OTalk (Single (Leaf d SvHello j BHello) []).
Definition demo_ops : list op :=
  [ hello idA 10; hello idC 11; OSend idA 208 12; OSend idB 209 13;
    OTalk (MultiDev idC 14 [Leaf idA 192 15 BData; Leaf idB 192 16 (BKey 9); Leaf idC 193 17 BData] []);
    OTalk (Single (Leaf idB 192 18 (BKey 77)) []); hello idB 19; OLookup idB; OLookup idA;
    OTalk (Single (Leaf idC 0 0 BEmpty) [hash idA]); ORemove idC; OTalk (Single (Leaf idC 192 20 BData) []) ].

Lemma demo_run :
  (run 1 ∅ demo_ops).2 =
  [ ([ETouch idA idA; ENew idA], AReply false [(idA, 4, 10)]);
    ([ETouch idC idC; ENew idC], AReply false [(idC, 4, 11)]);
    ([], AFound (Some idA));
    ([], AFound None);
    ([ETouch idC idC; ETouch idA idA; EHandle idA idA 15; EHandle idC idC 17],
     AReply true [(idA, 208, 12); (idB, 3, 0); (idC, 0, 0)]);
    ([], ARegister idB);
    ([], ARegister idB);
    ([], AFound None);
    ([], AFound (Some idA));
    ([ETouch idC idC; EFetch idA 827974963], AReply true [(idC, 0, 0)]);
    ([EDrop idC], ABool true);
    ([], ARegister idC) ].
Proof. vm_compute. reflexivity. Qed.

(* the same history on the code as it was *)
Lemma demo_run_old :
  map fst (run_g false 1 ∅ demo_ops).2 =
  [ [ETouch idA idA; ENew idA]; [ETouch idC idC; ENew idC]; []; [];
    [ETouch idC idC; ETouch idA idA; EHandle idA idA 15; ETouch idA idB; ERekey idA idB 9];
    [ETouch idA idB; ERekey idA idB 77]; [ETouch idA idB]; []; [];
    [ETouch idC idC; EFetch idA 827974963]; [EDrop idC]; [] ].
Proof. vm_compute. reflexivity. Qed.

(* ------------------------------------------------------------------------- *)
(* 6. the statements Props/C15.v quotes                                       *)

Lemma Forall2_weaken {A B} (P Q : A -> B -> Prop) l k :
  (forall x y, P x y -> Q x y) -> Forall2 P l k -> Forall2 Q l k.
Proof. intros H F. induction F; constructor; auto. Qed.

Lemma history_wf ops a t t' l : wf t -> run a t ops = (t', l) -> wf t'.
Proof. intros W R. apply run_spec in R as [W' _]; assumption. Qed.

Lemma dispatch_own_session ops a t t' l :
  wf t -> run a t ops = (t', l) ->
  Forall2 (fun o er => Forall (eff_ok (op_names o) (op_tags o)) er.1) ops l.
Proof.
  intros W R. apply run_spec in R as [_ F]; [|exact W].
  eapply Forall2_weaken; [|exact F]. cbn. intros x y [H _]. exact H.
Qed.

Lemma history_answers ops a t t' l :
  wf t -> run a t ops = (t', l) -> Forall2 (fun o er => ans_ok o er.2) ops l.
Proof.
  intros W R. apply run_spec in R as [_ F]; [|exact W].
  eapply Forall2_weaken; [|exact F]. cbn. intros x y [_ H]. exact H.
Qed.

Lemma step_effect a t o t' e r x :
  wf t -> step a t o = (t', e, r) -> In x e -> eff_ok (op_names o) (op_tags o) x.
Proof.
  intros W S I. apply step_spec in S as (_ & F & _); [|exact W].
  rewrite List.Forall_forall in F. apply F. exact I.
Qed.

Lemma handled_in_own_session a t o t' e r sid pdev job :
  wf t -> step a t o = (t', e, r) -> In (EHandle sid pdev job) e -> sid = pdev /\ In pdev (op_names o).
Proof. intros W S I. exact (step_effect _ _ _ _ _ _ _ W S I). Qed.
Lemma touched_own_session a t o t' e r sid pdev :
  wf t -> step a t o = (t', e, r) -> In (ETouch sid pdev) e -> sid = pdev /\ In pdev (op_names o).
Proof. intros W S I. exact (step_effect _ _ _ _ _ _ _ W S I). Qed.
Lemma rekeyed_own_session a t o t' e r sid pdev k :
  wf t -> step a t o = (t', e, r) -> In (ERekey sid pdev k) e -> sid = pdev /\ In pdev (op_names o).
Proof. intros W S I. exact (step_effect _ _ _ _ _ _ _ W S I). Qed.
Lemma fetched_by_tag a t o t' e r sid tag :
  wf t -> step a t o = (t', e, r) -> In (EFetch sid tag) e -> hash sid = tag /\ In tag (op_tags o).
Proof. intros W S I. exact (step_effect _ _ _ _ _ _ _ W S I). Qed.

Lemma outbound_own_conn a t p t' e k l :
  wf t -> talk a t p = (t', e, AReply k l) -> Forall (out_ok (names p) (p_tags p)) l.
Proof. intros W H. apply talk_spec in H as (_ & _ & _ & R); [exact R|exact W]. Qed.

Lemma outbound_own_conn_sub a t n o t' e k q reg l :
  wf t -> talk_sub a t n o = (t', e, ASub k q reg l) ->
  Forall (fun x => o_dev x = l_dev n) l /\ (forall d, reg = Some d -> d = l_dev n) /\ (forall d, k = Some d -> d = l_dev n).
Proof.
  intros W H. eapply talk_sub_spec with (N := [l_dev n]) (T := []) in H as (_ & _ & _ & R1 & R2 & R3);
    [|exact W|left; reflexivity].
  split; [exact R1|]. split; [|exact R3]. intros d Hd. apply (R2 d Hd).
Qed.

Lemma old_code_refuted :
  (option_map s_id (server_session_g false tA idB) = Some idA /\ server_session tA idB = None) /\
  ((let '(_, e, r) := talk_g false 2 tA (Single (Leaf idB 192 11 (BKey 77)) []) in (e, r))
     = ([ETouch idA idB; ERekey idA idB 77], AErr EMismatch) /\
   (let '(_, e, r) := talk 2 tA (Single (Leaf idB 192 11 (BKey 77)) []) in (e, r)) = ([], ARegister idB)) /\
  ((let '(_, e, r) := talk_sub_g false 2 tA (Leaf idB 192 11 (BKey 9)) false in (e, r))
     = ([ETouch idA idB; ERekey idA idB 9], AErr EMismatch) /\
   (let '(_, e, r) := talk_sub 2 tA (Leaf idB 192 11 (BKey 9)) false in (e, r))
     = ([], ASub None 0 (Some idB) [])) /\
  ((let '(x', b) := proxy_accept_g false xA (Leaf idB 208 11 BData) in (psnapshot x', b))
     = ([(827974963, idA, [(idA, SvComplete, 10); (idB, 208, 11)])], true) /\
   (proxy_talk_g false xA (Leaf idB 192 11 BData) []).2 = AReply true [(idA, SvComplete, 10)] /\
   (let '(x', b) := proxy_accept xA (Leaf idB 208 11 BData) in (psnapshot x', b))
     = ([(827974963, idA, [(idA, SvComplete, 10)])], false) /\
   (proxy_talk xA (Leaf idB 192 11 BData) []).2 = ARegister idB).
Proof. exact (conj old_session_refuted (conj old_talk_refuted (conj old_talk_sub_refuted old_proxy_refuted))). Qed.

Lemma lookup_own_or_none t d s : server_session t d = Some s -> s_id s = d.
Proof. intros H. apply (server_session_own _ _ _ H). Qed.

Lemma demo_reachable : reachable (run 1 ∅ demo_ops).1.
Proof. exists demo_ops, 1. reflexivity. Qed.

Lemma proxy_history ops x x' l :
  pwf (x_clients x) -> prun x ops = (x', l) ->
  pwf (x_clients x') /\ Forall2 (fun o s => pans_ok o s.1.1 s.1.2 s.2) ops l.
Proof. intros W H. eapply prun_spec; eauto. Qed.

Lemma proxy_accept_own x n x' :
  pwf (x_clients x) -> proxy_accept x n = (x', true) ->
  exists c, x_clients x !! hash (l_dev n) = Some c /\ c_id c = l_dev n.
Proof. intros W H. apply proxy_accept_spec in H as (_ & _ & C & _); auto. Qed.

(* ------------------------------------------------------------------------- *)
(* 7. Channels: the tag routing of a connection                                *)

(* a session's queue is redirected only into the Channel of a host that is running one and whose
   conn.subs (= the registered tags of its LAST Channel packet) holds the session's key *)
Definition routes_current (w : cworld) : Prop :=
  forall k hk, w_route w !! k = Some hk -> exists l, w_subs w !! hk = Some l /\ In k l.

Lemma routes_current_cw0 : routes_current cw0.
Proof. intros k hk H. cbn in H. rewrite lookup_empty in H. discriminate. Qed.

Lemma mark_tags_sound t hid tags : forall marked m ok,
  mark_tags t hid tags marked = (m, ok) ->
  forall k, In k m -> In k marked \/ (In k tags /\ tag_valid t hid k = true /\ k <> 0).
Proof.
  induction tags as [|x r IH]; intros marked m ok H k I; cbn [mark_tags] in H.
  - injection H as <- <-. auto.
  - destruct (x =? 0) eqn:Z0. { injection H as <- <-. auto. }
    destruct (existsb (Z.eqb x) marked).
    { destruct (IH _ _ _ H k I) as [A|(A & B & C)]; [auto|]. right. split; [right; exact A|auto]. }
    destruct (tag_valid t hid x) eqn:V.
    + destruct (IH _ _ _ H k I) as [A|(A & B & C)].
      * apply in_app_or in A as [A|[<-|[]]]; [auto|]. right. split; [left; reflexivity|]. split; [exact V|].
        intros ->. discriminate.
      * right. split; [right; exact A|auto].
    + destruct (IH _ _ _ H k I) as [A|(A & B & C)]; [auto|]. right. split; [right; exact A|auto].
Qed.

Lemma mark_tags_mono t hid tags : forall marked m ok,
  mark_tags t hid tags marked = (m, ok) -> forall k, In k marked -> In k m.
Proof.
  induction tags as [|x r IH]; intros marked m ok H k I; cbn [mark_tags] in H.
  - injection H as <- <-. exact I.
  - destruct (x =? 0). { injection H as <- <-. exact I. }
    destruct (existsb (Z.eqb x) marked); [eapply IH; eauto|].
    destruct (tag_valid t hid x); eapply IH; eauto. apply in_or_app. auto.
Qed.

(* every registered tag of the list (other than the host) is marked *)
Lemma mark_tags_complete t hid tags : forall marked m,
  mark_tags t hid tags marked = (m, true) ->
  forall k, In k tags -> tag_valid t hid k = true -> In k m.
Proof.
  induction tags as [|x r IH]; intros marked m H k I V; cbn [mark_tags] in H; [destruct I|].
  destruct (x =? 0). { discriminate. }
  destruct I as [->|I].
  - destruct (existsb (Z.eqb k) marked) eqn:E.
    + eapply mark_tags_mono; [exact H|]. apply existsb_exists in E as (y & Iy & Ey).
      apply Z.eqb_eq in Ey. subst y. exact Iy.
    + rewrite V in H. eapply mark_tags_mono; [exact H|]. apply in_or_app. right. left. reflexivity.
  - destruct (existsb (Z.eqb x) marked); [eapply IH; eauto|].
    destruct (tag_valid t hid x); eapply IH; eauto.
Qed.

Lemma clear_all ks : forall w,
  let w' := fold_left client_clear ks w in
  w_tbl w' = w_tbl w /\ w_subs w' = w_subs w /\
  forall k, w_route w' !! k = if existsb (Z.eqb k) ks then None else w_route w !! k.
Proof.
  induction ks as [|i ks IH]; intros w; cbn [fold_left existsb].
  - auto.
  - destruct (IH (client_clear w i)) as (A & B & C). cbn zeta in *. rewrite A, B. cbn [client_clear w_tbl w_subs w_route] in *.
    split; [reflexivity|]. split; [reflexivity|]. intros k. rewrite C.
    destruct (k =? i) eqn:E; cbn [orb].
    + apply Z.eqb_eq in E. subst i. rewrite lookup_delete. destruct (existsb (Z.eqb k) ks); reflexivity.
    + apply Z.eqb_neq in E. rewrite lookup_delete_ne by auto. reflexivity.
Qed.

Lemma client_set_keys hk w i k : is_Some (w_tbl (client_set hk w i) !! k) <-> is_Some (w_tbl w !! k).
Proof.
  unfold client_set. destruct (w_tbl w !! i) as [v|] eqn:L; [|reflexivity].
  destruct (w_route w !! i); [reflexivity|]. cbn [w_tbl].
  assert (A : is_Some ((<[i := set_out v []]> (w_tbl w) : table) !! k) <-> is_Some (w_tbl w !! k)).
  { unfold table in *. destruct (decide (i = k)) as [->|N].
    - rewrite lookup_insert, L. split; eauto.
    - rewrite lookup_insert_ne by exact N. reflexivity. }
  destruct ((<[i := set_out v []]> (w_tbl w) : table) !! hk) as [h|] eqn:LH; [|exact A].
  rewrite <- A. unfold table in *. destruct (decide (hk = k)) as [->|N].
  - rewrite lookup_insert, LH. split; eauto.
  - rewrite lookup_insert_ne by exact N. reflexivity.
Qed.

Lemma set_all hk ks : forall w,
  let w' := fold_left (client_set hk) ks w in
  w_subs w' = w_subs w /\
  (forall k, is_Some (w_tbl w' !! k) <-> is_Some (w_tbl w !! k)) /\
  forall k, w_route w' !! k =
    match w_route w !! k with
    | Some h => Some h
    | None => if existsb (Z.eqb k) ks && bool_decide (is_Some (w_tbl w !! k)) then Some hk else None
    end.
Proof.
  induction ks as [|i ks IH]; intros w; cbn [fold_left existsb].
  - split; [reflexivity|]. split; [reflexivity|]. intros k. destruct (w_route w !! k); reflexivity.
  - destruct (IH (client_set hk w i)) as (A & B & C). cbn zeta in *.
    assert (S : w_subs (client_set hk w i) = w_subs w).
    { unfold client_set. destruct (w_tbl w !! i); [|reflexivity]. destruct (w_route w !! i); reflexivity. }
    split; [congruence|]. split. { intros k. rewrite B. apply client_set_keys. }
    intros k. rewrite C. clear C.
    assert (KK : bool_decide (is_Some (w_tbl (client_set hk w i) !! k)) = bool_decide (is_Some (w_tbl w !! k))).
    { apply bool_decide_ext. apply client_set_keys. }
    rewrite KK. clear KK.
    unfold client_set. destruct (w_tbl w !! i) as [v|] eqn:L.
    + destruct (w_route w !! i) as [h0|] eqn:R.
      * (* already routed: nothing changes *)
        destruct (w_route w !! k) eqn:Rk; [reflexivity|].
        destruct (k =? i) eqn:E; cbn [orb]; [|reflexivity].
        apply Z.eqb_eq in E. subst i. congruence.
      * cbn [w_route]. destruct (decide (i = k)) as [->|N].
        -- rewrite lookup_insert, R, Z.eqb_refl. cbn [orb andb].
           rewrite bool_decide_eq_true_2 by eauto. reflexivity.
        -- rewrite lookup_insert_ne by exact N. destruct (w_route w !! k); [reflexivity|].
           replace (k =? i) with false by (symmetry; apply Z.eqb_neq; auto). reflexivity.
    + destruct (w_route w !! k) eqn:Rk; [reflexivity|].
      destruct (k =? i) eqn:E; cbn [orb]; [|reflexivity].
      apply Z.eqb_eq in E. subst i.
      rewrite (bool_decide_eq_false_2 (is_Some (w_tbl w !! k))). 2:{ rewrite L. intros [? ?]. discriminate. }
      rewrite andb_false_r. reflexivity.
Qed.

Lemma existsb_In k ks : existsb (Z.eqb k) ks = true <-> In k ks.
Proof.
  rewrite existsb_exists. split.
  - intros (y & I & E). apply Z.eqb_eq in E. subst y. exact I.
  - intros I. exists k. split; [exact I|apply Z.eqb_refl].
Qed.

(* conn.stop: nothing stays routed to the host, the other routes are still current *)
Lemma chan_stop_spec w hk extra :
  routes_current w ->
  routes_current (chan_stop w hk extra) /\ (forall k, w_route (chan_stop w hk extra) !! k <> Some hk) /\
  w_tbl (chan_stop w hk extra) = w_tbl w.
Proof.
  intros INV. unfold chan_stop.
  destruct (clear_all (default [] (w_subs w !! hk) ++ extra) w) as (A & B & C). cbn zeta in *.
  set (w1 := fold_left client_clear (default [] (w_subs w !! hk) ++ extra) w) in *.
  assert (NO : forall k h, w_route w1 !! k = Some h -> w_route w !! k = Some h /\ h <> hk).
  { intros k h H. rewrite C in H. destruct (existsb (Z.eqb k) (default [] (w_subs w !! hk) ++ extra)) eqn:E; [discriminate|].
    split; [exact H|]. intros ->. destruct (INV _ _ H) as (l & L & I).
    rewrite L in E. cbn in E. assert (existsb (Z.eqb k) (l ++ extra) = true); [|congruence].
    apply existsb_In. apply in_or_app. auto. }
  split; [|split].
  - intros k h H. cbn [w_route w_subs] in *. destruct (NO _ _ H) as [H0 N].
    destruct (INV _ _ H0) as (l & L & I). exists l. rewrite lookup_delete_ne by auto. rewrite B. auto.
  - intros k H. cbn [w_route] in H. destruct (NO _ _ H) as [_ N]. congruence.
  - exact A.
Qed.

(* conn.resolve(.., tags, true): afterwards conn.subs is exactly the marked keys of THIS list and a
   session is routed to this host iff ... in particular only if its key is a registered tag of
   THIS list; for the empty list nothing stays routed to the host *)
Lemma chan_resolve_spec w hk hid tags w' :
  chan_resolve w hk hid tags = (w', true) -> routes_current w ->
  routes_current w' /\
  w_subs w' !! hk = Some (mark_tags (w_tbl w) hid tags []).1 /\
  (forall k, w_route w' !! k = Some hk -> In k tags /\ tag_valid (w_tbl w) hid k = true) /\
  (forall k, In k tags -> tag_valid (w_tbl w) hid k = true ->
             w_route w !! k = None \/ w_route w !! k = Some hk -> w_route w' !! k = Some hk) /\
  (forall k h, h <> hk -> w_route w' !! k = Some h -> w_route w !! k = Some h).
Proof.
  unfold chan_resolve. intros H INV.
  destruct (mark_tags (w_tbl w) hid tags []) as [marked ok] eqn:M. destruct ok; [|discriminate].
  set (old := default [] (w_subs w !! hk)) in *.
  set (cl := List.filter (fun k => negb (existsb (Z.eqb k) marked)) old) in *.
  destruct (clear_all cl w) as (A1 & B1 & C1). cbn zeta in *.
  set (w1 := fold_left client_clear cl w) in *.
  destruct (set_all hk marked w1) as (B2 & K2 & C2). cbn zeta in *.
  set (w2 := fold_left (client_set hk) marked w1) in *.
  injection H as <-. cbn [w_route w_subs w_tbl fst].
  assert (MS : forall k, In k marked -> In k tags /\ tag_valid (w_tbl w) hid k = true).
  { intros k I. destruct (mark_tags_sound _ _ _ _ _ _ M k I) as [[]|(X & Y & _)]. auto. }
  assert (R2 : forall k h, w_route w2 !! k = Some h ->
               (w_route w !! k = Some h /\ existsb (Z.eqb k) cl = false) \/ (h = hk /\ In k marked)).
  { intros k h H. rewrite C2, C1 in H. destruct (existsb (Z.eqb k) cl) eqn:E.
    - destruct (existsb (Z.eqb k) marked && bool_decide (is_Some (w_tbl w1 !! k))) eqn:F; [|discriminate].
      injection H as <-. right. split; [reflexivity|]. apply andb_true_iff in F as [F _]. apply existsb_In. exact F.
    - destruct (w_route w !! k) as [h0|] eqn:R; [left; auto|].
      destruct (existsb (Z.eqb k) marked && bool_decide (is_Some (w_tbl w1 !! k))) eqn:F; [|discriminate].
      injection H as <-. right. split; [reflexivity|]. apply andb_true_iff in F as [F _]. apply existsb_In. exact F. }
  assert (OLD : forall k, w_route w !! k = Some hk -> existsb (Z.eqb k) cl = false -> In k marked).
  { intros k R E. destruct (INV _ _ R) as (l & L & I).
    assert (IO : In k old) by (unfold old; rewrite L; exact I).
    destruct (existsb (Z.eqb k) marked) eqn:F; [apply existsb_In; exact F|].
    assert (existsb (Z.eqb k) cl = true); [|congruence]. apply existsb_In. unfold cl.
    apply filter_In. split; [exact IO|]. rewrite F. reflexivity. }
  unfold routes_current. cbn [w_route w_subs w_tbl].
  split; [|split; [|split; [|split]]].
  - intros k h H. destruct (R2 _ _ H) as [[R E]|[-> I]].
    + destruct (decide (h = hk)) as [->|N].
      * exists marked. rewrite lookup_insert. split; [reflexivity|]. apply OLD; assumption.
      * destruct (INV _ _ R) as (l & L & I). exists l. rewrite lookup_insert_ne by auto. rewrite B2, B1. auto.
    + exists marked. rewrite lookup_insert. auto.
  - rewrite lookup_insert. reflexivity.
  - intros k H. apply MS. destruct (R2 _ _ H) as [[R E]|[_ I]]; [apply OLD; assumption|exact I].
  - intros k I V R. rewrite C2, C1.
    assert (IM : In k marked) by (eapply mark_tags_complete; eauto).
    assert (NC : existsb (Z.eqb k) cl = false).
    { destruct (existsb (Z.eqb k) cl) eqn:E; [|reflexivity]. apply existsb_In in E. unfold cl in E.
      apply filter_In in E as [_ E]. apply existsb_In in IM. rewrite IM in E. discriminate. }
    rewrite NC. destruct R as [R|R]; rewrite R; [|reflexivity].
    apply existsb_In in IM. rewrite IM. cbn [andb].
    rewrite bool_decide_eq_true_2; [reflexivity|]. rewrite A1.
    unfold tag_valid in V. destruct (w_tbl w !! k); [eauto|discriminate].
  - intros k h N H. destruct (R2 _ _ H) as [[R _]|[-> _]]; [exact R|congruence].
Qed.

Lemma chan_resolve_err w hk hid tags w' :
  chan_resolve w hk hid tags = (w', false) -> routes_current w ->
  routes_current w' /\ forall k, w_route w' !! k <> Some hk.
Proof.
  unfold chan_resolve. intros H INV. destruct (mark_tags (w_tbl w) hid tags []) as [marked ok]. destruct ok; [discriminate|].
  injection H as <-. destruct (chan_stop_spec w hk marked INV) as (A & B & _). auto.
Qed.

(* the empty tag list withdraws everything *)
Lemma chan_resolve_empty w hk hid :
  routes_current w ->
  exists w', chan_resolve w hk hid [] = (w', true) /\ routes_current w' /\
             w_subs w' !! hk = Some [] /\ forall k, w_route w' !! k <> Some hk.
Proof.
  intros INV. destruct (chan_resolve w hk hid []) as [w' ok] eqn:R.
  assert (ok = true) as ->. { unfold chan_resolve in R. cbn [mark_tags] in R. injection R as _ <-. reflexivity. }
  exists w'. split; [reflexivity|]. destruct (chan_resolve_spec _ _ _ _ _ R INV) as (A & B & C & _).
  split; [exact A|]. split; [exact B|]. intros k H. destruct (C k H) as [[] _].
Qed.

Lemma cstep_routes_current w o : routes_current w -> routes_current (cstep w o).1.
Proof.
  intros INV. destruct o as [d j|d|d tags|d|d pid job|d lbl pid job|d|d]; cbn [cstep].
  - destruct (chan_open_key w d); [exact INV|].
    destruct (talk 0 (w_tbl w) (Single (Leaf d SvHello j BHello) [])) as [[t' e] r]. exact INV.
  - destruct (server_session (w_tbl w) d); [|exact INV].
    destruct (w_subs w !! hash d) eqn:S; [exact INV|]. cbn. intros k hk H. cbn in *.
    destruct (INV _ _ H) as (l & L & I). exists l. split; [|exact I].
    rewrite lookup_insert_ne; [exact L|]. intros <-. congruence.
  - destruct (chan_open_key w d) as [hk|]; [|exact INV].
    destruct (existsb (Z.eqb 0) tags). { cbn. apply chan_stop_spec. exact INV. }
    destruct (chan_resolve w hk d tags) as [w' ok] eqn:R. cbn. destruct ok.
    + apply (chan_resolve_spec _ _ _ _ _ R INV).
    + apply (chan_resolve_err _ _ _ _ _ R INV).
  - destruct (chan_open_key w d) as [hk|]; [|exact INV]. cbn. apply chan_stop_spec. exact INV.
  - destruct (server_session (w_tbl w) d); exact INV.
  - destruct (server_session (w_tbl w) d); exact INV.
  - destruct (chan_open_key w d) as [hk|]; [|exact INV]. destruct (w_tbl w !! hk) as [h|]; [|exact INV].
    destruct (is_nil (s_out h)); [exact INV|]. destruct (next_false h) as [h' l]. exact INV.
  - destruct (chan_open_key w d); [exact INV|].
    destruct (talk 0 (w_tbl w) (Single (Leaf d 0 0 BEmpty) [])) as [[t' e] r]. exact INV.
Qed.

(* induction over the history: routing is always current *)
Lemma crun_routes_current ops : forall w, routes_current w -> routes_current (crun w ops).
Proof.
  induction ops as [|o ops IH]; intros w INV; cbn [crun]; [exact INV|]. apply IH. apply cstep_routes_current. exact INV.
Qed.

(* where a packet queued for d lands: in d's own queue, or in the queue of the host whose running
   Channel currently tags d; no other queue changes *)
Lemma send_lands w d pid job :
  routes_current w ->
  exists q, (q = hash d \/ (w_route w !! hash d = Some q /\ exists l, w_subs w !! q = Some l /\ In (hash d) l)) /\
            forall k, k <> q -> w_tbl (cstep w (KSend d pid job)).1 !! k = w_tbl w !! k.
Proof.
  intros INV. cbn [cstep]. destruct (server_session (w_tbl w) d) as [s|].
  - destruct (w_route w !! hash d) as [hk|] eqn:R.
    + exists hk. split; [right; split; [reflexivity|]; apply (INV _ _ R)|].
      intros k N. cbn. unfold push_out. destruct (w_tbl w !! hk); [|reflexivity].
      unfold table in *. rewrite lookup_insert_ne; auto.
    + exists (hash d). split; [auto|]. intros k N. cbn. unfold push_out. destruct (w_tbl w !! hash d); [|reflexivity].
      unfold table in *. rewrite lookup_insert_ne; auto.
  - exists (hash d). split; [auto|]. reflexivity.
Qed.

(* a Channel packet of d with tag list tags, in any reachable state: what is routed to d afterwards *)
Lemma channel_packet w d tags hk :
  routes_current w -> chan_open_key w d = Some hk ->
  let w' := (cstep w (KPkt d tags)).1 in
  forall k, w_route w' !! k = Some hk -> In k tags /\ tag_valid (w_tbl w) d k = true.
Proof.
  intros INV O w' k. unfold w'. cbn [cstep]. rewrite O.
  destruct (existsb (Z.eqb 0) tags). { cbn. intros H. exfalso. eapply (chan_stop_spec w hk [] INV); eauto. }
  destruct (chan_resolve w hk d tags) as [w1 ok] eqn:R. cbn. destruct ok.
  - apply (chan_resolve_spec _ _ _ _ _ R INV).
  - intros H. exfalso. eapply (chan_resolve_err _ _ _ _ _ R INV); eauto.
Qed.

(* non-vacuity / the history of the seeded change: A tags C, then sends no tags, then C gets a packet *)
Definition chan_demo : list cop :=
  [ KReg idA 10; KReg idC 11; KPoll idA; KPoll idC; KOpen idA; KPkt idA [hash idC]; KSend idC 208 12;
    KPkt idA []; KSend idC 209 13 ].
Lemma chan_demo_run :
  csnapshot (crun cw0 chan_demo) =
    [ (152284485, idC, 0, [(idC, 209, 13)]); (827974963, idA, 0, [(idC, 208, 12)]) ] /\
  csnapshot (crun cw0 (firstn 7 chan_demo)) =
    [ (152284485, idC, 827974963, []); (827974963, idA, 0, [(idC, 208, 12)]) ].
Proof. split; vm_compute; reflexivity. Qed.

(* ------------------------------------------------------------------------- *)
(* 8. Forwarding: a proxied client's packets, whole or in fragments            *)

(* Session.write keeps the device (ID, job) of the packet in everything it queues, whoever writes *)
Lemma frag_list_dev dev pid job len n : forall pos w,
  In w (frag_list dev pid job len n pos) -> wp_dev w = dev /\ wp_pid w = pid /\ wp_job w = job /\ wp_len w = len.
Proof.
  induction n as [|n IH]; intros pos w I; cbn [frag_list] in I; [destruct I|].
  destruct I as [<-|I]; [cbn; auto|eapply IH; eauto].
Qed.
Lemma session_write_dev F sid dev pid job size w :
  In w (session_write F sid dev pid job size) -> wp_dev w = dev /\ wp_pid w = pid /\ wp_job w = job.
Proof.
  unfold session_write. destruct ((F <=? 0) || (size <=? F)).
  - intros [<-|[]]. cbn. auto.
  - intros I. apply frag_list_dev in I as (A & B & C & _). auto.
Qed.
(* a packet above the limit really is cut into at least two fragments *)
Lemma session_write_fragments F sid dev pid job size :
  0 < F -> F < size -> 2 <= frag_count F size /\
  session_write F sid dev pid job size = frag_list dev pid job (frag_count F size) (Z.to_nat (frag_count F size)) 0.
Proof.
  intros HF HS. split.
  - unfold frag_count. assert (1 <= size / F) by (apply Z.div_le_lower_bound; lia).
    destruct ((size / F + 1) * F <? size); lia.
  - unfold session_write. replace (F <=? 0) with false by lia. replace (size <=? F) with false by lia. reflexivity.
Qed.

Lemma recv_frag_spec fr k s w fr' e N :
  recv_frag fr k s w = (fr', e) -> In (wp_dev w) N -> Forall (eff_ok N []) e.
Proof.
  unfold recv_frag. intros H I.
  destruct (id_eqb (s_id s) (wp_dev w)) eqn:E; cbn [negb] in H; [|injection H as <- <-; constructor].
  apply id_eqb_eq in E.
  assert (HH : Forall (eff_ok N []) (if wp_pid w <? MvRefresh then [] else [EHandle (s_id s) (wp_dev w) (wp_job w)])).
  { destruct (wp_pid w <? MvRefresh); [constructor|]. apply Forall_one. cbn. auto. }
  destruct (wp_len w =? 1); [injection H as <- <-; exact HH|].
  destruct (fr_get fr k (wp_job w)) as [c|].
  - destruct (c + 1 =? wp_len w); injection H as <- <-; [exact HH|constructor].
  - destruct (0 <? wp_pos w); injection H as <- <-; constructor.
Qed.

(* every entry is handed to the session of the device it names *)
Lemma deliver_spec A t fr w t' fr' e N :
  deliver A t fr w = (t', fr', e) -> wf t -> In (wp_dev w) N -> wf t' /\ Forall (eff_ok N []) e.
Proof.
  unfold deliver. intros H W I. destruct (wp_len w =? 0).
  - set (n := Leaf (wp_dev w) (wp_pid w) (wp_job w) (if wp_pid w =? SvHello then BHello else BData)) in *.
    destruct (id_eqb (wp_dev w) A).
    + destruct (talk 0 t (Single n [])) as [[t1 e1] r1] eqn:T. injection H as <- <- <-.
      apply talk_spec in T as (W1 & _ & F1 & _); [|exact W]. split; [exact W1|].
      refine (List.Forall_impl _ _ F1). intros x Hx. eapply eff_ok_mono; [| |exact Hx].
      * intros y [<-|[]]. exact I.
      * apply incl_refl.
    + destruct (talk_sub 0 t n false) as [[t1 e1] r1] eqn:T. injection H as <- <- <-.
      eapply talk_sub_spec with (N := N) (T := []) in T as (W1 & _ & F1 & _); [|exact W|exact I]. auto.
  - destruct (lookup true t (wp_dev w)) as [|s|s] eqn:L; try (injection H as <- <- <-; split; [exact W|constructor]).
    destruct (recv_frag fr (hash (wp_dev w)) s w) as [fr1 e1] eqn:R. injection H as <- <- <-.
    split; [exact W|]. eapply recv_frag_spec; eauto.
Qed.

Lemma deliver_all_spec A q : forall t fr t' fr' e N,
  deliver_all A t fr q = (t', fr', e) -> wf t -> Forall (fun w => In (wp_dev w) N) q ->
  wf t' /\ Forall (eff_ok N []) e.
Proof.
  induction q as [|w q IH]; intros t fr t' fr' e N H W Q; cbn [deliver_all] in H.
  - injection H as <- <- <-. split; [exact W|constructor].
  - destruct (deliver A t fr w) as [[t1 fr1] e1] eqn:D. destruct (deliver_all A t1 fr1 q) as [[t2 fr2] e2] eqn:DA.
    injection H as <- <- <-. pose proof (Forall_inv Q) as Qw. pose proof (Forall_inv_tail Q) as Qq.
    eapply deliver_spec in D as (W1 & F1); [|exact W|exact Qw]. eapply IH in DA as (W2 & F2); [|exact W1|exact Qq].
    split; [exact W2|]. apply Forall_app. auto.
Qed.

Definition fop_devs (o : fop) : list id := match o with FHello d _ => [d] | FSend d _ _ _ => [d] | FPump => [] end.

Lemma fstep_spec F A w o w' e r N :
  fstep F A w o = (w', e, r) -> wf (fw_tbl w) -> Forall (fun x => In (wp_dev x) N) (fw_q w) ->
  wf (fw_tbl w') /\ Forall (fun x => In (wp_dev x) (N ++ fop_devs o)) (fw_q w') /\ Forall (eff_ok N []) e.
Proof.
  intros H W Q.
  assert (Q' : forall D, Forall (fun x => In (wp_dev x) (N ++ D)) (fw_q w)).
  { intros D. refine (List.Forall_impl _ _ Q). intros x Hx. apply in_or_app. auto. }
  assert (SW : forall d pid job size, Forall (fun x => In (wp_dev x) (N ++ [d])) (session_write F A d pid job size)).
  { intros d pid job size. apply List.Forall_forall. intros x Hx. apply session_write_dev in Hx as (-> & _).
    apply in_or_app. right. left. reflexivity. }
  destruct o as [d j|d pid job size|]; cbn [fstep fop_devs] in *.
  - destruct (id_empty d). { injection H as <- <- <-. split; [exact W|]. split; [apply Q'|constructor]. }
    destruct (plookup true (fw_cl w) d); injection H as <- <- <-; cbn [fw_tbl fw_q];
      (split; [exact W|]); (split; [|constructor]); try apply Q'.
    + apply Forall_app. split; [apply Q'|]. apply Forall_app. split; apply SW.
    + apply Forall_app. split; [apply Q'|apply SW].
  - destruct (id_empty d). { injection H as <- <- <-. split; [exact W|]. split; [apply Q'|constructor]. }
    destruct (plookup true (fw_cl w) d); injection H as <- <- <-; cbn [fw_tbl fw_q];
      (split; [exact W|]); (split; [|constructor]); try apply Q'.
    apply Forall_app. split; [apply Q'|apply SW].
  - destruct (deliver_all A (fw_tbl w) (fw_fr w) (fw_q w)) as [[t1 fr1] e1] eqn:D. injection H as <- <- <-.
    eapply deliver_all_spec in D as (W1 & F1); [|exact W|exact Q]. cbn. split; [exact W1|]. split; [constructor|exact F1].
Qed.

Fixpoint fops_devs (ops : list fop) : list id :=
  match ops with [] => [] | o :: r => fop_devs o ++ fops_devs r end.

(* all histories: whatever is handled (touched, re-keyed) upstream on behalf of a forwarded packet is
   handled in the session whose ID is the device that packet named at the Proxy *)
Lemma frun_spec F A ops : forall w w' es N,
  frun F A w ops = (w', es) -> wf (fw_tbl w) -> Forall (fun x => In (wp_dev x) N) (fw_q w) ->
  wf (fw_tbl w') /\ Forall (Forall (eff_ok (N ++ fops_devs ops) [])) es.
Proof.
  induction ops as [|o ops IH]; intros w w' es N H W Q; cbn [frun fops_devs] in *.
  - injection H as <- <-. split; [exact W|constructor].
  - destruct (fstep F A w o) as [[w1 e1] r1] eqn:S. destruct (frun F A w1 ops) as [w2 l] eqn:R. injection H as <- <-.
    eapply fstep_spec in S as (W1 & Q1 & F1); [|exact W|exact Q]. eapply IH in R as (W2 & F2); [|exact W1|exact Q1].
    split; [exact W2|]. constructor.
    + refine (List.Forall_impl _ _ F1). intros x Hx. eapply eff_ok_mono; [| |exact Hx]; [|apply incl_refl].
      intros y Hy. apply in_or_app. auto.
    + rewrite app_assoc. exact F2.
Qed.

Lemma fw0_wf A : wf (fw_tbl (fw0 A)).
Proof.
  unfold fw0. cbn [fw_tbl]. destruct (talk 0 ∅ (Single (Leaf A SvHello 1 BHello) [])) as [[t e] r] eqn:T.
  apply talk_spec in T as (W & _); [exact W|apply wf_empty].
Qed.

Lemma forwarded_handled_in_own_session F A ops w' es e sid pdev job :
  frun F A (fw0 A) ops = (w', es) -> In e es -> In (EHandle sid pdev job) e ->
  sid = pdev /\ In pdev (fops_devs ops).
Proof.
  intros R Ie Ix. eapply frun_spec with (N := []) in R as (_ & Fo); [|apply fw0_wf|constructor].
  rewrite List.Forall_forall in Fo. specialize (Fo _ Ie). rewrite List.Forall_forall in Fo. exact (Fo _ Ix).
Qed.

(* non-vacuity: C behind A's Proxy sends a small packet and one above the limit (F = 100: 3 fragments) *)
Definition fwd_demo : list fop := [FHello idC 5; FPump; FSend idC 192 6 40; FSend idC 193 7 250; FPump].
Lemma fwd_demo_run :
  (let '(w, es) := frun 100 idA (fw0 idA) (firstn 4 fwd_demo) in (fw_q w, es)) =
    ([WP idC 192 6 0 0; WP idC 193 7 0 3; WP idC 193 7 1 3; WP idC 193 7 2 3],
     [[]; [ETouch idC idC; ENew idC; ETouch idC idC]; []; []]) /\
  (frun 100 idA (fw0 idA) fwd_demo).2 =
    [[]; [ETouch idC idC; ENew idC; ETouch idC idC]; []; []; [ETouch idC idC; EHandle idC idC 6; EHandle idC idC 7]].
Proof. split; vm_compute; reflexivity. Qed.

(* ------------------------------------------------------------------------- *)
(* 9. the Proxy only ever drops the entry of the device that announced its shutdown;
      packets written without a Device                                          *)

Lemma pids_mono_insert_fresh cl k c : cl !! k = None -> pids_mono cl (<[k := c]> cl).
Proof.
  intros H k' x Hx. destruct (decide (k = k')) as [->|N]; [congruence|].
  rewrite lookup_insert_ne by exact N. eauto.
Qed.

(* every step of the Proxy keeps every client entry (possibly with another queue), unless the step is
   a packet with ID SvShutdown of a registered client: then exactly that client's entry goes *)
Definition pop_leaf (o : pop) : leaf := match o with PTalk n _ => n | PTalkSub n _ => n | PAccept n => n end.
Definition pop_accept (o : pop) : bool := match o with PAccept _ => true | _ => false end.

Lemma pstep_keeps x o x' r :
  pstep x o = (x', r) -> pwf (x_clients x) ->
  pids_mono (x_clients x) (x_clients x') \/
  (pop_accept o = false /\ l_pid (pop_leaf o) = SvShutdown /\
   (exists c, x_clients x !! hash (l_dev (pop_leaf o)) = Some c /\ c_id c = l_dev (pop_leaf o)) /\
   x_clients x' = delete (hash (l_dev (pop_leaf o))) (x_clients x)).
Proof.
  unfold pstep, pstep_g. intros H W. destruct o as [n tags|n b|n]; cbn [pop_leaf pop_accept].
  - (* talk *)
    unfold proxy_talk_g in H. destruct (id_empty (l_dev n)). { injection H as <- <-. left. apply pids_mono_refl. }
    destruct ((l_pid n =? SvShutdown) && p_is_own true x (l_dev n)) eqn:SD.
    { injection H as <- <-. apply andb_true_iff in SD as [S1 S2]. right. split; [reflexivity|].
      split; [apply Z.eqb_eq; exact S1|]. split; [apply p_is_own_true; exact S2|reflexivity]. }
    left.
    assert (MAIN : forall x1 known, pwf (x_clients x1) -> pids_mono (x_clients x) (x_clients x1) ->
              match x_clients x1 !! hash (l_dev n) with
              | None => (x1, AErr EOther)
              | Some c0 =>
                match presolve_tags (c_id c0) (x_clients x1) tags [] [] with
                | (cl2, add, Some err) => (Proxy cl2 (x_up x1), AErr err)
                | (cl2, add, None) =>
                  match cl2 !! hash (l_dev n) with
                  | None => (Proxy cl2 (x_up x1), AErr EOther)
                  | Some c =>
                    let up := if is_nop n then x_up x1 else x_up x1 ++ [(l_dev n, l_pid n, l_job n)] in
                    let '(c', l) := pnext_false c in
                    (Proxy (<[hash (l_dev n) := c']> cl2) up, AReply known (l ++ add))
                  end
                end
              end = (x', r) -> pids_mono (x_clients x) (x_clients x')).
    { clear H. intros x1 known W1 M1 H.
      destruct (x_clients x1 !! hash (l_dev n)) as [c0|] eqn:L0; [|injection H as <- <-; exact M1].
      destruct (presolve_tags (c_id c0) (x_clients x1) tags [] []) as [[cl2 add] rr] eqn:PT.
      eapply presolve_tags_spec with (N := []) (T := tags) in PT as (W2 & M2 & _); [|exact W1|apply incl_refl|constructor].
      destruct rr as [err|]. { injection H as <- <-. cbn. eapply pids_mono_trans; eauto. }
      destruct (cl2 !! hash (l_dev n)) as [c|] eqn:L2. 2:{ injection H as <- <-. cbn. eapply pids_mono_trans; eauto. }
      destruct (pnext_false c) as [c' l] eqn:X. injection H as <- <-. cbn.
      destruct (W2 _ _ L2) as (_ & Q). apply pnext_false_spec in X as (X1 & _); [|exact Q].
      eapply pids_mono_trans; [exact M1|]. eapply pids_mono_trans; [exact M2|]. eapply pids_mono_update; eauto. }
    destruct (plookup true (x_clients x) (l_dev n)) as [|c|c] eqn:L.
    + apply plookup_free in L. destruct (negb (l_pid n =? SvHello)). { injection H as <- <-. apply pids_mono_refl. }
      eapply MAIN in H; [exact H| |]; cbn [x_clients].
      * apply pwf_insert; auto. apply Forall_one. reflexivity.
      * apply pids_mono_insert_fresh. exact L.
    + eapply MAIN in H; [exact H|exact W|apply pids_mono_refl].
    + injection H as <- <-. apply pids_mono_refl.
  - (* talkSub *)
    unfold proxy_talk_sub_g in H. destruct (id_empty (l_dev n)). { injection H as <- <-. left. apply pids_mono_refl. }
    destruct ((l_pid n =? SvShutdown) && p_is_own true x (l_dev n)) eqn:SD.
    { injection H as <- <-. apply andb_true_iff in SD as [S1 S2]. right. split; [reflexivity|].
      split; [apply Z.eqb_eq; exact S1|]. split; [apply p_is_own_true; exact S2|reflexivity]. }
    left.
    assert (MAIN : forall x1, pwf (x_clients x1) -> pids_mono (x_clients x) (x_clients x1) ->
              match x_clients x1 !! hash (l_dev n) with
              | None => (x1, AErr EOther)
              | Some c =>
                let up := if is_nop n then x_up x1 ++ [(l_dev n, l_pid n, l_job n)] else x_up x1 in
                if b then (Proxy (x_clients x1) up, ASub (Some (c_id c)) (hash (l_dev n)) None [])
                else let '(c', l) := pnext_true c in
                     (Proxy (<[hash (l_dev n) := c']> (x_clients x1)) up, ASub (Some (c_id c)) (hash (l_dev n)) None l)
              end = (x', r) -> pids_mono (x_clients x) (x_clients x')).
    { clear H. intros x1 W1 M1 H. destruct (x_clients x1 !! hash (l_dev n)) as [c|] eqn:L; [|injection H as <- <-; exact M1].
      cbv zeta in H. destruct b; [injection H as <- <-; exact M1|].
      destruct (pnext_true c) as [c' l] eqn:X. injection H as <- <-. cbn.
      destruct (W1 _ _ L) as (_ & Q). apply pnext_true_spec in X as (X1 & _); [|exact Q].
      eapply pids_mono_trans; [exact M1|]. eapply pids_mono_update; eauto. }
    destruct (plookup true (x_clients x) (l_dev n)) as [|c|c] eqn:L.
    + apply plookup_free in L. destruct (negb (l_pid n =? SvHello)). { injection H as <- <-. apply pids_mono_refl. }
      eapply MAIN in H; [exact H| |]; cbn [x_clients].
      * apply pwf_insert; auto. apply Forall_one. reflexivity.
      * apply pids_mono_insert_fresh. exact L.
    + eapply MAIN in H; [exact H|exact W|apply pids_mono_refl].
    + injection H as <- <-. apply pids_mono_refl.
  - (* accept *)
    left. destruct (proxy_accept_g true x n) as [x1 b] eqn:P. injection H as <- <-.
    unfold proxy_accept_g in P. destruct (plookup true (x_clients x) (l_dev n)) as [|c0|c0] eqn:L.
    + injection P as <- <-. apply pids_mono_refl.
    + apply plookup_own in L as [L E]. destruct (is_nop n); injection P as <- <-; [apply pids_mono_refl|].
      cbn. eapply pids_mono_update; eauto.
    + injection P as <- <-. apply pids_mono_refl.
Qed.

(* in words: an entry that is gone after a step was the entry of the device the packet named, and the
   packet was that device's SvShutdown *)
Lemma proxy_prunes_only_named x o x' r k c :
  pstep x o = (x', r) -> pwf (x_clients x) -> x_clients x !! k = Some c -> x_clients x' !! k = None ->
  pop_accept o = false /\ l_pid (pop_leaf o) = SvShutdown /\ c_id c = l_dev (pop_leaf o) /\ k = hash (l_dev (pop_leaf o)).
Proof.
  intros H W L N. destruct (pstep_keeps _ _ _ _ H W) as [M|(A & B & (c0 & L0 & E0) & D)].
  - destruct (M _ _ L) as (c' & L' & _). congruence.
  - rewrite D in N. destruct (decide (k = hash (l_dev (pop_leaf o)))) as [->|NE].
    + rewrite L0 in L. injection L as <-. auto.
    + rewrite lookup_delete_ne in N by auto. congruence.
Qed.

(* a packet without a Device written to d's session: where it lands (as for KSend) *)
Lemma send_as_lands w d lbl pid job :
  routes_current w ->
  exists q, (q = hash d \/ (w_route w !! hash d = Some q /\ exists l, w_subs w !! q = Some l /\ In (hash d) l)) /\
            forall k, k <> q -> w_tbl (cstep w (KSendAs d lbl pid job)).1 !! k = w_tbl w !! k.
Proof.
  intros INV. cbn [cstep]. destruct (server_session (w_tbl w) d) as [s|].
  - destruct (w_route w !! hash d) as [hk|] eqn:R.
    + exists hk. split; [right; split; [reflexivity|]; apply (INV _ _ R)|].
      intros k N. cbn. unfold push_out. destruct (w_tbl w !! hk); [|reflexivity].
      unfold table in *. rewrite lookup_insert_ne; auto.
    + exists (hash d). split; [auto|]. intros k N. cbn. unfold push_out. destruct (w_tbl w !! hash d); [|reflexivity].
      unfold table in *. rewrite lookup_insert_ne; auto.
  - exists (hash d). split; [auto|]. reflexivity.
Qed.

(* what leaves a queue carries the device it was queued with: picking a packet up never relabels it
   (the only packet next makes up itself is the NoP naming the session) *)
Lemma next_false_keeps_labels s s' l o :
  next_false s = (s', l) -> In o l -> In o (s_out s) \/ o = (s_id s, 0, 0).
Proof.
  unfold next_false, take_next. destruct (s_out s) as [|x q].
  - intros [= <- <-] [<-|[]]. auto.
  - destruct (o_crypt x && o_names x (s_id s)); intros [= <- <-] I; left.
    + destruct I as [<-|[]]. left. reflexivity.
    + exact I.
Qed.
Lemma drain_keeps_labels w d w' k l o :
  cstep w (KDrain d) = (w', AReply k l) -> In o l ->
  exists hk h, chan_open_key w d = Some hk /\ w_tbl w !! hk = Some h /\ In o (s_out h).
Proof.
  cbn [cstep]. destruct (chan_open_key w d) as [hk|]; [|discriminate].
  destruct (w_tbl w !! hk) as [h|] eqn:L; [|discriminate].
  destruct (s_out h) as [|x q] eqn:Q; [discriminate|]. cbn [is_nil].
  destruct (next_false h) as [h' l'] eqn:X. intros [= <- <- <-] I.
  exists hk, h. split; [reflexivity|]. split; [exact L|].
  unfold next_false in X. rewrite Q in X. unfold take_next in X. rewrite Q.
  destruct (o_crypt x && o_names x (s_id h)); injection X as <- <-.
  - destruct I as [<-|[]]. left. reflexivity.
  - exact I.
Qed.

(* ------------------------------------------------------------------------- *)
(* 10. every flag combination: the handler fires only in the session of the device named *)

Definition handled_own (e : eff) : Prop := match e with EHandle s p _ => s = p | _ => True end.

Lemma eff_ok_handled_own N T e : eff_ok N T e -> handled_own e.
Proof. destruct e; cbn; intuition. Qed.

Lemma x_hand_own h d pid job : s_id h = d -> Forall handled_own (x_hand h d pid job).
Proof. intros E. unfold x_hand. destruct (pid <? MvRefresh); [constructor|]. apply Forall_one. exact E. Qed.

Lemma recv_plain_own h v : Forall handled_own (recv_plain h v).1.
Proof.
  destruct v as [[d pid] job]. unfold recv_plain. destruct (id_empty d); [constructor|].
  destruct (id_eqb (s_id h) d) eqn:E; cbn [negb]; [|constructor].
  apply x_hand_own. apply id_eqb_eq. exact E.
Qed.

Lemma recv_subs_own h subs : Forall handled_own (recv_subs h subs).1.
Proof.
  induction subs as [|v r IH]; cbn [recv_subs]; [constructor|].
  destruct (id_empty v.1.1); [constructor|].
  pose proof (recv_plain_own h v) as P. destruct (recv_plain h v) as [e [err|]]; [exact P|].
  destruct (recv_subs h r) as [e' r']. cbn in *. apply Forall_app. auto.
Qed.

Lemma pm_subs_own t h subs : Forall handled_own (pm_subs t h subs).1.
Proof.
  induction subs as [|v r IH]; cbn [pm_subs]; [constructor|].
  destruct (id_empty v.1.1); [constructor|].
  destruct (id_eqb (s_id h) v.1.1).
  - pose proof (recv_plain_own h v) as P. destruct (recv_plain h v) as [e x].
    destruct (pm_subs t h r) as [e' r']. cbn in *. apply Forall_app. auto.
  - destruct (lookup true t v.1.1) as [|s|s]; try exact IH.
    pose proof (recv_plain_own s v) as P. destruct (recv_plain s v) as [e [err|]]; [exact P|].
    destruct (pm_subs t h r) as [e' r']. cbn in *. apply Forall_app. auto.
Qed.

(* receive makes the device check itself unless FlagMultiDevice is set ... *)
Lemma recv_x_own h n : xp_mdev n = false -> Forall handled_own (recv_x h n).1.
Proof.
  intros M. unfold recv_x. rewrite M. cbn [negb andb].
  destruct (id_empty (xp_dev n)); [constructor|].
  destruct (id_eqb (s_id h) (xp_dev n)) eqn:E; cbn [negb]; [|constructor].
  apply id_eqb_eq in E.
  destruct (xp_multi n).
  - destruct (xp_cnt n =? 0); [constructor|]. destruct (xp_body n); try constructor. apply recv_subs_own.
  - destruct (xp_frag n).
    + destruct (xp_cnt n =? 0); [constructor|]. destruct (xp_cnt n =? 1); [|constructor]. apply x_hand_own. exact E.
    + apply x_hand_own. exact E.
Qed.

(* ... and conn.process sends every packet with FlagMultiDevice (with or without FlagMulti) through
   processMultiple, which hands each entry to the session of the device the entry names *)
Lemma process_x_own t h n : Forall handled_own (process_x t h n).1.
Proof.
  unfold process_x. destruct (xp_mdev n) eqn:M; [|apply recv_x_own; exact M].
  destruct (xp_cnt n =? 0); [constructor|]. destruct (xp_body n); try constructor. apply pm_subs_own.
Qed.

Lemma xstep_own w o w' e r :
  xstep w o = (w', e, r) -> wf (xw_tbl w) -> wf (xw_tbl w') /\ Forall handled_own e.
Proof.
  intros H W. destruct o as [d j|d|d n|n]; cbn [xstep] in H.
  - destruct (x_is_open w d). { injection H as <- <- <-. split; [exact W|constructor]. }
    destruct (talk 0 (xw_tbl w) (Single (Leaf d SvHello j BHello) [])) as [[t' e'] r'] eqn:T. injection H as <- <- <-.
    apply talk_spec in T as (W' & _ & F & _); [|exact W]. split; [exact W'|].
    refine (List.Forall_impl _ _ F). intros x. apply eff_ok_handled_own.
  - destruct (server_session (xw_tbl w) d); [|injection H as <- <- <-; split; [exact W|constructor]].
    destruct (x_is_open w d); injection H as <- <- <-; split; try exact W; constructor.
  - destruct (server_session (xw_tbl w) d) as [h|]; [|injection H as <- <- <-; split; [exact W|constructor]].
    destruct (x_is_open w d); [|injection H as <- <- <-; split; [exact W|constructor]].
    pose proof (process_x_own (xw_tbl w) h n) as P. destruct (process_x (xw_tbl w) h n) as [e' [err|]];
      injection H as <- <- <-; split; try exact W; exact P.
  - destruct (id_empty (xp_dev n)). { injection H as <- <- <-. split; [exact W|constructor]. }
    destruct (x_is_open w (xp_dev n)). { injection H as <- <- <-. split; [exact W|constructor]. }
    destruct (lookup true (xw_tbl w) (xp_dev n)) as [|h|h]; try (injection H as <- <- <-; split; [exact W|constructor]).
    pose proof (process_x_own (xw_tbl w) h n) as P. destruct (process_x (xw_tbl w) h n) as [e' [err|]];
      injection H as <- <- <-; split; try exact W; exact P.
Qed.

Lemma xrun_own ops : forall w w' es,
  xrun w ops = (w', es) -> wf (xw_tbl w) -> wf (xw_tbl w') /\ Forall (Forall handled_own) es.
Proof.
  induction ops as [|o ops IH]; intros w w' es H W; cbn [xrun] in H.
  - injection H as <- <-. split; [exact W|constructor].
  - destruct (xstep w o) as [[w1 e1] r1] eqn:S. destruct (xrun w1 ops) as [w2 l] eqn:R. injection H as <- <-.
    apply xstep_own in S as (W1 & F1); [|exact W]. apply IH in R as (W2 & F2); [|exact W1].
    split; [exact W2|]. constructor; assumption.
Qed.

(* the packet of the seeded change: on H's Channel, FlagMultiDevice alone, naming X: nothing is handled
   and the Channel ends; with both flags and a well-formed entry of X it is handled in X's session *)
Lemma flag_demo :
  let ops := [XReg idA 1; XReg idC 2; XOpen idA;
              XChan idA (XP idC 192 7 false true false false 0 XPlain); XOpen idA;
              XChan idA (XP idC 192 8 true true false false 1 (XCont [(idC, 193, 9)]))] in
  map (flat_map ev_of) (xrun (XW ∅ []) ops).2 = [[VNew idA]; [VNew idC]; []; []; []; [VRecv idC idC 9]].
Proof. vm_compute. reflexivity. Qed.
