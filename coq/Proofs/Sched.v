(* Proofs/Sched.v -- lemmas for C19 (work hours, jitter, kill date). *)
From XMT Require Import Base.Prelude Base.BitLemmas Model.Sched.
From Coq Require Import ZifyBool.
Ltac Zify.zify_post_hook ::= Z.div_mod_to_equations.

(* ------------------------------------------------------------------ int64 wrap *)
Definition two63 : Z := 9223372036854775808.
Definition two64 : Z := 18446744073709551616.

Lemma i64_id x : - two63 <= x < two63 -> i64 x = x.
Proof.
  unfold two63. intros H. unfold i64, sgn.
  change (2 ^ 64) with 18446744073709551616. cbv zeta.
  change (18446744073709551616 / 2) with 9223372036854775808.
  destruct (x mod 18446744073709551616 <? 9223372036854775808) eqn:E; lia.
Qed.

Lemma i64_wrap_hi x : two63 <= x < two64 -> i64 x = x - two64.
Proof.
  unfold two63, two64. intros H. unfold i64, sgn.
  change (2 ^ 64) with 18446744073709551616. cbv zeta.
  change (18446744073709551616 / 2) with 9223372036854775808.
  destruct (x mod 18446744073709551616 <? 9223372036854775808) eqn:E; lia.
Qed.

(* ------------------------------------------------------------------ work hours *)
Definition is_b (x : Z) : Prop := 0 <= x <= 255.
Definition rule_bytes (w : rule) : Prop :=
  is_b (r_days w) /\ is_b (r_sh w) /\ is_b (r_sm w) /\ is_b (r_eh w) /\ is_b (r_em w).

Ltac work_unfold :=
  unfold work, in_window, end_before_start, day_enabled, start_ns, end_ns, no_end, start_midnight,
         day_off, days_any, all_zero, rule_bytes, is_b, min_ns, day_ns in *.

Ltac split_ifs :=
  repeat match goal with
         | |- context [if ?b then _ else _] => let E := fresh "E" in destruct b eqn:E
         | H : context [if ?b then _ else _] |- _ => let E := fresh "E" in destruct b eqn:E
         end.

Lemma work_zero_iff_in_window w wd ns :
  rule_bytes w -> 0 <= ns < day_ns -> ~ end_before_start w ->
  (work w wd ns = 0 <-> in_window w wd ns).
Proof.
  destruct w as [dy sh sm eh em]. work_unfold. cbn [r_days r_sh r_sm r_eh r_em].
  intros (Hd & Hsh & Hsm & Heh & Hem) Hns Hnb.
  destruct (Z.testbit dy wd) eqn:Tb; cbn [negb];
  split_ifs; lia.
Qed.

Lemma work_bounds w wd ns :
  rule_bytes w -> 0 <= ns < day_ns -> 0 <= work w wd ns <= day_ns.
Proof.
  destruct w as [dy sh sm eh em]. work_unfold. cbn [r_days r_sh r_sm r_eh r_em].
  intros (Hd & Hsh & Hsm & Heh & Hem) Hns.
  destruct (Z.testbit dy wd) eqn:Tb; cbn [negb];
  split_ifs; lia.
Qed.

Lemma work_wait_bounds w wd ns :
  rule_bytes w -> 0 <= ns < day_ns -> work w wd ns <> 0 -> 0 < work w wd ns <= day_ns.
Proof. intros Hb Hn Hz. pose proof (work_bounds w wd ns Hb Hn). lia. Qed.

(* rules accepted by Verify: the effective window is the plain one *)
Definition hm (h m : Z) : Z := (h * 60 + m) * min_ns.

Lemma verify_ok_iff w :
  rule_bytes w -> (verify w = 0 <-> r_sh w <= 23 /\ r_sm w <= 59 /\ r_eh w <= 23 /\ r_em w <= 59).
Proof.
  destruct w as [dy sh sm eh em]. unfold verify, rule_bytes, is_b. cbn [r_days r_sh r_sm r_eh r_em].
  intros (Hd & Hsh & Hsm & Heh & Hem). split_ifs; lia.
Qed.

Lemma verified_window w :
  rule_bytes w -> verify w = 0 ->
  start_ns w = hm (r_sh w) (r_sm w) /\
  (no_end w = true <-> r_eh w = 0 /\ r_em w = 0) /\
  end_ns w = hm (r_eh w) (r_em w).
Proof.
  intros Hb Hv. apply verify_ok_iff in Hv; [|exact Hb].
  destruct w as [dy sh sm eh em]. revert Hb Hv. work_unfold. unfold hm, min_ns.
  cbn [r_days r_sh r_sm r_eh r_em]. intros (Hd & Hsh & Hsm & Heh & Hem) Hv.
  repeat split; split_ifs; try lia.
Qed.

Lemma work_zero_iff_in_window_verified w wd ns :
  rule_bytes w -> verify w = 0 -> 0 <= ns < day_ns ->
  ((r_eh w = 0 /\ r_em w = 0) \/ hm (r_sh w) (r_sm w) <= hm (r_eh w) (r_em w)) ->
  (work w wd ns = 0 <->
   day_enabled w wd /\ hm (r_sh w) (r_sm w) <= ns /\
   ((r_eh w = 0 /\ r_em w = 0) \/ ns <= hm (r_eh w) (r_em w))).
Proof.
  intros Hb Hv Hns Hord.
  destruct (verified_window w Hb Hv) as (Hs & Hne & He).
  assert (Hnb : ~ end_before_start w).
  { unfold end_before_start. rewrite Hs, He. intros (Hf & Hlt).
    destruct Hord as [Hz | Hle]; [|lia]. apply Hne in Hz. congruence. }
  rewrite (work_zero_iff_in_window w wd ns Hb Hns Hnb). unfold in_window. rewrite Hs, He.
  split.
  - intros (Hd & Hst & Hen). repeat split; try assumption.
    destruct (no_end w) eqn:Ne; [left; apply Hne; reflexivity | right; apply Hen; reflexivity].
  - intros (Hd & Hst & Hen). repeat split; try assumption.
    intros Ne. destruct Hen as [Hz | Hle]; [|exact Hle]. apply Hne in Hz. congruence.
Qed.

(* the code's reading of out-of-range fields, stated explicitly *)
Lemma start_out_of_range w : 23 < r_sh w \/ 60 < r_sm w -> start_ns w = 0.
Proof. unfold start_ns, start_midnight. intros H. split_ifs; lia. Qed.
Lemma start_minute_60 w : r_sh w <= 23 -> r_sm w = 60 -> start_ns w = (r_sh w + 1) * 60 * min_ns.
Proof. unfold start_ns, start_midnight, min_ns. intros H1 H2. split_ifs; lia. Qed.
Lemma end_out_of_range w : 23 < r_eh w \/ 60 < r_em w -> no_end w = true.
Proof. unfold no_end. intros H. lia. Qed.
Lemma end_minute_60 w : r_eh w <= 23 -> r_em w = 60 -> 0 <= r_eh w ->
  no_end w = false /\ end_ns w = (r_eh w + 1) * 60 * min_ns.
Proof. unfold no_end, end_ns, min_ns. intros H1 H2 H3. split; lia. Qed.

Lemma empty_never_waits w wd ns : empty w = true -> work w wd ns = 0.
Proof.
  unfold empty, work. intros H.
  replace (days_any w && all_zero w) with true by (destruct (days_any w), (all_zero w); cbn in *; congruence).
  reflexivity.
Qed.

(* a start of 23:60 (rejected by Verify, accepted by Work) never lets the client work *)
Lemma start_24h_never_works w wd ns :
  rule_bytes w -> 0 <= ns < day_ns -> r_sh w = 23 -> r_sm w = 60 -> 0 < work w wd ns.
Proof.
  destruct w as [dy sh sm eh em]. work_unfold. cbn [r_days r_sh r_sm r_eh r_em].
  intros (Hd & Hsh & Hsm & Heh & Hem) Hns H1 H2. subst sh sm.
  destruct (Z.testbit dy wd) eqn:Tb; cbn [negb];
  split_ifs; lia.
Qed.

(* ------------------------------------------------------------------ jitter *)
Lemma jitter_zero_exact_gen le0 sleep jitter gate d sign :
  jitter = 0 \/ 100 < jitter -> jitter_delay_gen le0 sleep jitter gate d sign = sleep.
Proof.
  intros H. unfold jitter_delay_gen, jitter_on.
  replace ((0 <? jitter) && (jitter <? 101)) with false by lia. reflexivity.
Qed.

Lemma jitter_bounds_gen le0 sleep jitter gate d sign :
  ms <= sleep < two63 -> 0 <= d < jitter_range sleep ->
  (le0 = true \/ sign = 1 \/ sleep + d * ms <> two63) ->
  0 < jitter_delay_gen le0 sleep jitter gate d sign <= 2 * sleep.
Proof.
  unfold jitter_range, ms, two63. intros Hs Hd Hw. unfold jitter_delay_gen.
  destruct (jitter_on sleep jitter gate) eqn:On; [|lia].
  assert (Hms : 1000000 < sleep) by (unfold jitter_on, ms in On; lia).
  assert (Hdm : d * 1000000 <= sleep - 1000000) by lia.
  unfold ms. destruct (sign =? 1) eqn:Sg.
  - rewrite (i64_id (d * -1)) by (unfold two63; lia).
    rewrite (i64_id (d * -1 * 1000000)) by (unfold two63; lia).
    rewrite (i64_id (sleep + d * -1 * 1000000)) by (unfold two63; lia).
    replace (sleep + d * -1 * 1000000 <? 0) with false by lia.
    destruct le0; split_ifs; lia.
  - rewrite (i64_id (d * 1000000)) by (unfold two63; lia).
    destruct (Z_lt_dec (sleep + d * 1000000) two63) as [Lt | Ge].
    + rewrite (i64_id (sleep + d * 1000000)) by (unfold two63 in *; lia).
      replace (sleep + d * 1000000 <? 0) with false by lia.
      destruct le0; split_ifs; lia.
    + unfold two63 in Ge.
      rewrite (i64_wrap_hi (sleep + d * 1000000)) by (unfold two63, two64; lia).
      unfold two64.
      replace (sleep + d * 1000000 - 18446744073709551616 <? 0) with true by lia.
      destruct (Z.eq_dec (sleep + d * 1000000) 9223372036854775808) as [Eq | Ne].
      * rewrite Eq. change (i64 ((9223372036854775808 - 18446744073709551616) * -1)) with (-9223372036854775808).
        cbv iota. destruct le0.
        -- cbv iota. change (-9223372036854775808 <=? 0) with true. cbv iota. lia.
        -- exfalso. destruct Hw as [? | [? | ?]]; [congruence | lia | lia].
      * rewrite (i64_id ((sleep + d * 1000000 - 18446744073709551616) * -1)) by (unfold two63; lia).
        destruct le0; split_ifs; lia.
Qed.

(* the original guard `w == 0`: the delay is the minimum int64 when sleep + d*1ms = 2^63 *)
Lemma jitter_old_refuted :
  exists sleep jitter gate d sign,
    ms <= sleep < two63 /\ 0 <= jitter <= 255 /\ 0 <= gate < 100 /\ 0 <= d < jitter_range sleep /\ 0 <= sign < 2 /\
    jitter_delay_gen false sleep jitter gate d sign = - two63.
Proof.
  exists 5223372036854775808, 100, 0, 4000000000000, 0. vm_compute. repeat split; congruence.
Qed.

Lemma jitter_uses_range sleep jitter gate : 0 <= jitter_uses sleep jitter gate <= 7.
Proof. unfold jitter_uses. split_ifs; lia. Qed.

(* ------------------------------------------------------------------ kill date *)
Definition after_work (c : kcfg) (now : Z) : Z :=
  match eff_work c with Some w => work_loop 16 w now | None => now end.

Lemma wait_step_spec rc c dl now cl :
  wait_step rc c dl now cl =
  if cl then (now, true)
  else if kill_passed c (after_work c now) then (after_work c now, true)
  else if k_sleep c <? 1 then (after_work c now, false)
  else if rc && kill_passed c (after_work c now + dl) then (after_work c now + dl, true)
  else (after_work c now + dl, false).
Proof. reflexivity. Qed.

Lemma wait_not_closing_not_after_kill c dl now cl now' :
  wait_step true c dl now cl = (now', false) -> kill_passed c now' = false.
Proof.
  rewrite wait_step_spec. cbn [andb]. generalize (after_work c now). intros n1 H.
  destruct cl; [discriminate|].
  destruct (kill_passed c n1) eqn:K1; [discriminate|].
  destruct (k_sleep c <? 1); [inversion H; subst; exact K1|].
  destruct (kill_passed c (n1 + dl)) eqn:K2; inversion H; subst; exact K2.
Qed.

Lemma listen_exchange_not_after_kill c script :
  forall now cl errors e,
    In e (listen true c script now cl errors) -> snd e = false -> kill_passed c (fst e) = false.
Proof.
  induction script as [|it rest IH]; intros now cl errors e Hin Hs; [destruct Hin|].
  cbn [listen] in Hin.
  destruct (wait_step true c (i_dl it) now cl) as [now1 cl1] eqn:W.
  destruct cl1.
  - destruct Hin as [<- | []]. discriminate.
  - apply wait_not_closing_not_after_kill in W.
    destruct (i_fail it).
    + destruct (errors <=? 5).
      * destruct Hin as [<- | Hin]; [exact W | eapply IH; eassumption].
      * destruct Hin as [<- | []]. exact W.
    + destruct Hin as [<- | Hin]; [exact W | eapply IH; eassumption].
Qed.

Definition notices (l : list (Z * bool)) : Z := len (filter (fun e : Z * bool => snd e) l).

Lemma len_nil {A} : len (@nil A) = 0. Proof. reflexivity. Qed.

Lemma notices_cons e l : notices (e :: l) = (if snd e then 1 else 0) + notices l.
Proof. unfold notices. cbn [filter]. destruct (snd e); [rewrite len_cons|]; lia. Qed.

Lemma listen_notice_at_most_one rc c script :
  forall now cl errors, notices (listen rc c script now cl errors) <= 1.
Proof.
  induction script as [|it rest IH]; intros now cl errors; cbn [listen]; [cbn; lia|].
  destruct (wait_step rc c (i_dl it) now cl) as [now1 cl1].
  destruct cl1; [cbn; lia|].
  destruct (i_fail it); [destruct (errors <=? 5)|]; rewrite ?notices_cons; cbn [snd];
    try (specialize (IH (now1 + i_dur it) (i_close it))); try (pose proof (IH (errors + 1))); try (pose proof (IH 0));
    cbn; try lia.
Qed.

(* a notice, if any, is the last Connect *)
Lemma listen_notice_is_last rc c script :
  forall now cl errors a e b, listen rc c script now cl errors = a ++ e :: b -> snd e = true -> b = [].
Proof.
  induction script as [|it rest IH]; intros now cl errors a e b; cbn [listen]; [destruct a; discriminate|].
  destruct (wait_step rc c (i_dl it) now cl) as [now1 cl1].
  destruct cl1.
  { intros H _. destruct a as [|x a]; inversion H; [reflexivity | destruct a; discriminate]. }
  assert (G : forall tl, (forall a e b, tl = a ++ e :: b -> snd e = true -> b = []) ->
              (now1, false) :: tl = a ++ e :: b -> snd e = true -> b = []).
  { intros tl Htl H Hs. destruct a as [|x a]; inversion H; subst.
    - discriminate.
    - eapply Htl; [reflexivity | exact Hs]. }
  destruct (i_fail it); [destruct (errors <=? 5)|].
  - apply G. intros a' e' b'. apply IH.
  - intros H Hs. destruct a as [|x a]; inversion H; subst; [discriminate | destruct a; discriminate].
  - apply G. intros a' e' b'. apply IH.
Qed.

Lemma count_after_kill_cons c e l :
  count_after_kill c (e :: l) = (if kill_passed c (fst e) then 1 else 0) + count_after_kill c l.
Proof.
  unfold count_after_kill, after_kill. cbn [filter]. destruct (kill_passed c (fst e)); [rewrite len_cons|]; lia.
Qed.

Lemma count_after_kill_le_notices c l :
  (forall e, In e l -> snd e = false -> kill_passed c (fst e) = false) ->
  count_after_kill c l <= notices l.
Proof.
  induction l as [|e l IH]; intros H; [cbn; lia|].
  rewrite count_after_kill_cons, notices_cons.
  assert (IH' := IH (fun e' Hin => H e' (or_intror Hin))).
  destruct (snd e) eqn:Se.
  - destruct (kill_passed c (fst e)); lia.
  - rewrite (H e (or_introl eq_refl) Se). lia.
Qed.

Lemma listen_after_kill_le_1 c script now cl errors :
  count_after_kill c (listen true c script now cl errors) <= 1.
Proof.
  pose proof (listen_notice_at_most_one true c script now cl errors).
  pose proof (count_after_kill_le_notices c (listen true c script now cl errors)
                (listen_exchange_not_after_kill c script now cl errors)). lia.
Qed.

Lemma initial_not_after_kill c now t : initial_connect c now = Some t -> kill_passed c t = false.
Proof.
  unfold initial_connect. intros H.
  match type of H with (if kill_passed c ?x then _ else _) = _ => destruct (kill_passed c x) eqn:K end;
    inversion H; subst; exact K.
Qed.

Lemma client_exchange_not_after_kill c script t0 e :
  In e (client true c script t0) -> snd e = false -> kill_passed c (fst e) = false.
Proof.
  unfold client. destruct script as [|it rest]; [intros []|].
  destruct (initial_connect c t0) as [t|] eqn:I; [|intros []].
  apply initial_not_after_kill in I.
  destruct (i_fail it).
  - intros [<- | []] _. exact I.
  - intros [<- | Hin] Hs; [exact I | eapply listen_exchange_not_after_kill; eassumption].
Qed.

Lemma client_notice_at_most_one rc c script t0 : notices (client rc c script t0) <= 1.
Proof.
  unfold client. destruct script as [|it rest]; [cbn; lia|].
  destruct (initial_connect c t0) as [t|]; [|cbn; lia].
  destruct (i_fail it); [cbn; lia|].
  rewrite notices_cons. cbn [snd].
  pose proof (listen_notice_at_most_one rc c rest (t + i_dur it) false 0). lia.
Qed.

Lemma client_after_kill_le_1 c script t0 : count_after_kill c (client true c script t0) <= 1.
Proof.
  pose proof (client_notice_at_most_one true c script t0).
  pose proof (count_after_kill_le_notices c (client true c script t0)
                (fun e => client_exchange_not_after_kill c script t0 e)). lia.
Qed.

(* every Connect after the kill date is the shutdown notice *)
Lemma client_after_kill_is_notice c script t0 e :
  In e (client true c script t0) -> kill_passed c (fst e) = true -> snd e = true.
Proof.
  intros Hin Hk. destruct (snd e) eqn:Se; [reflexivity|].
  rewrite (client_exchange_not_after_kill c script t0 e Hin Se) in Hk. discriminate.
Qed.

(* the representative scenario: sleep 60 ms, the date passes 30 ms into the third sleep *)
Definition sc_cfg : kcfg := mkK 60000000 (Some 208800150000000) None.
Definition sc_script : list item := repeat (mkI 60000000 0 false false) 8.
Definition sc_t0 : Z := 208800000000000.

Lemma no_connect_after_kill_refuted :
  exists c script t0 t, In (t, true) (client impl_recheck c script t0) /\ kill_passed c t = true.
Proof.
  exists sc_cfg, sc_script, sc_t0, 208800180000000. vm_compute. split; [|reflexivity].
  do 3 right. left. reflexivity.
Qed.

(* ---- the original code (no re-check after the sleep): kept as regression documentation *)
Lemma old_exchange_after_kill_refuted :
  exists c script t0 t, In (t, false) (client false c script t0) /\ kill_passed c t = true /\
                        count_after_kill c (client false c script t0) = 2.
Proof.
  exists sc_cfg, sc_script, sc_t0, 208800180000000. vm_compute. split; [|split; reflexivity].
  do 3 right. left. reflexivity.
Qed.

Definition script_ok (script : list item) : Prop :=
  Forall (fun it => 0 <= i_dl it /\ 0 <= i_dur it) script.

Lemma kill_passed_mono c a b : a <= b -> kill_passed c a = true -> kill_passed c b = true.
Proof. unfold kill_passed. destruct (k_kill c); [|discriminate]. lia. Qed.

Lemma work_at_nonneg w now : rule_bytes w -> 0 <= work_at w now.
Proof.
  intros Hb. unfold work_at. apply work_bounds; [exact Hb|]. unfold day_ns. lia.
Qed.

Lemma work_loop_mono fuel w : forall now, rule_bytes w -> now <= work_loop fuel w now.
Proof.
  induction fuel as [|f IH]; intros now Hb; cbn [work_loop]; [lia|].
  destruct (0 <? work_at w now) eqn:E; [|lia].
  specialize (IH (now + work_at w now) Hb). lia.
Qed.

Definition cfg_ok (c : kcfg) : Prop := match k_work c with Some w => rule_bytes w | None => True end.

Lemma eff_work_ok c w : cfg_ok c -> eff_work c = Some w -> rule_bytes w.
Proof.
  unfold cfg_ok, eff_work. destruct (k_work c) as [w'|]; [|discriminate].
  destruct (empty w'); [discriminate|]. intros H E. inversion E; subst. exact H.
Qed.

Lemma after_work_mono c now : cfg_ok c -> now <= after_work c now.
Proof.
  intros Hc. unfold after_work. destruct (eff_work c) as [w|] eqn:Ew; [|lia].
  apply work_loop_mono. exact (eff_work_ok c w Hc Ew).
Qed.

Lemma wait_step_mono rc c dl now cl now' cl' :
  cfg_ok c -> 0 <= dl -> wait_step rc c dl now cl = (now', cl') -> now <= now'.
Proof.
  intros Hc Hdl. rewrite wait_step_spec. pose proof (after_work_mono c now Hc) as Hm.
  revert Hm. generalize (after_work c now). intros n1 Hm H.
  destruct cl; [inversion H; lia|].
  destruct (kill_passed c n1); [inversion H; lia|].
  destruct (k_sleep c <? 1); [inversion H; lia|].
  destruct (rc && kill_passed c (n1 + dl)); inversion H; lia.
Qed.

(* old code: once the date has passed at the top of a pass, that pass is the notice *)
Lemma old_listen_after_kill c script :
  cfg_ok c -> script_ok script ->
  forall now cl errors,
    (kill_passed c now = true -> count_after_kill c (listen false c script now cl errors) <= 1) /\
    count_after_kill c (listen false c script now cl errors) <= 2.
Proof.
  intros Hc. induction script as [|it rest IH]; intros Hs now cl errors; [cbn; lia|].
  inversion Hs as [|? ? (Hdl & Hdur) Hs']; subst. specialize (IH Hs').
  cbn [listen].
  destruct (wait_step false c (i_dl it) now cl) as [now1 cl1] eqn:W.
  pose proof (wait_step_mono false c (i_dl it) now cl now1 cl1 Hc Hdl W) as Hm.
  destruct cl1.
  { rewrite count_after_kill_cons. change (count_after_kill c []) with 0. cbn [fst].
    destruct (kill_passed c now1); lia. }
  assert (Hnp : kill_passed c now = true -> False).
  { intros Hk. revert W. rewrite wait_step_spec. cbn [andb].
    pose proof (kill_passed_mono c now (after_work c now) (after_work_mono c now Hc) Hk) as Hk1.
    destruct cl; [intros W; inversion W|]. rewrite Hk1. intros W; inversion W. }
  assert (Hrest : forall cl2 er2,
             (if kill_passed c now1 then 1 else 0) + count_after_kill c (listen false c rest (now1 + i_dur it) cl2 er2) <= 2 /\
             (kill_passed c now = true ->
              (if kill_passed c now1 then 1 else 0) + count_after_kill c (listen false c rest (now1 + i_dur it) cl2 er2) <= 1)).
  { intros cl2 er2. destruct (IH (now1 + i_dur it) cl2 er2) as (IH1 & IH2).
    split; [|intros Hk; destruct (Hnp Hk)].
    destruct (kill_passed c now1) eqn:K1; [|lia].
    assert (kill_passed c (now1 + i_dur it) = true) by (apply (kill_passed_mono c now1); [lia | exact K1]).
    specialize (IH1 H). lia. }
  destruct (i_fail it); [destruct (errors <=? 5)|]; rewrite ?count_after_kill_cons; cbn [fst].
  - destruct (Hrest (i_close it) (errors + 1)) as (A & B). split; [intros Hk; apply B, Hk | exact A].
  - change (count_after_kill c []) with 0.
    split; [intros Hk; destruct (Hnp Hk) | destruct (kill_passed c now1); lia].
  - destruct (Hrest (i_close it) 0) as (A & B). split; [intros Hk; apply B, Hk | exact A].
Qed.

Lemma old_client_after_kill_le_2 c script t0 :
  cfg_ok c -> script_ok script -> count_after_kill c (client false c script t0) <= 2.
Proof.
  intros Hc Hs. unfold client. destruct script as [|it rest]; [cbn; lia|].
  inversion Hs as [|? ? _ Hs']; subst.
  destruct (initial_connect c t0) as [t|] eqn:I; [|cbn; lia].
  apply initial_not_after_kill in I.
  destruct (i_fail it); rewrite ?count_after_kill_cons; cbn [fst]; rewrite I.
  - cbn. lia.
  - destruct (old_listen_after_kill c rest Hc Hs' (t + i_dur it) false 0) as (_ & B). lia.
Qed.

(* ---- termination of the work-hours loop of wait() *)
Lemma work_at_split w q ns : 0 <= ns < day_ns -> work_at w (q * day_ns + ns) = work w (q mod 7) ns.
Proof.
  intros H. unfold work_at.
  replace ((q * day_ns + ns) / day_ns) with q by (unfold day_ns in *; lia).
  replace ((q * day_ns + ns) mod day_ns) with ns by (unfold day_ns in *; lia).
  reflexivity.
Qed.

(* the four outcomes of Work *)
Lemma work_cases w wd ns :
  rule_bytes w -> 0 <= ns < day_ns ->
  work w wd ns = 0 \/
  (day_off w wd = true /\ work w wd ns = day_ns - ns) \/
  (day_off w wd = false /\ ns < start_ns w /\ work w wd ns = start_ns w - ns) \/
  (day_off w wd = false /\ start_ns w <= ns /\ work w wd ns = start_ns w + day_ns - ns).
Proof.
  destruct w as [dy sh sm eh em]. work_unfold. cbn [r_days r_sh r_sm r_eh r_em].
  intros (Hd & Hsh & Hsm & Heh & Hem) Hns.
  destruct (Z.testbit dy wd) eqn:Tb; cbn [negb]; split_ifs; lia.
Qed.

Lemma work_at_start w wd :
  rule_bytes w -> start_ns w < day_ns -> day_off w wd = false -> work w wd (start_ns w) = 0.
Proof.
  destruct w as [dy sh sm eh em]. work_unfold. cbn [r_days r_sh r_sm r_eh r_em].
  intros (Hd & Hsh & Hsm & Heh & Hem) Hs.
  destruct (Z.testbit dy wd) eqn:Tb; cbn [negb]; split_ifs; lia.
Qed.

Lemma start_ns_nonneg w : rule_bytes w -> 0 <= start_ns w.
Proof.
  destruct w as [dy sh sm eh em]. work_unfold. cbn [r_days r_sh r_sm r_eh r_em].
  intros (Hd & Hsh & Hsm & Heh & Hem). split_ifs; lia.
Qed.

Definition settled (w : rule) (now : Z) : Prop := work_at w now = 0.

Lemma loop_done f w now : settled w now -> work_loop f w now = now.
Proof. unfold settled. intros H. destruct f; cbn [work_loop]; [reflexivity|]. rewrite H. reflexivity. Qed.

Lemma loop_step f w now :
  0 < work_at w now -> work_loop (S f) w now = work_loop f w (now + work_at w now).
Proof. intros H. cbn [work_loop]. replace (0 <? work_at w now) with true by lia. reflexivity. Qed.

(* some weekday is enabled *)
Lemma some_day_on w : rule_bytes w ->
  exists j, 0 <= j < 7 /\ day_off w j = false.
Proof.
  intros (Hd & _). unfold day_off.
  destruct (Z.eq_dec (r_days w) 0) as [E|N]; [exists 0; split; [lia|]; rewrite E; reflexivity|].
  destruct (Z_lt_dec (r_days w) 127) as [L|G]; [|exists 0; split; [lia|]; replace (r_days w <? 127) with false by lia; rewrite andb_false_r; reflexivity].
  assert (H : forallb (fun d => existsb (fun j => Z.testbit d j) [0;1;2;3;4;5;6]) (map Z.of_nat (seq 1 126)) = true) by (vm_compute; reflexivity).
  rewrite forallb_forall in H.
  assert (Hin : In (r_days w) (map Z.of_nat (seq 1 126))).
  { unfold is_b in Hd. replace (r_days w) with (Z.of_nat (Z.to_nat (r_days w))) by lia.
    apply in_map, in_seq. lia. }
  specialize (H _ Hin). apply existsb_exists in H. destruct H as (j & Hj & Tj).
  exists j. split; [cbn in Hj; lia|]. rewrite Tj. cbn [negb]. apply andb_false_r.
Qed.

(* from a midnight: at most k day hops, then at most one wait for the start *)
Lemma settle_from_midnight w : rule_bytes w -> start_ns w < day_ns ->
  forall k q, (exists j, 0 <= j < Z.of_nat k /\ day_off w ((q + j) mod 7) = false) ->
  settled w (work_loop (k + 1) w (q * day_ns)).
Proof.
  intros Hb Hs. pose proof (start_ns_nonneg w Hb) as Hs0.
  induction k as [|k IH]; intros q (j & Hj & Hon); [lia|].
  assert (Hmid : work_at w (q * day_ns) = work w (q mod 7) 0).
  { rewrite <- (work_at_split w q 0) by (unfold day_ns; lia). f_equal. lia. }
  destruct (day_off w (q mod 7)) eqn:Off.
  - (* hop to the next midnight *)
    destruct (work_cases w (q mod 7) 0 Hb ltac:(unfold day_ns; lia)) as [Z0 | [(_ & W) | [(F & _) | (F & _)]]]; try congruence.
    + rewrite loop_done; unfold settled; rewrite Hmid; exact Z0.
    + replace (S k + 1)%nat with (S (k + 1)) by lia.
      rewrite loop_step by (rewrite Hmid, W; unfold day_ns; lia).
      rewrite Hmid, W. replace (q * day_ns + (day_ns - 0)) with ((q + 1) * day_ns) by lia.
      apply IH. destruct (Z.eq_dec j 0) as [-> | Nz].
      * replace (q + 0) with q in Hon by lia. congruence.
      * exists (j - 1). split; [lia|]. replace (q + 1 + (j - 1)) with (q + j) by lia. exact Hon.
  - (* the day is enabled: go, or wait for the start *)
    destruct (work_cases w (q mod 7) 0 Hb ltac:(unfold day_ns; lia)) as [Z0 | [(T & _) | [(_ & Lt & W) | (_ & Ge & W)]]]; try congruence.
    + rewrite loop_done; unfold settled; rewrite Hmid; exact Z0.
    + replace (S k + 1)%nat with (S (k + 1)) by lia.
      rewrite loop_step by (rewrite Hmid, W; lia).
      rewrite Hmid, W. replace (start_ns w - 0) with (start_ns w) by lia.
      assert (St : settled w (q * day_ns + start_ns w)).
      { unfold settled. rewrite work_at_split by lia. apply work_at_start; assumption. }
      rewrite loop_done; exact St.
    + assert (start_ns w = 0) by lia.
      rewrite loop_done; unfold settled; rewrite Hmid; rewrite <- H at 1; apply work_at_start; assumption.
Qed.

Lemma week_has_day_on w q : rule_bytes w -> exists j, 0 <= j < 7 /\ day_off w ((q + j) mod 7) = false.
Proof.
  intros Hb. destruct (some_day_on w Hb) as (d & Hd & Hon).
  exists ((d - q) mod 7). split; [lia|].
  replace ((q + (d - q) mod 7) mod 7) with d by lia. exact Hon.
Qed.

Lemma loop_more_fuel w f : forall now m,
  settled w (work_loop f w now) -> work_loop (f + m) w now = work_loop f w now.
Proof.
  induction f as [|f IH]; intros now m H.
  - cbn [work_loop Nat.add] in *. apply loop_done. exact H.
  - cbn [Nat.add work_loop] in *. destruct (0 <? work_at w now); [apply IH; exact H | reflexivity].
Qed.

Lemma settled_more_fuel w f g now :
  (f <= g)%nat -> settled w (work_loop f w now) -> settled w (work_loop g w now).
Proof.
  intros L H. replace g with (f + (g - f))%nat by lia. rewrite loop_more_fuel; exact H.
Qed.

(* the loop of wait() ends within 10 passes for every rule that can work at all
   (start before 24:00), from any instant *)
Lemma work_loop_settles w now :
  rule_bytes w -> start_ns w < day_ns -> settled w (work_loop 16 w now).
Proof.
  intros Hb Hs. pose proof (start_ns_nonneg w Hb) as Hs0.
  set (q := now / day_ns). set (ns := now mod day_ns).
  assert (Hns : 0 <= ns < day_ns) by (unfold ns, day_ns; lia).
  assert (En : now = q * day_ns + ns) by (unfold q, ns, day_ns; lia).
  assert (M : forall q', settled w (work_loop 8 w (q' * day_ns))).
  { intros q'. apply (settle_from_midnight w Hb Hs 7 q'). apply week_has_day_on. exact Hb. }
  assert (Hw : work_at w now = work w (q mod 7) ns) by (rewrite En; apply work_at_split; exact Hns).
  destruct (work_cases w (q mod 7) ns Hb Hns) as [Z0 | [(_ & W) | [(Fo & Lt & W) | (Fo & Ge & W)]]].
  - rewrite loop_done; unfold settled; rewrite Hw; exact Z0.
  - (* day off: next midnight *)
    change 16%nat with (S 15). rewrite loop_step by (rewrite Hw, W; lia).
    rewrite Hw, W. replace (now + (day_ns - ns)) with ((q + 1) * day_ns) by lia.
    apply (settled_more_fuel w 8 15); [lia | apply M].
  - (* before the start: the start of today *)
    change 16%nat with (S 15). rewrite loop_step by (rewrite Hw, W; lia).
    rewrite Hw, W. replace (now + (start_ns w - ns)) with (q * day_ns + start_ns w) by lia.
    rewrite loop_done; unfold settled; rewrite work_at_split by lia; apply work_at_start; assumption.
  - (* after the end: the start of tomorrow, then possibly the midnight after *)
    change 16%nat with (S 15). rewrite loop_step by (rewrite Hw, W; lia).
    rewrite Hw, W. replace (now + (start_ns w + day_ns - ns)) with ((q + 1) * day_ns + start_ns w) by lia.
    assert (Hw2 : work_at w ((q + 1) * day_ns + start_ns w) = work w ((q + 1) mod 7) (start_ns w))
      by (apply work_at_split; lia).
    destruct (day_off w ((q + 1) mod 7)) eqn:Off2.
    + destruct (work_cases w ((q + 1) mod 7) (start_ns w) Hb ltac:(lia)) as [Z0 | [(_ & W2) | [(F & _) | (F & _)]]]; try congruence.
      * rewrite loop_done; unfold settled; rewrite Hw2; exact Z0.
      * change 15%nat with (S 14). rewrite loop_step by (rewrite Hw2, W2; lia).
        rewrite Hw2, W2.
        replace ((q + 1) * day_ns + start_ns w + (day_ns - start_ns w)) with ((q + 2) * day_ns) by lia.
        apply (settled_more_fuel w 8 14); [lia | apply M].
    + rewrite loop_done; unfold settled; rewrite Hw2; apply work_at_start; assumption.
Qed.

Lemma start_before_24h w : rule_bytes w -> start_ns w < day_ns \/ (r_sh w = 23 /\ r_sm w = 60).
Proof.
  destruct w as [dy sh sm eh em]. work_unfold. cbn [r_days r_sh r_sm r_eh r_em].
  intros (Hd & Hsh & Hsm & Heh & Hem). split_ifs; lia.
Qed.

(* ------------------------------------------------------------------ Profile swap *)
Lemma swap_takes_profile_values old p :
  (0 < p_sleep p -> s_sleep (swap_settings old p) = p_sleep p) /\
  (p_sleep p <= 0 -> s_sleep (swap_settings old p) = s_sleep old) /\
  (0 <= p_jitter p <= 100 -> s_jitter (swap_settings old p) = p_jitter p) /\
  (p_jitter p < 0 \/ 100 < p_jitter p -> s_jitter (swap_settings old p) = s_jitter old) /\
  (forall k, p_kill p = Some k -> s_kill (swap_settings old p) = k) /\
  (p_kill p = None -> s_kill (swap_settings old p) = s_kill old) /\
  (forall w, p_work p = Some w -> empty w = false -> s_work (swap_settings old p) = Some w) /\
  (forall w, p_work p = Some w -> empty w = true -> s_work (swap_settings old p) = None) /\
  (p_work p = None -> s_work (swap_settings old p) = s_work old).
Proof.
  unfold swap_settings. cbn [s_sleep s_jitter s_kill s_work].
  repeat split.
  - intros H. replace (0 <? p_sleep p) with true by lia. reflexivity.
  - intros H. replace (0 <? p_sleep p) with false by lia. reflexivity.
  - intros H. replace ((0 <=? p_jitter p) && (p_jitter p <=? 100)) with true by lia. unfold u8. lia.
  - intros H. replace ((0 <=? p_jitter p) && (p_jitter p <=? 100)) with false by lia. reflexivity.
  - intros k ->. reflexivity.
  - intros ->. reflexivity.
  - intros w -> ->. reflexivity.
  - intros w -> ->. reflexivity.
  - intros ->. reflexivity.
Qed.

(* after a swap to a Profile with jitter 0 and sleep d > 0 every delay is exactly d *)
Lemma swap_jitter0_delay_exact old p gate d sign :
  p_jitter p = 0 -> 0 < p_sleep p -> delay_with (swap_settings old p) gate d sign = p_sleep p.
Proof.
  intros Hj Hs. destruct (swap_takes_profile_values old p) as (A & _ & B & _).
  unfold delay_with. rewrite (A Hs), (B ltac:(lia)), Hj.
  apply (jitter_zero_exact_gen impl_le0). left. reflexivity.
Qed.

(* more generally: whenever the jitter in force after the swap is 0 (set by the Profile, or kept
   because the Profile does not set one), the delay is the sleep in force *)
Lemma swap_jitter0_in_force_delay_exact old p gate d sign :
  s_jitter (swap_settings old p) = 0 ->
  delay_with (swap_settings old p) gate d sign = s_sleep (swap_settings old p).
Proof.
  intros Hj. unfold delay_with. rewrite Hj. apply (jitter_zero_exact_gen impl_le0). left. reflexivity.
Qed.

(* ------------------------------------------------------------------ the sleep ticker *)
(* with the drain, whatever happened to the ticker before (a tick pending from a long contact or
   not), wait() does not return before now + w *)
Lemma wait_drain_full_delay t now w : 0 <= w -> now + w <= wait_wakes true t now w.
Proof.
  intros Hw. unfold wait_wakes, tick_recv, tick_reset, tick_drain. cbn [t_pending t_next]. lia.
Qed.

Lemma wait_drain_exact t now w : 0 <= w -> wait_wakes true t now w = now + w.
Proof.
  intros Hw. unfold wait_wakes, tick_recv, tick_reset, tick_drain. cbn [t_pending t_next]. lia.
Qed.

(* without the drain a tick that fired during a contact longer than the period survives Reset
   and wait() returns at once *)
Lemma wait_no_drain_stale t now w :
  0 < t_period t -> t_next t <= now -> wait_wakes false t now w = now.
Proof.
  intros Hp Hn. unfold wait_wakes, tick_advance. replace (t_next t <=? now) with true by lia.
  unfold tick_recv, tick_reset. cbn [t_pending]. reflexivity.
Qed.

Lemma wait_no_drain_refuted :
  exists t now w, 0 < w /\ t_pending t = false /\ wait_wakes false t now w < now + w.
Proof. exists (mkT false 80 80), 320, 80. vm_compute. repeat split; reflexivity. Qed.

(* ------------------------------------------------------------------ spawn path *)
Lemma spawn_not_after_effective_kill c inh now t :
  spawn_connect c inh now = Some t -> kill_passed (absorb_kill c inh) t = false.
Proof.
  unfold spawn_connect. destruct (kill_passed (absorb_kill c inh) now) eqn:K; [discriminate|].
  intros H. inversion H; subst. exact K.
Qed.

Lemma spawn_gate_is_inherited c inh now :
  spawn_connect c inh now = match inh with Some k => if k <? now then None else Some now | None => Some now end.
Proof. unfold spawn_connect, kill_passed, absorb_kill. cbn [k_kill]. destruct inh; reflexivity. Qed.

(* ------------------------------------------------------------------ runtime kill-date update *)
Lemma kill_update_stores u : u <> 0 -> kill_update u = Some ((u - epoch0_unix) * 1000000000).
Proof. intros H. unfold kill_update. replace (u =? 0) with false by lia. reflexivity. Qed.

Lemma kill_update_then_wait c u dl now now' :
  u <> 0 ->
  wait_step true (with_kill c (kill_update u)) dl now false = (now', false) ->
  now' <= (u - epoch0_unix) * 1000000000.
Proof.
  intros Hu H. apply wait_not_closing_not_after_kill in H.
  unfold kill_passed, with_kill in H. cbn [k_kill] in H. rewrite (kill_update_stores u Hu) in H. lia.
Qed.

Lemma kill_update_passed_closes c u dl now :
  u <> 0 -> (u - epoch0_unix) * 1000000000 < now -> k_work c = None ->
  wait_step true (with_kill c (kill_update u)) dl now false = (now, true).
Proof.
  intros Hu Hp Hw. rewrite wait_step_spec. unfold after_work, eff_work, with_kill. cbn [k_work]. rewrite Hw.
  unfold kill_passed. cbn [k_kill]. rewrite (kill_update_stores u Hu).
  replace ((u - epoch0_unix) * 1000000000 <? now) with true by lia. reflexivity.
Qed.
