(* Proofs/Group.v -- lemmas about Model/Group.v (C17). *)
From XMT Require Import Base.Prelude Model.Group.
From Coq Require Import ZifyBool Permutation Sorted.
Ltac Zify.zify_post_hook ::= Z.div_mod_to_equations.

(* ---- zrange ------------------------------------------------------------- *)
Lemma in_zrange n i : In i (zrange n) <-> 0 <= i < n.
Proof.
  unfold zrange. rewrite in_map_iff. split.
  - intros [k [<- H]]. apply in_seq in H. lia.
  - intros H. exists (Z.to_nat i). split; [lia|]. apply in_seq. lia.
Qed.
Lemma zrange_length n : length (zrange n) = Z.to_nat n.
Proof. unfold zrange. now rewrite map_length, seq_length. Qed.
Lemma zrange_nodup n : NoDup (zrange n).
Proof.
  unfold zrange. apply FinFun.Injective_map_NoDup; [|apply seq_NoDup].
  intros a b H. lia.
Qed.

(* ---- the round-robin loop ------------------------------------------------ *)
Definition zseq (a k : nat) : list Z := map Z.of_nat (seq a k).

Lemma rr_loop_found a k c : c < Z.of_nat a ->
  rr_loop (zseq a k) c true = match k with O => (None, true) | S _ => (Some (Z.of_nat a), true) end.
Proof.
  intros H. destruct k; [reflexivity|]. unfold zseq. cbn [seq map rr_loop].
  replace (Z.of_nat a =? c) with false by lia. reflexivity.
Qed.

Lemma rr_loop_in k : forall a c, Z.of_nat a <= c < Z.of_nat a + Z.of_nat k ->
  rr_loop (zseq a k) c false =
  if c + 1 <? Z.of_nat a + Z.of_nat k then (Some (c + 1), true) else (None, true).
Proof.
  induction k; intros a c H; [lia|].
  unfold zseq. cbn [seq map rr_loop]. fold (zseq (S a) k).
  destruct (Z.of_nat a =? c) eqn:E.
  - rewrite rr_loop_found by lia. destruct k.
    + replace (c + 1 <? Z.of_nat a + Z.of_nat 1) with false by lia. reflexivity.
    + replace (c + 1 <? Z.of_nat a + Z.of_nat (S (S k))) with true by lia.
      f_equal. f_equal. lia.
  - rewrite IHk by lia.
    replace (Z.of_nat (S a) + Z.of_nat k) with (Z.of_nat a + Z.of_nat (S k)) by lia. reflexivity.
Qed.

Lemma rr_loop_out k : forall a c, ~ (Z.of_nat a <= c < Z.of_nat a + Z.of_nat k) ->
  rr_loop (zseq a k) c false = (None, false).
Proof.
  induction k; intros a c H; [reflexivity|].
  unfold zseq. cbn [seq map rr_loop]. fold (zseq (S a) k).
  replace (Z.of_nat a =? c) with false by lia. apply IHk. lia.
Qed.

Definition succ_mod (n c : Z) : Z := if c + 1 <? n then c + 1 else 0.
Lemma succ_mod_mod n c : 0 <= c < n -> succ_mod n c = (c + 1) mod n.
Proof.
  unfold succ_mod. intros H. destruct (c + 1 <? n) eqn:E.
  - rewrite Z.mod_small; lia.
  - replace (c + 1) with n by lia. now rewrite Z_mod_same_full.
Qed.

Lemma rr_advance_in n c : 0 <= c < n ->
  rr_advance n c = (Some (succ_mod n c), negb (n =? 1)).
Proof.
  intros H. unfold rr_advance, zrange. fold (zseq 0 (Z.to_nat n)).
  rewrite rr_loop_in by lia. unfold succ_mod.
  replace (Z.of_nat 0 + Z.of_nat (Z.to_nat n)) with n by lia.
  destruct (c + 1 <? n) eqn:E.
  - replace (n =? 1) with false by lia. reflexivity.
  - cbn [andb]. destruct (c =? 0) eqn:E0.
    + replace (n =? 1) with true by lia. cbn [negb]. f_equal. f_equal. lia.
    + replace (n =? 1) with false by lia. reflexivity.
Qed.

Lemma rr_advance_out n c : ~ (0 <= c < n) -> rr_advance n c = (Some 0, true).
Proof.
  intros H. unfold rr_advance, zrange. fold (zseq 0 (Z.to_nat n)).
  rewrite rr_loop_out by lia. reflexivity.
Qed.

(* ---- Switch: membership -------------------------------------------------- *)
Definition member (n : Z) (c : option Z) : Prop := exists i, c = Some i /\ 0 <= i < n.
Definition cur_ok (n : Z) (c : option Z) : Prop := c = None \/ member n c.
Definition is_random (sel : Z) : bool := (sel =? SelRandom) || (sel =? SelSemiRandom).

Lemma stay_none sel e g : stay sel None e g = false.
Proof. reflexivity. Qed.

Lemma switch_member sel n cur e g p :
  0 < n -> cur_ok n cur -> (is_random sel = true -> 0 <= p < n) ->
  member n (fst (switch sel n cur e g p)).
Proof.
  intros Hn Hc Hp. unfold switch. replace (n <=? 0) with false by lia.
  destruct (stay sel cur e g) eqn:Es.
  - destruct Hc as [->|Hc]; [discriminate|exact Hc].
  - fold (is_random sel). destruct (is_random sel) eqn:Er.
    + destruct (cur_eqb cur (Some p)) eqn:Ec; cbn [fst].
      * destruct cur as [c|]; [|discriminate]. cbn in Ec. exists c. split; [reflexivity|].
        specialize (Hp eq_refl). lia.
      * exists p. auto.
    + destruct cur as [c|].
      * destruct Hc as [Hc|[i [Hi Hr]]]; [discriminate|]. injection Hi as ->.
        rewrite rr_advance_in by lia. cbn [fst]. exists (succ_mod n i). split; [reflexivity|].
        unfold succ_mod. destruct (i + 1 <? n) eqn:E; lia.
      * cbn [fst]. exists 0. split; [reflexivity|lia].
Qed.

Lemma switch_no_entries sel n cur e g p : n <= 0 -> switch sel n cur e g p = (cur, false).
Proof. intros H. unfold switch. replace (n <=? 0) with true by lia. reflexivity. Qed.

(* the returned flag is exactly "the cursor changed" *)
Lemma cur_eqb_eq a b : cur_eqb a b = true <-> a = b.
Proof.
  destruct a, b; cbn; split; intros H; try discriminate; try reflexivity.
  - f_equal. lia.
  - injection H as ->. lia.
Qed.

Lemma switch_flag sel n cur e g p :
  cur_ok n cur -> snd (switch sel n cur e g p) = true <-> fst (switch sel n cur e g p) <> cur.
Proof.
  intros Hc. unfold switch. destruct (n <=? 0) eqn:En; [cbn; split; [discriminate|congruence]|].
  destruct (stay sel cur e g); [cbn; split; [discriminate|congruence]|].
  destruct ((sel =? SelRandom) || (sel =? SelSemiRandom)).
  - destruct (cur_eqb cur (Some p)) eqn:Ec; cbn [fst snd].
    + split; [discriminate|congruence].
    + split; [|reflexivity]. intros _ H. symmetry in H. apply cur_eqb_eq in H. congruence.
  - destruct cur as [c|]; [|cbn; split; [discriminate|reflexivity]].
    destruct Hc as [Hc|[i [Hi Hr]]]; [discriminate|]. injection Hi as ->.
    rewrite rr_advance_in by lia. cbn [fst snd]. unfold succ_mod.
    destruct (n =? 1) eqn:E1; cbn [negb].
    + split; [discriminate|]. intros H. exfalso. apply H. f_equal.
      destruct (i + 1 <? n) eqn:E; lia.
    + split; [|reflexivity]. intros _ H. injection H as H.
      destruct (i + 1 <? n) eqn:E; lia.
Qed.

(* ---- histories of Switch calls ------------------------------------------- *)
(* a step = (failed flag, gate draw, pick draw); a trace record = (cursor before, failed flag,
   cursor after, returned flag) *)
Definition sstep := (bool * Z * Z)%type.
Definition srec := (option Z * bool * option Z * bool)%type.
Fixpoint run_sw (sel n : Z) (cur : option Z) (steps : list sstep) : list srec :=
  match steps with
  | [] => []
  | (e, g, p) :: r =>
      let res := switch sel n cur e g p in
      (cur, e, fst res, snd res) :: run_sw sel n (fst res) r
  end.
Definition picks_ok (n : Z) (steps : list sstep) : Prop := Forall (fun s : sstep => 0 <= snd s < n) steps.
Definition r_before (r : srec) := fst (fst (fst r)).
Definition r_failed (r : srec) := snd (fst (fst r)).
Definition r_after (r : srec) := snd (fst r).
Definition r_flag (r : srec) := snd r.

Lemma run_sw_member sel n : 0 < n -> forall steps cur, cur_ok n cur -> picks_ok n steps ->
  Forall (fun r => member n (r_after r)) (run_sw sel n cur steps).
Proof.
  intros Hn. induction steps as [|[[e g] p] r IH]; intros cur Hc Hp; [constructor|].
  inversion Hp as [|x l Hx Hl]; subst. cbn [run_sw].
  assert (M : member n (fst (switch sel n cur e g p))) by (apply switch_member; auto).
  constructor; [exact M|]. apply IH; [right; exact M|exact Hl].
Qed.

Lemma run_sw_flag sel n : forall steps cur, 0 < n -> cur_ok n cur -> picks_ok n steps ->
  Forall (fun r => r_flag r = true <-> r_after r <> r_before r) (run_sw sel n cur steps).
Proof.
  induction steps as [|[[e g] p] r IH]; intros cur Hn Hc Hp; [constructor|].
  inversion Hp as [|x l Hx Hl]; subst. cbn [run_sw]. constructor.
  - unfold r_flag, r_after, r_before. cbn [fst snd]. apply switch_flag; exact Hc.
  - apply IH; auto. right. apply switch_member; auto.
Qed.

(* ---- last valid ----------------------------------------------------------- *)
Lemma last_valid_stays n c g p : switch SelLastValid n (Some c) false g p = (Some c, false).
Proof. unfold switch. destruct (n <=? 0); reflexivity. Qed.

Lemma semi_free_switch sel n c e g p :
  sel <> SelRandom -> sel <> SelSemiRandom -> stay sel (Some c) e g = false -> 0 < n ->
  switch sel n (Some c) e g p = rr_advance n c.
Proof.
  intros H1 H2 Hs Hn. unfold switch. replace (n <=? 0) with false by lia. rewrite Hs.
  replace (sel =? SelRandom) with false by lia. replace (sel =? SelSemiRandom) with false by lia.
  reflexivity.
Qed.

Lemma last_valid_failure n c g p : 0 <= c < n ->
  switch SelLastValid n (Some c) true g p = (Some ((c + 1) mod n), negb (n =? 1)).
Proof.
  intros H. rewrite semi_free_switch; try (unfold SelLastValid, SelRandom, SelSemiRandom; lia); [|reflexivity].
  rewrite rr_advance_in by lia. now rewrite succ_mod_mod.
Qed.

Lemma run_last_valid n : forall steps cur,
  Forall (fun r => r_before r <> None -> r_after r <> r_before r -> r_failed r = true)
         (run_sw SelLastValid n cur steps).
Proof.
  induction steps as [|[[e g] p] r IH]; intros cur; [constructor|].
  cbn [run_sw]. constructor; [|apply IH].
  unfold r_before, r_after, r_failed. cbn [fst snd]. intros Hb Ha.
  destruct e; [reflexivity|]. destruct cur as [c|]; [|congruence].
  rewrite last_valid_stays in Ha. cbn in Ha. congruence.
Qed.

(* ---- round robin ---------------------------------------------------------- *)
(* "no selector" (0) and the round-robin selector run the same code path; stated for both *)
Definition plain_rr (sel : Z) : Prop := sel = SelRoundRobin \/ sel = 0.

Lemma stay_plain sel cur e g : plain_rr sel -> stay sel cur e g = false.
Proof. intros [->| ->]; destruct cur, e; reflexivity. Qed.

Lemma switch_rr sel n c e g p : plain_rr sel -> 0 <= c < n ->
  switch sel n (Some c) e g p = (Some ((c + 1) mod n), negb (n =? 1)).
Proof.
  intros Hs H. rewrite semi_free_switch; try lia.
  - rewrite rr_advance_in by lia. now rewrite succ_mod_mod.
  - destruct Hs as [->| ->]; unfold SelRoundRobin, SelRandom; lia.
  - destruct Hs as [->| ->]; unfold SelRoundRobin, SelSemiRandom; lia.
  - now apply stay_plain.
Qed.

Lemma switch_rr_first sel n e g p : plain_rr sel -> 0 < n -> switch sel n None e g p = (Some 0, true).
Proof.
  intros Hs Hn. unfold switch. replace (n <=? 0) with false by lia. cbn [stay is_some andb].
  destruct Hs as [->| ->]; reflexivity.
Qed.

(* cursor after the k-th of a run of switches that starts at position c *)
Lemma run_rr_closed sel n : plain_rr sel -> 0 < n -> forall steps c k0, 0 <= c < n -> 0 <= k0 ->
  map r_after (run_sw sel n (Some ((c + k0) mod n)) steps) =
  map (fun k => Some ((c + k0 + Z.of_nat k) mod n)) (seq 1 (length steps)).
Proof.
  intros Hs Hn. induction steps as [|[[e g] p] r IH]; intros c k0 Hc Hk; [reflexivity|].
  cbn [run_sw length]. rewrite switch_rr by (auto; lia). cbn [fst snd map seq].
  unfold r_after at 1. cbn [fst snd]. f_equal.
  - f_equal. rewrite Z.add_mod_idemp_l by lia. f_equal.
  - replace (((c + k0) mod n + 1) mod n) with ((c + (k0 + 1)) mod n)
      by (rewrite Z.add_mod_idemp_l by lia; f_equal; lia).
    rewrite IH by lia. rewrite <- (seq_shift (length r) 1), map_map. apply map_ext. intros a. f_equal. f_equal. lia.
Qed.

Lemma run_rr_from sel n steps c : plain_rr sel -> 0 <= c < n ->
  map r_after (run_sw sel n (Some c) steps) =
  map (fun k => Some ((c + Z.of_nat k) mod n)) (seq 1 (length steps)).
Proof.
  intros Hs Hc. pose proof (run_rr_closed sel n Hs ltac:(lia) steps c 0 Hc ltac:(lia)) as H.
  rewrite Z.add_0_r, Z.mod_small in H by lia. rewrite H. reflexivity.
Qed.

Lemma run_rr_from_nil sel n steps : plain_rr sel -> 0 < n ->
  map r_after (run_sw sel n None steps) =
  map (fun k => Some (Z.of_nat k mod n)) (seq 0 (length steps)).
Proof.
  intros Hs Hn. destruct steps as [|[[e g] p] r]; [reflexivity|].
  cbn [run_sw length seq map]. rewrite switch_rr_first by auto. cbn [fst snd].
  unfold r_after at 1. cbn [fst snd]. change (Z.of_nat 0) with 0. rewrite Z.mod_0_l by lia. f_equal.
  rewrite run_rr_from by (auto; lia). apply map_ext. intros a. do 2 f_equal.
Qed.

Lemma NoDup_map_inj_in {A B} (f : A -> B) l :
  (forall x y, In x l -> In y l -> f x = f y -> x = y) -> NoDup l -> NoDup (map f l).
Proof.
  induction l as [|a l IH]; intros Hi Hn; [constructor|].
  inversion Hn; subst. cbn [map]. constructor.
  - intros H. apply in_map_iff in H. destruct H as [y [Hy Hin]].
    assert (y = a) by (apply Hi; [right; auto|left; auto|auto]). subst. contradiction.
  - apply IH; auto. intros x y Hx Hy. apply Hi; right; auto.
Qed.

(* n consecutive round-robin switches visit every entry exactly once, in cyclic order *)
Lemma rr_visits_all sel n steps c : plain_rr sel -> 0 <= c < n -> length steps = Z.to_nat n ->
  Permutation (map r_after (run_sw sel n (Some c) steps)) (map Some (zrange n)).
Proof.
  intros Hs Hc Hl. rewrite run_rr_from by auto. rewrite Hl.
  replace (map (fun k => Some ((c + Z.of_nat k) mod n)) (seq 1 (Z.to_nat n)))
    with (map Some (map (fun k => (c + Z.of_nat k) mod n) (seq 1 (Z.to_nat n)))) by (now rewrite map_map).
  apply Permutation_map. apply NoDup_Permutation_bis.
  - apply NoDup_map_inj_in; [|apply seq_NoDup].
    intros x y Hx Hy H. apply in_seq in Hx. apply in_seq in Hy.
    pose proof (Z.div_mod (c + Z.of_nat x) n ltac:(lia)) as D1.
    pose proof (Z.div_mod (c + Z.of_nat y) n ltac:(lia)) as D2.
    rewrite H in D1.
    assert ((c + Z.of_nat x) / n = (c + Z.of_nat y) / n) by nia. lia.
  - rewrite map_length, seq_length, zrange_length. lia.
  - intros x Hx. apply in_map_iff in Hx. destruct Hx as [k [<- _]]. apply in_zrange.
    apply Z.mod_pos_bound. lia.
Qed.

(* ---- the semi variants ---------------------------------------------------- *)
Lemma semi_rr n cur e g p :
  switch SelSemiRoundRobin n cur e g p =
  if is_some cur && negb (g =? 0) then (cur, false) else switch SelRoundRobin n cur e g p.
Proof.
  unfold switch. destruct (n <=? 0); [destruct (is_some cur && negb (g =? 0)); reflexivity|].
  destruct cur as [c|]; [|reflexivity]. destruct e; cbn [stay is_some andb negb orb];
  change (SelSemiRoundRobin =? SelLastValid) with false; change (SelSemiRoundRobin =? SelSemiLastValid) with false;
  change (SelSemiRoundRobin =? SelSemiRandom) with false; change (SelSemiRoundRobin =? SelSemiRoundRobin) with true;
  change (SelSemiRoundRobin =? SelRandom) with false; change (SelRoundRobin =? SelLastValid) with false;
  change (SelRoundRobin =? SelSemiLastValid) with false; change (SelRoundRobin =? SelSemiRandom) with false;
  change (SelRoundRobin =? SelSemiRoundRobin) with false; change (SelRoundRobin =? SelRandom) with false;
  cbn [andb orb]; destruct (g =? 0); reflexivity.
Qed.

Lemma semi_random n cur e g p :
  switch SelSemiRandom n cur e g p =
  if is_some cur && negb (g =? 0) then (cur, false) else switch SelRandom n cur e g p.
Proof.
  unfold switch. destruct (n <=? 0); [destruct (is_some cur && negb (g =? 0)); reflexivity|].
  destruct cur as [c|]; [|reflexivity]. destruct e; cbn [stay is_some andb negb orb];
  change (SelSemiRandom =? SelLastValid) with false; change (SelSemiRandom =? SelSemiLastValid) with false;
  change (SelSemiRandom =? SelSemiRandom) with true; change (SelSemiRandom =? SelSemiRoundRobin) with false;
  change (SelSemiRandom =? SelRandom) with false; change (SelRandom =? SelLastValid) with false;
  change (SelRandom =? SelSemiLastValid) with false; change (SelRandom =? SelSemiRandom) with false;
  change (SelRandom =? SelSemiRoundRobin) with false; change (SelRandom =? SelRandom) with true;
  cbn [andb orb]; destruct (g =? 0); reflexivity.
Qed.

(* semi-last-valid: like last-valid, except that on a non-failure a zero gate draw is treated
   as a failure *)
Lemma semi_last_valid n cur e g p :
  switch SelSemiLastValid n cur e g p = switch SelLastValid n cur (e || (g =? 0)) g p.
Proof.
  unfold switch. destruct (n <=? 0); [reflexivity|].
  destruct cur as [c|]; [|reflexivity]. destruct e; cbn [stay is_some andb negb orb];
  change (SelSemiLastValid =? SelLastValid) with false; change (SelSemiLastValid =? SelSemiLastValid) with true;
  change (SelSemiLastValid =? SelSemiRandom) with false; change (SelSemiLastValid =? SelSemiRoundRobin) with false;
  change (SelSemiLastValid =? SelRandom) with false; change (SelLastValid =? SelLastValid) with true;
  change (SelLastValid =? SelSemiLastValid) with false; change (SelLastValid =? SelSemiRandom) with false;
  change (SelLastValid =? SelSemiRoundRobin) with false; change (SelLastValid =? SelRandom) with false;
  cbn [andb orb]; destruct (g =? 0); reflexivity.
Qed.

(* ---- random ---------------------------------------------------------------- *)
Lemma random_picks n cur e g p : 0 < n ->
  fst (switch SelRandom n cur e g p) = Some p \/ fst (switch SelRandom n cur e g p) = cur /\ cur = Some p.
Proof.
  intros Hn. unfold switch. replace (n <=? 0) with false by lia.
  replace (stay SelRandom cur e g) with false by (destruct cur, e; reflexivity).
  change ((SelRandom =? SelRandom) || (SelRandom =? SelSemiRandom)) with true. cbn match.
  destruct (cur_eqb cur (Some p)) eqn:E; cbn [fst]; [right|left; reflexivity].
  apply cur_eqb_eq in E. auto.
Qed.

Lemma random_exact n cur e g p : 0 < n -> fst (switch SelRandom n cur e g p) = Some p.
Proof. intros Hn. destruct (random_picks n cur e g p Hn) as [H|[H1 H2]]; congruence. Qed.

(* ---- single entry ----------------------------------------------------------- *)
Lemma single_entry sel e g p : 0 <= p < 1 -> switch sel 1 (Some 0) e g p = (Some 0, false).
Proof.
  intros Hp. assert (p = 0) by lia. subst p. unfold switch. cbn [Z.leb Z.compare].
  destruct (stay sel (Some 0) e g); [reflexivity|].
  destruct ((sel =? SelRandom) || (sel =? SelSemiRandom)); reflexivity.
Qed.

Lemma run_single sel : forall steps, picks_ok 1 steps ->
  Forall (fun r => r_after r = Some 0 /\ r_flag r = false) (run_sw sel 1 (Some 0) steps).
Proof.
  induction steps as [|[[e g] p] r IH]; intros Hp; [constructor|].
  inversion Hp as [|x l Hx Hl]; subst. cbn [snd] in Hx. cbn [run_sw].
  rewrite single_entry by lia. cbn [fst snd]. constructor; [split; reflexivity|]. apply IH. exact Hl.
Qed.

(* ---- draw consumption: what switch_d reads is what switch uses ---------------- *)
Definition calls_ok (cs : list (Z * Z)) : Prop := Forall (fun c => 0 <= snd c < fst c) cs.

Lemma switch_d_member sel n cur e ds :
  0 < n -> cur_ok n cur -> calls_ok (switch_calls sel n cur e ds) ->
  member n (fst (switch_d sel n cur e ds)).
Proof.
  intros Hn Hc Hk. unfold switch_d. apply switch_member; auto.
  intros Hr. unfold switch_calls in Hk. unfold calls_ok in Hk. rewrite Forall_app in Hk. destruct Hk as [_ Hk].
  destruct (uses_pick sel n cur e (gate_of sel cur e ds)) eqn:Eu.
  - inversion Hk; subst. cbn [fst snd] in *. lia.
  - (* the pick is not used: then the switch stays or is not random; p is irrelevant, 0 is in range *)
    unfold pick_of. rewrite Eu. lia.
Qed.

(* ---- accessors follow the cursor ---------------------------------------------- *)
Lemma init_keeps sel n c ds : init_cur sel n (Some c) ds = Some c.
Proof. reflexivity. Qed.

Lemma init_member sel n cur ds :
  0 < n -> cur_ok n cur -> calls_ok (init_calls sel n cur ds) -> member n (init_cur sel n cur ds).
Proof.
  intros Hn Hc Hk. destruct cur as [c|].
  - destruct Hc as [Hc|Hc]; [discriminate|exact Hc].
  - cbn [init_cur]. apply switch_d_member; auto.
Qed.

Lemma current_member (ents : list entry) c : member (len ents) c -> exists en, current ents c = Some en.
Proof.
  intros [i [-> Hi]]. unfold current. replace (i <? 0) with false by lia.
  destruct (nth_error ents (Z.to_nat i)) eqn:E; [eauto|].
  apply nth_error_None in E. unfold len in Hi. lia.
Qed.

Definition is_accessor (o : op) : bool := match o with OSwitch _ => false | _ => true end.

Lemma accessor_reads_current sel ents cur o ds :
  is_accessor o = true -> 0 < len ents -> cur_ok (len ents) cur ->
  calls_ok (init_calls sel (len ents) cur ds) ->
  exists i en, step_cur sel ents cur o ds = Some i /\ 0 <= i < len ents /\
               nth_error ents (Z.to_nat i) = Some en /\
               (forall c, cur = Some c -> i = c) /\
               step_vals sel ents cur o ds = access en o (init_rest sel (len ents) cur ds).
Proof.
  intros Ha Hn Hc Hk.
  assert (M : member (len ents) (init_cur sel (len ents) cur ds)) by (apply init_member; auto).
  destruct (current_member ents _ M) as [en He]. destruct M as [i [Hi Hr]].
  exists i, en.
  assert (Hs : step_cur sel ents cur o ds = Some i) by (destruct o; try discriminate; exact Hi).
  split; [exact Hs|]. split; [exact Hr|]. split.
  - rewrite Hi in He. unfold current in He. replace (i <? 0) with false in He by lia. exact He.
  - split.
    + intros c ->. cbn in Hi. congruence.
    + destruct o; try discriminate; unfold step_vals; rewrite He; reflexivity.
Qed.

(* ---- cursor membership along full histories (switches and accessors mixed) ---- *)
Lemma step_member sel ents cur o ds :
  0 < len ents -> cur_ok (len ents) cur -> calls_ok (step_calls sel ents cur o ds) ->
  member (len ents) (step_cur sel ents cur o ds).
Proof.
  intros Hn Hc Hk. destruct o; cbn [step_cur];
    try (apply init_member; auto; unfold step_calls, calls_ok in Hk; rewrite Forall_app in Hk; apply Hk).
  apply switch_d_member; auto.
Qed.

Definition obs_cursor (o : obs) : Z := snd (fst o).
Definition obs_calls (o : obs) : list (Z * Z) := snd o.

Lemma run_member sel ents : 0 < len ents -> forall ops cur, cur_ok (len ents) cur ->
  Forall (fun o => calls_ok (obs_calls o)) (run sel ents cur ops) ->
  Forall (fun o => 0 <= obs_cursor o < len ents) (run sel ents cur ops).
Proof.
  intros Hn. induction ops as [|[o ds] r IH]; intros cur Hc Hk; [constructor|].
  cbn [run] in *. inversion Hk as [|x l Hx Hl]; subst. unfold obs_calls in Hx. cbn [snd] in Hx.
  assert (M : member (len ents) (step_cur sel ents cur o ds)) by (apply step_member; auto).
  constructor.
  - unfold obs_cursor. cbn [fst snd]. destruct M as [i [-> Hi]]. exact Hi.
  - apply IH; [right; exact M|exact Hl].
Qed.

(* ---- the weight order ----------------------------------------------------------- *)
Lemma nodupb_NoDup l : nodupb l = true -> NoDup l.
Proof.
  induction l as [|x r IH]; intros H; [constructor|].
  cbn [nodupb] in H. apply andb_true_iff in H. destruct H as [H1 H2]. constructor; [|auto].
  intros Hin. apply negb_true_iff in H1.
  assert (existsb (Z.eqb x) r = true) by (apply existsb_exists; exists x; split; [auto|lia]). congruence.
Qed.

Lemma desc_sorted_Sorted l : desc_sorted l = true -> Sorted Z.ge l.
Proof.
  induction l as [|x r IH]; intros H; [constructor|].
  cbn [desc_sorted] in H. destruct r as [|y r'].
  - constructor; constructor.
  - apply andb_true_iff in H. destruct H as [H1 H2]. constructor; [auto|]. constructor. lia.
Qed.

Lemma valid_order_spec ws order : valid_order ws order = true ->
  Permutation order (zrange (len ws)) /\ StronglySorted Z.ge (map (weight_at ws) order).
Proof.
  unfold valid_order. intros H.
  apply andb_true_iff in H. destruct H as [H Hsort].
  apply andb_true_iff in H. destruct H as [H Hnd].
  apply andb_true_iff in H. destruct H as [Hlen Hrng].
  split.
  - apply NoDup_Permutation_bis.
    + now apply nodupb_NoDup.
    + rewrite zrange_length. unfold len in *. lia.
    + intros x Hx. apply in_zrange. rewrite forallb_forall in Hrng. specialize (Hrng x Hx).
      unfold in_range in Hrng. lia.
  - apply Sorted_StronglySorted; [intros a b c; lia|]. now apply desc_sorted_Sorted.
Qed.

(* Group.Less is a strict weak order: what sort.Sort needs to return a sorted permutation *)
Lemma less_strict_weak ws :
  (forall i, less ws i i = false) /\
  (forall i j k, less ws i j = true -> less ws j k = true -> less ws i k = true) /\
  (forall i j k, less ws i j = false -> less ws j i = false ->
                 less ws j k = false -> less ws k j = false ->
                 less ws i k = false /\ less ws k i = false).
Proof. unfold less. repeat split; intros; lia. Qed.

(* the reference sort produces a valid order, so the specification is satisfiable for every
   weight list *)
Lemma insert_desc_in ws i l x : In x (insert_desc ws i l) <-> x = i \/ In x l.
Proof.
  induction l as [|j r IH]; cbn [insert_desc]; [cbn; intuition|].
  destruct (weight_at ws j <? weight_at ws i); cbn [In]; [intuition|]. rewrite IH. intuition.
Qed.
Lemma insert_desc_length ws i l : length (insert_desc ws i l) = S (length l).
Proof.
  induction l as [|j r IH]; cbn [insert_desc]; [reflexivity|].
  destruct (weight_at ws j <? weight_at ws i); cbn [length]; lia.
Qed.
Lemma insert_desc_nodup ws i l : ~ In i l -> NoDup l -> NoDup (insert_desc ws i l).
Proof.
  induction l as [|j r IH]; intros Hi Hn; cbn [insert_desc]; [constructor; auto|].
  destruct (weight_at ws j <? weight_at ws i); [constructor; auto|].
  inversion Hn; subst. constructor.
  - rewrite insert_desc_in. cbn [In] in Hi. intuition.
  - apply IH; auto. cbn [In] in Hi. intuition.
Qed.
Lemma insert_desc_sorted ws i l :
  desc_sorted (map (weight_at ws) l) = true -> desc_sorted (map (weight_at ws) (insert_desc ws i l)) = true.
Proof.
  induction l as [|j r IH]; intros H; [reflexivity|].
  cbn [insert_desc]. destruct (weight_at ws j <? weight_at ws i) eqn:E.
  - cbn [map desc_sorted] in *. rewrite H. replace (weight_at ws j <=? weight_at ws i) with true by lia. reflexivity.
  - cbn [map] in *. destruct r as [|k r'].
    + cbn. replace (weight_at ws i <=? weight_at ws j) with true by lia. reflexivity.
    + cbn [desc_sorted map] in H. apply andb_true_iff in H. destruct H as [H1 H2].
      specialize (IH H2). cbn [insert_desc] in *.
      destruct (weight_at ws k <? weight_at ws i) eqn:E2; cbn [map desc_sorted] in *.
      * rewrite IH. replace (weight_at ws i <=? weight_at ws j) with true by lia. reflexivity.
      * rewrite IH. rewrite H1. reflexivity.
Qed.

Lemma sort_desc_aux ws l : NoDup l ->
  let s := fold_right (insert_desc ws) [] l in
  NoDup s /\ length s = length l /\ (forall x, In x s <-> In x l) /\ desc_sorted (map (weight_at ws) s) = true.
Proof.
  induction l as [|a l IH]; intros Hn; cbn [fold_right].
  - repeat split; auto; constructor.
  - inversion Hn; subst. destruct (IH H2) as [A [B [C D]]]. repeat split.
    + apply insert_desc_nodup; auto. rewrite C. auto.
    + rewrite insert_desc_length. cbn. lia.
    + rewrite insert_desc_in. cbn [In]. rewrite C. intuition.
    + rewrite insert_desc_in. cbn [In]. rewrite C. intuition.
    + apply insert_desc_sorted; auto.
Qed.

Lemma NoDup_nodupb l : NoDup l -> nodupb l = true.
Proof.
  induction 1 as [|x r Hx Hn IH]; [reflexivity|]. cbn [nodupb]. rewrite IH, andb_true_r.
  apply negb_true_iff. destruct (existsb (Z.eqb x) r) eqn:E; [|reflexivity].
  apply existsb_exists in E. destruct E as [y [Hy Hxy]]. assert (x = y) by lia. subst. contradiction.
Qed.

Lemma sort_desc_valid ws : valid_order ws (sort_desc ws) = true.
Proof.
  unfold valid_order, sort_desc.
  destruct (sort_desc_aux ws (zrange (len ws)) (zrange_nodup _)) as [A [B [C D]]].
  repeat (apply andb_true_iff; split); auto.
  - unfold len at 1. rewrite B, zrange_length. unfold len. lia.
  - apply forallb_forall. intros x Hx. apply C in Hx. apply in_zrange in Hx. unfold in_range. lia.
  - now apply NoDup_nodupb.
Qed.

(* the selector that takes effect is the last one named by any group *)
Lemma effective_sel_app sels s : 0 < s -> effective_sel (sels ++ [s]) = s.
Proof.
  intros H. unfold effective_sel. rewrite fold_left_app. cbn [fold_left].
  replace (0 <? s) with true by lia. reflexivity.
Qed.
Lemma effective_sel_skip sels : effective_sel (sels ++ [0]) = effective_sel sels.
Proof. unfold effective_sel. rewrite fold_left_app. reflexivity. Qed.

(* ---- the consumer (Session.listen): what the session holds is the active group's ---------- *)
(* the session's wrapper and transform are those of the entry under the cursor; its host is one
   of that entry's hosts whenever the entry names any (-2 marks a host draw outside the range
   FastRandN promises) *)
Definition held_ok (ents : list entry) (st : option Z * held) : Prop :=
  exists i en, fst st = Some i /\ 0 <= i < len ents /\ nth_error ents (Z.to_nat i) = Some en /\
               h_wrap (snd st) = e_wrap en /\ h_trans (snd st) = e_trans en /\
               (e_hosts en <> [] -> In (h_host (snd st)) (e_hosts en) \/ h_host (snd st) = -2).

Lemma host_pick_in hosts ds : hosts <> [] -> In (host_pick hosts ds) hosts \/ host_pick hosts ds = -2.
Proof.
  intros H. unfold host_pick. destruct hosts as [|a [|b r]]; [congruence | left; left; reflexivity |].
  destruct (nth_in_or_default (Z.to_nat (fst (take_draw ds))) (a :: b :: r) (-2)); auto.
Qed.

Lemma host_pick_none ds : host_pick [] ds = -1.
Proof. reflexivity. Qed.

Lemma host_pick_not_m1 hosts ds : (forall h, In h hosts -> 0 <= h) -> hosts <> [] -> host_pick hosts ds <> -1.
Proof.
  intros Hh Hn. destruct (host_pick_in hosts ds Hn) as [Hi | ->]; [|lia].
  specialize (Hh _ Hi). lia.
Qed.

Definition hosts_ok (ents : list entry) : Prop :=
  forall en, In en ents -> forall h, In h (e_hosts en) -> 0 <= h.

(* taking Next's answer of an entry *)
Lemma take_next_entry ents hd i en ds :
  hosts_ok ents -> 0 <= i < len ents -> nth_error ents (Z.to_nat i) = Some en ->
  held_ok ents (Some i, take_next hd (access en ONext ds)) /\
  (e_hosts en = [] -> h_host (take_next hd (access en ONext ds)) = h_host hd).
Proof.
  intros Hh Hi He. cbn [access take_next]. split.
  - exists i, en. cbn [fst snd h_wrap h_trans h_host]. repeat split; auto; try lia.
    intros Hn. pose proof (host_pick_not_m1 (e_hosts en) ds (Hh en (nth_error_In _ _ He)) Hn) as Hm.
    replace (host_pick (e_hosts en) ds =? -1) with false by lia. apply host_pick_in. exact Hn.
  - intros ->. reflexivity.
Qed.

Lemma consumer_enter_ok sel ents hd ds :
  hosts_ok ents -> 0 < len ents -> calls_ok (init_calls sel (len ents) None ds) ->
  held_ok ents (consumer_enter sel ents hd ds).
Proof.
  intros Hh Hn Hk. unfold consumer_enter.
  destruct (accessor_reads_current sel ents None ONext ds eq_refl Hn (or_introl eq_refl) Hk)
    as (i & en & Hs & Hi & He & _ & Hv).
  rewrite Hs, Hv. apply take_next_entry; assumption.
Qed.

Lemma switch_d_false_keeps sel n cur e ds :
  cur_ok n cur -> snd (switch_d sel n cur e ds) = false -> fst (switch_d sel n cur e ds) = cur.
Proof.
  intros Hc Hf. unfold switch_d in *.
  pose proof (switch_flag sel n cur e (gate_of sel cur e ds) (pick_of sel n cur e ds) Hc) as [_ H].
  destruct (fst (switch sel n cur e (gate_of sel cur e ds) (pick_of sel n cur e ds))) as [a|] eqn:Ea,
           cur as [b|] eqn:Eb; try reflexivity.
  - destruct (Z.eq_dec a b) as [->|N]; [reflexivity|]. rewrite H in Hf; [discriminate | congruence].
  - rewrite H in Hf; [discriminate | congruence].
  - rewrite H in Hf; [discriminate | congruence].
Qed.

Lemma held_ok_cur_ok ents st : held_ok ents st -> cur_ok (len ents) (fst st).
Proof. intros (i & en & Hc & Hi & _). right. exists i. auto. Qed.

(* one pass keeps the invariant: a Switch that returns false leaves cursor and holdings alone, one
   that returns true is followed by Next on the new entry *)
Lemma consumer_pass_ok sel ents st e ds1 ds2 :
  hosts_ok ents -> 0 < len ents -> held_ok ents st ->
  calls_ok (switch_calls sel (len ents) (fst st) e ds1) ->
  held_ok ents (consumer_pass sel ents st e ds1 ds2).
Proof.
  intros Hh Hn Hok Hk. pose proof (held_ok_cur_ok ents st Hok) as Hc.
  unfold consumer_pass. cbv zeta.
  change (step_cur sel ents (fst st) (OSwitch e) ds1) with (fst (switch_d sel (len ents) (fst st) e ds1)).
  destruct (snd (switch_d sel (len ents) (fst st) e ds1)) eqn:Fl.
  - pose proof (switch_d_member sel (len ents) (fst st) e ds1 Hn Hc Hk) as M.
    destruct M as (j & Hj & Hjr).
    assert (Hc1 : cur_ok (len ents) (fst (switch_d sel (len ents) (fst st) e ds1))) by (right; exists j; auto).
    assert (Hk1 : calls_ok (init_calls sel (len ents) (fst (switch_d sel (len ents) (fst st) e ds1)) ds2))
      by (rewrite Hj; constructor).
    destruct (accessor_reads_current sel ents _ ONext ds2 eq_refl Hn Hc1 Hk1) as (i & en & Hs & Hi & He & _ & Hv).
    rewrite Hs, Hv. apply take_next_entry; assumption.
  - rewrite (switch_d_false_keeps sel (len ents) (fst st) e ds1 Hc Fl).
    destruct st as [c hd]. exact Hok.
Qed.

(* which passes have in-range draws: checked against the cursor the pass starts with *)
Fixpoint passes_ok (sel : Z) (ents : list entry) (st : option Z * held) (ps : list pass) : Prop :=
  match ps with
  | [] => True
  | p :: r => calls_ok (switch_calls sel (len ents) (fst st) (ps_e p) (ps_ds1 p)) /\
              passes_ok sel ents (consumer_pass sel ents st (ps_e p) (ps_ds1 p) (ps_ds2 p)) r
  end.

(* the states after each pass *)
Fixpoint consumer_states (sel : Z) (ents : list entry) (st : option Z * held) (ps : list pass)
  : list (option Z * held) :=
  match ps with
  | [] => []
  | p :: r => let st1 := consumer_pass sel ents st (ps_e p) (ps_ds1 p) (ps_ds2 p) in
              st1 :: consumer_states sel ents st1 r
  end.

Lemma consumer_states_ok sel ents : hosts_ok ents -> 0 < len ents ->
  forall ps st, held_ok ents st -> passes_ok sel ents st ps ->
  Forall (held_ok ents) (consumer_states sel ents st ps).
Proof.
  intros Hh Hn. induction ps as [|p r IH]; intros st Hok Hp; [constructor|].
  cbn [consumer_states]. destruct Hp as [Hk Hr].
  pose proof (consumer_pass_ok sel ents st (ps_e p) (ps_ds1 p) (ps_ds2 p) Hh Hn Hok Hk) as H1.
  constructor; [exact H1 | apply IH; assumption].
Qed.

(* the events the correspondence run compares are exactly the Connects at these states *)
Lemma consumer_passes_events sel ents : forall ps st,
  fst (consumer_passes sel ents st ps) = map (connect_event sel ents) (consumer_states sel ents st ps).
Proof.
  induction ps as [|p r IH]; intros st; [reflexivity|].
  cbn [consumer_passes consumer_states map].
  specialize (IH (consumer_pass sel ents st (ps_e p) (ps_ds1 p) (ps_ds2 p))).
  destruct (consumer_passes sel ents (consumer_pass sel ents st (ps_e p) (ps_ds1 p) (ps_ds2 p)) r) as [evs stf].
  cbn [fst] in *. rewrite IH. reflexivity.
Qed.

(* a Connect in a good state goes through the active entry's connector *)
Lemma connect_event_active sel ents st :
  held_ok ents st ->
  exists en, current ents (fst st) = Some en /\
    connect_event sel ents st = [e_conn en; h_host (snd st); e_wrap en; e_trans en].
Proof.
  intros (i & en & Hc & Hi & He & Hw & Ht & _). exists en.
  assert (Hcur : current ents (fst st) = Some en).
  { rewrite Hc. unfold current. replace (i <? 0) with false by lia. exact He. }
  split; [exact Hcur|].
  unfold connect_event, step_vals. rewrite Hc. cbn [init_cur]. rewrite <- Hc, Hcur.
  cbn [access app]. rewrite Hw, Ht. reflexivity.
Qed.

(* a host-less group keeps the host the session has *)
Lemma consumer_pass_hostless sel ents st e ds1 ds2 en :
  hosts_ok ents -> 0 < len ents -> held_ok ents st ->
  calls_ok (switch_calls sel (len ents) (fst st) e ds1) ->
  current ents (fst (consumer_pass sel ents st e ds1 ds2)) = Some en -> e_hosts en = [] ->
  h_host (snd (consumer_pass sel ents st e ds1 ds2)) = h_host (snd st).
Proof.
  intros Hh Hn Hok Hk. pose proof (held_ok_cur_ok ents st Hok) as Hc.
  unfold consumer_pass. cbv zeta.
  change (step_cur sel ents (fst st) (OSwitch e) ds1) with (fst (switch_d sel (len ents) (fst st) e ds1)).
  destruct (snd (switch_d sel (len ents) (fst st) e ds1)) eqn:Fl; [|reflexivity].
  pose proof (switch_d_member sel (len ents) (fst st) e ds1 Hn Hc Hk) as (j & Hj & Hjr).
  assert (Hc1 : cur_ok (len ents) (fst (switch_d sel (len ents) (fst st) e ds1))) by (right; exists j; auto).
  assert (Hk1 : calls_ok (init_calls sel (len ents) (fst (switch_d sel (len ents) (fst st) e ds1)) ds2))
    by (rewrite Hj; constructor).
  destruct (accessor_reads_current sel ents _ ONext ds2 eq_refl Hn Hc1 Hk1) as (i & en' & Hs & Hi & He & _ & Hv).
  rewrite Hs, Hv. cbn [fst snd]. intros Hcur Hnil.
  unfold current in Hcur. replace (i <? 0) with false in Hcur by lia. rewrite He in Hcur. injection Hcur as ->.
  apply (proj2 (take_next_entry ents (snd st) i en _ Hh Hi He)). exact Hnil.
Qed.

(* ---- a failed attempt IS reported: the converse of "last-valid moves only after a failure" ---- *)
Lemma failed_attempt_advances_last_valid n c g p o :
  attempt_failed o = true -> 0 <= c < n ->
  switch SelLastValid n (Some c) (attempt_failed o) g p = (Some ((c + 1) mod n), negb (n =? 1)).
Proof.
  intros Hf Hc. rewrite Hf. unfold switch, stay. replace (n <=? 0) with false by lia.
  cbn [is_some negb andb orb]. change (SelLastValid =? SelLastValid) with true.
  change (SelLastValid =? SelSemiLastValid) with false. change (SelLastValid =? SelSemiRandom) with false.
  change (SelLastValid =? SelSemiRoundRobin) with false. change (SelLastValid =? SelRandom) with false.
  cbn [andb orb]. rewrite rr_advance_in by lia. rewrite <- succ_mod_mod by lia. reflexivity.
Qed.

Lemma expected_flags_spec outs k o :
  nth_error outs k = Some o -> nth_error (expected_flags outs) k = Some (fst o || snd o).
Proof. intros H. unfold expected_flags. rewrite nth_error_map, H. reflexivity. Qed.
