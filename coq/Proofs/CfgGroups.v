(* Proofs/CfgGroups.v -- C08: Groups() / Group(p) partition the bytes at the separators the walker
   meets, for ALL byte strings: the pieces Group(0) .. Group(Groups()-1), joined by the separator
   byte, are the config. *)
From XMT Require Import Base.Prelude Base.BitLemmas Model.Cfg Model.CfgSettings Proofs.Cfg.
From Coq Require Import ZifyBool.
Ltac Zify.zify_post_hook ::= Z.div_mod_to_equations.

(* the pieces the walker cuts, from offset e with the current piece starting at s *)
Fixpoint pieces (fuel : nat) (c : list Z) (e s : Z) : list (list Z) :=
  match fuel with
  | O => [drop s c]
  | S f =>
    if (0 <=? e) && (e <? len c) then
      match next c e with
      | Ok r => if (nz c e =? Separator) && negb (e =? 0)
                then take (e - s) (drop s c) :: pieces f c r (e + 1)
                else pieces f c r s
      | _ => [drop s c]
      end
    else [drop s c]
  end.

Lemma pieces_nonempty fuel c : forall e s, pieces fuel c e s <> [].
Proof.
  induction fuel as [|f IH]; intros e s; cbn [pieces]; [discriminate|].
  destruct ((0 <=? e) && (e <? len c)); [|discriminate].
  destruct (next c e); try discriminate.
  destruct ((nz c e =? Separator) && negb (e =? 0)); [discriminate|apply IH].
Qed.

Lemma join_sep_cons_ne x l : l <> [] -> join_sep (x :: l) = x ++ Separator :: join_sep l.
Proof. destruct l; [congruence|reflexivity]. Qed.

Lemma drop_drop {A} (l : list A) a b : 0 <= a -> 0 <= b -> drop a (drop b l) = drop (b + a) l.
Proof.
  intros Ha Hb. unfold drop. replace (Z.to_nat (b + a)) with (Z.to_nat b + Z.to_nat a)%nat by lia.
  generalize (Z.to_nat a) as x. generalize (Z.to_nat b) as y. clear. intros y. revert l.
  induction y as [|y IH]; intros l x; [reflexivity|]. destruct l as [|h l]; cbn [skipn Nat.add]; [destruct x; reflexivity|apply IH].
Qed.

Lemma drop_nz c e : 0 <= e < len c -> drop e c = nz c e :: drop (e + 1) c.
Proof.
  intros H. unfold drop, nz, len in *. replace (Z.to_nat (e + 1)) with (S (Z.to_nat e)) by lia.
  assert (Hlt : (Z.to_nat e < length c)%nat) by lia. revert Hlt. generalize (Z.to_nat e) as m. clear.
  intros m. revert c. induction m as [|m IH]; intros c Hlt; destruct c as [|x c]; cbn [length] in *; try lia; [reflexivity|].
  cbn [skipn nth]. apply IH. lia.
Qed.

Lemma drop_split c s e : 0 <= s <= e -> e < len c -> drop s c = take (e - s) (drop s c) ++ nz c e :: drop (e + 1) c.
Proof.
  intros Hs He. rewrite <- (firstn_skipn (Z.to_nat (e - s)) (drop s c)) at 1. unfold take. f_equal.
  change (skipn (Z.to_nat (e - s)) (drop s c)) with (drop (e - s) (drop s c)).
  rewrite drop_drop by lia. replace (s + (e - s)) with e by lia. apply drop_nz. lia.
Qed.

Section Partition.
  Variable c : list Z.
  Hypothesis Hb : bytes c.

  Lemma pieces_join : forall fuel e s, 0 <= s <= len c -> (0 <= e < len c -> s <= e) ->
    join_sep (pieces fuel c e s) = drop s c.
  Proof.
    induction fuel as [|f IH]; intros e s Hs Hse; cbn [pieces]; [reflexivity|].
    destruct ((0 <=? e) && (e <? len c)) eqn:E; [|reflexivity].
    destruct (next_ok c e Hb ltac:(lia)) as [r [-> Hr]].
    destruct ((nz c e =? Separator) && negb (e =? 0)) eqn:E2.
    - rewrite join_sep_cons_ne by apply pieces_nonempty.
      rewrite IH by lia.
      transitivity (take (e - s) (drop s c) ++ nz c e :: drop (e + 1) c); [|symmetry; apply drop_split; lia].
      f_equal. f_equal. lia.
    - apply IH; lia.
  Qed.

  Lemma groups_loop_pieces : forall fuel e n s, ahead c e <= Z.of_nat fuel ->
    groups_loop fuel c e n = Ok (n + len (pieces fuel c e s)).
  Proof.
    induction fuel as [|f IH]; intros e n s Hf.
    - unfold ahead in Hf. destruct ((0 <=? e) && (e <? len c)) eqn:E; lia.
    - cbn [groups_loop pieces]. destruct ((0 <=? e) && (e <? len c)) eqn:E; [|reflexivity].
      rewrite idx_in by lia. rewrite bind_Ok.
      destruct (next_ok c e Hb ltac:(lia)) as [r [-> Hr]]. rewrite bind_Ok.
      pose proof (ahead_next c e r ltac:(lia) Hr).
      replace (0 <? e) with (negb (e =? 0)) by lia.
      destruct ((nz c e =? Separator) && negb (e =? 0)) eqn:E2.
      + rewrite (IH r (n + 1) (e + 1)) by lia. rewrite len_cons. f_equal. lia.
      + apply IH. lia.
  Qed.

  Lemma nth_cons_pos {A} (x : A) l d k : (0 < k)%nat -> nth k (x :: l) d = nth (k - 1) l d.
  Proof. destruct k; [lia|]. intros _. cbn [nth]. f_equal. lia. Qed.

  Lemma group_loop_pieces p : forall fuel e l s, ahead c e <= Z.of_nat fuel ->
    0 <= s <= len c -> (0 <= e < len c -> s <= e) -> 0 <= l -> (l = 0 <-> s = 0) ->
    l <= p < l + len (pieces fuel c e s) ->
    group_loop fuel c p e l s = Ok (nth (Z.to_nat (p - l)) (pieces fuel c e s) []).
  Proof.
    induction fuel as [|f IH]; intros e l s Hf Hs Hse Hl Hls Hp.
    - unfold ahead in Hf. destruct ((0 <=? e) && (e <? len c)) eqn:E; lia.
    - cbn [group_loop pieces] in *. destruct ((0 <=? e) && (e <? len c)) eqn:E.
      + rewrite idx_in by lia. rewrite bind_Ok.
        destruct (next_ok c e Hb ltac:(lia)) as [r [Hn Hr]]. rewrite Hn in *.
        pose proof (ahead_next c e r ltac:(lia) Hr).
        destruct (nz c e =? Separator) eqn:Es; cbn [andb] in *.
        * destruct (e =? 0) eqn:E0; cbn [negb] in *.
          { rewrite bind_Ok. apply IH; try lia. }
          rewrite len_cons in Hp.
          destruct ((p <=? 0) && (l =? 0)) eqn:E1.
          { assert (s = 0) by lia. subst s. replace (p - l) with 0 by lia. cbn [Z.to_nat nth].
            rewrite slice_in by lia. reflexivity. }
          destruct (p =? l) eqn:E2.
          { replace (p - l) with 0 by lia. cbn [Z.to_nat nth]. rewrite slice_in by lia. reflexivity. }
          rewrite bind_Ok. rewrite IH; try lia.
          rewrite nth_cons_pos by lia. f_equal. f_equal. lia.
        * rewrite bind_Ok. apply IH; try lia.
      + change (len [drop s c]) with 1 in Hp. replace (p - l) with 0 by lia. cbn [Z.to_nat nth].
        destruct ((0 <? l) && (0 <? s)) eqn:E1.
        { rewrite slice_in by lia. f_equal. apply firstn_all2. unfold drop, len in *. rewrite skipn_length. lia. }
        assert (l = 0) by lia. assert (s = 0) by lia. subst l s.
        replace ((p <=? 0) && (0 =? 0)) with true by lia. reflexivity.
  Qed.

  Theorem groups_partition_all : c <> [] ->
    let ps := pieces (S (length c)) c 0 0 in
    groups c = Ok (len ps)
    /\ (forall k, 0 <= k < len ps -> group c k = Ok (nth (Z.to_nat k) ps []))
    /\ join_sep ps = c.
  Proof.
    intros Hne. cbv zeta.
    assert (Hl : 0 < len c) by (destruct c; [congruence|rewrite len_cons; pose proof (len_nonneg l); lia]).
    assert (Ha : ahead c 0 <= Z.of_nat (S (length c))).
    { unfold ahead. replace ((0 <=? 0) && (0 <? len c)) with true by lia. unfold len. lia. }
    split; [|split].
    - unfold groups. replace (len c =? 0) with false by lia.
      rewrite (groups_loop_pieces (S (length c)) 0 0 0 Ha). f_equal.
    - intros k Hk. unfold group. replace (len c =? 0) with false by lia. replace (k =? -1) with false by lia.
      rewrite group_loop_pieces; try lia. f_equal. f_equal. f_equal. lia.
    - rewrite pieces_join by lia. reflexivity.
  Qed.
End Partition.
