(* Proofs/CfgSettings.v -- C08: what the public constructors of c2/cfg pack is what the parser
   (Model/Cfg.v) reads back.  next_enc (the stride of an encoded setting is its length, at every
   offset), build_step on an encoded setting = interp_step, build (pack ss) = interp, validate iff
   build on packed settings, Groups/Group partition the bytes, MarshalBinary is the source. *)
From XMT Require Import Base.Prelude Base.BitLemmas Model.Cfg Model.CfgSettings Proofs.Cfg.
From Coq Require Import ZifyBool.
Ltac Zify.zify_post_hook ::= Z.div_mod_to_equations.

(* ---- lists ------------------------------------------------------------------------------------ *)
Lemma len_take {A} (l : list A) n : 0 <= n <= len l -> len (take n l) = n.
Proof. intros H. unfold len, take in *. rewrite firstn_length. lia. Qed.
Lemma len_take_le {A} (l : list A) n : 0 <= n -> len (take n l) <= n.
Proof. intros H. unfold len, take in *. rewrite firstn_length. lia. Qed.
Lemma len_take_min {A} (l : list A) n : 0 <= n -> len (take n l) = Z.min n (len l).
Proof. intros H. unfold len, take in *. rewrite firstn_length. lia. Qed.
Lemma take_all {A} (l : list A) n : len l <= n -> take n l = l.
Proof. intros H. unfold len, take in *. apply firstn_all2. lia. Qed.
Lemma take_app_exact {A} (a b : list A) n : n = len a -> take n (a ++ b) = a.
Proof.
  intros ->. unfold take, len. rewrite Nat2Z.id. rewrite firstn_app, Nat.sub_diag. cbn [firstn].
  rewrite firstn_all, app_nil_r. reflexivity.
Qed.
Lemma drop_app_exact {A} (a b : list A) n : n = len a -> drop n (a ++ b) = b.
Proof.
  intros ->. unfold drop, len. rewrite Nat2Z.id. rewrite skipn_app, Nat.sub_diag, skipn_all. reflexivity.
Qed.
Lemma drop_0 {A} (l : list A) : drop 0 l = l.
Proof. reflexivity. Qed.
Lemma drop_cons {A} (x : A) l k : 0 < k -> drop k (x :: l) = drop (k - 1) l.
Proof.
  intros H. unfold drop. replace (Z.to_nat k) with (S (Z.to_nat (k - 1))) by lia. reflexivity.
Qed.
Lemma drop_app_le {A} (a b : list A) k : 0 <= k <= len a -> drop k (a ++ b) = drop k a ++ b.
Proof.
  intros H. unfold drop, len in *. rewrite skipn_app.
  replace (Z.to_nat k - length a)%nat with 0%nat by lia. reflexivity.
Qed.
Lemma drop_app_ge {A} (a b : list A) k : len a <= k -> drop k (a ++ b) = drop (k - len a) b.
Proof.
  intros H. unfold drop, len in *. rewrite skipn_app.
  rewrite (skipn_all2 a) by lia. cbn [app]. f_equal. lia.
Qed.
Lemma take_app_le {A} (a b : list A) k : k <= len a -> take k (a ++ b) = take k a.
Proof.
  intros H. unfold take, len in *. rewrite firstn_app.
  replace (Z.to_nat k - length a)%nat with 0%nat by lia. cbn [firstn]. apply app_nil_r.
Qed.
Lemma len_drop {A} (l : list A) k : 0 <= k <= len l -> len (drop k l) = len l - k.
Proof. intros H. unfold len, drop in *. rewrite skipn_length. lia. Qed.

(* a slice of the middle part of pre ++ e ++ post *)
Lemma slice_mid {A} (pre e post : list A) a b a0 :
  a = len pre + a0 -> 0 <= a0 -> a <= b -> b - a + a0 <= len e ->
  slice (pre ++ e ++ post) a b = Ok (take (b - a) (drop a0 e)).
Proof.
  intros -> H0 Hab Hb. pose proof (len_nonneg pre). pose proof (len_nonneg post).
  rewrite slice_in by (rewrite ?len_app; lia). f_equal.
  rewrite drop_app_ge by lia. replace (len pre + a0 - len pre) with a0 by lia.
  rewrite drop_app_le by lia. apply take_app_le. rewrite len_drop by lia. lia.
Qed.

Lemma nz_mid pre e post k : 0 <= k < len e -> nz (pre ++ e ++ post) (len pre + k) = nz e k.
Proof.
  intros H. unfold nz, len in *. rewrite app_nth2 by lia.
  replace (Z.to_nat (Z.of_nat (length pre) + k) - length pre)%nat with (Z.to_nat k) by lia.
  apply app_nth1. lia.
Qed.

Lemma idx_mid pre e post i k : i = len pre -> 0 <= k < len e -> idx (pre ++ e ++ post) (i + k) = Ok (nz e k).
Proof.
  intros -> H. pose proof (len_nonneg pre). pose proof (len_nonneg post).
  rewrite idx_in by (rewrite ?len_app; lia). f_equal. apply nz_mid. exact H.
Qed.
Lemma idx_mid0 pre e post i : i = len pre -> 0 < len e -> idx (pre ++ e ++ post) i = Ok (nz e 0).
Proof. intros Hi H. replace i with (i + 0) by lia. apply idx_mid; [exact Hi|lia]. Qed.

Lemma nz_0 a l : nz (a :: l) 0 = a. Proof. reflexivity. Qed.
Lemma nz_1 a b l : nz (a :: b :: l) 1 = b. Proof. reflexivity. Qed.
Lemma nz_2 a b c l : nz (a :: b :: c :: l) 2 = c. Proof. reflexivity. Qed.
Lemma nz_3 a b c d l : nz (a :: b :: c :: d :: l) 3 = d. Proof. reflexivity. Qed.
Lemma nz_4 a b c d e l : nz (a :: b :: c :: d :: e :: l) 4 = e. Proof. reflexivity. Qed.
Lemma nz_5 a b c d e f l : nz (a :: b :: c :: d :: e :: f :: l) 5 = f. Proof. reflexivity. Qed.
Lemma nz_6 a b c d e f g l : nz (a :: b :: c :: d :: e :: f :: g :: l) 6 = g. Proof. reflexivity. Qed.
Lemma nz_7 a b c d e f g h l : nz (a :: b :: c :: d :: e :: f :: g :: h :: l) 7 = h. Proof. reflexivity. Qed.
Lemma nz_8 a b c d e f g h k l : nz (a :: b :: c :: d :: e :: f :: g :: h :: k :: l) 8 = k. Proof. reflexivity. Qed.
Ltac nzlit := rewrite ?nz_0, ?nz_1, ?nz_2, ?nz_3, ?nz_4, ?nz_5, ?nz_6, ?nz_7, ?nz_8.

(* ---- 16-bit lengths ----------------------------------------------------------------------------- *)
Lemma hi8_byte n : 0 <= hi8 n < 256. Proof. unfold hi8. lia. Qed.
Lemma lo8_byte n : 0 <= lo8 n < 256. Proof. unfold lo8. lia. Qed.
Lemma w16_hi_lo n : 0 <= n < 65536 -> w16 (hi8 n) (lo8 n) = n.
Proof. intros H. rewrite w16_val by (unfold hi8, lo8; lia). unfold hi8, lo8. lia. Qed.
Lemma lo8_small n : 0 <= n < 256 -> lo8 n = n.
Proof. intros H. unfold lo8. lia. Qed.

Lemma clamp16_range n : 0 <= n -> 0 <= clamp16 n < 65536 /\ clamp16 n <= n.
Proof. intros H. unfold clamp16. destruct (65535 <? n) eqn:E; lia. Qed.
Lemma take_clamp16 {A} (h : list A) : take (clamp16 (len h)) h = take 65535 h.
Proof.
  unfold clamp16. destruct (65535 <? len h) eqn:E; [reflexivity|].
  rewrite !take_all by lia. reflexivity.
Qed.
Lemma len_take16 {A} (h : list A) : len (take 65535 h) = clamp16 (len h).
Proof.
  pose proof (len_nonneg h). rewrite len_take_min by lia. unfold clamp16. destruct (65535 <? len h) eqn:E; lia.
Qed.
Lemma len_take16_range {A} (h : list A) : 0 <= len (take 65535 h) < 65536.
Proof. pose proof (len_nonneg h). rewrite len_take_min by lia. lia. Qed.
Lemma clamp8_range n : 0 <= n -> 0 <= clamp8 n < 256 /\ clamp8 n <= n.
Proof. intros H. unfold clamp8. destruct (255 <? n) eqn:E; lia. Qed.

Lemma bytes_ok_bytes l : bytes_ok l = true <-> bytes l.
Proof.
  unfold bytes_ok, bytes, is_byte. rewrite forallb_forall, Forall_forall.
  split; intros H x Hx; specialize (H x Hx); lia.
Qed.
Lemma bytes_app a b : bytes a -> bytes b -> bytes (a ++ b).
Proof. unfold bytes. intros. apply Forall_app. split; assumption. Qed.
Lemma bytes_take l n : bytes l -> bytes (take n l).
Proof.
  unfold bytes, take. intros H. rewrite Forall_forall in *. intros x Hx. apply H.
  eapply In_firstn_lemma; eauto.
Qed.
