(* Proofs/CfgSettings.v -- C08: what the public constructors of c2/cfg pack is what the parser
   (Model/Cfg.v) reads back.  next_enc (the stride of an encoded setting is its length, at every
   offset), build_step on an encoded setting = interp_step, build (pack ss) = interp, validate iff
   build on packed settings, Groups/Group partition the bytes, MarshalBinary is the source. *)
From XMT Require Import Base.Prelude Base.BitLemmas Model.Cfg Model.CfgSettings Proofs.Cfg.
From Coq Require Import ZifyBool.
Ltac Zify.zify_post_hook ::= Z.div_mod_to_equations.

(* ---- lists ------------------------------------------------------------------------------------ *)
Lemma len_take {A} (l : list A) n : 0 <= n <= len l -> len (take n l) = n.
Proof. intros H. unfold len, take in *. rewrite firstn_length. lia. Qed.
Lemma len_take_le {A} (l : list A) n : 0 <= n -> len (take n l) <= n.
Proof. intros H. unfold len, take in *. rewrite firstn_length. lia. Qed.
Lemma len_take_min {A} (l : list A) n : 0 <= n -> len (take n l) = Z.min n (len l).
Proof. intros H. unfold len, take in *. rewrite firstn_length. lia. Qed.
Lemma take_all {A} (l : list A) n : len l <= n -> take n l = l.
Proof. intros H. unfold len, take in *. apply firstn_all2. lia. Qed.
Lemma take_app_exact {A} (a b : list A) n : n = len a -> take n (a ++ b) = a.
Proof.
  intros ->. unfold take, len. rewrite Nat2Z.id. rewrite firstn_app, Nat.sub_diag. cbn [firstn].
  rewrite firstn_all, app_nil_r. reflexivity.
Qed.
Lemma drop_app_exact {A} (a b : list A) n : n = len a -> drop n (a ++ b) = b.
Proof.
  intros ->. unfold drop, len. rewrite Nat2Z.id. rewrite skipn_app, Nat.sub_diag, skipn_all. reflexivity.
Qed.
Lemma drop_0 {A} (l : list A) : drop 0 l = l.
Proof. reflexivity. Qed.
Lemma drop_cons {A} (x : A) l k : 0 < k -> drop k (x :: l) = drop (k - 1) l.
Proof.
  intros H. unfold drop. replace (Z.to_nat k) with (S (Z.to_nat (k - 1))) by lia. reflexivity.
Qed.
Lemma drop_app_le {A} (a b : list A) k : 0 <= k <= len a -> drop k (a ++ b) = drop k a ++ b.
Proof.
  intros H. unfold drop, len in *. rewrite skipn_app.
  replace (Z.to_nat k - length a)%nat with 0%nat by lia. reflexivity.
Qed.
Lemma drop_app_ge {A} (a b : list A) k : len a <= k -> drop k (a ++ b) = drop (k - len a) b.
Proof.
  intros H. unfold drop, len in *. rewrite skipn_app.
  rewrite (skipn_all2 a) by lia. cbn [app]. f_equal. lia.
Qed.
Lemma take_app_le {A} (a b : list A) k : k <= len a -> take k (a ++ b) = take k a.
Proof.
  intros H. unfold take, len in *. rewrite firstn_app.
  replace (Z.to_nat k - length a)%nat with 0%nat by lia. cbn [firstn]. apply app_nil_r.
Qed.
Lemma len_drop {A} (l : list A) k : 0 <= k <= len l -> len (drop k l) = len l - k.
Proof. intros H. unfold len, drop in *. rewrite skipn_length. lia. Qed.

(* a slice of the middle part of pre ++ e ++ post *)
Lemma slice_mid {A} (pre e post : list A) a b a0 :
  a = len pre + a0 -> 0 <= a0 -> a <= b -> b - a + a0 <= len e ->
  slice (pre ++ e ++ post) a b = Ok (take (b - a) (drop a0 e)).
Proof.
  intros -> H0 Hab Hb. pose proof (len_nonneg pre). pose proof (len_nonneg post).
  rewrite slice_in by (rewrite ?len_app; lia). f_equal.
  rewrite drop_app_ge by lia. replace (len pre + a0 - len pre) with a0 by lia.
  rewrite drop_app_le by lia. apply take_app_le. rewrite len_drop by lia. lia.
Qed.

Lemma nz_mid pre e post k : 0 <= k < len e -> nz (pre ++ e ++ post) (len pre + k) = nz e k.
Proof.
  intros H. unfold nz, len in *. rewrite app_nth2 by lia.
  replace (Z.to_nat (Z.of_nat (length pre) + k) - length pre)%nat with (Z.to_nat k) by lia.
  apply app_nth1. lia.
Qed.

Lemma idx_mid pre e post i k : i = len pre -> 0 <= k < len e -> idx (pre ++ e ++ post) (i + k) = Ok (nz e k).
Proof.
  intros -> H. pose proof (len_nonneg pre). pose proof (len_nonneg post).
  rewrite idx_in by (rewrite ?len_app; lia). f_equal. apply nz_mid. exact H.
Qed.
Lemma idx_mid0 pre e post i : i = len pre -> 0 < len e -> idx (pre ++ e ++ post) i = Ok (nz e 0).
Proof. intros Hi H. replace i with (i + 0) by lia. apply idx_mid; [exact Hi|lia]. Qed.

Lemma nz_0 a l : nz (a :: l) 0 = a. Proof. reflexivity. Qed.
Lemma nz_1 a b l : nz (a :: b :: l) 1 = b. Proof. reflexivity. Qed.
Lemma nz_2 a b c l : nz (a :: b :: c :: l) 2 = c. Proof. reflexivity. Qed.
Lemma nz_3 a b c d l : nz (a :: b :: c :: d :: l) 3 = d. Proof. reflexivity. Qed.
Lemma nz_4 a b c d e l : nz (a :: b :: c :: d :: e :: l) 4 = e. Proof. reflexivity. Qed.
Lemma nz_5 a b c d e f l : nz (a :: b :: c :: d :: e :: f :: l) 5 = f. Proof. reflexivity. Qed.
Lemma nz_6 a b c d e f g l : nz (a :: b :: c :: d :: e :: f :: g :: l) 6 = g. Proof. reflexivity. Qed.
Lemma nz_7 a b c d e f g h l : nz (a :: b :: c :: d :: e :: f :: g :: h :: l) 7 = h. Proof. reflexivity. Qed.
Lemma nz_8 a b c d e f g h k l : nz (a :: b :: c :: d :: e :: f :: g :: h :: k :: l) 8 = k. Proof. reflexivity. Qed.
Ltac nzlit := rewrite ?nz_0, ?nz_1, ?nz_2, ?nz_3, ?nz_4, ?nz_5, ?nz_6, ?nz_7, ?nz_8.

(* ---- 16-bit lengths ----------------------------------------------------------------------------- *)
Lemma hi8_byte n : 0 <= hi8 n < 256. Proof. unfold hi8. lia. Qed.
Lemma lo8_byte n : 0 <= lo8 n < 256. Proof. unfold lo8. lia. Qed.
Lemma w16_hi_lo n : 0 <= n < 65536 -> w16 (hi8 n) (lo8 n) = n.
Proof. intros H. rewrite w16_val by (unfold hi8, lo8; lia). unfold hi8, lo8. lia. Qed.
Lemma lo8_small n : 0 <= n < 256 -> lo8 n = n.
Proof. intros H. unfold lo8. lia. Qed.

Lemma clamp16_range n : 0 <= n -> 0 <= clamp16 n < 65536 /\ clamp16 n <= n.
Proof. intros H. unfold clamp16. destruct (65535 <? n) eqn:E; lia. Qed.
Lemma take_clamp16 {A} (h : list A) : take (clamp16 (len h)) h = take 65535 h.
Proof.
  unfold clamp16. destruct (65535 <? len h) eqn:E; [reflexivity|].
  rewrite !take_all by lia. reflexivity.
Qed.
Lemma len_take16 {A} (h : list A) : len (take 65535 h) = clamp16 (len h).
Proof.
  pose proof (len_nonneg h). rewrite len_take_min by lia. unfold clamp16. destruct (65535 <? len h) eqn:E; lia.
Qed.
Lemma len_take16_range {A} (h : list A) : 0 <= len (take 65535 h) < 65536.
Proof. pose proof (len_nonneg h). rewrite len_take_min by lia. lia. Qed.
Lemma clamp8_range n : 0 <= n -> 0 <= clamp8 n < 256 /\ clamp8 n <= n.
Proof. intros H. unfold clamp8. destruct (255 <? n) eqn:E; lia. Qed.

Lemma bytes_ok_bytes l : bytes_ok l = true <-> bytes l.
Proof.
  unfold bytes_ok, bytes, is_byte. rewrite forallb_forall, Forall_forall.
  split; intros H x Hx; specialize (H x Hx); lia.
Qed.
Lemma bytes_app a b : bytes a -> bytes b -> bytes (a ++ b).
Proof. unfold bytes. intros. apply Forall_app. split; assumption. Qed.
Lemma bytes_take l n : bytes l -> bytes (take n l).
Proof.
  unfold bytes, take. intros H. rewrite Forall_forall in *. intros x Hx. apply H.
  rewrite <- (firstn_skipn (Z.to_nat n) l). apply in_or_app. left. exact Hx.
Qed.

(* ---- big-endian fields --------------------------------------------------------------------------- *)
Lemma cfg_of_be_be32 v : 0 <= v < 4294967296 -> of_be (be32 v) 0 = v.
Proof. intros H. unfold be32, of_be, u8. lia. Qed.
Lemma cfg_of_be_be64 v : 0 <= v < 18446744073709551616 -> of_be (be64 v) 0 = v.
Proof.
  intros H. unfold be64, of_be, u8.
  assert (E : v = (v / 4294967296) * 4294967296 + v mod 4294967296) by lia.
  set (hi := v / 4294967296) in *. set (lo := v mod 4294967296) in *.
  assert (Hhi : 0 <= hi < 4294967296) by lia. assert (Hlo : 0 <= lo < 4294967296) by lia.
  replace (v / 72057594037927936) with (hi / 16777216) by lia.
  replace (v / 281474976710656) with (hi / 65536) by lia.
  replace (v / 1099511627776) with (hi / 256) by lia.
  replace (v / 16777216) with (hi * 256 + lo / 16777216) by lia.
  replace (v / 65536) with (hi * 65536 + lo / 65536) by lia.
  replace (v / 256) with (hi * 16777216 + lo / 256) by lia.
  lia.
Qed.
(* be64 of a negative int64 is be64 of its two's complement *)
Lemma be64_mod v : be64 v = be64 (v mod 18446744073709551616).
Proof. unfold be64, u8. repeat (f_equal; try lia). Qed.

Lemma rd_be_go_spec c : forall k i acc, 0 <= i -> i + Z.of_nat k <= len c ->
  rd_be_go c k i acc = Ok (of_be (take (Z.of_nat k) (drop i c)) acc).
Proof.
  induction k as [|k IH]; intros i acc Hi Hk; cbn [rd_be_go].
  - reflexivity.
  - rewrite idx_in by lia. rewrite bind_Ok. rewrite IH by lia. f_equal.
    assert (E : take (Z.of_nat (S k)) (drop i c) = nz c i :: take (Z.of_nat k) (drop (i + 1) c)).
    { unfold take, drop, nz, len in *. rewrite !Nat2Z.id.
      replace (Z.to_nat (i + 1)) with (S (Z.to_nat i)) by lia.
      assert (Hlt : (Z.to_nat i < length c)%nat) by lia. revert Hlt. generalize (Z.to_nat i) as m. clear.
      intros m. revert c. induction m as [|m IHm]; intros c Hlt; destruct c as [|x c]; cbn in *; try lia; [reflexivity|].
      apply IHm. lia. }
    rewrite E. reflexivity.
Qed.
Lemma rd_be_mid pre e post i a k : i = len pre -> 0 <= a -> a + Z.of_nat k <= len e ->
  rd_be (pre ++ e ++ post) (i + a) k = Ok (of_be (take (Z.of_nat k) (drop a e)) 0).
Proof.
  intros -> Ha Hk. pose proof (len_nonneg pre). pose proof (len_nonneg post). unfold rd_be.
  rewrite rd_be_go_spec by (rewrite ?len_app; lia). f_equal. f_equal.
  rewrite drop_app_ge by lia. replace (len pre + a - len pre) with a by lia.
  rewrite drop_app_le by lia. apply take_app_le. rewrite len_drop by lia. lia.
Qed.

(* ---- Config.next on fixed-size settings ------------------------------------------------------------- *)
Definition fixed_len (k : kind) : option Z :=
  match k with
  | KSep | KSel | KConn | KWrap | KTB64 => Some 1
  | KIP | KB64S | KJitter | KWeight | KTLSx | KSelPct => Some 2
  | KCBK | KWorkHours => Some 6
  | KSleep | KKillDate => Some 9
  | KKeyPin => Some 5
  | _ => None
  end.
Lemma next_fixed c i L : 0 <= i < len c -> fixed_len (kind_of (nz c i)) = Some L -> next c i = Ok (i + L).
Proof.
  intros Hi. unfold next. replace ((len c <? i) || (i <? 0)) with false by lia.
  rewrite idx_in by lia. rewrite bind_Ok.
  destruct (kind_of (nz c i)); cbn [fixed_len]; intros [= <-] || discriminate; reflexivity.
Qed.

(* what next_enc concludes *)
Definition stride_ok (c : list Z) (i L : Z) (last : bool) : Prop :=
  exists r, next c i = Ok r /\ fixn c i r = i + L /\ (last = false -> r = i + L).

Lemma stride_ok_exact c i L last : 0 <= i -> 0 < L -> i + L <= len c -> next c i = Ok (i + L) -> stride_ok c i L last.
Proof.
  intros Hi HL Hc H. exists (i + L). split; [exact H|]. split; [|reflexivity].
  rewrite fixn_fwd by lia. replace (i + L <=? len c) with true by lia. reflexivity.
Qed.
Lemma stride_ok_end c i L : i + L = len c -> next c i = Ok (-1) -> stride_ok c i L true.
Proof. intros Hc H. exists (-1). split; [exact H|]. split; [|discriminate]. rewrite fixn_m1. lia. Qed.

Ltac ll := unfold len, be64, be32 in *; cbn [length] in *; rewrite ?app_length in *; cbn [length] in *; lia.

Lemma stride_fixed pre e post L : len e = L -> fixed_len (kind_of (nz e 0)) = Some L -> 0 < L ->
  stride_ok (pre ++ e ++ post) (len pre) L (is_nil post).
Proof.
  intros He Hk HL. pose proof (len_nonneg pre). pose proof (len_nonneg post).
  apply stride_ok_exact; try lia.
  - rewrite !len_app. lia.
  - apply next_fixed; [rewrite !len_app; lia|].
    replace (len pre) with (len pre + 0) by lia. rewrite nz_mid by lia. exact Hk.
Qed.

Lemma i64_small d : 0 <= d < 9223372036854775808 -> i64 d = d.
Proof. intros H. unfold i64, sgn. cbv zeta. change (2 ^ 64) with 18446744073709551616.
  replace (d mod 18446744073709551616) with d by lia.
  replace (d <? 18446744073709551616 / 2) with true by lia. reflexivity. Qed.
Lemma i64_wrap u : -9223372036854775808 <= u < 9223372036854775808 -> i64 (u mod 18446744073709551616) = u.
Proof. intros H. unfold i64, sgn. cbv zeta. change (2 ^ 64) with 18446744073709551616.
  rewrite Z.mod_mod by lia.
  destruct (u mod 18446744073709551616 <? 18446744073709551616 / 2) eqn:E; lia. Qed.

(* the tag byte of an encoded setting *)
Definition tag_of (s : setting) : Z := nz (enc s) 0.

(* what is proved about every encoded setting: the stride is its length, and build_step reads back its meaning *)
Definition setting_ok (s : setting) : Prop :=
  forall pre post p z,
    (is_conn s = true -> has_conn p = false) -> (is_trans s = true -> has_trans p = false) ->
    let c := pre ++ enc s ++ post in let i := len pre in let L := len (enc s) in
    stride_ok c i L (is_nil post)
    /\ is_sep (kind_of (tag_of s)) = false
    /\ build_step true c i (i + L) (tag_of s) (kind_of (tag_of s)) (p, z) = Ok (interp_step s (p, z)).

Ltac idxm pre e post Hi :=
  repeat match goal with
  | |- context [idx (pre ++ e ++ post) (?i + ?k)] => rewrite (idx_mid pre e post i k Hi) by ll; nzlit; rewrite ?bind_Ok
  end.
Ltac ifs := repeat match goal with
  | |- context [if ?b then _ else _] =>
    first [replace b with false by ll | replace b with true by ll]
  end.

Lemma ok_sleep d : wf_setting (SSleep d) = true -> enc (SSleep d) <> [] -> setting_ok (SSleep d).
Proof.
  cbn [wf_setting enc]. intros Hw He pre post p z _ _. destruct (d <=? 0) eqn:E; [congruence|].
  cbv zeta. unfold tag_of, interp_step. cbn [enc]. rewrite E. nzlit. change (kind_of 161) with KSleep.
  change (len (161 :: be64 d)) with 9.
  split; [apply stride_fixed; [reflexivity|reflexivity|lia]|]. split; [reflexivity|].
  assert (Hi : len pre = len pre) by reflexivity.
  unfold build_step. ifs.
  rewrite (rd_be_mid pre (161 :: be64 d) post (len pre) 1 8 Hi) by ll. rewrite bind_Ok.
  change (drop 1 (161 :: be64 d)) with (be64 d). rewrite take_all by ll. rewrite cfg_of_be_be64 by lia.
  rewrite i64_small by lia. replace (d <? 0) with false by lia. reflexivity.
Qed.

Ltac fixed_intro := intros pre post p z Hc Ht; cbv zeta; unfold tag_of, interp_step; cbn [enc].
Ltac fixed_split pre :=
  split; [apply stride_fixed; [reflexivity|reflexivity|lia]|]; split; [reflexivity|];
  let Hi := fresh "Hi" in assert (Hi : len pre = len pre) by reflexivity; unfold build_step.

Lemma ok_jitter n : wf_setting (SJitter n) = true -> setting_ok (SJitter n).
Proof.
  intros _. fixed_intro. nzlit. change (kind_of 162) with KJitter. change (len [162; lo8 n]) with 2.
  fixed_split pre. ifs. idxm pre [162; lo8 n] post Hi. reflexivity.
Qed.

Lemma ok_weight w : wf_setting (SWeight w) = true -> enc (SWeight w) <> [] -> setting_ok (SWeight w).
Proof.
  intros _ He. cbn [enc] in He. fixed_intro. destruct (w =? 0) eqn:E; [congruence|].
  nzlit. change (kind_of 163) with KWeight. change (len [163; lo8 w]) with 2.
  fixed_split pre. ifs. idxm pre [163; lo8 w] post Hi. reflexivity.
Qed.

Lemma ok_killdate zero u : wf_setting (SKillDate zero u) = true -> setting_ok (SKillDate zero u).
Proof.
  cbn [wf_setting]. intros Hw. fixed_intro. destruct zero.
  - nzlit. change (kind_of 164) with KKillDate. change (len [164; 0; 0; 0; 0; 0; 0; 0; 0]) with 9.
    fixed_split pre. ifs.
    rewrite (rd_be_mid pre [164; 0; 0; 0; 0; 0; 0; 0; 0] post (len pre) 1 8 Hi) by ll. rewrite bind_Ok.
    reflexivity.
  - nzlit. change (kind_of 164) with KKillDate. change (len (164 :: be64 u)) with 9.
    fixed_split pre. ifs.
    rewrite (rd_be_mid pre (164 :: be64 u) post (len pre) 1 8 Hi) by ll. rewrite bind_Ok.
    change (drop 1 (164 :: be64 u)) with (be64 u). rewrite take_all by ll.
    rewrite be64_mod, cfg_of_be_be64 by lia. cbn [orb]. unfold u64.
    destruct (u mod 18446744073709551616 =? 0); [reflexivity|]. rewrite i64_wrap by lia. reflexivity.
Qed.

Lemma ok_workhours d sh sm eh em : wf_setting (SWorkHours d sh sm eh em) = true -> setting_ok (SWorkHours d sh sm eh em).
Proof.
  cbn [wf_setting]. intros Hw. fixed_intro. nzlit. change (kind_of 165) with KWorkHours.
  change (len [165; d; sh; sm; eh; em]) with 6.
  fixed_split pre. ifs. idxm pre [165; d; sh; sm; eh; em] post Hi. ifs. reflexivity.
Qed.

Lemma ok_keypin empty h : wf_setting (SKeyPin empty h) = true -> enc (SKeyPin empty h) <> [] -> setting_ok (SKeyPin empty h).
Proof.
  cbn [wf_setting enc]. intros Hw He. fixed_intro. destruct empty; [congruence|].
  nzlit. change (kind_of 166) with KKeyPin. change (len (166 :: be32 h)) with 5.
  fixed_split pre. ifs.
  rewrite (rd_be_mid pre (166 :: be32 h) post (len pre) 1 4 Hi) by ll. rewrite bind_Ok.
  change (drop 1 (166 :: be32 h)) with (be32 h). rewrite take_all by ll.
  rewrite cfg_of_be_be32 by lia. reflexivity.
Qed.

Lemma ok_ip pr : wf_setting (SIP pr) = true -> setting_ok (SIP pr).
Proof.
  cbn [wf_setting]. intros Hw. fixed_intro. nzlit. change (kind_of 176) with KIP. change (len [176; lo8 pr]) with 2.
  fixed_split pre. rewrite (Hc eq_refl). ifs. idxm pre [176; lo8 pr] post Hi. ifs. reflexivity.
Qed.

Lemma ok_tlsex ver : wf_setting (STLSEx ver) = true -> setting_ok (STLSEx ver).
Proof.
  intros _. fixed_intro. nzlit. change (kind_of 178) with KTLSx. change (len [178; lo8 ver]) with 2.
  fixed_split pre. rewrite (Hc eq_refl). ifs. idxm pre [178; lo8 ver] post Hi. reflexivity.
Qed.

Lemma ok_cbk s a b c d : wf_setting (SCBK s a b c d) = true -> setting_ok (SCBK s a b c d).
Proof.
  intros _. fixed_intro. nzlit. change (kind_of 213) with KCBK. change (len [213; s; a; b; c; d]) with 6.
  fixed_split pre. ifs. idxm pre [213; s; a; b; c; d] post Hi. reflexivity.
Qed.

Lemma ok_b64s s : wf_setting (SB64S s) = true -> setting_ok (SB64S s).
Proof.
  intros _. fixed_intro. nzlit. change (kind_of 226) with KB64S. change (len [226; lo8 s]) with 2.
  fixed_split pre. rewrite (Ht eq_refl). ifs. idxm pre [226; lo8 s] post Hi. reflexivity.
Qed.

Lemma ok_bit b : wf_setting (SBit b) = true -> setting_ok (SBit b).
Proof.
  cbn [wf_setting]. intros Hw. fixed_intro. nzlit. change (len [b]) with 1.
  cbn [is_conn is_trans] in Hc, Ht.
  assert (Hi : len pre = len pre) by reflexivity.
  destruct (kind_of b) eqn:K; try discriminate;
    (split; [apply stride_fixed; [reflexivity|rewrite nz_0, K; reflexivity|lia]|]; split; [reflexivity|]); unfold build_step.
  - rewrite (idx_mid0 pre [b] post (len pre) Hi) by ll. reflexivity.
  - rewrite (Hc eq_refl). reflexivity.
  - reflexivity.
  - rewrite (Ht eq_refl). reflexivity.
Qed.

(* ---- one 16-bit length: host, xor, tls-ca ------------------------------------------------------------ *)
Lemma is_nil_take16 {A} (l : list A) : is_nil (take 65535 l) = is_nil l.
Proof. destruct l; reflexivity. Qed.
Lemma is_nil_len {A} (l : list A) : is_nil l = (len l =? 0).
Proof. destruct l; [reflexivity|]. rewrite len_cons. pose proof (len_nonneg l). cbn [is_nil]. lia. Qed.

Lemma next_len16 pre t lb body post : kind_of t = KHost \/ kind_of t = KXOR -> lb = len body -> 0 < lb < 65536 ->
  next (pre ++ (t :: hi8 lb :: lo8 lb :: body) ++ post) (len pre) = Ok (len pre + (3 + lb)).
Proof.
  intros K Hlb Hr. pose proof (len_nonneg pre). pose proof (len_nonneg post).
  set (e := t :: hi8 lb :: lo8 lb :: body). assert (He : len e = 3 + lb) by (subst e; rewrite !len_cons; lia).
  assert (Hi : len pre = len pre) by reflexivity.
  unfold next. rewrite !len_app, He. replace ((len pre + (3 + lb + len post) <? len pre) || (len pre <? 0)) with false by lia.
  rewrite (idx_mid0 pre e post (len pre) Hi) by lia. rewrite bind_Ok. subst e. nzlit.
  set (e := t :: hi8 lb :: lo8 lb :: body) in *.
  assert (G : (if len pre + (3 + lb + len post) <=? len pre + 3 then Ok (-1)
               else do b1 <- idx (pre ++ e ++ post) (len pre + 1); do b2 <- idx (pre ++ e ++ post) (len pre + 2); Ok (len pre + 3 + w16 b1 b2))
              = Ok (len pre + (3 + lb))).
  { replace (len pre + (3 + lb + len post) <=? len pre + 3) with false by lia.
    rewrite !(idx_mid pre e post (len pre) _ Hi) by lia. rewrite !bind_Ok. subst e. nzlit.
    rewrite w16_hi_lo by lia. f_equal. lia. }
  destruct K as [-> | ->]; exact G.
Qed.

Lemma ok_host h : wf_setting (SHost h) = true -> enc (SHost h) <> [] -> setting_ok (SHost h).
Proof.
  cbn [wf_setting enc]. intros Hw He pre post p z _ _. cbv zeta. unfold tag_of, interp_step. cbn [enc].
  destruct (len h =? 0) eqn:E; [congruence|]. cbv zeta. rewrite take_clamp16, <- len_take16.
  set (body := take 65535 h). set (lb := len body).
  assert (Hlb : 0 < lb < 65536).
  { subst lb body. pose proof (len_nonneg h). rewrite len_take_min by lia. lia. }
  change ([160; hi8 lb; lo8 lb] ++ body) with (160 :: hi8 lb :: lo8 lb :: body). nzlit. change (kind_of 160) with KHost.
  set (e := 160 :: hi8 lb :: lo8 lb :: body). assert (HL : len e = 3 + lb) by (subst e; rewrite !len_cons; fold lb; lia).
  rewrite HL. pose proof (len_nonneg pre). pose proof (len_nonneg post).
  assert (Hi : len pre = len pre) by reflexivity.
  split; [|split; [reflexivity|]].
  - apply stride_ok_exact; try lia; [rewrite !len_app, HL; lia|]. apply next_len16; [left; reflexivity|reflexivity|lia].
  - unfold build_step. replace (len pre + (3 + lb) <=? len pre + 3) with false by lia.
    rewrite !(idx_mid pre e post (len pre) _ Hi) by lia. rewrite !bind_Ok. subst e. nzlit.
    rewrite w16_hi_lo by lia. cbv zeta.
    replace ((len pre + (3 + lb) <? lb + len pre + 3) || (lb + len pre <? len pre)) with false by lia.
    rewrite (slice_mid pre _ post _ _ 3) by (rewrite ?len_cons; fold lb; lia). rewrite bind_Ok.
    change (drop 3 (160 :: hi8 lb :: lo8 lb :: body)) with body.
    rewrite take_all by (fold lb; lia). reflexivity.
Qed.

Lemma ok_xor k : wf_setting (SXOR k) = true -> setting_ok (SXOR k).
Proof.
  cbn [wf_setting]. intros Hw pre post p z _ _. cbv zeta. unfold tag_of, interp_step. cbn [enc].
  cbv zeta. rewrite take_clamp16, <- len_take16.
  set (body := take 65535 k). set (lb := len body).
  assert (Hlb : 0 < lb < 65536).
  { subst lb body. pose proof (len_nonneg k). rewrite len_take_min by lia.
    assert (len k <> 0) by (rewrite <- Z.eqb_neq, <- is_nil_len; unfold nonempty in Hw; destruct (is_nil k); [rewrite andb_false_r in Hw; discriminate|reflexivity]).
    lia. }
  change ([212; hi8 lb; lo8 lb] ++ body) with (212 :: hi8 lb :: lo8 lb :: body). nzlit. change (kind_of 212) with KXOR.
  set (e := 212 :: hi8 lb :: lo8 lb :: body). assert (HL : len e = 3 + lb) by (subst e; rewrite !len_cons; fold lb; lia).
  rewrite HL. pose proof (len_nonneg pre). pose proof (len_nonneg post).
  assert (Hi : len pre = len pre) by reflexivity.
  split; [|split; [reflexivity|]].
  - apply stride_ok_exact; try lia; [rewrite !len_app, HL; lia|]. apply next_len16; [right; reflexivity|reflexivity|lia].
  - unfold build_step. replace (len pre + (3 + lb) <=? len pre + 3) with false by lia.
    rewrite !(idx_mid pre e post (len pre) _ Hi) by lia. rewrite !bind_Ok. subst e. nzlit.
    rewrite w16_hi_lo by lia. cbv zeta.
    replace ((len pre + (3 + lb) <? lb + len pre + 3) || (lb + len pre <? len pre)) with false by lia.
    rewrite (slice_mid pre _ post _ _ 3) by (rewrite ?len_cons; fold lb; lia). rewrite bind_Ok.
    change (drop 3 (212 :: hi8 lb :: lo8 lb :: body)) with body.
    rewrite take_all by (fold lb; lia). reflexivity.
Qed.

(* ---- TLS blobs ------------------------------------------------------------------------------------------ *)
Lemma next_head pre e post L : len e = L -> 0 < L ->
  next (pre ++ e ++ post) (len pre) =
  (let c := pre ++ e ++ post in let i := len pre in
   match kind_of (nz e 0) with
  | KSep | KSel | KConn | KWrap | KTB64 => Ok (i + 1)
  | KIP | KB64S | KJitter | KWeight | KTLSx | KSelPct => Ok (i + 2)
  | KCBK | KWorkHours => Ok (i + 6)
  | KSleep | KKillDate => Ok (i + 9)
  | KKeyPin => Ok (i + 5)
  | KWC2 =>
    if len c <=? i + 7 then Ok (-1) else
    do b1 <- idx c (i + 1); do b2 <- idx c (i + 2); do b3 <- idx c (i + 3); do b4 <- idx c (i + 4);
    do b5 <- idx c (i + 5); do b6 <- idx c (i + 6); do b7 <- idx c (i + 7);
    let n := i + 8 + w16 b1 b2 + w16 b3 b4 + w16 b5 b6 in
    if len c <=? n then Ok (-1) else
    do _ <- idx c n;
    if b7 =? 0 then Ok n else wc2_walk c (Z.to_nat b7) n
  | KXOR | KHost =>
    if len c <=? i + 3 then Ok (-1) else
    do b1 <- idx c (i + 1); do b2 <- idx c (i + 2);
    Ok (i + 3 + w16 b1 b2)
  | KAES =>
    if len c <=? i + 3 then Ok (-1) else
    do b1 <- idx c (i + 1); do b2 <- idx c (i + 2);
    Ok (i + 3 + b1 + b2)
  | KMuTLS =>
    if len c <=? i + 7 then Ok (-1) else
    do b2 <- idx c (i + 2); do b3 <- idx c (i + 3); do b4 <- idx c (i + 4);
    do b5 <- idx c (i + 5); do b6 <- idx c (i + 6); do b7 <- idx c (i + 7);
    Ok (i + 8 + w16 b2 b3 + w16 b4 b5 + w16 b6 b7)
  | KTLSxCA =>
    if len c <=? i + 4 then Ok (-1) else
    do b2 <- idx c (i + 2); do b3 <- idx c (i + 3);
    Ok (i + 4 + w16 b2 b3)
  | KTLSCert =>
    if len c <=? i + 6 then Ok (-1) else
    do b2 <- idx c (i + 2); do b3 <- idx c (i + 3); do b4 <- idx c (i + 4); do b5 <- idx c (i + 5);
    Ok (i + 6 + w16 b2 b3 + w16 b4 b5)
  | KDNS =>
    if len c <=? i + 1 then Ok (-1) else
    do b1 <- idx c (i + 1);
    dns_walk c (Z.to_nat b1) (i + 2)
  | KInvalid | KOther => Ok (-1)
  end).
Proof.
  intros He HL. pose proof (len_nonneg pre). pose proof (len_nonneg post). cbv zeta.
  unfold next. replace ((len (pre ++ e ++ post) <? len pre) || (len pre <? 0)) with false by (rewrite !len_app; lia).
  rewrite (idx_mid0 pre e post (len pre) eq_refl) by lia. rewrite bind_Ok. reflexivity.
Qed.

Lemma tls_conn_ok mu ver ca pem key :
  tls_conn true mu ver ca pem key =
  Ok (7, [tls_minver ver; b2z (negb (is_nil pem) && negb (is_nil key)); b2z (negb (is_nil ca));
          if negb (is_nil ca) && mu then 4 else 0], []).
Proof. unfold tls_conn. cbn [negb]. rewrite andb_false_r. reflexivity. Qed.

Lemma ok_tlsexca ver ca : wf_setting (STLSExCA ver ca) = true -> setting_ok (STLSExCA ver ca).
Proof.
  cbn [wf_setting]. intros Hw pre post p z Hc _. cbv zeta. unfold tag_of, interp_step. cbn [enc].
  cbv zeta. rewrite take_clamp16, <- len_take16. rewrite <- (is_nil_take16 ca).
  set (body := take 65535 ca). set (lb := len body).
  assert (Hlb : 0 <= lb < 65536) by (subst lb body; apply len_take16_range).
  change ([180; lo8 ver; hi8 lb; lo8 lb] ++ body) with (180 :: lo8 ver :: hi8 lb :: lo8 lb :: body). nzlit.
  change (kind_of 180) with KTLSxCA.
  set (e := 180 :: lo8 ver :: hi8 lb :: lo8 lb :: body).
  assert (HL : len e = 4 + lb) by (subst e; rewrite !len_cons; fold lb; lia).
  rewrite HL. pose proof (len_nonneg pre). pose proof (len_nonneg post).
  assert (Hi : len pre = len pre) by reflexivity.
  assert (Hlc : len (pre ++ e ++ post) = len pre + (4 + lb) + len post) by (rewrite !len_app, HL; lia).
  split; [|split; [reflexivity|]].
  - pose proof (next_head pre e post (4 + lb) HL ltac:(lia)) as N. cbv zeta in N.
    subst e. rewrite nz_0 in N. change (kind_of 180) with KTLSxCA in N. cbv iota in N.
    set (e := 180 :: lo8 ver :: hi8 lb :: lo8 lb :: body) in *. rewrite Hlc in N.
    destruct (len pre + (4 + lb) + len post <=? len pre + 4) eqn:E.
    + assert (len post = 0) by lia. destruct post as [|x post]; [|rewrite len_cons in *; pose proof (len_nonneg post); lia].
      apply stride_ok_end; [lia|exact N].
    + rewrite !(idx_mid pre e post (len pre) _ Hi) in N by lia. rewrite !bind_Ok in N. subst e. rewrite nz_2, nz_3 in N.
      rewrite w16_hi_lo in N by lia.
      apply stride_ok_exact; try lia. rewrite N. f_equal. lia.
  - unfold build_step. rewrite (Hc eq_refl).
    replace (len pre + (4 + lb) <=? len pre + 3) with false by lia.
    rewrite !(idx_mid pre e post (len pre) _ Hi) by lia. rewrite !bind_Ok. subst e. nzlit.
    rewrite w16_hi_lo by lia. cbv zeta.
    replace ((len pre + (4 + lb) <? lb + len pre + 4) || (lb + len pre + 4 <? len pre)) with false by lia.
    rewrite (slice_mid pre _ post _ _ 4) by (rewrite ?len_cons; fold lb; lia). rewrite bind_Ok.
    change (drop 4 (180 :: lo8 ver :: hi8 lb :: lo8 lb :: body)) with body.
    rewrite take_all by (fold lb; lia).
    rewrite tls_conn_ok, bind_Ok. cbn [is_nil negb andb b2z]. rewrite andb_false_r. reflexivity.
Qed.

Lemma nonempty_len {A} (l : list A) : negb (is_nil l) = true -> 0 < len l.
Proof. destruct l; cbn [is_nil negb]; [discriminate|]. intros _. rewrite len_cons. pose proof (len_nonneg l). lia. Qed.
Lemma len16_pos {A} (l : list A) : 0 < len l -> 0 < len (take 65535 l).
Proof. intros H. rewrite len_take_min by lia. lia. Qed.

Lemma ok_tlscerts ver pem key : wf_setting (STLSCerts ver pem key) = true -> setting_ok (STLSCerts ver pem key).
Proof.
  cbn [wf_setting]. intros Hw pre post p z Hc _. cbv zeta. unfold tag_of, interp_step. cbn [enc].
  cbv zeta. rewrite !take_clamp16, <- !len_take16. rewrite <- (is_nil_take16 pem), <- (is_nil_take16 key).
  assert (Hne : 0 < len (take 65535 pem) + len (take 65535 key)).
  { pose proof (len_take16_range pem). pose proof (len_take16_range key).
    assert (Hn : nonempty pem || nonempty key = true) by (destruct (nonempty pem || nonempty key); [reflexivity|rewrite andb_false_r in Hw; discriminate]).
    unfold nonempty in Hn. apply orb_true_iff in Hn. destruct Hn as [Hn|Hn]; apply nonempty_len, len16_pos in Hn; lia. }
  set (bp := take 65535 pem) in *. set (bk := take 65535 key) in *. set (lp := len bp) in *. set (lk := len bk) in *.
  assert (Hlp : 0 <= lp < 65536) by (subst lp bp; apply len_take16_range).
  assert (Hlk : 0 <= lk < 65536) by (subst lk bk; apply len_take16_range).
  change ([181; lo8 ver; hi8 lp; lo8 lp; hi8 lk; lo8 lk] ++ bp ++ bk) with (181 :: lo8 ver :: hi8 lp :: lo8 lp :: hi8 lk :: lo8 lk :: (bp ++ bk)).
  nzlit. change (kind_of 181) with KTLSCert.
  set (e := 181 :: lo8 ver :: hi8 lp :: lo8 lp :: hi8 lk :: lo8 lk :: (bp ++ bk)).
  assert (HL : len e = 6 + lp + lk). { subst e. rewrite !len_cons, len_app; fold lp lk; lia. }
  rewrite HL. pose proof (len_nonneg pre). pose proof (len_nonneg post).
  assert (Hi : len pre = len pre) by reflexivity.
  assert (Hlc : len (pre ++ e ++ post) = len pre + (6 + lp + lk) + len post) by (rewrite !len_app, HL; lia).
  split; [|split; [reflexivity|]].
  - pose proof (next_head pre e post (6 + lp + lk) HL ltac:(lia)) as N. cbv zeta in N.
    subst e. rewrite nz_0 in N. change (kind_of 181) with KTLSCert in N. cbv iota in N.
    set (e := 181 :: lo8 ver :: hi8 lp :: lo8 lp :: hi8 lk :: lo8 lk :: (bp ++ bk)) in *. rewrite Hlc in N.
    replace (len pre + (6 + lp + lk) + len post <=? len pre + 6) with false in N by lia.
    rewrite !(idx_mid pre e post (len pre) _ Hi) in N by lia. rewrite !bind_Ok in N. subst e. rewrite nz_2, nz_3, nz_4, nz_5 in N.
    rewrite !w16_hi_lo in N by lia.
    apply stride_ok_exact; try lia. rewrite N. f_equal. lia.
  - unfold build_step. rewrite (Hc eq_refl).
    replace (len pre + (6 + lp + lk) <=? len pre + 6) with false by lia.
    rewrite !(idx_mid pre e post (len pre) _ Hi) by lia. rewrite !bind_Ok. subst e. nzlit.
    rewrite !w16_hi_lo by lia. cbv zeta.
    match goal with |- context [if ?b then Err EInvalid else _] => replace b with false by lia end.
    rewrite (slice_mid pre _ post _ _ 6) by (rewrite ?len_cons, ?len_app; fold lp lk; lia). rewrite bind_Ok.
    rewrite (slice_mid pre _ post _ _ (6 + lp)) by (rewrite ?len_cons, ?len_app; fold lp lk; lia). rewrite bind_Ok.
    change (181 :: lo8 ver :: hi8 lp :: lo8 lp :: hi8 lk :: lo8 lk :: bp ++ bk) with ([181; lo8 ver; hi8 lp; lo8 lp; hi8 lk; lo8 lk] ++ (bp ++ bk)).
    rewrite (drop_app_exact [181; lo8 ver; hi8 lp; lo8 lp; hi8 lk; lo8 lk] (bp ++ bk) 6) by reflexivity.
    rewrite (drop_app_ge [181; lo8 ver; hi8 lp; lo8 lp; hi8 lk; lo8 lk] (bp ++ bk)) by (change (len [181; lo8 ver; hi8 lp; lo8 lp; hi8 lk; lo8 lk]) with 6; lia).
    change (len [181; lo8 ver; hi8 lp; lo8 lp; hi8 lk; lo8 lk]) with 6.
    rewrite (take_app_exact bp bk) by (fold lp; lia).
    rewrite (drop_app_exact bp bk) by (fold lp; lia).
    rewrite take_all by (fold lk; lia).
    rewrite tls_conn_ok, bind_Ok. cbn [is_nil negb andb b2z]. reflexivity.
Qed.

Lemma ok_mutls ver ca pem key : wf_setting (SMuTLS ver ca pem key) = true -> setting_ok (SMuTLS ver ca pem key).
Proof.
  cbn [wf_setting]. intros Hw pre post p z Hc _. cbv zeta. unfold tag_of, interp_step. cbn [enc].
  cbv zeta. rewrite !take_clamp16, <- !len_take16. rewrite <- (is_nil_take16 pem), <- (is_nil_take16 key), <- (is_nil_take16 ca).
  assert (Hne : 0 < len (take 65535 ca) + len (take 65535 pem) + len (take 65535 key)).
  { pose proof (len_take16_range pem). pose proof (len_take16_range key). pose proof (len_take16_range ca).
    assert (Hn : nonempty ca || nonempty pem || nonempty key = true) by (destruct (nonempty ca || nonempty pem || nonempty key); [reflexivity|rewrite andb_false_r in Hw; discriminate]).
    unfold nonempty in Hn. apply orb_true_iff in Hn. destruct Hn as [Hn|Hn]; [apply orb_true_iff in Hn; destruct Hn as [Hn|Hn]|];
      apply nonempty_len, len16_pos in Hn; lia. }
  set (ba := take 65535 ca) in *. set (bp := take 65535 pem) in *. set (bk := take 65535 key) in *.
  set (la := len ba) in *. set (lp := len bp) in *. set (lk := len bk) in *.
  assert (Hla : 0 <= la < 65536) by (subst la ba; apply len_take16_range).
  assert (Hlp : 0 <= lp < 65536) by (subst lp bp; apply len_take16_range).
  assert (Hlk : 0 <= lk < 65536) by (subst lk bk; apply len_take16_range).
  change ([179; lo8 ver; hi8 la; lo8 la; hi8 lp; lo8 lp; hi8 lk; lo8 lk] ++ ba ++ bp ++ bk)
    with (179 :: lo8 ver :: hi8 la :: lo8 la :: hi8 lp :: lo8 lp :: hi8 lk :: lo8 lk :: (ba ++ bp ++ bk)).
  nzlit. change (kind_of 179) with KMuTLS.
  set (hdr := [179; lo8 ver; hi8 la; lo8 la; hi8 lp; lo8 lp; hi8 lk; lo8 lk]).
  set (e := 179 :: lo8 ver :: hi8 la :: lo8 la :: hi8 lp :: lo8 lp :: hi8 lk :: lo8 lk :: (ba ++ bp ++ bk)).
  assert (HL : len e = 8 + la + lp + lk). { subst e. rewrite !len_cons, !len_app; fold la lp lk; lia. }
  rewrite HL. pose proof (len_nonneg pre). pose proof (len_nonneg post).
  assert (Hi : len pre = len pre) by reflexivity.
  assert (Hlc : len (pre ++ e ++ post) = len pre + (8 + la + lp + lk) + len post) by (rewrite !len_app, HL; lia).
  split; [|split; [reflexivity|]].
  - pose proof (next_head pre e post (8 + la + lp + lk) HL ltac:(lia)) as N. cbv zeta in N.
    subst e. rewrite nz_0 in N. change (kind_of 179) with KMuTLS in N. cbv iota in N.
    set (e := 179 :: lo8 ver :: hi8 la :: lo8 la :: hi8 lp :: lo8 lp :: hi8 lk :: lo8 lk :: (ba ++ bp ++ bk)) in *. rewrite Hlc in N.
    replace (len pre + (8 + la + lp + lk) + len post <=? len pre + 7) with false in N by lia.
    rewrite !(idx_mid pre e post (len pre) _ Hi) in N by lia. rewrite !bind_Ok in N. subst e.
    rewrite nz_2, nz_3, nz_4, nz_5, nz_6, nz_7 in N.
    rewrite !w16_hi_lo in N by lia.
    apply stride_ok_exact; try lia. rewrite N. f_equal. lia.
  - unfold build_step. rewrite (Hc eq_refl).
    replace (len pre + (8 + la + lp + lk) <=? len pre + 7) with false by lia.
    rewrite !(idx_mid pre e post (len pre) _ Hi) by lia. rewrite !bind_Ok. subst e. nzlit.
    rewrite !w16_hi_lo by lia. cbv zeta.
    match goal with |- context [if ?b then Err EInvalid else _] => replace b with false by lia end.
    rewrite (slice_mid pre _ post _ _ 8) by (rewrite ?len_cons, ?len_app; fold la lp lk; lia). rewrite bind_Ok.
    rewrite (slice_mid pre _ post _ _ (8 + la)) by (rewrite ?len_cons, ?len_app; fold la lp lk; lia). rewrite bind_Ok.
    rewrite (slice_mid pre _ post _ _ (8 + la + lp)) by (rewrite ?len_cons, ?len_app; fold la lp lk; lia). rewrite bind_Ok.
    change (179 :: lo8 ver :: hi8 la :: lo8 la :: hi8 lp :: lo8 lp :: hi8 lk :: lo8 lk :: ba ++ bp ++ bk) with (hdr ++ (ba ++ bp ++ bk)).
    rewrite (drop_app_exact hdr (ba ++ bp ++ bk) 8) by reflexivity.
    rewrite !(drop_app_ge hdr (ba ++ bp ++ bk)) by (change (len hdr) with 8; lia).
    change (len hdr) with 8.
    rewrite (take_app_exact ba (bp ++ bk)) by (fold la; lia).
    replace (8 + la - 8) with la by lia. rewrite (drop_app_exact ba (bp ++ bk)) by reflexivity.
    rewrite (take_app_exact bp bk) by (fold lp; lia).
    rewrite (drop_app_ge ba (bp ++ bk)) by (fold la; lia). fold la.
    replace (8 + la + lp - 8 - la) with lp by lia. rewrite (drop_app_exact bp bk) by reflexivity.
    rewrite take_all by (fold lk; lia).
    rewrite tls_conn_ok, bind_Ok. cbn [is_nil negb andb b2z]. rewrite andb_true_r. reflexivity.
Qed.

(* ---- AES ---------------------------------------------------------------------------------------------- *)
Lemma ok_aes k iv : wf_setting (SAES k iv) = true -> setting_ok (SAES k iv).
Proof.
  cbn [wf_setting]. intros Hw pre post p z _ _. cbv zeta. unfold tag_of, interp_step. cbn [enc]. cbv zeta.
  assert (Hk : aes_keylen_ok (len k) = true /\ len iv = 16).
  { destruct (aes_keylen_ok (len k)); [|rewrite andb_false_r in Hw; cbn in Hw; discriminate]. split; [reflexivity|]. lia. }
  destruct Hk as [Hk Hiv]. assert (Hk' : len k = 16 \/ len k = 24 \/ len k = 32) by (unfold aes_keylen_ok in Hk; lia).
  set (lk := len k) in *.
  replace (clamp8 lk) with lk by (unfold clamp8; destruct (255 <? lk) eqn:E; lia).
  rewrite Hiv. rewrite (take_all k) by (fold lk; lia). fold lk.
  replace (lk + 16 - lk) with 16 by lia. rewrite (take_all iv) by lia.
  change (lo8 16) with 16.
  change ([214; lk; 16] ++ k ++ iv) with (214 :: lk :: 16 :: (k ++ iv)). nzlit. change (kind_of 214) with KAES.
  set (hdr := [214; lk; 16]).
  set (e := 214 :: lk :: 16 :: (k ++ iv)).
  assert (HL : len e = 3 + lk + 16). { subst e. rewrite !len_cons, !len_app; fold lk; lia. }
  rewrite HL. pose proof (len_nonneg pre). pose proof (len_nonneg post).
  assert (Hi : len pre = len pre) by reflexivity.
  assert (Hlc : len (pre ++ e ++ post) = len pre + (3 + lk + 16) + len post) by (rewrite !len_app, HL; lia).
  split; [|split; [reflexivity|]].
  - pose proof (next_head pre e post (3 + lk + 16) HL ltac:(lia)) as N. cbv zeta in N.
    subst e. rewrite nz_0 in N. change (kind_of 214) with KAES in N. cbv iota in N.
    set (e := 214 :: lk :: 16 :: (k ++ iv)) in *. rewrite Hlc in N.
    replace (len pre + (3 + lk + 16) + len post <=? len pre + 3) with false in N by lia.
    rewrite !(idx_mid pre e post (len pre) _ Hi) in N by lia. rewrite !bind_Ok in N. subst e.
    rewrite nz_1, nz_2 in N.
    apply stride_ok_exact; try lia. rewrite N. f_equal. lia.
  - unfold build_step.
    replace (len pre + (3 + lk + 16) <=? len pre + 3) with false by lia.
    rewrite !(idx_mid pre e post (len pre) _ Hi) by lia. rewrite !bind_Ok. subst e. nzlit. cbv zeta.
    match goal with |- context [if ?b then Err EInvalid else _] => replace b with false by lia end.
    rewrite (slice_mid pre _ post _ _ 3) by (rewrite ?len_cons, ?len_app; fold lk; lia). rewrite bind_Ok.
    change (214 :: lk :: 16 :: k ++ iv) with (hdr ++ (k ++ iv)).
    rewrite (drop_app_exact hdr (k ++ iv) 3) by reflexivity.
    rewrite (take_app_exact k iv) by (fold lk; lia). fold lk. rewrite Hk. cbn [negb].
    rewrite (slice_mid pre _ post _ _ (3 + lk)) by (rewrite ?len_app; change (len hdr) with 3; fold lk; lia). rewrite bind_Ok.
    rewrite (drop_app_ge hdr (k ++ iv)) by (change (len hdr) with 3; lia). change (len hdr) with 3.
    replace (3 + lk - 3) with lk by lia. rewrite (drop_app_exact k iv) by reflexivity.
    rewrite take_all by lia. rewrite Hiv. cbn [negb Z.eqb Pos.eqb]. reflexivity.
Qed.

(* ---- DNS names ----------------------------------------------------------------------------------------- *)
Definition dnsbody (ws : list (list Z)) : list Z := flat_map (fun w => len w :: w) ws.

Lemma dnsbody_cons w ws : dnsbody (w :: ws) = (len w :: w) ++ dnsbody ws.
Proof. reflexivity. Qed.

Lemma enc_names_body ns : flat_map enc_name ns = dnsbody (map (take 255) ns).
Proof. induction ns as [|v ns IH]; [reflexivity|]. cbn [flat_map map]. rewrite IH. reflexivity. Qed.

Lemma app_assoc3 {A} (a m b : list A) x : a ++ (x ++ m) ++ b = (a ++ x) ++ m ++ b.
Proof. rewrite <- !app_assoc. reflexivity. Qed.

Lemma dns_walk_body : forall ws a b, dns_walk (a ++ dnsbody ws ++ b) (length ws) (len a) = Ok (len a + len (dnsbody ws)).
Proof.
  induction ws as [|w ws IH]; intros a b; cbn [length dns_walk].
  - cbn [dnsbody flat_map]. rewrite len_nil. f_equal. lia.
  - rewrite dnsbody_cons. pose proof (len_nonneg a). pose proof (len_nonneg b). pose proof (len_nonneg w).
    pose proof (len_nonneg (dnsbody ws)).
    replace (len a <? len (a ++ ((len w :: w) ++ dnsbody ws) ++ b)) with true by (rewrite !len_app, len_cons; lia).
    rewrite (idx_mid0 a ((len w :: w) ++ dnsbody ws) b (len a) eq_refl) by (rewrite len_app, len_cons; lia).
    rewrite bind_Ok. change (nz ((len w :: w) ++ dnsbody ws) 0) with (len w).
    rewrite app_assoc3. replace (len a + (len w + 1)) with (len (a ++ len w :: w)) by (rewrite len_app, len_cons; lia).
    rewrite IH. f_equal. rewrite !len_app, !len_cons. lia.
Qed.

Lemma dns_names_body i : forall ws a b, 0 <= i <= len a -> Forall (fun w => 0 < len w) ws ->
  dns_names (length ws) (a ++ dnsbody ws ++ b) i (len a + len (dnsbody ws)) (len a) (len a) = Ok ws.
Proof.
  induction ws as [|w ws IH]; intros a b Hi Hw; cbn [length dns_names]; [reflexivity|].
  rewrite dnsbody_cons. inversion Hw as [|? ? Hw1 Hw2]; subst.
  pose proof (len_nonneg a). pose proof (len_nonneg b). pose proof (len_nonneg (dnsbody ws)).
  assert (HL : len ((len w :: w) ++ dnsbody ws) = 1 + len w + len (dnsbody ws)) by (rewrite len_app, len_cons; lia).
  rewrite HL. replace (len a <? len a + (1 + len w + len (dnsbody ws))) with true by lia.
  rewrite (idx_mid0 a ((len w :: w) ++ dnsbody ws) b (len a) eq_refl) by lia.
  rewrite bind_Ok. change (nz ((len w :: w) ++ dnsbody ws) 0) with (len w). cbv zeta.
  match goal with |- context [if ?c then Err EInvalid else _] => replace c with false by lia end.
  rewrite (slice_mid a _ b _ _ 1) by lia. rewrite bind_Ok.
  change (drop 1 ((len w :: w) ++ dnsbody ws)) with (w ++ dnsbody ws).
  rewrite take_app_exact by lia.
  rewrite app_assoc3. replace (len a + (len w + 1)) with (len (a ++ len w :: w)) by (rewrite len_app, len_cons; lia).
  replace (len a + (1 + len w + len (dnsbody ws))) with (len (a ++ len w :: w) + len (dnsbody ws)) by (rewrite len_app, len_cons; lia).
  rewrite IH; [reflexivity| rewrite len_app, len_cons; lia | assumption].
Qed.

Lemma firstn255_len {A} (l : list A) : len (firstn 255 l) = clamp8 (len l).
Proof.
  unfold len, clamp8. rewrite firstn_length. destruct (255 <? Z.of_nat (length l)) eqn:E; lia.
Qed.

Lemma ok_dns names : wf_setting (SDNS names) = true -> setting_ok (SDNS names).
Proof.
  cbn [wf_setting]. intros Hw pre post p z _ Ht. cbv zeta. unfold tag_of, interp_step. cbn [enc].
  rewrite enc_names_body, <- firstn255_len.
  set (ws := map (take 255) (firstn 255 names)).
  assert (Hlen : len (firstn 255 names) = len ws) by (subst ws; unfold len; rewrite map_length; reflexivity).
  rewrite Hlen.
  assert (Hws : Forall (fun w => 0 < len w) ws).
  { subst ws. rewrite Forall_map. rewrite forallb_forall in Hw. rewrite Forall_forall. intros v Hv.
    assert (Hin : In v names) by (rewrite <- (firstn_skipn 255 names); apply in_or_app; left; exact Hv).
    specialize (Hw v Hin). unfold nonempty in Hw. apply andb_true_iff in Hw. destruct Hw as [Hn _].
    apply nonempty_len in Hn. rewrite len_take_min by lia. lia. }
  assert (Hcn : 0 <= len ws < 256).
  { rewrite <- Hlen, firstn255_len. pose proof (len_nonneg names). pose proof (clamp8_range (len names)). lia. }
  change ([225; len ws] ++ dnsbody ws) with (225 :: len ws :: dnsbody ws). nzlit. change (kind_of 225) with KDNS.
  set (e := 225 :: len ws :: dnsbody ws).
  assert (HL : len e = 2 + len (dnsbody ws)) by (subst e; rewrite !len_cons; lia).
  rewrite HL. pose proof (len_nonneg pre). pose proof (len_nonneg post). pose proof (len_nonneg (dnsbody ws)).
  assert (Hi : len pre = len pre) by reflexivity.
  assert (Hlc : len (pre ++ e ++ post) = len pre + (2 + len (dnsbody ws)) + len post) by (rewrite !len_app, HL; lia).
  assert (Hshape : pre ++ e ++ post = (pre ++ [225; len ws]) ++ dnsbody ws ++ post) by (subst e; rewrite <- app_assoc; reflexivity).
  assert (Hpl : len (pre ++ [225; len ws]) = len pre + 2) by (rewrite len_app; reflexivity).
  split; [|split; [reflexivity|]].
  - pose proof (next_head pre e post (2 + len (dnsbody ws)) HL ltac:(lia)) as N. cbv zeta in N.
    subst e. rewrite nz_0 in N. change (kind_of 225) with KDNS in N. cbv iota in N.
    set (e := 225 :: len ws :: dnsbody ws) in *. rewrite Hlc in N.
    replace (len pre + (2 + len (dnsbody ws)) + len post <=? len pre + 1) with false in N by lia.
    rewrite !(idx_mid pre e post (len pre) _ Hi) in N by lia. rewrite !bind_Ok in N. subst e. rewrite nz_1 in N.
    set (e := 225 :: len ws :: dnsbody ws) in *.
    replace (Z.to_nat (len ws)) with (length ws) in N by (unfold len; lia).
    rewrite Hshape in N. rewrite <- Hpl in N.
    rewrite dns_walk_body in N. rewrite <- Hshape in N.
    apply stride_ok_exact; try lia. rewrite N. f_equal. lia.
  - unfold build_step. rewrite (Ht eq_refl).
    replace (len pre + (2 + len (dnsbody ws)) <=? len pre + 1) with false by lia.
    rewrite !(idx_mid pre e post (len pre) _ Hi) by lia. rewrite !bind_Ok. subst e. nzlit.
    set (e := 225 :: len ws :: dnsbody ws) in *.
    replace (Z.to_nat (len ws)) with (length ws) by (unfold len; lia).
    replace (len pre + (2 + len (dnsbody ws))) with (len (pre ++ [225; len ws]) + len (dnsbody ws)) by lia.
    rewrite Hshape. rewrite <- Hpl.
    rewrite (dns_names_body (len pre) ws (pre ++ [225; len ws]) post); [reflexivity|lia|assumption].
Qed.

(* ---- WC2 ------------------------------------------------------------------------------------------------- *)
Definition hent (kv : list Z * list Z) : list Z := [len (fst kv); len (snd kv)] ++ fst kv ++ snd kv.
Definition hbody (ps : list (list Z * list Z)) : list Z := flat_map hent ps.

Lemma hbody_cons kv ps : hbody (kv :: ps) = hent kv ++ hbody ps.
Proof. reflexivity. Qed.
Lemma enc_hdrs_body hs : flat_map enc_hdr hs = hbody (map trunc_hdr hs).
Proof. induction hs as [|kv hs IH]; [reflexivity|]. cbn [flat_map map]. rewrite IH. reflexivity. Qed.
Lemma len_hent kv : len (hent kv) = 2 + len (fst kv) + len (snd kv).
Proof. unfold hent. rewrite len_app, len_app. change (len [len (fst kv); len (snd kv)]) with 2. lia. Qed.

Lemma wc2_walk_body : forall ps a b, 0 < len a ->
  wc2_walk (a ++ hbody ps ++ b) (length ps) (len a) = Ok (len a + len (hbody ps)).
Proof.
  induction ps as [|kv ps IH]; intros a b Ha; cbn [length wc2_walk].
  - cbn [hbody flat_map]. rewrite len_nil. f_equal. lia.
  - rewrite hbody_cons. pose proof (len_nonneg b). pose proof (len_nonneg (fst kv)). pose proof (len_nonneg (snd kv)).
    pose proof (len_nonneg (hbody ps)). pose proof (len_hent kv) as Hh.
    assert (HL : len (hent kv ++ hbody ps) = 2 + len (fst kv) + len (snd kv) + len (hbody ps)) by (rewrite len_app; lia).
    replace ((len a + 1 <? len (a ++ (hent kv ++ hbody ps) ++ b)) && (0 <? len a)) with true by (rewrite !len_app; lia).
    rewrite (idx_mid0 a (hent kv ++ hbody ps) b (len a) eq_refl) by lia.
    rewrite (idx_mid a (hent kv ++ hbody ps) b (len a) 1 eq_refl) by lia.
    rewrite !bind_Ok. change (nz (hent kv ++ hbody ps) 0) with (len (fst kv)). change (nz (hent kv ++ hbody ps) 1) with (len (snd kv)).
    rewrite app_assoc3.
    replace (len a + (len (fst kv) + len (snd kv) + 2)) with (len (a ++ hent kv)) by (rewrite len_app; lia).
    rewrite IH by (rewrite len_app; lia). f_equal. rewrite !len_app. lia.
Qed.

Lemma wc2_hdrs_body i : forall ps a b fuel q j, 0 <= i <= len a ->
  Forall (fun kv => 0 < len (fst kv)) ps ->
  (ps <> [] -> q < len a + len (hbody ps) /\ j < len a + len (hbody ps)) ->
  (length ps < fuel)%nat ->
  wc2_hdrs fuel (a ++ hbody ps ++ b) i (len a + len (hbody ps)) (len a) q j = Ok ps.
Proof.
  induction ps as [|kv ps IH]; intros a b fuel q j Hi Hw Hq Hf.
  - destruct fuel as [|f]; [cbn in Hf; lia|]. cbn [wc2_hdrs hbody flat_map]. rewrite len_nil.
    replace ((len a <? len a + 0) && (q <? len a + 0) && (j <? len a + 0)) with false by lia. reflexivity.
  - destruct fuel as [|f]; [cbn in Hf; lia|]. cbn [wc2_hdrs].
    rewrite hbody_cons. inversion Hw as [|? ? Hw1 Hw2]; subst.
    pose proof (len_nonneg b). pose proof (len_nonneg (fst kv)). pose proof (len_nonneg (snd kv)).
    pose proof (len_nonneg (hbody ps)). pose proof (len_hent kv) as Hh.
    assert (HL : len (hent kv ++ hbody ps) = 2 + len (fst kv) + len (snd kv) + len (hbody ps)) by (rewrite len_app; lia).
    destruct (Hq ltac:(discriminate)) as [Hq1 Hq2]. rewrite hbody_cons in Hq1, Hq2.
    rewrite HL in *.
    match goal with |- context [if ?c then _ else Ok []] => replace c with true by lia end.
    rewrite (idx_mid0 a (hent kv ++ hbody ps) b (len a) eq_refl) by lia.
    rewrite (idx_mid a (hent kv ++ hbody ps) b (len a) 1 eq_refl) by lia.
    rewrite !bind_Ok. change (nz (hent kv ++ hbody ps) 0) with (len (fst kv)). change (nz (hent kv ++ hbody ps) 1) with (len (snd kv)).
    cbv zeta.
    match goal with |- context [if ?c then Err EInvalid else _] => replace c with false by lia end.
    rewrite (slice_mid a _ b _ _ 2) by lia. rewrite bind_Ok.
    rewrite (slice_mid a _ b _ _ (2 + len (fst kv))) by lia. rewrite bind_Ok.
    assert (D1 : take (len (fst kv)) (drop 2 (hent kv ++ hbody ps)) = fst kv).
    { unfold hent. rewrite <- !app_assoc. rewrite (drop_app_exact [len (fst kv); len (snd kv)] _ 2) by reflexivity.
      apply take_app_exact. reflexivity. }
    assert (D2 : take (len (snd kv)) (drop (2 + len (fst kv)) (hent kv ++ hbody ps)) = snd kv).
    { unfold hent. rewrite <- !app_assoc.
      rewrite (drop_app_ge [len (fst kv); len (snd kv)]) by (change (len [len (fst kv); len (snd kv)]) with 2; lia).
      change (len [len (fst kv); len (snd kv)]) with 2. replace (2 + len (fst kv) - 2) with (len (fst kv)) by lia.
      rewrite (drop_app_exact (fst kv)) by reflexivity. apply take_app_exact. reflexivity. }
    replace (len (fst kv) + len a + 2 - (len a + 2)) with (len (fst kv)) by lia.
    replace (len (snd kv) + (len (fst kv) + len a + 2) - (len (fst kv) + len a + 2)) with (len (snd kv)) by lia.
    rewrite D1, D2.
    rewrite app_assoc3.
    replace (len (snd kv) + (len (fst kv) + len a + 2)) with (len (a ++ hent kv)) by (rewrite len_app; lia).
    replace (len a + (2 + len (fst kv) + len (snd kv) + len (hbody ps))) with (len (a ++ hent kv) + len (hbody ps)) by (rewrite len_app; lia).
    rewrite IH.
    + rewrite bind_Ok. destruct kv; reflexivity.
    + rewrite len_app. lia.
    + assumption.
    + intros Hne. rewrite len_app. destruct ps as [|kv2 ps]; [congruence|]. rewrite hbody_cons, !len_app, !len_hent.
      pose proof (len_nonneg (fst kv2)). pose proof (len_nonneg (snd kv2)). pose proof (len_nonneg (hbody ps)). lia.
    + cbn [length] in Hf. lia.
Qed.

Lemma len0_nil {A} (l : list A) : len l = 0 -> l = [].
Proof. destruct l; [reflexivity|]. rewrite len_cons. pose proof (len_nonneg l). lia. Qed.

Lemma firstn_all_len {A} (l : list A) n : len l <= Z.of_nat n -> firstn n l = l.
Proof. intros H. apply firstn_all2. unfold len in H. lia. Qed.

Lemma ok_wc2 url host agent nh hdrs : wf_setting (SWC2 url host agent nh hdrs) = true -> setting_ok (SWC2 url host agent nh hdrs).
Proof.
  cbn [wf_setting]. intros Hw pre post p z Hc _. cbv zeta. unfold tag_of, interp_step. cbn [enc]. cbv zeta.
  repeat (apply andb_true_iff in Hw; destruct Hw as [Hw ?]).
  assert (Hnh : nh = len hdrs) by lia. assert (Hnh2 : len hdrs <= 255) by lia.
  rewrite (firstn_all_len hdrs 255) by (change (Z.of_nat 255) with 255; lia).
  rewrite enc_hdrs_body.
  set (ps := map trunc_hdr hdrs).
  assert (Hps : len ps = nh) by (subst ps; unfold len in *; rewrite map_length; lia).
  assert (Hpw : Forall (fun kv => 0 < len (fst kv)) ps).
  { subst ps. rewrite Forall_map. rewrite Forall_forall. intros kv Hin.
    match goal with Hf : forallb _ hdrs = true |- _ => rewrite forallb_forall in Hf; specialize (Hf kv Hin) end.
    repeat (match goal with Hf : _ && _ = true |- _ => apply andb_true_iff in Hf; destruct Hf as [Hf ?] end).
    unfold trunc_hdr. cbn [fst]. match goal with Hn : nonempty _ = true |- _ => apply nonempty_len in Hn; rewrite len_take_min by lia; lia end. }
  assert (Hhb : (if nh =? 0 then [] else hbody ps) = hbody ps).
  { destruct (nh =? 0) eqn:E; [|reflexivity]. assert (Hp0 : ps = []) by (apply len0_nil; lia). rewrite Hp0. reflexivity. }
  rewrite Hhb. rewrite (lo8_small nh) by (pose proof (len_nonneg hdrs); lia).
  set (u := take 65535 url). set (h := take 65535 host). set (a := take 65535 agent).
  set (lu := len u). set (lh := len h). set (la := len a).
  assert (Hlu : 0 <= lu < 65536) by (subst lu u; apply len_take16_range).
  assert (Hlh : 0 <= lh < 65536) by (subst lh h; apply len_take16_range).
  assert (Hla : 0 <= la < 65536) by (subst la a; apply len_take16_range).
  set (hdr := [177; hi8 lu; lo8 lu; hi8 lh; lo8 lh; hi8 la; lo8 la; nh]).
  change (hdr ++ u ++ h ++ a ++ hbody ps) with (177 :: hi8 lu :: lo8 lu :: hi8 lh :: lo8 lh :: hi8 la :: lo8 la :: nh :: (u ++ h ++ a ++ hbody ps)).
  nzlit. change (kind_of 177) with KWC2.
  set (e := 177 :: hi8 lu :: lo8 lu :: hi8 lh :: lo8 lh :: hi8 la :: lo8 la :: nh :: (u ++ h ++ a ++ hbody ps)).
  pose proof (len_nonneg (hbody ps)) as Hhb0.
  assert (HL : len e = 8 + lu + lh + la + len (hbody ps)). { subst e. rewrite !len_cons, !len_app; fold lu lh la; lia. }
  rewrite HL. pose proof (len_nonneg pre). pose proof (len_nonneg post).
  assert (Hi : len pre = len pre) by reflexivity.
  assert (Hlc : len (pre ++ e ++ post) = len pre + (8 + lu + lh + la + len (hbody ps)) + len post) by (rewrite !len_app, HL; lia).
  set (pa := pre ++ hdr ++ u ++ h ++ a).
  assert (Hshape : pre ++ e ++ post = pa ++ hbody ps ++ post).
  { subst e pa. change (177 :: hi8 lu :: lo8 lu :: hi8 lh :: lo8 lh :: hi8 la :: lo8 la :: nh :: (u ++ h ++ a ++ hbody ps)) with (hdr ++ u ++ h ++ a ++ hbody ps).
    rewrite <- !app_assoc. reflexivity. }
  assert (Hpa : len pa = len pre + 8 + lu + lh + la).
  { subst pa. rewrite !len_app. change (len hdr) with 8. fold lu lh la. lia. }
  assert (Hnps : Z.to_nat nh = length ps) by (unfold len in Hps; lia).
  split; [|split; [reflexivity|]].
  - pose proof (next_head pre e post _ HL ltac:(lia)) as N. cbv zeta in N.
    subst e. rewrite nz_0 in N. change (kind_of 177) with KWC2 in N. cbv iota in N.
    set (e := 177 :: hi8 lu :: lo8 lu :: hi8 lh :: lo8 lh :: hi8 la :: lo8 la :: nh :: (u ++ h ++ a ++ hbody ps)) in *. rewrite Hlc in N.
    replace (len pre + (8 + lu + lh + la + len (hbody ps)) + len post <=? len pre + 7) with false in N by lia.
    rewrite !(idx_mid pre e post (len pre) _ Hi) in N by lia. rewrite !bind_Ok in N. subst e.
    rewrite nz_1, nz_2, nz_3, nz_4, nz_5, nz_6, nz_7 in N.
    rewrite !w16_hi_lo in N by lia. cbv zeta in N.
    set (e := 177 :: hi8 lu :: lo8 lu :: hi8 lh :: lo8 lh :: hi8 la :: lo8 la :: nh :: (u ++ h ++ a ++ hbody ps)) in *.
    destruct (len pre + (8 + lu + lh + la + len (hbody ps)) + len post <=? len pre + 8 + lu + lh + la) eqn:E.
    + assert (len post = 0) by lia. destruct post as [|x post]; [|rewrite len_cons in *; pose proof (len_nonneg post); lia].
      apply stride_ok_end; [rewrite Hlc; rewrite len_nil; lia|exact N].
    + rewrite idx_in in N by (rewrite Hlc; lia). rewrite bind_Ok in N.
      destruct (nh =? 0) eqn:E0.
      * assert (Hp0 : ps = []) by (apply len0_nil; lia). rewrite Hp0 in *. cbn [hbody flat_map] in *. rewrite len_nil in *.
        apply stride_ok_exact; try lia. rewrite N. f_equal. lia.
      * rewrite Hnps in N. rewrite Hshape in N. rewrite <- Hpa in N. rewrite wc2_walk_body in N by lia.
        rewrite <- Hshape in N. apply stride_ok_exact; try lia. rewrite N. f_equal. lia.
  - unfold build_step. rewrite (Hc eq_refl).
    replace (len pre + (8 + lu + lh + la + len (hbody ps)) <=? len pre + 7) with false by lia.
    rewrite !(idx_mid pre e post (len pre) _ Hi) by lia. rewrite !bind_Ok. subst e. nzlit.
    rewrite !w16_hi_lo by lia. cbv zeta.
    set (e := 177 :: hi8 lu :: lo8 lu :: hi8 lh :: lo8 lh :: hi8 la :: lo8 la :: nh :: (u ++ h ++ a ++ hbody ps)) in *.
    set (n := len pre + (8 + lu + lh + la + len (hbody ps))).
    match goal with |- context [if ?c then Err EInvalid else _] => replace c with false by lia end.
    assert (De : e = hdr ++ u ++ h ++ a ++ hbody ps) by reflexivity.
    assert (U : (if len pre + 8 <? lu + len pre + 8 then slice (pre ++ e ++ post) (len pre + 8) (lu + len pre + 8) else Ok []) = Ok u).
    { destruct (len pre + 8 <? lu + len pre + 8) eqn:E.
      - rewrite (slice_mid pre e post _ _ 8) by lia. f_equal. rewrite De.
        rewrite (drop_app_exact hdr _ 8) by reflexivity. apply take_app_exact. fold lu. lia.
      - f_equal. symmetry. apply len0_nil. fold lu. lia. }
    rewrite U, bind_Ok.
    assert (Hh : (if lu + len pre + 8 <? lh + (lu + len pre + 8)
                  then if (n <? lh + (lu + len pre + 8)) || (n <? lu + len pre + 8) || (lh + (lu + len pre + 8) <? lu + len pre + 8)
                          || (lu + len pre + 8 <? len pre) || (lh + (lu + len pre + 8) <? len pre)
                       then Err EInvalid else slice (pre ++ e ++ post) (lu + len pre + 8) (lh + (lu + len pre + 8))
                  else Ok []) = Ok h).
    { destruct (lu + len pre + 8 <? lh + (lu + len pre + 8)) eqn:E.
      - match goal with |- context [if ?c then Err EInvalid else _] => replace c with false by (subst n; lia) end.
        rewrite (slice_mid pre e post _ _ (8 + lu)) by lia. f_equal. rewrite De.
        rewrite (drop_app_ge hdr) by (change (len hdr) with 8; lia). change (len hdr) with 8.
        replace (8 + lu - 8) with lu by lia. rewrite (drop_app_exact u) by reflexivity. apply take_app_exact. fold lh. lia.
      - f_equal. symmetry. apply len0_nil. fold lh. lia. }
    rewrite Hh, bind_Ok.
    assert (Ha : (if lh + (lu + len pre + 8) <? la + (lh + (lu + len pre + 8))
                  then if (n <? la + (lh + (lu + len pre + 8))) || (n <? lh + (lu + len pre + 8)) || (la + (lh + (lu + len pre + 8)) <? lh + (lu + len pre + 8))
                          || (lh + (lu + len pre + 8) <? len pre) || (la + (lh + (lu + len pre + 8)) <? len pre)
                       then Err EInvalid else slice (pre ++ e ++ post) (lh + (lu + len pre + 8)) (la + (lh + (lu + len pre + 8)))
                  else Ok []) = Ok a).
    { destruct (lh + (lu + len pre + 8) <? la + (lh + (lu + len pre + 8))) eqn:E.
      - match goal with |- context [if ?c then Err EInvalid else _] => replace c with false by (subst n; lia) end.
        rewrite (slice_mid pre e post _ _ (8 + lu + lh)) by lia. f_equal. rewrite De.
        rewrite (drop_app_ge hdr) by (change (len hdr) with 8; lia). change (len hdr) with 8.
        rewrite (drop_app_ge u) by (fold lu; lia). fold lu.
        replace (8 + lu + lh - 8 - lu) with lh by lia. rewrite (drop_app_exact h) by reflexivity. apply take_app_exact. fold la. lia.
      - f_equal. symmetry. apply len0_nil. fold la. lia. }
    rewrite Ha, bind_Ok.
    assert (Hhs : (if 0 <? nh then wc2_hdrs (length (pre ++ e ++ post)) (pre ++ e ++ post) (len pre) n
                     (la + (lh + (lu + len pre + 8))) (lh + (lu + len pre + 8)) 0 else Ok []) = Ok ps).
    { destruct (0 <? nh) eqn:E.
      - rewrite Hshape. replace n with (len pa + len (hbody ps)) by (subst n; lia).
        replace (la + (lh + (lu + len pre + 8))) with (len pa) by lia.
        apply wc2_hdrs_body; try assumption; try lia.
        + intros Hne. destruct ps as [|kv ps']; [congruence|]. rewrite hbody_cons, len_app, len_hent.
          pose proof (len_nonneg (fst kv)). pose proof (len_nonneg (snd kv)). pose proof (len_nonneg (hbody ps')). lia.
        + rewrite !app_length. assert (Hb3 : (2 * length ps <= length (hbody ps))%nat).
          { clear. induction ps as [|kv ps IH]; [cbn; lia|]. rewrite hbody_cons, app_length. unfold hent. rewrite !app_length. cbn [length].
            lia. }
          lia.
      - f_equal. symmetry. apply len0_nil. pose proof (len_nonneg ps). lia. }
    rewrite Hhs, bind_Ok. reflexivity.
Qed.

(* ---- every constructor --------------------------------------------------------------------------------- *)
Lemma all_settings_ok s : wf_setting s = true -> enc s <> [] -> setting_ok s.
Proof.
  destruct s; intros Hw He.
  - apply ok_host; assumption.
  - apply ok_sleep; assumption.
  - apply ok_jitter; assumption.
  - apply ok_weight; assumption.
  - apply ok_killdate; assumption.
  - apply ok_workhours; assumption.
  - apply ok_keypin; assumption.
  - apply ok_bit; assumption.
  - apply ok_ip; assumption.
  - apply ok_wc2; assumption.
  - apply ok_tlsex; assumption.
  - apply ok_tlsexca; assumption.
  - apply ok_tlscerts; assumption.
  - apply ok_mutls; assumption.
  - apply ok_xor; assumption.
  - apply ok_cbk; assumption.
  - apply ok_aes; assumption.
  - apply ok_dns; assumption.
  - apply ok_b64s; assumption.
Qed.

(* a nil Setting (Host(""), Sleep(<=0), Weight(0), KeyPin(empty key)) changes nothing *)
Lemma interp_nil s st : enc s = [] -> interp_step s st = st.
Proof.
  destruct st as [p z]. destruct s; cbn [enc interp_step]; intros He; try discriminate;
    try (match goal with |- (if ?b then _ else _) = _ => destruct b; [reflexivity|discriminate] end).
  destruct zero; discriminate.
Qed.

(* connection / transform flags after a setting *)
Lemma interp_flags s p z : wf_setting s = true ->
  has_conn (fst (interp_step s (p, z))) = (has_conn p || is_conn s) /\
  has_trans (fst (interp_step s (p, z))) = (has_trans p || is_trans s).
Proof.
  intros Hw. destruct s; cbn [interp_step is_conn is_trans fst];
    try (match goal with |- context [if ?b then (p, z) else _] => destruct b end);
    cbn [fst]; rewrite ?orb_false_r, ?orb_true_r; try (split; reflexivity).
  cbn [wf_setting] in Hw. destruct (kind_of b); try discriminate; cbn [fst]; rewrite ?orb_false_r, ?orb_true_r; split; reflexivity.
Qed.

(* ---- one group ------------------------------------------------------------------------------------------ *)
Definition run (ss : list setting) (st : bstate) : bstate := fold_left (fun st s => interp_step s st) ss st.

Lemma count_if_cons {A} (f : A -> bool) x l : count_if f (x :: l) = b2z (f x) + count_if f l.
Proof. unfold count_if. cbn [filter]. destruct (f x); cbn [b2z]; rewrite ?len_cons; lia. Qed.
Lemma count_if_nonneg {A} (f : A -> bool) l : 0 <= count_if f l.
Proof. unfold count_if. apply len_nonneg. Qed.

Lemma pack_cons s ss : pack (s :: ss) = enc s ++ pack ss.
Proof. reflexivity. Qed.
Lemma run_nil ss st : pack ss = [] -> run ss st = st.
Proof.
  revert st. induction ss as [|s ss IH]; intros st H; [reflexivity|].
  rewrite pack_cons in H. apply app_eq_nil in H. destruct H as [H1 H2].
  cbn [run fold_left]. rewrite interp_nil by exact H1. apply IH. exact H2.
Qed.

Definition sep_or_end (post : list Z) : Prop := post = [] \/ exists r, post = Separator :: r.

Lemma nz_mid0 pre e post : 0 < len e -> nz (pre ++ e ++ post) (len pre) = nz e 0.
Proof. intros H. rewrite <- (nz_mid pre e post 0) by lia. f_equal. lia. Qed.

Lemma build_loop_sep pre r f st :
  build_loop true (S f) (pre ++ Separator :: r) (len pre) st = Ok (st, len pre + 1).
Proof.
  rewrite build_loop_S. pose proof (len_nonneg pre). pose proof (len_nonneg r).
  assert (Hc : pre ++ Separator :: r = pre ++ [Separator] ++ r) by reflexivity.
  assert (Hl : len (pre ++ Separator :: r) = len pre + 1 + len r) by (rewrite len_app, len_cons; lia).
  assert (N : next (pre ++ Separator :: r) (len pre) = Ok (len pre + 1)).
  { apply next_fixed; [lia|]. rewrite Hc. rewrite nz_mid0 by (cbn; lia). reflexivity. }
  rewrite N, bind_Ok. cbv zeta. rewrite fixn_fwd by lia. replace (len pre + 1 <=? len (pre ++ Separator :: r)) with true by lia.
  rewrite !idx_in by lia. rewrite !bind_Ok.
  rewrite Hc. rewrite nz_mid0 by (cbn; lia). reflexivity.
Qed.

Lemma build_loop_pack : forall ss pre post fuel p z,
  forallb wf_setting ss = true ->
  count_if is_conn ss + b2z (has_conn p) <= 1 -> count_if is_trans ss + b2z (has_trans p) <= 1 ->
  pack ss ++ post <> [] -> sep_or_end post ->
  (length (pack ss) + (if is_nil post then 0 else 1) <= fuel)%nat ->
  build_loop true fuel (pre ++ pack ss ++ post) (len pre) (p, z) =
  Ok (run ss (p, z), len pre + len (pack ss) + (if is_nil post then 0 else 1)).
Proof.
  induction ss as [|s ss IH]; intros pre post fuel p z Hw Hc Ht Hne Hpost Hf.
  - cbn [pack flat_map app] in *. destruct Hpost as [->|[r ->]]; [congruence|].
    cbn [is_nil] in Hf. destruct fuel as [|f]; [lia|]. rewrite build_loop_sep. cbn [is_nil run fold_left]. rewrite len_nil. f_equal. f_equal. lia.
  - cbn [forallb] in Hw. apply andb_true_iff in Hw. destruct Hw as [Hw1 Hw2].
    rewrite count_if_cons in Hc, Ht. pose proof (count_if_nonneg is_conn ss). pose proof (count_if_nonneg is_trans ss).
    destruct (list_eq_dec Z.eq_dec (enc s) []) as [E|E].
    + rewrite pack_cons, E in *. cbn [app] in *. cbn [run fold_left]. rewrite (interp_nil s) by exact E.
      apply IH; try assumption; destruct (is_conn s), (is_trans s), (has_conn p), (has_trans p); cbn [b2z] in *; lia.
    + pose proof (all_settings_ok s Hw1 E pre (pack ss ++ post) p z) as OK.
      assert (Hcs : is_conn s = true -> has_conn p = false) by (destruct (is_conn s), (has_conn p); cbn [b2z] in *; intros; try reflexivity; try discriminate; lia).
      assert (Hts : is_trans s = true -> has_trans p = false) by (destruct (is_trans s), (has_trans p); cbn [b2z] in *; intros; try reflexivity; try discriminate; lia).
      specialize (OK Hcs Hts). cbv zeta in OK. destruct OK as [[r [Hr [Hfix _]]] [Hsep Hbs]].
      rewrite pack_cons. rewrite <- app_assoc.
      set (c := pre ++ enc s ++ pack ss ++ post) in *.
      pose proof (len_nonneg pre). pose proof (len_nonneg (pack ss ++ post)).
      assert (HL : 0 < len (enc s)) by (destruct (enc s); [congruence|rewrite len_cons; pose proof (len_nonneg l); lia]).
      assert (Hlc : len c = len pre + len (enc s) + len (pack ss ++ post)) by (subst c; rewrite !len_app; lia).
      assert (HLn : (0 < length (enc s))%nat) by (unfold len in HL; lia).
      rewrite pack_cons, app_length in Hf.
      destruct fuel as [|f]; [lia|]. rewrite build_loop_S.
      rewrite Hr, bind_Ok. cbv zeta. rewrite Hfix.
      rewrite (idx_in c (len pre + len (enc s) - 1)) by lia. rewrite bind_Ok.
      subst c. rewrite (idx_mid0 pre (enc s) (pack ss ++ post) (len pre) eq_refl) by lia. rewrite bind_Ok.
      fold (tag_of s). rewrite Hsep. rewrite Hbs, bind_Ok.
      set (c := pre ++ enc s ++ pack ss ++ post) in *.
      destruct (interp_step s (p, z)) as [p1 z1] eqn:Est.
      pose proof (interp_flags s p z Hw1) as [Hfc Hft]. rewrite Est in Hfc, Hft. cbn [fst] in Hfc, Hft.
      cbn [run fold_left]. rewrite Est. fold (run ss (p1, z1)).
      rewrite len_app. 
      destruct (list_eq_dec Z.eq_dec (pack ss ++ post) []) as [E2|E2].
      * rewrite E2 in *. rewrite len_nil in *.
        replace ((0 <=? len pre + len (enc s)) && (len pre + len (enc s) <? len c)) with false by lia.
        apply app_eq_nil in E2. destruct E2 as [E3 E4]. rewrite run_nil by exact E3. rewrite E3, E4, len_nil. cbn [is_nil].
        f_equal. f_equal. lia.
      * assert (0 < len (pack ss ++ post)) by (destruct (pack ss ++ post); [congruence|rewrite len_cons; pose proof (len_nonneg l); lia]).
        replace ((0 <=? len pre + len (enc s)) && (len pre + len (enc s) <? len c)) with true by lia.
        subst c. rewrite (app_assoc pre (enc s)). replace (len pre + len (enc s)) with (len (pre ++ enc s)) by (rewrite len_app; lia).
        rewrite IH; try assumption.
        -- f_equal. f_equal. rewrite len_app. lia.
        -- rewrite Hfc. destruct (is_conn s), (has_conn p); cbn [b2z orb] in *; lia.
        -- rewrite Hft. destruct (is_trans s), (has_trans p); cbn [b2z orb] in *; lia.
        -- lia.
Qed.

(* ---- several groups -------------------------------------------------------------------------------------- *)
Definition keep (ss : list setting) : bool := negb (is_nil (pack ss)).
Definition selg (g : Z) (r : bstate) : Z := if 0 <? snd r then snd r else g.

Lemma pack_head_not_sep ss : forallb wf_setting ss = true -> pack ss <> [] -> nz (pack ss) 0 <> Separator.
Proof.
  induction ss as [|s ss IH]; intros Hw Hne; [exfalso; apply Hne; reflexivity|].
  cbn [forallb] in Hw. apply andb_true_iff in Hw. destruct Hw as [Hw1 Hw2]. rewrite pack_cons in *.
  destruct (list_eq_dec Z.eq_dec (enc s) []) as [E|E].
  - rewrite E in *. cbn [app] in *. apply IH; assumption.
  - assert (Hn : nz (enc s ++ pack ss) 0 = tag_of s).
    { unfold tag_of. destruct (enc s) as [|x l]; [congruence|]. reflexivity. }
    rewrite Hn. intros Hs.
    destruct s; cbn [wf_setting] in Hw1; unfold tag_of in Hs; cbn [enc] in Hs, E; cbv zeta in Hs, E;
      repeat (match type of E with (if ?b then _ else _) <> [] => destruct b end);
      try congruence; cbn [app] in Hs; rewrite ?nz_0 in Hs; try discriminate Hs.
    subst b. discriminate Hw1.
Qed.

Lemma wf_group_parts ss : wf_group ss = true ->
  forallb wf_setting ss = true /\ count_if is_conn ss <= 1 /\ count_if is_trans ss <= 1.
Proof. unfold wf_group. intros H. apply andb_true_iff in H. destruct H as [H H3]. apply andb_true_iff in H. destruct H as [H1 H2]. repeat split; [assumption|lia|lia]. Qed.

Lemma build_group_pack ss pre post : wf_group ss = true -> pack ss <> [] -> sep_or_end post ->
  build_group true (pre ++ pack ss ++ post) (len pre) =
  Ok (interp_group ss, len pre + len (pack ss) + (if is_nil post then 0 else 1)).
Proof.
  intros Hw Hne Hpost. apply wf_group_parts in Hw. destruct Hw as [Hw [Hc Ht]].
  unfold build_group. pose proof (len_nonneg pre). pose proof (len_nonneg post).
  assert (0 < len (pack ss)) by (destruct (pack ss); [congruence|rewrite len_cons; pose proof (len_nonneg l); lia]).
  replace (0 <? len (pre ++ pack ss ++ post)) with true by (rewrite !len_app; lia).
  apply build_loop_pack; try assumption.
  - change (has_conn prof0) with false. cbn [b2z]. lia.
  - change (has_trans prof0) with false. cbn [b2z]. lia.
  - intros E. apply app_eq_nil in E. destruct E. congruence.
  - rewrite !app_length. destruct Hpost as [->|[r ->]]; cbn [is_nil length]; lia.
Qed.

Lemma join_sep_cons2 x y r : join_sep (x :: y :: r) = x ++ Separator :: join_sep (y :: r).
Proof. reflexivity. Qed.

Lemma build_top_join : forall gl pre fuel e g, forallb wf_group gl = true ->
  (length (join_sep (map pack gl)) < fuel)%nat ->
  build_top true fuel (pre ++ join_sep (map pack gl)) (len pre) e g =
  Ok (e ++ map fst (map interp_group (filter keep gl)), fold_left selg (map interp_group (filter keep gl)) g).
Proof.
  induction gl as [|g1 gl IH]; intros pre fuel e g Hw Hf.
  - cbn [map join_sep filter fold_left]. rewrite !app_nil_r. destruct fuel as [|f]; [lia|]. cbn [build_top].
    replace (len pre <? len pre) with false by lia. reflexivity.
  - cbn [forallb] in Hw. apply andb_true_iff in Hw. destruct Hw as [Hw1 Hw2].
    pose proof (len_nonneg pre).
    destruct gl as [|g2 gl].
    + (* the last group *)
      cbn [map join_sep filter] in *. unfold keep. destruct (list_eq_dec Z.eq_dec (pack g1) []) as [E|E].
      * rewrite E. cbn [is_nil negb map fold_left]. rewrite !app_nil_r. destruct fuel as [|f]; [lia|]. cbn [build_top].
        replace (len pre <? len pre) with false by lia. reflexivity.
      * assert (0 < len (pack g1)) by (destruct (pack g1); [congruence|rewrite len_cons; pose proof (len_nonneg l); lia]).
        replace (is_nil (pack g1)) with false by (destruct (pack g1); [congruence|reflexivity]). cbn [negb map fold_left].
        destruct fuel as [|f]; [lia|]. cbn [build_top].
        replace (len pre <? len (pre ++ pack g1)) with true by (rewrite len_app; lia).
        replace (pre ++ pack g1) with (pre ++ pack g1 ++ []) by (rewrite app_nil_r; reflexivity).
        rewrite (build_group_pack g1 pre [] Hw1 E (or_introl eq_refl)). rewrite bind_Ok. cbn [is_nil].
        destruct (interp_group g1) as [p1 s1] eqn:Eg. cbv iota beta.
        assert (Hskip : (if len pre + len (pack g1) + 0 - len pre =? 1
                         then do b <- idx (pre ++ pack g1 ++ []) (len pre); Ok (b =? Separator) else Ok false) = Ok false).
        { destruct (len pre + len (pack g1) + 0 - len pre =? 1) eqn:E1; [|reflexivity].
          rewrite (idx_mid0 pre (pack g1) [] (len pre) eq_refl) by lia. rewrite bind_Ok. f_equal.
          apply Z.eqb_neq. apply pack_head_not_sep; [apply wf_group_parts in Hw1; tauto|exact E]. }
        rewrite Hskip, bind_Ok.
        destruct f as [|f]; [unfold len in *; lia|]. cbn [build_top].
        rewrite app_nil_r.
        replace (len pre + len (pack g1) + 0 <? len (pre ++ pack g1)) with false by (rewrite len_app; lia).
        cbn [fst snd selg]. unfold selg. cbn [snd]. reflexivity.
    + (* a group followed by a separator *)
      change (map pack (g1 :: g2 :: gl)) with (pack g1 :: pack g2 :: map pack gl) in *.
      rewrite join_sep_cons2 in *. set (rest := join_sep (pack g2 :: map pack gl)) in *.
      change (pack g2 :: map pack gl) with (map pack (g2 :: gl)) in rest.
      change (filter keep (g1 :: g2 :: gl)) with (if keep g1 then g1 :: filter keep (g2 :: gl) else filter keep (g2 :: gl)).
      destruct (list_eq_dec Z.eq_dec (pack g1) []) as [E|E].
      * replace (keep g1) with false by (unfold keep; rewrite E; reflexivity).
        rewrite E in *. cbn [app] in *. destruct fuel as [|f]; [lia|]. cbn [build_top].
        pose proof (len_nonneg rest).
        replace (len pre <? len (pre ++ Separator :: rest)) with true by (rewrite len_app, len_cons; lia).
        unfold build_group. replace (0 <? len (pre ++ Separator :: rest)) with true by (rewrite len_app, len_cons; lia).
        assert (Hlen : length (pre ++ Separator :: rest) = S (length pre + length rest)) by (rewrite app_length; cbn [length]; lia).
        rewrite Hlen. rewrite build_loop_sep, bind_Ok. cbv iota beta.
        replace (len pre + 1 - len pre =? 1) with true by lia.
        rewrite idx_in by (rewrite len_app, len_cons; lia). rewrite !bind_Ok.
        change (pre ++ Separator :: rest) with (pre ++ [Separator] ++ rest). rewrite nz_mid0 by (cbn; lia).
        change (nz [Separator] 0 =? Separator) with true. cbv iota.
        rewrite app_assoc. replace (len pre + 1) with (len (pre ++ [Separator])) by (rewrite len_app; reflexivity).
        subst rest. apply IH; [exact Hw2|]. cbn [length] in Hf. lia.
      * assert (0 < len (pack g1)) by (destruct (pack g1); [congruence|rewrite len_cons; pose proof (len_nonneg l); lia]).
        replace (keep g1) with true by (unfold keep; destruct (pack g1); [congruence|reflexivity]). cbn [map fold_left].
        destruct fuel as [|f]; [lia|]. cbn [build_top]. pose proof (len_nonneg rest).
        replace (len pre <? len (pre ++ pack g1 ++ Separator :: rest)) with true by (rewrite !len_app, len_cons; lia).
        rewrite (build_group_pack g1 pre (Separator :: rest) Hw1 E (or_intror (ex_intro _ rest eq_refl))). rewrite bind_Ok. cbn [is_nil].
        destruct (interp_group g1) as [p1 s1] eqn:Eg. cbv iota beta.
        replace (len pre + len (pack g1) + 1 - len pre =? 1) with false by lia. rewrite bind_Ok. cbv iota.
        replace (pre ++ pack g1 ++ Separator :: rest) with ((pre ++ pack g1 ++ [Separator]) ++ rest) by (rewrite <- !app_assoc; reflexivity).
        replace (len pre + len (pack g1) + 1) with (len (pre ++ pack g1 ++ [Separator])) by (rewrite !len_app; change (len [Separator]) with 1; lia).
        subst rest. rewrite IH; [|exact Hw2|rewrite app_length in Hf; cbn [length] in Hf; lia].
        rewrite <- app_assoc. cbn [app fst snd]. unfold selg at 2. cbn [snd]. reflexivity.
Qed.

(* ---- AddGroup: which groups end up in the bytes ------------------------------------------------------------ *)
Fixpoint norm (started : bool) (gs : list (list setting)) : list (list setting) :=
  match gs with
  | [] => []
  | ss :: r =>
    match ss with
    | [] => norm started r
    | _ => if started || keep ss then ss :: norm true r else norm false r
    end
  end.

Definition tails (gl : list (list setting)) : list Z := flat_map (fun ss => Separator :: pack ss) gl.

Lemma join_sep_tails x gl : join_sep (map pack (x :: gl)) = pack x ++ tails gl.
Proof.
  revert x. induction gl as [|y gl IH]; intros x.
  - cbn. rewrite app_nil_r. reflexivity.
  - change (map pack (x :: y :: gl)) with (pack x :: pack y :: map pack gl). rewrite join_sep_cons2.
    change (pack y :: map pack gl) with (map pack (y :: gl)). rewrite IH. reflexivity.
Qed.

Lemma fold_add_group : forall gs c,
  fold_left add_group gs c =
  if is_nil c then join_sep (map pack (norm false gs)) else c ++ tails (norm true gs).
Proof.
  induction gs as [|ss gs IH]; intros c; cbn [fold_left norm].
  - destruct c; cbn [is_nil]; [reflexivity|]. cbn [tails flat_map]. rewrite app_nil_r. reflexivity.
  - destruct ss as [|s ss]; [apply IH|]. cbn [add_group]. rewrite IH.
    destruct c as [|x c]; cbn [is_nil orb app].
    + unfold keep. destruct (pack (s :: ss)) as [|y l] eqn:E; cbn [is_nil negb].
      * reflexivity.
      * rewrite join_sep_tails, E. reflexivity.
    + cbn [tails flat_map]. rewrite <- !app_assoc. reflexivity.
Qed.

Lemma pack_groups_norm gs : pack_groups gs = join_sep (map pack (norm false gs)).
Proof. unfold pack_groups. rewrite fold_add_group. reflexivity. Qed.

Lemma filter_keep_norm : forall gs st, filter keep (norm st gs) = filter keep gs.
Proof.
  induction gs as [|ss gs IH]; intros st; cbn [norm]; [reflexivity|].
  destruct ss as [|s ss].
  - rewrite IH. reflexivity.
  - destruct st; cbn [orb].
    + cbn [filter]. rewrite IH. reflexivity.
    + destruct (keep (s :: ss)) eqn:E; cbn [filter]; rewrite E, IH; reflexivity.
Qed.

Lemma norm_wf : forall gs st, forallb wf_group gs = true -> forallb wf_group (norm st gs) = true.
Proof.
  induction gs as [|ss gs IH]; intros st H; cbn [norm]; [reflexivity|].
  cbn [forallb] in H. apply andb_true_iff in H. destruct H as [H1 H2].
  destruct ss as [|s ss]; [apply IH; exact H2|].
  destruct (st || keep (s :: ss)); [cbn [forallb]; rewrite H1, IH by exact H2; reflexivity|apply IH; exact H2].
Qed.

Lemma norm_head_keep : forall gs, match norm false gs with [] => True | x :: _ => keep x = true end.
Proof.
  induction gs as [|ss gs IH]; cbn [norm]; [exact I|].
  destruct ss as [|s ss]; [exact IH|]. cbn [orb]. destruct (keep (s :: ss)) eqn:E; [exact E|exact IH].
Qed.

(* ---- build (pack ...) = the meaning of the settings ------------------------------------------------------------ *)
Lemma build_groups gs : wf_groups gs = true -> build true (pack_groups gs) = Ok (interp_groups gs).
Proof.
  intros Hw. unfold wf_groups in Hw. rewrite pack_groups_norm.
  set (gl := norm false gs). assert (Hgl : forallb wf_group gl = true) by (apply norm_wf; exact Hw).
  assert (Hf : filter keep gl = filter keep gs) by (apply filter_keep_norm).
  unfold interp_groups. change (fun ss => negb (is_nil (pack ss))) with keep. rewrite <- Hf.
  unfold build. destruct (len (join_sep (map pack gl)) =? 0) eqn:E.
  - assert (gl = []).
    { pose proof (norm_head_keep gs) as Hh. fold gl in Hh. destruct gl as [|x gl']; [reflexivity|].
      rewrite join_sep_tails, len_app in E. unfold keep in Hh. pose proof (len_nonneg (tails gl')).
      destruct (pack x) as [|y l]; [discriminate|]. rewrite len_cons in E. pose proof (len_nonneg l). lia. }
    rewrite H. reflexivity.
  - pose proof (build_top_join gl [] (S (length (join_sep (map pack gl)))) [] 0 Hgl ltac:(lia)) as T.
    cbn [app] in T. change (len []) with 0 in T. rewrite T, bind_Ok. cbv iota beta. cbn [app].
    destruct (map interp_group (filter keep gl)) as [|r1 [|r2 rs]]; reflexivity.
Qed.

Lemma build_pack ss : wf_group ss = true -> pack ss <> [] ->
  build true (pack ss) = Ok (0, [fst (interp_group ss)]).
Proof.
  intros Hw Hne. pose proof (build_groups [ss]) as B. unfold wf_groups in B. cbn [forallb] in B. rewrite Hw in B. specialize (B eq_refl).
  destruct ss as [|s ss]; [exfalso; apply Hne; reflexivity|].
  change (pack_groups [s :: ss]) with (pack (s :: ss)) in B. rewrite B.
  unfold interp_groups. cbn [filter]. replace (negb (is_nil (pack (s :: ss)))) with true by (destruct (pack (s :: ss)); [congruence|reflexivity]).
  reflexivity.
Qed.

(* ---- exported forms ------------------------------------------------------------------------------------------ *)
Lemma next_enc pre s post : wf_setting s = true -> enc s <> [] ->
  exists r, next (pre ++ enc s ++ post) (len pre) = Ok r
            /\ fixn (pre ++ enc s ++ post) (len pre) r = len pre + len (enc s)
            /\ (post <> [] -> r = len pre + len (enc s)).
Proof.
  intros Hw He. destruct (all_settings_ok s Hw He pre post prof0 0 (fun _ => eq_refl) (fun _ => eq_refl)) as [[r [H1 [H2 H3]]] _].
  exists r. repeat split; try assumption. intros Hp. apply H3. destruct post; [congruence|reflexivity].
Qed.

(* ---- packed settings are byte strings ----------------------------------------------------------------------------- *)
Lemma bytes_nil : bytes []. Proof. constructor. Qed.
Lemma bytes_cons x l : 0 <= x < 256 -> bytes l -> bytes (x :: l).
Proof. intros. constructor; assumption. Qed.
Lemma bytes_flat_map {A} (f : A -> list Z) l : (forall x, In x l -> bytes (f x)) -> bytes (flat_map f l).
Proof.
  induction l as [|x l IH]; intros H; cbn [flat_map]; [constructor|].
  apply bytes_app; [apply H; left; reflexivity|apply IH; intros y Hy; apply H; right; exact Hy].
Qed.
Lemma u8_byte x : 0 <= u8 x < 256. Proof. unfold u8. lia. Qed.
Lemma bytes_be64 v : bytes (be64 v).
Proof. unfold be64. repeat (apply bytes_cons; [apply u8_byte|]). constructor. Qed.
Lemma bytes_be32 v : bytes (be32 v).
Proof. unfold be32. repeat (apply bytes_cons; [apply u8_byte|]). constructor. Qed.
Lemma len_take255 {A} (l : list A) : 0 <= len (take 255 l) < 256.
Proof. pose proof (len_nonneg l). rewrite len_take_min by lia. lia. Qed.

Lemma kind_byte b : match kind_of b with KOther => True | _ => 0 <= b < 256 end.
Proof.
  unfold kind_of.
  repeat match goal with |- context [if ?c then _ else _] => destruct c eqn:? end; cbv beta iota; try exact I; lia.
Qed.

Ltac bb := repeat first [apply bytes_nil | apply bytes_cons; [first [apply hi8_byte | apply lo8_byte | lia]|] | apply bytes_app
                        | apply bytes_take | apply bytes_be64 | apply bytes_be32 | assumption ].

Lemma enc_bytes s : wf_setting s = true -> bytes (enc s).
Proof.
  destruct s; cbn [wf_setting enc]; cbv zeta; intros Hw;
    repeat (match goal with H : _ && _ = true |- _ => apply andb_true_iff in H; destruct H end);
    repeat (match goal with H : bytes_ok _ = true |- _ => apply bytes_ok_bytes in H end);
    repeat (match goal with H : is_byte _ = true |- _ => unfold is_byte in H end);
    repeat (match goal with |- bytes (if ?c then _ else _) => destruct c end); try solve [bb].
  - (* SBit *) pose proof (kind_byte b). destruct (kind_of b); try discriminate; bb.
  - (* SWC2 *) bb.
    destruct (nh =? 0); [constructor|]. apply bytes_flat_map. intros kv Hin.
      assert (Hin2 : In kv hdrs) by (rewrite <- (firstn_skipn 255 hdrs); apply in_or_app; left; exact Hin).
      match goal with Hf : forallb _ hdrs = true |- _ => rewrite forallb_forall in Hf; specialize (Hf kv Hin2) end.
      repeat (match goal with H : _ && _ = true |- _ => apply andb_true_iff in H; destruct H end).
      repeat (match goal with H : bytes_ok _ = true |- _ => apply bytes_ok_bytes in H end).
      unfold enc_hdr. cbv zeta. pose proof (len_take255 (fst kv)). pose proof (len_take255 (snd kv)). bb.
  - (* SAES *)
    assert (Hk : len k = 16 \/ len k = 24 \/ len k = 32) by (unfold aes_keylen_ok in *; lia).
    unfold clamp8. replace (255 <? len k) with false by lia. bb.
  - (* SDNS *) pose proof (len_nonneg names). pose proof (clamp8_range (len names)). bb.
    apply bytes_flat_map. intros v Hin.
    assert (Hin2 : In v names) by (rewrite <- (firstn_skipn 255 names); apply in_or_app; left; exact Hin).
    rewrite forallb_forall in Hw. specialize (Hw v Hin2). apply andb_true_iff in Hw. destruct Hw as [_ Hb].
    apply bytes_ok_bytes in Hb. unfold enc_name. cbv zeta. pose proof (len_take255 v). bb.
Qed.

Lemma pack_bytes ss : forallb wf_setting ss = true -> bytes (pack ss).
Proof.
  intros H. apply bytes_flat_map. intros s Hs. rewrite forallb_forall in H. apply enc_bytes. apply H. exact Hs.
Qed.

Lemma add_group_bytes c ss : bytes c -> wf_group ss = true -> bytes (add_group c ss).
Proof.
  intros Hc Hw. apply wf_group_parts in Hw. destruct Hw as [Hw _].
  destruct ss as [|s ss]; [exact Hc|]. cbn [add_group].
  apply bytes_app; [|apply pack_bytes; exact Hw].
  destruct (is_nil c); [constructor|]. apply bytes_app; [exact Hc|]. apply bytes_cons; [unfold Separator; lia|constructor].
Qed.

Lemma pack_groups_bytes gs : wf_groups gs = true -> bytes (pack_groups gs).
Proof.
  unfold pack_groups, wf_groups. assert (G : forall gs c, bytes c -> forallb wf_group gs = true -> bytes (fold_left add_group gs c)).
  { induction gs0 as [|ss gs0 IH]; intros c Hc H; cbn [fold_left]; [exact Hc|].
    cbn [forallb] in H. apply andb_true_iff in H. destruct H as [H1 H2]. apply IH; [apply add_group_bytes; assumption|exact H2]. }
  intros H. apply G; [constructor|exact H].
Qed.

(* validation succeeds exactly when building succeeds, on everything the constructors can pack *)
Lemma validate_iff_build_pack gs : wf_groups gs = true ->
  (validate (pack_groups gs) = Ok tt <-> exists r, build true (pack_groups gs) = Ok r).
Proof. intros H. apply validate_iff_build. apply pack_groups_bytes. exact H. Qed.

(* ... and both do succeed *)
Lemma validate_pack gs : wf_groups gs = true -> validate (pack_groups gs) = Ok tt.
Proof. intros H. apply validate_iff_build_pack; [exact H|]. eexists. apply build_groups. exact H. Qed.

(* ---- MarshalBinary ---------------------------------------------------------------------------------------------- *)
Lemma marshal_is_source tlsok c g e : build tlsok c = Ok (g, e) -> e <> [] -> marshal tlsok c = Ok c.
Proof. intros H He. unfold marshal. rewrite H, bind_Ok. destruct e; [congruence|reflexivity]. Qed.
Lemma marshal_only_source tlsok c c' : marshal tlsok c = Ok c' -> c' = c.
Proof.
  unfold marshal. destruct (build tlsok c) as [[g e]| |]; cbn [bind]; try discriminate.
  destruct e; [discriminate|]. intros [= <-]. reflexivity.
Qed.
Lemma marshal_pack gs : wf_groups gs = true -> filter keep gs <> [] -> marshal true (pack_groups gs) = Ok (pack_groups gs).
Proof.
  intros Hw Hk. pose proof (build_groups gs Hw) as B. unfold interp_groups in B.
  change (fun ss => negb (is_nil (pack ss))) with keep in B.
  destruct (map interp_group (filter keep gs)) as [|r1 [|r2 rs]] eqn:E.
  - destruct (filter keep gs); [congruence|discriminate].
  - eapply marshal_is_source; [exact B|discriminate].
  - eapply marshal_is_source; [exact B|].
    intros Hs. assert (Hl : length (sort_w (map fst (r1 :: r2 :: rs))) = 0%nat) by (rewrite Hs; reflexivity).
    revert Hl. unfold sort_w. cbn [map fold_left].
    assert (G : forall l acc, (length acc <= length (fold_left (fun acc x => ins_w x acc) l acc))%nat).
    { induction l as [|x l IH]; intros acc; cbn [fold_left]; [lia|].
      eapply Nat.le_trans; [|apply IH].
      clear. induction acc as [|y acc IHa]; cbn [ins_w length]; [lia|]. destruct (p_weight y <? p_weight x); cbn [length]; lia. }
    intros Hl. pose proof (G (map fst rs) (ins_w (fst r2) (ins_w (fst r1) []))) as Hg.
    assert (H2 : (2 <= length (ins_w (fst r2) (ins_w (fst r1) [])))%nat) by (cbn [ins_w]; destruct (p_weight (fst r1) <? p_weight (fst r2)); cbn [length]; lia).
    lia.
Qed.

(* ---- "in the supplied order": hosts, pinned keys, wrappers ------------------------------------------------------ *)
Definition host_of (s : setting) : list (list Z) :=
  match s with SHost h => if len h =? 0 then [] else [take 65535 h] | _ => [] end.
Definition key_of (s : setting) : list Z :=
  match s with SKeyPin empty h => if empty then [] else [h] | _ => [] end.
Definition wrap_of (s : setting) : list item :=
  match s with
  | SBit b => match kind_of b with KWrap => [simple_wrap b] | _ => [] end
  | SXOR k => [(5, [], [take 65535 k])]
  | SCBK s a b c d => [(6, [a; b; c; d; s], [])]
  | SAES k iv => [(7, [], [iv])]
  | _ => []
  end.

Lemma step_lists s p z :
  p_hosts (fst (interp_step s (p, z))) = p_hosts p ++ host_of s /\
  p_keys (fst (interp_step s (p, z))) = p_keys p ++ key_of s /\
  p_wraps (fst (interp_step s (p, z))) = p_wraps p ++ wrap_of s.
Proof.
  destruct s; cbn [interp_step host_of key_of wrap_of];
    try (match goal with |- context [if ?b then (p, z) else _] => destruct b end);
    cbn [fst p_hosts p_keys p_wraps set_hosts set_sleep set_jitter set_kill set_work set_keys set_weight set_conn add_wrap set_trans];
    rewrite ?app_nil_r; try (repeat split; reflexivity).
  destruct (kind_of b); cbn [fst p_hosts p_keys p_wraps set_conn add_wrap set_trans]; rewrite ?app_nil_r; repeat split; reflexivity.
Qed.

Lemma run_lists : forall ss p z,
  p_hosts (fst (run ss (p, z))) = p_hosts p ++ flat_map host_of ss /\
  p_keys (fst (run ss (p, z))) = p_keys p ++ flat_map key_of ss /\
  p_wraps (fst (run ss (p, z))) = p_wraps p ++ flat_map wrap_of ss.
Proof.
  induction ss as [|s ss IH]; intros p z; cbn [run fold_left flat_map].
  - rewrite !app_nil_r. repeat split; reflexivity.
  - destruct (interp_step s (p, z)) as [p1 z1] eqn:E. fold (run ss (p1, z1)).
    destruct (IH p1 z1) as [H1 [H2 H3]]. destruct (step_lists s p z) as [S1 [S2 S3]]. rewrite E in S1, S2, S3. cbn [fst] in S1, S2, S3.
    rewrite H1, H2, H3, S1, S2, S3, <- !app_assoc. repeat split; reflexivity.
Qed.

Lemma group_lists ss :
  p_hosts (fst (interp_group ss)) = flat_map host_of ss /\
  p_keys (fst (interp_group ss)) = flat_map key_of ss /\
  p_wraps (fst (interp_group ss)) = flat_map wrap_of ss.
Proof. unfold interp_group. fold (run ss (prof0, 0)). apply (run_lists ss prof0 0). Qed.

(* ---- "the last one wins": sleep, jitter, weight, kill date, work hours; the one connector / transform ---------- *)
Definition sleep_step (s : setting) (a : Z) : Z := match s with SSleep d => if d <=? 0 then a else d | _ => a end.
Definition jitter_step (s : setting) (a : Z) : Z := match s with SJitter n => jitter_of (lo8 n) | _ => a end.
Definition weight_step (s : setting) (a : Z) : Z := match s with SWeight w => if w =? 0 then a else weight_of (lo8 w) | _ => a end.
Definition kill_step (s : setting) (a : bool * Z) : bool * Z :=
  match s with SKillDate zero u => (true, if zero || (u64 u =? 0) then ZeroTimeUnix else u) | _ => a end.
Definition work_step (s : setting) (a : option (list Z)) : option (list Z) :=
  match s with SWorkHours d sh sm eh em => Some [d; sh; sm; eh; em] | _ => a end.
Definition sel_step (s : setting) (a : Z) : Z :=
  match s with SBit b => match kind_of b with KSel => b | _ => a end | _ => a end.

Lemma step_scalars s p z :
  let r := interp_step s (p, z) in
  p_sleep (fst r) = sleep_step s (p_sleep p) /\ p_jitter (fst r) = jitter_step s (p_jitter p) /\
  p_weight (fst r) = weight_step s (p_weight p) /\ (p_kds (fst r), p_kill (fst r)) = kill_step s (p_kds p, p_kill p) /\
  p_work (fst r) = work_step s (p_work p) /\ snd r = sel_step s z.
Proof.
  cbv zeta. destruct s; cbn [interp_step sleep_step jitter_step weight_step kill_step work_step sel_step];
    try (match goal with |- context [if ?b then (p, z) else _] => destruct b end);
    cbn [fst snd p_sleep p_jitter p_weight p_kds p_kill p_work set_hosts set_sleep set_jitter set_kill set_work set_keys set_weight set_conn add_wrap set_trans];
    try (repeat split; reflexivity).
  destruct (kind_of b); cbn [fst snd p_sleep p_jitter p_weight p_kds p_kill p_work set_conn add_wrap set_trans]; repeat split; reflexivity.
Qed.

Lemma run_scalars : forall ss p z,
  let r := run ss (p, z) in
  p_sleep (fst r) = fold_left (fun a s => sleep_step s a) ss (p_sleep p) /\
  p_jitter (fst r) = fold_left (fun a s => jitter_step s a) ss (p_jitter p) /\
  p_weight (fst r) = fold_left (fun a s => weight_step s a) ss (p_weight p) /\
  (p_kds (fst r), p_kill (fst r)) = fold_left (fun a s => kill_step s a) ss (p_kds p, p_kill p) /\
  p_work (fst r) = fold_left (fun a s => work_step s a) ss (p_work p) /\
  snd r = fold_left (fun a s => sel_step s a) ss z.
Proof.
  cbv zeta. induction ss as [|s ss IH]; intros p z; cbn [run fold_left].
  - repeat split; reflexivity.
  - pose proof (step_scalars s p z) as S. cbv zeta in S.
    destruct (interp_step s (p, z)) as [p1 z1] eqn:E. fold (run ss (p1, z1)). cbn [fst snd] in S.
    destruct S as [S1 [S2 [S3 [S4 [S5 S6]]]]]. destruct (IH p1 z1) as [H1 [H2 [H3 [H4 [H5 H6]]]]].
    rewrite H1, H2, H3, H4, H5, H6, S1, S2, S3, S4, S5, S6. repeat split; reflexivity.
Qed.
