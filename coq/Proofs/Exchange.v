(* Proofs/Exchange.v -- C05: invariants of the abstract exchange machine (Model/Exchange.v). *)
From XMT Require Import Base.Prelude Model.Exchange.
From Coq Require Import Permutation.

(* ------------------------------------------------------------------ lists *)
Lemma all_q_repeek : forall l, all_q (fst (repeek l)) (snd (repeek l)) = l.
Proof. destruct l; reflexivity. Qed.

Lemma all_q_app : forall pk q x, all_q pk (q ++ x) = all_q pk q ++ x.
Proof. destruct pk; reflexivity. Qed.

Lemma nodup_app_iff : forall (A : Type) (a b : list A),
  NoDup (a ++ b) <-> NoDup a /\ NoDup b /\ (forall x, In x a -> ~ In x b).
Proof.
  induction a as [|x a IH]; intros b; simpl.
  - split; [intros H; repeat split; auto; constructor | intros (_ & H & _); exact H].
  - split.
    + intros H. inversion H as [|? ? Hx Hn]; subst. apply IH in Hn. destruct Hn as (Ha & Hb & Hd).
      repeat split; auto.
      * constructor; auto. intro Hi. apply Hx. apply in_or_app; auto.
      * intros y [->|Hy]; [intro Hi; apply Hx; apply in_or_app; auto | apply Hd; auto].
    + intros (Ha & Hb & Hd). inversion Ha as [|? ? Hx Hn]; subst. constructor.
      * intro Hi. apply in_app_or in Hi. destruct Hi as [Hi|Hi]; [auto | exact (Hd x (or_introl eq_refl) Hi)].
      * apply IH. repeat split; auto.
Qed.

Lemma ser_inj : forall l a b, NoDup (sers l) -> In a l -> In b l -> p_ser a = p_ser b -> a = b.
Proof.
  induction l as [|x l IH]; intros a b Hn Ha Hb He; [destruct Ha|].
  simpl in Hn. inversion Hn as [|? ? Hx Hn']; subst.
  destruct Ha as [->|Ha]; destruct Hb as [->|Hb]; auto.
  - exfalso. apply Hx. rewrite He. unfold sers. apply in_map. exact Hb.
  - exfalso. apply Hx. rewrite <- He. unfold sers. apply in_map. exact Ha.
Qed.

Lemma sers_app : forall a b, sers (a ++ b) = sers a ++ sers b.
Proof. intros. unfold sers. apply map_app. Qed.

Lemma in_sers : forall p l, In p l -> In (p_ser p) (sers l).
Proof. intros. unfold sers. apply in_map. assumption. Qed.

Lemma in_sers_inv : forall x l, In x (sers l) -> exists p, In p l /\ p_ser p = x.
Proof. intros x l H. unfold sers in H. apply in_map_iff in H. destruct H as (p & E & I). eauto. Qed.

Lemma tasks_of_app : forall a b, tasks_of (a ++ b) = tasks_of a ++ tasks_of b.
Proof. intros. unfold tasks_of. apply filter_app. Qed.

Lemma in_tasks_of : forall p l, In p (tasks_of l) <-> In p l /\ is_task p = true.
Proof. intros. unfold tasks_of. apply filter_In. Qed.

(* ------------------------------------------------------------------ the job table *)
Lemma find_job_some : forall j t p, find_job j t = Some p -> In p t /\ p_job p = j.
Proof.
  induction t as [|x t IH]; simpl; intros p H; [discriminate|].
  destruct (p_job x =? j) eqn:E.
  - inversion H; subst. split; auto. apply Z.eqb_eq; exact E.
  - apply IH in H. tauto.
Qed.

Lemma find_job_none : forall j t, find_job j t = None -> forall p, In p t -> p_job p <> j.
Proof.
  induction t as [|x t IH]; simpl; intros H p Hp; [destruct Hp|].
  destruct (p_job x =? j) eqn:E; [discriminate|].
  destruct Hp as [->|Hp]; [apply Z.eqb_neq; exact E | apply IH; auto].
Qed.

Lemma find_job_in : forall j t p, In p t -> p_job p = j -> exists p', find_job j t = Some p'.
Proof.
  intros j t p Hp Hj. destruct (find_job j t) eqn:E; eauto.
  exfalso. exact (find_job_none _ _ E p Hp Hj).
Qed.

Lemma in_del_job : forall j t p, In p (del_job j t) <-> In p t /\ p_job p <> j.
Proof.
  induction t as [|x t IH]; simpl; intros p; [tauto|].
  destruct (p_job x =? j) eqn:E.
  - apply Z.eqb_eq in E. rewrite IH. split; [tauto|]. intros ([->|H] & Hn); [contradiction|tauto].
  - apply Z.eqb_neq in E. simpl. rewrite IH. split.
    + intros [->|H]; tauto.
    + intros ([->|H] & Hn); tauto.
Qed.

Lemma nodup_map_del_job : forall j t, NoDup (map p_job t) -> NoDup (map p_job (del_job j t)).
Proof.
  induction t as [|x t IH]; simpl; intros H; [constructor|].
  inversion H as [|? ? Hx Hn]; subst.
  destruct (p_job x =? j); [auto|]. simpl. constructor; auto.
  intro Hi. apply Hx. apply in_map_iff in Hi. destruct Hi as (p & E & I).
  apply in_del_job in I. apply in_map_iff. exists p. tauto.
Qed.

Lemma job_inj : forall t a b, NoDup (map p_job t) -> In a t -> In b t -> p_job a = p_job b -> a = b.
Proof.
  induction t as [|x t IH]; intros a b Hn Ha Hb He; [destruct Ha|].
  simpl in Hn. inversion Hn as [|? ? Hx Hn']; subst.
  destruct Ha as [->|Ha]; destruct Hb as [->|Hb]; auto.
  - exfalso. apply Hx. rewrite He. apply in_map. exact Hb.
  - exfalso. apply Hx. rewrite <- He. apply in_map. exact Ha.
Qed.

Lemma length_del_job_le : forall j t, (length (del_job j t) <= length t)%nat.
Proof. induction t as [|x t IH]; simpl; [lia|]. destruct (p_job x =? j); simpl; lia. Qed.

(* ------------------------------------------------------------------ projections of the setters *)
Ltac prj :=
  cbn [s_serial s_sched s_jobs s_done s_peek s_send c_inbox c_exec c_peek c_send s_key c_key s_chan
       set_sq set_rq set_inbox add_exec set_table set_keys set_chan add_job].

Ltac prjh :=
  cbn [s_serial s_sched s_jobs s_done s_peek s_send c_inbox c_exec c_peek c_send s_key c_key s_chan
       set_sq set_rq set_inbox add_exec set_table set_keys set_chan add_job] in *.

Lemma sq_set_sq : forall l s, sq (set_sq l s) = l.
Proof. intros. unfold sq. prj. apply all_q_repeek. Qed.
Lemma rq_set_rq : forall l s, rq (set_rq l s) = l.
Proof. intros. unfold rq. prj. apply all_q_repeek. Qed.
Lemma rq_set_sq : forall l s, rq (set_sq l s) = rq s.
Proof. reflexivity. Qed.
Lemma sq_set_rq : forall l s, sq (set_rq l s) = sq s.
Proof. reflexivity. Qed.

Lemma rq_c_enqueue : forall p s,
  rq (c_enqueue p s) = if len (c_send s) <? qcap then rq s ++ [p] else rq s.
Proof. intros. unfold c_enqueue. destruct (len (c_send s) <? qcap); [|reflexivity]. unfold rq. prj. apply all_q_app. Qed.
Lemma sq_s_enqueue : forall p s,
  sq (s_enqueue p s) = if len (s_send s) <? qcap then sq s ++ [p] else sq s.
Proof. intros. unfold s_enqueue. destruct (len (s_send s) <? qcap); [|reflexivity]. unfold sq. prj. apply all_q_app. Qed.

Lemma rq_set_table : forall j d s, rq (set_table j d s) = rq s. Proof. reflexivity. Qed.
Lemma sq_set_table : forall j d s, sq (set_table j d s) = sq s. Proof. reflexivity. Qed.
Lemma rq_set_inbox : forall l s, rq (set_inbox l s) = rq s. Proof. reflexivity. Qed.
Lemma sq_set_inbox : forall l s, sq (set_inbox l s) = sq s. Proof. reflexivity. Qed.
Lemma rq_add_exec : forall p s, rq (add_exec p s) = rq s. Proof. reflexivity. Qed.
Lemma sq_add_exec : forall p s, sq (add_exec p s) = sq s. Proof. reflexivity. Qed.
Lemma rq_set_keys : forall a b s, rq (set_keys a b s) = rq s. Proof. reflexivity. Qed.
Lemma sq_set_keys : forall a b s, sq (set_keys a b s) = sq s. Proof. reflexivity. Qed.
Lemma rq_set_chan : forall b s, rq (set_chan b s) = rq s. Proof. reflexivity. Qed.
Lemma sq_set_chan : forall b s, sq (set_chan b s) = sq s. Proof. reflexivity. Qed.
Lemma rq_add_job : forall p s, rq (add_job p s) = rq s. Proof. reflexivity. Qed.
Lemma sq_add_job : forall p s, sq (add_job p s) = sq s ++ [p].
Proof. intros. unfold sq. prj. apply all_q_app. Qed.
Lemma sq_c_enqueue : forall p s, sq (c_enqueue p s) = sq s.
Proof. intros. unfold c_enqueue. destruct (len (c_send s) <? qcap); reflexivity. Qed.
Lemma rq_s_enqueue : forall p s, rq (s_enqueue p s) = rq s.
Proof. intros. unfold s_enqueue. destruct (len (s_send s) <? qcap); reflexivity. Qed.

Ltac qs1 :=
  rewrite ?rq_set_table, ?sq_set_table, ?rq_set_inbox, ?sq_set_inbox, ?rq_add_exec, ?sq_add_exec,
          ?rq_set_keys, ?sq_set_keys, ?rq_set_chan, ?sq_set_chan, ?rq_add_job, ?sq_add_job,
          ?sq_c_enqueue, ?rq_s_enqueue, ?sq_set_sq, ?rq_set_rq, ?rq_set_sq, ?sq_set_rq in *.
Ltac qs := repeat (progress qs1).

(* a view of a session: the thirteen fields through the two queue views *)
Definition flight (s : sess) : list pkt := tasks_of (sq s) ++ c_inbox s ++ rq s.

Section Inv.
  Variable run : Z -> Z -> Z.
  Variable c : Z.

  Record good (s : sess) : Prop := {
    g_serial_nn : 0 <= s_serial s;
    g_sched_ser : forall p, In p (s_sched s) -> 0 <= p_ser p < s_serial s;
    g_sched_nd  : NoDup (sers (s_sched s));
    g_jobs_in   : incl (s_jobs s) (s_sched s);
    g_jobs_nd   : NoDup (map p_job (s_jobs s));
    g_jobs_id   : forall p, In p (s_jobs s) -> 2 <= p_job p;
    g_done_own  : forall p r, In (p, r) (s_done s) ->
                    In p (s_sched s) /\ r = run c (p_pl p) /\ In p (c_exec s) /\ ~ In p (s_jobs s);
    g_done_nd   : NoDup (sers (map fst (s_done s)));
    g_part      : forall p, In p (s_sched s) -> In p (s_jobs s) \/ exists r, In (p, r) (s_done s);
    g_sq        : incl (tasks_of (sq s)) (s_jobs s);
    g_inbox     : incl (c_inbox s) (s_jobs s);
    g_rq        : forall q, In q (rq s) -> exists p, In p (s_jobs s) /\ p_job p = p_job q /\
                    p_ser p = p_ser q /\ p_pl q = run c (p_pl p) /\ In p (c_exec s);
    g_flight_nd : NoDup (sers (flight s));
    g_exec_in   : incl (c_exec s) (s_sched s);
    g_exec_nd   : NoDup (sers (c_exec s));
    g_unrun     : forall p, In p (tasks_of (sq s) ++ c_inbox s) -> ~ In (p_ser p) (sers (c_exec s))
  }.

  Lemma good_init : good init_sess.
  Proof.
    constructor; simpl; try lia; try (intros; contradiction); try constructor;
      try (intros ? H; destruct H).
  Qed.

  (* the ser of a flight element determines the tracked job *)
  Lemma flight_ser_job : forall s x, good s -> In x (sers (flight s)) ->
    exists p, In p (s_jobs s) /\ p_ser p = x.
  Proof.
    intros s x G H. apply in_sers_inv in H. destruct H as (p & Hp & E).
    unfold flight in Hp. apply in_app_or in Hp. destruct Hp as [Hp|Hp].
    - exists p. split; auto. apply (g_sq s G); exact Hp.
    - apply in_app_or in Hp. destruct Hp as [Hp|Hp].
      + exists p. split; auto. apply (g_inbox s G); exact Hp.
      + destruct (g_rq s G p Hp) as (p' & I & _ & S & _). exists p'. split; auto. congruence.
  Qed.

  Lemma jobs_ser_inj : forall s a b, good s -> In a (s_jobs s) -> In b (s_jobs s) -> p_ser a = p_ser b -> a = b.
  Proof.
    intros s a b G Ha Hb E. apply (ser_inj (s_sched s)); auto; [apply (g_sched_nd s G) | apply (g_jobs_in s G) | apply (g_jobs_in s G)]; auto.
  Qed.

  (* ---------------- removing the head of a queue keeps the safety invariant *)
  Lemma good_drop_rq : forall s q rest, good s -> rq s = q :: rest -> good (set_rq rest s).
  Proof.
    intros s q rest G E. destruct G. constructor; prj; auto.
    - rewrite rq_set_rq. intros q0 H. apply g_rq0. rewrite E. right; exact H.
    - unfold flight in *. rewrite rq_set_rq, sq_set_rq. prj. rewrite E in g_flight_nd0.
      rewrite !sers_app in *. simpl in g_flight_nd0.
      rewrite app_assoc in g_flight_nd0. apply NoDup_remove_1 in g_flight_nd0.
      rewrite <- app_assoc in g_flight_nd0. exact g_flight_nd0.
  Qed.

  Lemma good_drop_sq : forall s t rest, good s -> sq s = t :: rest -> good (set_sq rest s).
  Proof.
    intros s t rest G E. destruct G.
    assert (Hsub : forall p, In p (tasks_of rest) -> In p (tasks_of (sq s))).
    { intros p H. rewrite E. apply in_tasks_of in H. apply in_tasks_of. split; [right|]; tauto. }
    constructor; prj; auto.
    - rewrite sq_set_sq. intros p H. apply g_sq0. auto.
    - unfold flight in *. rewrite sq_set_sq, rq_set_sq. prj. rewrite E in g_flight_nd0.
      unfold tasks_of in g_flight_nd0. simpl in g_flight_nd0. fold (tasks_of rest) in g_flight_nd0.
      destruct (is_task t); [|exact g_flight_nd0].
      simpl in g_flight_nd0. inversion g_flight_nd0; assumption.
    - rewrite sq_set_sq. intros p H. apply g_unrun0. apply in_app_or in H. apply in_or_app. destruct H; auto.
  Qed.

  (* ---------------- the server handles the head of the client's queue *)
  Lemma good_handle_head : forall s q rest, good s -> rq s = q :: rest -> good (handle (set_rq rest s) q).
  Proof.
    intros s q rest G E.
    pose proof (good_drop_rq s q rest G E) as G1.
    unfold handle. destruct (p_job q <? 2); [exact G1|]. prj.
    destruct (find_job (p_job q) (s_jobs s)) as [p|] eqn:F; [|exact G1].
    apply find_job_some in F. destruct F as (Hp & Hj).
    destruct (g_rq s G q) as (p' & Hp' & Hj' & Hs' & Hr' & Hx'); [rewrite E; left; reflexivity|].
    assert (p' = p) by (apply (job_inj (s_jobs s)); auto; [apply (g_jobs_nd s G) | congruence]). subst p'.
    (* q's serial occurs nowhere else in flight *)
    assert (Hfl : ~ In (p_ser q) (sers (tasks_of (sq s) ++ c_inbox s ++ rest))).
    { pose proof (g_flight_nd s G) as N. unfold flight in N. rewrite E in N.
      rewrite app_assoc in N. rewrite sers_app in N. simpl in N. apply NoDup_remove_2 in N.
      rewrite <- sers_app in N. rewrite <- app_assoc in N. exact N. }
    assert (Hother : forall p0, In p0 (s_jobs s) -> In (p_ser p0) (sers (tasks_of (sq s) ++ c_inbox s ++ rest)) -> p_job p0 <> p_job q).
    { intros p0 H0 Hi Hq. assert (p0 = p) by (apply (job_inj (s_jobs s)); auto; [apply (g_jobs_nd s G) | congruence]).
      subst p0. apply Hfl. rewrite <- Hs'. exact Hi. }
    destruct G1. unfold flight in *. qs. prjh.
    constructor; unfold flight; qs; unfold set_table; prj; auto.
    - intros x Hx. apply in_del_job in Hx. apply g_jobs_in0. tauto.
    - apply nodup_map_del_job; auto.
    - intros x Hx. apply in_del_job in Hx. apply g_jobs_id0. tauto.
    - intros p0 r [Hd|Hd].
      + inversion Hd; subst p0 r. split; [apply g_jobs_in0; exact Hp|]. split; [exact Hr'|].
        split; [exact Hx'|]. intro Hi. apply in_del_job in Hi. tauto.
      + destruct (g_done_own0 p0 r Hd) as (A & B & C & D). split; [exact A|]. split; [exact B|].
        split; [exact C|]. intro Hi. apply in_del_job in Hi. tauto.
    - simpl. constructor; auto. intro Hi. apply in_sers_inv in Hi. destruct Hi as (p0 & H0 & E0).
      apply in_map_iff in H0. destruct H0 as ((p1, r1) & Ef & Hd). simpl in Ef. subst p1.
      destruct (g_done_own0 p0 r1 Hd) as (A & _ & _ & D).
      assert (p0 = p) by (apply (ser_inj (s_sched s)); auto). subst p0. contradiction.
    - intros p0 H0. destruct (g_part0 p0 H0) as [Hj0|(r & Hd)].
      + destruct (Z.eq_dec (p_job p0) (p_job q)) as [Eq|Ne].
        * right. assert (p0 = p) by (apply (job_inj (s_jobs s)); auto; congruence). subst p0.
          exists (p_pl q). left; reflexivity.
        * left. apply in_del_job. tauto.
      + right. exists r. right; exact Hd.
    - intros x Hx. apply in_del_job. split; [apply g_sq0; exact Hx|].
      apply Hother; [apply g_sq0; exact Hx|]. apply in_sers. apply in_or_app. left. exact Hx.
    - intros x Hx. apply in_del_job. split; [apply g_inbox0; exact Hx|].
      apply Hother; [apply g_inbox0; exact Hx|]. apply in_sers. apply in_or_app. right. apply in_or_app. left. exact Hx.
    - intros q0 H0. destruct (g_rq0 q0 H0) as (p0 & A & B & C & D & X).
      exists p0. repeat split; auto. apply in_del_job. split; auto.
      apply Hother; auto. rewrite C. apply in_sers. apply in_or_app. right. apply in_or_app. right. exact H0.
  Qed.

  Lemma good_send_results : forall d k s, good s -> good (send_results d k s).
  Proof.
    induction k as [|k IH]; intros s G; simpl; [exact G|].
    destruct (rq s) as [|q rest] eqn:E; [exact G|].
    apply IH. destruct d; [apply good_handle_head | eapply good_drop_rq]; eauto.
  Qed.

  (* ---------------- the client receives the head of the server's queue *)
  Lemma good_recv_head : forall s t rest, good s -> sq s = t :: rest -> good (recv_task (set_sq rest s) t).
  Proof.
    intros s t rest G E.
    pose proof (good_drop_sq s t rest G E) as G1.
    unfold recv_task. destruct (p_job t <? 2) eqn:T; [exact G1|].
    assert (Ht : is_task t = true) by (unfold is_task; apply Z.leb_le; apply Z.ltb_ge in T; exact T).
    assert (Hin : In t (tasks_of (sq s))) by (rewrite E; apply in_tasks_of; split; [left; reflexivity|exact Ht]).
    pose proof (g_flight_nd s G) as N. unfold flight in N. rewrite E in N.
    unfold tasks_of in N. simpl in N. rewrite Ht in N. fold (tasks_of rest) in N.
    pose proof (g_unrun s G) as U. pose proof (g_sq s G t Hin) as Hjob.
    destruct G1. unfold flight in *. qs. prjh.
    constructor; unfold flight; qs; unfold set_inbox; prj; auto.
    - intros x Hx. apply in_app_or in Hx. destruct Hx as [Hx|[->|[]]]; auto.
    - eapply Permutation_NoDup; [|exact N].
      unfold sers. apply Permutation_map.
      rewrite <- (app_assoc (c_inbox s) [t] (rq s)). simpl. rewrite !app_assoc.
      apply Permutation_cons_app. reflexivity.
    - intros x Hx. apply U. rewrite E.
      apply in_app_or in Hx. destruct Hx as [Hx|Hx].
      + apply in_or_app. left. apply in_tasks_of in Hx. apply in_tasks_of. split; [right|]; tauto.
      + apply in_app_or in Hx. destruct Hx as [Hx|[->|[]]].
        * apply in_or_app. right. exact Hx.
        * apply in_or_app. left. rewrite <- E. exact Hin.
  Qed.

  Lemma good_send_tasks : forall d k s, good s -> good (send_tasks d k s).
  Proof.
    induction k as [|k IH]; intros s G; simpl; [exact G|].
    destruct (sq s) as [|t rest] eqn:E; [exact G|].
    apply IH. destruct d; [apply good_recv_head | eapply good_drop_sq]; eauto.
  Qed.
End Inv.

Section Inv2.
  Variable run : Z -> Z -> Z.
  Variable c : Z.

  Lemma nth_error_split_remove : forall (A : Type) i (l : list A) x,
    nth_error l i = Some x -> Permutation l (x :: remove_nth i l) /\ In x l /\ (forall y, In y (remove_nth i l) -> In y l).
  Proof.
    induction i as [|i IH]; intros l x H; destruct l as [|a l]; simpl in *; try discriminate.
    - inversion H; subst. repeat split; auto.
    - destruct (IH l x H) as (P & I & S). repeat split; auto.
      + etransitivity; [apply perm_skip; exact P|]. apply perm_swap.
      + intros y [->|Hy]; auto.
  Qed.

  (* ---------------- a tasker goroutine finishes *)
  Lemma good_run : forall s i t, good run c s -> nth_error (c_inbox s) i = Some t ->
    good run c (c_enqueue (Pkt (p_job t) (p_ser t) (run c (p_pl t)))
                  (add_exec t (set_inbox (remove_nth i (c_inbox s)) s))).
  Proof.
    intros s i t G H.
    destruct (nth_error_split_remove _ i (c_inbox s) t H) as (P & Hin & Hsub).
    pose proof (g_inbox run c s G t Hin) as Hjob.
    assert (Hnx : ~ In (p_ser t) (sers (c_exec s))).
    { apply (g_unrun run c s G). apply in_or_app. right. exact Hin. }
    pose proof (g_flight_nd run c s G) as N. unfold flight in N.
    assert (N' : NoDup (sers (tasks_of (sq s) ++ (t :: remove_nth i (c_inbox s)) ++ rq s))).
    { eapply Permutation_NoDup; [|exact N]. unfold sers. apply Permutation_map.
      apply Permutation_app_head. apply Permutation_app_tail. exact P. }
    assert (N2 : NoDup (sers (tasks_of (sq s)) ++ p_ser t :: sers (remove_nth i (c_inbox s) ++ rq s))).
    { rewrite sers_app in N'. exact N'. }
    pose proof (NoDup_remove_1 _ _ _ N2) as NF1. pose proof (NoDup_remove_2 _ _ _ N2) as NF2.
    rewrite <- sers_app in NF1, NF2.
    set (q := Pkt (p_job t) (p_ser t) (run c (p_pl t))).
    (* the state before the result is queued *)
    set (s1 := add_exec t (set_inbox (remove_nth i (c_inbox s)) s)).
    assert (Hrest : forall x, In x (tasks_of (sq s) ++ remove_nth i (c_inbox s)) -> p_ser x <> p_ser t).
    { intros x Hx Ex. apply NF2. rewrite <- Ex. apply in_sers.
      apply in_app_or in Hx. apply in_or_app. destruct Hx as [Hx|Hx]; [left; exact Hx|].
      right. apply in_or_app. left. exact Hx. }
    assert (G1 : good run c s1 /\ ~ In (p_ser t) (sers (flight s1))).
    { split.
      - destruct G. subst s1. constructor; unfold flight; qs; unfold add_exec, set_inbox; prj; auto.
        + intros p r Hd. destruct (g_done_own0 p r Hd) as (A & B & C & D). repeat split; auto. right; exact C.
        + intros x Hx. apply g_inbox0. apply Hsub. exact Hx.
        + intros q0 H0. destruct (g_rq0 q0 H0) as (p0 & A & B & C & D & X). exists p0. repeat split; auto. right; exact X.
        + intros x [->|Hx]; [apply g_jobs_in0; exact Hjob | apply g_exec_in0; exact Hx].
        + simpl. constructor; auto.
        + intros x Hx. simpl. intros [Ex|Hi].
          * apply (Hrest x Hx). symmetry. exact Ex.
          * revert Hi. apply g_unrun0. apply in_app_or in Hx. apply in_or_app. destruct Hx; auto.
      - subst s1. unfold flight. qs. unfold add_exec, set_inbox. prj. exact NF2. }
    destruct G1 as (G1 & Hfresh).
    assert (Hq : exists p, In p (s_jobs s1) /\ p_job p = p_job q /\ p_ser p = p_ser q /\ p_pl q = run c (p_pl p) /\ In p (c_exec s1)).
    { exists t. subst s1 q. unfold add_exec, set_inbox. prj. simpl. repeat split; auto. }
    assert (Hfq : ~ In (p_ser q) (sers (flight s1))) by exact Hfresh.
    clearbody s1 q. clear - G1 Hfq Hq.
    unfold c_enqueue. destruct (len (c_send s1) <? qcap) eqn:Ecap; [|exact G1].
    assert (Erq : rq (Sess (s_serial s1) (s_sched s1) (s_jobs s1) (s_done s1) (s_peek s1) (s_send s1)
                           (c_inbox s1) (c_exec s1) (c_peek s1) (c_send s1 ++ [q]) (s_key s1) (c_key s1) (s_chan s1))
                  = rq s1 ++ [q]) by (unfold rq; prj; apply all_q_app).
    destruct G1. constructor; unfold flight in *; rewrite ?Erq; prj; auto.
    - intros q0 H0. apply in_app_or in H0. destruct H0 as [H0|[<-|[]]]; auto.
    - change (sq (Sess (s_serial s1) (s_sched s1) (s_jobs s1) (s_done s1) (s_peek s1) (s_send s1)
                           (c_inbox s1) (c_exec s1) (c_peek s1) (c_send s1 ++ [q]) (s_key s1) (c_key s1) (s_chan s1))) with (sq s1).
      rewrite !app_assoc. rewrite sers_app. simpl. apply nodup_app_iff. split; [rewrite <- app_assoc; exact g_flight_nd0|].
      split; [constructor; [intros []|constructor]|].
      intros x Hx [<-|[]]. apply Hfq. rewrite <- app_assoc in Hx. exact Hx.
  Qed.
End Inv2.

Section Inv3.
  Variable run : Z -> Z -> Z.
  Variable c : Z.

  Lemma task_ok_spec : forall j s, task_ok j s = true ->
    2 <= j /\ find_job j (s_jobs s) = None /\ len (s_send s) + 1 < qcap.
  Proof.
    unfold task_ok, tracked. intros j s H. apply andb_prop in H. destruct H as (H & H3).
    apply andb_prop in H. destruct H as (H1 & H2). apply Z.leb_le in H1. apply Z.ltb_lt in H3.
    destruct (find_job j (s_jobs s)); [discriminate|]. auto.
  Qed.

  (* ---------------- the operator schedules a task *)
  Lemma good_task : forall s j pl, good run c s -> task_ok j s = true ->
    good run c (add_job (Pkt j (s_serial s) pl) s).
  Proof.
    intros s j pl G H. apply task_ok_spec in H. destruct H as (Hj & Hf & _).
    set (p := Pkt j (s_serial s) pl).
    assert (Hser : forall x, In x (s_sched s) -> p_ser x <> p_ser p).
    { intros x Hx. pose proof (g_sched_ser run c s G x Hx). simpl. lia. }
    assert (Hfl : ~ In (p_ser p) (sers (flight s))).
    { intro Hi. destruct (flight_ser_job run c s _ G Hi) as (x & Hx & Ex).
      apply (Hser x); [apply (g_jobs_in run c s G); exact Hx | exact Ex]. }
    assert (Htask : is_task p = true) by (unfold is_task; simpl; apply Z.leb_le; exact Hj).
    destruct G. constructor; unfold flight in *; qs; unfold add_job; prj; auto.
    - lia.
    - intros x [<-|Hx]; [simpl; lia | specialize (g_sched_ser0 x Hx); lia].
    - simpl. constructor; auto. intro Hi. apply in_sers_inv in Hi. destruct Hi as (x & Hx & Ex). exact (Hser x Hx Ex).
    - intros x [<-|Hx]; [left; reflexivity | right; apply g_jobs_in0; exact Hx].
    - simpl. constructor; auto. intro Hi. apply in_map_iff in Hi. destruct Hi as (x & Ex & Hx).
      exact (find_job_none _ _ Hf x Hx Ex).
    - intros x [<-|Hx]; [exact Hj | auto].
    - intros x r Hd. destruct (g_done_own0 x r Hd) as (A & B & C & D). split; [right; exact A|]. split; [exact B|].
      split; [exact C|]. intros [E|Hi]; [|contradiction]. subst x. exact (Hser p A eq_refl).
    - intros x [<-|Hx]; [left; left; reflexivity|]. destruct (g_part0 x Hx) as [Hi|Hd]; [left; right; exact Hi | right; exact Hd].
    - rewrite tasks_of_app. intros x Hx. apply in_app_or in Hx. destruct Hx as [Hx|Hx]; [right; apply g_sq0; exact Hx|].
      unfold tasks_of in Hx. simpl in Hx. fold p in Hx. rewrite Htask in Hx. destruct Hx as [<-|[]]. left; reflexivity.
    - intros x Hx. right. apply g_inbox0. exact Hx.
    - intros q Hq. destruct (g_rq0 q Hq) as (x & A & B & C & D & X). exists x. repeat split; auto. right; exact A.
    - rewrite tasks_of_app. unfold tasks_of at 2. simpl. fold p. rewrite Htask.
      eapply Permutation_NoDup with (l := sers (p :: tasks_of (sq s) ++ c_inbox s ++ rq s)).
      + unfold sers. apply Permutation_map. rewrite <- app_assoc. simpl. apply Permutation_cons_app. reflexivity.
      + simpl. constructor; auto.
    - intros x Hx. right. apply g_exec_in0. exact Hx.
    - rewrite tasks_of_app. unfold tasks_of at 2. simpl. fold p. rewrite Htask.
      intros x Hx. rewrite <- app_assoc in Hx. apply in_app_or in Hx. destruct Hx as [Hx|Hx].
      + apply g_unrun0. apply in_or_app. left. exact Hx.
      + simpl in Hx. destruct Hx as [<-|Hx]; [|apply g_unrun0; apply in_or_app; right; exact Hx].
        intro Hi. apply in_sers_inv in Hi. destruct Hi as (x & Hx & Ex).
        exact (Hser x (g_exec_in0 x Hx) Ex).
  Qed.
End Inv3.

Section Steps.
  Variable run : Z -> Z -> Z.

  Lemma good_set_keys : forall c a b s, good run c s -> good run c (set_keys a b s).
  Proof. intros c a b s G. destruct G. constructor; auto. Qed.
  Lemma good_set_chan : forall c b s, good run c s -> good run c (set_chan b s).
  Proof. intros c b s G. destruct G. constructor; auto. Qed.

  Lemma good_flag : forall c s, good run c s -> good run c (s_enqueue flag_pkt s).
  Proof.
    intros c s G. unfold s_enqueue. destruct (len (s_send s) <? qcap) eqn:E; [|exact G].
    assert (Esq : sq (Sess (s_serial s) (s_sched s) (s_jobs s) (s_done s) (s_peek s) (s_send s ++ [flag_pkt])
                          (c_inbox s) (c_exec s) (c_peek s) (c_send s) (s_key s) (c_key s) (s_chan s)) = sq s ++ [flag_pkt])
      by (unfold sq; prj; apply all_q_app).
    assert (Et : tasks_of (sq s ++ [flag_pkt]) = tasks_of (sq s)).
    { rewrite tasks_of_app. unfold tasks_of at 2. simpl. apply app_nil_r. }
    destruct G. constructor; unfold flight in *; rewrite ?Esq, ?Et; prj; auto.
  Qed.

  Lemma handle_untracked : forall s j r, tracked j s = false -> handle s (Pkt j 0 r) = s.
  Proof.
    intros s j r H. unfold handle, tracked in *. simpl. destruct (j <? 2); [reflexivity|].
    destruct (find_job j (s_jobs s)); [discriminate|reflexivity].
  Qed.

  Lemma good_sstep : forall c l s, good run c s -> l_safe l s -> good run c (sstep run c l s).
  Proof.
    intros c l s G S. destruct l; simpl in *.
    - destruct (task_ok j s) eqn:E; [apply good_task; auto | exact G].
    - apply good_send_tasks. apply good_send_results. exact G.
    - destruct (nth_error (c_inbox s) i) eqn:E; [apply good_run; auto | exact G].
    - rewrite handle_untracked; auto.
    - destruct (s_chan s); [exact G|]. apply good_flag. apply good_set_chan. exact G.
    - destruct (s_chan s); [|exact G]. apply good_flag. apply good_set_chan. exact G.
    - apply good_set_keys. exact G.
    - exact G.
  Qed.

  (* ---------------- the finished Jobs only grow, whatever the step *)
  Lemma done_handle : forall s q, incl (s_done s) (s_done (handle s q)).
  Proof.
    intros s q. unfold handle. destruct (p_job q <? 2); [apply incl_refl|].
    destruct (find_job (p_job q) (s_jobs s)); [|apply incl_refl]. unfold set_table. prj. apply incl_tl. apply incl_refl.
  Qed.
  Lemma done_send_results : forall d k s, incl (s_done s) (s_done (send_results d k s)).
  Proof.
    induction k as [|k IH]; intros s; simpl; [apply incl_refl|].
    destruct (rq s) as [|q rest]; [apply incl_refl|].
    eapply incl_tran; [|apply IH]. destruct d; [|apply incl_refl].
    eapply incl_tran; [|apply done_handle]. apply incl_refl.
  Qed.
  Lemma done_recv_task : forall s t, s_done (recv_task s t) = s_done s.
  Proof. intros. unfold recv_task. destruct (p_job t <? 2); reflexivity. Qed.
  Lemma done_send_tasks : forall d k s, s_done (send_tasks d k s) = s_done s.
  Proof.
    induction k as [|k IH]; intros s; simpl; [reflexivity|].
    destruct (sq s) as [|t rest]; [reflexivity|]. rewrite IH. destruct d; [rewrite done_recv_task|]; reflexivity.
  Qed.
  Lemma done_c_enqueue : forall p s, s_done (c_enqueue p s) = s_done s.
  Proof. intros. unfold c_enqueue. destruct (len (c_send s) <? qcap); reflexivity. Qed.
  Lemma done_s_enqueue : forall p s, s_done (s_enqueue p s) = s_done s.
  Proof. intros. unfold s_enqueue. destruct (len (s_send s) <? qcap); reflexivity. Qed.

  Lemma done_sstep : forall c l s, incl (s_done s) (s_done (sstep run c l s)).
  Proof.
    intros c l s. destruct l; simpl.
    - destruct (task_ok j s); apply incl_refl.
    - rewrite done_send_tasks. apply done_send_results.
    - destruct (nth_error (c_inbox s) i); [rewrite done_c_enqueue|]; apply incl_refl.
    - apply done_handle.
    - destruct (s_chan s); [|rewrite done_s_enqueue]; apply incl_refl.
    - destruct (s_chan s); [rewrite done_s_enqueue|]; apply incl_refl.
    - apply incl_refl.
    - apply incl_refl.
  Qed.

  (* ---------------- the global machine: a step only touches the session it names *)
  Lemma upd_same : forall (st : state) c s, upd st c s c = s.
  Proof. intros. unfold upd. rewrite Z.eqb_refl. reflexivity. Qed.
  Lemma upd_other : forall (st : state) c s c', c' <> c -> upd st c s c' = st c'.
  Proof. intros. unfold upd. destruct (c' =? c) eqn:E; [apply Z.eqb_eq in E; contradiction|reflexivity]. Qed.

  Lemma step_same : forall st l, step run st l (client_of l) = sstep run (client_of l) l (st (client_of l)).
  Proof. intros. unfold step. apply upd_same. Qed.
  Lemma step_other : forall st l c, client_of l <> c -> step run st l c = st c.
  Proof. intros. unfold step. apply upd_other. auto. Qed.

  Definition all_good (st : state) : Prop := forall c, good run c (st c).

  Lemma all_good_init : all_good init.
  Proof. intro c. apply good_init. Qed.

  Lemma all_good_step : forall st l, all_good st -> l_safe l (st (client_of l)) -> all_good (step run st l).
  Proof.
    intros st l G S c. destruct (Z.eq_dec (client_of l) c) as [<-|N].
    - rewrite step_same. apply good_sstep; auto.
    - rewrite step_other; auto.
  Qed.

  Lemma all_good_hist : forall h st, all_good st -> hist_ok run l_safe h st -> all_good (run_hist run h st).
  Proof.
    induction h as [|l h IH]; intros st G H; simpl in *; [exact G|].
    destruct H as (S & H). apply IH; auto. apply all_good_step; auto.
  Qed.

  Lemma run_hist_app : forall a b st, run_hist run (a ++ b) st = run_hist run b (run_hist run a st).
  Proof. intros. unfold run_hist. apply fold_left_app. Qed.

  Lemma done_hist : forall h st c, incl (s_done (st c)) (s_done (run_hist run h st c)).
  Proof.
    induction h as [|l h IH]; intros st c; simpl; [apply incl_refl|].
    eapply incl_tran; [|apply IH].
    destruct (Z.eq_dec (client_of l) c) as [<-|N].
    - rewrite step_same. apply done_sstep.
    - rewrite step_other; auto. apply incl_refl.
  Qed.

  Lemma hist_ok_app : forall P a b st, hist_ok run P (a ++ b) st -> hist_ok run P a st /\ hist_ok run P b (run_hist run a st).
  Proof.
    induction a as [|l a IH]; intros b st H; simpl in *; [auto|].
    destruct H as (S & H). apply IH in H. tauto.
  Qed.

  Lemma hist_ok_weaken : forall (P Q : label -> sess -> Prop), (forall l s, P l s -> Q l s) ->
    forall h st, hist_ok run P h st -> hist_ok run Q h st.
  Proof. intros P Q PQ. induction h as [|l h IH]; intros st H; simpl in *; [auto|]. destruct H; split; auto. Qed.

  Lemma live_safe : forall l s, l_live l s -> l_safe l s.
  Proof. destruct l; simpl; auto. Qed.

  (* ---------------- safety theorems *)
  Theorem job_result_own : forall h c p r,
    hist_ok run l_safe h init ->
    In (p, r) (s_done (run_hist run h init c)) ->
    r = run c (p_pl p) /\ In p (s_sched (run_hist run h init c)).
  Proof.
    intros h c p r H Hd. pose proof (all_good_hist h init all_good_init H c) as G.
    destruct (g_done_own run c _ G p r Hd) as (A & B & _). auto.
  Qed.

  Lemma done_unique : forall c s p r r', good run c s -> In (p, r) (s_done s) -> In (p, r') (s_done s) -> r = r'.
  Proof.
    intros c s p r r' G. pose proof (g_done_nd run c s G) as N. clear G.
    induction (s_done s) as [|(p0, r0) d IH]; intros H1 H2; [destruct H1|].
    simpl in N. inversion N as [|? ? Hx N']; subst.
    destruct H1 as [E1|H1]; destruct H2 as [E2|H2].
    - congruence.
    - inversion E1; subst. exfalso. apply Hx. change (p_ser p) with (p_ser (fst (p, r'))). apply in_sers.
      apply in_map. exact H2.
    - inversion E2; subst. exfalso. apply Hx. change (p_ser p) with (p_ser (fst (p, r))). apply in_sers.
      apply in_map. exact H1.
    - apply IH; auto.
  Qed.

  (* a Job completes at most once: the finished Jobs have pairwise different serials, and a
     result, once recorded, is never replaced by any later step (later results for it are ignored) *)
  Theorem job_completes_at_most_once : forall h h2 c p r r',
    hist_ok run l_safe (h ++ h2) init ->
    In (p, r) (s_done (run_hist run h init c)) ->
    In (p, r') (s_done (run_hist run (h ++ h2) init c)) ->
    r' = r /\ NoDup (sers (map fst (s_done (run_hist run (h ++ h2) init c)))).
  Proof.
    intros h h2 c p r r' H H1 H2.
    pose proof (all_good_hist _ init all_good_init H c) as G.
    split; [|apply (g_done_nd run c _ G)].
    rewrite run_hist_app in *. apply (done_hist h2 _ c) in H1.
    symmetry. eapply done_unique; eauto.
  Qed.

  Theorem client_runs_each_once : forall h c,
    hist_ok run l_safe h init ->
    NoDup (sers (c_exec (run_hist run h init c))) /\
    incl (c_exec (run_hist run h init c)) (s_sched (run_hist run h init c)).
  Proof.
    intros h c H. pose proof (all_good_hist h init all_good_init H c) as G.
    split; [apply (g_exec_nd run c _ G) | apply (g_exec_in run c _ G)].
  Qed.

  (* the session of device c only depends on the steps that name c *)
  Definition names (c : Z) (l : label) : bool := client_of l =? c.

  Lemma run_hist_proj : forall h st c,
    run_hist run h st c = fold_left (fun s l => sstep run c l s) (filter (names c) h) (st c).
  Proof.
    induction h as [|l h IH]; intros st c; simpl; [reflexivity|].
    rewrite IH. unfold names at 2. destruct (client_of l =? c) eqn:E.
    - apply Z.eqb_eq in E. subst c. simpl. rewrite step_same. reflexivity.
    - apply Z.eqb_neq in E. rewrite step_other; auto.
  Qed.

  Theorem no_cross_client : forall h c,
    run_hist run h init c = run_hist run (filter (names c) h) init c.
  Proof.
    intros h c. rewrite (run_hist_proj h), (run_hist_proj (filter (names c) h)).
    f_equal. symmetry. clear. induction h as [|l h IH]; simpl; [reflexivity|].
    destruct (names c l) eqn:E; simpl; [rewrite E|]; rewrite IH; reflexivity.
  Qed.
End Steps.

(* ------------------------------------------------------------------ liveness *)
Section Live.
  Variable run : Z -> Z -> Z.
  Variable c : Z.

  (* nothing was lost: every tracked job is in flight; both ends hold the same key; fewer
     tracked jobs than queue slots *)
  Definition live (s : sess) : Prop :=
    (forall p, In p (s_jobs s) -> In (p_ser p) (sers (flight s))) /\
    s_key s = c_key s /\ len (s_jobs s) < qcap.

  Lemma live_init : live init_sess.
  Proof. repeat split; simpl; try (intros ? []); unfold qcap, len; simpl; lia. Qed.

  Lemma len_del_job : forall j t, len (del_job j t) <= len t.
  Proof. intros. unfold len. pose proof (length_del_job_le j t). lia. Qed.

  Lemma live_handle_head : forall s q rest, good run c s -> live s -> rq s = q :: rest ->
    live (handle (set_rq rest s) q).
  Proof.
    intros s q rest G (L1 & L2 & L3) E.
    destruct (g_rq run c s G q) as (p & Hp & Hj & Hs & _); [rewrite E; left; reflexivity|].
    (* a tracked job other than p keeps its witness outside q *)
    assert (W : forall p0, In p0 (s_jobs s) -> p0 <> p -> In (p_ser p0) (sers (tasks_of (sq s) ++ c_inbox s ++ rest))).
    { intros p0 H0 Ne. pose proof (L1 p0 H0) as Hi. unfold flight in Hi. rewrite E in Hi.
      rewrite !sers_app in *. simpl in Hi.
      apply in_app_or in Hi. destruct Hi as [Hi|Hi]; [apply in_or_app; left; exact Hi|].
      apply in_app_or in Hi. destruct Hi as [Hi|Hi]; [apply in_or_app; right; apply in_or_app; left; exact Hi|].
      destruct Hi as [Eq|Hi]; [|apply in_or_app; right; apply in_or_app; right; exact Hi].
      exfalso. apply Ne. apply (jobs_ser_inj run c s); auto. congruence. }
    unfold handle. pose proof (g_jobs_id run c s G p Hp) as Hid.
    destruct (p_job q <? 2) eqn:T; [apply Z.ltb_lt in T; lia|]. prj.
    destruct (find_job (p_job q) (s_jobs s)) as [p'|] eqn:F.
    - apply find_job_some in F. destruct F as (Hp' & Hj').
      assert (p' = p) by (apply (job_inj (s_jobs s)); auto; [apply (g_jobs_nd run c s G) | congruence]). subst p'.
      repeat split; unfold flight; qs; unfold set_table; prj; auto.
      + intros p0 H0. apply in_del_job in H0. destruct H0 as (H0 & Ne). apply W; auto. intro; subst p0. apply Ne. exact Hj.
      + pose proof (len_del_job (p_job q) (s_jobs s)). lia.
    - exfalso. exact (find_job_none _ _ F p Hp Hj).
  Qed.

  Lemma live_recv_head : forall s t rest, good run c s -> live s -> sq s = t :: rest ->
    live (recv_task (set_sq rest s) t).
  Proof.
    intros s t rest G (L1 & L2 & L3) E. unfold recv_task.
    destruct (p_job t <? 2) eqn:T.
    - assert (Ht : is_task t = false) by (unfold is_task; apply Z.leb_gt; apply Z.ltb_lt in T; exact T).
      repeat split; unfold flight; qs; prj; auto. intros p Hp. specialize (L1 p Hp).
      unfold flight in L1. rewrite E in L1. unfold tasks_of in L1. simpl in L1. rewrite Ht in L1. exact L1.
    - assert (Ht : is_task t = true) by (unfold is_task; apply Z.leb_le; apply Z.ltb_ge in T; exact T).
      repeat split; unfold flight; qs; unfold set_inbox; prj; auto. intros p Hp. specialize (L1 p Hp).
      unfold flight in L1. rewrite E in L1. unfold tasks_of in L1. simpl in L1. rewrite Ht in L1.
      fold (tasks_of rest) in L1.
      eapply Permutation_in; [|exact L1]. unfold sers. apply Permutation_map.
      rewrite <- (app_assoc (c_inbox s) [t] (rq s)). simpl. rewrite !app_assoc.
      apply Permutation_cons_app. reflexivity.
  Qed.

  Lemma gl_send_results : forall k s, good run c s -> live s ->
    good run c (send_results true k s) /\ live (send_results true k s).
  Proof.
    induction k as [|k IH]; intros s G L; simpl; [auto|].
    destruct (rq s) as [|q rest] eqn:E; [auto|].
    apply IH; [apply good_handle_head | apply live_handle_head]; auto.
  Qed.

  Lemma gl_send_tasks : forall k s, good run c s -> live s ->
    good run c (send_tasks true k s) /\ live (send_tasks true k s).
  Proof.
    induction k as [|k IH]; intros s G L; simpl; [auto|].
    destruct (sq s) as [|t rest] eqn:E; [auto|].
    apply IH; [apply good_recv_head | apply live_recv_head]; auto.
  Qed.

  Lemma flight_le_jobs : forall s, good run c s -> (length (flight s) <= length (s_jobs s))%nat.
  Proof.
    intros s G.
    assert (H : (length (sers (flight s)) <= length (sers (s_jobs s)))%nat).
    { apply NoDup_incl_length; [apply (g_flight_nd run c s G)|].
      intros x Hx. destruct (flight_ser_job run c s x G Hx) as (p & Hp & <-). apply in_sers. exact Hp. }
    unfold sers in H. rewrite !map_length in H. exact H.
  Qed.

  Lemma length_all_q : forall pk q, (length q <= length (all_q pk q))%nat.
  Proof. destruct pk; simpl; lia. Qed.

  Lemma live_run : forall s i t, good run c s -> live s -> nth_error (c_inbox s) i = Some t ->
    live (c_enqueue (Pkt (p_job t) (p_ser t) (run c (p_pl t)))
                    (add_exec t (set_inbox (remove_nth i (c_inbox s)) s))).
  Proof.
    intros s i t G (L1 & L2 & L3) H.
    destruct (nth_error_split_remove _ i (c_inbox s) t H) as (P & Hin & Hsub).
    assert (Hcap : len (c_send s) <? qcap = true).
    { apply Z.ltb_lt. pose proof (flight_le_jobs s G) as F. unfold flight in F. rewrite !app_length in F.
      pose proof (length_all_q (c_peek s) (c_send s)) as Q. fold (rq s) in Q.
      pose proof (Permutation_length P) as PL. simpl in PL. unfold len in *. lia. }
    unfold c_enqueue. replace (c_send (add_exec t (set_inbox (remove_nth i (c_inbox s)) s))) with (c_send s) by reflexivity.
    rewrite Hcap. prj.
    set (q := Pkt (p_job t) (p_ser t) (run c (p_pl t))).
    repeat split; prj; auto.
    intros p Hp. specialize (L1 p Hp). unfold flight in *.
    match goal with |- In _ (sers (tasks_of (sq ?S) ++ _ ++ rq ?S)) =>
      change (sq S) with (sq s); change (rq S) with (all_q (c_peek s) (c_send s ++ [q])) end.
    rewrite all_q_app. fold (rq s).
    eapply Permutation_in; [|exact L1].
    assert (Eq : sers (tasks_of (sq s) ++ remove_nth i (c_inbox s) ++ rq s ++ [q]) =
                 sers (tasks_of (sq s) ++ remove_nth i (c_inbox s) ++ rq s ++ [t])).
    { rewrite !sers_app. reflexivity. }
    unfold add_exec, set_inbox. prj. rewrite Eq. unfold sers. apply Permutation_map. apply Permutation_app_head.
    etransitivity; [apply Permutation_app_tail; exact P|]. simpl.
    rewrite app_assoc. apply Permutation_cons_append.
  Qed.

  Lemma live_task : forall s j pl, good run c s -> live s -> task_ok j s = true -> len (s_jobs s) + 1 < qcap ->
    live (add_job (Pkt j (s_serial s) pl) s).
  Proof.
    intros s j pl G (L1 & L2 & L3) H Hc. apply task_ok_spec in H. destruct H as (Hj & _ & _).
    set (p := Pkt j (s_serial s) pl).
    assert (Htask : is_task p = true) by (unfold is_task; simpl; apply Z.leb_le; exact Hj).
    repeat split; unfold flight; qs; unfold add_job; prj; auto.
    - rewrite tasks_of_app. unfold tasks_of at 2. simpl. fold p. rewrite Htask.
      intros x [<-|Hx].
      + apply in_sers. apply in_or_app. left. apply in_or_app. right. left. reflexivity.
      + specialize (L1 x Hx). unfold flight in L1. rewrite !sers_app in *.
        apply in_app_or in L1. apply in_or_app. destruct L1 as [L1|L1]; [left; apply in_or_app; left; exact L1 | right; exact L1].
    - unfold len in *. simpl length. lia.
  Qed.

  Lemma live_flag : forall s, live s -> live (s_enqueue flag_pkt s).
  Proof.
    intros s (L1 & L2 & L3). unfold s_enqueue. destruct (len (s_send s) <? qcap); [|repeat split; auto].
    repeat split; prj; auto. intros p Hp. specialize (L1 p Hp). unfold flight in *.
    match goal with |- In _ (sers (tasks_of (sq ?S) ++ _ ++ rq ?S)) =>
      change (rq S) with (rq s); change (sq S) with (all_q (s_peek s) (s_send s ++ [flag_pkt])) end.
    rewrite all_q_app. fold (sq s). rewrite tasks_of_app. unfold tasks_of at 2. simpl. rewrite app_nil_r. exact L1.
  Qed.

  Lemma live_sstep : forall l s, good run c s -> live s -> l_live l s -> live (sstep run c l s).
  Proof.
    intros l s G L S. destruct l; simpl in *.
    - destruct (task_ok j s) eqn:E; [apply live_task; auto | exact L].
    - subst ok. destruct L as (L1 & L2 & L3). rewrite L2, Z.eqb_refl. simpl.
      destruct (gl_send_results kc s G (conj L1 (conj L2 L3))) as (G1 & Lv1).
      apply gl_send_tasks; auto.
    - destruct (nth_error (c_inbox s) i) eqn:E; [apply live_run; auto | exact L].
    - rewrite handle_untracked; auto.
    - destruct (s_chan s); [exact L|]. apply live_flag. destruct L as (L1 & L2 & L3). repeat split; auto.
    - destruct (s_chan s); [|exact L]. apply live_flag. destruct L as (L1 & L2 & L3). repeat split; auto.
    - subst both. destruct L as (L1 & L2 & L3). repeat split; prj; auto. lia.
    - exact L.
  Qed.

  (* ---------------- queues through one exchange *)
  Lemma rq_handle : forall s q, rq (handle s q) = rq s.
  Proof. intros. unfold handle. destruct (p_job q <? 2); [reflexivity|]. destruct (find_job (p_job q) (s_jobs s)); reflexivity. Qed.
  Lemma sq_handle : forall s q, sq (handle s q) = sq s.
  Proof. intros. unfold handle. destruct (p_job q <? 2); [reflexivity|]. destruct (find_job (p_job q) (s_jobs s)); reflexivity. Qed.
  Lemma inbox_handle : forall s q, c_inbox (handle s q) = c_inbox s.
  Proof. intros. unfold handle. destruct (p_job q <? 2); [reflexivity|]. destruct (find_job (p_job q) (s_jobs s)); reflexivity. Qed.
  Lemma sched_handle : forall s q, s_sched (handle s q) = s_sched s.
  Proof. intros. unfold handle. destruct (p_job q <? 2); [reflexivity|]. destruct (find_job (p_job q) (s_jobs s)); reflexivity. Qed.

  Lemma q_send_results : forall d k s,
    rq (send_results d k s) = skipn k (rq s) /\ sq (send_results d k s) = sq s /\
    c_inbox (send_results d k s) = c_inbox s /\ s_sched (send_results d k s) = s_sched s.
  Proof.
    induction k as [|k IH]; intros s; simpl; [auto|].
    destruct (rq s) as [|q rest] eqn:E; [rewrite E; auto|].
    destruct (IH (if d then handle (set_rq rest s) q else set_rq rest s)) as (A & B & C & D).
    rewrite A, B, C, D. destruct d; rewrite ?rq_handle, ?sq_handle, ?inbox_handle, ?sched_handle; qs; auto.
  Qed.

  Lemma q_recv_task : forall s t, rq (recv_task s t) = rq s /\ sq (recv_task s t) = sq s /\
    (length (c_inbox (recv_task s t)) <= length (c_inbox s) + 1)%nat /\ s_sched (recv_task s t) = s_sched s.
  Proof.
    intros. unfold recv_task. destruct (p_job t <? 2); [repeat split; auto; lia|].
    repeat split; auto. unfold set_inbox. prj. rewrite app_length. simpl. lia.
  Qed.

  Lemma q_send_tasks : forall d k s,
    sq (send_tasks d k s) = skipn k (sq s) /\ rq (send_tasks d k s) = rq s /\
    (length (c_inbox (send_tasks d k s)) + length (skipn k (sq s)) <= length (c_inbox s) + length (sq s))%nat /\
    s_sched (send_tasks d k s) = s_sched s.
  Proof.
    induction k as [|k IH]; intros s; simpl; [repeat split; auto|].
    destruct (sq s) as [|t rest] eqn:E; [rewrite E; repeat split; auto|].
    destruct (IH (if d then recv_task (set_sq rest s) t else set_sq rest s)) as (A & B & C & D).
    rewrite A, B, D. destruct d.
    - destruct (q_recv_task (set_sq rest s) t) as (A' & B' & C' & D'). rewrite A', B', D' in *. qs.
      repeat split; auto. simpl. change (c_inbox (set_sq rest s)) with (c_inbox s) in C'. lia.
    - qs. repeat split; auto. change (c_inbox (set_sq rest s)) with (c_inbox s) in C. simpl. lia.
  Qed.

  Definition run_n (n : nat) (s : sess) : sess :=
    fold_left (fun s l => sstep run c l s) (run_all_labels c n) s.

  Lemma q_run_n : forall n s, length (c_inbox s) = n ->
    c_inbox (run_n n s) = [] /\ sq (run_n n s) = sq s /\
    (length (rq (run_n n s)) <= length (rq s) + n)%nat /\ s_sched (run_n n s) = s_sched s.
  Proof.
    induction n as [|n IH]; intros s H.
    - unfold run_n. simpl. destruct (c_inbox s) eqn:E; [|discriminate]. repeat split; auto. lia.
    - unfold run_n, run_all_labels. simpl. fold (run_all_labels c n). fold (run_n n).
      destruct (c_inbox s) as [|t I] eqn:E; [discriminate|]. simpl.
      set (s' := c_enqueue (Pkt (p_job t) (p_ser t) (run c (p_pl t))) (add_exec t (set_inbox I s))).
      assert (HI : c_inbox s' = I) by (subst s'; unfold c_enqueue; destruct (len _ <? qcap); reflexivity).
      assert (HS : sq s' = sq s) by (subst s'; rewrite sq_c_enqueue; reflexivity).
      assert (HD : s_sched s' = s_sched s) by (subst s'; unfold c_enqueue; destruct (len _ <? qcap); reflexivity).
      assert (HR : (length (rq s') <= length (rq s) + 1)%nat).
      { subst s'. rewrite rq_c_enqueue. destruct (len _ <? qcap); cbv iota; rewrite ?app_length; qs; simpl; lia. }
      destruct (IH s') as (A & B & C & D); [rewrite HI; simpl in H; lia|].
      unfold run_n in A, B, C, D.
      rewrite A, B, D, HS, HD. repeat split; auto. lia.
  Qed.

  Lemma sround_eq : forall kc ks s,
    sround run c kc ks s = run_n (length (c_inbox (sstep run c (Exchange c kc ks true) s))) (sstep run c (Exchange c kc ks true) s).
  Proof. reflexivity. Qed.

  Lemma mu_sround : forall kc ks s, (1 <= kc)%nat -> (1 <= ks)%nat ->
    (mu (sround run c kc ks s) <= mu s - 1)%nat /\ s_sched (sround run c kc ks s) = s_sched s.
  Proof.
    intros kc ks s Hc Hs. rewrite sround_eq.
    set (d := true && (s_key s =? c_key s)).
    set (s1 := send_results d kc s). set (s2 := send_tasks d ks s1).
    change (sstep run c (Exchange c kc ks true) s) with s2.
    destruct (q_send_results d kc s) as (R1 & S1 & I1 & D1). fold s1 in R1, S1, I1, D1.
    destruct (q_send_tasks d ks s1) as (S2 & R2 & I2 & D2). fold s2 in S2, R2, I2, D2.
    destruct (q_run_n (length (c_inbox s2)) s2 eq_refl) as (I3 & S3 & R3 & D3).
    split; [|congruence].
    unfold mu. rewrite I3, S3, S2, S1. simpl length.
    rewrite R2, R1 in R3. rewrite S1, I1 in I2.
    pose proof (skipn_length kc (rq s)) as LR. pose proof (skipn_length ks (sq s)) as LS.
    destruct (sq s) as [|t0 q0] eqn:Esq; destruct (rq s) as [|r0 q1] eqn:Erq; simpl length in *; lia.
  Qed.

  Definition rounds_c (rs : list (nat * nat)) (s : sess) : sess :=
    fold_left (fun s r => sround run c (fst r) (snd r) s) rs s.

  Lemma gl_fold : forall ls s, good run c s -> live s ->
    Forall (fun l => forall s', l_live l s') ls ->
    good run c (fold_left (fun s l => sstep run c l s) ls s) /\ live (fold_left (fun s l => sstep run c l s) ls s).
  Proof.
    induction ls as [|l ls IH]; intros s G L F; simpl; [auto|].
    inversion F as [|? ? Hl Hls]; subst. apply IH; auto.
    - apply good_sstep; auto. apply live_safe. apply Hl.
    - apply live_sstep; auto.
  Qed.

  Lemma round_labels_live : forall kc ks s, Forall (fun l => forall s', l_live l s') (round_labels run c kc ks s).
  Proof.
    intros. unfold round_labels. constructor; [intros; reflexivity|].
    unfold run_all_labels. apply Forall_forall. intros l Hl. apply repeat_spec in Hl. subst l. intros; exact I.
  Qed.

  Lemma gl_sround : forall kc ks s, good run c s -> live s ->
    good run c (sround run c kc ks s) /\ live (sround run c kc ks s).
  Proof. intros. unfold sround. apply gl_fold; auto. apply round_labels_live. Qed.

  Lemma rounds_c_spec : forall rs s, good run c s -> live s ->
    Forall (fun r => (1 <= fst r)%nat /\ (1 <= snd r)%nat) rs ->
    good run c (rounds_c rs s) /\ live (rounds_c rs s) /\
    (mu (rounds_c rs s) <= mu s - length rs)%nat /\ s_sched (rounds_c rs s) = s_sched s.
  Proof.
    induction rs as [|r rs IH]; intros s G L F; unfold rounds_c; simpl.
    - split; [exact G|]. split; [exact L|]. split; [lia|reflexivity].
    - inversion F as [|? ? (Hc & Hs) Hrs]; subst.
      destruct (gl_sround (fst r) (snd r) s G L) as (G1 & L1).
      destruct (mu_sround (fst r) (snd r) s Hc Hs) as (M1 & D1).
      destruct (IH _ G1 L1 Hrs) as (G2 & L2 & M2 & D2). fold (rounds_c rs (sround run c (fst r) (snd r) s)).
      split; [exact G2|]. split; [exact L2|]. split; [lia|congruence].
  Qed.

  (* with empty queues and nothing lost, every scheduled job is finished with its own result *)
  Lemma drained : forall s, good run c s -> live s -> mu s = O ->
    s_jobs s = [] /\ forall p, In p (s_sched s) -> In (p, run c (p_pl p)) (s_done s) /\ In p (c_exec s).
  Proof.
    intros s G (L1 & _) M. unfold mu in M.
    assert (F : flight s = []).
    { unfold flight. destruct (sq s); [|simpl in M; lia]. destruct (c_inbox s); [|simpl in M; lia].
      destruct (rq s); [reflexivity|simpl in M; lia]. }
    assert (J : s_jobs s = []).
    { destruct (s_jobs s) as [|p l] eqn:E; [reflexivity|]. specialize (L1 p (or_introl eq_refl)). rewrite F in L1. destruct L1. }
    split; [exact J|]. intros p Hp. destruct (g_part run c s G p Hp) as [Hj|(r & Hd)]; [rewrite J in Hj; destruct Hj|].
    destruct (g_done_own run c s G p r Hd) as (_ & -> & X & _). auto.
  Qed.
End Live.

Section Drain.
  Variable run : Z -> Z -> Z.

  Definition all_live (st : state) : Prop := forall c, live (st c).

  Lemma all_live_init : all_live init.
  Proof. intro c. apply live_init. Qed.

  Lemma all_gl_step : forall st l, all_good run st -> all_live st -> l_live l (st (client_of l)) ->
    all_good run (step run st l) /\ all_live (step run st l).
  Proof.
    intros st l G L S. split.
    - apply all_good_step; auto. apply live_safe. exact S.
    - intro c. destruct (Z.eq_dec (client_of l) c) as [<-|N].
      + rewrite step_same. apply live_sstep; auto.
      + rewrite step_other; auto.
  Qed.

  Lemma all_gl_hist : forall h st, all_good run st -> all_live st -> hist_ok run l_live h st ->
    all_good run (run_hist run h st) /\ all_live (run_hist run h st).
  Proof.
    induction h as [|l h IH]; intros st G L H; simpl in *; [auto|].
    destruct H as (S & H). destruct (all_gl_step st l G L S). apply IH; auto.
  Qed.

  Lemma filter_all : forall (A : Type) (f : A -> bool) l, Forall (fun x => f x = true) l -> filter f l = l.
  Proof. induction l as [|x l IH]; intros F; simpl; [reflexivity|]. inversion F; subst. rewrite H1, IH; auto. Qed.
  Lemma filter_none : forall (A : Type) (f : A -> bool) l, Forall (fun x => f x = false) l -> filter f l = [].
  Proof. induction l as [|x l IH]; intros F; simpl; [reflexivity|]. inversion F; subst. rewrite H1, IH; auto. Qed.

  Lemma round_labels_client : forall c kc ks s, Forall (fun l => client_of l = c) (round_labels run c kc ks s).
  Proof.
    intros. unfold round_labels. constructor; [reflexivity|].
    unfold run_all_labels. apply Forall_forall. intros l Hl. apply repeat_spec in Hl. subst l. reflexivity.
  Qed.

  Lemma ground_same : forall st c kc ks, ground run st (c, (kc, ks)) c = sround run c kc ks (st c).
  Proof.
    intros. unfold ground. rewrite run_hist_proj. rewrite filter_all; [reflexivity|].
    eapply Forall_impl; [|apply round_labels_client]. intros l E. unfold names. rewrite E. apply Z.eqb_refl.
  Qed.

  Lemma ground_other : forall st c kc ks c', c' <> c -> ground run st (c, (kc, ks)) c' = st c'.
  Proof.
    intros. unfold ground. rewrite run_hist_proj. rewrite filter_none; [reflexivity|].
    eapply Forall_impl; [|apply round_labels_client]. intros l E. unfold names. rewrite E. apply Z.eqb_neq. auto.
  Qed.

  Definition count_rounds (c : Z) (rs : list round) : nat := length (filter (fun r => fst r =? c) rs).

  Definition budgets_pos (r : round) : Prop := (1 <= fst (snd r))%nat /\ (1 <= snd (snd r))%nat.

  Lemma drain_spec : forall rs st, all_good run st -> all_live st -> Forall budgets_pos rs ->
    all_good run (drain run rs st) /\ all_live (drain run rs st) /\
    forall c, (mu (drain run rs st c) <= mu (st c) - count_rounds c rs)%nat /\
              s_sched (drain run rs st c) = s_sched (st c).
  Proof.
    induction rs as [|r rs IH]; intros st G L F; simpl.
    - split; [exact G|]. split; [exact L|]. intro c. split; [unfold count_rounds; simpl; lia|reflexivity].
    - inversion F as [|? ? Hr Hrs]; subst. destruct r as (c0 & kc & ks). destruct Hr as (Hc & Hs). simpl in Hc, Hs.
      set (st1 := ground run st (c0, (kc, ks))).
      assert (G1 : all_good run st1).
      { intro c. subst st1. destruct (Z.eq_dec c c0) as [->|N]; [rewrite ground_same; apply gl_sround; auto | rewrite ground_other; auto]. }
      assert (L1 : all_live st1).
      { intro c. subst st1. destruct (Z.eq_dec c c0) as [->|N]; [rewrite ground_same; apply gl_sround; auto | rewrite ground_other; auto]. }
      destruct (IH st1 G1 L1 Hrs) as (G2 & L2 & M2). unfold drain in *. simpl. fold st1.
      split; [exact G2|]. split; [exact L2|]. intro c. destruct (M2 c) as (Mc & Dc).
      unfold count_rounds in *. simpl. destruct (Z.eq_dec c c0) as [->|N].
      + rewrite Z.eqb_refl. simpl. subst st1. rewrite ground_same in Mc, Dc.
        destruct (mu_sround run c0 kc ks (st c0) Hc Hs) as (M1 & D1). split; [lia|congruence].
      + assert (E : (c0 =? c) = false) by (apply Z.eqb_neq; auto). rewrite E.
        subst st1. rewrite ground_other in Mc, Dc; auto.
  Qed.

  (* the drain is itself a history of the machine: intact exchanges and finishing taskers only *)
  Definition drain_label (l : label) : Prop :=
    (exists c kc ks, l = Exchange c kc ks true) \/ (exists c, l = Run c O).

  Lemma drain_as_history : forall rs st, exists h, drain run rs st = run_hist run h st /\ Forall drain_label h.
  Proof.
    induction rs as [|r rs IH]; intros st; simpl.
    - exists []. split; [reflexivity|constructor].
    - destruct r as (c0 & kc & ks). destruct (IH (ground run st (c0, (kc, ks)))) as (h & E & F).
      exists (round_labels run c0 kc ks (st c0) ++ h). split.
      + change (drain run ((c0, (kc, ks)) :: rs) st) with (drain run rs (ground run st (c0, (kc, ks)))).
        rewrite E. unfold ground. rewrite run_hist_app. reflexivity.
      + apply Forall_app. split; [|exact F]. unfold round_labels. constructor.
        * left. eauto.
        * unfold run_all_labels. apply Forall_forall. intros l Hl. apply repeat_spec in Hl. subst l. right. eauto.
  Qed.

  (* liveness: from any state reached without loss, mu (st c) fair rounds of every device c
     (in any interleaving, with any positive budgets) finish every scheduled job, each with
     the result its own client computed for it, each executed (once, by client_runs_each_once) *)
  Theorem drain_completes_all : forall h rs,
    hist_ok run l_live h init ->
    Forall budgets_pos rs ->
    (forall c, (mu (run_hist run h init c) <= count_rounds c rs)%nat) ->
    forall c p, In p (s_sched (run_hist run h init c)) ->
      In (p, run c (p_pl p)) (s_done (drain run rs (run_hist run h init) c)) /\
      In p (c_exec (drain run rs (run_hist run h init) c)) /\
      s_jobs (drain run rs (run_hist run h init) c) = [].
  Proof.
    intros h rs H F M c p Hp.
    destruct (all_gl_hist h init (all_good_init run) all_live_init H) as (G & L).
    destruct (drain_spec rs _ G L F) as (G2 & L2 & M2). destruct (M2 c) as (Mc & Dc).
    destruct (drained run c _ (G2 c) (L2 c)) as (J & D); [specialize (M c); lia|].
    rewrite <- Dc in Hp. destruct (D p Hp). auto.
  Qed.
End Drain.
