(* Proofs/Cbk.v -- C07: the CBK cipher of Model/Cbk.v is lossless: block functions, the size+1
   framing, the stream, for EVERY table, every shuffle offsets, every step pairs (g,h) with
   g,h < 8, every block size 16..255 (the code allows 16, 32, 64, 128). *)
From XMT Require Import Base.Prelude Model.Cbk Model.Dns Model.Wrappers Proofs.Wrappers.
From Coq Require Import ZifyBool.
Ltac Zify.zify_post_hook ::= Z.div_mod_to_equations.

(* ---- nibbles -------------------------------------------------------------------------------- *)
Lemma lo_range x : 0 <= lo x < 16. Proof. unfold lo. lia. Qed.
Lemma hi_range x : 0 <= hi x < 16. Proof. unfold hi. lia. Qed.
Lemma hi_mk a b : 0 <= a < 16 -> 0 <= b < 16 -> hi (mk a b) = a. Proof. unfold hi, mk. lia. Qed.
Lemma lo_mk a b : 0 <= a < 16 -> 0 <= b < 16 -> lo (mk a b) = b. Proof. unfold lo, mk. lia. Qed.
Lemma mk_hi_lo x : byte x -> mk (hi x) (lo x) = x. Proof. unfold byte, mk, hi, lo. lia. Qed.
Lemma mk_byte a b : 0 <= a < 16 -> 0 <= b < 16 -> byte (mk a b). Proof. unfold byte, mk. lia. Qed.
Lemma mixG_byte a b : byte (mixG a b). Proof. apply mk_byte; apply hi_range. Qed.
Lemma mixH_byte a b : byte (mixH a b). Proof. apply mk_byte; apply lo_range. Qed.

(* ---- upd / get ------------------------------------------------------------------------------ *)
Lemma upd_length i v : forall l, length (upd i v l) = length l.
Proof. induction i as [|i IH]; intros [|x l]; cbn [upd length]; auto. Qed.
Lemma upd_bytes i v : byte v -> forall l, bytes l -> bytes (upd i v l).
Proof.
  intros Hv. induction i as [|i IH]; intros [|x l] Hl; cbn [upd]; try constructor.
  - exact Hv.
  - apply bytes_inv in Hl. tauto.
  - apply bytes_inv in Hl. tauto.
  - apply IH. apply bytes_inv in Hl. tauto.
Qed.
Lemma get_byte i : forall l, bytes l -> byte (get i l).
Proof.
  unfold get. induction i as [|i IH]; intros [|x l] Hl; cbn [nth]; try (unfold byte; lia).
  - apply bytes_inv in Hl. tauto.
  - apply IH. apply bytes_inv in Hl. tauto.
Qed.

Lemma mix_length g h b : length (mix g h b) = length b.
Proof. unfold mix. rewrite !upd_length. reflexivity. Qed.
Lemma mix_bytes g h b : bytes b -> bytes (mix g h b).
Proof. intros. unfold mix. apply upd_bytes; [apply mixG_byte|]. apply upd_bytes; [apply mixH_byte | assumption]. Qed.
Lemma mix2_length g h b : length (mix2 g h b) = length b.
Proof. unfold mix2. rewrite !mix_length. reflexivity. Qed.
Lemma mix2_bytes g h b : bytes b -> bytes (mix2 g h b).
Proof. intros. unfold mix2. apply mix_bytes, mix_bytes. assumption. Qed.
Lemma swap2_length g h b : length (swap2 g h b) = length b.
Proof. unfold swap2. rewrite !upd_length. reflexivity. Qed.
Lemma swap2_bytes g h b : bytes b -> bytes (swap2 g h b).
Proof. intros. unfold swap2. repeat apply upd_bytes; try apply get_byte; assumption. Qed.

(* ---- the subtle step: the two tuple assignments applied twice give the identity, also when
        |g - h| = 1 and the byte pairs (g,h), (g+1,h+1) overlap.  All 56 pairs (g,h), g <> h < 8,
        with the nine bytes of the window universally quantified. ---- *)
Ltac enum8 g :=
  let H := fresh "E" in
  assert (H : (g = 0 \/ g = 1 \/ g = 2 \/ g = 3 \/ g = 4 \/ g = 5 \/ g = 6 \/ g = 7)%nat) by lia;
  repeat (destruct H as [H|H]); subst g.

Ltac nib :=
  repeat (first [ rewrite hi_mk by (first [apply hi_range | apply lo_range])
                | rewrite lo_mk by (first [apply hi_range | apply lo_range]) ]).

Lemma mix2_involutive_window :
  forall g h, (g < 8)%nat -> (h < 8)%nat -> g <> h ->
  forall x0 x1 x2 x3 x4 x5 x6 x7 x8 rest,
  byte x0 -> byte x1 -> byte x2 -> byte x3 -> byte x4 -> byte x5 -> byte x6 -> byte x7 -> byte x8 ->
  mix2 g h (mix2 g h (x0 :: x1 :: x2 :: x3 :: x4 :: x5 :: x6 :: x7 :: x8 :: rest))
  = x0 :: x1 :: x2 :: x3 :: x4 :: x5 :: x6 :: x7 :: x8 :: rest.
Proof.
  intros g h Hg Hh Hne x0 x1 x2 x3 x4 x5 x6 x7 x8 rest B0 B1 B2 B3 B4 B5 B6 B7 B8.
  enum8 g; enum8 h; try congruence;
  unfold mix2, mix, get; cbn [upd nth]; unfold mixG, mixH; nib;
  rewrite ?mk_hi_lo by assumption; reflexivity.
Qed.

Lemma mix2_involutive :
  forall g h b, (g < 8)%nat -> (h < 8)%nat -> g <> h -> bytes b -> (9 <= length b)%nat ->
  mix2 g h (mix2 g h b) = b.
Proof.
  intros g h b Hg Hh Hne Hb Hl.
  do 9 (destruct b as [|? b]; [cbn in Hl; lia|]).
  repeat match goal with H : bytes (_ :: _) |- _ => apply bytes_inv in H; destruct H end.
  apply mix2_involutive_window; assumption.
Qed.

Lemma swap2_involutive :
  forall g h b, (g < 8)%nat -> (h < 8)%nat -> g <> h -> (16 <= length b)%nat ->
  swap2 g h (swap2 g h b) = b.
Proof.
  intros g h b Hg Hh Hne Hl.
  do 16 (destruct b as [|? b]; [cbn in Hl; lia|]).
  enum8 g; enum8 h; try congruence; reflexivity.
Qed.

(* ---- one step and the six steps ------------------------------------------------------------- *)
Definition valid_step (s : nat * nat) : Prop := (fst s < 8)%nat /\ (snd s < 8)%nat.

Lemma enc_step_length s b : length (enc_step s b) = length b.
Proof. destruct s as [g h]. unfold enc_step. destruct (Nat.eqb g h); [reflexivity|]. rewrite swap2_length, mix2_length. reflexivity. Qed.
Lemma enc_step_bytes s b : bytes b -> bytes (enc_step s b).
Proof. destruct s as [g h]. unfold enc_step. intros. destruct (Nat.eqb g h); [assumption|]. apply swap2_bytes, mix2_bytes. assumption. Qed.
Lemma dec_step_length s b : length (dec_step s b) = length b.
Proof. destruct s as [g h]. unfold dec_step. destruct (Nat.eqb g h); [reflexivity|]. rewrite mix2_length, swap2_length. reflexivity. Qed.
Lemma dec_step_bytes s b : bytes b -> bytes (dec_step s b).
Proof. destruct s as [g h]. unfold dec_step. intros. destruct (Nat.eqb g h); [assumption|]. apply mix2_bytes, swap2_bytes. assumption. Qed.

Lemma dec_enc_step s b : valid_step s -> bytes b -> (16 <= length b)%nat -> dec_step s (enc_step s b) = b.
Proof.
  destruct s as [g h]. intros [Hg Hh] Hb Hl. cbn [fst snd] in *. unfold dec_step, enc_step.
  destruct (Nat.eqb g h) eqn:E; [reflexivity|]. apply Nat.eqb_neq in E.
  rewrite swap2_involutive; [| assumption | assumption | assumption | rewrite mix2_length; lia].
  apply mix2_involutive; try assumption. lia.
Qed.
Lemma enc_dec_step s b : valid_step s -> bytes b -> (16 <= length b)%nat -> enc_step s (dec_step s b) = b.
Proof.
  destruct s as [g h]. intros [Hg Hh] Hb Hl. cbn [fst snd] in *. unfold dec_step, enc_step.
  destruct (Nat.eqb g h) eqn:E; [reflexivity|]. apply Nat.eqb_neq in E.
  rewrite mix2_involutive; [| assumption | assumption | assumption | apply swap2_bytes; assumption | rewrite swap2_length; lia].
  apply swap2_involutive; assumption.
Qed.

Lemma scramble_enc_length steps : forall b, length (scramble_enc steps b) = length b.
Proof. unfold scramble_enc. induction steps as [|s r IH]; intros b; cbn [fold_left]; [reflexivity|]. rewrite IH. apply enc_step_length. Qed.
Lemma scramble_enc_bytes steps : forall b, bytes b -> bytes (scramble_enc steps b).
Proof. unfold scramble_enc. induction steps as [|s r IH]; intros b Hb; cbn [fold_left]; [assumption|]. apply IH, enc_step_bytes, Hb. Qed.
Lemma scramble_dec_length steps : forall b, length (scramble_dec steps b) = length b.
Proof. unfold scramble_dec. induction steps as [|s r IH]; intros b; cbn [fold_right]; [reflexivity|]. rewrite dec_step_length. apply IH. Qed.
Lemma scramble_dec_bytes steps : forall b, bytes b -> bytes (scramble_dec steps b).
Proof. unfold scramble_dec. induction steps as [|s r IH]; intros b Hb; cbn [fold_right]; [assumption|]. apply dec_step_bytes, IH, Hb. Qed.

(* scramble(b, true) undoes scramble(b, false), for every list of valid steps *)
Lemma scramble_dec_enc steps :
  Forall valid_step steps -> forall b, bytes b -> (16 <= length b)%nat ->
  scramble_dec steps (scramble_enc steps b) = b.
Proof.
  induction 1 as [|s r Hs Hr IH]; intros b Hb Hl; [reflexivity|].
  unfold scramble_dec, scramble_enc in *. cbn [fold_left fold_right].
  rewrite IH; [| apply enc_step_bytes; assumption | rewrite enc_step_length; assumption].
  apply dec_enc_step; assumption.
Qed.
Lemma scramble_enc_dec steps :
  Forall valid_step steps -> forall b, bytes b -> (16 <= length b)%nat ->
  scramble_enc steps (scramble_dec steps b) = b.
Proof.
  induction 1 as [|s r Hs Hr IH]; intros b Hb Hl; [reflexivity|].
  unfold scramble_dec, scramble_enc in *. cbn [fold_left fold_right].
  rewrite enc_dec_step; [apply IH; assumption | assumption | |].
  - apply (scramble_dec_bytes r). assumption.
  - pose proof (scramble_dec_length r b) as E. unfold scramble_dec in E. rewrite E. assumption.
Qed.

(* ---- the per-position layers ---------------------------------------------------------------- *)
Lemma mapi_length f : forall l i, length (mapi f i l) = length l.
Proof. induction l as [|x l IH]; intros i; cbn [mapi length]; auto. Qed.
Lemma mapi_inverse f g :
  (forall i x, byte x -> f i (g i x) = x) -> forall l i, bytes l -> mapi f i (mapi g i l) = l.
Proof.
  intros H. induction l as [|x l IH]; intros i Hl; cbn [mapi]; [reflexivity|].
  apply bytes_inv in Hl. destruct Hl as [Hx Hl]. rewrite H by assumption. rewrite IH by assumption. reflexivity.
Qed.

Lemma add_tab_bytes t b : bytes (add_tab t b).
Proof. unfold add_tab. apply mapi_bytes. intros. unfold byte. lia. Qed.
Lemma add_off_bytes o b : bytes (add_off o b).
Proof. unfold add_off. apply mapi_bytes. intros. unfold byte. lia. Qed.
Lemma sub_off_bytes o b : bytes (sub_off o b).
Proof. unfold sub_off. apply mapi_bytes. intros. unfold byte. lia. Qed.
Lemma sub_add_tab t b : bytes b -> sub_tab t (add_tab t b) = b.
Proof. intros. unfold sub_tab, add_tab. apply mapi_inverse; [|assumption]. intros i x Hx. unfold byte in Hx. lia. Qed.
Lemma sub_add_off o b : bytes b -> sub_off o (add_off o b) = b.
Proof. intros. unfold sub_off, add_off. apply mapi_inverse; [|assumption]. intros i x Hx. unfold byte in Hx. lia. Qed.
Lemma add_sub_off o b : bytes b -> add_off o (sub_off o b) = b.
Proof. intros. unfold sub_off, add_off. apply mapi_inverse; [|assumption]. intros i x Hx. unfold byte in Hx. lia. Qed.

(* ---- the block ------------------------------------------------------------------------------ *)
(* readInput undoes flushOutput on a whole buffer, for every table, offsets and valid steps *)
Theorem cbk_buf_roundtrip :
  forall offs (k : kconst) buf, Forall valid_step (snd k) -> bytes buf -> (16 <= length buf)%nat ->
  dec_buf offs k (enc_buf offs k buf) = buf.
Proof.
  intros offs [t steps] buf Hs Hb Hl. cbn [fst snd] in *. unfold dec_buf, enc_buf. cbn [fst snd].
  rewrite sub_add_off by (apply scramble_enc_bytes, add_tab_bytes).
  rewrite scramble_dec_enc; [apply sub_add_tab; assumption | assumption | apply add_tab_bytes |].
  unfold add_tab. rewrite mapi_length. assumption.
Qed.

(* the exported block functions: Decrypt(Encrypt(b)) = b and Encrypt(Decrypt(b)) = b *)
Theorem cbk_block_roundtrip :
  forall offs steps b, Forall valid_step steps -> bytes b -> (16 <= length b)%nat ->
  blk_decrypt offs steps (blk_encrypt offs steps b) = b.
Proof.
  intros offs steps b Hs Hb Hl. unfold blk_decrypt, blk_encrypt.
  rewrite scramble_enc_dec; [apply sub_add_off; assumption | assumption | apply add_off_bytes |].
  unfold add_off. rewrite mapi_length. assumption.
Qed.
Theorem cbk_block_roundtrip_rev :
  forall offs steps b, Forall valid_step steps -> bytes b -> (16 <= length b)%nat ->
  blk_encrypt offs steps (blk_decrypt offs steps b) = b.
Proof.
  intros offs steps b Hs Hb Hl. unfold blk_decrypt, blk_encrypt.
  rewrite add_sub_off by (apply scramble_enc_bytes; assumption).
  apply scramble_dec_enc; assumption.
Qed.

Lemma enc_buf_length offs k buf : length (enc_buf offs k buf) = length buf.
Proof. unfold enc_buf, add_off, add_tab. rewrite mapi_length, scramble_enc_length, mapi_length. reflexivity. Qed.
Lemma enc_buf_bytes offs k buf : bytes (enc_buf offs k buf).
Proof. unfold enc_buf. apply add_off_bytes. Qed.

(* ---- chunks --------------------------------------------------------------------------------- *)
Lemma chunks_f_fuel n : (0 < n)%nat ->
  forall fuel x fuel', (length x <= fuel)%nat -> (length x <= fuel')%nat -> chunks_f fuel n x = chunks_f fuel' n x.
Proof.
  intros Hn. induction fuel as [|fuel IH]; intros x fuel' H1 H2.
  - destruct x; [|cbn in H1; lia]. destruct fuel'; reflexivity.
  - destruct x as [|a x']; [destruct fuel'; reflexivity|].
    destruct fuel' as [|fuel']; [cbn in H2; lia|].
    cbn [chunks_f]. f_equal. apply IH; rewrite skipn_length; cbn [length] in *; lia.
Qed.

Lemma chunks_cons n x : (0 < n)%nat -> x <> [] -> chunks n x = firstn n x :: chunks n (skipn n x).
Proof.
  intros Hn Hx. unfold chunks. destruct x as [|a x']; [congruence|].
  cbn [length chunks_f]. f_equal. apply chunks_f_fuel; [assumption | | lia].
  rewrite skipn_length. cbn [length]. lia.
Qed.

Lemma chunks_app_block n o rest : (0 < n)%nat -> length o = n -> chunks n (o ++ rest) = o :: chunks n rest.
Proof.
  intros Hn Ho. rewrite chunks_cons; [| assumption | destruct o; [cbn in Ho; lia | discriminate]].
  rewrite firstn_app_exact, skipn_app_exact by assumption. reflexivity.
Qed.

Definition good_chunk (sz : nat) (c : list Z) : Prop := c <> [] /\ (length c <= sz)%nat /\ bytes c.

Lemma chunks_f_good sz : (0 < sz)%nat ->
  forall fuel x, (length x <= fuel)%nat -> bytes x ->
  Forall (good_chunk sz) (chunks_f fuel sz x) /\ concat (chunks_f fuel sz x) = x.
Proof.
  intros Hsz. induction fuel as [|fuel IH]; intros x Hl Hx.
  - destruct x; [split; [constructor | reflexivity] | cbn in Hl; lia].
  - destruct x as [|a x'] eqn:Ex; [split; [constructor | reflexivity]|]. rewrite <- Ex in *.
    assert (Hne : x <> []) by (subst; discriminate).
    cbn [chunks_f]. destruct x as [|a0 x0] eqn:Ex0; [congruence|]. rewrite <- Ex0 in *.
    destruct (IH (skipn sz x)) as [IH1 IH2].
    { rewrite skipn_length. assert (0 < length x)%nat by (rewrite Ex0; cbn; lia). lia. }
    { apply skipn_bytes. assumption. }
    split.
    + constructor; [|exact IH1]. repeat split.
      * rewrite Ex0. destruct sz; [lia|]. discriminate.
      * apply firstn_le_length.
      * apply firstn_bytes. assumption.
    + cbn [concat]. rewrite IH2. apply firstn_skipn.
Qed.

Lemma chunks_good sz x : (0 < sz)%nat -> bytes x ->
  Forall (good_chunk sz) (chunks sz x) /\ concat (chunks sz x) = x.
Proof. intros. unfold chunks. apply chunks_f_good; [assumption | lia | assumption]. Qed.

(* ---- the stream ----------------------------------------------------------------------------- *)
Section Stream.
  Variable sz : nat.
  Variable offs : list Z.
  Variable consts : nat -> kconst.
  Hypothesis sz_lo : (16 <= sz)%nat.
  Hypothesis sz_hi : (sz <= 255)%nat.                       (* the count byte holds it; the code has sz <= 128 *)
  Hypothesis steps_ok : forall k, Forall valid_step (snd (consts k)).

  Definition frame (stale c : list Z) : list Z := c ++ skipn (length c) (firstn sz stale) ++ [Z.of_nat (length c)].

  Lemma frame_length stale c : (length c <= sz)%nat -> (sz <= length stale)%nat -> length (frame stale c) = S sz.
  Proof.
    intros Hc Hs. unfold frame. rewrite !app_length, skipn_length, firstn_length. cbn [length]. lia.
  Qed.
  Lemma frame_bytes stale c : (length c <= sz)%nat -> bytes stale -> bytes c -> bytes (frame stale c).
  Proof.
    intros Hc Hs Hb. unfold frame. apply bytes_app; [assumption|]. apply bytes_app.
    - apply skipn_bytes, firstn_bytes. assumption.
    - apply bytes_cons; [unfold byte; lia | constructor].
  Qed.
  Lemma frame_count stale c : (length c <= sz)%nat -> (sz <= length stale)%nat ->
    get sz (frame stale c) = Z.of_nat (length c).
  Proof.
    intros Hc Hs. unfold get, frame. rewrite app_assoc.
    rewrite app_nth2; rewrite app_length, skipn_length, firstn_length; [|lia].
    replace (sz - (length c + (Nat.min sz (length stale) - length c)))%nat with O by lia. reflexivity.
  Qed.
  Lemma frame_data stale c : firstn (length c) (frame stale c) = c.
  Proof. unfold frame. apply firstn_app_exact. reflexivity. Qed.

  Lemma cbk_enc_chunks_bytes : forall cs k stale, bytes (cbk_enc_chunks sz offs consts k stale cs).
  Proof.
    induction cs as [|c r IH]; intros k stale; cbn [cbk_enc_chunks]; [constructor|].
    apply bytes_app; [apply enc_buf_bytes | apply IH].
  Qed.

  Lemma cbk_chunks_roundtrip :
    forall cs k stale, Forall (good_chunk sz) cs -> bytes stale -> length stale = S sz ->
    cbk_dec_blocks sz offs consts k (chunks (S sz) (cbk_enc_chunks sz offs consts k stale cs)) = Ok (concat cs).
  Proof.
    induction cs as [|c r IH]; intros k stale Hg Hs Hl.
    - reflexivity.
    - inversion Hg as [|? ? [Hne [Hc Hb]] Hr]; subst.
      cbn [cbk_enc_chunks]. fold (frame stale c).
      set (o := enc_buf offs (consts k) (frame stale c)).
      assert (Hfl : length (frame stale c) = S sz) by (apply frame_length; lia).
      assert (Hol : length o = S sz) by (unfold o; rewrite enc_buf_length; exact Hfl).
      rewrite chunks_app_block by (lia || assumption).
      assert (Hdec : dec_buf offs (consts k) o = frame stale c).
      { unfold o. apply cbk_buf_roundtrip; [apply steps_ok | apply frame_bytes; (lia || assumption) | lia]. }
      cbn [cbk_dec_blocks]. rewrite Hol, Nat.eqb_refl. cbn [negb].
      rewrite !Hdec.
      rewrite frame_count by lia.
      assert (Hp : (0 < length c)%nat) by (destruct c; [congruence | cbn; lia]).
      replace (Z.of_nat (length c) =? 0) with false by lia.
      replace (Z.of_nat sz <? Z.of_nat (length c)) with false by lia.
      rewrite IH; [| assumption | apply enc_buf_bytes | exact Hol].
      cbn [bind concat]. rewrite Nat2Z.id, frame_data. reflexivity.
  Qed.

  (* every payload: empty, shorter than a block, exact multiples of the block size, anything *)
  Theorem cbk_stream_roundtrip :
    forall x, bytes x -> cbk_dec sz offs consts (cbk_enc sz offs consts x) = Ok x.
  Proof.
    intros x Hx. unfold cbk_dec, cbk_enc.
    destruct (chunks_good sz x) as [Hg Hc]; [lia | assumption |].
    rewrite cbk_chunks_roundtrip; [rewrite Hc; reflexivity | assumption | |].
    - apply Forall_forall. intros y Hy. apply repeat_spec in Hy. subst. unfold byte. lia.
    - apply repeat_length.
  Qed.

  Theorem cbk_lossless : lossless (cbk_w sz offs consts).
  Proof.
    intros x Hx. cbn [cbk_w w_enc w_dec]. split.
    - unfold cbk_enc. apply cbk_enc_chunks_bytes.
    - apply cbk_stream_roundtrip. assumption.
  Qed.

  (* the wire length: one block of size+1 per started block of payload *)
  Lemma cbk_enc_chunks_length : forall cs k stale,
    Forall (good_chunk sz) cs -> length stale = S sz ->
    length (cbk_enc_chunks sz offs consts k stale cs) = (length cs * S sz)%nat.
  Proof.
    induction cs as [|c r IH]; intros k stale Hg Hl; [reflexivity|].
    inversion Hg as [|? ? [Hne [Hc Hb]] Hr]; subst.
    cbn [cbk_enc_chunks]. fold (frame stale c).
    rewrite app_length, enc_buf_length, frame_length by lia.
    rewrite IH; [cbn [length]; lia | assumption |]. rewrite enc_buf_length. apply frame_length; lia.
  Qed.
End Stream.

(* ---- the writer: what reaches the sink does not depend on how the payload is cut into Write
        calls (zero-length writes included) ------------------------------------------------------- *)
Lemma upd_last sz v : forall buf, length buf = S sz -> upd sz v buf = firstn sz buf ++ [v].
Proof.
  induction sz as [|sz IH]; intros buf Hl.
  - destruct buf as [|x [|y r]]; cbn in Hl; try lia. reflexivity.
  - destruct buf as [|x r]; cbn in Hl; [lia|]. cbn [upd firstn app]. f_equal. apply IH. lia.
Qed.

Lemma skipn_firstn_comm' {A} p n (l : list A) : skipn p (firstn n l) = firstn (n - p) (skipn p l).
Proof. apply skipn_firstn_comm. Qed.
Lemma skipn_skipn' {A} a : forall b (l : list A), skipn a (skipn b l) = skipn (b + a) l.
Proof.
  intros b. induction b as [|b IH]; intros l; [reflexivity|].
  destruct l as [|x l]; [rewrite !skipn_nil; reflexivity|]. cbn [skipn Nat.add]. apply IH.
Qed.

Section Writer.
  Variable sz : nat.
  Variable offs : list Z.
  Variable consts : nat -> kconst.
  Hypothesis sz_pos : (0 < sz)%nat.

  Definition st_ok (st : wst) : Prop := (w_pos st <= sz)%nat /\ length (w_buf st) = S sz.
  Definition pending (st : wst) : list Z := firstn (w_pos st) (w_buf st).
  (* what is still to come out when d is all the data yet to be written before Close *)
  Definition rest_out (st : wst) (d : list Z) : list Z :=
    cbk_enc_chunks sz offs consts (w_k st) (w_buf st) (chunks sz (pending st ++ d)).

  Lemma pending_length st : st_ok st -> length (pending st) = w_pos st.
  Proof. intros [H1 H2]. unfold pending. rewrite firstn_length. lia. Qed.

  (* a full buffer: the flush emits exactly the next block of the specification *)
  Lemma flush_full st d : st_ok st -> w_pos st = sz ->
    let '(st', o) := cbk_flush sz offs consts st in
    (st_ok st' /\ w_pos st' = 0%nat) /\ o ++ rest_out st' d = rest_out st d.
  Proof.
    intros [H1 H2] Hp. unfold cbk_flush. cbn zeta.
    set (o := enc_buf offs (consts (w_k st)) (upd sz (Z.of_nat (w_pos st)) (w_buf st))).
    assert (Hol : length o = S sz) by (unfold o; rewrite enc_buf_length, upd_length; exact H2).
    split.
    - split; [split; cbn [w_pos w_buf]; [lia | exact Hol] | reflexivity].
    - unfold rest_out, pending. cbn [w_k w_buf w_pos firstn app].
      rewrite Hp. rewrite chunks_app_block by (try lia; rewrite firstn_length; lia).
      cbn [cbk_enc_chunks].
      assert (Hf : length (firstn sz (w_buf st)) = sz) by (rewrite firstn_length; lia).
      rewrite Hf. replace (skipn sz (firstn sz (w_buf st))) with (@nil Z)
        by (symmetry; apply skipn_all2; rewrite firstn_length; lia).
      cbn [app]. unfold o. rewrite Hp, (upd_last sz _ _ H2). reflexivity.
  Qed.

  Lemma splice_length buf pos c : (pos + length c <= length buf)%nat -> length (splice buf pos c) = length buf.
  Proof. intros H. unfold splice. rewrite !app_length, firstn_length, skipn_length. lia. Qed.
  Lemma splice_pending buf pos c : (pos <= length buf)%nat ->
    firstn (pos + length c) (splice buf pos c) = firstn pos buf ++ c.
  Proof.
    intros H. unfold splice. rewrite app_assoc. apply firstn_app_exact.
    rewrite app_length, firstn_length. lia.
  Qed.
  Lemma splice_beyond buf pos c p : (pos + length c <= p)%nat -> (pos + length c <= length buf)%nat ->
    skipn p (splice buf pos c) = skipn p buf.
  Proof.
    intros Hp Hl. unfold splice. rewrite app_assoc.
    rewrite skipn_app. rewrite (skipn_all2 (firstn pos buf ++ c)) by (rewrite app_length, firstn_length; lia).
    rewrite app_length, firstn_length. cbn [app].
    rewrite skipn_skipn'. f_equal. lia.
  Qed.

  (* the first block of the specification looks at the stale buffer only beyond its own data *)
  Lemma enc_chunks_stale k s1 s2 cs :
    (forall c r, cs = c :: r -> skipn (length c) (firstn sz s1) = skipn (length c) (firstn sz s2)) ->
    cbk_enc_chunks sz offs consts k s1 cs = cbk_enc_chunks sz offs consts k s2 cs.
  Proof.
    intros H. destruct cs as [|c r]; [reflexivity|]. cbn [cbk_enc_chunks]. rewrite (H c r eq_refl). reflexivity.
  Qed.

  Lemma copy_step st b d : st_ok st -> (w_pos st < sz)%nat -> b <> [] ->
    let c := firstn (sz - w_pos st) b in
    let st2 := {| w_k := w_k st; w_buf := splice (w_buf st) (w_pos st) c; w_pos := w_pos st + length c |} in
    st_ok st2 /\ rest_out st2 (skipn (length c) b ++ d) = rest_out st (b ++ d).
  Proof.
    intros [H1 H2] Hlt Hb. cbn zeta.
    set (c := firstn (sz - w_pos st) b).
    assert (Hc : (length c <= sz - w_pos st)%nat) by apply firstn_le_length.
    assert (Hcb : skipn (length c) b = skipn (sz - w_pos st) b).
    { unfold c. rewrite firstn_length. destruct (Nat.le_gt_cases (sz - w_pos st) (length b)).
      - f_equal. lia.
      - rewrite !skipn_all2 by lia. reflexivity. }
    split.
    - split; cbn [w_pos w_buf]; [lia|]. rewrite splice_length; lia.
    - unfold rest_out, pending. cbn [w_k w_buf w_pos].
      rewrite splice_pending by lia.
      assert (Hdata : (firstn (w_pos st) (w_buf st) ++ c) ++ skipn (length c) b ++ d
                      = firstn (w_pos st) (w_buf st) ++ b ++ d).
      { rewrite <- app_assoc. f_equal. rewrite app_assoc. f_equal. rewrite Hcb. apply firstn_skipn. }
      rewrite Hdata.
      apply enc_chunks_stale. intros c0 r Hcs.
      (* the first chunk holds at least the w_pos + |c| bytes already in the buffer *)
      assert (Hfirst : (w_pos st + length c <= length c0)%nat).
      { assert (Hne : firstn (w_pos st) (w_buf st) ++ b ++ d <> []).
        { destruct b; [congruence|]. destruct (firstn (w_pos st) (w_buf st)); discriminate. }
        rewrite chunks_cons in Hcs by assumption. injection Hcs as Hc0 _. subst c0.
        rewrite firstn_length, !app_length, firstn_length.
        unfold c. rewrite firstn_length. lia. }
      rewrite !skipn_firstn_comm'. f_equal. apply splice_beyond; lia.
  Qed.

  Lemma write_loop : forall fuel b st d, (length b < fuel)%nat -> st_ok st ->
    let '(st', o) := cbk_write_f sz offs consts fuel st b in
    (st_ok st' /\ (w_pos st' < sz)%nat) /\ o ++ rest_out st' d = rest_out st (b ++ d).
  Proof.
    induction fuel as [|fuel IH]; intros b st d Hf Hok; [lia|].
    cbn [cbk_write_f]. destruct b as [|x b'] eqn:Eb.
    - (* after the loop *)
      destruct (Nat.ltb (w_pos st) sz) eqn:E.
      + apply Nat.ltb_lt in E. split; [split; assumption | reflexivity].
      + apply Nat.ltb_ge in E. destruct Hok as [H1 H2]. assert (Hp : w_pos st = sz) by lia.
        pose proof (flush_full st d (conj H1 H2) Hp) as F.
        destruct (cbk_flush sz offs consts st) as [st' o]. destruct F as [[Hok' Hp'] Ho].
        split; [split; [assumption | lia] | exact Ho].
    - rewrite <- Eb in *. assert (Hb : b <> []) by (subst; discriminate).
      (* a full buffer is flushed first *)
      assert (F : let '(st1, o1) := (if Nat.leb sz (w_pos st) then cbk_flush sz offs consts st else (st, [])) in
                  (st_ok st1 /\ (w_pos st1 < sz)%nat) /\ o1 ++ rest_out st1 (b ++ d) = rest_out st (b ++ d)).
      { destruct (Nat.leb sz (w_pos st)) eqn:E.
        - apply Nat.leb_le in E. destruct Hok as [H1 H2]. assert (Hp : w_pos st = sz) by lia.
          pose proof (flush_full st (b ++ d) (conj H1 H2) Hp) as F.
          destruct (cbk_flush sz offs consts st) as [st' o]. destruct F as [[Hok' Hp'] Ho].
          split; [split; [assumption | lia] | exact Ho].
        - apply Nat.leb_gt in E. split; [split; assumption | reflexivity]. }
      destruct (if Nat.leb sz (w_pos st) then cbk_flush sz offs consts st else (st, [])) as [st1 o1].
      destruct F as [[Hok1 Hlt1] Ho1].
      destruct (copy_step st1 b d Hok1 Hlt1 Hb) as [Hok2 Hr2].
      set (c := firstn (sz - w_pos st1) b) in *.
      set (st2 := {| w_k := w_k st1; w_buf := splice (w_buf st1) (w_pos st1) c; w_pos := w_pos st1 + length c |}) in *.
      assert (Hcl : (0 < length c)%nat).
      { unfold c. rewrite firstn_length. destruct b; [congruence | cbn [length]; lia]. }
      specialize (IH (skipn (length c) b) st2 d).
      destruct (cbk_write_f sz offs consts fuel st2 (skipn (length c) b)) as [st3 o3].
      assert (Hbl : (0 < length b)%nat) by (rewrite Eb; cbn [length]; lia).
      destruct IH as [Hok3 Ho3]; [rewrite skipn_length; lia | exact Hok2 |].
      split; [exact Hok3|].
      rewrite <- app_assoc, Ho3, Hr2. exact Ho1.
  Qed.

  Lemma close_spec st : st_ok st -> (w_pos st < sz)%nat -> cbk_close sz offs consts st = rest_out st [].
  Proof.
    intros [H1 H2] Hlt. unfold cbk_close, rest_out, pending. rewrite app_nil_r.
    destruct (Nat.eqb (w_pos st) 0) eqn:E.
    - apply Nat.eqb_eq in E. rewrite E. reflexivity.
    - apply Nat.eqb_neq in E.
      assert (Hpl : length (firstn (w_pos st) (w_buf st)) = w_pos st) by (rewrite firstn_length; lia).
      assert (Hne : firstn (w_pos st) (w_buf st) <> []).
      { intros Hn. rewrite Hn in Hpl. cbn in Hpl. lia. }
      rewrite chunks_cons by assumption.
      rewrite (firstn_all2 (firstn (w_pos st) (w_buf st))) by lia.
      rewrite (skipn_all2 (firstn (w_pos st) (w_buf st))) by lia.
      unfold chunks. cbn [length chunks_f cbk_enc_chunks]. rewrite app_nil_r, Hpl.
      unfold cbk_flush. cbn [snd]. f_equal.
      rewrite (upd_last sz _ _ H2).
      rewrite <- (firstn_skipn (w_pos st) (firstn sz (w_buf st))) at 1.
      rewrite firstn_firstn, Nat.min_l by lia. rewrite <- app_assoc. reflexivity.
  Qed.

  Lemma writes_spec : forall ws st, st_ok st -> (w_pos st < sz)%nat ->
    cbk_writes sz offs consts st ws = rest_out st (concat ws).
  Proof.
    induction ws as [|b r IH]; intros st Hok Hlt.
    - cbn [cbk_writes concat]. apply close_spec; assumption.
    - cbn [cbk_writes concat]. unfold cbk_write.
      pose proof (write_loop (S (length b)) b st (concat r) (Nat.lt_succ_diag_r _) Hok) as W.
      destruct (cbk_write_f sz offs consts (S (length b)) st b) as [st' o].
      destruct W as [[Hok' Hlt'] Ho]. rewrite IH by assumption. exact Ho.
  Qed.

  (* concat ws = x -> the sink receives cbk_enc x *)
  Theorem cbk_write_chunks : forall ws, cbk_run sz offs consts ws = cbk_enc sz offs consts (concat ws).
  Proof.
    intros ws. unfold cbk_run. rewrite writes_spec.
    - reflexivity.
    - split; cbn [w_pos w_buf]; [lia | apply repeat_length].
    - cbn [w_pos]. exact sz_pos.
  Qed.
End Writer.
