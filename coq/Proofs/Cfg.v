(* Proofs/Cfg.v -- lemmas about Model/Cfg.v for C09 (arbitrary profile bytes): every entry point
   returns (no Panic, the loop fuel is never exhausted), validate accepts iff build accepts.
   The constructor side (C08) is Proofs/CfgSettings.v. *)
From XMT Require Import Base.Prelude Base.BitLemmas Model.Cfg.
From Coq Require Import ZifyBool.
Ltac Zify.zify_post_hook ::= Z.div_mod_to_equations.

Lemma validate_nil : validate [] = Ok tt.
Proof. reflexivity. Qed.

(* ---- byte strings, total index ---------------------------------------------------------- *)
Definition bytes (c : list Z) : Prop := Forall (fun b => 0 <= b < 256) c.

(* the byte at i (0 outside the string) *)
Definition nz (c : list Z) (i : Z) : Z := nth (Z.to_nat i) c 0.

Lemma nz_byte c i : bytes c -> 0 <= nz c i < 256.
Proof.
  intros H. unfold nz. destruct (nth_in_or_default (Z.to_nat i) c 0) as [Hin|E].
  - unfold bytes in H. rewrite Forall_forall in H. apply H. exact Hin.
  - rewrite E. lia.
Qed.

Lemma idx_in c i : 0 <= i < len c -> idx c i = Ok (nz c i).
Proof.
  intros H. unfold idx, nz, len in *. replace (i <? 0) with false by lia.
  destruct (nth_error c (Z.to_nat i)) eqn:E.
  - f_equal. symmetry. apply nth_error_nth. exact E.
  - apply nth_error_None in E. lia.
Qed.

Lemma idx_out c i : i < 0 \/ len c <= i -> @idx Z c i = Panic.
Proof.
  intros H. unfold idx, len in *. destruct (i <? 0) eqn:E; [reflexivity|].
  replace (nth_error c (Z.to_nat i)) with (@None Z); [reflexivity|].
  symmetry. apply nth_error_None. lia.
Qed.

Lemma slice_in {A} (c : list A) a b : 0 <= a -> a <= b -> b <= len c -> slice c a b = Ok (take (b - a) (drop a c)).
Proof. intros. unfold slice. replace ((a <? 0) || (b <? a) || (len c <? b)) with false by lia. reflexivity. Qed.

Lemma w16_val hi lo : 0 <= hi -> 0 <= lo < 256 -> w16 hi lo = hi * 256 + lo.
Proof.
  intros. unfold w16. rewrite Z.lor_comm. change 256 with (2 ^ 8). apply lor_shiftl_add; lia.
Qed.
Lemma w16_range hi lo : 0 <= hi < 256 -> 0 <= lo < 256 -> 0 <= w16 hi lo < 65536.
Proof. intros. rewrite w16_val by lia. lia. Qed.
Global Opaque w16.

(* ---- "returns": neither a panic nor an exhausted loop ---------------------------------------- *)
Definition fine {A} (r : res A) : Prop :=
  match r with Ok _ => True | Err e => e <> EFuel | Panic => False end.

Lemma fine_bind {A B} (e : res A) (k : A -> res B) :
  fine e -> (forall x, e = Ok x -> fine (k x)) -> fine (bind e k).
Proof. destruct e; cbn; auto. Qed.

Lemma fine_ok {A} (r : res A) : fine r -> (exists v, r = Ok v) \/ (exists e, r = Err e /\ e <> EFuel).
Proof. destruct r; cbn; intros H; [left; eauto|right; eauto|tauto]. Qed.

(* ---- Config.next --------------------------------------------------------------------------- *)
Lemma wc2_walk_ok c : bytes c -> forall x n, exists r, wc2_walk c x n = Ok r /\ n <= r.
Proof.
  intros Hb. induction x as [|x IH]; intros n; cbn [wc2_walk].
  - eexists; split; [reflexivity|lia].
  - destruct ((n + 1 <? len c) && (0 <? n)) eqn:E.
    + rewrite !idx_in by lia. cbv beta iota delta [bind].
      destruct (IH (n + (nz c n + nz c (n + 1) + 2))) as [r [-> Hr]].
      pose proof (nz_byte c n Hb). pose proof (nz_byte c (n + 1) Hb).
      eexists; split; [reflexivity|lia].
    + eexists; split; [reflexivity|lia].
Qed.

Lemma dns_walk_ok c : bytes c -> forall x n, 0 <= n -> exists r, dns_walk c x n = Ok r /\ n <= r.
Proof.
  intros Hb. induction x as [|x IH]; intros n Hn; cbn [dns_walk].
  - eexists; split; [reflexivity|lia].
  - destruct (n <? len c) eqn:E.
    + rewrite !idx_in by lia. cbv beta iota delta [bind].
      pose proof (nz_byte c n Hb).
      destruct (IH (n + (nz c n + 1))) as [r [-> Hr]]; [lia|].
      eexists; split; [reflexivity|lia].
    + eexists; split; [reflexivity|lia].
Qed.

(* the offset at which the WC2 header pairs start *)
Definition wc2_n0 (c : list Z) (i : Z) : Z :=
  i + 8 + w16 (nz c (i + 1)) (nz c (i + 2)) + w16 (nz c (i + 3)) (nz c (i + 4)) + w16 (nz c (i + 5)) (nz c (i + 6)).

Ltac byte_facts c i Hb :=
  pose proof (nz_byte c (i + 1) Hb); pose proof (nz_byte c (i + 2) Hb); pose proof (nz_byte c (i + 3) Hb);
  pose proof (nz_byte c (i + 4) Hb); pose proof (nz_byte c (i + 5) Hb); pose proof (nz_byte c (i + 6) Hb);
  pose proof (nz_byte c (i + 7) Hb);
  pose proof (w16_range (nz c (i + 1)) (nz c (i + 2)) ltac:(assumption) ltac:(assumption));
  pose proof (w16_range (nz c (i + 2)) (nz c (i + 3)) ltac:(assumption) ltac:(assumption));
  pose proof (w16_range (nz c (i + 3)) (nz c (i + 4)) ltac:(assumption) ltac:(assumption));
  pose proof (w16_range (nz c (i + 4)) (nz c (i + 5)) ltac:(assumption) ltac:(assumption));
  pose proof (w16_range (nz c (i + 5)) (nz c (i + 6)) ltac:(assumption) ltac:(assumption));
  pose proof (w16_range (nz c (i + 6)) (nz c (i + 7)) ltac:(assumption) ltac:(assumption)).

(* next returns for every offset inside the string, and either gives up (-1) or moves forward *)
Lemma next_ok c i : bytes c -> 0 <= i < len c -> exists n, next c i = Ok n /\ (n = -1 \/ i < n).
Proof.
  intros Hb Hi. unfold next.
  replace ((len c <? i) || (i <? 0)) with false by lia.
  rewrite idx_in by lia. cbv beta iota delta [bind].
  byte_facts c i Hb.
  destruct (kind_of (nz c i));
    try (eexists; split; [reflexivity|lia]);
    (match goal with |- context [if len c <=? ?k then _ else _] => destruct (len c <=? k) eqn:E1 end;
     [eexists; split; [reflexivity|lia]|]);
    rewrite !idx_in by lia; cbv beta iota zeta delta [bind];
    try (eexists; split; [reflexivity|lia]).
  - (* WC2 *)
    fold (wc2_n0 c i). assert (i + 8 <= wc2_n0 c i) by (unfold wc2_n0; lia).
    destruct (len c <=? wc2_n0 c i) eqn:E2; [eexists; split; [reflexivity|lia]|].
    rewrite idx_in by lia. cbv beta iota delta [bind].
    destruct (nz c (i + 7) =? 0); [eexists; split; [reflexivity|lia]|].
    destruct (wc2_walk_ok c Hb (Z.to_nat (nz c (i + 7))) (wc2_n0 c i)) as [r [-> Hr]].
    eexists; split; [reflexivity|lia].
  - (* DNS *)
    destruct (dns_walk_ok c Hb (Z.to_nat (nz c (i + 1))) (i + 2)) as [r [-> Hr]]; [lia|].
    eexists; split; [reflexivity|lia].
Qed.

Lemma next_out c i : i < 0 \/ len c < i -> next c i = Ok (-1).
Proof. intros H. unfold next. replace ((len c <? i) || (i <? 0)) with true by lia. reflexivity. Qed.

(* ---- fixn: the caller's reset --------------------------------------------------------------- *)
Lemma fixn_range c i r : 0 <= i < len c -> r = -1 \/ i < r -> i < fixn c i r <= len c.
Proof. intros Hi Hr. unfold fixn. destruct ((r =? i) || (len c <? r) || (r =? -1) || (r <? i)) eqn:E; lia. Qed.

Lemma fixn_fwd c i r : 0 <= i -> i < r -> fixn c i r = if r <=? len c then r else len c.
Proof.
  intros Hi Hr. unfold fixn.
  destruct (r <=? len c) eqn:E.
  - replace ((r =? i) || (len c <? r) || (r =? -1) || (r <? i)) with false by lia. reflexivity.
  - replace ((r =? i) || (len c <? r) || (r =? -1) || (r <? i)) with true by lia. reflexivity.
Qed.

Lemma fixn_m1 c i : fixn c i (-1) = len c.
Proof. unfold fixn. replace ((-1 =? i) || (len c <? -1) || (-1 =? -1) || (-1 <? i)) with true by lia. reflexivity. Qed.

(* ---- the WC2 header pairs: what next walked over is what validate / build / MarshalJSON re-walk ---- *)
Inductive hsafe (c : list Z) (n : Z) : Z -> Prop :=
| hs_stop v : n <= v -> hsafe c n v
| hs_step v : v + 1 < len c -> hsafe c n (v + (nz c v + nz c (v + 1) + 2)) -> hsafe c n v.

Lemma walk_hsafe c : bytes c -> forall x p r, wc2_walk c x p = Ok r ->
  forall n, n = (if r <=? len c then r else len c) -> hsafe c n p.
Proof.
  intros Hb. induction x as [|x IH]; intros p r Hw n Hn; cbn [wc2_walk] in Hw.
  - injection Hw as <-. subst n. apply hs_stop. destruct (p <=? len c) eqn:E; lia.
  - destruct ((p + 1 <? len c) && (0 <? p)) eqn:E.
    + rewrite !idx_in in Hw by lia. cbv beta iota delta [bind] in Hw.
      apply hs_step; [lia|]. eapply IH; eauto.
    + injection Hw as <-. subst n. apply hs_stop. destruct (p <=? len c) eqn:E2; lia.
Qed.

Lemma next_wc2_hsafe c i r : bytes c -> 0 <= i -> i + 7 < len c -> kind_of (nz c i) = KWC2 ->
  next c i = Ok r -> hsafe c (fixn c i r) (wc2_n0 c i).
Proof.
  intros Hb Hi H7 K. unfold next.
  replace ((len c <? i) || (i <? 0)) with false by lia.
  rewrite idx_in by lia. cbv beta iota delta [bind]. rewrite K.
  replace (len c <=? i + 7) with false by lia.
  rewrite !idx_in by lia. cbv beta iota zeta delta [bind].
  byte_facts c i Hb.
  fold (wc2_n0 c i). assert (i + 8 <= wc2_n0 c i) by (unfold wc2_n0; lia).
  destruct (len c <=? wc2_n0 c i) eqn:E2.
  { intros [= <-]. apply hs_stop. rewrite fixn_m1. lia. }
  rewrite idx_in by lia. cbv beta iota delta [bind].
  destruct (nz c (i + 7) =? 0).
  { intros [= <-]. apply hs_stop. rewrite fixn_fwd by lia. replace (wc2_n0 c i <=? len c) with true by lia. lia. }
  intros Hw. destruct (wc2_walk_ok c Hb (Z.to_nat (nz c (i + 7))) (wc2_n0 c i)) as [r' [Hw' Hr]].
  rewrite Hw in Hw'. injection Hw' as <-.
  eapply walk_hsafe; eauto. apply fixn_fwd; lia.
Qed.

Lemma wc2_hdrs_fine c i n : bytes c -> 0 <= i -> n <= len c ->
  forall v, hsafe c n v -> forall fuel q j, i <= v -> n - v < Z.of_nat fuel -> 0 < Z.of_nat fuel ->
  fine (wc2_hdrs fuel c i n v q j).
Proof.
  intros Hb Hi Hn v Hs. induction Hs as [v Hv|v Hv Hs IH]; intros fuel q j Hiv Hf Hf0.
  - destruct fuel as [|f]; [lia|]. cbn [wc2_hdrs].
    replace ((v <? n) && (q <? n) && (j <? n)) with false by lia. exact I.
  - destruct fuel as [|f]; [lia|]. cbn [wc2_hdrs].
    destruct ((v <? n) && (q <? n) && (j <? n)) eqn:E; [|exact I].
    rewrite !idx_in by lia. cbv beta iota zeta delta [bind].
    pose proof (nz_byte c v Hb). pose proof (nz_byte c (v + 1) Hb).
    match goal with |- fine (if ?b then _ else _) => destruct b eqn:E2 end; [cbn; discriminate|].
    rewrite !slice_in by lia. cbv beta iota delta [bind].
    apply fine_bind; [|intros; exact I].
    replace (nz c (v + 1) + (nz c v + v + 2)) with (v + (nz c v + nz c (v + 1) + 2)) by lia.
    apply IH; lia.
Qed.

(* ---- the DNS names ------------------------------------------------------------------------------ *)
Lemma dns_names_fine c i n : bytes c -> 0 <= i -> n <= len c ->
  forall x v e, 0 <= v -> fine (dns_names x c i n v e).
Proof.
  intros Hb Hi Hn. induction x as [|x IH]; intros v e Hv; cbn [dns_names]; [exact I|].
  destruct (v <? n) eqn:E; [|exact I].
  rewrite idx_in by lia. cbv beta iota zeta delta [bind].
  pose proof (nz_byte c v Hb).
  match goal with |- fine (if ?b then _ else _) => destruct b eqn:E2 end; [cbn; discriminate|].
  rewrite slice_in by lia. cbv beta iota delta [bind].
  apply fine_bind; [|intros; exact I].
  apply IH. lia.
Qed.

Lemma rd_be_ok c i k : 0 <= i -> i + Z.of_nat k <= len c -> exists u, rd_be c i k = Ok u.
Proof.
  unfold rd_be. intros Hi. generalize 0 as acc. revert i Hi. induction k as [|k IH]; intros i Hi acc Hk; cbn [rd_be_go].
  - eexists; reflexivity.
  - rewrite idx_in by lia. cbv beta iota delta [bind]. apply IH; lia.
Qed.

(* ---- symbolic execution of the step functions ------------------------------------------------- *)
Ltac hd_res t :=
  lazymatch t with
  | bind ?e _ => hd_res e
  | idx ?c ?k => rewrite (idx_in c k) by lia
  | slice ?c ?a ?b => rewrite (slice_in c a b) by lia
  | rd_be ?c ?i ?k =>
    let u := fresh "u" in let E := fresh "E" in
    destruct (rd_be_ok c i k) as [u E]; [lia|cbn [Z.of_nat Pos.of_succ_nat Pos.succ]; lia|rewrite E]
  | (if ?b then _ else _) => let E := fresh "E" in destruct b eqn:E
  end.
Ltac fend := solve [exact I | unfold fine, EInvalid, EMultiConn, EMultiTrans, EOther, EFuel; discriminate].
Lemma bind_Ok {A B} (x : A) (f : A -> res B) : bind (Ok x) f = f x.
Proof. reflexivity. Qed.
Ltac bsimp := rewrite ?bind_Ok; cbv beta iota zeta.
Ltac fstep := match goal with |- fine ?t => hd_res t end; bsimp.
Ltac frun := repeat first [fend | fstep].

Lemma wc2_v3_eq c i :
  w16 (nz c (i + 5)) (nz c (i + 6)) + (w16 (nz c (i + 3)) (nz c (i + 4)) + (w16 (nz c (i + 1)) (nz c (i + 2)) + i + 8)) = wc2_n0 c i.
Proof. unfold wc2_n0. lia. Qed.

Lemma validate_step_fine c i n k p t : bytes c -> 0 <= i -> i < n -> n <= len c -> 0 < len c ->
  (k = KWC2 -> i + 7 < n -> hsafe c n (wc2_n0 c i)) ->
  fine (validate_step c i n k p t).
Proof.
  intros Hb Hi Hin Hn Hl Hw. byte_facts c i Hb.
  destruct k; unfold validate_step; frun.
  - (* WC2 headers *)
    rewrite wc2_v3_eq. apply fine_bind; [|intros; exact I].
    apply (wc2_hdrs_fine c i n Hb Hi Hn (wc2_n0 c i) (Hw eq_refl ltac:(lia)));
      unfold wc2_n0, len in *; lia.
  - (* DNS *)
    apply fine_bind; [|intros; exact I]. apply dns_names_fine; try assumption; lia.
Qed.

Ltac hd_res2 t :=
  lazymatch t with
  | bind ?e _ => hd_res2 e
  | tls_conn _ _ _ _ _ _ => unfold tls_conn
  | _ => hd_res t
  end.
Ltac fstep2 := match goal with |- fine ?t => hd_res2 t end; bsimp.
Ltac frun2 := repeat first [fend | fstep2].

Ltac fin_wc2 c i n Hb Hi Hn Hw :=
  rewrite wc2_v3_eq; apply fine_bind; [|intros; exact I];
  apply (wc2_hdrs_fine c i n Hb Hi Hn (wc2_n0 c i) (Hw eq_refl ltac:(lia)));
  unfold wc2_n0, len in *; lia.
Ltac fin_dns := apply fine_bind; [|intros; exact I]; apply dns_names_fine; try assumption; lia.

Lemma build_step_fine tlsok c i n tag k st : bytes c -> 0 <= i -> i < n -> n <= len c -> 0 < len c ->
  (k = KWC2 -> i + 7 < n -> hsafe c n (wc2_n0 c i)) ->
  fine (build_step tlsok c i n tag k st).
Proof.
  intros Hb Hi Hin Hn Hl Hw. byte_facts c i Hb. destruct st as [p z].
  destruct k; unfold build_step; frun2; first [fin_wc2 c i n Hb Hi Hn Hw | fin_dns].
Qed.

Lemma json_step_fine c i n k : bytes c -> 0 <= i -> i < n -> n <= len c -> 0 < len c ->
  (k = KWC2 -> i + 7 < n -> hsafe c n (wc2_n0 c i)) ->
  fine (json_step c i n k).
Proof.
  intros Hb Hi Hin Hn Hl Hw. byte_facts c i Hb.
  destruct k; unfold json_step; frun2; first [fin_wc2 c i n Hb Hi Hn Hw | fin_dns].
Qed.

(* ---- loops ------------------------------------------------------------------------------------- *)
Definition fineP {A} (P : A -> Prop) (r : res A) : Prop :=
  match r with Ok v => P v | Err e => e <> EFuel | Panic => False end.

Lemma fineP_bind {A B} (Q : A -> Prop) (P : B -> Prop) (e : res A) (k : A -> res B) :
  fineP Q e -> (forall x, Q x -> fineP P (k x)) -> fineP P (bind e k).
Proof. destruct e; cbn; auto. Qed.
Lemma fine_fineP {A} (r : res A) : fine r -> fineP (fun _ => True) r.
Proof. destruct r; cbn; auto. Qed.
Lemma fineP_fine {A} (P : A -> Prop) (r : res A) : fineP P r -> fine r.
Proof. destruct r; cbn; auto. Qed.
Lemma fineP_weaken {A} (P Q : A -> Prop) (r : res A) : (forall v, P v -> Q v) -> fineP P r -> fineP Q r.
Proof. destruct r; cbn; auto. Qed.

Definition is_sep (k : kind) : bool := match k with KSep => true | _ => false end.

Lemma validate_loop_S f c i p t :
  validate_loop (S f) c i p t =
  (do r <- next c i;
   let n := fixn c i r in
   do _ <- idx c (n - 1);
   do b <- idx c i;
   if is_sep (kind_of b) then Ok n else
   do pt <- validate_step c i n (kind_of b) p t;
   if (0 <=? n) && (n <? len c) then validate_loop f c n (fst pt) (snd pt) else Ok n).
Proof.
  cbn [validate_loop]. destruct (next c i) as [r| |]; cbn [bind]; try reflexivity.
  destruct (idx c (fixn c i r - 1)); cbn [bind]; try reflexivity.
  destruct (idx c i) as [b| |]; cbn [bind]; try reflexivity.
  destruct (kind_of b); cbn [is_sep]; try reflexivity;
    match goal with |- bind ?e _ = bind ?e _ => destruct e as [[? ?]| |]; reflexivity end.
Qed.

Lemma build_loop_S tlsok f c i st :
  build_loop tlsok (S f) c i st =
  (do r <- next c i;
   let n := fixn c i r in
   do _ <- idx c (n - 1);
   do b <- idx c i;
   if is_sep (kind_of b) then Ok (st, n) else
   do st' <- build_step tlsok c i n b (kind_of b) st;
   if (0 <=? n) && (n <? len c) then build_loop tlsok f c n st' else Ok (st', n)).
Proof.
  cbn [build_loop]. destruct (next c i) as [r| |]; cbn [bind]; try reflexivity.
  destruct (idx c (fixn c i r - 1)); cbn [bind]; try reflexivity.
  destruct (idx c i) as [b| |]; cbn [bind]; try reflexivity.
  destruct (kind_of b); cbn [is_sep]; reflexivity.
Qed.

Lemma json_loop_S f c i :
  json_loop (S f) c i =
  (do b <- idx c i;
   if b =? 0 then Err EInvalid else
   do r <- next c i;
   let n := fixn c i r in
   if is_sep (kind_of b) then
     (if n =? len c then Ok tt else if (0 <=? n) && (n <? len c) then json_loop f c n else Ok tt)
   else
   do _ <- json_step c i n (kind_of b);
   if (0 <=? n) && (n <? len c) then json_loop f c n else Ok tt).
Proof.
  cbn [json_loop]. destruct (idx c i) as [b| |]; cbn [bind]; try reflexivity.
  destruct (b =? 0); try reflexivity.
  destruct (next c i) as [r| |]; cbn [bind]; try reflexivity.
  destruct (kind_of b); cbn [is_sep]; reflexivity.
Qed.

Section Loops.
  Variable c : list Z.
  Hypothesis Hb : bytes c.

  (* what every loop body starts with: the stride, reset by the caller *)
  Lemma stride i : 0 <= i < len c ->
    exists r, next c i = Ok r /\ i < fixn c i r <= len c /\
      (kind_of (nz c i) = KWC2 -> i + 7 < fixn c i r -> hsafe c (fixn c i r) (wc2_n0 c i)).
  Proof.
    intros Hi. destruct (next_ok c i Hb Hi) as [r [Hr Hp]]. exists r. split; [exact Hr|].
    pose proof (fixn_range c i r Hi Hp). split; [assumption|].
    intros K H7. apply next_wc2_hsafe; try assumption; lia.
  Qed.

  Lemma validate_loop_fine : forall fuel i p t, 0 <= i < len c -> len c - i <= Z.of_nat fuel ->
    fineP (fun n => i < n <= len c) (validate_loop fuel c i p t).
  Proof.
    induction fuel as [|f IH]; intros i p t Hi Hf; [lia|].
    rewrite validate_loop_S.
    destruct (stride i Hi) as [r [-> [Hn Hw]]]. rewrite bind_Ok. cbv zeta.
    set (n := fixn c i r) in *.
    rewrite !idx_in by lia. rewrite !bind_Ok.
    destruct (is_sep (kind_of (nz c i))); [cbn; lia|].
    eapply fineP_bind.
    - apply fine_fineP. apply validate_step_fine; try assumption; lia.
    - intros [p' t'] _. cbn [fst snd].
      destruct ((0 <=? n) && (n <? len c)) eqn:E; [|cbn; lia].
      eapply fineP_weaken; [|apply IH; lia]. cbv beta. lia.
  Qed.

  Lemma build_loop_fine tlsok : forall fuel i st, 0 <= i < len c -> len c - i <= Z.of_nat fuel ->
    fineP (fun r => i < snd r <= len c) (build_loop tlsok fuel c i st).
  Proof.
    induction fuel as [|f IH]; intros i st Hi Hf; [lia|].
    rewrite build_loop_S.
    destruct (stride i Hi) as [r [-> [Hn Hw]]]. rewrite bind_Ok. cbv zeta.
    set (n := fixn c i r) in *.
    rewrite !idx_in by lia. rewrite !bind_Ok.
    destruct (is_sep (kind_of (nz c i))); [cbn; lia|].
    eapply fineP_bind.
    - apply fine_fineP. apply build_step_fine; try assumption; lia.
    - intros st' _.
      destruct ((0 <=? n) && (n <? len c)) eqn:E; [|cbn; lia].
      eapply fineP_weaken; [|apply IH; lia]. cbv beta. lia.
  Qed.

  Lemma json_loop_fine : forall fuel i, 0 <= i < len c -> len c - i <= Z.of_nat fuel ->
    fine (json_loop fuel c i).
  Proof.
    induction fuel as [|f IH]; intros i Hi Hf; [lia|].
    rewrite json_loop_S. rewrite idx_in by lia. rewrite bind_Ok.
    destruct (nz c i =? 0); [cbn; discriminate|].
    destruct (stride i Hi) as [r [-> [Hn Hw]]]. rewrite bind_Ok. cbv zeta.
    set (n := fixn c i r) in *.
    destruct (is_sep (kind_of (nz c i))).
    - destruct (n =? len c); [exact I|].
      destruct ((0 <=? n) && (n <? len c)) eqn:E; [|exact I]. apply IH; lia.
    - apply fine_bind.
      + apply json_step_fine; try assumption; lia.
      + intros _ _. destruct ((0 <=? n) && (n <? len c)) eqn:E; [|exact I]. apply IH; lia.
  Qed.

  Lemma validate_group_fine x : 0 <= x < len c -> fineP (fun n => x < n <= len c) (validate_group c x).
  Proof.
    intros Hx. unfold validate_group. replace (0 <? len c) with true by lia.
    apply validate_loop_fine; [lia|]. unfold len. lia.
  Qed.

  Lemma validate_top_fine : forall fuel i, 0 <= i -> len c - i < Z.of_nat fuel -> 0 < Z.of_nat fuel ->
    fine (validate_top fuel c i).
  Proof.
    induction fuel as [|f IH]; intros i Hi Hf Hf0; [lia|]. cbn [validate_top].
    destruct (i <? len c) eqn:E; [|exact I].
    eapply fineP_fine. eapply fineP_bind; [apply validate_group_fine; lia|].
    intros n Hn. cbv beta in Hn. apply fine_fineP. apply fine_bind.
    - destruct (n - i =? 1); [rewrite idx_in by lia|]; exact I.
    - intros _ _. apply IH; lia.
  Qed.

  Lemma validate_fine : fine (validate c).
  Proof.
    unfold validate. destruct (len c =? 0) eqn:E; [exact I|].
    apply validate_top_fine; unfold len in *; lia.
  Qed.

  Lemma build_group_fine tlsok x : 0 <= x < len c ->
    fineP (fun r => x < snd r <= len c) (build_group tlsok c x).
  Proof.
    intros Hx. unfold build_group. replace (0 <? len c) with true by lia.
    apply build_loop_fine; [lia|]. unfold len. lia.
  Qed.

  Lemma build_top_fine tlsok : forall fuel i e g, 0 <= i -> len c - i < Z.of_nat fuel -> 0 < Z.of_nat fuel ->
    fine (build_top tlsok fuel c i e g).
  Proof.
    induction fuel as [|f IH]; intros i e g Hi Hf Hf0; [lia|]. cbn [build_top].
    destruct (i <? len c) eqn:E; [|exact I].
    eapply fineP_fine. eapply fineP_bind; [apply build_group_fine; lia|].
    intros [[p s] n] Hn. cbn [snd] in Hn. apply fine_fineP. apply fine_bind.
    - destruct (n - i =? 1); [rewrite idx_in by lia; rewrite bind_Ok|]; exact I.
    - intros skip _. destruct skip; apply IH; lia.
  Qed.

  Lemma build_fine tlsok : fine (build tlsok c).
  Proof.
    unfold build. destruct (len c =? 0) eqn:E; [exact I|].
    apply fine_bind.
    - apply build_top_fine; unfold len in *; lia.
    - intros [e g] _. destruct e as [|p [|q e]]; exact I.
  Qed.

  Lemma json_fine : fine (json_skel c).
  Proof.
    unfold json_skel. destruct (0 <? len c) eqn:E; [|exact I].
    apply json_loop_fine; unfold len in *; lia.
  Qed.
End Loops.

(* ---- Groups / Group / String -------------------------------------------------------------------- *)
Section Walks.
  Variable c : list Z.
  Hypothesis Hb : bytes c.

  (* fuel needed from offset i: the offsets still ahead, plus the final test *)
  Definition ahead (i : Z) : Z := if (0 <=? i) && (i <? len c) then len c - i + 1 else 1.

  Lemma ahead_next i r : 0 <= i < len c -> r = -1 \/ i < r -> ahead r < ahead i.
  Proof. intros Hi Hr. unfold ahead. replace ((0 <=? i) && (i <? len c)) with true by lia.
    destruct ((0 <=? r) && (r <? len c)) eqn:E; lia. Qed.

  Lemma groups_loop_fine : forall fuel i n, ahead i <= Z.of_nat fuel -> fine (groups_loop fuel c i n).
  Proof.
    induction fuel as [|f IH]; intros i n Hf.
    - unfold ahead in Hf. destruct ((0 <=? i) && (i <? len c)) eqn:E; lia.
    - cbn [groups_loop]. destruct ((0 <=? i) && (i <? len c)) eqn:E; [|exact I].
      rewrite idx_in by lia. rewrite bind_Ok.
      destruct (next_ok c i Hb ltac:(lia)) as [r [-> Hr]]. rewrite bind_Ok.
      apply IH. pose proof (ahead_next i r ltac:(lia) Hr). lia.
  Qed.

  Lemma groups_fine : fine (groups c).
  Proof.
    unfold groups. destruct (len c =? 0) eqn:E; [exact I|].
    apply groups_loop_fine. unfold ahead, len in *. replace ((0 <=? 0) && (0 <? Z.of_nat (length c))) with true by lia. lia.
  Qed.

  Lemma group_loop_fine p : forall fuel e l s, ahead e <= Z.of_nat fuel ->
    0 <= s <= len c -> (0 <= e < len c -> s <= e) -> fine (group_loop fuel c p e l s).
  Proof.
    induction fuel as [|f IH]; intros e l s Hf Hs Hse.
    - unfold ahead in Hf. destruct ((0 <=? e) && (e <? len c)) eqn:E; lia.
    - cbn [group_loop]. destruct ((0 <=? e) && (e <? len c)) eqn:E.
      + rewrite idx_in by lia. rewrite bind_Ok.
        destruct (next_ok c e Hb ltac:(lia)) as [r [Hn Hr]].
        pose proof (ahead_next e r ltac:(lia) Hr).
        destruct (nz c e =? Separator).
        * destruct (e =? 0).
          { rewrite Hn, bind_Ok. apply IH; lia. }
          destruct ((p <=? 0) && (l =? 0)).
          { rewrite slice_in by lia. exact I. }
          destruct (p =? l).
          { rewrite slice_in by lia. exact I. }
          rewrite Hn, bind_Ok. apply IH; lia.
        * rewrite Hn, bind_Ok. apply IH; lia.
      + destruct ((0 <? l) && (0 <? s)).
        { rewrite slice_in by lia. exact I. }
        destruct ((p <=? 0) && (l =? 0)); exact I.
  Qed.

  Lemma group_fine p : fine (group c p).
  Proof.
    unfold group. destruct (len c =? 0) eqn:E; [exact I|]. destruct (p =? -1); [exact I|].
    apply group_loop_fine; [|unfold len; lia|lia].
    unfold ahead, len in *. replace ((0 <=? 0) && (0 <? Z.of_nat (length c))) with true by lia. lia.
  Qed.

  Lemma string_loop_fine : forall fuel i, ahead i <= Z.of_nat fuel -> fine (string_loop fuel c i).
  Proof.
    induction fuel as [|f IH]; intros i Hf.
    - unfold ahead in Hf. destruct ((0 <=? i) && (i <? len c)) eqn:E; lia.
    - cbn [string_loop]. destruct ((0 <=? i) && (i <? len c)) eqn:E; [|exact I].
      destruct (next_ok c i Hb ltac:(lia)) as [r [-> Hr]]. rewrite bind_Ok.
      destruct ((r <? 0) || (len c <=? r)) eqn:E2; [exact I|].
      rewrite idx_in by lia. rewrite bind_Ok.
      apply IH. pose proof (ahead_next i r ltac:(lia) Hr). lia.
  Qed.

  Lemma string_fine : fine (string_skel c).
  Proof.
    unfold string_skel. destruct (len c =? 0) eqn:E; [exact I|]. pose proof (len_nonneg c).
    rewrite idx_in by lia. rewrite bind_Ok. destruct (nz c 0 =? 0); [exact I|].
    apply string_loop_fine. unfold ahead, len in *. replace ((0 <=? 0) && (0 <? Z.of_nat (length c))) with true by lia. lia.
  Qed.

  Lemma marshal_fine tlsok : fine (marshal tlsok c).
  Proof.
    unfold marshal. apply fine_bind; [apply build_fine; exact Hb|].
    intros [g e] _. destruct e; [cbn; discriminate|exact I].
  Qed.
End Walks.

(* ---- validate accepts iff build accepts ------------------------------------------------------------ *)
Lemma len_take_drop {A} (c : list A) a k : 0 <= a -> 0 <= k -> a + k <= len c -> len (take k (drop a c)) = k.
Proof.
  intros Ha Hk H. unfold len, take, drop in *. rewrite firstn_length, skipn_length. lia.
Qed.

Lemma tls_conn_true mu ver ca pem key : exists it, tls_conn true mu ver ca pem key = Ok it.
Proof. unfold tls_conn. cbn [negb]. rewrite andb_false_r. eexists; reflexivity. Qed.

Definition sim_step (v : res (bool * bool)) (b : res bstate) : Prop :=
  match v, b with
  | Ok pt, Ok st => has_conn (fst st) = fst pt /\ has_trans (fst st) = snd pt
  | Err _, Err _ => True
  | _, _ => False
  end.

Ltac hd_sim t :=
  lazymatch t with
  | bind ?e _ => hd_sim e
  | idx ?c ?k => rewrite (idx_in c k) by lia
  | slice ?c ?a ?b => rewrite (slice_in c a b) by lia
  | rd_be ?c ?i ?k =>
    let u := fresh "u" in let E := fresh "E" in
    destruct (rd_be_ok c i k) as [u E]; [lia|cbn [Z.of_nat Pos.of_succ_nat Pos.succ]; lia|rewrite E]
  | tls_conn true ?mu ?ver ?ca ?pem ?key =>
    let it := fresh "it" in let E := fresh "E" in destruct (tls_conn_true mu ver ca pem key) as [it E]; rewrite E
  | (if ?b then _ else _) => let E := fresh "E" in destruct b eqn:E; try (exfalso; lia)
  end.
Ltac sstep :=
  match goal with |- sim_step ?a ?b => first [hd_sim a | hd_sim b] end;
  bsimp; rewrite ?len_take_drop by lia.
Ltac send := solve [exact I | split; reflexivity].
Ltac srun := repeat first [send | sstep].

Lemma step_sim c i n tag pf z : bytes c -> 0 <= i -> i < n -> n <= len c -> 0 < len c ->
  (kind_of tag = KWC2 -> i + 7 < n -> hsafe c n (wc2_n0 c i)) ->
  sim_step (validate_step c i n (kind_of tag) (has_conn pf) (has_trans pf))
           (build_step true c i n tag (kind_of tag) (pf, z)).
Proof.
  intros Hb Hi Hin Hn Hl Hw. byte_facts c i Hb.
  destruct (kind_of tag) eqn:K; unfold validate_step, build_step; srun.
  all: try (rewrite ?wc2_v3_eq;
    match goal with |- context [wc2_hdrs ?f ?c ?i ?n ?v ?q ?j] =>
      let Hf := fresh "Hf" in
      assert (Hf : fine (wc2_hdrs f c i n v q j))
        by (apply (wc2_hdrs_fine c i n Hb Hi Hn (wc2_n0 c i) (Hw eq_refl ltac:(lia))); unfold wc2_n0, len in *; lia);
      destruct (wc2_hdrs f c i n v q j); cbn [bind]; [split; reflexivity|exact I|destruct Hf]
    end).
  all: try (
    match goal with |- context [dns_names ?x ?c ?i ?n ?v ?e] =>
      let Hf := fresh "Hf" in
      assert (Hf : fine (dns_names x c i n v e)) by (apply dns_names_fine; try assumption; lia);
      destruct (dns_names x c i n v e); cbn [bind]; [split; reflexivity|exact I|destruct Hf]
    end).
Qed.

Definition sim_loop (v : res Z) (b : res (bstate * Z)) : Prop :=
  match v, b with Ok n, Ok r => n = snd r | Err _, Err _ => True | _, _ => False end.
Definition sim_top {A B} (v : res A) (b : res B) : Prop :=
  match v, b with Ok _, Ok _ => True | Err _, Err _ => True | _, _ => False end.

Section Sim.
  Variable c : list Z.
  Hypothesis Hb : bytes c.

  Lemma loop_sim : forall fuel i pf z, 0 <= i < len c ->
    sim_loop (validate_loop fuel c i (has_conn pf) (has_trans pf)) (build_loop true fuel c i (pf, z)).
  Proof.
    induction fuel as [|f IH]; intros i pf z Hi; [exact I|].
    rewrite validate_loop_S, build_loop_S.
    destruct (stride c Hb i Hi) as [r [-> [Hn Hw]]]. rewrite !bind_Ok. cbv zeta.
    set (n := fixn c i r) in *.
    rewrite !idx_in by lia. rewrite !bind_Ok.
    destruct (is_sep (kind_of (nz c i))); [reflexivity|].
    pose proof (step_sim c i n (nz c i) pf z Hb ltac:(lia) ltac:(lia) ltac:(lia) ltac:(lia) Hw) as HS.
    destruct (validate_step c i n (kind_of (nz c i)) (has_conn pf) (has_trans pf)) as [[p' t']| |];
      destruct (build_step true c i n (nz c i) (kind_of (nz c i)) (pf, z)) as [[pf' z']| |];
      cbn [sim_step fst snd] in HS; try contradiction; cbn [bind fst snd]; [|exact I].
    destruct HS as [<- <-].
    destruct ((0 <=? n) && (n <? len c)) eqn:E; [|reflexivity].
    apply IH. lia.
  Qed.

  Lemma top_sim : forall fuel i e g, 0 <= i -> sim_top (validate_top fuel c i) (build_top true fuel c i e g).
  Proof.
    induction fuel as [|f IH]; intros i e g Hi; [exact I|]. cbn [validate_top build_top].
    destruct (i <? len c) eqn:E; [|exact I].
    pose proof (validate_group_fine c Hb i ltac:(lia)) as F.
    unfold validate_group, build_group in *. replace (0 <? len c) with true in * by lia.
    pose proof (loop_sim (length c) i prof0 0 ltac:(lia)) as HS.
    change (has_conn prof0) with false in HS. change (has_trans prof0) with false in HS.
    destruct (validate_loop (length c) c i false false) as [n| |];
      destruct (build_loop true (length c) c i (prof0, 0)) as [[[p s] n']| |];
      cbn [sim_loop snd] in HS; try contradiction; cbn [bind]; [|exact I].
    subst n'. cbn [fineP] in F.
    destruct (n - i =? 1).
    - rewrite !idx_in by lia. rewrite !bind_Ok.
      destruct (nz c i =? Separator); apply IH; lia.
    - rewrite !bind_Ok. apply IH; lia.
  Qed.

  Lemma validate_iff_build : validate c = Ok tt <-> exists r, build true c = Ok r.
  Proof.
    unfold validate, build. destruct (len c =? 0) eqn:E.
    { split; [eexists; reflexivity|reflexivity]. }
    pose proof (top_sim (S (length c)) 0 [] 0 ltac:(lia)) as HS.
    destruct (validate_top (S (length c)) c 0) as [[]| |];
      destruct (build_top true (S (length c)) c 0 [] 0) as [[es g]| |]; cbn [sim_top] in HS; try contradiction; cbn [bind].
    - split; [intros _|reflexivity]. destruct es as [|p [|q es]]; eexists; reflexivity.
    - split; [discriminate|intros [r Hr]; discriminate].
  Qed.
End Sim.

(* ---- the statements used by Props/C09.v -------------------------------------------------------------- *)
Lemma fine_spec {A} (r : res A) : fine r <-> r <> Panic /\ r <> Err EFuel.
Proof.
  destruct r; cbn; split.
  - intros _. split; discriminate.
  - intros _. exact I.
  - intros H. split; [discriminate|]. intros [= E]. exact (H E).
  - intros [_ H] E. apply H. rewrite E. reflexivity.
  - intros [].
  - intros [H _]. apply H. reflexivity.
Qed.

Definition returns {A} (r : res A) : Prop := r <> Panic /\ r <> Err EFuel.

Lemma next_total c i : bytes c -> 0 <= i < len c -> exists n, next c i = Ok n.
Proof. intros Hb Hi. destruct (next_ok c i Hb Hi) as [n [H _]]. eauto. Qed.
Lemma next_progress c i n : bytes c -> 0 <= i < len c -> next c i = Ok n -> n = -1 \/ i < n.
Proof. intros Hb Hi H. destruct (next_ok c i Hb Hi) as [n' [H' P]]. rewrite H in H'. injection H' as <-. exact P. Qed.
Lemma stride_progress c i n : bytes c -> 0 <= i < len c -> next c i = Ok n -> i < fixn c i n <= len c.
Proof. intros Hb Hi H. apply fixn_range; [exact Hi|]. eapply next_progress; eauto. Qed.

Lemma validate_returns c : bytes c -> returns (validate c).
Proof. intros H. apply fine_spec. apply validate_fine. exact H. Qed.
Lemma build_returns tlsok c : bytes c -> returns (build tlsok c).
Proof. intros H. apply fine_spec. apply build_fine. exact H. Qed.
Lemma groups_returns c : bytes c -> returns (groups c).
Proof. intros H. apply fine_spec. apply groups_fine. exact H. Qed.
Lemma groups_loop_ok c : bytes c -> forall fuel i n, ahead c i <= Z.of_nat fuel -> exists m, groups_loop fuel c i n = Ok m.
Proof.
  intros Hb. induction fuel as [|f IH]; intros i n Hf.
  - unfold ahead in Hf. destruct ((0 <=? i) && (i <? len c)) eqn:E; lia.
  - cbn [groups_loop]. destruct ((0 <=? i) && (i <? len c)) eqn:E; [|eauto].
    rewrite idx_in by lia. rewrite bind_Ok.
    destruct (next_ok c i Hb ltac:(lia)) as [r [-> Hr]]. rewrite bind_Ok.
    apply IH. pose proof (ahead_next c i r ltac:(lia) Hr). lia.
Qed.
Lemma groups_is_ok c : bytes c -> exists n, groups c = Ok n.
Proof.
  intros Hb. unfold groups. destruct (len c =? 0) eqn:E; [eauto|].
  apply groups_loop_ok; [exact Hb|].
  unfold ahead, len in *. replace ((0 <=? 0) && (0 <? Z.of_nat (length c))) with true by lia. lia.
Qed.

Lemma group_loop_ok c p : bytes c -> forall fuel e l s, ahead c e <= Z.of_nat fuel ->
  0 <= s <= len c -> (0 <= e < len c -> s <= e) -> exists g, group_loop fuel c p e l s = Ok g.
Proof.
  intros Hb. induction fuel as [|f IH]; intros e l s Hf Hs Hse.
  - unfold ahead in Hf. destruct ((0 <=? e) && (e <? len c)) eqn:E; lia.
  - cbn [group_loop]. destruct ((0 <=? e) && (e <? len c)) eqn:E.
    + rewrite idx_in by lia. rewrite bind_Ok.
      destruct (next_ok c e Hb ltac:(lia)) as [r [Hn Hr]].
      pose proof (ahead_next c e r ltac:(lia) Hr).
      destruct (nz c e =? Separator).
      * destruct (e =? 0).
        { rewrite Hn, bind_Ok. apply IH; lia. }
        destruct ((p <=? 0) && (l =? 0)).
        { rewrite slice_in by lia. eauto. }
        destruct (p =? l).
        { rewrite slice_in by lia. eauto. }
        rewrite Hn, bind_Ok. apply IH; lia.
      * rewrite Hn, bind_Ok. apply IH; lia.
    + destruct ((0 <? l) && (0 <? s)).
      { rewrite slice_in by lia. eauto. }
      destruct ((p <=? 0) && (l =? 0)); eauto.
Qed.
Lemma group_is_ok c p : bytes c -> exists g, group c p = Ok g.
Proof.
  intros Hb. unfold group. destruct (len c =? 0) eqn:E; [eauto|]. destruct (p =? -1); [eauto|].
  apply group_loop_ok; [exact Hb| |unfold len; lia|lia].
  unfold ahead, len in *. replace ((0 <=? 0) && (0 <? Z.of_nat (length c))) with true by lia. lia.
Qed.
Lemma string_returns c : bytes c -> returns (string_skel c).
Proof. intros H. apply fine_spec. apply string_fine. exact H. Qed.
Lemma json_returns c : bytes c -> returns (json_skel c).
Proof. intros H. apply fine_spec. apply json_fine. exact H. Qed.
Lemma marshal_returns tlsok c : bytes c -> returns (marshal tlsok c).
Proof. intros H. apply fine_spec. apply marshal_fine. exact H. Qed.
