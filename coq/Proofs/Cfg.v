(* Proofs/Cfg.v -- lemmas about Model/Cfg.v (C08, C09). *)
From XMT Require Import Base.Prelude Base.BitLemmas Model.Cfg.
From Coq Require Import ZifyBool.
Ltac Zify.zify_post_hook ::= Z.div_mod_to_equations.

Lemma validate_nil : validate [] = Ok tt.
Proof. reflexivity. Qed.
