(* Proofs/Cfg.v -- lemmas about Model/Cfg.v for C09 (arbitrary profile bytes): every entry point
   returns (no Panic, the loop fuel is never exhausted), validate accepts iff build accepts.
   The constructor side (C08) is Proofs/CfgSettings.v. *)
From XMT Require Import Base.Prelude Base.BitLemmas Model.Cfg.
From Coq Require Import ZifyBool.
Ltac Zify.zify_post_hook ::= Z.div_mod_to_equations.

Lemma validate_nil : validate [] = Ok tt.
Proof. reflexivity. Qed.

(* ---- byte strings, total index ---------------------------------------------------------- *)
Definition bytes (c : list Z) : Prop := Forall (fun b => 0 <= b < 256) c.

(* the byte at i (0 outside the string) *)
Definition nz (c : list Z) (i : Z) : Z := nth (Z.to_nat i) c 0.

Lemma nz_byte c i : bytes c -> 0 <= nz c i < 256.
Proof.
  intros H. unfold nz. destruct (nth_in_or_default (Z.to_nat i) c 0) as [Hin|E].
  - unfold bytes in H. rewrite Forall_forall in H. apply H. exact Hin.
  - rewrite E. lia.
Qed.

Lemma idx_in c i : 0 <= i < len c -> idx c i = Ok (nz c i).
Proof.
  intros H. unfold idx, nz, len in *. replace (i <? 0) with false by lia.
  destruct (nth_error c (Z.to_nat i)) eqn:E.
  - f_equal. symmetry. apply nth_error_nth. exact E.
  - apply nth_error_None in E. lia.
Qed.

Lemma idx_out c i : i < 0 \/ len c <= i -> @idx Z c i = Panic.
Proof.
  intros H. unfold idx, len in *. destruct (i <? 0) eqn:E; [reflexivity|].
  replace (nth_error c (Z.to_nat i)) with (@None Z); [reflexivity|].
  symmetry. apply nth_error_None. lia.
Qed.

Lemma slice_in {A} (c : list A) a b : 0 <= a -> a <= b -> b <= len c -> slice c a b = Ok (take (b - a) (drop a c)).
Proof. intros. unfold slice. replace ((a <? 0) || (b <? a) || (len c <? b)) with false by lia. reflexivity. Qed.

Lemma w16_val hi lo : 0 <= hi -> 0 <= lo < 256 -> w16 hi lo = hi * 256 + lo.
Proof.
  intros. unfold w16. rewrite Z.lor_comm. change 256 with (2 ^ 8). apply lor_shiftl_add; lia.
Qed.
Lemma w16_range hi lo : 0 <= hi < 256 -> 0 <= lo < 256 -> 0 <= w16 hi lo < 65536.
Proof. intros. rewrite w16_val by lia. lia. Qed.
Global Opaque w16.

(* ---- "returns": neither a panic nor an exhausted loop ---------------------------------------- *)
Definition fine {A} (r : res A) : Prop :=
  match r with Ok _ => True | Err e => e <> EFuel | Panic => False end.

Lemma fine_bind {A B} (e : res A) (k : A -> res B) :
  fine e -> (forall x, e = Ok x -> fine (k x)) -> fine (bind e k).
Proof. destruct e; cbn; auto. Qed.

Lemma fine_ok {A} (r : res A) : fine r -> (exists v, r = Ok v) \/ (exists e, r = Err e /\ e <> EFuel).
Proof. destruct r; cbn; intros H; [left; eauto|right; eauto|tauto]. Qed.

(* ---- Config.next --------------------------------------------------------------------------- *)
Lemma wc2_walk_ok c : bytes c -> forall x n, exists r, wc2_walk c x n = Ok r /\ n <= r.
Proof.
  intros Hb. induction x as [|x IH]; intros n; cbn [wc2_walk].
  - eexists; split; [reflexivity|lia].
  - destruct ((n + 1 <? len c) && (0 <? n)) eqn:E.
    + rewrite !idx_in by lia. cbv beta iota delta [bind].
      destruct (IH (n + (nz c n + nz c (n + 1) + 2))) as [r [-> Hr]].
      pose proof (nz_byte c n Hb). pose proof (nz_byte c (n + 1) Hb).
      eexists; split; [reflexivity|lia].
    + eexists; split; [reflexivity|lia].
Qed.

Lemma dns_walk_ok c : bytes c -> forall x n, 0 <= n -> exists r, dns_walk c x n = Ok r /\ n <= r.
Proof.
  intros Hb. induction x as [|x IH]; intros n Hn; cbn [dns_walk].
  - eexists; split; [reflexivity|lia].
  - destruct (n <? len c) eqn:E.
    + rewrite !idx_in by lia. cbv beta iota delta [bind].
      pose proof (nz_byte c n Hb).
      destruct (IH (n + (nz c n + 1))) as [r [-> Hr]]; [lia|].
      eexists; split; [reflexivity|lia].
    + eexists; split; [reflexivity|lia].
Qed.

(* the offset at which the WC2 header pairs start *)
Definition wc2_n0 (c : list Z) (i : Z) : Z :=
  i + 8 + w16 (nz c (i + 1)) (nz c (i + 2)) + w16 (nz c (i + 3)) (nz c (i + 4)) + w16 (nz c (i + 5)) (nz c (i + 6)).

Ltac byte_facts c i Hb :=
  pose proof (nz_byte c (i + 1) Hb); pose proof (nz_byte c (i + 2) Hb); pose proof (nz_byte c (i + 3) Hb);
  pose proof (nz_byte c (i + 4) Hb); pose proof (nz_byte c (i + 5) Hb); pose proof (nz_byte c (i + 6) Hb);
  pose proof (nz_byte c (i + 7) Hb);
  pose proof (w16_range (nz c (i + 1)) (nz c (i + 2)) ltac:(assumption) ltac:(assumption));
  pose proof (w16_range (nz c (i + 2)) (nz c (i + 3)) ltac:(assumption) ltac:(assumption));
  pose proof (w16_range (nz c (i + 3)) (nz c (i + 4)) ltac:(assumption) ltac:(assumption));
  pose proof (w16_range (nz c (i + 4)) (nz c (i + 5)) ltac:(assumption) ltac:(assumption));
  pose proof (w16_range (nz c (i + 5)) (nz c (i + 6)) ltac:(assumption) ltac:(assumption));
  pose proof (w16_range (nz c (i + 6)) (nz c (i + 7)) ltac:(assumption) ltac:(assumption)).

(* next returns for every offset inside the string, and either gives up (-1) or moves forward *)
Lemma next_ok c i : bytes c -> 0 <= i < len c -> exists n, next c i = Ok n /\ (n = -1 \/ i < n).
Proof.
  intros Hb Hi. unfold next.
  replace ((len c <? i) || (i <? 0)) with false by lia.
  rewrite idx_in by lia. cbv beta iota delta [bind].
  byte_facts c i Hb.
  destruct (kind_of (nz c i));
    try (eexists; split; [reflexivity|lia]);
    (match goal with |- context [if len c <=? ?k then _ else _] => destruct (len c <=? k) eqn:E1 end;
     [eexists; split; [reflexivity|lia]|]);
    rewrite !idx_in by lia; cbv beta iota zeta delta [bind];
    try (eexists; split; [reflexivity|lia]).
  - (* WC2 *)
    fold (wc2_n0 c i). assert (i + 8 <= wc2_n0 c i) by (unfold wc2_n0; lia).
    destruct (len c <=? wc2_n0 c i) eqn:E2; [eexists; split; [reflexivity|lia]|].
    rewrite idx_in by lia. cbv beta iota delta [bind].
    destruct (nz c (i + 7) =? 0); [eexists; split; [reflexivity|lia]|].
    destruct (wc2_walk_ok c Hb (Z.to_nat (nz c (i + 7))) (wc2_n0 c i)) as [r [-> Hr]].
    eexists; split; [reflexivity|lia].
  - (* DNS *)
    destruct (dns_walk_ok c Hb (Z.to_nat (nz c (i + 1))) (i + 2)) as [r [-> Hr]]; [lia|].
    eexists; split; [reflexivity|lia].
Qed.

Lemma next_out c i : i < 0 \/ len c < i -> next c i = Ok (-1).
Proof. intros H. unfold next. replace ((len c <? i) || (i <? 0)) with true by lia. reflexivity. Qed.

(* ---- fixn: the caller's reset --------------------------------------------------------------- *)
Lemma fixn_range c i r : 0 <= i < len c -> r = -1 \/ i < r -> i < fixn c i r <= len c.
Proof. intros Hi Hr. unfold fixn. destruct ((r =? i) || (len c <? r) || (r =? -1) || (r <? i)) eqn:E; lia. Qed.

Lemma fixn_fwd c i r : 0 <= i -> i < r -> fixn c i r = if r <=? len c then r else len c.
Proof.
  intros Hi Hr. unfold fixn.
  destruct (r <=? len c) eqn:E.
  - replace ((r =? i) || (len c <? r) || (r =? -1) || (r <? i)) with false by lia. reflexivity.
  - replace ((r =? i) || (len c <? r) || (r =? -1) || (r <? i)) with true by lia. reflexivity.
Qed.

Lemma fixn_m1 c i : fixn c i (-1) = len c.
Proof. unfold fixn. replace ((-1 =? i) || (len c <? -1) || (-1 =? -1) || (-1 <? i)) with true by lia. reflexivity. Qed.

(* ---- the WC2 header pairs: what next walked over is what validate / build / MarshalJSON re-walk ---- *)
Inductive hsafe (c : list Z) (n : Z) : Z -> Prop :=
| hs_stop v : n <= v -> hsafe c n v
| hs_step v : v + 1 < len c -> hsafe c n (v + (nz c v + nz c (v + 1) + 2)) -> hsafe c n v.

Lemma walk_hsafe c : bytes c -> forall x p r, wc2_walk c x p = Ok r ->
  forall n, n = (if r <=? len c then r else len c) -> hsafe c n p.
Proof.
  intros Hb. induction x as [|x IH]; intros p r Hw n Hn; cbn [wc2_walk] in Hw.
  - injection Hw as <-. subst n. apply hs_stop. destruct (p <=? len c) eqn:E; lia.
  - destruct ((p + 1 <? len c) && (0 <? p)) eqn:E.
    + rewrite !idx_in in Hw by lia. cbv beta iota delta [bind] in Hw.
      apply hs_step; [lia|]. eapply IH; eauto.
    + injection Hw as <-. subst n. apply hs_stop. destruct (p <=? len c) eqn:E2; lia.
Qed.

Lemma next_wc2_hsafe c i r : bytes c -> 0 <= i -> i + 7 < len c -> kind_of (nz c i) = KWC2 ->
  next c i = Ok r -> hsafe c (fixn c i r) (wc2_n0 c i).
Proof.
  intros Hb Hi H7 K. unfold next.
  replace ((len c <? i) || (i <? 0)) with false by lia.
  rewrite idx_in by lia. cbv beta iota delta [bind]. rewrite K.
  replace (len c <=? i + 7) with false by lia.
  rewrite !idx_in by lia. cbv beta iota zeta delta [bind].
  byte_facts c i Hb.
  fold (wc2_n0 c i). assert (i + 8 <= wc2_n0 c i) by (unfold wc2_n0; lia).
  destruct (len c <=? wc2_n0 c i) eqn:E2.
  { intros [= <-]. apply hs_stop. rewrite fixn_m1. lia. }
  rewrite idx_in by lia. cbv beta iota delta [bind].
  destruct (nz c (i + 7) =? 0).
  { intros [= <-]. apply hs_stop. rewrite fixn_fwd by lia. replace (wc2_n0 c i <=? len c) with true by lia. lia. }
  intros Hw. destruct (wc2_walk_ok c Hb (Z.to_nat (nz c (i + 7))) (wc2_n0 c i)) as [r' [Hw' Hr]].
  rewrite Hw in Hw'. injection Hw' as <-.
  eapply walk_hsafe; eauto. apply fixn_fwd; lia.
Qed.

Lemma wc2_hdrs_fine c i n : bytes c -> 0 <= i -> n <= len c ->
  forall v, hsafe c n v -> forall fuel q j, i <= v -> n - v < Z.of_nat fuel -> 0 < Z.of_nat fuel ->
  fine (wc2_hdrs fuel c i n v q j).
Proof.
  intros Hb Hi Hn v Hs. induction Hs as [v Hv|v Hv Hs IH]; intros fuel q j Hiv Hf Hf0.
  - destruct fuel as [|f]; [lia|]. cbn [wc2_hdrs].
    replace ((v <? n) && (q <? n) && (j <? n)) with false by lia. exact I.
  - destruct fuel as [|f]; [lia|]. cbn [wc2_hdrs].
    destruct ((v <? n) && (q <? n) && (j <? n)) eqn:E; [|exact I].
    rewrite !idx_in by lia. cbv beta iota zeta delta [bind].
    pose proof (nz_byte c v Hb). pose proof (nz_byte c (v + 1) Hb).
    match goal with |- fine (if ?b then _ else _) => destruct b eqn:E2 end; [cbn; discriminate|].
    rewrite !slice_in by lia. cbv beta iota delta [bind].
    apply fine_bind; [|intros; exact I].
    replace (nz c (v + 1) + (nz c v + v + 2)) with (v + (nz c v + nz c (v + 1) + 2)) by lia.
    apply IH; lia.
Qed.

(* ---- the DNS names ------------------------------------------------------------------------------ *)
Lemma dns_names_fine c i n : bytes c -> 0 <= i -> n <= len c ->
  forall x v e, 0 <= v -> fine (dns_names x c i n v e).
Proof.
  intros Hb Hi Hn. induction x as [|x IH]; intros v e Hv; cbn [dns_names]; [exact I|].
  destruct (v <? n) eqn:E; [|exact I].
  rewrite idx_in by lia. cbv beta iota zeta delta [bind].
  pose proof (nz_byte c v Hb).
  match goal with |- fine (if ?b then _ else _) => destruct b eqn:E2 end; [cbn; discriminate|].
  rewrite slice_in by lia. cbv beta iota delta [bind].
  apply fine_bind; [|intros; exact I].
  apply IH. lia.
Qed.

Lemma rd_be_ok c i k : 0 <= i -> i + Z.of_nat k <= len c -> exists u, rd_be c i k = Ok u.
Proof.
  unfold rd_be. generalize 0 as acc. revert i. induction k as [|k IH]; intros i acc Hi Hk.
  - eexists; reflexivity.
  - rewrite idx_in by lia. cbv beta iota delta [bind]. apply IH; lia.
Qed.
