(* Proofs/DevInfo.v -- C12: session settings and identity survive every synchronisation path.

   Part 1  round trips of the flat reader (packet body): every component codec and the six
           message kinds.  The content is that the WRITER's field list (write_info, one Go
           function) and the READER's field list (read_info, another Go function) match.
   Part 2  the stream reader (data.NewReader over a pipe) agrees with the flat reader on the
           concatenation of EVERY split into non-empty short reads; with part 1 this gives the
           stream round trips.
   Part 3  MvTime: server setter -> client handler -> echo -> handleInfoResult. *)
From XMT Require Import Base.Prelude Base.BitLemmas Model.Codec Proofs.Codec Model.DevInfo.
From Coq Require Import ZifyBool.
Ltac Zify.zify_post_hook ::= Z.div_mod_to_equations.

(* ---- booleans to propositions ------------------------------------------------------------ *)
Lemma is_u8_iff x : is_u8 x = true <-> 0 <= x < 256. Proof. unfold is_u8. lia. Qed.
Lemma is_u32_iff x : is_u32 x = true <-> 0 <= x < 4294967296. Proof. unfold is_u32. lia. Qed.
Lemma is_u64_iff x : is_u64 x = true <-> 0 <= x < 18446744073709551616. Proof. unfold is_u64. lia. Qed.
Lemma is_i64_iff x : is_i64 x = true <-> -9223372036854775808 <= x < 9223372036854775808.
Proof. unfold is_i64. lia. Qed.

Ltac bools :=
  repeat match goal with
         | H : _ && _ = true |- _ => apply andb_true_iff in H; destruct H
         | H : is_u8 _ = true |- _ => apply is_u8_iff in H
         | H : is_u32 _ = true |- _ => apply is_u32_iff in H
         | H : is_u64 _ = true |- _ => apply is_u64_iff in H
         | H : is_i64 _ = true |- _ => apply is_i64_iff in H
         end.

Lemma i64_u64 v : -9223372036854775808 <= v < 9223372036854775808 -> i64 (u64 v) = v.
Proof.
  intros H. unfold i64, u64. change 18446744073709551616 with (2 ^ 64). apply sgn_wrap; [lia|].
  change (2 ^ (64 - 1)) with 9223372036854775808. lia.
Qed.
Lemma u64_range v : 0 <= u64 v < 18446744073709551616.
Proof. unfold u64. lia. Qed.

(* ---- part 1: the flat reader ------------------------------------------------------------- *)
(* rd reads the value a back from the bytes w, whatever follows, and leaves what follows *)
Definition rt {A} (rd : rdr (list Z) A) (w : list Z) (a : A) : Prop :=
  forall rest, rd (w ++ rest) = Ok (a, rest).

Lemma rt_ret {A} (a : A) : rt (rret a) [] a.
Proof. intros rest. reflexivity. Qed.
Lemma rt_bind {A B} (m : rdr (list Z) A) (f : A -> rdr (list Z) B) w1 w2 a b :
  rt m w1 a -> rt (f a) w2 b -> rt (rbind m f) (w1 ++ w2) b.
Proof. intros H1 H2 rest. unfold rbind. rewrite <- app_assoc, H1. apply H2. Qed.
Lemma rt_last {A B} (m : rdr (list Z) A) (f : A -> rdr (list Z) B) w a b :
  rt m w a -> rt (f a) [] b -> rt (rbind m f) w b.
Proof. intros H1 H2. rewrite <- (app_nil_r w). eapply rt_bind; eassumption. Qed.
Lemma rt_eq {A} (rd : rdr (list Z) A) w w' a : w = w' -> rt rd w a -> rt rd w' a.
Proof. intros <-. exact (fun H => H). Qed.

Lemma rt_u8 v : 0 <= v < 256 -> rt (r_u8 flat_ops) (enc_u8 v) v.
Proof. intros H rest. apply rd_u8_enc. exact H. Qed.
Lemma rt_u32 v : 0 <= v < 4294967296 -> rt (r_uN flat_ops 4) (enc_u32 v) v.
Proof. intros H rest. apply rd_u32_enc. exact H. Qed.
Lemma rt_u64 v : 0 <= v < 18446744073709551616 -> rt (r_uN flat_ops 8) (enc_u64 v) v.
Proof. intros H rest. apply rd_u64_enc. exact H. Qed.
Lemma rt_bytes b : wf_bytes b = true -> rt (r_bytes flat_ops) (enc_bytes b) b.
Proof. intros H rest. apply rd_bytes_enc. apply wf_bytes_len. exact H. Qed.
Lemma rt_raw n b : len b = n -> rt (r_raw flat_ops n) b b.
Proof. intros H rest. apply rd_fixed_app. exact H. Qed.

(* n elements, each written by wr and read by rd *)
Lemma rt_read_n {A} (rd : rdr (list Z) A) (wr : A -> list Z) (l : list A) :
  Forall (fun x => rt rd (wr x) x) l -> rt (read_n rd (length l)) (concat (map wr l)) l.
Proof.
  induction 1 as [|x l Hx _ IH]; [apply rt_ret|].
  cbn [length read_n map concat]. eapply rt_bind; [exact Hx|]. eapply rt_last; [exact IH | apply rt_ret].
Qed.

Lemma take_all {A} (l : list A) : take (len l) l = l.
Proof. unfold take, len. rewrite Nat2Z.id. apply firstn_all. Qed.

(* count byte + elements; the count is ONE byte: at most 255 elements *)
Lemma rt_counted {A} (rd : rdr (list Z) A) (wr : A -> list Z) (l : list A) :
  len l <= 255 -> Forall (fun x => rt rd (wr x) x) l ->
  rt (read_counted flat_ops rd) (write_counted wr l) l.
Proof.
  intros Hl H. unfold read_counted, write_counted. pose proof (len_nonneg l).
  rewrite u8_small by lia. rewrite take_all.
  eapply rt_bind; [apply rt_u8; lia|]. unfold len. rewrite Nat2Z.id. apply rt_read_n. exact H.
Qed.

Lemma forallb_Forall {A} (p : A -> bool) (P : A -> Prop) l :
  (forall x, p x = true -> P x) -> forallb p l = true -> Forall P l.
Proof.
  intros Hp. induction l as [|x l IH]; cbn [forallb]; intros H; [constructor|].
  apply andb_true_iff in H. destruct H. constructor; auto.
Qed.

(* Address: two uint64 *)
Lemma rt_addr a : wf_addr a = true -> rt (read_addr flat_ops) (write_addr a) a.
Proof.
  unfold wf_addr. intros H. bools. destruct a as [hi lo]. cbn [a_hi a_lo] in *.
  unfold read_addr, write_addr. cbn [a_hi a_lo].
  eapply rt_bind; [apply rt_u64; lia|]. eapply rt_last; [apply rt_u64; lia | apply rt_ret].
Qed.

(* network interface: name, hardware address, counted addresses *)
Lemma rt_dev d : wf_dev d = true -> rt (read_dev flat_ops) (write_dev d) d.
Proof.
  unfold wf_dev. intros H. bools. destruct d as [nm mac ad]. cbn [d_name d_mac d_addrs] in *.
  unfold read_dev, write_dev. cbn [d_name d_mac d_addrs].
  eapply rt_bind; [apply rt_bytes; assumption|]. eapply rt_bind; [apply rt_u64; lia|].
  eapply rt_last; [|apply rt_ret].
  apply rt_counted; [lia|]. eapply forallb_Forall; [|eassumption]. apply rt_addr.
Qed.

(* Network: counted interfaces *)
Lemma rt_net n : len n <= 255 -> forallb wf_dev n = true -> rt (read_counted flat_ops (read_dev flat_ops)) (write_net n) n.
Proof.
  intros Hl H. unfold write_net. apply rt_counted; [exact Hl|]. eapply forallb_Forall; [|exact H]. apply rt_dev.
Qed.

(* device ID: 32 raw bytes, the first one not zero *)
Lemma rt_id b : wf_id b = true -> rt (read_id flat_ops) b b.
Proof.
  unfold wf_id, wf_raw. intros H. bools. unfold read_id.
  eapply rt_last; [apply rt_raw; lia|].
  destruct b as [|x b']; [discriminate|]. cbn [hd] in *.
  destruct (x =? 0); [discriminate | apply rt_ret].
Qed.

(* Machine *)
Lemma rt_machine m : wf_machine m = true -> rt (read_machine flat_ops) (write_machine m) m.
Proof.
  unfold wf_machine. intros H. bools.
  destruct m as [id sys pid ppid u v h e c n].
  cbn [m_id m_system m_pid m_ppid m_user m_version m_host m_elev m_caps m_net] in *.
  unfold read_machine, write_machine. cbn [m_id m_system m_pid m_ppid m_user m_version m_host m_elev m_caps m_net].
  eapply rt_bind; [apply rt_id; assumption|].
  eapply rt_bind; [apply rt_u8; lia|].
  eapply rt_bind; [apply rt_u32; lia|].
  eapply rt_bind; [apply rt_u32; lia|].
  eapply rt_bind; [apply rt_bytes; assumption|].
  eapply rt_bind; [apply rt_bytes; assumption|].
  eapply rt_bind; [apply rt_bytes; assumption|].
  eapply rt_bind; [apply rt_u8; lia|].
  eapply rt_bind; [apply rt_u32; lia|].
  eapply rt_last; [apply rt_net; [lia | assumption] | apply rt_ret].
Qed.

(* WorkHours: five bytes *)
Lemma rt_workhours w : wf_workhours w = true -> rt (read_workhours flat_ops) (write_workhours w) w.
Proof.
  unfold wf_workhours. intros H. bools. destruct w as [d sh sm eh em].
  cbn [w_days w_sh w_sm w_eh w_em] in *. unfold read_workhours, write_workhours. cbn [w_days w_sh w_sm w_eh w_em].
  do 4 (eapply rt_bind; [apply rt_u8; lia|]). eapply rt_last; [apply rt_u8; lia | apply rt_ret].
Qed.
(* a session without work hours writes uint32 0, uint8 0: the reader sees the all-zero value *)
Lemma rt_work_none : rt (read_workhours flat_ops) (write_work None) (mkWork 0 0 0 0 0).
Proof. intros rest. reflexivity. Qed.

(* KeyPair: public, private, shared secret *)
Lemma rt_keys k : wf_keys k = true -> rt (read_keys flat_ops) (write_keys k) k.
Proof.
  unfold wf_keys, wf_raw. intros H. bools. destruct k as [a b c]. cbn [k_pub k_priv k_share] in *.
  unfold read_keys, write_keys. cbn [k_pub k_priv k_share].
  eapply rt_bind; [apply rt_raw; lia|]. eapply rt_bind; [apply rt_raw; lia|].
  eapply rt_last; [apply rt_raw; lia | apply rt_ret].
Qed.

(* jitter, sleep, kill date, work hours *)
Lemma norm_work_none : norm_work (mkWork 0 0 0 0 0) = None.
Proof. reflexivity. Qed.

Lemma rt_settings s r : wf_settings s = true ->
  rt (read_settings flat_ops r) (write_settings s) (absorb_settings s r).
Proof.
  unfold wf_settings, wf_time. intros H. bools.
  unfold read_settings, write_settings, write_kill.
  eapply rt_bind; [apply rt_u8; lia|].
  eapply rt_bind; [apply rt_u64; apply u64_range|].
  eapply rt_bind; [apply rt_u64; unfold kill_wire; destruct (is_zero_time (s_kill s)); [lia | apply u64_range]|].
  rewrite i64_u64 by lia. unfold absorb_settings, norm_kill.
  destruct (s_work s) as [w|]; cbn [wf_work] in *.
  - eapply rt_last; [apply rt_workhours; assumption | apply rt_ret].
  - eapply rt_last; [apply rt_work_none | apply rt_ret].
Qed.

(* the proxy list of an active client session *)
Lemma rt_proxy f s : s_client s = true -> wf_proxy_opt (s_proxy s) = true ->
  rt (read_proxies flat_ops f) (write_proxy f s) (proxies_of f s).
Proof.
  intros Hc H. unfold write_proxy, proxies_of, read_proxies, read_counted. rewrite Hc. cbn [negb].
  destruct (s_proxy s) as [p|]; [|intros rest; reflexivity].
  destruct (p_active p); cbn [negb]; [|intros rest; reflexivity].
  cbn [wf_proxy_opt] in H. unfold wf_proxy in H. bools.
  eapply rt_bind; [apply rt_u8; lia|]. change (Z.to_nat 1) with 1%nat. cbn [read_n].
  eapply rt_last; [|apply rt_ret]. unfold read_pdata.
  eapply rt_bind; [apply rt_bytes; assumption|].
  destruct f.
  - eapply rt_bind; [apply rt_bytes; assumption|]. eapply rt_last; [apply rt_bytes; assumption | apply rt_ret].
  - eapply rt_bind; [apply rt_bytes; assumption | apply rt_ret].
Qed.

(* ---- the six message kinds, flat reader ---- *)
Theorem devinfo_roundtrip_flat k s r :
  wf k s = true -> rt (read_info flat_ops k r) (write_info k s) (absorb k s r, carried_proxies k s).
Proof.
  unfold wf, is_kind. intros H. apply andb_true_iff in H. destruct H as [Hk H].
  unfold read_info, write_info, absorb, carried_proxies.
  destruct (k =? infoProxy) eqn:Ep.
  { apply andb_true_iff in H. destruct H as [Hc Hp].
    eapply rt_last; [apply rt_proxy; assumption | apply rt_ret]. }
  apply andb_true_iff in H. destruct H as [H Hkeys].
  apply andb_true_iff in H. destruct H as [H Hprox].
  apply andb_true_iff in H. destruct H as [Hhead Hset].
  eapply rt_bind.
  { instantiate (1 := if has_device k then set_dev r (s_dev s) else if k =? infoMigrate then set_id r (s_id s) else r).
    destruct (has_device k).
    - eapply rt_last; [apply rt_machine; exact Hhead | apply rt_ret].
    - destruct (k =? infoMigrate).
      + eapply rt_last; [apply rt_id; exact Hhead | apply rt_ret].
      + apply rt_ret. }
  unfold carries_proxy in Hprox.
  destruct (infoRefresh <? k) eqn:Er.
  { replace (k =? infoMigrate) with false by (unfold infoMigrate, infoRefresh in *; lia).
    eapply rt_bind; [apply rt_settings; exact Hset | apply rt_ret]. }
  replace (k <=? infoRefresh) with true in Hprox by lia.
  apply andb_true_iff in Hprox. destruct Hprox as [Hc Hp].
  eapply rt_bind; [apply rt_settings; exact Hset|].
  destruct (k =? infoMigrate).
  - eapply rt_bind; [apply rt_proxy; assumption|].
    eapply rt_last; [apply rt_keys; exact Hkeys | apply rt_ret].
  - eapply rt_bind; [apply rt_proxy; assumption | apply rt_ret].
Qed.

(* ---- part 2: the stream reader agrees with the flat reader ------------------------------- *)
Lemma agree_rbind {A B} (f : rdr (list Z) A) (g : rdr src A) (f' : A -> rdr (list Z) B) (g' : A -> rdr src B) :
  agree f g -> (forall a, agree (f' a) (g' a)) -> agree (rbind f f') (rbind g g').
Proof.
  intros H H' s Hs. specialize (H s Hs). unfold rbind.
  destruct (f (concat s)) as [[a r]| |], (g s) as [[a' s']| |]; try contradiction; try exact I.
  destruct H as (<- & <- & Hn). apply H'. exact Hn.
Qed.
Lemma agree_rret {A} (a : A) : agree (rret a) (rret a).
Proof. apply agree_ret. Qed.
Lemma agree_rfail {A} e : agree (@rfail (list Z) A e) (@rfail src A e).
Proof. apply agree_err. Qed.

(* io.ReadFull of n raw bytes through the stream reader's Read *)
Lemma agree_raw n : 0 <= n -> agree (rd_fixed n) (srd_raw n).
Proof.
  intros Hn s Hs. unfold rd_fixed, srd_raw.
  destruct (Z.ltb_spec (len (concat s)) n) as [Hlt|Hge].
  - destruct (read_full_short s (src_fuel s n) n [] Hs) as (e & ->); [unfold src_fuel; lia | exact Hlt | exact I].
  - destruct (read_full_ok s (src_fuel s n) n [] Hs) as (s' & -> & Hc & Hn'); [unfold src_fuel; lia | lia |].
    cbn [app]. repeat split; assumption.
Qed.

Lemma agree_read_n {A} (f : rdr (list Z) A) (g : rdr src A) n : agree f g -> agree (read_n f n) (read_n g n).
Proof.
  intros H. induction n as [|n IH]; cbn [read_n]; [apply agree_rret|].
  apply agree_rbind; [exact H|]. intros x. apply agree_rbind; [exact IH|]. intros l. apply agree_rret.
Qed.
Lemma agree_counted {A} (f : rdr (list Z) A) (g : rdr src A) :
  agree f g -> agree (read_counted flat_ops f) (read_counted stream_ops g).
Proof.
  intros H. unfold read_counted. apply agree_rbind; [apply agree_u8|]. intros n. apply agree_read_n. exact H.
Qed.

Ltac agr :=
  repeat first
    [ apply agree_rret | apply agree_rfail
    | apply agree_u8 | apply agree_bytes
    | apply agree_uN; lia | apply agree_raw; unfold IDSize, publicKeySize, privateKeySize, sharedKeySize; lia
    | apply agree_rbind; [|intros ?] ].

Lemma agree_addr : agree (read_addr flat_ops) (read_addr stream_ops).
Proof. unfold read_addr. cbn [r_uN flat_ops stream_ops]. agr. Qed.
Lemma agree_dev : agree (read_dev flat_ops) (read_dev stream_ops).
Proof.
  unfold read_dev. cbn [r_uN r_bytes flat_ops stream_ops].
  apply agree_rbind; [apply agree_bytes|]. intros nm. apply agree_rbind; [apply agree_uN; lia|]. intros mac.
  apply agree_rbind; [apply agree_counted; apply agree_addr|]. intros a. apply agree_rret.
Qed.
Lemma agree_id : agree (read_id flat_ops) (read_id stream_ops).
Proof.
  unfold read_id. cbn [r_raw flat_ops stream_ops]. apply agree_rbind; [apply agree_raw; unfold IDSize; lia|].
  intros [|x b]; [apply agree_rfail|]. destruct (x =? 0); [apply agree_rfail | apply agree_rret].
Qed.
Lemma agree_machine : agree (read_machine flat_ops) (read_machine stream_ops).
Proof.
  unfold read_machine. apply agree_rbind; [apply agree_id|]. intros id.
  cbn [r_u8 r_uN r_bytes flat_ops stream_ops].
  apply agree_rbind; [apply agree_u8|]. intros sys.
  apply agree_rbind; [apply agree_uN; lia|]. intros pid.
  apply agree_rbind; [apply agree_uN; lia|]. intros ppid.
  apply agree_rbind; [apply agree_bytes|]. intros u.
  apply agree_rbind; [apply agree_bytes|]. intros v.
  apply agree_rbind; [apply agree_bytes|]. intros h.
  apply agree_rbind; [apply agree_u8|]. intros e.
  apply agree_rbind; [apply agree_uN; lia|]. intros c.
  apply agree_rbind; [apply agree_counted; apply agree_dev|]. intros n. apply agree_rret.
Qed.
Lemma agree_workhours : agree (read_workhours flat_ops) (read_workhours stream_ops).
Proof. unfold read_workhours. cbn [r_u8 flat_ops stream_ops]. agr. Qed.
Lemma agree_keys : agree (read_keys flat_ops) (read_keys stream_ops).
Proof. unfold read_keys. cbn [r_raw flat_ops stream_ops]. agr. Qed.
Lemma agree_settings r : agree (read_settings flat_ops r) (read_settings stream_ops r).
Proof.
  unfold read_settings. cbn [r_u8 r_uN flat_ops stream_ops].
  apply agree_rbind; [apply agree_u8|]. intros j.
  apply agree_rbind; [apply agree_uN; lia|]. intros sl.
  apply agree_rbind; [apply agree_uN; lia|]. intros kv.
  apply agree_rbind; [apply agree_workhours|]. intros w. apply agree_rret.
Qed.
Lemma agree_pdata f : agree (read_pdata flat_ops f) (read_pdata stream_ops f).
Proof. unfold read_pdata. cbn [r_bytes flat_ops stream_ops]. destruct f; agr. Qed.
Lemma agree_proxies f : agree (read_proxies flat_ops f) (read_proxies stream_ops f).
Proof. unfold read_proxies. apply agree_counted. apply agree_pdata. Qed.

(* readDeviceInfo over a stream = readDeviceInfo over the concatenated bytes, for every kind
   and every input (valid or not), whatever the split into non-empty short reads *)
Theorem read_info_agree k r : agree (read_info flat_ops k r) (read_info stream_ops k r).
Proof.
  unfold read_info. destruct (k =? infoProxy).
  { apply agree_rbind; [apply agree_proxies|]. intros p. apply agree_rret. }
  apply agree_rbind.
  { destruct (has_device k).
    - apply agree_rbind; [apply agree_machine|]. intros m. apply agree_rret.
    - destruct (k =? infoMigrate); [|apply agree_rret].
      apply agree_rbind; [apply agree_id|]. intros i. apply agree_rret. }
  intros r1. apply agree_rbind; [apply agree_settings|]. intros r2.
  destruct (infoRefresh <? k); [apply agree_rret|].
  apply agree_rbind; [apply agree_proxies|]. intros p.
  destruct (k =? infoMigrate); [|apply agree_rret].
  apply agree_rbind; [apply agree_keys|]. intros ks. apply agree_rret.
Qed.

(* a flat round trip is a stream round trip for every split *)
Lemma rt_stream {A} (f : rdr (list Z) A) (g : rdr src A) w a :
  agree f g -> rt f w a ->
  forall s rest, no_empty s -> concat s = w ++ rest ->
  exists s', g s = Ok (a, s') /\ concat s' = rest /\ no_empty s'.
Proof.
  intros Hag Hrt s rest Hs Hc. specialize (Hag s Hs). rewrite Hc, Hrt in Hag.
  destruct (g s) as [[a' s']| |]; try contradiction.
  destruct Hag as (<- & E & Hn). exists s'. repeat split; assumption.
Qed.

Theorem devinfo_roundtrip_stream k s r :
  wf k s = true ->
  forall sr rest, no_empty sr -> concat sr = write_info k s ++ rest ->
  exists sr', read_info stream_ops k r sr = Ok ((absorb k s r, carried_proxies k s), sr') /\
              concat sr' = rest /\ no_empty sr'.
Proof.
  intros H. apply rt_stream with (f := read_info flat_ops k r); [apply read_info_agree | apply devinfo_roundtrip_flat; exact H].
Qed.

(* component round trips through the stream reader *)
Theorem machine_roundtrip_stream m : wf_machine m = true ->
  forall sr rest, no_empty sr -> concat sr = write_machine m ++ rest ->
  exists sr', read_machine stream_ops sr = Ok (m, sr') /\ concat sr' = rest /\ no_empty sr'.
Proof. intros H. apply rt_stream with (f := read_machine flat_ops); [apply agree_machine | apply rt_machine; exact H]. Qed.
Theorem keys_roundtrip_stream k : wf_keys k = true ->
  forall sr rest, no_empty sr -> concat sr = write_keys k ++ rest ->
  exists sr', read_keys stream_ops sr = Ok (k, sr') /\ concat sr' = rest /\ no_empty sr'.
Proof. intros H. apply rt_stream with (f := read_keys flat_ops); [apply agree_keys | apply rt_keys; exact H]. Qed.
Theorem workhours_roundtrip_stream w : wf_workhours w = true ->
  forall sr rest, no_empty sr -> concat sr = write_workhours w ++ rest ->
  exists sr', read_workhours stream_ops sr = Ok (w, sr') /\ concat sr' = rest /\ no_empty sr'.
Proof. intros H. apply rt_stream with (f := read_workhours flat_ops); [apply agree_workhours | apply rt_workhours; exact H]. Qed.

(* ---- what "unchanged" means: the wire's normalisations ------------------------------------ *)
Lemma i64_range x : -9223372036854775808 <= i64 x < 9223372036854775808.
Proof.
  unfold i64, sgn. cbv zeta. change (2 ^ 64) with 18446744073709551616.
  change (18446744073709551616 / 2) with 9223372036854775808.
  destruct (x mod 18446744073709551616 <? 9223372036854775808) eqn:E; lia.
Qed.
Lemma i8_small v : 0 <= v < 128 -> i8 v = v.
Proof.
  intros H. unfold i8, sgn. cbv zeta. change (2 ^ 8) with 256. rewrite Z.mod_small by lia.
  change (256 / 2) with 128. replace (v <? 128) with true by lia. reflexivity.
Qed.

(* the kill date travels as Unix seconds with 0 = none: one-second resolution, and both the zero
   Time and Unix second 0 arrive as "none" *)
Lemma norm_kill_spec t : wf_time t = true ->
  norm_kill t = if is_zero_time t || (t_sec t =? 0) then zero_time else mkTime (t_sec t) 0.
Proof.
  unfold wf_time. intros H. bools. unfold norm_kill, kill_wire, kill_of_wire.
  destruct (is_zero_time t); cbn [orb]; [reflexivity|].
  rewrite i64_u64 by lia. reflexivity.
Qed.
Lemma norm_kill_exact t : wf_time t = true -> exact_kill t = true -> norm_kill t = t.
Proof.
  intros Hw He. rewrite norm_kill_spec by exact Hw. unfold exact_kill in He.
  destruct t as [sec ns]. unfold is_zero_time in *. cbn [t_sec t_nsec] in *.
  destruct ((sec =? zeroUnix) && (ns =? 0)) eqn:Ez; cbn [orb] in *.
  - apply andb_true_iff in Ez. destruct Ez as [E1 E2]. apply Z.eqb_eq in E1, E2. subst. reflexivity.
  - apply andb_true_iff in He. destruct He as [E1 E2]. apply Z.eqb_eq in E1. subst ns.
    destruct (sec =? 0); [discriminate | reflexivity].
Qed.
Lemma exact_kill_of_wire v : exact_kill (kill_of_wire v) = true.
Proof.
  unfold kill_of_wire, exact_kill. destruct (v =? 0) eqn:E; [reflexivity|].
  unfold is_zero_time. cbn [t_sec t_nsec]. rewrite E. cbn. apply orb_true_r.
Qed.
Lemma wf_kill_of_wire x : wf_time (kill_of_wire (i64 x)) = true.
Proof.
  unfold kill_of_wire, wf_time. pose proof (i64_range x). destruct (i64 x =? 0); [reflexivity|].
  cbn [t_sec t_nsec]. unfold is_i64. lia.
Qed.
Lemma norm_work_exact w : exact_work w = true -> norm_work_opt w = w.
Proof.
  destruct w as [w|]; [|reflexivity]. cbn [exact_work norm_work_opt]. unfold norm_work.
  destruct (work_empty w); [discriminate | reflexivity].
Qed.
Lemma exact_norm_work w : exact_work (norm_work w) = true.
Proof. unfold norm_work. destruct (work_empty w) eqn:E; cbn [exact_work]; [reflexivity | rewrite E; reflexivity]. Qed.

(* what the receiver holds after a message of kind k (not the proxy update, which carries no settings) *)
Theorem absorbed_settings k s r : k <> infoProxy ->
  let r' := absorb k s r in
  s_jitter r' = s_jitter s /\ s_sleep r' = s_sleep s /\
  s_kill r' = norm_kill (s_kill s) /\ s_work r' = norm_work_opt (s_work s).
Proof.
  intros Hk. unfold absorb. replace (k =? infoProxy) with false by lia.
  destruct (k =? infoMigrate); repeat split; reflexivity.
Qed.
Theorem absorbed_settings_exact k s r : k <> infoProxy -> wf_settings s = true -> exact_settings s = true ->
  let r' := absorb k s r in
  s_jitter r' = s_jitter s /\ s_sleep r' = s_sleep s /\ s_kill r' = s_kill s /\ s_work r' = s_work s.
Proof.
  intros Hk Hw He. destruct (absorbed_settings k s r Hk) as (A & B & C & D). cbv zeta.
  unfold wf_settings in Hw. unfold exact_settings in He. bools.
  rewrite A, B, C, D, norm_kill_exact, norm_work_exact by assumption. repeat split.
Qed.
Theorem absorbed_identity k s r :
  let r' := absorb k s r in
  (has_device k = true -> s_dev r' = s_dev s) /\
  (k = infoMigrate -> s_id r' = s_id s /\ s_keys r' = s_keys s) /\
  (has_device k = false -> s_dev r' = s_dev r) /\
  (k <> infoMigrate -> s_id r' = s_id r /\ s_keys r' = s_keys r).
Proof.
  cbv zeta. unfold absorb. destruct (k =? infoProxy) eqn:Ep.
  { assert (k = infoProxy) by lia. subst k. repeat split; try reflexivity; try discriminate. }
  destruct (k =? infoMigrate) eqn:Em.
  - assert (k = infoMigrate) by lia. subst k. cbn. repeat split; try reflexivity; try discriminate; congruence.
  - destruct (has_device k); repeat split; try reflexivity; try discriminate; lia.
Qed.

(* ---- part 3: MvTime ------------------------------------------------------------------------ *)
Definition wf_order (o : order) : bool :=
  match o with
  | OSetDuration t _ | OTaskDuration t _ => is_i64 t
  | OSetKill k | OTaskKill k => wf_time k
  | OSetWork w => wf_work w
  | OTaskWork w => wf_workhours w
  end.

(* the client's settings after the order, in terms of what the SERVER's view held (SetDuration sends
   the server's resulting jitter and sleep, not the arguments) *)
Definition effect (srv c : session) (o : order) : session :=
  match o with
  | OSetDuration t j =>
    let jit := if j =? -1 then s_jitter srv else order_jitter j in
    let sl := if 0 <? t then t else s_sleep srv in
    set_duration c (clamp_jitter (s_jitter c) (i8 jit)) (if 0 <? sl then sl else s_sleep c)
  | _ => apply_order c o
  end.

Lemma client_time_duration c jb d0 : 0 <= jb < 256 -> 0 <= d0 < 18446744073709551616 ->
  client_time c ([0; jb] ++ enc_u64 d0) =
  Ok (set_duration c (clamp_jitter (s_jitter c) (i8 jb)) (if 0 <? i64 d0 then i64 d0 else s_sleep c),
      write_info infoSync (set_duration c (clamp_jitter (s_jitter c) (i8 jb)) (if 0 <? i64 d0 then i64 d0 else s_sleep c))).
Proof.
  intros Hj Hd. unfold client_time. cbn [app rd_u8 bind].
  change (0 =? timeSleepJitter) with true. cbn [app rd_u8 bind].
  rewrite <- (app_nil_r (enc_u64 d0)), rd_u64_enc by lia. cbn [bind]. reflexivity.
Qed.
Lemma client_time_kill c kw : 0 <= kw < 18446744073709551616 ->
  client_time c (enc_u8 timeKillDate ++ enc_u64 kw) =
  Ok (set_kill c (kill_of_wire (i64 kw)), write_info infoSync (set_kill c (kill_of_wire (i64 kw)))).
Proof.
  intros Hk. unfold client_time. change (enc_u8 timeKillDate) with [1]. cbn [app rd_u8 bind].
  change (1 =? timeSleepJitter) with false. change (1 =? timeKillDate) with true. cbn [bind].
  rewrite <- (app_nil_r (enc_u64 kw)), rd_u64_enc by lia. cbn [bind]. reflexivity.
Qed.
Lemma client_time_work c w body : rt (read_workhours flat_ops) body w ->
  client_time c (enc_u8 timeWorkHours ++ body) =
  Ok (set_work c (norm_work w), write_info infoSync (set_work c (norm_work w))).
Proof.
  intros Hb. unfold client_time. change (enc_u8 timeWorkHours) with [2]. cbn [app rd_u8 bind].
  change (2 =? timeSleepJitter) with false. change (2 =? timeKillDate) with false.
  change (2 =? timeWorkHours) with true. cbn [bind].
  rewrite <- (app_nil_r body), Hb. cbn [bind]. reflexivity.
Qed.

Lemma be16_small v : 0 <= v < 256 -> enc_u16 (u16 v) = [0; v].
Proof. intros H. unfold enc_u16, be16, u16, u8. f_equal; [lia|]. f_equal. lia. Qed.
Lemma be16_tag2 d : 0 <= d < 256 -> enc_u16 (u16 (Z.lor 512 (Z.land d 255))) = [2; d].
Proof.
  intros H. change 255 with (2 ^ 8 - 1). rewrite land_ones_mod by lia. change (2 ^ 8) with 256.
  rewrite Z.mod_small by lia. change 512 with (Z.shiftl 2 8). rewrite lor_shiftl_add by (change (2 ^ 8) with 256; lia).
  change (2 ^ 8) with 256. unfold enc_u16, be16, u16, u8. f_equal; [lia|]. f_equal. lia.
Qed.

Lemma order_jitter_range j : 0 <= order_jitter j <= 100.
Proof. unfold order_jitter. destruct (j <? 0) eqn:A; [lia|]. destruct (100 <? j) eqn:B; lia. Qed.
Lemma clamp_in_domain cur v : 0 <= v <= 100 -> clamp_jitter cur (i8 v) = v.
Proof.
  intros H. rewrite i8_small by lia. unfold clamp_jitter.
  replace (v =? -1) with false by lia. replace (100 <? v) with false by lia. replace (v <? 0) with false by lia. reflexivity.
Qed.

Lemma ok_pair_inv {A B} (a a' : A) (b b' : B) : Ok (a, b) = Ok (a', b') -> a = a' /\ b = b'.
Proof. intros H. injection H. auto. Qed.

(* the client handler on the packet the server setter built *)
Theorem client_handles_order srv cli o srv1 pkt :
  wf_settings srv = true -> wf_order o = true -> server_set srv o = Ok (srv1, pkt) ->
  client_time cli pkt = Ok (effect srv cli o, write_info infoSync (effect srv cli o)).
Proof.
  unfold wf_settings. intros Hs Ho Hset. bools.
  destruct o as [t j|k|[w|]|d j|k|w]; cbv beta iota zeta delta [server_set wf_order] in Hset, Ho; bools.
  - (* SetDuration *)
    apply ok_pair_inv in Hset; destruct Hset as [<- <-].
    set (jit := if j =? -1 then s_jitter srv else if j <? 0 then 0 else if 100 <? j then 100 else u8 j).
    set (sl := if 0 <? t then t else s_sleep srv).
    assert (Ej : jit = if j =? -1 then s_jitter srv else order_jitter j).
    { subst jit. unfold order_jitter. destruct (j =? -1); [reflexivity|]. destruct (j <? 0) eqn:A; [reflexivity|].
      destruct (100 <? j) eqn:B; [reflexivity|]. apply u8_small. lia. }
    assert (Hj : 0 <= jit < 256).
    { rewrite Ej. destruct (j =? -1); [lia|]. pose proof (order_jitter_range j). lia. }
    assert (Hsl : -9223372036854775808 <= sl < 9223372036854775808) by (subst sl; destruct (0 <? t); lia).
    rewrite be16_small by exact Hj. rewrite client_time_duration by (try apply u64_range; exact Hj).
    rewrite i64_u64 by exact Hsl. cbn [effect]. cbv zeta. rewrite <- Ej. reflexivity.
  - (* SetKillDate *)
    apply ok_pair_inv in Hset; destruct Hset as [<- <-].
    rewrite client_time_kill by (unfold kill_wire; destruct (is_zero_time k); [lia | apply u64_range]). reflexivity.
  - (* SetWorkHours w *)
    destruct (work_empty w) eqn:Ee.
    + apply ok_pair_inv in Hset; destruct Hset as [<- <-]. change clear_work_packet with (enc_u8 timeWorkHours ++ write_work None).
      rewrite (client_time_work cli _ _ rt_work_none). cbn [effect apply_order].
      replace (norm_work w) with (@None workhours) by (unfold norm_work; rewrite Ee; reflexivity). reflexivity.
    + destruct (work_verify w); cbn [negb] in Hset; [|discriminate]. apply ok_pair_inv in Hset; destruct Hset as [<- <-].
      rewrite (client_time_work cli w) by (apply rt_workhours; assumption). reflexivity.
  - (* SetWorkHours nil *)
    apply ok_pair_inv in Hset; destruct Hset as [<- <-]. change clear_work_packet with (enc_u8 timeWorkHours ++ write_work None).
    rewrite (client_time_work cli _ _ rt_work_none). reflexivity.
  - (* task.Duration *)
    apply ok_pair_inv in Hset; destruct Hset as [<- <-]. cbv zeta.
    destruct (j =? -1) eqn:E1.
    + assert (j = -1) by lia. subst j. change (Z.land (-1) 255) with 255. rewrite be16_small by lia.
      rewrite client_time_duration by (try apply u64_range; lia). rewrite i64_u64 by lia.
      cbn [effect apply_order]. change (i8 255) with (-1). reflexivity.
    + assert (Hoj : (if j <? 0 then 0 else if 100 <? j then 100 else j) = order_jitter j) by reflexivity.
      rewrite Hoj. pose proof (order_jitter_range j) as Hr.
      change 255 with (2 ^ 8 - 1). rewrite land_ones_mod by lia. change (2 ^ 8) with 256.
      rewrite Z.mod_small by lia. rewrite be16_small by lia.
      rewrite client_time_duration by (try apply u64_range; lia). rewrite i64_u64 by lia.
      cbn [effect apply_order]. rewrite E1. rewrite clamp_in_domain by exact Hr. reflexivity.
  - (* task.KillDate *)
    apply ok_pair_inv in Hset; destruct Hset as [<- <-].
    rewrite client_time_kill by (unfold kill_wire; destruct (is_zero_time k); [lia | apply u64_range]). reflexivity.
  - (* task.WorkHours *)
    apply ok_pair_inv in Hset; destruct Hset as [<- <-]. unfold wf_workhours in Ho. bools.
    rewrite be16_tag2 by lia.
    change ([2; w_days w] ++ enc_u8 (w_sh w) ++ enc_u8 (w_sm w) ++ enc_u8 (w_eh w) ++ enc_u8 (w_em w))
      with (enc_u8 timeWorkHours ++ [w_days w] ++ enc_u8 (w_sh w) ++ enc_u8 (w_sm w) ++ enc_u8 (w_eh w) ++ enc_u8 (w_em w)).
    rewrite (client_time_work cli w); [reflexivity|].
    eapply rt_eq; [|apply rt_workhours; unfold wf_workhours, is_u8; lia].
    unfold write_workhours, enc_u8 at 1. rewrite u8_small by lia. reflexivity.
Qed.

(* with the views in sync and the client's jitter a percentage, the order means apply_order *)
Lemma effect_synced srv cli o :
  (match o with OSetDuration _ _ => s_jitter srv = s_jitter cli /\ s_sleep srv = s_sleep cli /\ 0 <= s_jitter cli <= 100 | _ => True end) ->
  effect srv cli o = apply_order cli o.
Proof.
  destruct o as [t j|k|w|d j|k|w]; try reflexivity. intros (Ej & Es & Hr). cbn [effect apply_order]. cbv zeta.
  rewrite Ej, Es. f_equal.
  - destruct (j =? -1); [apply clamp_in_domain; exact Hr | apply clamp_in_domain; apply order_jitter_range].
  - destruct (0 <? t) eqn:E; [rewrite E; reflexivity|]. destruct (0 <? s_sleep cli); reflexivity.
Qed.

Lemma clamp_u8 cur x : 0 <= cur < 256 -> 0 <= clamp_jitter cur (i8 x) < 256.
Proof.
  intros H. unfold clamp_jitter. destruct (i8 x =? -1); [lia|]. destruct (100 <? i8 x); [lia|].
  destruct (i8 x <? 0) eqn:E; [lia|].
  assert (i8 x < 128); [|lia]. unfold i8, sgn. cbv zeta. change (2 ^ 8) with 256. change (256 / 2) with 128.
  destruct (x mod 256 <? 128) eqn:F; lia.
Qed.

Lemma wf_settings_intro r j sl k w :
  0 <= j < 256 -> -9223372036854775808 <= sl < 9223372036854775808 -> wf_time k = true -> wf_work w = true ->
  wf_settings (set_settings r j sl k w) = true.
Proof.
  intros Hj Hs Hk Hw. unfold wf_settings, set_settings. cbn [s_jitter s_sleep s_kill s_work].
  rewrite Hk, Hw. unfold is_u8, is_i64. lia.
Qed.

Lemma wf_effect srv cli o :
  wf_settings srv = true -> wf_settings cli = true -> wf_order o = true -> wf_settings (effect srv cli o) = true.
Proof.
  unfold wf_settings at 1 2. intros Hs Hc Ho. bools.
  assert (Hnk : forall k, wf_time (norm_kill k) = true) by (intros k; apply wf_kill_of_wire).
  assert (Hnw : forall w, wf_workhours w = true -> wf_work (norm_work w) = true).
  { intros w Hw. unfold norm_work. destruct (work_empty w); [reflexivity | exact Hw]. }
  destruct o as [t j|k|[w|]|d j|k|w]; cbn [effect apply_order wf_order] in *; cbv zeta;
    unfold set_duration, set_kill, set_work; bools; apply wf_settings_intro; try assumption; try lia;
    try apply Hnk; try (apply Hnw; assumption); try reflexivity.
  - apply clamp_u8. lia.
  - destruct (0 <? t); [destruct (0 <? t); lia|]. destruct (0 <? s_sleep srv); lia.
  - destruct (j =? -1); [lia|]. pose proof (order_jitter_range j). lia.
  - destruct (0 <? d); lia.
Qed.

Lemma wf_sync s : wf_settings s = true -> wf infoSync s = true.
Proof.
  intros H. unfold wf. change (is_kind infoSync) with true. change (infoSync =? infoProxy) with false.
  change (has_device infoSync) with false. change (infoSync =? infoMigrate) with false.
  change (carries_proxy infoSync) with false. cbn [andb]. rewrite H. reflexivity.
Qed.

(* the whole exchange: setter, client handler, echo, handleInfoResult *)
Theorem exchange_spec srv cli o pkt cli1 srv2 :
  wf_settings srv = true -> wf_settings cli = true -> wf_order o = true ->
  exchange srv cli o = Ok (pkt, cli1, srv2) ->
  cli1 = effect srv cli o /\
  exists srv1, server_set srv o = Ok (srv1, pkt) /\ srv2 = absorb infoSync cli1 srv1.
Proof.
  intros Hs Hc Ho He. unfold exchange in He.
  destruct (server_set srv o) as [[srv1 p]| |] eqn:Eset; cbn [bind] in He; try discriminate.
  rewrite (client_handles_order srv cli o srv1 p Hs Ho Eset) in He. cbn [bind] in He.
  unfold server_absorb in He.
  assert (Hw : wf infoSync (effect srv cli o) = true) by (apply wf_sync; apply (wf_effect srv cli o Hs Hc Ho)).
  pose proof (devinfo_roundtrip_flat infoSync (effect srv cli o) srv1 Hw []) as Hr. rewrite app_nil_r in Hr.
  rewrite Hr in He. cbn [bind fst] in He. injection He as <- <- <-.
  split; [reflexivity|]. exists srv1. split; reflexivity.
Qed.

(* ... and it always completes, except when SetWorkHours refuses hours that fail Verify *)
Theorem exchange_completes srv cli o :
  wf_settings srv = true -> wf_settings cli = true -> wf_order o = true ->
  (forall w, o = OSetWork (Some w) -> work_empty w = true \/ work_verify w = true) ->
  exists pkt cli1 srv2, exchange srv cli o = Ok (pkt, cli1, srv2).
Proof.
  intros Hs Hc Ho Hv.
  assert (Hset : exists srv1 p, server_set srv o = Ok (srv1, p)).
  { destruct o as [t j|k|[w|]|d j|k|w]; cbn [server_set]; eauto.
    destruct (Hv w eq_refl) as [E|E]; rewrite E; [eauto|]. destruct (work_empty w); cbn [negb]; eauto. }
  destruct Hset as (srv1 & p & Eset). unfold exchange. rewrite Eset. cbn [bind].
  rewrite (client_handles_order srv cli o srv1 p Hs Ho Eset). cbn [bind]. unfold server_absorb.
  assert (Hw : wf infoSync (effect srv cli o) = true) by (apply wf_sync; apply (wf_effect srv cli o Hs Hc Ho)).
  pose proof (devinfo_roundtrip_flat infoSync (effect srv cli o) srv1 Hw []) as Hr. rewrite app_nil_r in Hr.
  rewrite Hr. cbn [bind fst]. eauto.
Qed.

Theorem settime_takes_effect srv cli o pkt cli1 srv2 :
  wf_settings srv = true -> wf_settings cli = true -> wf_order o = true ->
  (match o with OSetDuration _ _ => s_jitter srv = s_jitter cli /\ s_sleep srv = s_sleep cli /\ 0 <= s_jitter cli <= 100 | _ => True end) ->
  exchange srv cli o = Ok (pkt, cli1, srv2) ->
  cli1 = apply_order cli o.
Proof.
  intros Hs Hc Ho Hsync He. destruct (exchange_spec _ _ _ _ _ _ Hs Hc Ho He) as (-> & _). apply effect_synced. exact Hsync.
Qed.

(* the server's view after absorbing the echo: the client's settings as the wire carries them *)
Theorem server_view_after srv cli o pkt cli1 srv2 :
  wf_settings srv = true -> wf_settings cli = true -> wf_order o = true ->
  exchange srv cli o = Ok (pkt, cli1, srv2) ->
  s_jitter srv2 = s_jitter cli1 /\ s_sleep srv2 = s_sleep cli1 /\
  s_kill srv2 = norm_kill (s_kill cli1) /\ s_work srv2 = norm_work_opt (s_work cli1).
Proof.
  intros Hs Hc Ho He. destruct (exchange_spec _ _ _ _ _ _ Hs Hc Ho He) as (_ & srv1 & _ & ->).
  apply (absorbed_settings infoSync cli1 srv1). discriminate.
Qed.

Lemma exact_effect srv cli o : exact_settings cli = true -> exact_settings (effect srv cli o) = true.
Proof.
  unfold exact_settings. intros H. bools.
  destruct o as [t j|k|[w|]|d j|k|w]; cbn [effect apply_order]; cbv zeta;
    unfold set_duration, set_kill, set_work, set_settings; cbn [s_kill s_work];
    apply andb_true_iff; split; try assumption; try apply exact_kill_of_wire; try apply exact_norm_work; reflexivity.
Qed.

Lemma settings_eqb_intro a b :
  s_jitter a = s_jitter b -> s_sleep a = s_sleep b -> s_kill a = s_kill b -> s_work a = s_work b -> settings_eqb a b = true.
Proof.
  intros E1 E2 E3 E4. unfold settings_eqb. rewrite E1, E2, E3, E4, !Z.eqb_refl. cbn [andb].
  destruct (s_work b); [rewrite !Z.eqb_refl|]; reflexivity.
Qed.

Theorem server_view_equals_client srv cli o pkt cli1 srv2 :
  wf_settings srv = true -> wf_settings cli = true -> wf_order o = true -> exact_settings cli = true ->
  exchange srv cli o = Ok (pkt, cli1, srv2) ->
  settings_eqb srv2 cli1 = true.
Proof.
  intros Hs Hc Ho Hx He. destruct (server_view_after _ _ _ _ _ _ Hs Hc Ho He) as (A & B & C & D).
  destruct (exchange_spec _ _ _ _ _ _ Hs Hc Ho He) as (E & _).
  assert (Hw : wf_settings cli1 = true) by (rewrite E; apply wf_effect; assumption).
  assert (Hx1 : exact_settings cli1 = true) by (rewrite E; apply exact_effect; assumption).
  unfold wf_settings in Hw. unfold exact_settings in Hx1. bools.
  apply settings_eqb_intro; [exact A | exact B | rewrite C; apply norm_kill_exact; assumption | rewrite D; apply norm_work_exact; assumption].
Qed.

(* values in the documented domain are applied EXACTLY, on the client and in the server's view,
   whatever the two views held before (no synchronisation hypothesis) *)
Definition ordered_exactly (o : order) (c s : session) : Prop :=
  match o with
  | OSetDuration t j | OTaskDuration t j =>
    (0 <= j <= 100 -> s_jitter c = j /\ s_jitter s = j) /\ (0 < t -> s_sleep c = t /\ s_sleep s = t)
  | OSetKill k | OTaskKill k => exact_kill k = true -> s_kill c = k /\ s_kill s = k
  | OSetWork w => exact_work w = true -> s_work c = w /\ s_work s = w
  | OTaskWork w => work_empty w = false -> s_work c = Some w /\ s_work s = Some w
  end.

Theorem ordered_values_applied_exactly srv cli o pkt cli1 srv2 :
  wf_settings srv = true -> wf_settings cli = true -> wf_order o = true ->
  exchange srv cli o = Ok (pkt, cli1, srv2) ->
  ordered_exactly o cli1 srv2.
Proof.
  intros Hs Hc Ho He. destruct (server_view_after _ _ _ _ _ _ Hs Hc Ho He) as (A & B & C & D).
  destruct (exchange_spec _ _ _ _ _ _ Hs Hc Ho He) as (E & _).
  clear He.
  destruct o as [t j|k|w|d j|k|w]; cbn [ordered_exactly];
    [rewrite A, B | rewrite C | rewrite D | rewrite A, B | rewrite C | rewrite D]; clear A B C D; subst cli1;
    cbn [effect apply_order wf_order] in *; cbv zeta;
    unfold set_duration, set_kill, set_work, set_settings; cbn [s_jitter s_sleep s_kill s_work].
  - split.
    + intros Hj. replace (j =? -1) with false by lia. unfold order_jitter.
      replace (j <? 0) with false by lia. replace (100 <? j) with false by lia. rewrite clamp_in_domain by lia. split; reflexivity.
    + intros Ht. replace (0 <? t) with true by lia. replace (0 <? t) with true by lia. split; reflexivity.
  - intros Hk. assert (E : norm_kill k = k) by (apply norm_kill_exact; assumption). rewrite !E. split; reflexivity.
  - intros Hw. destruct w as [w|]; cbn [s_work norm_work_opt]; [|split; reflexivity]. cbn [exact_work] in Hw.
    assert (E : norm_work w = Some w) by (unfold norm_work; destruct (work_empty w); [discriminate | reflexivity]).
    rewrite E. cbn [norm_work_opt]. rewrite E. split; reflexivity.
  - split.
    + intros Hj. replace (j =? -1) with false by lia. unfold order_jitter.
      replace (j <? 0) with false by lia. replace (100 <? j) with false by lia. split; reflexivity.
    + intros Ht. replace (0 <? d) with true by lia. split; reflexivity.
  - intros Hk. assert (E : norm_kill k = k) by (apply norm_kill_exact; assumption). rewrite !E. split; reflexivity.
  - intros Hw. assert (E : norm_work w = Some w) by (unfold norm_work; rewrite Hw; reflexivity).
    rewrite E. cbn [norm_work_opt]. rewrite E. split; reflexivity.
Qed.

(* ---- statements in their final form ------------------------------------------------------- *)
(* the bytes w, followed by anything, are read back as a by the packet reader AND by the stream
   reader over every split of the bytes into non-empty short reads; both leave exactly the rest *)
Definition reads_back {A} (flat : rdr (list Z) A) (stream : rdr src A) (w : list Z) (a : A) : Prop :=
  (forall rest, flat (w ++ rest) = Ok (a, rest)) /\
  (forall sr rest, no_empty sr -> concat sr = w ++ rest ->
     exists sr', stream sr = Ok (a, sr') /\ concat sr' = rest /\ no_empty sr').

Lemma reads_back_intro {A} (f : rdr (list Z) A) (g : rdr src A) w a : agree f g -> rt f w a -> reads_back f g w a.
Proof. intros Hag Hrt. split; [exact Hrt | apply rt_stream with (f := f); assumption]. Qed.

Theorem address_roundtrip a : wf_addr a = true -> reads_back (read_addr flat_ops) (read_addr stream_ops) (write_addr a) a.
Proof. intros H. apply reads_back_intro; [apply agree_addr | apply rt_addr; exact H]. Qed.
Theorem netdev_roundtrip d : wf_dev d = true -> reads_back (read_dev flat_ops) (read_dev stream_ops) (write_dev d) d.
Proof. intros H. apply reads_back_intro; [apply agree_dev | apply rt_dev; exact H]. Qed.
Theorem network_roundtrip n : len n <= 255 -> forallb wf_dev n = true ->
  reads_back (read_counted flat_ops (read_dev flat_ops)) (read_counted stream_ops (read_dev stream_ops)) (write_net n) n.
Proof. intros Hl H. apply reads_back_intro; [apply agree_counted; apply agree_dev | apply rt_net; assumption]. Qed.
Theorem machine_roundtrip m : wf_machine m = true -> reads_back (read_machine flat_ops) (read_machine stream_ops) (write_machine m) m.
Proof. intros H. apply reads_back_intro; [apply agree_machine | apply rt_machine; exact H]. Qed.
Theorem workhours_roundtrip w : wf_workhours w = true ->
  reads_back (read_workhours flat_ops) (read_workhours stream_ops) (write_workhours w) w.
Proof. intros H. apply reads_back_intro; [apply agree_workhours | apply rt_workhours; exact H]. Qed.
Theorem keypair_roundtrip k : wf_keys k = true -> reads_back (read_keys flat_ops) (read_keys stream_ops) (write_keys k) k.
Proof. intros H. apply reads_back_intro; [apply agree_keys | apply rt_keys; exact H]. Qed.

Theorem devinfo_roundtrip k s r : wf k s = true ->
  reads_back (read_info flat_ops k r) (read_info stream_ops k r) (write_info k s) (absorb k s r, carried_proxies k s).
Proof. intros H. apply reads_back_intro; [apply read_info_agree | apply devinfo_roundtrip_flat; exact H]. Qed.

(* the six kinds with their hypotheses and results spelled out *)
Lemma wf_intro_and a b : a = true -> b = true -> a && b = true.
Proof. intros -> ->. reflexivity. Qed.

Theorem devinfo_roundtrip_hello s r :
  wf_machine (s_dev s) = true -> wf_settings s = true -> s_client s = true -> wf_proxy_opt (s_proxy s) = true ->
  reads_back (read_info flat_ops infoHello r) (read_info stream_ops infoHello r) (write_info infoHello s)
             (absorb_settings s (set_dev r (s_dev s)), proxies_of true s).
Proof.
  intros Hm Hs Hc Hp. apply (devinfo_roundtrip infoHello s r). unfold wf.
  change (is_kind infoHello) with true. change (infoHello =? infoProxy) with false. change (has_device infoHello) with true.
  change (carries_proxy infoHello) with true. change (infoHello =? infoMigrate) with false.
  rewrite Hm, Hs, Hc, Hp. reflexivity.
Qed.
Theorem devinfo_roundtrip_refresh s r :
  wf_machine (s_dev s) = true -> wf_settings s = true -> s_client s = true -> wf_proxy_opt (s_proxy s) = true ->
  reads_back (read_info flat_ops infoRefresh r) (read_info stream_ops infoRefresh r) (write_info infoRefresh s)
             (absorb_settings s (set_dev r (s_dev s)), proxies_of true s).
Proof.
  intros Hm Hs Hc Hp. apply (devinfo_roundtrip infoRefresh s r). unfold wf.
  change (is_kind infoRefresh) with true. change (infoRefresh =? infoProxy) with false. change (has_device infoRefresh) with true.
  change (carries_proxy infoRefresh) with true. change (infoRefresh =? infoMigrate) with false.
  rewrite Hm, Hs, Hc, Hp. reflexivity.
Qed.
Theorem devinfo_roundtrip_syncmigrate s r :
  wf_machine (s_dev s) = true -> wf_settings s = true ->
  reads_back (read_info flat_ops infoSyncMigrate r) (read_info stream_ops infoSyncMigrate r) (write_info infoSyncMigrate s)
             (absorb_settings s (set_dev r (s_dev s)), []).
Proof.
  intros Hm Hs. apply (devinfo_roundtrip infoSyncMigrate s r). unfold wf.
  change (is_kind infoSyncMigrate) with true. change (infoSyncMigrate =? infoProxy) with false.
  change (has_device infoSyncMigrate) with true. change (carries_proxy infoSyncMigrate) with false.
  change (infoSyncMigrate =? infoMigrate) with false. rewrite Hm, Hs. reflexivity.
Qed.
Theorem devinfo_roundtrip_sync s r :
  wf_settings s = true ->
  reads_back (read_info flat_ops infoSync r) (read_info stream_ops infoSync r) (write_info infoSync s) (absorb_settings s r, []).
Proof. intros Hs. apply (devinfo_roundtrip infoSync s r). apply wf_sync. exact Hs. Qed.
Theorem devinfo_roundtrip_proxy s r :
  s_client s = true -> wf_proxy_opt (s_proxy s) = true ->
  reads_back (read_info flat_ops infoProxy r) (read_info stream_ops infoProxy r) (write_info infoProxy s) (r, proxies_of false s).
Proof.
  intros Hc Hp. apply (devinfo_roundtrip infoProxy s r). unfold wf.
  change (is_kind infoProxy) with true. change (infoProxy =? infoProxy) with true. rewrite Hc, Hp. reflexivity.
Qed.
Theorem devinfo_roundtrip_migrate s r :
  wf_id (s_id s) = true -> wf_settings s = true -> s_client s = true -> wf_proxy_opt (s_proxy s) = true -> wf_keys (s_keys s) = true ->
  reads_back (read_info flat_ops infoMigrate r) (read_info stream_ops infoMigrate r) (write_info infoMigrate s)
             (set_keys (absorb_settings s (set_id r (s_id s))) (s_keys s), proxies_of true s).
Proof.
  intros Hi Hs Hc Hp Hk. apply (devinfo_roundtrip infoMigrate s r). unfold wf.
  change (is_kind infoMigrate) with true. change (infoMigrate =? infoProxy) with false. change (has_device infoMigrate) with false.
  change (carries_proxy infoMigrate) with true. change (infoMigrate =? infoMigrate) with true.
  rewrite Hi, Hs, Hc, Hp, Hk. reflexivity.
Qed.

(* the settings part of what every kind but the proxy update delivers *)
Theorem absorb_settings_fields s r :
  let r' := absorb_settings s r in
  s_jitter r' = s_jitter s /\ s_sleep r' = s_sleep s /\
  s_kill r' = norm_kill (s_kill s) /\ s_work r' = norm_work_opt (s_work s) /\
  s_id r' = s_id r /\ s_dev r' = s_dev r /\ s_keys r' = s_keys r.
Proof. cbv zeta. repeat split. Qed.

(* ---- the repaired defect, kept as a theorem about the OLD reader -----------------------------
   KeyPair.Unmarshal used ONE Read call per key array: a stream that delivers the 264 key bytes in
   two reads (1 + 263) is refused although the bytes are a well-formed key triple. *)
Definition old_keys_witness : keys := mkKeys (gen_bytes 133 1 1) (gen_bytes 66 2 1) (gen_bytes 65 3 1).
Lemma keys_single_read_refuted :
  exists k sr, wf_keys k = true /\ no_empty sr /\ concat sr = write_keys k /\
               read_keys_old sr = Err ErrUnexpectedEOF /\ read_keys stream_ops sr = Ok (k, []).
Proof.
  exists old_keys_witness, [take 1 (write_keys old_keys_witness); drop 1 (write_keys old_keys_witness)].
  split; [vm_compute; reflexivity|]. split; [repeat constructor; discriminate|].
  split; [vm_compute; reflexivity|]. split; vm_compute; reflexivity.
Qed.

(* ---- non-vacuity: a concrete non-trivial session satisfies every hypothesis ------------------ *)
Definition ex_session : session :=
  mkSession (gen_bytes 32 7 3)
    (mkMachine (gen_bytes 32 9 5) 33 4242 1 [114;111;111;116] [76;105;110;117;120] (gen_bytes 300 65 1) 1 4097
       [mkDev [101;116;104;48] 2485377892354 [mkAddr 0 281473913978881; mkAddr 18338657682652659712 1]; mkDev [108;111] 0 []])
    37 60000000000 (mkTime 1790380800 0) (Some (mkWork 62 9 0 17 30))
    (mkKeys (gen_bytes 133 4 1) (gen_bytes 66 1 2) (gen_bytes 65 3 3)) true
    (Some (mkProxy [112;120] [49;50;55;46;48;46;48;46;49;58;56;48] [160;0;1;120] true)).
Definition ex_receiver : session :=
  mkSession (gen_bytes 32 1 0) (mkMachine (gen_bytes 32 1 0) 0 0 0 [] [] [] 0 0 []) 0 1 zero_time None
    (mkKeys (gen_bytes 133 0 0) (gen_bytes 66 0 0) (gen_bytes 65 0 0)) false None.
Lemma ex_session_wf :
  forallb (fun k => wf k ex_session) [0;1;2;3;4;5] = true /\ exact_settings ex_session = true /\
  wf_settings ex_receiver = true /\
  settings_eqb ex_session ex_receiver = false /\
  forallb (fun k => robs_eqb (robs_of len (read_info flat_ops k ex_receiver (write_info k ex_session ++ [238;0;1])))
                             (Ok (absorb k ex_session ex_receiver, carried_proxies k ex_session, 3))) [0;1;2;3;4;5] = true /\
  forallb (fun k => robs_eqb (robs_of src_len (read_info stream_ops k ex_receiver (split_bytes (SEach 1) (write_info k ex_session ++ [238;0;1]))))
                             (Ok (absorb k ex_session ex_receiver, carried_proxies k ex_session, 3))) [0;1;2;3;4;5] = true.
Proof. vm_compute. repeat split; reflexivity. Qed.
Lemma ex_order :
  wf_order (OSetDuration 30000000000 50) = true /\
  (exists pkt cli1 srv2, exchange ex_receiver ex_session (OSetDuration 30000000000 50) = Ok (pkt, cli1, srv2) /\
     s_jitter cli1 = 50 /\ s_sleep cli1 = 30000000000 /\ settings_eqb srv2 cli1 = true /\ settings_eqb cli1 ex_session = false) /\
  (exists pkt cli1 srv2, exchange ex_receiver ex_session (OSetWork (Some (mkWork 0 8 0 0 0))) = Ok (pkt, cli1, srv2) /\
     s_work cli1 = Some (mkWork 0 8 0 0 0) /\ settings_eqb srv2 cli1 = true) /\
  exchange ex_receiver ex_session (OSetWork (Some (mkWork 1 24 0 0 0))) = Err ErrVerify.
Proof.
  split; [reflexivity|]. split; [|split].
  - eexists _, _, _. split; [vm_compute; reflexivity|]. vm_compute. repeat split; reflexivity.
  - eexists _, _, _. split; [vm_compute; reflexivity|]. vm_compute. repeat split; reflexivity.
  - vm_compute. reflexivity.
Qed.

(* ---- part 4: histories of proxy operations --------------------------------------------------
   the proxy list a message carries is computed from the session's CURRENT proxy record; the record
   is state, changed by NewProxy / Replace / Close / the dropping of an inactive record *)
Fixpoint wf_pop (o : pop) : bool :=
  match o with
  | PAttach n a p => wf_bytes n && wf_bytes a && wf_bytes p
  | PReplace a p => wf_bytes a && wf_bytes p
  | PTask o' => wf_pop o'
  | _ => true
  end.

Lemma set_proxy_same s : set_proxy s (s_proxy s) = s.
Proof. destruct s. reflexivity. Qed.
Lemma set_proxy_twice s p q : set_proxy (set_proxy s p) q = set_proxy s q.
Proof. reflexivity. Qed.
Lemma pwrite_frame s k : pwrite s k = set_proxy s (s_proxy (pwrite s k)).
Proof.
  destruct s as [i d j sl kl w ks c [px|]]; unfold pwrite, set_proxy;
    cbn [s_id s_dev s_jitter s_sleep s_kill s_work s_keys s_client s_proxy];
    destruct (c && writes_proxy_list k); try reflexivity.
  destruct (p_active px); reflexivity.
Qed.
(* an operation changes nothing but the proxy record *)
Lemma run_pop_frame o : forall s, run_pop s o = set_proxy s (s_proxy (run_pop s o)).
Proof.
  induction o as [n a p|a p| |k|o IH]; intros s.
  - cbn [run_pop]. destruct (pop_ok s (PAttach n a p)); [reflexivity | symmetry; apply set_proxy_same].
  - destruct s as [i d j sl kl w ks c [px|]]; cbn [run_pop s_proxy]; [|reflexivity].
    destruct (p_active px); reflexivity.
  - destruct s as [i d j sl kl w ks c [px|]]; reflexivity.
  - apply pwrite_frame.
  - cbn [run_pop]. destruct (pop_ok s o); [|symmetry; apply set_proxy_same].
    rewrite pwrite_frame. rewrite (IH s) at 1. reflexivity.
Qed.

Lemma wf_pwrite s k : wf_proxy_opt (s_proxy s) = true -> wf_proxy_opt (s_proxy (pwrite s k)) = true.
Proof.
  intros H. unfold pwrite. destruct (s_client s && writes_proxy_list k); [|exact H].
  destruct (s_proxy s) as [px|] eqn:E; [|rewrite E; reflexivity].
  destruct (p_active px); [rewrite E; exact H | reflexivity].
Qed.
Lemma wf_run_pop_proxy o : forall s,
  wf_pop o = true -> wf_proxy_opt (s_proxy s) = true -> wf_proxy_opt (s_proxy (run_pop s o)) = true.
Proof.
  induction o as [n a p|a p| |k|o IH]; intros s Ho H; cbn [run_pop wf_pop] in *.
  - destruct (pop_ok s (PAttach n a p)); [|exact H]. cbn [set_proxy s_proxy wf_proxy_opt]. unfold wf_proxy. cbn [p_name p_addr p_prof]. exact Ho.
  - destruct s as [i d j sl kl w ks c [px|]]; cbn [s_proxy wf_proxy_opt] in *; [|reflexivity].
    destruct (p_active px); cbn [set_proxy s_proxy wf_proxy_opt]; [|exact H].
    unfold wf_proxy in *. cbn [p_name p_addr p_prof]. apply andb_true_iff in H. destruct H as [H _].
    apply andb_true_iff in H. destruct H as [H _]. rewrite H. exact Ho.
  - destruct s as [i d j sl kl w ks c [px|]]; cbn [s_proxy set_proxy wf_proxy_opt] in *; [|reflexivity]. exact H.
  - apply wf_pwrite. exact H.
  - destruct (pop_ok s o); [|exact H]. apply wf_pwrite. apply IH; assumption.
Qed.

Lemma wf_set_proxy k s p : wf k s = true -> wf_proxy_opt p = true -> wf k (set_proxy s p) = true.
Proof.
  intros H Hp. unfold wf in *. unfold wf_settings in *. unfold set_proxy.
  cbn [s_id s_dev s_jitter s_sleep s_kill s_work s_keys s_client s_proxy].
  destruct (is_kind k); [|discriminate]. cbn [andb] in *.
  destruct (k =? infoProxy).
  { apply andb_true_iff in H. destruct H as [Hc _]. rewrite Hc, Hp. reflexivity. }
  apply andb_true_iff in H. destruct H as [H Hkeys]. apply andb_true_iff in H. destruct H as [H Hprox].
  rewrite H, Hkeys. cbn [andb]. destruct (carries_proxy k); [|reflexivity].
  apply andb_true_iff in Hprox. destruct Hprox as [Hc _]. rewrite Hc, Hp. reflexivity.
Qed.

Lemma wf_run_pops h : forall k s, wf k s = true -> wf_proxy_opt (s_proxy s) = true -> forallb wf_pop h = true ->
  wf k (run_pops s h) = true /\ wf_proxy_opt (s_proxy (run_pops s h)) = true.
Proof.
  induction h as [|o h IH]; intros k s Hw Hp Hh; [split; assumption|].
  cbn [forallb] in Hh. apply andb_true_iff in Hh. destruct Hh as [Ho Hh].
  unfold run_pops. cbn [fold_left]. apply IH; [|apply wf_run_pop_proxy; assumption | exact Hh].
  rewrite run_pop_frame. apply wf_set_proxy; [exact Hw | apply wf_run_pop_proxy; assumption].
Qed.

(* after ANY history of proxy operations every kind is read back, by both readers over every split,
   with exactly the CURRENT proxy record's name / bind address / profile bytes (carried_proxies of
   the state the history leads to) *)
Theorem proxy_history_roundtrip k s h r :
  wf k s = true -> wf_proxy_opt (s_proxy s) = true -> forallb wf_pop h = true ->
  reads_back (read_info flat_ops k r) (read_info stream_ops k r) (write_info k (run_pops s h))
             (absorb k (run_pops s h) r, carried_proxies k (run_pops s h)).
Proof. intros Hw Hp Hh. apply devinfo_roundtrip. apply (wf_run_pops h k s Hw Hp Hh). Qed.

(* what the current record is after each operation *)
Theorem proxies_after_attach f s n a p :
  s_client s = true -> s_proxy s = None ->
  proxies_of f (run_pop s (PAttach n a p)) = [mkPData n a (if f then p else [])] /\
  proxies_of f (run_pop s (PTask (PAttach n a p))) = [mkPData n a (if f then p else [])].
Proof.
  intros Hc Hn. cbn [run_pop pop_ok]. rewrite Hc, Hn. cbn [andb]. split; [reflexivity|].
  unfold pwrite. cbn [set_proxy s_client s_proxy]. rewrite Hc. reflexivity.
Qed.
(* Replace: the name stays, the address AND the profile are the new ones *)
Theorem proxies_after_replace f s px a p :
  s_proxy s = Some px -> p_active px = true ->
  proxies_of f (run_pop s (PReplace a p)) = [mkPData (p_name px) a (if f then p else [])] /\
  proxies_of f (run_pop s (PTask (PReplace a p))) = [mkPData (p_name px) a (if f then p else [])].
Proof.
  intros Hs Ha. cbn [run_pop pop_ok]. rewrite Hs, Ha. split; [reflexivity|].
  unfold pwrite. cbn [set_proxy s_client s_proxy p_active]. destruct (s_client s && writes_proxy_list infoProxy); reflexivity.
Qed.
Theorem proxies_after_close f s :
  proxies_of f (run_pop s PClose) = [] /\ proxies_of f (run_pop s (PTask PClose)) = [].
Proof.
  cbn [run_pop pop_ok]. destruct (s_proxy s) as [px|] eqn:E.
  - split; [reflexivity|]. unfold pwrite. cbn [set_proxy s_client s_proxy p_active].
    destruct (s_client s && writes_proxy_list infoProxy); reflexivity.
  - unfold proxies_of. rewrite E. split; reflexivity.
Qed.
(* writing a message never changes what the messages carry *)
Theorem proxies_after_write f s k : proxies_of f (run_pop s (PWrite k)) = proxies_of f s.
Proof.
  cbn [run_pop]. unfold pwrite. destruct (s_client s && writes_proxy_list k); [|reflexivity].
  destruct (s_proxy s) as [px|] eqn:E; [|reflexivity]. destruct (p_active px) eqn:A; [reflexivity|].
  unfold proxies_of. cbn [set_proxy s_proxy]. rewrite E, A. reflexivity.
Qed.

Definition ex_history : list pop :=
  [PAttach [112;120] [49;50;55;46;48;46;48;46;49;58;48] [160;0;1;120];
   PTask (PReplace [108;111;99;97;108;104;111;115;116;58;48] [160;0;2;121;122;208])].
Lemma ex_history_ok :
  let s0 := set_proxy ex_session None in
  forallb wf_pop ex_history = true /\ wf infoHello s0 = true /\
  carried_proxies infoHello (run_pops s0 ex_history) =
    [mkPData [112;120] [108;111;99;97;108;104;111;115;116;58;48] [160;0;2;121;122;208]] /\
  carried_proxies infoProxy (run_pops s0 ex_history) = [mkPData [112;120] [108;111;99;97;108;104;111;115;116;58;48] []] /\
  carried_proxies infoHello (run_pops s0 (ex_history ++ [PTask PClose])) = [].
Proof. vm_compute. repeat split; reflexivity. Qed.

(* ---- part 5: every producer of a synchronisation message -------------------------------------- *)
(* the table: each writeDeviceInfo call site writes the kind its consumer reads *)
Lemma producers_paired : forallb paired producers = true.
Proof. vm_compute. reflexivity. Qed.

(* the one producer whose kind is not fixed at the call site: SvResync = kind byte + body of THAT kind *)
Lemma agree_resync r : agree (read_resync flat_ops r) (read_resync stream_ops r).
Proof. unfold read_resync. apply agree_rbind; [apply agree_u8|]. intros t. apply read_info_agree. Qed.
Theorem resync_roundtrip z c r : wf z c = true ->
  reads_back (read_resync flat_ops r) (read_resync stream_ops r) (write_resync z c) (absorb z c r, carried_proxies z c).
Proof.
  intros H. apply reads_back_intro; [apply agree_resync|]. unfold read_resync, write_resync.
  eapply rt_bind; [apply rt_u8|apply devinfo_roundtrip_flat; exact H].
  unfold wf, is_kind in H. apply andb_true_iff in H. destruct H as [H _]. lia.
Qed.

(* Scripts *)
Definition wf_entry (e : entry) : bool :=
  match e with
  | ETime o => wf_order o && (match o with OTaskDuration _ _ | OTaskKill _ | OTaskWork _ => true | _ => false end)
  | ERefresh m => wf_machine m
  | _ => true
  end.

Lemma wf_refresh_iff c :
  wf infoRefresh c = true <->
  wf_machine (s_dev c) = true /\ wf_settings c = true /\ s_client c = true /\ wf_proxy_opt (s_proxy c) = true.
Proof.
  unfold wf. change (is_kind infoRefresh) with true. change (infoRefresh =? infoProxy) with false.
  change (has_device infoRefresh) with true. change (carries_proxy infoRefresh) with true.
  change (infoRefresh =? infoMigrate) with false. cbn [andb]. rewrite andb_true_r. rewrite !andb_true_iff. tauto.
Qed.

Lemma effect_frame srv c o :
  s_dev (effect srv c o) = s_dev c /\ s_client (effect srv c o) = s_client c /\ s_proxy (effect srv c o) = s_proxy c /\
  s_id (effect srv c o) = s_id c /\ s_keys (effect srv c o) = s_keys c.
Proof. destruct o as [t j|k|[w|]|d j|k|w]; repeat split; reflexivity. Qed.

(* one entry keeps the client a well-formed refresh sender and asks for kind 0 (none), refresh or sync *)
Lemma run_entry_inv c e c' k :
  wf infoRefresh c = true -> wf_entry e = true -> run_entry c e = Some (c', k) ->
  wf infoRefresh c' = true /\ (k = 0 \/ k = infoRefresh \/ k = infoSync).
Proof.
  intros Hc He Hr. apply wf_refresh_iff in Hc. destruct Hc as (Hm & Hs & Hcl & Hp).
  destruct e as [o|m| | |]; cbn [run_entry wf_entry] in *.
  - apply andb_true_iff in He. destruct He as [Ho _].
    destruct (server_set c o) as [[s1 pkt]| |] eqn:Eset; try discriminate.
    rewrite (client_handles_order c c o s1 pkt Hs Ho Eset) in Hr. injection Hr as <- <-.
    destruct (effect_frame c c o) as (E1 & E2 & E3 & _). split; [|auto].
    apply wf_refresh_iff. rewrite E1, E2, E3. repeat split; try assumption. apply wf_effect; assumption.
  - injection Hr as <- <-. split; [|auto]. apply wf_refresh_iff. repeat split; assumption.
  - injection Hr as <- <-. split; [|auto]. apply wf_refresh_iff. repeat split; assumption.
  - discriminate.
  - injection Hr as <- <-. split; [|auto]. apply wf_refresh_iff. repeat split; assumption.
Qed.

Lemma run_script_inv stop es : forall c z c' z',
  wf infoRefresh c = true -> forallb wf_entry es = true -> (z = 0 \/ z = infoRefresh \/ z = infoSync) ->
  run_script stop c z es = (c', z') ->
  wf infoRefresh c' = true /\ (z' = 0 \/ z' = infoRefresh \/ z' = infoSync).
Proof.
  induction es as [|e es IH]; intros c z c' z' Hc Hes Hz Hr; cbn [run_script] in Hr.
  - injection Hr as <- <-. split; assumption.
  - cbn [forallb] in Hes. apply andb_true_iff in Hes. destruct Hes as [He Hes].
    destruct (run_entry c e) as [[c1 k]|] eqn:Ee.
    + destruct (run_entry_inv c e c1 k Hc He Ee) as (Hc1 & Hk).
      apply (IH c1 (if 0 <? k then k else z) c' z' Hc1 Hes); [|exact Hr].
      destruct (0 <? k); [exact Hk | exact Hz].
    + destruct stop; [injection Hr as <- <-; split; assumption | apply (IH c z c' z' Hc Hes Hz Hr)].
Qed.

(* a Script with at least one successful synchronising entry: the SvResync notice announces the kind z
   of the LAST such entry and carries the body of exactly that kind; the server absorbs it: its view of
   the four settings is the client's (as the wire carries them), and after a refresh also the device *)
Theorem script_resync_server_view stop srv cli es cli' z :
  wf infoRefresh cli = true -> forallb wf_entry es = true ->
  run_script stop cli 0 es = (cli', z) -> 0 < z ->
  script_exchange stop srv cli es = Ok (Some (write_resync z cli'), cli', absorb z cli' srv) /\
  (z = infoRefresh \/ z = infoSync) /\
  (let srv' := absorb z cli' srv in
   s_jitter srv' = s_jitter cli' /\ s_sleep srv' = s_sleep cli' /\
   s_kill srv' = norm_kill (s_kill cli') /\ s_work srv' = norm_work_opt (s_work cli') /\
   (z = infoRefresh -> s_dev srv' = s_dev cli')).
Proof.
  intros Hc Hes Hr Hz. destruct (run_script_inv stop es cli 0 cli' z Hc Hes (or_introl eq_refl) Hr) as (Hc' & Hk).
  assert (Hz' : z = infoRefresh \/ z = infoSync) by (destruct Hk as [->|Hk]; [lia | exact Hk]).
  assert (Hw : wf z cli' = true).
  { destruct Hz' as [->| ->]; [exact Hc'|]. apply wf_sync. apply wf_refresh_iff in Hc'. tauto. }
  split; [|split; [exact Hz'|]].
  - unfold script_exchange. rewrite Hr. replace (0 <? z) with true by lia.
    destruct (resync_roundtrip z cli' srv Hw) as (Hflat & _). specialize (Hflat []). rewrite app_nil_r in Hflat.
    rewrite Hflat. reflexivity.
  - cbv zeta. destruct (absorbed_settings z cli' srv) as (A & B & C & D).
    { destruct Hz' as [->| ->]; discriminate. }
    repeat split; try assumption. intros ->. reflexivity.
Qed.

(* the same for a single task sent directly: the handler's echo is absorbed by handleInfoResult *)
Theorem direct_sync_server_view srv cli e cli' k :
  wf infoRefresh cli = true -> wf_entry e = true -> run_entry cli e = Some (cli', k) -> 0 < k ->
  direct_exchange srv cli e = Ok (Some (write_info k cli'), cli', absorb k cli' srv) /\
  s_jitter (absorb k cli' srv) = s_jitter cli' /\ s_sleep (absorb k cli' srv) = s_sleep cli' /\
  (k = infoRefresh -> s_dev (absorb k cli' srv) = s_dev cli').
Proof.
  intros Hc He Hr Hk. destruct (run_entry_inv cli e cli' k Hc He Hr) as (Hc' & Hkk).
  assert (Hz' : k = infoRefresh \/ k = infoSync) by (destruct Hkk as [->|Hkk]; [lia | exact Hkk]).
  assert (Hw : wf k cli' = true).
  { destruct Hz' as [->| ->]; [exact Hc'|]. apply wf_sync. apply wf_refresh_iff in Hc'. tauto. }
  split.
  - unfold direct_exchange. rewrite Hr. replace (0 <? k) with true by lia.
    pose proof (devinfo_roundtrip_flat k cli' srv Hw []) as Hflat. rewrite app_nil_r in Hflat. rewrite Hflat. reflexivity.
  - destruct (absorbed_settings k cli' srv) as (A & B & _).
    { destruct Hz' as [->| ->]; discriminate. }
    repeat split; try assumption. intros ->. reflexivity.
Qed.

(* z is the kind of the last successful synchronising entry: a refresh followed by a time entry ends as sync *)
Lemma ex_script :
  let es := [ETime (OTaskDuration 91000000000 44); ERefresh (s_dev ex_session)] in
  forallb wf_entry es = true /\ wf infoRefresh ex_session = true /\
  snd (run_script false ex_session 0 es) = infoRefresh /\
  snd (run_script false ex_session 0 (es ++ [EBad; ETime (OTaskKill zero_time)])) = infoSync /\
  snd (run_script true ex_session 0 (EBad :: es)) = 0 /\
  (exists body c' s', script_exchange false ex_receiver ex_session es = Ok (Some body, c', s') /\
     hd 0 body = infoRefresh /\ s_jitter s' = 44 /\ s_sleep s' = 91000000000 /\ s_dev s' = s_dev ex_session /\ s_jitter ex_receiver = 0).
Proof.
  cbv zeta. split; [reflexivity|]. split; [vm_compute; reflexivity|].
  split; [vm_compute; reflexivity|]. split; [vm_compute; reflexivity|]. split; [vm_compute; reflexivity|].
  eexists _, _, _. split; [vm_compute; reflexivity|]. vm_compute. repeat split; reflexivity.
Qed.

(* ---- part 6: the migration hand-off end to end ------------------------------------------------ *)
Lemma wf_settings_absorb k s r : k <> infoProxy -> wf_settings s = true -> wf_settings (absorb k s r) = true.
Proof.
  intros Hk Hs. destruct (absorbed_settings k s r Hk) as (A & B & C & D). cbv zeta in *.
  unfold wf_settings in *. rewrite A, B, C, D.
  apply andb_true_iff in Hs. destruct Hs as [Hs H4]. apply andb_true_iff in Hs. destruct Hs as [Hs H3].
  rewrite Hs. cbn [andb]. unfold norm_kill. rewrite wf_kill_of_wire. cbn [andb].
  destruct (s_work s) as [w|]; [|reflexivity]. cbn [norm_work_opt wf_work] in *. unfold norm_work.
  destruct (work_empty w); [reflexivity | assumption].
Qed.
Lemma wf_settings_set_dev s m : wf_settings (set_dev s m) = wf_settings s.
Proof. reflexivity. Qed.
Lemma wf_machine_with_id m i : wf_machine m = true -> wf_id i = true -> wf_machine (with_id m i) = true.
Proof.
  unfold wf_machine, with_id. cbn [m_id m_system m_pid m_ppid m_user m_version m_host m_elev m_caps m_net].
  intros H Hi. destruct (wf_id (m_id m)); [|discriminate]. rewrite Hi. exact H.
Qed.

(* MigrateProfile -> pipe -> LoadContext -> MvMigrate result -> server: the new process holds the
   migrated ID as Session.ID AND as Device.ID, the key material, the settings (wire normal form) and
   the proxy list of the old client; the server's view afterwards is the new client's: same device
   (so Device.ID = the migrated ID) and the same settings *)
Theorem migrate_identity old new0 localm srv :
  wf infoMigrate old = true -> wf_machine localm = true ->
  exists ns srv', migrate_exchange old new0 localm srv = Ok (ns, proxies_of true old, srv') /\
    s_id ns = s_id old /\ m_id (s_dev ns) = s_id old /\ s_keys ns = s_keys old /\
    s_jitter ns = s_jitter old /\ s_sleep ns = s_sleep old /\
    s_kill ns = norm_kill (s_kill old) /\ s_work ns = norm_work_opt (s_work old) /\
    s_dev srv' = s_dev ns /\ s_jitter srv' = s_jitter ns /\ s_sleep srv' = s_sleep ns /\
    s_kill srv' = norm_kill (s_kill ns) /\ s_work srv' = norm_work_opt (s_work ns) /\
    s_id srv' = s_id srv.
Proof.
  intros Hw Hm.
  assert (Hparts : wf_id (s_id old) = true /\ wf_settings old = true).
  { unfold wf in Hw. change (is_kind infoMigrate) with true in Hw. change (infoMigrate =? infoProxy) with false in Hw.
    change (has_device infoMigrate) with false in Hw. change (infoMigrate =? infoMigrate) with true in Hw.
    cbn [andb] in Hw. bools. split; assumption. }
  destruct Hparts as (Hid & Hset).
  pose proof (devinfo_roundtrip_flat infoMigrate old new0 Hw []) as Hr. rewrite app_nil_r in Hr.
  set (s1 := absorb infoMigrate old new0) in *.
  destruct (absorbed_identity infoMigrate old new0) as (_ & Hi & _ & _). destruct (Hi eq_refl) as (Hi1 & Hi2). fold s1 in Hi1, Hi2.
  destruct (absorbed_settings infoMigrate old new0) as (A & B & C & D); [discriminate|]. fold s1 in A, B, C, D.
  set (ns := set_dev s1 (with_id localm (s_id s1))).
  assert (Hns : wf infoSyncMigrate ns = true).
  { unfold wf. change (is_kind infoSyncMigrate) with true. change (infoSyncMigrate =? infoProxy) with false.
    change (has_device infoSyncMigrate) with true. change (carries_proxy infoSyncMigrate) with false.
    change (infoSyncMigrate =? infoMigrate) with false. cbn [andb]. rewrite !andb_true_r.
    apply andb_true_iff. split.
    - subst ns. cbn [set_dev s_dev]. apply wf_machine_with_id; [exact Hm | rewrite Hi1; exact Hid].
    - subst ns. rewrite wf_settings_set_dev. subst s1. apply wf_settings_absorb; [discriminate | exact Hset]. }
  pose proof (devinfo_roundtrip_flat infoSyncMigrate ns srv Hns []) as Hr2. rewrite app_nil_r in Hr2.
  exists ns, (absorb infoSyncMigrate ns srv). split.
  - unfold migrate_exchange, load_context. rewrite Hr. cbn [bind fst snd]. fold ns. rewrite Hr2. reflexivity.
  - destruct (absorbed_settings infoSyncMigrate ns srv) as (A2 & B2 & C2 & D2); [discriminate|].
    destruct (absorbed_identity infoSyncMigrate ns srv) as (Hd & _ & _ & Hk). destruct (Hk ltac:(discriminate)) as (Hk1 & _).
    repeat split; try assumption; try (apply Hd; reflexivity).
Qed.

Lemma ex_migration :
  wf infoMigrate ex_session = true /\ wf_machine (s_dev ex_receiver) = true /\
  (exists ns srv', migrate_exchange ex_session ex_receiver (s_dev ex_receiver) ex_receiver = Ok (ns, proxies_of true ex_session, srv') /\
     m_id (s_dev ns) = s_id ex_session /\ m_id (s_dev srv') = s_id ex_session /\ zlist_eqb (m_id (s_dev ex_receiver)) (s_id ex_session) = false /\
     settings_eqb srv' ex_session = true /\ length (proxies_of true ex_session) = 1%nat).
Proof.
  split; [vm_compute; reflexivity|]. split; [vm_compute; reflexivity|].
  eexists _, _. split; [vm_compute; reflexivity|]. vm_compute. repeat split; reflexivity.
Qed.

(* ---- part 7: the migration window --------------------------------------------------------------
   no rotation while Moving: whatever idle exchanges run (and whatever their re-key draws) between the
   hand-off and its confirmation, the old client is unchanged, so the session the new process loads has
   the identity and the key material the old client (hence the server) holds at confirmation *)
Lemma exchanges_moving c h : exchanges true c h = c.
Proof.
  unfold exchanges. induction h as [|x h IH]; [reflexivity|]. cbn [fold_left].
  unfold idle_exchange at 2. cbn [negb]. rewrite andb_false_r. exact IH.
Qed.
Theorem window_keys_current c pre win new0 :
  wf infoMigrate (exchanges false c pre) = true ->
  exists d c', window_exchange c pre win new0 = Ok (d, c') /\
    c' = exchanges false c pre /\ s_id d = s_id c' /\ s_keys d = s_keys c' /\
    s_jitter d = s_jitter c' /\ s_sleep d = s_sleep c'.
Proof.
  intros Hw. set (c1 := exchanges false c pre) in *.
  pose proof (devinfo_roundtrip_flat infoMigrate c1 new0 Hw []) as Hr. rewrite app_nil_r in Hr.
  exists (absorb infoMigrate c1 new0), c1. split.
  - unfold window_exchange. fold c1. rewrite Hr. cbn [bind fst]. rewrite exchanges_moving. reflexivity.
  - destruct (absorbed_identity infoMigrate c1 new0) as (_ & Hi & _ & _). destruct (Hi eq_refl) as (Hi1 & Hi2).
    destruct (absorbed_settings infoMigrate c1 new0) as (A & B & _); [discriminate|].
    repeat split; assumption.
Qed.
(* the guard is what makes it true: WITHOUT it (exchanges false inside the window) a rotation leaves the
   old client with other key material than the hand-off carries *)
Lemma window_without_guard_refuted :
  exists c x, s_client c = true /\
    s_keys (exchanges false c [x]) <> s_keys c /\ s_keys (exchanges true c [x]) = s_keys c.
Proof.
  exists ex_session, (true, mkKeys [1] [2] [3]). split; [reflexivity|]. split; [|reflexivity].
  vm_compute. discriminate.
Qed.

(* ---- part 8: the server's proxy list across a migration; Scripts that end in an error ---------- *)
(* absorbing the MvMigrate result (kind syncMigrate carries no list) keeps the server's proxy list, which
   therefore still names the proxy the migrated client re-created from the hand-off *)
Theorem server_proxies_survive_migration before :
  server_proxy_view infoSyncMigrate before (carried_proxies infoSyncMigrate ex_session) = before /\
  (forall k got, writes_proxy_list k = false -> server_proxy_view k before got = before) /\
  (forall k got, writes_proxy_list k = true -> server_proxy_view k before got = got).
Proof.
  split; [reflexivity|]. split; intros k got H; unfold server_proxy_view; rewrite H; reflexivity.
Qed.
Theorem migrated_proxy_matches_server_view old :
  map strip_profile (proxies_of true old) = proxies_of false old.
Proof.
  unfold proxies_of. destruct (s_proxy old) as [p|]; [|reflexivity]. destruct (p_active p); reflexivity.
Qed.

(* the kind a Script resynchronises is decided by its successful synchronising entries alone: entries that
   fail (and, with stop-on-error, everything after the first failure) never take it back *)
Lemma run_script_keeps_z stop es : forall c z, 0 < z -> 0 < snd (run_script stop c z es).
Proof.
  induction es as [|e es IH]; intros c z Hz; cbn [run_script]; [exact Hz|].
  destruct (run_entry c e) as [[c1 k]|].
  - apply IH. destruct (0 <? k) eqn:E; lia.
  - destruct stop; [exact Hz | apply IH; exact Hz].
Qed.
(* a prefix that runs through: never the case that stop-on-error cut the Script before its end *)
Fixpoint all_ok (c : session) (a : list entry) : bool :=
  match a with
  | [] => true
  | x :: a' => match run_entry c x with Some (c', _) => all_ok c' a' | None => false end
  end.
Lemma run_script_app stop a : forall c z r, (stop = false \/ all_ok c a = true) ->
  run_script stop c z (a ++ r) = run_script stop (fst (run_script stop c z a)) (snd (run_script stop c z a)) r.
Proof.
  induction a as [|x a IH]; intros c z r H; cbn [app run_script all_ok fst snd] in *; [reflexivity|].
  destruct (run_entry c x) as [[c2 k2]|].
  - apply IH. exact H.
  - destruct stop.
    + destruct H as [H|H]; discriminate.
    + apply IH. left. reflexivity.
Qed.
(* a synchronising entry e that ran and succeeded is reported, whatever follows it: failing entries, a
   stop-on-error end of the Script (its result is then an error), more entries *)
Theorem script_resync_despite_error stop c a e b c1 k :
  (stop = false \/ all_ok c a = true) ->
  run_entry (fst (run_script stop c 0 a)) e = Some (c1, k) -> 0 < k ->
  0 < snd (run_script stop c 0 (a ++ e :: b)).
Proof.
  intros Ha He Hk. rewrite run_script_app by exact Ha. cbn [run_script]. rewrite He.
  apply run_script_keeps_z. replace (0 <? k) with true by lia. exact Hk.
Qed.
