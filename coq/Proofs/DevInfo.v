(* Proofs/DevInfo.v -- C12 (in progress) *)
From XMT Require Import Base.Prelude Base.BitLemmas Model.Codec Proofs.Codec Model.DevInfo.
