(* Proofs/DevInfo.v -- C12: session settings and identity survive every synchronisation path.

   Part 1  round trips of the flat reader (packet body): every component codec and the six
           message kinds.  The content is that the WRITER's field list (write_info, one Go
           function) and the READER's field list (read_info, another Go function) match.
   Part 2  the stream reader (data.NewReader over a pipe) agrees with the flat reader on the
           concatenation of EVERY split into non-empty short reads; with part 1 this gives the
           stream round trips.
   Part 3  MvTime: server setter -> client handler -> echo -> handleInfoResult. *)
From XMT Require Import Base.Prelude Base.BitLemmas Model.Codec Proofs.Codec Model.DevInfo.
From Coq Require Import ZifyBool.
Ltac Zify.zify_post_hook ::= Z.div_mod_to_equations.

(* ---- booleans to propositions ------------------------------------------------------------ *)
Lemma is_u8_iff x : is_u8 x = true <-> 0 <= x < 256. Proof. unfold is_u8. lia. Qed.
Lemma is_u32_iff x : is_u32 x = true <-> 0 <= x < 4294967296. Proof. unfold is_u32. lia. Qed.
Lemma is_u64_iff x : is_u64 x = true <-> 0 <= x < 18446744073709551616. Proof. unfold is_u64. lia. Qed.
Lemma is_i64_iff x : is_i64 x = true <-> -9223372036854775808 <= x < 9223372036854775808.
Proof. unfold is_i64. lia. Qed.

Ltac bools :=
  repeat match goal with
         | H : _ && _ = true |- _ => apply andb_true_iff in H; destruct H
         | H : is_u8 _ = true |- _ => apply is_u8_iff in H
         | H : is_u32 _ = true |- _ => apply is_u32_iff in H
         | H : is_u64 _ = true |- _ => apply is_u64_iff in H
         | H : is_i64 _ = true |- _ => apply is_i64_iff in H
         end.

Lemma i64_u64 v : -9223372036854775808 <= v < 9223372036854775808 -> i64 (u64 v) = v.
Proof.
  intros H. unfold i64, u64. change 18446744073709551616 with (2 ^ 64). apply sgn_wrap; [lia|].
  change (2 ^ (64 - 1)) with 9223372036854775808. lia.
Qed.
Lemma u64_range v : 0 <= u64 v < 18446744073709551616.
Proof. unfold u64. lia. Qed.

(* ---- part 1: the flat reader ------------------------------------------------------------- *)
(* rd reads the value a back from the bytes w, whatever follows, and leaves what follows *)
Definition rt {A} (rd : rdr (list Z) A) (w : list Z) (a : A) : Prop :=
  forall rest, rd (w ++ rest) = Ok (a, rest).

Lemma rt_ret {A} (a : A) : rt (rret a) [] a.
Proof. intros rest. reflexivity. Qed.
Lemma rt_bind {A B} (m : rdr (list Z) A) (f : A -> rdr (list Z) B) w1 w2 a b :
  rt m w1 a -> rt (f a) w2 b -> rt (rbind m f) (w1 ++ w2) b.
Proof. intros H1 H2 rest. unfold rbind. rewrite <- app_assoc, H1. apply H2. Qed.
Lemma rt_last {A B} (m : rdr (list Z) A) (f : A -> rdr (list Z) B) w a b :
  rt m w a -> rt (f a) [] b -> rt (rbind m f) w b.
Proof. intros H1 H2. rewrite <- (app_nil_r w). eapply rt_bind; eassumption. Qed.
Lemma rt_eq {A} (rd : rdr (list Z) A) w w' a : w = w' -> rt rd w a -> rt rd w' a.
Proof. intros <-. exact (fun H => H). Qed.

Lemma rt_u8 v : 0 <= v < 256 -> rt (r_u8 flat_ops) (enc_u8 v) v.
Proof. intros H rest. apply rd_u8_enc. exact H. Qed.
Lemma rt_u32 v : 0 <= v < 4294967296 -> rt (r_uN flat_ops 4) (enc_u32 v) v.
Proof. intros H rest. apply rd_u32_enc. exact H. Qed.
Lemma rt_u64 v : 0 <= v < 18446744073709551616 -> rt (r_uN flat_ops 8) (enc_u64 v) v.
Proof. intros H rest. apply rd_u64_enc. exact H. Qed.
Lemma rt_bytes b : wf_bytes b = true -> rt (r_bytes flat_ops) (enc_bytes b) b.
Proof. intros H rest. apply rd_bytes_enc. apply wf_bytes_len. exact H. Qed.
Lemma rt_raw n b : len b = n -> rt (r_raw flat_ops n) b b.
Proof. intros H rest. apply rd_fixed_app. exact H. Qed.

(* n elements, each written by wr and read by rd *)
Lemma rt_read_n {A} (rd : rdr (list Z) A) (wr : A -> list Z) (l : list A) :
  Forall (fun x => rt rd (wr x) x) l -> rt (read_n rd (length l)) (concat (map wr l)) l.
Proof.
  induction 1 as [|x l Hx _ IH]; [apply rt_ret|].
  cbn [length read_n map concat]. eapply rt_bind; [exact Hx|]. eapply rt_last; [exact IH | apply rt_ret].
Qed.

Lemma take_all {A} (l : list A) : take (len l) l = l.
Proof. unfold take, len. rewrite Nat2Z.id. apply firstn_all. Qed.

(* count byte + elements; the count is ONE byte: at most 255 elements *)
Lemma rt_counted {A} (rd : rdr (list Z) A) (wr : A -> list Z) (l : list A) :
  len l <= 255 -> Forall (fun x => rt rd (wr x) x) l ->
  rt (read_counted flat_ops rd) (write_counted wr l) l.
Proof.
  intros Hl H. unfold read_counted, write_counted. pose proof (len_nonneg l).
  rewrite u8_small by lia. rewrite take_all.
  eapply rt_bind; [apply rt_u8; lia|]. unfold len. rewrite Nat2Z.id. apply rt_read_n. exact H.
Qed.

Lemma forallb_Forall {A} (p : A -> bool) (P : A -> Prop) l :
  (forall x, p x = true -> P x) -> forallb p l = true -> Forall P l.
Proof.
  intros Hp. induction l as [|x l IH]; cbn [forallb]; intros H; [constructor|].
  apply andb_true_iff in H. destruct H. constructor; auto.
Qed.

(* Address: two uint64 *)
Lemma rt_addr a : wf_addr a = true -> rt (read_addr flat_ops) (write_addr a) a.
Proof.
  unfold wf_addr. intros H. bools. destruct a as [hi lo]. cbn [a_hi a_lo] in *.
  unfold read_addr, write_addr. cbn [a_hi a_lo].
  eapply rt_bind; [apply rt_u64; lia|]. eapply rt_last; [apply rt_u64; lia | apply rt_ret].
Qed.

(* network interface: name, hardware address, counted addresses *)
Lemma rt_dev d : wf_dev d = true -> rt (read_dev flat_ops) (write_dev d) d.
Proof.
  unfold wf_dev. intros H. bools. destruct d as [nm mac ad]. cbn [d_name d_mac d_addrs] in *.
  unfold read_dev, write_dev. cbn [d_name d_mac d_addrs].
  eapply rt_bind; [apply rt_bytes; assumption|]. eapply rt_bind; [apply rt_u64; lia|].
  eapply rt_last; [|apply rt_ret].
  apply rt_counted; [lia|]. eapply forallb_Forall; [|eassumption]. apply rt_addr.
Qed.

(* Network: counted interfaces *)
Lemma rt_net n : len n <= 255 -> forallb wf_dev n = true -> rt (read_counted flat_ops (read_dev flat_ops)) (write_net n) n.
Proof.
  intros Hl H. unfold write_net. apply rt_counted; [exact Hl|]. eapply forallb_Forall; [|exact H]. apply rt_dev.
Qed.

(* device ID: 32 raw bytes, the first one not zero *)
Lemma rt_id b : wf_id b = true -> rt (read_id flat_ops) b b.
Proof.
  unfold wf_id, wf_raw. intros H. bools. unfold read_id.
  eapply rt_last; [apply rt_raw; lia|].
  destruct b as [|x b']; [discriminate|]. cbn [hd] in *.
  destruct (x =? 0); [discriminate | apply rt_ret].
Qed.

(* Machine *)
Lemma rt_machine m : wf_machine m = true -> rt (read_machine flat_ops) (write_machine m) m.
Proof.
  unfold wf_machine. intros H. bools.
  destruct m as [id sys pid ppid u v h e c n].
  cbn [m_id m_system m_pid m_ppid m_user m_version m_host m_elev m_caps m_net] in *.
  unfold read_machine, write_machine. cbn [m_id m_system m_pid m_ppid m_user m_version m_host m_elev m_caps m_net].
  eapply rt_bind; [apply rt_id; assumption|].
  eapply rt_bind; [apply rt_u8; lia|].
  eapply rt_bind; [apply rt_u32; lia|].
  eapply rt_bind; [apply rt_u32; lia|].
  eapply rt_bind; [apply rt_bytes; assumption|].
  eapply rt_bind; [apply rt_bytes; assumption|].
  eapply rt_bind; [apply rt_bytes; assumption|].
  eapply rt_bind; [apply rt_u8; lia|].
  eapply rt_bind; [apply rt_u32; lia|].
  eapply rt_last; [apply rt_net; [lia | assumption] | apply rt_ret].
Qed.

(* WorkHours: five bytes *)
Lemma rt_workhours w : wf_workhours w = true -> rt (read_workhours flat_ops) (write_workhours w) w.
Proof.
  unfold wf_workhours. intros H. bools. destruct w as [d sh sm eh em].
  cbn [w_days w_sh w_sm w_eh w_em] in *. unfold read_workhours, write_workhours. cbn [w_days w_sh w_sm w_eh w_em].
  do 4 (eapply rt_bind; [apply rt_u8; lia|]). eapply rt_last; [apply rt_u8; lia | apply rt_ret].
Qed.
(* a session without work hours writes uint32 0, uint8 0: the reader sees the all-zero value *)
Lemma rt_work_none : rt (read_workhours flat_ops) (write_work None) (mkWork 0 0 0 0 0).
Proof. intros rest. reflexivity. Qed.

(* KeyPair: public, private, shared secret *)
Lemma rt_keys k : wf_keys k = true -> rt (read_keys flat_ops) (write_keys k) k.
Proof.
  unfold wf_keys, wf_raw. intros H. bools. destruct k as [a b c]. cbn [k_pub k_priv k_share] in *.
  unfold read_keys, write_keys. cbn [k_pub k_priv k_share].
  eapply rt_bind; [apply rt_raw; lia|]. eapply rt_bind; [apply rt_raw; lia|].
  eapply rt_last; [apply rt_raw; lia | apply rt_ret].
Qed.

(* jitter, sleep, kill date, work hours *)
Lemma norm_work_none : norm_work (mkWork 0 0 0 0 0) = None.
Proof. reflexivity. Qed.

Lemma rt_settings s r : wf_settings s = true ->
  rt (read_settings flat_ops r) (write_settings s) (absorb_settings s r).
Proof.
  unfold wf_settings, wf_time. intros H. bools.
  unfold read_settings, write_settings, write_kill.
  eapply rt_bind; [apply rt_u8; lia|].
  eapply rt_bind; [apply rt_u64; apply u64_range|].
  eapply rt_bind; [apply rt_u64; unfold kill_wire; destruct (is_zero_time (s_kill s)); [lia | apply u64_range]|].
  rewrite i64_u64 by lia. unfold absorb_settings, norm_kill.
  destruct (s_work s) as [w|]; cbn [wf_work] in *.
  - eapply rt_last; [apply rt_workhours; assumption | apply rt_ret].
  - eapply rt_last; [apply rt_work_none | apply rt_ret].
Qed.

(* the proxy list of an active client session *)
Lemma rt_proxy f s : s_client s = true -> wf_proxy_opt (s_proxy s) = true ->
  rt (read_proxies flat_ops f) (write_proxy f s) (proxies_of f s).
Proof.
  intros Hc H. unfold write_proxy, proxies_of, read_proxies, read_counted. rewrite Hc. cbn [negb].
  destruct (s_proxy s) as [p|]; [|intros rest; reflexivity].
  destruct (p_active p); cbn [negb]; [|intros rest; reflexivity].
  cbn [wf_proxy_opt] in H. unfold wf_proxy in H. bools.
  eapply rt_bind; [apply rt_u8; lia|]. change (Z.to_nat 1) with 1%nat. cbn [read_n].
  eapply rt_last; [|apply rt_ret]. unfold read_pdata.
  eapply rt_bind; [apply rt_bytes; assumption|].
  destruct f.
  - eapply rt_bind; [apply rt_bytes; assumption|]. eapply rt_last; [apply rt_bytes; assumption | apply rt_ret].
  - eapply rt_bind; [apply rt_bytes; assumption | apply rt_ret].
Qed.

(* ---- the six message kinds, flat reader ---- *)
Theorem devinfo_roundtrip_flat k s r :
  wf k s = true -> rt (read_info flat_ops k r) (write_info k s) (absorb k s r, carried_proxies k s).
Proof.
  unfold wf, is_kind. intros H. apply andb_true_iff in H. destruct H as [Hk H].
  unfold read_info, write_info, absorb, carried_proxies.
  destruct (k =? infoProxy) eqn:Ep.
  { apply andb_true_iff in H. destruct H as [Hc Hp].
    eapply rt_last; [apply rt_proxy; assumption | apply rt_ret]. }
  apply andb_true_iff in H. destruct H as [H Hkeys].
  apply andb_true_iff in H. destruct H as [H Hprox].
  apply andb_true_iff in H. destruct H as [Hhead Hset].
  eapply rt_bind.
  { instantiate (1 := if has_device k then set_dev r (s_dev s) else if k =? infoMigrate then set_id r (s_id s) else r).
    destruct (has_device k).
    - eapply rt_last; [apply rt_machine; exact Hhead | apply rt_ret].
    - destruct (k =? infoMigrate).
      + eapply rt_last; [apply rt_id; exact Hhead | apply rt_ret].
      + apply rt_ret. }
  unfold carries_proxy in Hprox.
  destruct (infoRefresh <? k) eqn:Er.
  { replace (k =? infoMigrate) with false by (unfold infoMigrate, infoRefresh in *; lia).
    rewrite <- (app_nil_r (write_settings s)). rewrite app_nil_r.
    eapply rt_last; [apply rt_settings; exact Hset | apply rt_ret]. }
  replace (k <=? infoRefresh) with true in Hprox by lia.
  apply andb_true_iff in Hprox. destruct Hprox as [Hc Hp].
  eapply rt_bind; [apply rt_settings; exact Hset|].
  destruct (k =? infoMigrate).
  - eapply rt_bind; [apply rt_proxy; assumption|].
    eapply rt_last; [apply rt_keys; exact Hkeys | apply rt_ret].
  - eapply rt_last; [apply rt_proxy; assumption | apply rt_ret].
Qed.

(* ---- part 2: the stream reader agrees with the flat reader ------------------------------- *)
Lemma agree_rbind {A B} (f : rdr (list Z) A) (g : rdr src A) (f' : A -> rdr (list Z) B) (g' : A -> rdr src B) :
  agree f g -> (forall a, agree (f' a) (g' a)) -> agree (rbind f f') (rbind g g').
Proof.
  intros H H' s Hs. specialize (H s Hs). unfold rbind.
  destruct (f (concat s)) as [[a r]| |], (g s) as [[a' s']| |]; try contradiction; try exact I.
  destruct H as (<- & <- & Hn). apply H'. exact Hn.
Qed.
Lemma agree_rret {A} (a : A) : agree (rret a) (rret a).
Proof. apply agree_ret. Qed.
Lemma agree_rfail {A} e : agree (@rfail (list Z) A e) (@rfail src A e).
Proof. apply agree_err. Qed.

(* io.ReadFull of n raw bytes through the stream reader's Read *)
Lemma agree_raw n : 0 <= n -> agree (rd_fixed n) (srd_raw n).
Proof.
  intros Hn s Hs. unfold rd_fixed, srd_raw.
  destruct (Z.ltb_spec (len (concat s)) n) as [Hlt|Hge].
  - destruct (read_full_short s (src_fuel s n) n [] Hs) as (e & ->); [unfold src_fuel; lia | exact Hlt | exact I].
  - destruct (read_full_ok s (src_fuel s n) n [] Hs) as (s' & -> & Hc & Hn'); [unfold src_fuel; lia | lia |].
    cbn [app]. repeat split; assumption.
Qed.

Lemma agree_read_n {A} (f : rdr (list Z) A) (g : rdr src A) n : agree f g -> agree (read_n f n) (read_n g n).
Proof.
  intros H. induction n as [|n IH]; cbn [read_n]; [apply agree_rret|].
  apply agree_rbind; [exact H|]. intros x. apply agree_rbind; [exact IH|]. intros l. apply agree_rret.
Qed.
Lemma agree_counted {A} (f : rdr (list Z) A) (g : rdr src A) :
  agree f g -> agree (read_counted flat_ops f) (read_counted stream_ops g).
Proof.
  intros H. unfold read_counted. apply agree_rbind; [apply agree_u8|]. intros n. apply agree_read_n. exact H.
Qed.

Ltac agr :=
  repeat first
    [ apply agree_rret | apply agree_rfail
    | apply agree_u8 | apply agree_bytes
    | apply agree_uN; lia | apply agree_raw; unfold IDSize, publicKeySize, privateKeySize, sharedKeySize; lia
    | apply agree_rbind; [|intros ?] ].

Lemma agree_addr : agree (read_addr flat_ops) (read_addr stream_ops).
Proof. unfold read_addr. cbn [r_uN flat_ops stream_ops]. agr. Qed.
Lemma agree_dev : agree (read_dev flat_ops) (read_dev stream_ops).
Proof.
  unfold read_dev. cbn [r_uN r_bytes flat_ops stream_ops].
  apply agree_rbind; [apply agree_bytes|]. intros nm. apply agree_rbind; [apply agree_uN; lia|]. intros mac.
  apply agree_rbind; [apply agree_counted; apply agree_addr|]. intros a. apply agree_rret.
Qed.
Lemma agree_id : agree (read_id flat_ops) (read_id stream_ops).
Proof.
  unfold read_id. cbn [r_raw flat_ops stream_ops]. apply agree_rbind; [apply agree_raw; unfold IDSize; lia|].
  intros [|x b]; [apply agree_rfail|]. destruct (x =? 0); [apply agree_rfail | apply agree_rret].
Qed.
Lemma agree_machine : agree (read_machine flat_ops) (read_machine stream_ops).
Proof.
  unfold read_machine. apply agree_rbind; [apply agree_id|]. intros id.
  cbn [r_u8 r_uN r_bytes flat_ops stream_ops].
  apply agree_rbind; [apply agree_u8|]. intros sys.
  apply agree_rbind; [apply agree_uN; lia|]. intros pid.
  apply agree_rbind; [apply agree_uN; lia|]. intros ppid.
  apply agree_rbind; [apply agree_bytes|]. intros u.
  apply agree_rbind; [apply agree_bytes|]. intros v.
  apply agree_rbind; [apply agree_bytes|]. intros h.
  apply agree_rbind; [apply agree_u8|]. intros e.
  apply agree_rbind; [apply agree_uN; lia|]. intros c.
  apply agree_rbind; [apply agree_counted; apply agree_dev|]. intros n. apply agree_rret.
Qed.
Lemma agree_workhours : agree (read_workhours flat_ops) (read_workhours stream_ops).
Proof. unfold read_workhours. cbn [r_u8 flat_ops stream_ops]. agr. Qed.
Lemma agree_keys : agree (read_keys flat_ops) (read_keys stream_ops).
Proof. unfold read_keys. cbn [r_raw flat_ops stream_ops]. agr. Qed.
Lemma agree_settings r : agree (read_settings flat_ops r) (read_settings stream_ops r).
Proof.
  unfold read_settings. cbn [r_u8 r_uN flat_ops stream_ops].
  apply agree_rbind; [apply agree_u8|]. intros j.
  apply agree_rbind; [apply agree_uN; lia|]. intros sl.
  apply agree_rbind; [apply agree_uN; lia|]. intros kv.
  apply agree_rbind; [apply agree_workhours|]. intros w. apply agree_rret.
Qed.
Lemma agree_pdata f : agree (read_pdata flat_ops f) (read_pdata stream_ops f).
Proof. unfold read_pdata. cbn [r_bytes flat_ops stream_ops]. destruct f; agr. Qed.
Lemma agree_proxies f : agree (read_proxies flat_ops f) (read_proxies stream_ops f).
Proof. unfold read_proxies. apply agree_counted. apply agree_pdata. Qed.

(* readDeviceInfo over a stream = readDeviceInfo over the concatenated bytes, for every kind
   and every input (valid or not), whatever the split into non-empty short reads *)
Theorem read_info_agree k r : agree (read_info flat_ops k r) (read_info stream_ops k r).
Proof.
  unfold read_info. destruct (k =? infoProxy).
  { apply agree_rbind; [apply agree_proxies|]. intros p. apply agree_rret. }
  apply agree_rbind.
  { destruct (has_device k).
    - apply agree_rbind; [apply agree_machine|]. intros m. apply agree_rret.
    - destruct (k =? infoMigrate); [|apply agree_rret].
      apply agree_rbind; [apply agree_id|]. intros i. apply agree_rret. }
  intros r1. apply agree_rbind; [apply agree_settings|]. intros r2.
  destruct (infoRefresh <? k); [apply agree_rret|].
  apply agree_rbind; [apply agree_proxies|]. intros p.
  destruct (k =? infoMigrate); [|apply agree_rret].
  apply agree_rbind; [apply agree_keys|]. intros ks. apply agree_rret.
Qed.

(* a flat round trip is a stream round trip for every split *)
Lemma rt_stream {A} (f : rdr (list Z) A) (g : rdr src A) w a :
  agree f g -> rt f w a ->
  forall s rest, no_empty s -> concat s = w ++ rest ->
  exists s', g s = Ok (a, s') /\ concat s' = rest /\ no_empty s'.
Proof.
  intros Hag Hrt s rest Hs Hc. specialize (Hag s Hs). rewrite Hc, Hrt in Hag.
  destruct (g s) as [[a' s']| |]; try contradiction.
  destruct Hag as (<- & E & Hn). exists s'. repeat split; assumption.
Qed.

Theorem devinfo_roundtrip_stream k s r :
  wf k s = true ->
  forall sr rest, no_empty sr -> concat sr = write_info k s ++ rest ->
  exists sr', read_info stream_ops k r sr = Ok ((absorb k s r, carried_proxies k s), sr') /\
              concat sr' = rest /\ no_empty sr'.
Proof.
  intros H. apply rt_stream with (f := read_info flat_ops k r); [apply read_info_agree | apply devinfo_roundtrip_flat; exact H].
Qed.

(* component round trips through the stream reader *)
Theorem machine_roundtrip_stream m : wf_machine m = true ->
  forall sr rest, no_empty sr -> concat sr = write_machine m ++ rest ->
  exists sr', read_machine stream_ops sr = Ok (m, sr') /\ concat sr' = rest /\ no_empty sr'.
Proof. intros H. apply rt_stream with (f := read_machine flat_ops); [apply agree_machine | apply rt_machine; exact H]. Qed.
Theorem keys_roundtrip_stream k : wf_keys k = true ->
  forall sr rest, no_empty sr -> concat sr = write_keys k ++ rest ->
  exists sr', read_keys stream_ops sr = Ok (k, sr') /\ concat sr' = rest /\ no_empty sr'.
Proof. intros H. apply rt_stream with (f := read_keys flat_ops); [apply agree_keys | apply rt_keys; exact H]. Qed.
Theorem workhours_roundtrip_stream w : wf_workhours w = true ->
  forall sr rest, no_empty sr -> concat sr = write_workhours w ++ rest ->
  exists sr', read_workhours stream_ops sr = Ok (w, sr') /\ concat sr' = rest /\ no_empty sr'.
Proof. intros H. apply rt_stream with (f := read_workhours flat_ops); [apply agree_workhours | apply rt_workhours; exact H]. Qed.
