(* Proofs/Packet.v -- C01: lemmas about Model/Packet.v
   1. the flag word (bit-level, all words, all 16-bit values)
   2. Marshal is total on well-formed packets and produces `wire p`; its length
   3. Unmarshal (Marshal p ++ rest) over every split into non-empty short reads
   4. concatenated packets
   5. the nested stream form: flat reader, agreement of the stream reader, concatenation *)
From XMT Require Import Base.Prelude Base.BitLemmas Model.Codec Model.Packet Proofs.Codec.
From Coq Require Import ZifyBool.
Ltac Zify.zify_post_hook ::= Z.div_mod_to_equations.

(* ==== 1. the flag word ======================================================= *)

(* ---- bit-level toolkit (unconditional forms: false at negative indices) ------ *)
Lemma tb_mod_pow2 a n k : 0 <= n -> Z.testbit (a mod 2 ^ n) k = (k <? n) && Z.testbit a k.
Proof.
  intros Hn. destruct (Z.ltb_spec k n) as [H|H].
  - destruct (Z.lt_ge_cases k 0) as [Hk|Hk].
    + rewrite !Z.testbit_neg_r by lia. reflexivity.
    + rewrite Z.mod_pow2_bits_low by lia. reflexivity.
  - rewrite Z.mod_pow2_bits_high by lia. reflexivity.
Qed.

Lemma tb_small a n k : 0 <= a < 2 ^ n -> n <= k -> Z.testbit a k = false.
Proof.
  intros Ha Hk. assert (0 <= n \/ n < 0) as [Hn|Hn] by lia.
  - replace a with (a mod 2 ^ n) by (apply Z.mod_small; lia).
    apply Z.mod_pow2_bits_high. lia.
  - rewrite Z.pow_neg_r in Ha by lia. lia.
Qed.

Lemma tb_u16 a k : Z.testbit (u16 a) k = (k <? 16) && Z.testbit a k.
Proof. unfold u16. change 65536 with (2 ^ 16). apply tb_mod_pow2. lia. Qed.
Lemma tb_u32 a k : Z.testbit (u32 a) k = (k <? 32) && Z.testbit a k.
Proof. unfold u32. change 4294967296 with (2 ^ 32). apply tb_mod_pow2. lia. Qed.
Lemma tb_u64 a k : Z.testbit (u64 a) k = (k <? 64) && Z.testbit a k.
Proof. unfold u64. change 18446744073709551616 with (2 ^ 64). apply tb_mod_pow2. lia. Qed.

Lemma tb_shl a n k : 0 <= n -> Z.testbit (Z.shiftl a n) k = (n <=? k) && Z.testbit a (k - n).
Proof.
  intros Hn. destruct (Z.lt_ge_cases k 0) as [Hk|Hk].
  - rewrite Z.testbit_neg_r by lia. replace (n <=? k) with false by lia. reflexivity.
  - rewrite Z.shiftl_spec by lia. destruct (Z.leb_spec n k); [reflexivity|].
    rewrite Z.testbit_neg_r by lia. reflexivity.
Qed.
Lemma tb_shr a n k : 0 <= n -> Z.testbit (Z.shiftr a n) k = (0 <=? k) && Z.testbit a (k + n).
Proof.
  intros Hn. destruct (Z.leb_spec 0 k) as [Hk|Hk].
  - rewrite Z.shiftr_spec by lia. reflexivity.
  - rewrite Z.testbit_neg_r by lia. reflexivity.
Qed.
Lemma tb_one k : Z.testbit 1 k = (k =? 0).
Proof.
  destruct (Z.eqb_spec k 0) as [->|H]; [reflexivity|].
  destruct (Z.lt_ge_cases k 0); [apply Z.testbit_neg_r; lia|].
  apply (tb_small 1 1); lia.
Qed.
Lemma tb_neg a k : k < 0 -> Z.testbit a k = false.
Proof. apply Z.testbit_neg_r. Qed.

(* a value below 2^16 has no bit at 16 or above; a non-negative one equals its low 16 bits *)
Definition v16 (n : Z) : Prop := 0 <= n < 65536.
Lemma tb_v16 n k : v16 n -> 16 <= k -> Z.testbit n k = false.
Proof. intros H Hk. apply (tb_small n 16); [exact H | exact Hk]. Qed.

(* ---- the accessors, bit by bit ------------------------------------------------ *)
Lemma len_spec f i : Z.testbit (flag_len f) i = (0 <=? i) && (i <? 16) && Z.testbit f (i + 48).
Proof. unfold flag_len. rewrite tb_u16, tb_shr by lia. destruct (0 <=? i), (i <? 16); reflexivity. Qed.
Lemma position_spec f i : Z.testbit (flag_position f) i = (0 <=? i) && (i <? 16) && Z.testbit f (i + 32).
Proof. unfold flag_position. rewrite tb_u16, tb_shr by lia. destruct (0 <=? i), (i <? 16); reflexivity. Qed.
Lemma group_spec f i : Z.testbit (flag_group f) i = (0 <=? i) && (i <? 16) && Z.testbit f (i + 16).
Proof. unfold flag_group. rewrite tb_u16, tb_shr by lia. destruct (0 <=? i), (i <? 16); reflexivity. Qed.

(* case analysis on every comparison in the goal; contradictory branches die by lia *)
Ltac cmp_split :=
  repeat match goal with
  | |- context [?a <? ?b] => destruct (Z.ltb_spec a b)
  | |- context [?a <=? ?b] => destruct (Z.leb_spec a b)
  | |- context [?a =? ?b] => destruct (Z.eqb_spec a b)
  end; cbn [andb orb negb]; try lia.
(* what is left: equal bits at equal positions, or a bit outside its value's range *)
Ltac tb_close :=
  rewrite ?andb_true_r, ?andb_false_r, ?orb_false_r, ?orb_true_r;
  try reflexivity;
  try (f_equal; lia);
  try (f_equal; f_equal; lia).

(* ---- the three setters, bit by bit --------------------------------------------- *)
Lemma set_len_spec f n i : v16 n ->
  Z.testbit (flag_set_len f n) i =
  if i <? 0 then false
  else if i =? 0 then true
  else if i <? 32 then Z.testbit f i
  else if i <? 48 then Z.testbit f i
  else if i <? 64 then Z.testbit n (i - 48) else false.
Proof.
  intros Hn. unfold flag_set_len, FlagFrag.
  rewrite !Z.lor_spec, !tb_u64, tb_u32, !tb_shl, position_spec, tb_one by lia.
  cmp_split; tb_close; try (rewrite (tb_v16 n) by (exact Hn || lia)); tb_close.
  all: rewrite tb_neg by lia; reflexivity.
Qed.

Lemma set_position_spec f n i : v16 n ->
  Z.testbit (flag_set_position f n) i =
  if i <? 0 then false
  else if i =? 0 then true
  else if i <? 32 then Z.testbit f i
  else if i <? 48 then Z.testbit n (i - 32)
  else if i <? 64 then Z.testbit f i else false.
Proof.
  intros Hn. unfold flag_set_position, FlagFrag.
  rewrite !Z.lor_spec, !tb_u64, tb_u32, !tb_shl, len_spec, tb_one by lia.
  cmp_split; tb_close; try (rewrite (tb_v16 n) by (exact Hn || lia)); tb_close.
  all: rewrite tb_neg by lia; reflexivity.
Qed.

Lemma set_group_spec f n i : v16 n ->
  Z.testbit (flag_set_group f n) i =
  if i <? 0 then false
  else if i =? 0 then true
  else if i <? 16 then Z.testbit f i
  else if i <? 32 then Z.testbit n (i - 16)
  else if i <? 64 then Z.testbit f i else false.
Proof.
  intros Hn. unfold flag_set_group, FlagFrag.
  rewrite !Z.lor_spec, !tb_u64, tb_u16, !tb_shl, tb_shr, tb_one by lia.
  cmp_split; tb_close; try (rewrite (tb_v16 n) by (exact Hn || lia)); tb_close.
  all: rewrite tb_neg by lia; reflexivity.
Qed.

(* ---- field independence ------------------------------------------------------------
   for ALL words f (no range needed) and all 16-bit values n *)
Ltac field_tac n Hn :=
  apply Z.bits_inj'; intros i Hi;
  rewrite ?Z.lor_spec, ?len_spec, ?position_spec, ?group_spec, ?tb_u16, ?tb_one;
  rewrite ?set_len_spec, ?set_position_spec, ?set_group_spec by exact Hn;
  cmp_split; tb_close;
  try (rewrite (tb_v16 n) by (exact Hn || lia)); tb_close.

Lemma len_set_len f n : v16 n -> flag_len (flag_set_len f n) = n.
Proof. intros Hn. field_tac n Hn. Qed.
Lemma position_set_len f n : v16 n -> flag_position (flag_set_len f n) = flag_position f.
Proof. intros Hn. field_tac n Hn. Qed.
Lemma group_set_len f n : v16 n -> flag_group (flag_set_len f n) = flag_group f.
Proof. intros Hn. field_tac n Hn. Qed.
Lemma bits_set_len f n : v16 n -> u16 (flag_set_len f n) = Z.lor (u16 f) FlagFrag.
Proof. intros Hn. unfold FlagFrag. field_tac n Hn. Qed.

Lemma len_set_position f n : v16 n -> flag_len (flag_set_position f n) = flag_len f.
Proof. intros Hn. field_tac n Hn. Qed.
Lemma position_set_position f n : v16 n -> flag_position (flag_set_position f n) = n.
Proof. intros Hn. field_tac n Hn. Qed.
Lemma group_set_position f n : v16 n -> flag_group (flag_set_position f n) = flag_group f.
Proof. intros Hn. field_tac n Hn. Qed.
Lemma bits_set_position f n : v16 n -> u16 (flag_set_position f n) = Z.lor (u16 f) FlagFrag.
Proof. intros Hn. unfold FlagFrag. field_tac n Hn. Qed.

Lemma len_set_group f n : v16 n -> flag_len (flag_set_group f n) = flag_len f.
Proof. intros Hn. field_tac n Hn. Qed.
Lemma position_set_group f n : v16 n -> flag_position (flag_set_group f n) = flag_position f.
Proof. intros Hn. field_tac n Hn. Qed.
Lemma group_set_group f n : v16 n -> flag_group (flag_set_group f n) = n.
Proof. intros Hn. field_tac n Hn. Qed.
Lemma bits_set_group f n : v16 n -> u16 (flag_set_group f n) = Z.lor (u16 f) FlagFrag.
Proof. intros Hn. unfold FlagFrag. field_tac n Hn. Qed.

(* the bit part: Set / Unset of flag bits (a 16-bit mask) never touch the fragment fields *)
Ltac set_tac n Hn :=
  unfold flag_set; apply Z.bits_inj'; intros i Hi;
  rewrite ?Z.lor_spec, ?len_spec, ?position_spec, ?group_spec, ?tb_u16, ?Z.lor_spec;
  cmp_split; tb_close;
  try (rewrite (tb_v16 n) by (exact Hn || lia)); tb_close.
Lemma len_set f n : v16 n -> flag_len (flag_set f n) = flag_len f.
Proof. intros Hn. set_tac n Hn. Qed.
Lemma position_set f n : v16 n -> flag_position (flag_set f n) = flag_position f.
Proof. intros Hn. set_tac n Hn. Qed.
Lemma group_set f n : v16 n -> flag_group (flag_set f n) = flag_group f.
Proof. intros Hn. set_tac n Hn. Qed.
Lemma bits_set f n : v16 n -> u16 (flag_set f n) = Z.lor (u16 f) n.
Proof. intros Hn. set_tac n Hn. Qed.

Ltac unset_tac n Hn :=
  unfold flag_unset; apply Z.bits_inj'; intros i Hi;
  rewrite ?Z.ldiff_spec, ?len_spec, ?position_spec, ?group_spec, ?tb_u16, ?Z.ldiff_spec;
  cmp_split; tb_close;
  try (rewrite (tb_v16 n) by (exact Hn || lia)); cbn [negb]; tb_close.
Lemma len_unset f n : v16 n -> flag_len (flag_unset f n) = flag_len f.
Proof. intros Hn. unset_tac n Hn. Qed.
Lemma position_unset f n : v16 n -> flag_position (flag_unset f n) = flag_position f.
Proof. intros Hn. unset_tac n Hn. Qed.
Lemma group_unset f n : v16 n -> flag_group (flag_unset f n) = flag_group f.
Proof. intros Hn. unset_tac n Hn. Qed.
Lemma bits_unset f n : v16 n -> u16 (flag_unset f n) = Z.ldiff (u16 f) n.
Proof. intros Hn. unset_tac n Hn. Qed.

Lemma set_bits_independent f n : v16 n ->
  flag_len (flag_set f n) = flag_len f /\ flag_position (flag_set f n) = flag_position f /\
  flag_group (flag_set f n) = flag_group f /\ u16 (flag_set f n) = Z.lor (u16 f) n.
Proof. intros H. repeat split; [apply len_set | apply position_set | apply group_set | apply bits_set]; exact H. Qed.
Lemma unset_bits_independent f n : v16 n ->
  flag_len (flag_unset f n) = flag_len f /\ flag_position (flag_unset f n) = flag_position f /\
  flag_group (flag_unset f n) = flag_group f /\ u16 (flag_unset f n) = Z.ldiff (u16 f) n.
Proof. intros H. repeat split; [apply len_unset | apply position_unset | apply group_unset | apply bits_unset]; exact H. Qed.

(* ---- Clear, as the code has it: Flag(uint16(f)) ^ FlagFrag ------------------------ *)
Lemma clear_spec f i : Z.testbit (flag_clear f) i = xorb ((i <? 16) && Z.testbit f i) (i =? 0).
Proof. unfold flag_clear, FlagFrag. rewrite Z.lxor_spec, tb_u16, tb_one. reflexivity. Qed.

Lemma clear_fields_zero f :
  flag_len (flag_clear f) = 0 /\ flag_position (flag_clear f) = 0 /\ flag_group (flag_clear f) = 0.
Proof.
  repeat split; apply Z.bits_inj'; intros i Hi;
    rewrite ?len_spec, ?position_spec, ?group_spec, clear_spec, Z.bits_0; cmp_split.
Qed.
(* on a fragment word: the frag bit is cleared and the other 15 flag bits survive *)
Lemma clear_keeps_bits_of_frag f : Z.testbit f 0 = true -> flag_clear f = Z.ldiff (u16 f) FlagFrag.
Proof.
  intros H. unfold FlagFrag. apply Z.bits_inj'; intros i Hi.
  rewrite clear_spec, Z.ldiff_spec, tb_u16, tb_one. cmp_split; subst; rewrite ?H; cbn [xorb negb andb]; tb_close.
  destruct (Z.testbit f i); reflexivity.
Qed.
(* recorded, not condemned by the property: on a word WITHOUT the frag bit Clear sets it (XOR) *)
Lemma clear_sets_frag_when_absent f : Z.testbit f 0 = false -> flag_clear f = Z.lor (u16 f) FlagFrag.
Proof.
  intros H. unfold FlagFrag. apply Z.bits_inj'; intros i Hi.
  rewrite clear_spec, Z.lor_spec, tb_u16, tb_one. cmp_split; subst; rewrite ?H; cbn [xorb orb andb]; tb_close.
  destruct (Z.testbit f i); reflexivity.
Qed.
(* what the receiver does with a single-fragment packet: after any setter, Clear gives back the
   16 flag bits of the original word without the frag bit *)
Lemma clear_after_setter f n : v16 n ->
  flag_clear (flag_set_len f n) = Z.ldiff (u16 f) FlagFrag /\
  flag_clear (flag_set_position f n) = Z.ldiff (u16 f) FlagFrag /\
  flag_clear (flag_set_group f n) = Z.ldiff (u16 f) FlagFrag.
Proof.
  intros Hn. unfold FlagFrag. repeat split; apply Z.bits_inj'; intros i Hi;
    rewrite clear_spec, Z.ldiff_spec, tb_u16, tb_one;
    rewrite ?set_len_spec, ?set_position_spec, ?set_group_spec by exact Hn;
    cmp_split; cbn [xorb negb andb]; tb_close; destruct (Z.testbit f i); reflexivity.
Qed.

(* ---- the setters stay inside 64 bits ------------------------------------------------ *)
Lemma lt_pow2_bits a n : 0 <= n -> 0 <= a -> (forall i, n <= i -> Z.testbit a i = false) -> a < 2 ^ n.
Proof.
  intros Hn Ha H. replace a with (a mod 2 ^ n); [apply Z.mod_pos_bound; lia|].
  apply Z.bits_inj'. intros i Hi. rewrite tb_mod_pow2 by lia.
  destruct (Z.ltb_spec i n) as [L|L]; [reflexivity|]. rewrite H by lia. reflexivity.
Qed.
Lemma u_nonneg x : 0 <= u16 x /\ 0 <= u32 x /\ 0 <= u64 x.
Proof. unfold u16, u32, u64. lia. Qed.
Lemma setters_in_range f n : v16 n ->
  0 <= flag_set_len f n < 18446744073709551616 /\
  0 <= flag_set_position f n < 18446744073709551616 /\
  0 <= flag_set_group f n < 18446744073709551616.
Proof.
  intros Hn. change 18446744073709551616 with (2 ^ 64).
  assert (N : forall a b c, 0 <= a -> 0 <= b -> 0 <= c -> 0 <= Z.lor (Z.lor (Z.lor a b) c) FlagFrag).
  { intros. unfold FlagFrag. repeat (apply Z.lor_nonneg; split); lia. }
  repeat split.
  - apply N; apply u_nonneg.
  - apply lt_pow2_bits; [lia | apply N; apply u_nonneg|]. intros i Hi. rewrite set_len_spec by exact Hn. cmp_split.
  - apply N; apply u_nonneg.
  - apply lt_pow2_bits; [lia | apply N; apply u_nonneg|]. intros i Hi. rewrite set_position_spec by exact Hn. cmp_split.
  - apply N; apply u_nonneg.
  - apply lt_pow2_bits; [lia | apply N; apply u_nonneg|]. intros i Hi. rewrite set_group_spec by exact Hn. cmp_split.
Qed.

(* ==== 2. Marshal ================================================================ *)

(* wf, unpacked *)
Record WF (p : packet) : Prop := mkWF {
  wf_id : 0 <= p_id p < 256;
  wf_job : 0 <= p_job p < 65536;
  wf_flags : 0 <= p_flags p < 18446744073709551616;
  wf_tags : Forall (fun t => 0 < t < 4294967296) (p_tags p);
  wf_ntags : len (p_tags p) <= PacketMaxTags;
  wf_devlen : len (p_dev p) = IDSize;
  wf_dev0 : exists b r, p_dev p = b :: r /\ b <> 0;
  wf_paylen : len (p_pay p) < 9223372036854775808;
  wf_rpos : 0 <= p_rpos p <= len (p_pay p) }.

Lemma wf_WF p : wf p = true -> WF p.
Proof.
  unfold wf. rewrite !andb_true_iff. intros [[[[[[[[[[[[[[A B] C] D] E] F] G] H] I] J] K] L] M] N] O].
  constructor; try lia.
  - rewrite forallb_forall in G. apply Forall_forall. intros t Ht. specialize (G t Ht). unfold nonzero_tag in G. lia.
  - destruct (p_dev p) as [|b r]; [discriminate|]. exists b, r. split; [reflexivity|]. intros ->. discriminate.
Qed.

Lemma write_tags_ok ts : Forall (fun t => 0 < t < 4294967296) ts -> write_tags ts = Ok (concat (map be32 ts)).
Proof.
  induction 1 as [|t ts Ht _ IH]; [reflexivity|]. cbn [write_tags map concat].
  replace (t =? 0) with false by lia. rewrite IH. reflexivity.
Qed.

(* after Seek(0,0) WriteTo writes the whole buffer *)
Lemma write_to_rewind p : write_to (rewind p) = p_pay p.
Proof.
  unfold write_to, chunk_empty, unread_bytes, rewind, set_rpos. cbn [p_pay p_rpos].
  destruct (Z.leb_spec (len (p_pay p)) 0) as [H|H].
  - destruct (p_pay p) as [|x l]; [reflexivity | rewrite len_cons in H; pose proof (len_nonneg l); lia].
  - apply drop_nonpos. lia.
Qed.

Theorem marshal_wf p : wf p = true -> marshal p = Ok (wire p).
Proof.
  intros H. apply wf_WF in H. destruct H. unfold marshal, write_header, write_body, wire.
  replace (PacketMaxTags <? len (p_tags p)) with false by lia. cbn [bind].
  rewrite write_tags_ok by assumption. cbn [bind]. rewrite write_to_rewind.
  destruct (chunk_size (rewind p) =? 0) eqn:E0; [|reflexivity].
  unfold chunk_size, rewind, set_rpos in E0. cbn [p_pay] in E0.
  destruct (p_pay p) as [|x l]; [rewrite !app_nil_r; reflexivity | rewrite len_cons in E0; pose proof (len_nonneg l); lia].
Qed.

(* the number of length bytes after the class byte *)
Definition len_bytes (l : Z) : Z :=
  if l =? 0 then 0 else if l <? 256 then 1 else if l <? 65536 then 2 else if l <? 4294967296 then 4 else 8.

Lemma len_prefix_length l : len (len_prefix l) = 1 + len_bytes l.
Proof.
  unfold len_prefix, len_bytes, LimitSmall, LimitMedium, LimitLarge.
  destruct (l =? 0); [reflexivity|].
  destruct (l <? 256); [reflexivity|].
  destruct (l <? 65536); [reflexivity|].
  destruct (l <? 4294967296); reflexivity.
Qed.

Lemma len_concat_be32 ts : len (concat (map be32 ts)) = 4 * len ts.
Proof.
  induction ts as [|t ts IH]; [reflexivity|]. cbn [map concat]. rewrite len_app, len_cons, IH, len_be32. lia.
Qed.

Lemma header_length p : len (p_dev p) = IDSize ->
  len (header_bytes p) = PacketHeaderSize + len_bytes (len (p_pay p)).
Proof.
  intros H. unfold header_bytes. rewrite !len_app, H, len_prefix_length, !len_be16, len_be64.
  unfold IDSize, PacketHeaderSize. rewrite len_cons, len_nil. lia.
Qed.

(* 46 + length bytes + 4 * tags + payload *)
Theorem marshal_length p b : wf p = true -> marshal p = Ok b ->
  len b = PacketHeaderSize + len_bytes (len (p_pay p)) + 4 * len (p_tags p) + len (p_pay p).
Proof.
  intros H E. rewrite marshal_wf in E by exact H. injection E as <-. apply wf_WF in H. destruct H.
  unfold wire. rewrite !len_app, header_length, len_concat_be32 by assumption. lia.
Qed.

(* Size() against the real length: never smaller while unread payload remains; on an empty payload
   it ignores the tags (recorded); on a payload consumed to its end it is the bare header size
   although Marshal writes the whole buffer (recorded) *)
Lemma size_ge_marshal p b : wf p = true -> marshal p = Ok b -> p_rpos p < len (p_pay p) -> len b <= size p.
Proof.
  intros H E Hne. rewrite (marshal_length p b H E). unfold size, chunk_empty, len_bytes, PacketHeaderSize, LimitSmall, LimitMedium, LimitLarge.
  apply wf_WF in H. destruct H as [_ _ _ _ _ _ _ _ R].
  pose proof (len_nonneg (p_tags p)).
  replace (len (p_pay p) <=? p_rpos p) with false by lia.
  replace (len (p_pay p) =? 0) with false by lia.
  destruct (len (p_pay p) <? 256) eqn:A, (len (p_pay p) <? 65536) eqn:B, (len (p_pay p) <? 4294967296) eqn:C;
  destruct (len (p_pay p) + 46 + 4 * len (p_tags p) <? 256) eqn:A', (len (p_pay p) + 46 + 4 * len (p_tags p) <? 65536) eqn:B',
           (len (p_pay p) + 46 + 4 * len (p_tags p) <? 4294967296) eqn:C'; lia.
Qed.
Lemma size_empty_ignores_tags p b : wf p = true -> marshal p = Ok b -> p_pay p = [] ->
  size p = PacketHeaderSize /\ len b = PacketHeaderSize + 4 * len (p_tags p).
Proof.
  intros H E Hp. rewrite (marshal_length p b H E). apply wf_WF in H. destruct H as [_ _ _ _ _ _ _ _ R].
  unfold size, chunk_empty, len_bytes. rewrite Hp in *. rewrite len_nil in *.
  replace (0 <=? p_rpos p) with true by lia. cbn. lia.
Qed.
Lemma size_consumed_is_header p : p_rpos p = len (p_pay p) -> size p = PacketHeaderSize.
Proof. intros H. unfold size, chunk_empty. replace (len (p_pay p) <=? p_rpos p) with true by lia. reflexivity. Qed.

(* ==== 3. Unmarshal over short reads ================================================ *)

(* a reader g CONSUMES exactly `bytes` and yields a: whatever follows, however the stream is split *)
Definition consumes {A} (g : src -> res (A * src)) (bytes : list Z) (a : A) : Prop :=
  forall s rest, no_empty s -> concat s = bytes ++ rest ->
  exists s', g s = Ok (a, s') /\ concat s' = rest /\ no_empty s'.

Lemma read_full_exact bytes n : len bytes = n ->
  consumes (fun s => read_full (src_fuel s n) n s []) bytes bytes.
Proof.
  intros Hn s rest Hs Hc.
  destruct (read_full_ok s (src_fuel s n) n [] Hs) as (s' & E & C & N).
  - unfold src_fuel. lia.
  - rewrite Hc, len_app. pose proof (len_nonneg rest). lia.
  - exists s'. rewrite E, C, Hc, take_app_exact, drop_app_exact by exact Hn. repeat split. exact N.
Qed.

Lemma read_device_ok d b r : len d = IDSize -> d = b :: r -> b <> 0 -> consumes read_device d d.
Proof.
  intros Hl Hd Hb s rest Hs Hc. unfold read_device.
  destruct (read_full_exact d IDSize Hl s rest Hs Hc) as (s' & E & C & N). rewrite E. cbn [bind].
  exists s'. rewrite Hd at 1. replace (b =? 0) with false by lia. repeat split; assumption.
Qed.

Lemma parse_fixed_ok p c : 0 <= p_id p < 256 -> 0 <= p_job p < 65536 -> 0 <= p_flags p < 18446744073709551616 ->
  0 <= len (p_tags p) < 65536 ->
  parse_fixed (fixed14 p c) = Ok (p_id p, p_job p, p_flags p, len (p_tags p), c).
Proof.
  intros A B C D. unfold parse_fixed, fixed14.
  change [u8 (p_id p)] with (enc_u8 (p_id p)). rewrite rd_u8_enc by exact A. cbn [bind].
  change (be16 (p_job p)) with (enc_u16 (p_job p)). rewrite rd_u16_enc by exact B. cbn [bind].
  change (be64 (p_flags p)) with (enc_u64 (p_flags p)). rewrite rd_u64_enc by exact C. cbn [bind].
  change (be16 (len (p_tags p))) with (enc_u16 (len (p_tags p))). rewrite rd_u16_enc by exact D. cbn [bind rd_u8].
  reflexivity.
Qed.

(* the class byte and the length bytes of writeHeader, as readHeader's switch understands them *)
Lemma len_prefix_spec l : 0 <= l < 18446744073709551616 ->
  exists c lb, len_prefix l = c :: lb /\ class_width c = Ok (len lb) /\ of_be lb 0 = l.
Proof.
  intros H. unfold len_prefix, LimitSmall, LimitMedium, LimitLarge.
  destruct (Z.eqb_spec l 0) as [->|E0]; [exists 0, []; repeat split|].
  destruct (Z.ltb_spec l 256); [exists 1, [u8 l]; repeat split; cbn [of_be]; rewrite u8_small by lia; lia|].
  destruct (Z.ltb_spec l 65536); [exists 3, (be16 l); repeat split; apply of_be_be16; lia|].
  destruct (Z.ltb_spec l 4294967296); [exists 5, (be32 l); repeat split; apply of_be_be32; lia|].
  exists 7, (be64 l); repeat split; apply of_be_be64; lia.
Qed.

Lemma class_width_nonneg c w : class_width c = Ok w -> 0 <= w.
Proof.
  unfold class_width. destruct (c =? 0); [intros [= <-]; lia|]. destruct (c =? 1); [intros [= <-]; lia|].
  destruct (c =? 3); [intros [= <-]; lia|]. destruct (c =? 5); [intros [= <-]; lia|].
  destruct (c =? 7); [intros [= <-]; lia | discriminate].
Qed.

Lemma read_header_ok p : WF p ->
  consumes read_header (header_bytes p) (p_dev p, p_id p, p_job p, p_flags p, len (p_tags p), len (p_pay p)).
Proof.
  intros [A B C D E F (b0 & r0 & Hd & Hb0) G] s rest Hs Hc.
  pose proof (len_nonneg (p_pay p)) as Lp. pose proof (len_nonneg (p_tags p)) as Lt. unfold PacketMaxTags in E.
  destruct (len_prefix_spec (len (p_pay p))) as (c & lb & Ep & Ew & El); [lia|].
  assert (Hh : header_bytes p ++ rest = p_dev p ++ (fixed14 p c ++ (lb ++ rest))).
  { unfold header_bytes, fixed14. rewrite Ep. rewrite <- !app_assoc. cbn [app]. reflexivity. }
  rewrite Hh in Hc. unfold read_header.
  destruct (read_device_ok (p_dev p) b0 r0 F Hd Hb0 s _ Hs Hc) as (s1 & E1 & C1 & N1). rewrite E1. cbn [bind].
  destruct (read_full_exact (fixed14 p c) 14 (eq_refl _) s1 _ N1 C1) as (s2 & E2 & C2 & N2). rewrite E2. cbn [bind].
  rewrite parse_fixed_ok by lia. cbn [bind]. rewrite Ew. cbn [bind].
  destruct (read_full_exact lb (len lb) (eq_refl _) s2 _ N2 C2) as (s3 & E3 & C3 & N3). rewrite E3. cbn [bind].
  rewrite El. exists s3. repeat split; assumption.
Qed.

Lemma read_tags_ok ts : Forall (fun t => 0 < t < 4294967296) ts ->
  consumes (read_tags (length ts)) (concat (map be32 ts)) ts.
Proof.
  induction 1 as [|t ts Ht _ IH]; intros s rest Hs Hc.
  - exists s. repeat split; assumption.
  - cbn [length read_tags map concat] in *. rewrite <- app_assoc in Hc.
    destruct (read_full_exact (be32 t) 4 (eq_refl _) s _ Hs Hc) as (s1 & E1 & C1 & N1). rewrite E1. cbn [bind].
    rewrite of_be_be32 by lia. replace (t =? 0) with false by lia.
    destruct (IH s1 rest N1 C1) as (s2 & E2 & C2 & N2). rewrite E2. cbn [bind].
    exists s2. repeat split; assumption.
Qed.

(* ---- the payload loop: never asks for more than is still owed, so nothing is over-read -- *)
Lemma len_drop {A} (l : list A) k : 0 <= k <= len l -> len (drop k l) = len l - k.
Proof. intros. unfold len, drop in *. rewrite skipn_length. lia. Qed.
Lemma nonempty_len {A} (l : list A) : l <> [] <-> 0 < len l.
Proof. destruct l; [split; [contradiction | cbn; lia] | split; [intros _; rewrite len_cons; pose proof (len_nonneg l); lia | discriminate]]. Qed.
Lemma is_nil_false {A} (l : list A) : 0 < len l -> is_nil l = false.
Proof. destruct l; [cbn; lia | reflexivity]. Qed.
Lemma length_len {A} (l : list A) : Z.of_nat (length l) = len l.
Proof. reflexivity. Qed.

Lemma read_body_ok : forall fuel s k acc first,
  no_empty s -> (length s + length (concat s) < fuel)%nat -> k <= len (concat s) ->
  exists s', read_body fuel k s acc first = Ok (acc ++ take k (concat s), s') /\
             concat s' = drop k (concat s) /\ no_empty s'.
Proof.
  induction fuel as [|fuel IH]; intros s k acc first Hs Hf Hk; [lia|].
  destruct (Z.leb_spec k 0) as [Hk0|Hk0].
  - exists s. cbn [read_body]. replace (k <=? 0) with true by lia.
    rewrite take_nonpos, drop_nonpos, app_nil_r by lia. repeat split. exact Hs.
  - cbn [read_body]. replace (k <=? 0) with false by lia.
    destruct s as [|c rest]; [cbn [concat] in Hk; rewrite len_nil in Hk; lia|].
    inversion Hs as [|? ? Hc Hrest]; subst. apply nonempty_len in Hc.
    cbn [concat] in *. rewrite len_app in Hk. rewrite app_length in Hf. cbn [length] in Hf.
    set (m := Z.min k bufSize). assert (Hm : 1 <= m <= k) by (unfold m, bufSize; lia).
    cbn [read1]. destruct (Z.leb_spec (len c) m) as [Hle|Hgt].
    + rewrite is_nil_false by exact Hc.
      destruct (IH rest (k - len c) (acc ++ c) false Hrest) as (s' & E & C & N); [lia | lia |].
      exists s'. rewrite E, take_take_app, drop_drop_app, app_assoc by lia. repeat split; assumption.
    + assert (Hl : len (take m c) = m) by (apply len_take; lia).
      rewrite is_nil_false by lia. rewrite Hl.
      assert (Hd : len (drop m c) = len c - m) by (apply len_drop; lia).
      destruct (IH (drop m c :: rest) (k - m) (acc ++ take m c) false) as (s' & E & C & N).
      * constructor; [apply nonempty_len; lia | exact Hrest].
      * cbn [concat length]. rewrite app_length. unfold len in Hd, Hc. lia.
      * cbn [concat]. rewrite len_app. lia.
      * exists s'. rewrite E. cbn [concat] in *.
        assert (T : take k (c ++ concat rest) = take m c ++ take (k - m) (drop m c ++ concat rest)).
        { rewrite <- (take_drop_app c m) at 1. rewrite <- app_assoc, take_take_app by lia. rewrite Hl. reflexivity. }
        assert (D : drop k (c ++ concat rest) = drop (k - m) (drop m c ++ concat rest)).
        { rewrite <- (take_drop_app c m) at 1. rewrite <- app_assoc, drop_drop_app by lia. rewrite Hl. reflexivity. }
        rewrite T, D, app_assoc. repeat split; assumption.
Qed.

Lemma read_body_exact pay : pay <> [] ->
  consumes (fun s => read_body (body_fuel s) (len pay) s [] true) pay pay.
Proof.
  intros Hp s rest Hs Hc.
  destruct (read_body_ok (body_fuel s) s (len pay) [] true Hs) as (s' & E & C & N).
  - unfold body_fuel. lia.
  - rewrite Hc, len_app. pose proof (len_nonneg rest). lia.
  - exists s'. rewrite E, C, Hc, take_app_exact, drop_app_exact by reflexivity. repeat split. exact N.
Qed.

(* THE round trip of the wire form: for every split of (wire p ++ rest) into non-empty short
   reads the reader returns exactly p and leaves exactly rest *)
Lemma unmarshal_wire p : wf p = true -> consumes unmarshal (wire p) (rewind p).
Proof.
  intros H s rest Hs Hc. apply wf_WF in H. pose proof H as W. destruct H as [A B C D E F G I R].
  unfold wire in Hc. rewrite <- !app_assoc in Hc. unfold unmarshal.
  destruct (read_header_ok p W s _ Hs Hc) as (s1 & E1 & C1 & N1). rewrite E1. cbn [bind].
  unfold len at 1. rewrite Nat2Z.id.
  destruct (read_tags_ok (p_tags p) D s1 _ N1 C1) as (s2 & E2 & C2 & N2). rewrite E2. cbn [bind].
  destruct (Z.eqb_spec (len (p_pay p)) 0) as [Z0|Z0].
  - assert (Hp : p_pay p = []) by (destruct (p_pay p); [reflexivity | rewrite len_cons in Z0; pose proof (len_nonneg l); lia]).
    cbn [bind]. rewrite Hp in C2. exists s2. destruct p; unfold rewind, set_rpos; cbn in *; subst. repeat split; assumption.
  - assert (Hp : p_pay p <> []) by (intros Hp; rewrite Hp in Z0; apply Z0; reflexivity).
    destruct (read_body_exact (p_pay p) Hp s2 rest N2 C2) as (s3 & E3 & C3 & N3). rewrite E3. cbn [bind].
    exists s3. destruct p; unfold rewind, set_rpos; cbn in *. repeat split; assumption.
Qed.

(* the reader hands out a fresh packet: the whole buffer, cursor at 0 (= p itself when p is fresh) *)
Lemma rewind_fresh p : p_rpos p = 0 -> rewind p = p.
Proof. destruct p; unfold rewind, set_rpos; cbn. intros ->. reflexivity. Qed.

Theorem unmarshal_marshal p b s rest :
  wf p = true -> marshal p = Ok b -> no_empty s -> concat s = b ++ rest ->
  exists s', unmarshal s = Ok (rewind p, s') /\ concat s' = rest /\ no_empty s'.
Proof.
  intros H E. rewrite marshal_wf in E by exact H. injection E as <-. apply unmarshal_wire. exact H.
Qed.

(* ==== 4. concatenated packets on one stream ============================================ *)
Lemma wire_nonempty p : wf p = true -> wire p <> [].
Proof.
  intros H. apply wf_WF in H. destruct H as [_ _ _ _ _ _ (b & r & Hd & _) _].
  unfold wire, header_bytes. rewrite Hd. discriminate.
Qed.

Lemma no_empty_concat_nil s : no_empty s -> concat s = [] -> s = [].
Proof.
  intros Hs Hc. destruct s as [|c r]; [reflexivity|]. inversion Hs; subst.
  cbn [concat] in Hc. apply app_eq_nil in Hc. tauto.
Qed.

Lemma unmarshal_many_wire ps : Forall (fun p => wf p = true) ps ->
  forall fuel s, (length ps <= fuel)%nat -> no_empty s -> concat s = concat (map wire ps) ->
  unmarshal_many fuel s = Ok (map rewind ps).
Proof.
  induction 1 as [|p ps Hp _ IH]; intros fuel s Hf Hs Hc.
  - cbn [map concat] in Hc. rewrite (no_empty_concat_nil s Hs Hc). destruct fuel; reflexivity.
  - cbn [map concat length] in *. destruct fuel as [|fuel]; [lia|].
    destruct s as [|c r]. { cbn [concat] in Hc. symmetry in Hc. apply app_eq_nil in Hc. destruct (wire_nonempty p Hp). tauto. }
    cbn [unmarshal_many].
    destruct (unmarshal_wire p Hp (c :: r) _ Hs Hc) as (s' & E & C & N). rewrite E. cbn [bind].
    rewrite (IH fuel s') by (lia || assumption). reflexivity.
Qed.

Lemma count_le_bytes ps : Forall (fun p => wf p = true) ps -> (length ps <= length (concat (map wire ps)))%nat.
Proof.
  induction 1 as [|p ps Hp _ IH]; [cbn; lia|]. cbn [map concat length]. rewrite app_length.
  pose proof (wire_nonempty p Hp). destruct (wire p); [contradiction | cbn [length]; lia].
Qed.

(* packets written one after another on one stream are read back one after another, for every
   split of the stream into non-empty short reads; the fuel is the one `check` uses (CMany) *)
Theorem packets_concat ps bs s :
  Forall (fun p => wf p = true) ps -> Forall2 (fun p b => marshal p = Ok b) ps bs ->
  no_empty s -> concat s = concat bs ->
  unmarshal_many (S (length (concat s))) s = Ok (map rewind ps).
Proof.
  intros Hw Hm Hs Hc.
  assert (Hb : bs = map wire ps).
  { clear Hc. induction Hm as [|p b ps bs E _ IH]; [reflexivity|]. inversion Hw; subst.
    rewrite marshal_wf in E by assumption. injection E as <-. cbn [map]. f_equal. apply IH. assumption. }
  subst bs. apply unmarshal_many_wire; try assumption. rewrite Hc. pose proof (count_le_bytes ps Hw). lia.
Qed.

(* ==== 5. the nested stream form ========================================================== *)
Record WFS (p : packet) : Prop := mkWFS { wfs_wf : WF p; wfs_pay : len (p_pay p) <= MaxSlice }.
Lemma wf_stream_WFS p : wf_stream p = true -> WFS p.
Proof. unfold wf_stream. rewrite andb_true_iff. intros [A B]. split; [apply wf_WF; exact A | lia]. Qed.

Lemma rd_dev_ok d b r rest : len d = IDSize -> d = b :: r -> b <> 0 -> rd_dev (d ++ rest) = Ok (d, rest).
Proof.
  intros Hl Hd Hb. unfold rd_dev. rewrite rd_fixed_app by exact Hl. cbn [bind]. rewrite Hd at 1.
  replace (b =? 0) with false by lia. reflexivity.
Qed.

Lemma rd_tags_ok ts : Forall (fun t => 0 < t < 4294967296) ts -> forall rest,
  rd_tags (length ts) (concat (map enc_u32 ts) ++ rest) = Ok (ts, rest).
Proof.
  induction 1 as [|t ts Ht _ IH]; intros rest; [reflexivity|].
  cbn [length rd_tags map concat]. rewrite <- app_assoc, rd_u32_enc by lia. cbn [bind].
  replace (t =? 0) with false by lia. rewrite IH. reflexivity.
Qed.

Lemma take_all {A} (l : list A) n : len l <= n -> take n l = l.
Proof. intros. unfold take, len in *. apply firstn_all2. lia. Qed.

(* the flat (Chunk) reader: exact consumption, so nested packets follow one another *)
Theorem unmarshal_stream_marshal_stream p rest :
  wf_stream p = true -> unmarshal_stream (marshal_stream p ++ rest) = Ok (unread p, rest).
Proof.
  intros H. apply wf_stream_WFS in H. destruct H as [[A B C D E F (b0 & r0 & Hd & Hb0) G R] I].
  pose proof (len_nonneg (p_tags p)) as Lt. unfold PacketMaxTags in E.
  unfold marshal_stream, unmarshal_stream. rewrite <- !app_assoc.
  rewrite rd_u8_enc by exact A. cbn [bind]. rewrite rd_u16_enc by exact B. cbn [bind].
  rewrite u16_small by lia. rewrite rd_u16_enc by lia. cbn [bind].
  rewrite rd_u64_enc by exact C. cbn [bind].
  rewrite (rd_dev_ok (p_dev p) b0 r0) by assumption. cbn [bind].
  unfold PacketMaxTags. rewrite take_all by lia. rewrite Z.min_l by lia.
  unfold len at 1. rewrite Nat2Z.id. rewrite rd_tags_ok by exact D. cbn [bind].
  rewrite rd_bytes_enc by (unfold unread_bytes; rewrite len_drop by lia; lia). cbn [bind].
  unfold tags_pad, PacketMaxTags. rewrite Z.min_l by lia. rewrite Z.sub_diag. cbn [Z.to_nat repeat]. rewrite app_nil_r.
  destruct p; reflexivity.
Qed.

Lemma marshal_stream_nonempty p : marshal_stream p <> [].
Proof. unfold marshal_stream, enc_u8. discriminate. Qed.

Theorem stream_packets_concat ps : Forall (fun p => wf_stream p = true) ps ->
  forall fuel, (length ps <= fuel)%nat ->
  unmarshal_stream_many fuel (concat (map marshal_stream ps)) = Ok (map unread ps).
Proof.
  induction 1 as [|p ps Hp _ IH]; intros fuel Hf; [destruct fuel; reflexivity|].
  cbn [map concat length] in *. destruct fuel as [|fuel]; [lia|].
  pose proof (marshal_stream_nonempty p) as Hn.
  destruct (marshal_stream p ++ concat (map marshal_stream ps)) as [|x l] eqn:Ex.
  { apply app_eq_nil in Ex. tauto. }
  cbn [unmarshal_stream_many]. rewrite <- Ex. rewrite unmarshal_stream_marshal_stream by exact Hp. cbn [bind].
  rewrite IH by lia. reflexivity.
Qed.
(* with the fuel `check` uses (CStreamMany) *)
Corollary stream_packets_concat_check ps : Forall (fun p => wf_stream p = true) ps ->
  let b := concat (map marshal_stream ps) in unmarshal_stream_many (S (length b)) b = Ok (map unread ps).
Proof.
  intros H b. apply stream_packets_concat; [exact H|]. subst b.
  assert (length ps <= length (concat (map marshal_stream ps)))%nat; [|lia].
  clear H. induction ps as [|p ps IH]; [cbn; lia|]. cbn [map concat length]. rewrite app_length.
  pose proof (marshal_stream_nonempty p). destruct (marshal_stream p); [contradiction | cbn [length]; lia].
Qed.

(* ---- the stream reader (data.NewReader over short reads) agrees with the flat reader on
   EVERY input (also malformed ones; error codes aside), for every split into non-empty reads -- *)
Lemma agree_fixed n : 0 <= n -> agree (rd_fixed n) (fun s => read_full (src_fuel s n) n s []).
Proof.
  intros Hn s Hs. unfold rd_fixed.
  destruct (Z.ltb_spec (len (concat s)) n) as [Hlt|Hge].
  - destruct (read_full_short s (src_fuel s n) n [] Hs) as (e & ->); [unfold src_fuel; lia | exact Hlt | exact I].
  - destruct (read_full_ok s (src_fuel s n) n [] Hs) as (s' & -> & Hc & Hn'); [unfold src_fuel; lia | lia |].
    cbn [app]. repeat split; assumption.
Qed.

Lemma agree_dev : agree rd_dev read_device.
Proof.
  unfold rd_dev, read_device.
  apply (agree_bind (rd_fixed IDSize) (fun s => read_full (src_fuel s IDSize) IDSize s [])
    (fun d r => match d with b :: _ => if b =? 0 then Err ErrNoProgress else Ok (d, r) | [] => Err ErrOther end)
    (fun d r => match d with b :: _ => if b =? 0 then Err ErrNoProgress else Ok (d, r) | [] => Err ErrOther end)).
  - apply agree_fixed. unfold IDSize. lia.
  - intros [|b d]; [apply agree_err|]. destruct (b =? 0); [apply agree_err | apply agree_ret].
Qed.

Lemma agree_tags n : agree (rd_tags n) (srd_tags n).
Proof.
  induction n as [|n IH]; cbn [rd_tags srd_tags]; [apply agree_ret|].
  apply (agree_bind rd_u32 (srd_uN 4)
    (fun t r => if t =? 0 then Err ErrMalformedTag else do '(ts, r') <- rd_tags n r; Ok (t :: ts, r'))
    (fun t r => if t =? 0 then Err ErrMalformedTag else do '(ts, r') <- srd_tags n r; Ok (t :: ts, r'))).
  - apply agree_uN. lia.
  - intros t. destruct (t =? 0); [apply agree_err|].
    apply (agree_bind (rd_tags n) (srd_tags n) (fun ts s => Ok (t :: ts, s)) (fun ts s => Ok (t :: ts, s))); [exact IH | intros; apply agree_ret].
Qed.

Theorem stream_readers_agree : agree unmarshal_stream unmarshal_srd.
Proof.
  unfold unmarshal_stream, unmarshal_srd.
  apply (agree_bind rd_u8 srd_u8
    (fun id r1 => do '(job, r2) <- rd_u16 r1; do '(t, r3) <- rd_u16 r2; do '(fl, r4) <- rd_u64 r3; do '(d, r5) <- rd_dev r4;
       do '(ts, r6) <- rd_tags (Z.to_nat (Z.min t PacketMaxTags)) r5; do '(pay, r7) <- rd_bytes r6;
       Ok (mkP id job fl (ts ++ tags_pad t) d pay 0, r7))
    (fun id r1 => do '(job, r2) <- srd_uN 2 r1; do '(t, r3) <- srd_uN 2 r2; do '(fl, r4) <- srd_uN 8 r3; do '(d, r5) <- read_device r4;
       do '(ts, r6) <- srd_tags (Z.to_nat (Z.min t PacketMaxTags)) r5; do '(pay, r7) <- srd_bytes r6;
       Ok (mkP id job fl (ts ++ tags_pad t) d pay 0, r7))); [apply agree_u8|]. intros id.
  apply (agree_bind rd_u16 (srd_uN 2)
    (fun job r2 => do '(t, r3) <- rd_u16 r2; do '(fl, r4) <- rd_u64 r3; do '(d, r5) <- rd_dev r4;
       do '(ts, r6) <- rd_tags (Z.to_nat (Z.min t PacketMaxTags)) r5; do '(pay, r7) <- rd_bytes r6;
       Ok (mkP id job fl (ts ++ tags_pad t) d pay 0, r7))
    (fun job r2 => do '(t, r3) <- srd_uN 2 r2; do '(fl, r4) <- srd_uN 8 r3; do '(d, r5) <- read_device r4;
       do '(ts, r6) <- srd_tags (Z.to_nat (Z.min t PacketMaxTags)) r5; do '(pay, r7) <- srd_bytes r6;
       Ok (mkP id job fl (ts ++ tags_pad t) d pay 0, r7))); [apply agree_uN; lia|]. intros job.
  apply (agree_bind rd_u16 (srd_uN 2)
    (fun t r3 => do '(fl, r4) <- rd_u64 r3; do '(d, r5) <- rd_dev r4;
       do '(ts, r6) <- rd_tags (Z.to_nat (Z.min t PacketMaxTags)) r5; do '(pay, r7) <- rd_bytes r6;
       Ok (mkP id job fl (ts ++ tags_pad t) d pay 0, r7))
    (fun t r3 => do '(fl, r4) <- srd_uN 8 r3; do '(d, r5) <- read_device r4;
       do '(ts, r6) <- srd_tags (Z.to_nat (Z.min t PacketMaxTags)) r5; do '(pay, r7) <- srd_bytes r6;
       Ok (mkP id job fl (ts ++ tags_pad t) d pay 0, r7))); [apply agree_uN; lia|]. intros t.
  apply (agree_bind rd_u64 (srd_uN 8)
    (fun fl r4 => do '(d, r5) <- rd_dev r4;
       do '(ts, r6) <- rd_tags (Z.to_nat (Z.min t PacketMaxTags)) r5; do '(pay, r7) <- rd_bytes r6;
       Ok (mkP id job fl (ts ++ tags_pad t) d pay 0, r7))
    (fun fl r4 => do '(d, r5) <- read_device r4;
       do '(ts, r6) <- srd_tags (Z.to_nat (Z.min t PacketMaxTags)) r5; do '(pay, r7) <- srd_bytes r6;
       Ok (mkP id job fl (ts ++ tags_pad t) d pay 0, r7))); [apply agree_uN; lia|]. intros fl.
  apply (agree_bind rd_dev read_device
    (fun d r5 => do '(ts, r6) <- rd_tags (Z.to_nat (Z.min t PacketMaxTags)) r5; do '(pay, r7) <- rd_bytes r6;
       Ok (mkP id job fl (ts ++ tags_pad t) d pay 0, r7))
    (fun d r5 => do '(ts, r6) <- srd_tags (Z.to_nat (Z.min t PacketMaxTags)) r5; do '(pay, r7) <- srd_bytes r6;
       Ok (mkP id job fl (ts ++ tags_pad t) d pay 0, r7))); [apply agree_dev|]. intros d.
  apply (agree_bind (rd_tags (Z.to_nat (Z.min t PacketMaxTags))) (srd_tags (Z.to_nat (Z.min t PacketMaxTags)))
    (fun ts r6 => do '(pay, r7) <- rd_bytes r6; Ok (mkP id job fl (ts ++ tags_pad t) d pay 0, r7))
    (fun ts r6 => do '(pay, r7) <- srd_bytes r6; Ok (mkP id job fl (ts ++ tags_pad t) d pay 0, r7))); [apply agree_tags|]. intros ts.
  apply (agree_bind rd_bytes srd_bytes
    (fun pay r7 => Ok (mkP id job fl (ts ++ tags_pad t) d pay 0, r7))
    (fun pay r7 => Ok (mkP id job fl (ts ++ tags_pad t) d pay 0, r7))); [apply agree_bytes|]. intros pay. apply agree_ret.
Qed.

(* the round trip of the nested form through data.NewReader, for every split into short reads *)
Theorem unmarshal_srd_marshal_stream p s rest :
  wf_stream p = true -> no_empty s -> concat s = marshal_stream p ++ rest ->
  exists s', unmarshal_srd s = Ok (unread p, s') /\ concat s' = rest /\ no_empty s'.
Proof.
  intros H Hs Hc. pose proof (stream_readers_agree s Hs) as Ag.
  rewrite Hc, unmarshal_stream_marshal_stream in Ag by exact H.
  destruct (unmarshal_srd s) as [[p' s']| |]; try contradiction.
  destruct Ag as (<- & C & N). exists s'. repeat split; assumption.
Qed.

(* ==== 6. consequences: lossless and self-delimiting =========================================== *)
(* no encoding is a prefix of another one followed by anything: the boundary between two packets
   on a stream is determined by the bytes alone *)
Theorem wire_prefix_free p q r1 r2 : wf p = true -> wf q = true ->
  wire p ++ r1 = wire q ++ r2 -> rewind p = rewind q /\ r1 = r2.
Proof.
  intros Hp Hq E.
  assert (Hs : no_empty [wire p ++ r1]).
  { constructor; [|constructor]. intros H. apply app_eq_nil in H. destruct (wire_nonempty p Hp). tauto. }
  destruct (unmarshal_wire p Hp [wire p ++ r1] r1 Hs) as (s1 & E1 & C1 & _); [cbn [concat]; apply app_nil_r|].
  destruct (unmarshal_wire q Hq [wire p ++ r1] r2 Hs) as (s2 & E2 & C2 & _); [cbn [concat]; rewrite app_nil_r; exact E|].
  rewrite E1 in E2. assert (X : (rewind p, s1) = (rewind q, s2)) by congruence.
  pose proof (f_equal fst X) as X1. pose proof (f_equal snd X) as X2. cbn [fst snd] in X1, X2.
  split; [exact X1 | congruence].
Qed.

Corollary marshal_injective p q b : wf p = true -> wf q = true -> marshal p = Ok b -> marshal q = Ok b -> rewind p = rewind q.
Proof.
  intros Hp Hq Ep Eq. rewrite marshal_wf in Ep, Eq by assumption. injection Ep as <-. injection Eq as Eq.
  apply (wire_prefix_free p q [] [] Hp Hq). rewrite Eq. reflexivity.
Qed.

Theorem marshal_stream_prefix_free p q r1 r2 : wf_stream p = true -> wf_stream q = true ->
  marshal_stream p ++ r1 = marshal_stream q ++ r2 -> unread p = unread q /\ r1 = r2.
Proof.
  intros Hp Hq E. pose proof (unmarshal_stream_marshal_stream p r1 Hp) as E1.
  rewrite E, unmarshal_stream_marshal_stream in E1 by exact Hq.
  assert (X : (unread q, r2) = (unread p, r1)) by congruence.
  pose proof (f_equal fst X) as X1. pose proof (f_equal snd X) as X2. cbn [fst snd] in X1, X2.
  split; [symmetry; exact X1 | symmetry; exact X2].
Qed.

(* ==== 7. a truncated encoding never yields a packet ============================================
   Every reader step that succeeds on a stream s succeeds in the same way when more data follows
   (s ++ x); so a success on a proper prefix of `wire p` would also be the result on the whole
   encoding, where exact consumption leaves nothing -- but the cut-off part would be left. *)
Lemma bind_ok {A B} (r : res A) (f : A -> res B) v : bind r f = Ok v -> exists a, r = Ok a /\ f a = Ok v.
Proof. destruct r as [a| |]; cbn [bind]; [eauto | discriminate | discriminate]. Qed.

Lemma read_full_fuel_mono : forall f k s acc r, read_full f k s acc = Ok r ->
  forall f', (f <= f')%nat -> read_full f' k s acc = Ok r.
Proof.
  induction f as [|f IH]; intros k s acc r H f' Hf.
  - cbn [read_full] in H. destruct (k <=? 0) eqn:E; [|discriminate]. destruct f'; cbn [read_full]; rewrite E; exact H.
  - destruct f' as [|f']; [lia|]. cbn [read_full] in *. destruct (k <=? 0); [exact H|].
    destruct (read1 k s) as [[got s1]|]; [|exact H]. apply (IH _ _ _ _ H). lia.
Qed.

Lemma read1_ext k s x : s <> [] ->
  read1 k (s ++ x) = match read1 k s with Some (got, s1) => Some (got, s1 ++ x) | None => None end.
Proof. destruct s as [|c rest]; [contradiction|]. intros _. cbn [app read1]. destruct (len c <=? k); reflexivity. Qed.

Lemma read_full_ext : forall f k s acc r s' x, read_full f k s acc = Ok (r, s') ->
  read_full f k (s ++ x) acc = Ok (r, s' ++ x).
Proof.
  induction f as [|f IH]; intros k s acc r s' x H.
  - cbn [read_full] in *. destruct (k <=? 0); [|discriminate]. injection H as <- <-. reflexivity.
  - cbn [read_full] in *. destruct (k <=? 0); [injection H as <- <-; reflexivity|].
    destruct s as [|c rest]. { cbn [read1] in H. destruct (is_nil acc); discriminate. }
    rewrite read1_ext by discriminate. destruct (read1 k (c :: rest)) as [[got s1]|]; [|destruct (is_nil acc); discriminate].
    apply IH. exact H.
Qed.

Lemma read_full_src_ext k s r s' x : read_full (src_fuel s k) k s [] = Ok (r, s') ->
  read_full (src_fuel (s ++ x) k) k (s ++ x) [] = Ok (r, s' ++ x).
Proof.
  intros H. apply (read_full_fuel_mono (src_fuel s k)); [apply read_full_ext; exact H|].
  unfold src_fuel. rewrite app_length. lia.
Qed.

Lemma read_body_fuel_mono : forall f k s acc first r, read_body f k s acc first = Ok r ->
  forall f', (f <= f')%nat -> read_body f' k s acc first = Ok r.
Proof.
  induction f as [|f IH]; intros k s acc first r H f' Hf.
  - cbn [read_body] in H. destruct (k <=? 0) eqn:E; [|discriminate]. destruct f'; cbn [read_body]; rewrite E; exact H.
  - destruct f' as [|f']; [lia|]. cbn [read_body] in *. destruct (k <=? 0); [exact H|].
    destruct (read1 (Z.min k bufSize) s) as [[got s1]|]; [|exact H].
    destruct (is_nil got); [destruct first; [exact H|]|]; apply (IH _ _ _ _ _ H); lia.
Qed.

Lemma read_body_ext : forall f k s acc first r s' x, read_body f k s acc first = Ok (r, s') ->
  read_body f k (s ++ x) acc first = Ok (r, s' ++ x).
Proof.
  induction f as [|f IH]; intros k s acc first r s' x H.
  - cbn [read_body] in *. destruct (k <=? 0); [|discriminate]. injection H as <- <-. reflexivity.
  - cbn [read_body] in *. destruct (k <=? 0); [injection H as <- <-; reflexivity|].
    destruct s as [|c rest]; [cbn [read1] in H; discriminate|].
    rewrite read1_ext by discriminate. destruct (read1 (Z.min k bufSize) (c :: rest)) as [[got s1]|]; [|discriminate].
    destruct (is_nil got); [destruct first; [discriminate|]|]; apply IH; exact H.
Qed.

Lemma read_device_ext s d s' x : read_device s = Ok (d, s') -> read_device (s ++ x) = Ok (d, s' ++ x).
Proof.
  unfold read_device. intros H. apply bind_ok in H. destruct H as ([d0 s0] & E & H).
  rewrite (read_full_src_ext _ _ _ _ x E). cbn [bind].
  destruct d0 as [|b d0]; [discriminate|]. destruct (b =? 0); [discriminate|]. injection H as <- <-. reflexivity.
Qed.

Lemma read_header_ext s h s' x : read_header s = Ok (h, s') -> read_header (s ++ x) = Ok (h, s' ++ x).
Proof.
  unfold read_header. intros H.
  apply bind_ok in H. destruct H as ([d s1] & E1 & H). rewrite (read_device_ext _ _ _ x E1). cbn [bind].
  apply bind_ok in H. destruct H as ([b s2] & E2 & H). rewrite (read_full_src_ext _ _ _ _ x E2). cbn [bind].
  apply bind_ok in H. destruct H as ([[[[id job] fl] nt] cls] & E3 & H). rewrite E3. cbn [bind].
  apply bind_ok in H. destruct H as (w & E4 & H). rewrite E4. cbn [bind].
  apply bind_ok in H. destruct H as ([lb s3] & E5 & H). rewrite (read_full_src_ext _ _ _ _ x E5). cbn [bind].
  injection H as <- <-. reflexivity.
Qed.

Lemma read_tags_ext : forall n s ts s' x, read_tags n s = Ok (ts, s') -> read_tags n (s ++ x) = Ok (ts, s' ++ x).
Proof.
  induction n as [|n IH]; intros s ts s' x H; cbn [read_tags] in *; [injection H as <- <-; reflexivity|].
  apply bind_ok in H. destruct H as ([b s1] & E1 & H). rewrite (read_full_src_ext _ _ _ _ x E1). cbn [bind].
  destruct (of_be b 0 =? 0); [discriminate|].
  apply bind_ok in H. destruct H as ([ts0 s2] & E2 & H). rewrite (IH _ _ _ x E2). cbn [bind].
  injection H as <- <-. reflexivity.
Qed.

Lemma unmarshal_ext s q s' x : unmarshal s = Ok (q, s') -> unmarshal (s ++ x) = Ok (q, s' ++ x).
Proof.
  unfold unmarshal. intros H.
  apply bind_ok in H. destruct H as ([[[[[[d id] job] fl] nt] l] s1] & E1 & H). rewrite (read_header_ext _ _ _ x E1). cbn [bind].
  apply bind_ok in H. destruct H as ([ts s2] & E2 & H). rewrite (read_tags_ext _ _ _ _ x E2). cbn [bind].
  apply bind_ok in H. destruct H as ([pay s3] & E3 & H).
  destruct (l =? 0).
  - injection E3 as <- <-. cbn [bind]. injection H as <- <-. reflexivity.
  - assert (E3' : read_body (body_fuel (s2 ++ x)) l (s2 ++ x) [] true = Ok (pay, s3 ++ x)).
    { apply (read_body_fuel_mono (body_fuel s2)); [apply read_body_ext; exact E3|].
      unfold body_fuel. rewrite concat_app, !app_length. lia. }
    rewrite E3'. cbn [bind]. injection H as <- <-. reflexivity.
Qed.

Lemma no_empty_app s t : no_empty s -> no_empty t -> no_empty (s ++ t).
Proof. unfold no_empty. intros. apply Forall_app. split; assumption. Qed.

Theorem unmarshal_truncated p s u : wf p = true -> no_empty s -> concat s ++ u = wire p -> u <> [] ->
  forall q s', unmarshal s <> Ok (q, s').
Proof.
  intros Hp Hs Hc Hu q s' H. apply (unmarshal_ext _ _ _ [u]) in H.
  assert (Hs' : no_empty (s ++ [u])) by (apply no_empty_app; [exact Hs | constructor; [exact Hu | constructor]]).
  destruct (unmarshal_wire p Hp (s ++ [u]) [] Hs') as (s2 & E & C & _).
  { rewrite concat_app. cbn [concat]. rewrite !app_nil_r. exact Hc. }
  rewrite E in H. injection H as _ ->. rewrite concat_app in C. cbn [concat] in C. rewrite app_nil_r in C.
  apply app_eq_nil in C. destruct C as [_ C]. contradiction.
Qed.

(* ==== 8. the read cursor of the payload Chunk ===================================================
   Marshal rewinds (Seek(0,0)) and writes the WHOLE buffer: whatever the cursor was -- fresh,
   partially read, consumed to the end, moved by Seek -- the bytes are the same, the header
   announces exactly the bytes the body writes, and the cursor ends at the end of the buffer.
   MarshalStream writes the UNREAD part only and leaves the cursor alone. *)
Theorem marshal_cursor_irrelevant p k : marshal (set_rpos k p) = marshal p.
Proof. reflexivity. Qed.

Lemma wf_set_rpos p k : wf p = true -> 0 <= k <= len (p_pay p) -> wf (set_rpos k p) = true.
Proof.
  unfold wf, set_rpos. cbn [p_id p_job p_flags p_tags p_dev p_pay p_rpos].
  rewrite !andb_true_iff. intros [[H _] _] Hk. repeat split; try apply H; lia.
Qed.

Lemma rewind_set_rpos p k : rewind (set_rpos k p) = rewind p.
Proof. reflexivity. Qed.

(* the round trip from every cursor position, in one statement *)
Theorem unmarshal_marshal_any_cursor p k b s rest :
  wf p = true -> 0 <= k <= len (p_pay p) -> marshal (set_rpos k p) = Ok b ->
  no_empty s -> concat s = b ++ rest ->
  exists s', unmarshal s = Ok (rewind p, s') /\ concat s' = rest /\ no_empty s'.
Proof.
  intros H Hk E. rewrite <- (rewind_set_rpos p k). apply unmarshal_marshal; [apply wf_set_rpos; assumption | exact E].
Qed.

Theorem after_marshal_cursor p : p_rpos (after_marshal p) = len (p_pay p) /\ p_pay (after_marshal p) = p_pay p.
Proof.
  unfold after_marshal, after_write_to, chunk_empty, chunk_size, rewind, set_rpos. cbn [p_pay p_rpos].
  destruct (Z.eqb_spec (len (p_pay p)) 0) as [E|E]; cbn [p_pay p_rpos]; [split; [lia | reflexivity]|].
  pose proof (len_nonneg (p_pay p)). replace (len (p_pay p) <=? 0) with false by lia. cbn [p_pay p_rpos]. split; reflexivity.
Qed.

(* the nested form: only the unread part travels *)
Lemma drop_0 {A} (l : list A) : drop 0 l = l.
Proof. reflexivity. Qed.
Theorem marshal_stream_unread p : marshal_stream p = marshal_stream (unread p).
Proof. unfold marshal_stream, unread, unread_bytes. cbn [p_id p_job p_flags p_tags p_dev p_pay p_rpos]. rewrite drop_0. reflexivity. Qed.
Lemma unread_fresh p : p_rpos p = 0 -> unread p = p.
Proof. destruct p; unfold unread, unread_bytes; cbn. intros ->. reflexivity. Qed.
Theorem marshal_stream_cursor p k :
  marshal_stream (set_rpos k p) =
  marshal_stream (mkP (p_id p) (p_job p) (p_flags p) (p_tags p) (p_dev p) (drop k (p_pay p)) 0).
Proof. rewrite marshal_stream_unread. reflexivity. Qed.
Lemma fresh_is_fixed_point p : p_rpos p = 0 -> rewind p = p /\ unread p = p.
Proof. intros H. split; [apply rewind_fresh | apply unread_fresh]; exact H. Qed.

(* ==== 9. streams whose end is observable: data delivered with io.EOF, failing reads =============
   `plain s` forgets HOW the stream ends: the chunks, with a non-empty last-chunk-with-EOF as an
   ordinary last chunk.  Whenever the plain reader succeeds on `plain s`, the reader that sees
   both results of every Read succeeds on s with the same result (read by read simulation): a
   correct consumer of io.Reader does not care whether the last bytes come with io.EOF or before
   it.  All theorems about splits into short reads therefore hold for these streams too. *)
Definition plain (s : esrc) : src :=
  fst s ++ match snd s with FLast c => if is_nil c then [] else [c] | _ => [] end.

Lemma concat_plain s : concat (plain s) = ebytes s.
Proof.
  unfold plain, ebytes. rewrite concat_app. f_equal. destruct (snd s) as [|c|e]; try reflexivity.
  destruct c; cbn; [reflexivity | rewrite app_nil_r; reflexivity].
Qed.
Lemma no_empty_plain s : no_empty (fst s) -> no_empty (plain s).
Proof.
  intros H. unfold plain. apply no_empty_app; [exact H|]. destruct (snd s) as [|c|e]; try constructor.
  destruct c; cbn [is_nil]; constructor; [discriminate | constructor].
Qed.

Lemma drop_nonnil {A} (c : list A) k : c <> [] -> k < len c -> is_nil (drop k c) = false.
Proof.
  intros Hc H. apply nonempty_len in Hc. destruct (Z.lt_ge_cases k 0) as [N|N].
  - rewrite drop_nonpos by lia. apply is_nil_false. lia.
  - apply is_nil_false. rewrite len_drop by lia. lia.
Qed.

(* one Read: same bytes; an error only together with the end of the plain stream *)
Lemma read1e_plain k s :
  match read1 k (plain s) with
  | Some (got, t) => exists e s', read1e k s = (got, e, s') /\ plain s' = t /\ (e = None \/ t = [])
  | None => True
  end.
Proof.
  destruct s as [[|c rest] f]; unfold plain, read1e; cbn [fst snd app].
  - destruct f as [|d|e]; cbn [read1 app]; try exact I.
    destruct d as [|x0 d0]; cbn [is_nil read1]; [exact I|]. set (d := x0 :: d0).
    assert (Hd : d <> []) by discriminate.
    destruct (Z.leb_spec (len d) k) as [L|L].
    + exists (Some EOF), ([], FEof). repeat split. right. reflexivity.
    + exists None, ([], FLast (drop k d)). cbn [fst snd app]. rewrite drop_nonnil by (lia || exact Hd). repeat split. left. reflexivity.
  - cbn [read1]. destruct (len c <=? k).
    + exists None, (rest, f). repeat split. left. reflexivity.
    + exists None, (drop k c :: rest, f). repeat split. left. reflexivity.
Qed.

Lemma read_full_nil_ok f k acc r : read_full f k [] acc = Ok r -> k <= 0 /\ r = (acc, []).
Proof.
  destruct f; cbn [read_full read1]; destruct (Z.leb_spec k 0) as [L|L]; intros H;
    try (injection H as <-; split; [lia | reflexivity]); try discriminate H.
  destruct (is_nil acc); discriminate H.
Qed.
Lemma read_body_nil_ok f k acc first r : read_body f k [] acc first = Ok r -> k <= 0 /\ r = (acc, []).
Proof.
  destruct f; cbn [read_body read1]; destruct (Z.leb_spec k 0) as [L|L]; intros H;
    try (injection H as <-; split; [lia | reflexivity]); discriminate H.
Qed.

Lemma read_full_sim : forall f k s acc r t, read_full f k (plain s) acc = Ok (r, t) ->
  exists s', read_full_e f k s acc = Ok (r, s') /\ plain s' = t.
Proof.
  induction f as [|f IH]; intros k s acc r t H.
  - cbn [read_full read_full_e] in *. destruct (k <=? 0); [|discriminate]. injection H as <- <-. eauto.
  - cbn [read_full read_full_e] in *. destruct (k <=? 0); [injection H as <- <-; eauto|].
    pose proof (read1e_plain k s) as R. destruct (read1 k (plain s)) as [[got t1]|]; [|destruct (is_nil acc); discriminate].
    destruct R as (e & s1 & -> & P & D).
    destruct (Z.leb_spec (k - len got) 0) as [L|L].
    + destruct f; cbn [read_full] in H; replace (k - len got <=? 0) with true in H by lia; injection H as <- <-; eauto.
    + destruct D as [-> | ->]; [apply IH; rewrite P; exact H|].
      apply read_full_nil_ok in H. lia.
Qed.

Lemma read_body_sim : forall f k s acc first r t, read_body f k (plain s) acc first = Ok (r, t) ->
  exists s', read_body_e f k s acc first = Ok (r, s') /\ plain s' = t.
Proof.
  induction f as [|f IH]; intros k s acc first r t H.
  - cbn [read_body read_body_e] in *. destruct (k <=? 0); [|discriminate]. injection H as <- <-. eauto.
  - cbn [read_body read_body_e] in *. destruct (k <=? 0); [injection H as <- <-; eauto|].
    pose proof (read1e_plain (Z.min k bufSize) s) as R. destruct (read1 (Z.min k bufSize) (plain s)) as [[got t1]|]; [|discriminate].
    destruct R as (e & s1 & -> & P & D).
    destruct D as [-> | ->].
    + destruct (is_nil got); [destruct first; [discriminate|]|]; apply IH; rewrite P; exact H.
    + (* the plain stream is exhausted after this Read: it succeeds only when nothing more is owed *)
      assert (K : (if is_nil got then k else k - len got) <= 0 /\ r = (if is_nil got then acc else acc ++ got) /\ t = []).
      { destruct (is_nil got); [destruct first; [discriminate|]|]; apply read_body_nil_ok in H; destruct H as [H1 H2]; injection H2 as -> ->; repeat split; try reflexivity; lia. }
      destruct K as (K1 & -> & ->).
      destruct e as [x|].
      * destruct (x =? EOF).
        -- destruct (is_nil got) eqn:N.
           ++ destruct first; [discriminate|]. destruct f; cbn [read_body_e]; replace (k <=? 0) with true by lia; eauto.
           ++ destruct f; cbn [read_body_e]; replace (k - len got <=? 0) with true by lia; eauto.
        -- destruct (is_nil got) eqn:N.
           ++ destruct got; [|discriminate]. rewrite len_nil, Z.sub_0_r, app_nil_r. replace (k <=? 0) with true by lia. eauto.
           ++ replace (k - len got <=? 0) with true by lia. eauto.
      * destruct (is_nil got) eqn:N.
        -- destruct first; [discriminate|]. destruct f; cbn [read_body_e]; replace (k <=? 0) with true by lia; eauto.
        -- destruct f; cbn [read_body_e]; replace (k - len got <=? 0) with true by lia; eauto.
Qed.

Lemma read_full_e_fuel_mono : forall f k s acc r, read_full_e f k s acc = Ok r ->
  forall f', (f <= f')%nat -> read_full_e f' k s acc = Ok r.
Proof.
  induction f as [|f IH]; intros k s acc r H f' Hf.
  - cbn [read_full_e] in H. destruct (k <=? 0) eqn:E; [|discriminate]. destruct f'; cbn [read_full_e]; rewrite E; exact H.
  - destruct f' as [|f']; [lia|]. cbn [read_full_e] in *. destruct (k <=? 0); [exact H|].
    destruct (read1e k s) as [[got e] s1]. destruct (k - len got <=? 0); [exact H|].
    destruct e; [exact H|]. apply (IH _ _ _ _ H). lia.
Qed.
Lemma read_body_e_fuel_mono : forall f k s acc first r, read_body_e f k s acc first = Ok r ->
  forall f', (f <= f')%nat -> read_body_e f' k s acc first = Ok r.
Proof.
  induction f as [|f IH]; intros k s acc first r H f' Hf.
  - cbn [read_body_e] in H. destruct (k <=? 0) eqn:E; [|discriminate]. destruct f'; cbn [read_body_e]; rewrite E; exact H.
  - destruct f' as [|f']; [lia|]. cbn [read_body_e] in *. destruct (k <=? 0); [exact H|].
    destruct (read1e (Z.min k bufSize) s) as [[got e] s1].
    destruct e as [x|].
    + destruct (x =? EOF); [|exact H].
      destruct (is_nil got); [destruct first; [exact H|]|]; apply (IH _ _ _ _ _ H); lia.
    + destruct (is_nil got); [destruct first; [exact H|]|]; apply (IH _ _ _ _ _ H); lia.
Qed.

Lemma length_plain s : (length (plain s) <= S (length (fst s)))%nat.
Proof. unfold plain. rewrite app_length. destruct (snd s) as [|c|e]; cbn [length]; try lia. destruct (is_nil c); cbn [length]; lia. Qed.

Lemma read_full_src_sim k s r t : read_full (src_fuel (plain s) k) k (plain s) [] = Ok (r, t) ->
  exists s', read_full_e (efuel s) k s [] = Ok (r, s') /\ plain s' = t.
Proof.
  intros H. apply read_full_sim in H. destruct H as (s' & H & P). exists s'. split; [|exact P].
  apply (read_full_e_fuel_mono _ _ _ _ _ H). unfold src_fuel, efuel. pose proof (length_plain s). lia.
Qed.

Lemma read_device_sim s d t : read_device (plain s) = Ok (d, t) -> exists s', read_device_e s = Ok (d, s') /\ plain s' = t.
Proof.
  unfold read_device, read_device_e. intros H. apply bind_ok in H. destruct H as ([d0 t0] & E & H).
  apply read_full_src_sim in E. destruct E as (s0 & -> & P). cbn [bind].
  destruct d0 as [|b d0]; [discriminate|]. destruct (b =? 0); [discriminate|]. injection H as <- <-. eauto.
Qed.

Lemma read_header_sim s h t : read_header (plain s) = Ok (h, t) -> exists s', read_header_e s = Ok (h, s') /\ plain s' = t.
Proof.
  unfold read_header, read_header_e. intros H.
  apply bind_ok in H. destruct H as ([d t1] & E1 & H). apply read_device_sim in E1. destruct E1 as (s1 & -> & <-). cbn [bind].
  apply bind_ok in H. destruct H as ([b t2] & E2 & H). apply read_full_src_sim in E2. destruct E2 as (s2 & -> & <-). cbn [bind].
  apply bind_ok in H. destruct H as ([[[[id job] fl] nt] cls] & E3 & H). rewrite E3. cbn [bind].
  apply bind_ok in H. destruct H as (w & E4 & H). rewrite E4. cbn [bind].
  apply bind_ok in H. destruct H as ([lb t3] & E5 & H). apply read_full_src_sim in E5. destruct E5 as (s3 & -> & <-). cbn [bind].
  injection H as <- <-. eauto.
Qed.

Lemma read_tags_sim : forall n s ts t, read_tags n (plain s) = Ok (ts, t) -> exists s', read_tags_e n s = Ok (ts, s') /\ plain s' = t.
Proof.
  induction n as [|n IH]; intros s ts t H; cbn [read_tags read_tags_e] in *; [injection H as <- <-; eauto|].
  apply bind_ok in H. destruct H as ([b t1] & E1 & H). apply read_full_src_sim in E1. destruct E1 as (s1 & -> & <-). cbn [bind].
  destruct (of_be b 0 =? 0); [discriminate|].
  apply bind_ok in H. destruct H as ([ts0 t2] & E2 & H). apply IH in E2. destruct E2 as (s2 & -> & <-). cbn [bind].
  injection H as <- <-. eauto.
Qed.

(* the wire reader: whatever the plain reader returns on `plain s`, the reader that sees the end
   of the stream returns on s *)
Theorem unmarshal_e_sim s q t : unmarshal (plain s) = Ok (q, t) -> exists s', unmarshal_e s = Ok (q, s') /\ plain s' = t.
Proof.
  unfold unmarshal, unmarshal_e. intros H.
  apply bind_ok in H. destruct H as ([[[[[[d id] job] fl] nt] l] t1] & E1 & H). apply read_header_sim in E1. destruct E1 as (s1 & -> & <-). cbn [bind].
  apply bind_ok in H. destruct H as ([ts t2] & E2 & H). apply read_tags_sim in E2. destruct E2 as (s2 & -> & <-). cbn [bind].
  apply bind_ok in H. destruct H as ([pay t3] & E3 & H).
  destruct (l =? 0).
  - injection E3 as <- <-. cbn [bind]. injection H as <- <-. eauto.
  - apply read_body_sim in E3. destruct E3 as (s3 & E3 & <-).
    rewrite (read_body_e_fuel_mono _ _ _ _ _ _ E3).
    + cbn [bind]. injection H as <- <-. eauto.
    + unfold body_fuel, body_fuel_e. rewrite concat_plain. pose proof (length_plain s2). lia.
Qed.

(* unmarshal_marshal for every reader: any split into non-empty short reads, the last bytes with
   or without io.EOF, a failing Read somewhere after the packet *)
Theorem unmarshal_e_marshal p b s rest :
  wf p = true -> marshal p = Ok b -> no_empty (fst s) -> ebytes s = b ++ rest ->
  exists s', unmarshal_e s = Ok (rewind p, s') /\ ebytes s' = rest.
Proof.
  intros H E Hs Hc.
  destruct (unmarshal_marshal p b (plain s) rest H E (no_empty_plain s Hs)) as (t & U & C & _); [rewrite concat_plain; exact Hc|].
  apply unmarshal_e_sim in U. destruct U as (s' & U & <-). exists s'. split; [exact U|]. rewrite <- concat_plain. exact C.
Qed.

(* ---- the nested form through data.NewReader over such streams ------------------------------- *)
Lemma srd_u8_sim s v t : srd_u8 (plain s) = Ok (v, t) -> exists s', srd_u8_e s = Ok (v, s') /\ plain s' = t.
Proof.
  unfold srd_u8, srd_u8_e. intros H. pose proof (read1e_plain 1 s) as R.
  destruct (read1 1 (plain s)) as [[got t1]|]; [|discriminate]. destruct R as (e & s1 & -> & P & _).
  destruct got as [|b g]; [discriminate|]. injection H as <- <-. eauto.
Qed.
Lemma srd_uN_sim n s v t : srd_uN n (plain s) = Ok (v, t) -> exists s', srd_uN_e n s = Ok (v, s') /\ plain s' = t.
Proof.
  unfold srd_uN, srd_uN_e. intros H. apply bind_ok in H. destruct H as ([b t1] & E & H).
  apply read_full_src_sim in E. destruct E as (s1 & -> & <-). cbn [bind]. injection H as <- <-. eauto.
Qed.
Lemma srd_prefix_sim s v t : srd_prefix (plain s) = Ok (v, t) -> exists s', srd_prefix_e s = Ok (v, s') /\ plain s' = t.
Proof.
  unfold srd_prefix, srd_prefix_e. intros H. apply bind_ok in H. destruct H as ([c t1] & E & H).
  apply srd_u8_sim in E. destruct E as (s1 & -> & <-). cbn [bind].
  destruct (c =? 0); [injection H as <- <-; eauto|].
  destruct ((c =? 1) || (c =? 2)).
  { apply bind_ok in H. destruct H as ([n t2] & E & H). apply srd_u8_sim in E. destruct E as (s2 & -> & <-). cbn [bind]. injection H as <- <-. eauto. }
  destruct ((c =? 3) || (c =? 4)).
  { apply bind_ok in H. destruct H as ([n t2] & E & H). apply srd_uN_sim in E. destruct E as (s2 & -> & <-). cbn [bind]. injection H as <- <-. eauto. }
  destruct ((c =? 5) || (c =? 6)).
  { apply bind_ok in H. destruct H as ([n t2] & E & H). apply srd_uN_sim in E. destruct E as (s2 & -> & <-). cbn [bind]. injection H as <- <-. eauto. }
  destruct ((c =? 7) || (c =? 8)); [|discriminate].
  apply bind_ok in H. destruct H as ([n t2] & E & H). apply srd_uN_sim in E. destruct E as (s2 & -> & <-). cbn [bind]. injection H as <- <-. eauto.
Qed.
Lemma srd_bytes_sim s v t : srd_bytes (plain s) = Ok (v, t) -> exists s', srd_bytes_e s = Ok (v, s') /\ plain s' = t.
Proof.
  unfold srd_bytes, srd_bytes_e. intros H. apply bind_ok in H. destruct H as ([ol t1] & E & H).
  apply srd_prefix_sim in E. destruct E as (s1 & -> & <-). cbn [bind].
  destruct ol as [l|]; [|injection H as <- <-; eauto].
  destruct (l =? 0); [discriminate|]. destruct (MaxSlice <? l); [discriminate|].
  apply read_full_src_sim. exact H.
Qed.
Lemma srd_tags_sim : forall n s ts t, srd_tags n (plain s) = Ok (ts, t) -> exists s', srd_tags_e n s = Ok (ts, s') /\ plain s' = t.
Proof.
  induction n as [|n IH]; intros s ts t H; cbn [srd_tags srd_tags_e] in *; [injection H as <- <-; eauto|].
  apply bind_ok in H. destruct H as ([v t1] & E1 & H). apply srd_uN_sim in E1. destruct E1 as (s1 & -> & <-). cbn [bind].
  destruct (v =? 0); [discriminate|].
  apply bind_ok in H. destruct H as ([ts0 t2] & E2 & H). apply IH in E2. destruct E2 as (s2 & -> & <-). cbn [bind].
  injection H as <- <-. eauto.
Qed.

Theorem unmarshal_srd_e_sim s q t : unmarshal_srd (plain s) = Ok (q, t) -> exists s', unmarshal_srd_e s = Ok (q, s') /\ plain s' = t.
Proof.
  unfold unmarshal_srd, unmarshal_srd_e. intros H.
  apply bind_ok in H. destruct H as ([id t1] & E & H). apply srd_u8_sim in E. destruct E as (s1 & -> & <-). cbn [bind].
  apply bind_ok in H. destruct H as ([job t2] & E & H). apply srd_uN_sim in E. destruct E as (s2 & -> & <-). cbn [bind].
  apply bind_ok in H. destruct H as ([nt t3] & E & H). apply srd_uN_sim in E. destruct E as (s3 & -> & <-). cbn [bind].
  apply bind_ok in H. destruct H as ([fl t4] & E & H). apply srd_uN_sim in E. destruct E as (s4 & -> & <-). cbn [bind].
  apply bind_ok in H. destruct H as ([d t5] & E & H). apply read_device_sim in E. destruct E as (s5 & -> & <-). cbn [bind].
  apply bind_ok in H. destruct H as ([ts t6] & E & H). apply srd_tags_sim in E. destruct E as (s6 & -> & <-). cbn [bind].
  apply bind_ok in H. destruct H as ([pay t7] & E & H). apply srd_bytes_sim in E. destruct E as (s7 & -> & <-). cbn [bind].
  injection H as <- <-. eauto.
Qed.

Theorem unmarshal_srd_e_marshal_stream p s rest :
  wf_stream p = true -> no_empty (fst s) -> ebytes s = marshal_stream p ++ rest ->
  exists s', unmarshal_srd_e s = Ok (unread p, s') /\ ebytes s' = rest.
Proof.
  intros H Hs Hc.
  destruct (unmarshal_srd_marshal_stream p (plain s) rest H (no_empty_plain s Hs)) as (t & U & C & _); [rewrite concat_plain; exact Hc|].
  apply unmarshal_srd_e_sim in U. destruct U as (s' & U & <-). exists s'. split; [exact U|]. rewrite <- concat_plain. exact C.
Qed.

(* ---- zero-length reads (0, nil): where the code tolerates them ------------------------------------
   io.ReadFull just reads again; Chunk.ReadFrom ends its call on a zero-length read, and readBody
   gives up when a whole ReadFrom call delivered nothing: a (0, nil) read is tolerated inside the
   header and the tags, and in the payload only directly after a Read that delivered bytes. *)
Lemma zero_reads_where_tolerated f k s acc : 0 < k ->
  read_full (S f) k ([] :: s) acc = read_full f k s acc /\
  read_body (S f) k ([] :: s) acc false = read_body f k s acc true /\
  read_body (S f) k ([] :: s) acc true = Err ErrUnexpectedEOF.
Proof.
  intros Hk. cbn [read_full read_body read1]. replace (k <=? 0) with false by lia.
  change (len (@nil Z)) with 0. replace (0 <=? k) with true by lia.
  replace (0 <=? Z.min k bufSize) with true by (unfold bufSize; lia).
  cbn [is_nil]. rewrite app_nil_r, Z.sub_0_r. repeat split.
Qed.
