(* Proofs/Packet.v -- C01: lemmas about Model/Packet.v *)
From XMT Require Import Base.Prelude Base.BitLemmas Model.Codec Model.Packet.
From Coq Require Import ZifyBool.
Ltac Zify.zify_post_hook ::= Z.div_mod_to_equations.

Lemma len_prefix_length l : 0 <= l ->
  len (len_prefix l) = 1 + (if l =? 0 then 0 else if l <? 256 then 1 else if l <? 65536 then 2
                            else if l <? 4294967296 then 4 else 8).
Proof.
  intros H. unfold len_prefix, LimitSmall, LimitMedium, LimitLarge.
  destruct (l =? 0); [reflexivity|].
  destruct (l <? 256); [reflexivity|].
  destruct (l <? 65536); [reflexivity|].
  destruct (l <? 4294967296); reflexivity.
Qed.
