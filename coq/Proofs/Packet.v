(* Proofs/Packet.v -- C01: lemmas about Model/Packet.v
   1. the flag word (bit-level, all words, all 16-bit values)
   2. Marshal is total on well-formed packets and produces `wire p`; its length
   3. Unmarshal (Marshal p ++ rest) over every split into non-empty short reads
   4. concatenated packets
   5. the nested stream form: flat reader, agreement of the stream reader, concatenation *)
From XMT Require Import Base.Prelude Base.BitLemmas Model.Codec Model.Packet Proofs.Codec.
From Coq Require Import ZifyBool.
Ltac Zify.zify_post_hook ::= Z.div_mod_to_equations.

(* ==== 1. the flag word ======================================================= *)

(* ---- bit-level toolkit (unconditional forms: false at negative indices) ------ *)
Lemma tb_mod_pow2 a n k : 0 <= n -> Z.testbit (a mod 2 ^ n) k = (k <? n) && Z.testbit a k.
Proof.
  intros Hn. destruct (Z.ltb_spec k n) as [H|H].
  - destruct (Z.lt_ge_cases k 0) as [Hk|Hk].
    + rewrite !Z.testbit_neg_r by lia. reflexivity.
    + rewrite Z.mod_pow2_bits_low by lia. reflexivity.
  - rewrite Z.mod_pow2_bits_high by lia. reflexivity.
Qed.

Lemma tb_small a n k : 0 <= a < 2 ^ n -> n <= k -> Z.testbit a k = false.
Proof.
  intros Ha Hk. assert (0 <= n \/ n < 0) as [Hn|Hn] by lia.
  - replace a with (a mod 2 ^ n) by (apply Z.mod_small; lia).
    apply Z.mod_pow2_bits_high. lia.
  - rewrite Z.pow_neg_r in Ha by lia. lia.
Qed.

Lemma tb_u16 a k : Z.testbit (u16 a) k = (k <? 16) && Z.testbit a k.
Proof. unfold u16. change 65536 with (2 ^ 16). apply tb_mod_pow2. lia. Qed.
Lemma tb_u32 a k : Z.testbit (u32 a) k = (k <? 32) && Z.testbit a k.
Proof. unfold u32. change 4294967296 with (2 ^ 32). apply tb_mod_pow2. lia. Qed.
Lemma tb_u64 a k : Z.testbit (u64 a) k = (k <? 64) && Z.testbit a k.
Proof. unfold u64. change 18446744073709551616 with (2 ^ 64). apply tb_mod_pow2. lia. Qed.

Lemma tb_shl a n k : 0 <= n -> Z.testbit (Z.shiftl a n) k = (n <=? k) && Z.testbit a (k - n).
Proof.
  intros Hn. destruct (Z.lt_ge_cases k 0) as [Hk|Hk].
  - rewrite Z.testbit_neg_r by lia. replace (n <=? k) with false by lia. reflexivity.
  - rewrite Z.shiftl_spec by lia. destruct (Z.leb_spec n k); [reflexivity|].
    rewrite Z.testbit_neg_r by lia. reflexivity.
Qed.
Lemma tb_shr a n k : 0 <= n -> Z.testbit (Z.shiftr a n) k = (0 <=? k) && Z.testbit a (k + n).
Proof.
  intros Hn. destruct (Z.leb_spec 0 k) as [Hk|Hk].
  - rewrite Z.shiftr_spec by lia. reflexivity.
  - rewrite Z.testbit_neg_r by lia. reflexivity.
Qed.
Lemma tb_one k : Z.testbit 1 k = (k =? 0).
Proof.
  destruct (Z.eqb_spec k 0) as [->|H]; [reflexivity|].
  destruct (Z.lt_ge_cases k 0); [apply Z.testbit_neg_r; lia|].
  apply (tb_small 1 1); lia.
Qed.
Lemma tb_neg a k : k < 0 -> Z.testbit a k = false.
Proof. apply Z.testbit_neg_r. Qed.

(* a value below 2^16 has no bit at 16 or above; a non-negative one equals its low 16 bits *)
Definition v16 (n : Z) : Prop := 0 <= n < 65536.
Lemma tb_v16 n k : v16 n -> 16 <= k -> Z.testbit n k = false.
Proof. intros H Hk. apply (tb_small n 16); [exact H | exact Hk]. Qed.

(* ---- the accessors, bit by bit ------------------------------------------------ *)
Lemma len_spec f i : Z.testbit (flag_len f) i = (0 <=? i) && (i <? 16) && Z.testbit f (i + 48).
Proof. unfold flag_len. rewrite tb_u16, tb_shr by lia. destruct (0 <=? i), (i <? 16); reflexivity. Qed.
Lemma position_spec f i : Z.testbit (flag_position f) i = (0 <=? i) && (i <? 16) && Z.testbit f (i + 32).
Proof. unfold flag_position. rewrite tb_u16, tb_shr by lia. destruct (0 <=? i), (i <? 16); reflexivity. Qed.
Lemma group_spec f i : Z.testbit (flag_group f) i = (0 <=? i) && (i <? 16) && Z.testbit f (i + 16).
Proof. unfold flag_group. rewrite tb_u16, tb_shr by lia. destruct (0 <=? i), (i <? 16); reflexivity. Qed.

(* case analysis on every comparison in the goal; contradictory branches die by lia *)
Ltac cmp_split :=
  repeat match goal with
  | |- context [?a <? ?b] => destruct (Z.ltb_spec a b)
  | |- context [?a <=? ?b] => destruct (Z.leb_spec a b)
  | |- context [?a =? ?b] => destruct (Z.eqb_spec a b)
  end; cbn [andb orb negb]; try lia.
(* what is left: equal bits at equal positions, or a bit outside its value's range *)
Ltac tb_close :=
  rewrite ?andb_true_r, ?andb_false_r, ?orb_false_r, ?orb_true_r;
  try reflexivity;
  try (f_equal; lia);
  try (f_equal; f_equal; lia).

(* ---- the three setters, bit by bit --------------------------------------------- *)
Lemma set_len_spec f n i : v16 n ->
  Z.testbit (flag_set_len f n) i =
  if i <? 0 then false
  else if i =? 0 then true
  else if i <? 32 then Z.testbit f i
  else if i <? 48 then Z.testbit f i
  else if i <? 64 then Z.testbit n (i - 48) else false.
Proof.
  intros Hn. unfold flag_set_len, FlagFrag.
  rewrite !Z.lor_spec, !tb_u64, tb_u32, !tb_shl, position_spec, tb_one by lia.
  cmp_split; tb_close; try (rewrite (tb_v16 n) by (exact Hn || lia)); tb_close.
  all: rewrite tb_neg by lia; reflexivity.
Qed.

Lemma set_position_spec f n i : v16 n ->
  Z.testbit (flag_set_position f n) i =
  if i <? 0 then false
  else if i =? 0 then true
  else if i <? 32 then Z.testbit f i
  else if i <? 48 then Z.testbit n (i - 32)
  else if i <? 64 then Z.testbit f i else false.
Proof.
  intros Hn. unfold flag_set_position, FlagFrag.
  rewrite !Z.lor_spec, !tb_u64, tb_u32, !tb_shl, len_spec, tb_one by lia.
  cmp_split; tb_close; try (rewrite (tb_v16 n) by (exact Hn || lia)); tb_close.
  all: rewrite tb_neg by lia; reflexivity.
Qed.

Lemma set_group_spec f n i : v16 n ->
  Z.testbit (flag_set_group f n) i =
  if i <? 0 then false
  else if i =? 0 then true
  else if i <? 16 then Z.testbit f i
  else if i <? 32 then Z.testbit n (i - 16)
  else if i <? 64 then Z.testbit f i else false.
Proof.
  intros Hn. unfold flag_set_group, FlagFrag.
  rewrite !Z.lor_spec, !tb_u64, tb_u16, !tb_shl, tb_shr, tb_one by lia.
  cmp_split; tb_close; try (rewrite (tb_v16 n) by (exact Hn || lia)); tb_close.
  all: rewrite tb_neg by lia; reflexivity.
Qed.

(* ---- field independence ------------------------------------------------------------
   for ALL words f (no range needed) and all 16-bit values n *)
Ltac field_tac n Hn :=
  apply Z.bits_inj'; intros i Hi;
  rewrite ?Z.lor_spec, ?len_spec, ?position_spec, ?group_spec, ?tb_u16, ?tb_one;
  rewrite ?set_len_spec, ?set_position_spec, ?set_group_spec by exact Hn;
  cmp_split; tb_close;
  try (rewrite (tb_v16 n) by (exact Hn || lia)); tb_close.

Lemma len_set_len f n : v16 n -> flag_len (flag_set_len f n) = n.
Proof. intros Hn. field_tac n Hn. Qed.
Lemma position_set_len f n : v16 n -> flag_position (flag_set_len f n) = flag_position f.
Proof. intros Hn. field_tac n Hn. Qed.
Lemma group_set_len f n : v16 n -> flag_group (flag_set_len f n) = flag_group f.
Proof. intros Hn. field_tac n Hn. Qed.
Lemma bits_set_len f n : v16 n -> u16 (flag_set_len f n) = Z.lor (u16 f) FlagFrag.
Proof. intros Hn. unfold FlagFrag. field_tac n Hn. Qed.

Lemma len_set_position f n : v16 n -> flag_len (flag_set_position f n) = flag_len f.
Proof. intros Hn. field_tac n Hn. Qed.
Lemma position_set_position f n : v16 n -> flag_position (flag_set_position f n) = n.
Proof. intros Hn. field_tac n Hn. Qed.
Lemma group_set_position f n : v16 n -> flag_group (flag_set_position f n) = flag_group f.
Proof. intros Hn. field_tac n Hn. Qed.
Lemma bits_set_position f n : v16 n -> u16 (flag_set_position f n) = Z.lor (u16 f) FlagFrag.
Proof. intros Hn. unfold FlagFrag. field_tac n Hn. Qed.

Lemma len_set_group f n : v16 n -> flag_len (flag_set_group f n) = flag_len f.
Proof. intros Hn. field_tac n Hn. Qed.
Lemma position_set_group f n : v16 n -> flag_position (flag_set_group f n) = flag_position f.
Proof. intros Hn. field_tac n Hn. Qed.
Lemma group_set_group f n : v16 n -> flag_group (flag_set_group f n) = n.
Proof. intros Hn. field_tac n Hn. Qed.
Lemma bits_set_group f n : v16 n -> u16 (flag_set_group f n) = Z.lor (u16 f) FlagFrag.
Proof. intros Hn. unfold FlagFrag. field_tac n Hn. Qed.

(* the bit part: Set / Unset of flag bits (a 16-bit mask) never touch the fragment fields *)
Lemma len_set f n : v16 n -> flag_len (flag_set f n) = flag_len f.
Proof. intros Hn. unfold flag_set. field_tac n Hn. Qed.
Lemma position_set f n : v16 n -> flag_position (flag_set f n) = flag_position f.
Proof. intros Hn. unfold flag_set. field_tac n Hn. Qed.
Lemma group_set f n : v16 n -> flag_group (flag_set f n) = flag_group f.
Proof. intros Hn. unfold flag_set. field_tac n Hn. Qed.
Lemma bits_set f n : v16 n -> u16 (flag_set f n) = Z.lor (u16 f) n.
Proof. intros Hn. unfold flag_set. field_tac n Hn. Qed.

Ltac unset_tac n Hn :=
  unfold flag_unset; apply Z.bits_inj'; intros i Hi;
  rewrite ?Z.ldiff_spec, ?len_spec, ?position_spec, ?group_spec, ?tb_u16, ?Z.ldiff_spec;
  cmp_split; tb_close;
  try (rewrite (tb_v16 n) by (exact Hn || lia)); cbn [negb]; tb_close.
Lemma len_unset f n : v16 n -> flag_len (flag_unset f n) = flag_len f.
Proof. intros Hn. unset_tac n Hn. Qed.
Lemma position_unset f n : v16 n -> flag_position (flag_unset f n) = flag_position f.
Proof. intros Hn. unset_tac n Hn. Qed.
Lemma group_unset f n : v16 n -> flag_group (flag_unset f n) = flag_group f.
Proof. intros Hn. unset_tac n Hn. Qed.
Lemma bits_unset f n : v16 n -> u16 (flag_unset f n) = Z.ldiff (u16 f) n.
Proof. intros Hn. unset_tac n Hn. Qed.

(* ---- Clear, as the code has it: Flag(uint16(f)) ^ FlagFrag ------------------------ *)
Lemma clear_spec f i : Z.testbit (flag_clear f) i = xorb ((i <? 16) && Z.testbit f i) (i =? 0).
Proof. unfold flag_clear, FlagFrag. rewrite Z.lxor_spec, tb_u16, tb_one. reflexivity. Qed.

Lemma clear_fields_zero f :
  flag_len (flag_clear f) = 0 /\ flag_position (flag_clear f) = 0 /\ flag_group (flag_clear f) = 0.
Proof.
  repeat split; apply Z.bits_inj'; intros i Hi;
    rewrite ?len_spec, ?position_spec, ?group_spec, clear_spec, Z.bits_0; cmp_split.
Qed.
(* on a fragment word: the frag bit is cleared and the other 15 flag bits survive *)
Lemma clear_keeps_bits_of_frag f : Z.testbit f 0 = true -> flag_clear f = Z.ldiff (u16 f) FlagFrag.
Proof.
  intros H. unfold FlagFrag. apply Z.bits_inj'; intros i Hi.
  rewrite clear_spec, Z.ldiff_spec, tb_u16, tb_one. cmp_split; subst; rewrite ?H; cbn [xorb negb andb]; tb_close.
  destruct (Z.testbit f i); reflexivity.
Qed.
(* recorded, not condemned by the property: on a word WITHOUT the frag bit Clear sets it (XOR) *)
Lemma clear_sets_frag_when_absent f : Z.testbit f 0 = false -> flag_clear f = Z.lor (u16 f) FlagFrag.
Proof.
  intros H. unfold FlagFrag. apply Z.bits_inj'; intros i Hi.
  rewrite clear_spec, Z.lor_spec, tb_u16, tb_one. cmp_split; subst; rewrite ?H; cbn [xorb orb andb]; tb_close.
  destruct (Z.testbit f i); reflexivity.
Qed.
(* what the receiver does with a single-fragment packet: after any setter, Clear gives back the
   16 flag bits of the original word without the frag bit *)
Lemma clear_after_setter f n : v16 n ->
  flag_clear (flag_set_len f n) = Z.ldiff (u16 f) FlagFrag /\
  flag_clear (flag_set_position f n) = Z.ldiff (u16 f) FlagFrag /\
  flag_clear (flag_set_group f n) = Z.ldiff (u16 f) FlagFrag.
Proof.
  intros Hn. unfold FlagFrag. repeat split; apply Z.bits_inj'; intros i Hi;
    rewrite clear_spec, Z.ldiff_spec, tb_u16, tb_one;
    rewrite ?set_len_spec, ?set_position_spec, ?set_group_spec by exact Hn;
    cmp_split; cbn [xorb negb andb]; tb_close; destruct (Z.testbit f i); reflexivity.
Qed.

(* ---- the setters stay inside 64 bits ------------------------------------------------ *)
Lemma lt_pow2_bits a n : 0 <= n -> 0 <= a -> (forall i, n <= i -> Z.testbit a i = false) -> a < 2 ^ n.
Proof.
  intros Hn Ha H. replace a with (a mod 2 ^ n); [apply Z.mod_pos_bound; lia|].
  apply Z.bits_inj'. intros i Hi. rewrite tb_mod_pow2 by lia.
  destruct (Z.ltb_spec i n) as [L|L]; [reflexivity|]. rewrite H by lia. reflexivity.
Qed.
Lemma u_nonneg x : 0 <= u16 x /\ 0 <= u32 x /\ 0 <= u64 x.
Proof. unfold u16, u32, u64. lia. Qed.
Lemma setters_in_range f n : v16 n ->
  0 <= flag_set_len f n < 18446744073709551616 /\
  0 <= flag_set_position f n < 18446744073709551616 /\
  0 <= flag_set_group f n < 18446744073709551616.
Proof.
  intros Hn. change 18446744073709551616 with (2 ^ 64).
  assert (N : forall a b c, 0 <= a -> 0 <= b -> 0 <= c -> 0 <= Z.lor (Z.lor (Z.lor a b) c) FlagFrag).
  { intros. unfold FlagFrag. repeat (apply Z.lor_nonneg; split); lia. }
  repeat split.
  - apply N; apply u_nonneg.
  - apply lt_pow2_bits; [lia | apply N; apply u_nonneg|]. intros i Hi. rewrite set_len_spec by exact Hn. cmp_split.
  - apply N; apply u_nonneg.
  - apply lt_pow2_bits; [lia | apply N; apply u_nonneg|]. intros i Hi. rewrite set_position_spec by exact Hn. cmp_split.
  - apply N; apply u_nonneg.
  - apply lt_pow2_bits; [lia | apply N; apply u_nonneg|]. intros i Hi. rewrite set_group_spec by exact Hn. cmp_split.
Qed.
