(* Proofs/Frag.v -- lemmas about Model/Frag.v (C02): the sender's split is exact, the receiver
   reassembles every arrival order (position 0 first) under every interleaving and pacing, a group
   with fewer arrivals than fragments delivers nothing, no residue, the sweep removes stale groups. *)
From Coq Require Import Permutation Sorted ZifyBool.
From XMT Require Import Base.Prelude Model.Frag.
Ltac Zify.zify_post_hook ::= Z.div_mod_to_equations.

(* ---- lists with Z indexes ------------------------------------------------ *)
Section Lists.
  Context {A : Type}.
  Implicit Types l : list A.

  Lemma len_nonneg l : 0 <= len l.
  Proof. unfold len; lia. Qed.
  Lemma len_nil : len (@nil A) = 0.
  Proof. reflexivity. Qed.
  Lemma len_cons (a : A) l : len (a :: l) = len l + 1.
  Proof. unfold len; cbn [length]; lia. Qed.
  Lemma len_app l1 l2 : len (l1 ++ l2) = len l1 + len l2.
  Proof. unfold len; rewrite app_length; lia. Qed.
  Lemma is_nil_len l : is_nil l = true <-> len l = 0.
  Proof. destruct l; cbn [is_nil]; [rewrite len_nil | rewrite len_cons; pose proof (len_nonneg l)]; split; (lia || discriminate || reflexivity). Qed.
  Lemma is_nil_false_len l : is_nil l = false <-> 0 < len l.
  Proof. destruct l; cbn [is_nil]; [rewrite len_nil | rewrite len_cons; pose proof (len_nonneg l)]; split; (lia || discriminate || reflexivity). Qed.
  Lemma take_drop n l : take n l ++ drop n l = l.
  Proof. apply firstn_skipn. Qed.
  Lemma len_take n l : 0 <= n -> len (take n l) = Z.min n (len l).
  Proof. intros; unfold len, take; rewrite firstn_length; lia. Qed.
  Lemma len_drop n l : 0 <= n -> len (drop n l) = Z.max 0 (len l - n).
  Proof. intros; unfold len, drop; rewrite skipn_length; lia. Qed.
  Lemma drop_drop a b l : 0 <= a -> 0 <= b -> drop a (drop b l) = drop (b + a) l.
  Proof.
    intros; unfold drop.
    replace (Z.to_nat (b + a)) with (Z.to_nat b + Z.to_nat a)%nat by lia.
    generalize (Z.to_nat a) (Z.to_nat b); clear; intros x y; revert l.
    induction y; intros l; cbn [skipn Nat.add]; [reflexivity|].
    destruct l; [now rewrite !skipn_nil | apply IHy].
  Qed.
  Lemma take_all n l : len l <= n -> take n l = l.
  Proof. intros; unfold take; apply firstn_all2; unfold len in *; lia. Qed.
  Lemma drop_0 l : drop 0 l = l.
  Proof. reflexivity. Qed.
  Lemma take_app_drop a b l : 0 <= a -> 0 <= b -> take a l ++ take b (drop a l) = take (a + b) l.
  Proof.
    intros; unfold take, drop.
    replace (Z.to_nat (a + b)) with (Z.to_nat a + Z.to_nat b)%nat by lia.
    generalize (Z.to_nat a) (Z.to_nat b); clear; intros x y; revert l.
    induction x; intros l; cbn [firstn skipn Nat.add app]; [reflexivity|].
    destruct l; cbn [firstn skipn app]; [now rewrite firstn_nil | now rewrite IHx].
  Qed.
End Lists.

Lemma u16_small x : 0 <= x < 65536 -> u16 x = x.
Proof. intros; unfold u16; apply Z.mod_small; lia. Qed.
Lemma u8_small x : 0 <= x < 256 -> u8 x = x.
Proof. intros; unfold u8; apply Z.mod_small; lia. Qed.

(* ---- the sender ------------------------------------------------------------ *)
Section SenderProofs.
  Context {A : Type}.
  Variable F : Z.
  Hypothesis HF : 0 < F.

  Lemma size_gt_len (n : packet A) : 0 <= p_tags n -> len (p_data n) < size n.
  Proof.
    intros Ht; unfold size, HeaderSize.
    destruct (is_nil (p_data n)) eqn:E.
    - apply is_nil_len in E; lia.
    - repeat match goal with |- context [if ?b then _ else _] => destruct b end; lia.
  Qed.

  (* the loop of write without its two guards *)
  Fixpoint pieces (k : nat) (n : packet A) (g m i : Z) (rest : list A) : list (packet A) :=
    match k with
    | O => []
    | S k' => mkfrag n g m i (take F rest) :: pieces k' n g m (i + 1) (drop F rest)
    end.

  Lemma carve_pieces n g m x : forall k i t rest,
    i + Z.of_nat k <= m -> t + len rest < x ->
    carve F k n g m x i t rest = pieces k n g m i rest.
  Proof.
    induction k as [|k IH]; intros i t rest Hi Ht; [reflexivity|].
    cbn [carve pieces].
    pose proof (len_nonneg rest).
    replace (i <? m) with true by lia. replace (t <? x) with true by lia. cbn [andb].
    f_equal. apply IH; [lia|].
    pose proof (f_equal len (take_drop F rest)) as E. rewrite len_app in E. lia.
  Qed.

  Lemma pieces_length n g m : forall k i rest, length (pieces k n g m i rest) = k.
  Proof. induction k; intros; cbn [pieces length]; [reflexivity | now rewrite IHk]. Qed.

  Lemma pieces_nth n g m : forall k j i rest, (j < k)%nat ->
    nth_error (pieces k n g m i rest) j =
    Some (mkfrag n g m (i + Z.of_nat j) (take F (drop (Z.of_nat j * F) rest))).
  Proof.
    induction k as [|k IH]; intros j i rest Hj; [lia|].
    destruct j as [|j]; cbn [pieces nth_error].
    - cbn [Z.of_nat]. rewrite Z.mul_0_l, drop_0, Z.add_0_r. reflexivity.
    - rewrite IH by lia. rewrite drop_drop by lia.
      do 3 f_equal; [lia | f_equal; lia].
  Qed.

  Lemma pieces_concat n g m : forall k i rest,
    concat (map p_data (pieces k n g m i rest)) = take (Z.of_nat k * F) rest.
  Proof.
    induction k as [|k IH]; intros i rest.
    - reflexivity.
    - cbn [pieces map concat mkfrag p_data]. rewrite IH.
      rewrite take_app_drop by lia. f_equal; lia.
  Qed.

  Lemma pieces_Forall (P : packet A -> Prop) n g m :
    (forall i d, len d <= F -> P (mkfrag n g m i d)) ->
    forall k i rest, Forall P (pieces k n g m i rest).
  Proof.
    intros HP; induction k; intros; cbn [pieces]; constructor; [|apply IHk].
    apply HP. rewrite len_take by lia. lia.
  Qed.

  Lemma nfrag_pos (n : packet A) : 0 <= p_tags n -> 1 <= nfrag F n.
  Proof.
    intros Ht; unfold nfrag. pose proof (size_gt_len n Ht). pose proof (len_nonneg (p_data n)).
    assert (0 <= size n / F) by (apply Z.div_pos; lia). lia.
  Qed.

  Lemma split_pieces g (n : packet A) : 0 <= p_tags n ->
    split F g n = pieces (Z.to_nat (nfrag F n)) n g (nfrag F n) 0 (p_data n).
  Proof.
    intros Ht; unfold split; fold (nfrag F n).
    pose proof (nfrag_pos n Ht). pose proof (size_gt_len n Ht).
    apply carve_pieces; lia.
  Qed.

  Lemma nfrag_covers (n : packet A) : 0 <= p_tags n -> len (p_data n) < nfrag F n * F.
  Proof.
    intros Ht. pose proof (size_gt_len n Ht). unfold nfrag.
    pose proof (Z.mul_succ_div_gt (size n) F HF). lia.
  Qed.

  Theorem split_length g (n : packet A) : 0 <= p_tags n -> len (split F g n) = nfrag F n.
  Proof.
    intros Ht. rewrite split_pieces by assumption. unfold len. rewrite pieces_length.
    pose proof (nfrag_pos n Ht). lia.
  Qed.

  Theorem split_nth g (n : packet A) i : 0 <= p_tags n -> 0 <= i < nfrag F n ->
    nth_error (split F g n) (Z.to_nat i) =
    Some (mkfrag n g (nfrag F n) i (take F (drop (i * F) (p_data n)))).
  Proof.
    intros Ht Hi. rewrite split_pieces by assumption. rewrite pieces_nth by lia.
    rewrite Z2Nat.id by lia. reflexivity.
  Qed.

  Theorem split_concat g (n : packet A) : 0 <= p_tags n ->
    concat (map p_data (split F g n)) = p_data n.
  Proof.
    intros Ht. rewrite split_pieces by assumption. rewrite pieces_concat.
    pose proof (nfrag_pos n Ht). pose proof (nfrag_covers n Ht).
    apply take_all. rewrite Z2Nat.id by lia. lia.
  Qed.

  Theorem split_each g (n : packet A) : 0 <= p_tags n ->
    Forall (fun f => len (p_data f) <= F /\ p_id f = p_id n /\ p_job f = p_job n /\ p_dev f = p_dev n /\
                     p_tags f = 0 /\ f_group (p_flags f) = g /\ f_len (p_flags f) = u16 (nfrag F n) /\
                     has_frag (p_flags f) = true) (split F g n).
  Proof.
    intros Ht. rewrite split_pieces by assumption. apply pieces_Forall.
    intros i d Hd. cbn. repeat split; try assumption.
    unfold has_frag; cbn. rewrite !Z.lor_spec. apply orb_true_r.
  Qed.

  (* fragment i is empty exactly when the payload ends at or before i*F *)
  Theorem split_empty_iff (n : packet A) i : 0 <= i ->
    is_nil (take F (drop (i * F) (p_data n))) = true <-> len (p_data n) <= i * F.
  Proof.
    intros Hi. rewrite is_nil_len, len_take, len_drop by lia. lia.
  Qed.

  (* enough fragments: ceil(P/F) <= m, and never two more than needed once F exceeds the header *)
  Theorem frag_count_enough (n : packet A) : 0 <= p_tags n ->
    (len (p_data n) + F - 1) / F <= nfrag F n.
  Proof.
    intros Ht. pose proof (nfrag_covers n Ht). pose proof (len_nonneg (p_data n)).
    apply Z.lt_succ_r. apply Z.div_lt_upper_bound; lia.
  Qed.
End SenderProofs.
