(* Proofs/Frag.v -- lemmas about Model/Frag.v (C02): the sender's split is exact, the receiver
   reassembles every arrival order (position 0 first) under every interleaving and pacing, a group
   with fewer arrivals than fragments delivers nothing, no residue, the sweep removes stale groups. *)
From Coq Require Import Permutation Sorted ZifyBool.
From XMT Require Import Base.Prelude Model.Frag.
Ltac Zify.zify_post_hook ::= Z.div_mod_to_equations.

(* ---- lists with Z indexes ------------------------------------------------ *)
Section Lists.
  Context {A : Type}.
  Implicit Types l : list A.

  Lemma len_nonneg l : 0 <= len l.
  Proof. unfold len; lia. Qed.
  Lemma len_nil : len (@nil A) = 0.
  Proof. reflexivity. Qed.
  Lemma len_cons (a : A) l : len (a :: l) = len l + 1.
  Proof. unfold len; cbn [length]; lia. Qed.
  Lemma len_app l1 l2 : len (l1 ++ l2) = len l1 + len l2.
  Proof. unfold len; rewrite app_length; lia. Qed.
  Lemma len_snoc l (a : A) : len (l ++ [a]) = len l + 1.
  Proof. rewrite len_app, len_cons, len_nil. lia. Qed.
  Lemma is_nil_len l : is_nil l = true <-> len l = 0.
  Proof. destruct l; cbn [is_nil]; [rewrite len_nil | rewrite len_cons; pose proof (len_nonneg l)]; split; (lia || discriminate || reflexivity). Qed.
  Lemma is_nil_false_len l : is_nil l = false <-> 0 < len l.
  Proof. destruct l; cbn [is_nil]; [rewrite len_nil | rewrite len_cons; pose proof (len_nonneg l)]; split; (lia || discriminate || reflexivity). Qed.
  Lemma take_drop n l : take n l ++ drop n l = l.
  Proof. apply firstn_skipn. Qed.
  Lemma len_take n l : 0 <= n -> len (take n l) = Z.min n (len l).
  Proof. intros; unfold len, take; rewrite firstn_length; lia. Qed.
  Lemma len_drop n l : 0 <= n -> len (drop n l) = Z.max 0 (len l - n).
  Proof. intros; unfold len, drop; rewrite skipn_length; lia. Qed.
  Lemma drop_drop a b l : 0 <= a -> 0 <= b -> drop a (drop b l) = drop (b + a) l.
  Proof.
    intros; unfold drop.
    replace (Z.to_nat (b + a)) with (Z.to_nat b + Z.to_nat a)%nat by lia.
    generalize (Z.to_nat a) (Z.to_nat b); clear; intros x y; revert l.
    induction y; intros l; cbn [skipn Nat.add]; [reflexivity|].
    destruct l; [now rewrite !skipn_nil | apply IHy].
  Qed.
  Lemma take_all n l : len l <= n -> take n l = l.
  Proof. intros; unfold take; apply firstn_all2; unfold len in *; lia. Qed.
  Lemma drop_0 l : drop 0 l = l.
  Proof. reflexivity. Qed.
  Lemma take_app_drop a b l : 0 <= a -> 0 <= b -> take a l ++ take b (drop a l) = take (a + b) l.
  Proof.
    intros; unfold take, drop.
    replace (Z.to_nat (a + b)) with (Z.to_nat a + Z.to_nat b)%nat by lia.
    generalize (Z.to_nat a) (Z.to_nat b); clear; intros x y; revert l.
    induction x; intros l; cbn [firstn skipn Nat.add app]; [reflexivity|].
    destruct l; cbn [firstn skipn app]; [now rewrite firstn_nil | now rewrite IHx].
  Qed.
End Lists.

Lemma u16_small x : 0 <= x < 65536 -> u16 x = x.
Proof. intros; unfold u16; apply Z.mod_small; lia. Qed.
Lemma u8_small x : 0 <= x < 256 -> u8 x = x.
Proof. intros; unfold u8; apply Z.mod_small; lia. Qed.

(* ---- the sender ------------------------------------------------------------ *)
Section SenderProofs.
  Context {A : Type}.
  Variable F : Z.
  Hypothesis HF : 0 < F.

  Lemma size_gt_len (n : packet A) : 0 <= p_tags n -> len (p_data n) < size n.
  Proof.
    intros Ht; unfold size, HeaderSize.
    destruct (is_nil (p_data n)) eqn:E.
    - apply is_nil_len in E; lia.
    - repeat match goal with |- context [if ?b then _ else _] => destruct b end; lia.
  Qed.

  (* the loop of write without its two guards *)
  Fixpoint pieces (k : nat) (n : packet A) (g m i : Z) (rest : list A) : list (packet A) :=
    match k with
    | O => []
    | S k' => mkfrag n g m i (take F rest) :: pieces k' n g m (i + 1) (drop F rest)
    end.

  Lemma carve_pieces n g m x : forall k i t rest,
    i + Z.of_nat k <= m -> t + len rest < x ->
    carve F k n g m x i t rest = pieces k n g m i rest.
  Proof.
    induction k as [|k IH]; intros i t rest Hi Ht; [reflexivity|].
    cbn [carve pieces].
    pose proof (len_nonneg rest).
    replace (i <? m) with true by lia. replace (t <? x) with true by lia. cbn [andb].
    f_equal. apply IH; [lia|].
    pose proof (f_equal len (take_drop F rest)) as E. rewrite len_app in E. lia.
  Qed.

  Lemma pieces_length n g m : forall k i rest, length (pieces k n g m i rest) = k.
  Proof. induction k; intros; cbn [pieces length]; [reflexivity | now rewrite IHk]. Qed.

  Lemma pieces_nth n g m : forall k j i rest, (j < k)%nat ->
    nth_error (pieces k n g m i rest) j =
    Some (mkfrag n g m (i + Z.of_nat j) (take F (drop (Z.of_nat j * F) rest))).
  Proof.
    induction k as [|k IH]; intros j i rest Hj; [lia|].
    destruct j as [|j]; cbn [pieces nth_error].
    - cbn [Z.of_nat]. rewrite Z.mul_0_l, drop_0, Z.add_0_r. reflexivity.
    - rewrite IH by lia. rewrite drop_drop by lia.
      replace (i + 1 + Z.of_nat j) with (i + Z.of_nat (S j)) by lia.
      replace (F + Z.of_nat j * F) with (Z.of_nat (S j) * F) by lia. reflexivity.
  Qed.

  Lemma pieces_concat n g m : forall k i rest,
    concat (map p_data (pieces k n g m i rest)) = take (Z.of_nat k * F) rest.
  Proof.
    induction k as [|k IH]; intros i rest.
    - reflexivity.
    - cbn [pieces map concat mkfrag p_data]. rewrite IH.
      rewrite take_app_drop by lia. f_equal; lia.
  Qed.

  Lemma pieces_Forall (P : packet A -> Prop) n g m :
    (forall i d, len d <= F -> P (mkfrag n g m i d)) ->
    forall k i rest, Forall P (pieces k n g m i rest).
  Proof.
    intros HP; induction k; intros; cbn [pieces]; constructor; [|apply IHk].
    apply HP. rewrite len_take by lia. lia.
  Qed.

  Lemma nfrag_pos (n : packet A) : 0 <= p_tags n -> 1 <= nfrag F n.
  Proof.
    intros Ht; unfold nfrag. pose proof (size_gt_len n Ht). pose proof (len_nonneg (p_data n)).
    assert (0 <= size n / F) by (apply Z.div_pos; lia). lia.
  Qed.

  Lemma split_pieces g (n : packet A) : 0 <= p_tags n ->
    split F g n = pieces (Z.to_nat (nfrag F n)) n g (nfrag F n) 0 (p_data n).
  Proof.
    intros Ht; unfold split; fold (nfrag F n).
    pose proof (nfrag_pos n Ht). pose proof (size_gt_len n Ht).
    apply carve_pieces; lia.
  Qed.

  Lemma nfrag_covers (n : packet A) : 0 <= p_tags n -> len (p_data n) < nfrag F n * F.
  Proof.
    intros Ht. pose proof (size_gt_len n Ht). unfold nfrag.
    pose proof (Z.mul_succ_div_gt (size n) F HF). lia.
  Qed.

  Theorem split_length g (n : packet A) : 0 <= p_tags n -> len (split F g n) = nfrag F n.
  Proof.
    intros Ht. rewrite split_pieces by assumption. unfold len. rewrite pieces_length.
    pose proof (nfrag_pos n Ht). lia.
  Qed.

  Theorem split_nth g (n : packet A) i : 0 <= p_tags n -> 0 <= i < nfrag F n ->
    nth_error (split F g n) (Z.to_nat i) =
    Some (mkfrag n g (nfrag F n) i (take F (drop (i * F) (p_data n)))).
  Proof.
    intros Ht Hi. rewrite split_pieces by assumption. rewrite pieces_nth by lia.
    rewrite Z2Nat.id by lia. reflexivity.
  Qed.

  Theorem split_concat g (n : packet A) : 0 <= p_tags n ->
    concat (map p_data (split F g n)) = p_data n.
  Proof.
    intros Ht. rewrite split_pieces by assumption. rewrite pieces_concat.
    pose proof (nfrag_pos n Ht). pose proof (nfrag_covers n Ht).
    apply take_all. rewrite Z2Nat.id by lia. lia.
  Qed.

  Theorem split_each g (n : packet A) : 0 <= p_tags n ->
    Forall (fun f => len (p_data f) <= F /\ p_id f = p_id n /\ p_job f = p_job n /\ p_dev f = p_dev n /\
                     p_tags f = 0 /\ f_group (p_flags f) = g /\ f_len (p_flags f) = u16 (nfrag F n) /\
                     has_frag (p_flags f) = true) (split F g n).
  Proof.
    intros Ht. rewrite split_pieces by assumption. apply pieces_Forall.
    intros i d Hd. unfold mkfrag, has_frag, set_pos, set_len, set_group.
    cbn [p_data p_id p_job p_dev p_tags p_flags f_group f_len f_bits f_pos].
    repeat split; try assumption.
    rewrite !Z.lor_spec. apply orb_true_r.
  Qed.

  (* fragment i is empty exactly when the payload ends at or before i*F *)
  Theorem split_empty_iff (n : packet A) i : 0 <= i ->
    is_nil (take F (drop (i * F) (p_data n))) = true <-> len (p_data n) <= i * F.
  Proof.
    intros Hi. rewrite is_nil_len, len_take, len_drop by lia. lia.
  Qed.

  (* enough fragments: ceil(P/F) <= m, and never two more than needed once F exceeds the header *)
  Theorem frag_count_enough (n : packet A) : 0 <= p_tags n ->
    (len (p_data n) + F - 1) / F <= nfrag F n.
  Proof.
    intros Ht. pose proof (nfrag_covers n Ht). pose proof (len_nonneg (p_data n)).
    apply Z.lt_succ_r. apply Z.div_lt_upper_bound; lia.
  Qed.
End SenderProofs.

(* write = the split, stamped and queued, whenever the queue has room for every fragment *)
Section WriteProofs.
  Context {A : Type}.
  Variables F cap : Z.
  Hypothesis HF : 0 < F.

  Theorem write_is_split (w : bool) (local qlen g : Z) (n : packet A) :
    0 <= p_tags n -> F < size n ->
    (w = true \/ qlen + (nfrag F n - 1) < cap) ->
    nfrag F n <= cap - qlen ->
    write F cap w local qlen g n = (0, map (stamp local) (split F g n)).
  Proof.
    intros Ht Hs Hw Hroom. unfold write, write_plan.
    replace ((F <=? 0) || (size n <=? F)) with false by lia.
    pose proof (Z.mul_succ_div_gt (size n) F HF) as Hd.
    replace ((size n / F + 1) * F <? size n) with false by lia.
    assert (negb w && (cap <=? qlen + size n / F) = false) as ->.
    { unfold nfrag in Hw. destruct Hw as [->|Hw]; [reflexivity|]. destruct w; cbn [negb andb]; lia. }
    fold (nfrag F n). fold (split F g n). unfold enqueue. f_equal.
    apply take_all. unfold len. rewrite map_length. fold (len (split F g n)).
    rewrite split_length by assumption. lia.
  Qed.

  Lemma stamp_addressed (local : Z) (p : packet A) : p_dev p <> 0 -> stamp local p = p.
  Proof. intros H; unfold stamp. replace (p_dev p =? 0) with false by lia. reflexivity. Qed.
End WriteProofs.

(* the refusal rule of write(false, ...): accepted exactly when everything fits, and then everything is queued;
   refused: nothing is queued.  For every occupancy of the queue and every fragment count. *)
Section WriteRefusal.
  Context {A : Type}.
  Variables F cap : Z.
  Hypothesis HF : 0 < F.

  Theorem write_refusal_exact (local qlen g : Z) (n : packet A) : 0 <= p_tags n ->
    (size n <= F ->
       (cap <= qlen + 1 -> write F cap false local qlen g n = (ErrFullBuffer, [])) /\
       (qlen + 1 < cap -> write F cap false local qlen g n = (0, [stamp local n]))) /\
    (F < size n ->
       (cap - qlen < nfrag F n -> write F cap false local qlen g n = (ErrFullBuffer, [])) /\
       (nfrag F n <= cap - qlen -> write F cap false local qlen g n = (0, map (stamp local) (split F g n)))).
  Proof.
    intros Ht. split; intros Hs.
    - unfold write, write_plan. replace ((F <=? 0) || (size n <=? F)) with true by lia. cbn [negb andb].
      split; intros Hq.
      + replace (cap <=? qlen + 1) with true by lia. unfold enqueue, take. cbn [map]. now rewrite firstn_nil.
      + replace (cap <=? qlen + 1) with false by lia. unfold enqueue. cbn [map]. f_equal.
        apply take_all. rewrite len_cons, len_nil. lia.
    - split; intros Hq.
      + unfold write, write_plan. replace ((F <=? 0) || (size n <=? F)) with false by lia.
        pose proof (Z.mul_succ_div_gt (size n) F HF) as Hd.
        replace ((size n / F + 1) * F <? size n) with false by lia. cbn [negb andb].
        unfold nfrag in Hq. replace (cap <=? qlen + size n / F) with true by lia.
        unfold enqueue, take. cbn [map]. now rewrite firstn_nil.
      + apply (write_is_split F cap HF); auto; try lia.
  Qed.

  Corollary write_false_all_or_nothing (local qlen g : Z) (n : packet A) : 0 <= p_tags n ->
    (fst (write F cap false local qlen g n) = 0 ->
       snd (write F cap false local qlen g n) = map (stamp local) (if size n <=? F then [n] else split F g n)) /\
    (fst (write F cap false local qlen g n) <> 0 ->
       fst (write F cap false local qlen g n) = ErrFullBuffer /\ snd (write F cap false local qlen g n) = []).
  Proof.
    intros Ht. destruct (write_refusal_exact local qlen g n Ht) as [H1 H2].
    destruct (Z.leb_spec (size n) F) as [Hs|Hs].
    - destruct (H1 Hs) as [Ha Hb]. destruct (Z.le_gt_cases cap (qlen + 1)) as [Hq|Hq].
      + rewrite (Ha Hq). cbn [fst snd]. split; [discriminate | auto].
      + rewrite (Hb ltac:(lia)). cbn [fst snd map]. split; [reflexivity | intros H; contradiction].
    - destruct (H2 Hs) as [Ha Hb]. destruct (Z.lt_ge_cases (cap - qlen) (nfrag F n)) as [Hq|Hq].
      + rewrite (Ha Hq). cbn [fst snd]. split; [discriminate | auto].
      + rewrite (Hb Hq). cbn [fst snd]. split; [reflexivity | intros H; contradiction].
  Qed.
End WriteRefusal.

(* ---- flag bits ------------------------------------------------------------- *)
Lemma testbit_1 k : Z.testbit 1 k = (k =? 0).
Proof.
  destruct (Z.ltb_spec k 0) as [Hk|Hk].
  - rewrite Z.testbit_neg_r by lia. lia.
  - change 1 with (2 ^ 0). rewrite Z.pow2_bits_eqb by lia. lia.
Qed.
Lemma lor1_bit0 b : Z.testbit (Z.lor b 1) 0 = true.
Proof. rewrite Z.lor_spec, testbit_1. apply orb_true_r. Qed.
Lemma lor1_bitk b k : k <> 0 -> Z.testbit (Z.lor b 1) k = Z.testbit b k.
Proof. intros. rewrite Z.lor_spec, testbit_1. replace (k =? 0) with false by lia. apply orb_false_r. Qed.
Lemma lor1_nonzero b : Z.lor b 1 <> 0.
Proof. intros E. pose proof (lor1_bit0 b) as H. rewrite E in H. discriminate. Qed.
Lemma lor1_idem b : Z.lor (Z.lor b 1) 1 = Z.lor b 1.
Proof. rewrite <- Z.lor_assoc. reflexivity. Qed.
(* Flag.Clear after the setters gives back the low bits of the original whenever FlagFrag was not set in it *)
Lemma clear_frag_bits b : Z.testbit b 0 = false -> Z.lxor (Z.lor b 1) 1 = b.
Proof.
  intros H. apply Z.bits_inj'. intros k Hk.
  rewrite Z.lxor_spec, Z.lor_spec, testbit_1.
  destruct (Z.eqb_spec k 0) as [->|]; [rewrite H; reflexivity|].
  rewrite orb_false_r, xorb_false_r. reflexivity.
Qed.

(* ---- the reassembly table --------------------------------------------------- *)
Section Table.
  Context {A : Type}.
  Implicit Types st : state A.
  Definition wf st : Prop := NoDup (map fst st).

  Lemma lookup_none_notin g st : lookup g st = None <-> ~ In g (map fst st).
  Proof.
    induction st as [|[k c] r IH]; cbn [lookup map fst In]; [tauto|].
    destruct (Z.eqb_spec k g); split; intros H; try discriminate; try tauto.
    all: try (exfalso; apply H; now left).
    all: try (intros [E|E]; [congruence | tauto]).
  Qed.
  Lemma lookup_some_in g st c : lookup g st = Some c -> In (g, c) st.
  Proof.
    induction st as [|[k c'] r IH]; cbn [lookup In]; [discriminate|].
    destruct (Z.eqb_spec k g); intros H; [inversion H; subst; now left | right; auto].
  Qed.
  Lemma lookup_remove_same g st : lookup g (remove g st) = None.
  Proof.
    induction st as [|[k c] r IH]; cbn [remove filter fst]; [reflexivity|].
    fold (remove g r). destruct (Z.eqb_spec k g); cbn [negb]; [exact IH|].
    cbn [lookup]. destruct (Z.eqb_spec k g); [contradiction | exact IH].
  Qed.
  Lemma lookup_remove_other g g' st : g' <> g -> lookup g (remove g' st) = lookup g st.
  Proof.
    intros Hn. induction st as [|[k c] r IH]; cbn [remove filter fst]; [reflexivity|].
    fold (remove g' r). destruct (Z.eqb_spec k g'); cbn [negb lookup].
    - subst. destruct (Z.eqb_spec g' g); [contradiction | exact IH].
    - rewrite IH. reflexivity.
  Qed.
  Lemma lookup_set_same g oc st : lookup g (set g oc st) = oc.
  Proof.
    destruct oc; cbn [set lookup]; [rewrite Z.eqb_refl; reflexivity | apply lookup_remove_same].
  Qed.
  Lemma lookup_set_other g g' oc st : g' <> g -> lookup g (set g' oc st) = lookup g st.
  Proof.
    intros Hn. destruct oc; cbn [set lookup]; [|now apply lookup_remove_other].
    destruct (Z.eqb_spec g' g); [contradiction | now apply lookup_remove_other].
  Qed.
  Lemma remove_keys_incl g st : incl (map fst (remove g st)) (map fst st).
  Proof.
    induction st as [|[k c] r IH]; cbn [remove filter fst map]; [apply incl_refl|].
    fold (remove g r). destruct (negb (k =? g)); cbn [map fst]; [|now apply incl_tl].
    apply incl_cons; [apply in_eq | apply incl_tl, IH].
  Qed.
  Lemma wf_remove g st : wf st -> wf (remove g st).
  Proof.
    unfold wf. induction st as [|[k c] r IH]; cbn [remove filter fst map]; [auto|].
    fold (remove g r). intros H. inversion H; subst.
    destruct (negb (k =? g)); cbn [map fst]; auto.
    constructor; auto. intros Hin. apply (remove_keys_incl g r) in Hin. contradiction.
  Qed.
  Lemma wf_set g oc st : wf st -> wf (set g oc st).
  Proof.
    intros H. destruct oc; cbn [set]; [|now apply wf_remove].
    unfold wf; cbn [map fst]. constructor; [|now apply wf_remove].
    apply lookup_none_notin, lookup_remove_same.
  Qed.
  Lemma wf_nil : wf [].
  Proof. constructor. Qed.

  Lemma sweep_keys_incl st : incl (map fst (sweep st)) (map fst st).
  Proof.
    induction st as [|[k c] r IH]; cbn [sweep map fst]; [apply incl_refl|].
    destruct (u8 (c_c c - 1) =? 0); cbn [map fst]; [now apply incl_tl|].
    apply incl_cons; [apply in_eq | apply incl_tl, IH].
  Qed.
  Lemma wf_sweep st : wf st -> wf (sweep st).
  Proof.
    unfold wf. induction st as [|[k c] r IH]; cbn [sweep map fst]; [auto|].
    intros H; inversion H; subst.
    destruct (u8 (c_c c - 1) =? 0); cbn [map fst]; auto.
    constructor; auto. intros Hin. apply sweep_keys_incl in Hin. contradiction.
  Qed.
  Lemma lookup_sweep_none g st : lookup g st = None -> lookup g (sweep st) = None.
  Proof.
    rewrite !lookup_none_notin. intros H Hin. apply sweep_keys_incl in Hin. contradiction.
  Qed.
  Lemma lookup_sweep_some g st c : wf st -> lookup g st = Some c ->
    lookup g (sweep st) =
    if u8 (c_c c - 1) =? 0 then None else Some (mkCluster (c_max c) (c_e c) (u8 (c_c c - 1)) (c_data c)).
  Proof.
    unfold wf. induction st as [|[k c'] r IH]; cbn [lookup sweep map fst]; [discriminate|].
    intros Hwf H. inversion Hwf; subst.
    destruct (Z.eqb_spec k g).
    - inversion H; subst. destruct (u8 (c_c c - 1) =? 0).
      + apply lookup_sweep_none. now apply lookup_none_notin.
      + cbn [lookup]. rewrite Z.eqb_refl. reflexivity.
    - destruct (u8 (c_c c' - 1) =? 0); [now apply IH|].
      cbn [lookup]. destruct (Z.eqb_spec k g); [contradiction | now apply IH].
  Qed.
End Table.

(* ---- receive(): which part of the table one call can touch ------------------ *)
Section RecvFrame.
  Context {A : Type}.
  Implicit Types (st : state A) (p : packet A).

  Lemma cl_done_len0 (c : cluster A) v : cl_done c = Some v -> f_len (p_flags v) = 0.
  Proof.
    unfold cl_done. destruct (is_nil (c_data c)); [discriminate|].
    destruct (c_max c <? _); [|discriminate].
    destruct (sort_pos (c_data c)); [discriminate|].
    intros H; inversion H; reflexivity.
  Qed.

  Lemma frag_step_again oc p oc' v : frag_step oc p = (oc', FAgain v) -> f_len (p_flags v) = 0.
  Proof.
    unfold frag_step.
    assert (forall c, match cl_add c p with
                      | Ok c' => match cl_done c' with Some v => (None, FAgain v) | None => (Some c', FNone) end
                      | Err e => (Some c, FErr e)
                      | Panic => (Some c, FErr ErrUnmodelled)
                      end = (oc', FAgain v) -> f_len (p_flags v) = 0) as Hgo.
    { intros c. destruct (cl_add c p); try discriminate.
      destruct (cl_done a) eqn:E; [|discriminate]. intros H; inversion H; subst. eapply cl_done_len0; eauto. }
    destruct oc; [apply Hgo|].
    destruct (0 <? f_pos (p_flags p)); [discriminate | apply Hgo].
  Qed.

  Lemma frag_step_err oc p oc' e : frag_step oc p = (oc', FErr e) -> e = ErrNotBelongs \/ e = ErrUnmodelled.
  Proof.
    unfold frag_step.
    assert (forall c, match cl_add c p with
                      | Ok c' => match cl_done c' with Some v => (None, FAgain v) | None => (Some c', FNone) end
                      | Err e => (Some c, FErr e)
                      | Panic => (Some c, FErr ErrUnmodelled)
                      end = (oc', FErr e) -> e = ErrNotBelongs \/ e = ErrUnmodelled) as Hgo.
    { intros c. unfold cl_add.
      destruct (match c_data c with [] => false | d0 :: _ => negb (belongs d0 p) end).
      - intros H; inversion H; now left.
      - destruct (is_nil (p_data p)); match goal with |- context [cl_done ?x] => destruct (cl_done x) end; discriminate. }
    destruct oc; [apply Hgo|].
    destruct (0 <? f_pos (p_flags p)); [discriminate | apply Hgo].
  Qed.

  Lemma recv_f_S k self st p : recv_f (S k) self st p =
      if (p_dev p =? 0) || is_nop p then (st, ONone)
      else if negb (has_multidev (p_flags p)) && negb (self =? p_dev p) then (st, OErr ErrWrongDevice)
      else if (p_id p =? SvComplete) && negb (has_crypt (p_flags p)) then (st, ONone)
      else if has_multi (p_flags p) then (st, OErr ErrUnmodelled)
      else if has_frag (p_flags p) then
        if (p_id p =? SvDrop) || (p_id p =? SvRegister) then (st, OErr ErrUnmodelled)
        else if f_len (p_flags p) =? 0 then (st, OErr ErrInvalidPacketCount)
        else if f_len (p_flags p) =? 1 then recv_f k self st (with_flags (fclear (p_flags p)) p)
        else
          let g := f_group (p_flags p) in
          let '(oc, fo) := frag_step (lookup g st) p in
          let st' := set g oc st in
          match fo with
          | FNone => (st', ONone)
          | FDrop f => (st', ODrop f self)
          | FErr e => (st', OErr e)
          | FAgain v => recv_f k self st' v
          end
      else (st, recv_single p).
  Proof. reflexivity. Qed.

  (* a packet whose Len field is zero never changes the table *)
  Lemma recv_f_len0 k self st p : f_len (p_flags p) = 0 -> fst (recv_f k self st p) = st.
  Proof.
    intros H. destruct k; [reflexivity|]. rewrite recv_f_S. rewrite H. cbn [Z.eqb].
    repeat match goal with |- context [if ?b then _ else _] => destruct b end; reflexivity.
  Qed.

  Lemma recv_f_frame k self st p :
    fst (recv_f k self st p) = st \/ exists oc, fst (recv_f k self st p) = set (f_group (p_flags p)) oc st.
  Proof.
    destruct k; [left; reflexivity|]. rewrite recv_f_S. cbv zeta.
    destruct ((p_dev p =? 0) || is_nop p); [left; reflexivity|].
    destruct (negb (has_multidev (p_flags p)) && negb (self =? p_dev p)); [left; reflexivity|].
    destruct ((p_id p =? SvComplete) && negb (has_crypt (p_flags p))); [left; reflexivity|].
    destruct (has_multi (p_flags p)); [left; reflexivity|].
    destruct (has_frag (p_flags p)); [|left; reflexivity].
    destruct ((p_id p =? SvDrop) || (p_id p =? SvRegister)); [left; reflexivity|].
    destruct (f_len (p_flags p) =? 0); [left; reflexivity|].
    destruct (f_len (p_flags p) =? 1); [left; apply recv_f_len0; reflexivity|].
    destruct (frag_step (lookup (f_group (p_flags p)) st) p) as [oc fo] eqn:E.
    right; exists oc. destruct fo; try reflexivity.
    apply recv_f_len0. eapply frag_step_again; eauto.
  Qed.

  Lemma recv_lookup_other g self st p : f_group (p_flags p) <> g ->
    lookup g (fst (recv self st p)) = lookup g st.
  Proof.
    intros Hn. unfold recv. destruct (recv_f_frame 3 self st p) as [->|[oc ->]]; [reflexivity|].
    now apply lookup_set_other.
  Qed.
  Lemma recv_wf self st p : wf st -> wf (fst (recv self st p)).
  Proof.
    intros H. unfold recv. destruct (recv_f_frame 3 self st p) as [->|[oc ->]]; [assumption|].
    now apply wf_set.
  Qed.

  (* the fuel of recv is enough: a reassembled packet has Len 0 and is not split again *)
  Lemma recv_f_len0_fuel k self st p : f_len (p_flags p) = 0 ->
    snd (recv_f (S k) self st p) <> OErr ErrOutOfFuel.
  Proof.
    intros H. rewrite recv_f_S. rewrite H. cbn [Z.eqb].
    unfold recv_single.
    repeat match goal with |- context [if ?b then _ else _] => destruct b end; cbn [snd]; discriminate.
  Qed.
  Theorem recv_fuel_enough self st p : snd (recv self st p) <> OErr ErrOutOfFuel.
  Proof.
    unfold recv. rewrite recv_f_S. cbv zeta.
    destruct ((p_dev p =? 0) || is_nop p); [discriminate|].
    destruct (negb (has_multidev (p_flags p)) && negb (self =? p_dev p)); [discriminate|].
    destruct ((p_id p =? SvComplete) && negb (has_crypt (p_flags p))); [discriminate|].
    destruct (has_multi (p_flags p)); [discriminate|].
    destruct (has_frag (p_flags p)).
    2:{ unfold recv_single. repeat match goal with |- context [if ?b then _ else _] => destruct b end; cbn [snd]; discriminate. }
    destruct ((p_id p =? SvDrop) || (p_id p =? SvRegister)); [discriminate|].
    destruct (f_len (p_flags p) =? 0); [discriminate|].
    destruct (f_len (p_flags p) =? 1); [apply recv_f_len0_fuel; reflexivity|].
    destruct (frag_step (lookup (f_group (p_flags p)) st) p) as [oc fo] eqn:E.
    destruct fo; try discriminate.
    - apply frag_step_err in E. cbn [snd]. intros H; inversion H; subst. destruct E; discriminate.
    - apply recv_f_len0_fuel. eapply frag_step_again; eauto.
  Qed.
End RecvFrame.

(* ---- fewer arrivals than fragments: nothing is delivered ---------------------- *)
Section Missing.
  Context {A : Type}.
  Variables (g M self : Z).
  Hypothesis HM : 2 <= M <= 65535.

  (* what is known of an arriving packet of the group: a fragment announcing M fragments *)
  Definition frag_of (p : packet A) : Prop := f_len (p_flags p) = M /\ has_frag (p_flags p) = true.

  Definition below (cnt : Z) (st : state A) : Prop :=
    Forall (fun kc : Z * cluster A => fst kc = g -> 0 <= c_e (snd kc) /\ len (c_data (snd kc)) + c_e (snd kc) <= cnt) st.

  Lemma below_mono cnt cnt' st : cnt <= cnt' -> below cnt st -> below cnt' st.
  Proof. intros Hle H. eapply Forall_impl; [|exact H]. cbv beta. intros kc Hk Hg. specialize (Hk Hg). lia. Qed.
  Lemma below_sweep cnt st : below cnt st -> below cnt (sweep st).
  Proof.
    unfold below. induction st as [|[k c] r IH]; cbn [sweep]; [auto|].
    intros H; inversion H; subst.
    destruct (u8 (c_c c - 1) =? 0); [auto|]. constructor; auto.
  Qed.
  Lemma below_remove cnt g' st : below cnt st -> below cnt (remove g' st).
  Proof.
    unfold below, remove. intros H. apply Forall_forall. intros x Hx. apply filter_In in Hx.
    rewrite Forall_forall in H. apply H, Hx.
  Qed.
  Lemma below_set_other cnt g' oc st : g' <> g -> below cnt st -> below cnt (set g' oc st).
  Proof.
    intros Hn H. destruct oc; cbn [set]; [|now apply below_remove].
    constructor; [cbn [fst]; intros; contradiction | now apply below_remove].
  Qed.
  Lemma below_set_own cnt (c : cluster A) st :
    0 <= c_e c -> len (c_data c) + c_e c <= cnt -> below cnt st -> below cnt (set g (Some c) st).
  Proof. intros; cbn [set]. constructor; [cbn [fst snd]; auto | now apply below_remove]. Qed.
  Lemma below_lookup cnt st c : below cnt st -> lookup g st = Some c -> 0 <= c_e c /\ len (c_data c) + c_e c <= cnt.
  Proof.
    intros H L. apply lookup_some_in in L. unfold below in H. rewrite Forall_forall in H.
    apply (H _ L). reflexivity.
  Qed.

  Lemma below_recv_foreign cnt st p : f_group (p_flags p) <> g -> below cnt st -> below cnt (fst (recv self st p)).
  Proof.
    intros Hn H. unfold recv. destruct (recv_f_frame 3 self st p) as [->|[oc ->]]; [assumption|].
    now apply below_set_other.
  Qed.

  (* one more arrival of the group while fewer than M have arrived: no delivery *)
  Lemma below_recv_own cnt st p : 0 <= cnt -> cnt + 1 < M -> frag_of p -> f_group (p_flags p) = g ->
    below cnt st ->
    below (cnt + 1) (fst (recv self st p)) /\ is_deliver (snd (recv self st p)) = false.
  Proof.
    intros Hc Hlt [Hlen Hfrag] Hg Hb. unfold recv. rewrite recv_f_S. cbv zeta.
    assert (below (cnt + 1) st) as Hb1 by (eapply below_mono; [|exact Hb]; lia).
    destruct ((p_dev p =? 0) || is_nop p); [split; [assumption|reflexivity]|].
    destruct (negb (has_multidev (p_flags p)) && negb (self =? p_dev p)); [split; [assumption|reflexivity]|].
    destruct ((p_id p =? SvComplete) && negb (has_crypt (p_flags p))); [split; [assumption|reflexivity]|].
    destruct (has_multi (p_flags p)); [split; [assumption|reflexivity]|].
    rewrite Hfrag.
    destruct ((p_id p =? SvDrop) || (p_id p =? SvRegister)); [split; [assumption|reflexivity]|].
    rewrite Hlen. replace (M =? 0) with false by lia. replace (M =? 1) with false by lia.
    rewrite Hg.
    (* the step on a cluster c that satisfies the bound *)
    assert (forall c : cluster A, 0 <= c_e c -> len (c_data c) + c_e c <= cnt ->
            exists c', 0 <= c_e c' /\ len (c_data c') + c_e c' <= cnt + 1 /\
              (match cl_add c p with
               | Ok c' => match cl_done c' with Some v => (None, FAgain v) | None => (Some c', FNone) end
               | Err e => (Some c, FErr e)
               | Panic => (Some c, FErr ErrUnmodelled)
               end = (Some c', FNone) \/
               exists e, match cl_add c p with
               | Ok c' => match cl_done c' with Some v => (None, FAgain v) | None => (Some c', FNone) end
               | Err e => (Some c, FErr e)
               | Panic => (Some c, FErr ErrUnmodelled)
               end = (Some c', FErr e))) as Hgo.
    { intros c He Hle. unfold cl_add.
      destruct (match c_data c with [] => false | d0 :: _ => negb (belongs d0 p) end).
      { exists c. repeat split; try lia. right. eexists; reflexivity. }
      rewrite Hlen. rewrite (u16_small (M - 1)) by lia.
      pose proof (len_nonneg (c_data c)) as Hl.
      destruct (is_nil (p_data p)).
      - rewrite (u16_small (c_e c + 1)) by lia.
        eexists. split; [|split]; [| |left].
        3:{ unfold cl_done; cbn [c_data c_max c_e].
            destruct (is_nil (c_data c)); [reflexivity|].
            rewrite (u16_small (len (c_data c))) by lia. rewrite u16_small by lia.
            replace (M - 1 <? len (c_data c) + (c_e c + 1)) with false by lia. reflexivity. }
        all: cbn [c_e c_data]; lia.
      - eexists. split; [|split]; [| |left].
        3:{ unfold cl_done; cbn [c_data c_max c_e].
            destruct (is_nil (c_data c ++ [p])); [reflexivity|].
            rewrite len_app, len_cons, len_nil.
            rewrite (u16_small (len (c_data c) + (0 + 1))) by lia. rewrite u16_small by lia.
            replace (M - 1 <? len (c_data c) + (0 + 1) + c_e c) with false by lia. reflexivity. }
        all: cbn [c_e c_data]; try rewrite len_app, len_cons, len_nil; lia. }
    unfold frag_step.
    destruct (lookup g st) as [c|] eqn:L.
    - destruct (below_lookup _ _ _ Hb L) as [He Hle].
      destruct (Hgo c He Hle) as (c' & He' & Hle' & [->| [e ->]]); cbn [fst snd is_deliver]; (split; [|reflexivity]);
        apply below_set_own; auto.
    - destruct (0 <? f_pos (p_flags p)).
      + cbn [fst snd set is_deliver]. split; [now apply below_remove | reflexivity].
      + assert (0 <= c_e (@mkCluster A 0 0 0 [])) as H0 by (cbn [c_e]; lia).
        assert (len (c_data (@mkCluster A 0 0 0 [])) + c_e (@mkCluster A 0 0 0 []) <= cnt) as H1
          by (cbn [c_e c_data]; unfold len; cbn [length]; lia).
        destruct (Hgo _ H0 H1) as (c' & He' & Hle' & [->| [e ->]]);
          cbn [fst snd is_deliver]; (split; [|reflexivity]); apply below_set_own; auto.
  Qed.

  Lemma run_cons_pkt (st : state A) (p : packet A) (r : list (ev A)) : run self st (EvPkt p :: r) =
    (fst (run self (fst (recv self st p)) r), snd (recv self st p) :: snd (run self (fst (recv self st p)) r)).
  Proof. cbn [run]. destruct (recv self st p) as [st1 o]. cbn [fst snd]. destruct (run self st1 r); reflexivity. Qed.
  Lemma run_cons_sweep (st : state A) (r : list (ev A)) : run self st (@EvSweep A :: r) =
    (fst (run self (sweep st) r), ONone :: snd (run self (sweep st) r)).
  Proof. cbn [run]. destruct (run self (sweep st) r); reflexivity. Qed.

  Theorem missing_run : forall (evs : list (ev A)) (st : state A) cnt,
    0 <= cnt -> below cnt st ->
    Forall frag_of (own_pkts g evs) -> cnt + len (own_pkts g evs) < M ->
    Forall (fun o => is_deliver o = false) (own_outs g evs (snd (run self st evs))).
  Proof.
    induction evs as [|e r IH]; intros st cnt Hc Hb Hf Hlt.
    - cbn [own_outs]. constructor.
    - destruct e as [p|].
      + rewrite run_cons_pkt. cbn [snd own_outs is_own own_pkts] in *.
        destruct (Z.eqb_spec (f_group (p_flags p)) g) as [Hg|Hg].
        * inversion Hf; subst. rewrite len_cons in Hlt. pose proof (len_nonneg (own_pkts g r)).
          destruct (below_recv_own cnt st p) as [Hb' Ho]; auto; try lia.
          constructor; [exact Ho|]. apply (IH _ (cnt + 1)); auto; lia.
        * apply (IH _ cnt); auto. now apply below_recv_foreign.
      + rewrite run_cons_sweep. cbn [snd own_outs is_own own_pkts] in *.
        apply (IH _ cnt); auto using below_sweep.
  Qed.
End Missing.

(* ---- sort.Sort by position, and the Add loop of cluster.done --------------------- *)
Section Sorting.
  Context {A : Type}.
  Definition pos (p : packet A) : Z := f_pos (p_flags p).
  Definition le_pos (x y : packet A) : Prop := pos x <= pos y.

  Lemma insert_perm q (l : list (packet A)) : Permutation (insert_pos q l) (q :: l).
  Proof.
    induction l as [|x r IH]; cbn [insert_pos]; [apply Permutation_refl|].
    destruct (f_pos (p_flags x) <=? f_pos (p_flags q)); [|apply Permutation_refl].
    eapply perm_trans; [apply perm_skip, IH | apply perm_swap].
  Qed.
  Lemma sort_perm (l : list (packet A)) : Permutation (sort_pos l) l.
  Proof.
    induction l as [|a r IH]; cbn [sort_pos fold_right]; [constructor|].
    fold (sort_pos r). eapply perm_trans; [apply insert_perm | now apply perm_skip].
  Qed.
  Lemma insert_sorted q (l : list (packet A)) : StronglySorted le_pos l -> StronglySorted le_pos (insert_pos q l).
  Proof.
    induction l as [|x r IH]; cbn [insert_pos]; intros H.
    - constructor; [constructor | constructor].
    - inversion H; subst.
      destruct (Z.leb_spec (f_pos (p_flags x)) (f_pos (p_flags q))) as [Hle|Hgt].
      + constructor; [now apply IH|].
        apply Forall_forall. intros y Hy.
        apply (Permutation_in _ (insert_perm q r)) in Hy. destruct Hy as [<-|Hy]; [exact Hle|].
        rewrite Forall_forall in H3. now apply H3.
      + constructor; [exact H|]. constructor; [unfold le_pos, pos; lia|].
        eapply Forall_impl; [|exact H3]. unfold le_pos, pos. intros; lia.
  Qed.
  Lemma sort_sorted (l : list (packet A)) : StronglySorted le_pos (sort_pos l).
  Proof.
    induction l as [|a r IH]; cbn [sort_pos fold_right]; [constructor|].
    fold (sort_pos r). now apply insert_sorted.
  Qed.

  Lemma sorted_perm_unique : forall l1 l2 : list (packet A),
    StronglySorted le_pos l1 -> StronglySorted le_pos l2 -> Permutation l1 l2 ->
    (forall x y, In x l1 -> In y l1 -> pos x = pos y -> x = y) -> l1 = l2.
  Proof.
    induction l1 as [|a r1 IH]; intros l2 H1 H2 HP Hinj.
    - apply Permutation_nil in HP. now subst.
    - destruct l2 as [|b r2]; [apply Permutation_sym, Permutation_nil in HP; discriminate|].
      inversion H1 as [|? ? S1 F1]; subst. inversion H2 as [|? ? S2 F2]; subst.
      assert (a = b) as ->.
      { assert (In b (a :: r1)) as Hb by (eapply Permutation_in; [apply Permutation_sym, HP | apply in_eq]).
        assert (In a (b :: r2)) as Ha by (eapply Permutation_in; [apply HP | apply in_eq]).
        apply Hinj; [apply in_eq | exact Hb |].
        rewrite Forall_forall in F1, F2.
        assert (pos a <= pos b) by (destruct Hb as [->|Hb]; [lia | apply F1, Hb]).
        assert (pos b <= pos a) by (destruct Ha as [->|Ha]; [lia | apply F2, Ha]).
        lia. }
      f_equal. apply IH; auto.
      + eapply Permutation_cons_inv; eauto.
      + intros x y Hx Hy. apply Hinj; now right.
  Qed.

  Theorem sort_pos_of_perm (l l0 : list (packet A)) :
    Permutation l l0 -> StronglySorted le_pos l0 ->
    (forall x y, In x l0 -> In y l0 -> pos x = pos y -> x = y) -> sort_pos l = l0.
  Proof.
    intros HP HS Hinj. symmetry. apply sorted_perm_unique; auto using sort_sorted.
    eapply perm_trans; [apply Permutation_sym, HP | apply Permutation_sym, sort_perm].
  Qed.

  (* the Add loop of cluster.done is the filter + concatenation of Model.Frag.join *)
  Lemma padd_id (n x : packet A) : p_id (padd n x) = p_id n.
  Proof. unfold padd. destruct (is_nil (p_data x) || negb (p_id n =? p_id x)); reflexivity. Qed.
  Theorem join_is_fold_padd : forall (tl : list (packet A)) n, fold_left padd tl n = join n tl.
  Proof.
    induction tl as [|x r IH]; intros n; cbn [fold_left].
    - unfold join; cbn [filter map concat fold_left]. rewrite app_nil_r. destruct n as [? ? ? []]; reflexivity.
    - rewrite IH. unfold join. cbn [filter].
      change (joinable n x) with (negb (is_nil (p_data x) || negb (p_id n =? p_id x))).
      assert (filter (joinable (padd n x)) r = filter (joinable n) r) as ->.
      { apply filter_ext. intros y. unfold joinable. now rewrite padd_id. }
      unfold padd. destruct (is_nil (p_data x) || negb (p_id n =? p_id x)); cbn [negb]; [reflexivity|].
      cbn [p_id p_job p_dev p_flags p_tags p_data f_len f_pos f_group f_bits map concat fold_left].
      rewrite <- app_assoc. reflexivity.
  Qed.

  Lemma fold_lor_same B (l : list Z) : Forall (fun x => x = B) l -> fold_left Z.lor l B = B.
  Proof.
    induction l as [|x r IH]; intros H; cbn [fold_left]; [reflexivity|].
    inversion H; subst. rewrite Z.lor_diag. now apply IH.
  Qed.

  Lemma join_all (n : packet A) tl B :
    Forall (fun x => is_nil (p_data x) = false /\ p_id x = p_id n /\ f_bits (p_flags x) = B) tl ->
    f_bits (p_flags n) = B ->
    join n tl = mkPacket (p_id n) (p_job n) (p_dev n)
                  (mkFlags (f_len (p_flags n)) (f_pos (p_flags n)) (f_group (p_flags n)) B)
                  (p_tags n) (p_data n ++ concat (map p_data tl)).
  Proof.
    intros H HB. unfold join.
    assert (filter (joinable n) tl = tl) as ->.
    { induction tl as [|x r IH]; [reflexivity|]. inversion H as [|? ? (Hn & Hi & _) Hr]; subst.
      cbn [filter]. unfold joinable at 1. rewrite Hn, Hi, Z.eqb_refl. cbn [orb negb]. f_equal. now apply IH. }
    rewrite HB. rewrite fold_lor_same; [reflexivity|].
    apply Forall_forall. intros b Hb. apply in_map_iff in Hb. destruct Hb as (x & <- & Hx).
    rewrite Forall_forall in H. apply (H x Hx).
  Qed.
End Sorting.

(* ---- reassembly, abstractly: a sorted list fs of M fragments of one group -------------- *)
Section Reassembly.
  Context {A : Type}.
  Variables (g M self ID JOB : Z) (f0 : packet A) (rest : list (packet A)) (R : packet A).
  Let fs := f0 :: rest.
  Definition nonempty (p : packet A) : bool := negb (is_nil (p_data p)).
  Definition isempty (p : packet A) : bool := is_nil (p_data p).
  Definition stored (l : list (packet A)) := filter nonempty l.
  Definition empties (l : list (packet A)) : Z := len (filter isempty l).

  Hypothesis HM : 2 <= M <= 65535.
  Hypothesis Hlen : len fs = M.
  Hypothesis Hself : self <> 0.
  Hypothesis Hfs : Forall (fun f => p_dev f = self /\ MvRefresh <= p_id f /\ has_multi (p_flags f) = false /\
                                    has_frag (p_flags f) = true /\ f_len (p_flags f) = M /\ f_group (p_flags f) = g /\
                                    p_id f = ID /\ p_job f = JOB) fs.
  Hypothesis Hsorted : StronglySorted le_pos fs.
  Hypothesis Hinj : forall x y, In x fs -> In y fs -> pos x = pos y -> x = y.
  Hypothesis Hpos0 : f_pos (p_flags f0) = 0.
  Hypothesis Hdata0 : is_nil (p_data f0) = false.
  (* what cluster.done hands back to receive(), and what receive() does with it *)
  Let J := join f0 (stored rest).
  Let V := with_flags (fclear (p_flags J)) J.
  Hypothesis Hdeliver : forall st : state A, recv_f 2 self st V = (st, ODeliver R).

  Definition clus (seen : list (packet A)) (c : Z) : cluster A :=
    mkCluster (M - 1) (empties seen) (fragMaxMisses - c) (stored seen).

  Lemma count_split (l : list (packet A)) : len (stored l) + empties l = len l.
  Proof.
    unfold stored, empties, nonempty, isempty. induction l as [|x r IH]; cbn [filter]; [reflexivity|].
    destruct (is_nil (p_data x)); cbn [negb]; rewrite ?len_cons; lia.
  Qed.
  Lemma empties_nonneg l : 0 <= empties l.
  Proof. apply len_nonneg. Qed.
  Lemma stored_app l1 l2 : stored (l1 ++ l2) = stored l1 ++ stored l2.
  Proof. apply filter_app. Qed.
  Lemma empties_app l1 l2 : empties (l1 ++ l2) = empties l1 + empties l2.
  Proof. unfold empties. rewrite filter_app, len_app. reflexivity. Qed.

  Lemma stored_single p : stored [p] = if is_nil (p_data p) then [] else [p].
  Proof. unfold stored, nonempty; cbn [filter]. destruct (is_nil (p_data p)); reflexivity. Qed.
  Lemma empties_single p : empties [p] = if is_nil (p_data p) then 1 else 0.
  Proof. unfold empties, isempty; cbn [filter]. destruct (is_nil (p_data p)); reflexivity. Qed.

  Lemma has_frag_nonzero (f : flags) : has_frag f = true -> f_zero f = false.
  Proof.
    unfold has_frag, f_zero. intros H. destruct (Z.eqb_spec (f_bits f) 0) as [E|]; [|now rewrite andb_false_r].
    rewrite E in H. discriminate.
  Qed.

  (* receive() of a fragment of fs reaches the cluster step *)
  Lemma recv_own (st : state A) p : In p fs ->
    recv self st p =
    let '(oc, fo) := frag_step (lookup g st) p in
    let st' := set g oc st in
    match fo with
    | FNone => (st', ONone)
    | FDrop f => (st', ODrop f self)
    | FErr e => (st', OErr e)
    | FAgain v => recv_f 2 self st' v
    end.
  Proof.
    intros Hin. rewrite Forall_forall in Hfs. destruct (Hfs p Hin) as (Hd & Hid & Hmu & Hfr & Hl & Hg & _).
    unfold MvRefresh in Hid. unfold recv. rewrite recv_f_S. cbv zeta.
    rewrite Hd. replace (self =? 0) with false by lia. unfold is_nop.
    replace (p_id p <? 2) with false by lia. cbn [andb orb].
    rewrite Z.eqb_refl. cbn [negb]. rewrite andb_false_r.
    unfold SvComplete, SvDrop, SvRegister.
    replace (p_id p =? 4) with false by lia. cbn [andb]. rewrite Hmu, Hfr.
    replace (p_id p =? 6) with false by lia. replace (p_id p =? 3) with false by lia. cbn [orb].
    rewrite Hl. replace (M =? 0) with false by lia. replace (M =? 1) with false by lia.
    rewrite Hg. reflexivity.
  Qed.

  Lemma in_fs_props p : In p fs -> f_len (p_flags p) = M /\ p_id p = ID /\ p_job p = JOB /\ f_group (p_flags p) = g /\
                                   has_frag (p_flags p) = true.
  Proof. intros Hin. rewrite Forall_forall in Hfs. destruct (Hfs p Hin) as (_ & _ & _ & ? & ? & ? & ? & ?). auto 10. Qed.

  Lemma stored_head s : stored (f0 :: s) = f0 :: stored s.
  Proof. unfold stored; cbn [filter]. unfold nonempty at 1. rewrite Hdata0. reflexivity. Qed.

  (* cluster.add of one more fragment *)
  Lemma add_ok s p c : In p fs -> len (f0 :: s) < M ->
    cl_add (clus (f0 :: s) c) p = Ok (clus ((f0 :: s) ++ [p]) 0).
  Proof.
    intros Hin Hl. unfold cl_add, clus. cbn [c_data c_e c_max c_c].
    rewrite stored_head.
    destruct (in_fs_props p Hin) as (Hlp & Hip & Hjp & Hgp & Hfp).
    destruct (in_fs_props f0 (in_eq _ _)) as (_ & Hi0 & Hj0 & Hg0 & Hf0).
    unfold belongs. rewrite !has_frag_nonzero by assumption. rewrite Hip, Hi0, Hjp, Hj0, Hgp, Hg0, !Z.eqb_refl.
    cbn [negb andb]. rewrite Hlp, (u16_small (M - 1)) by lia.
    rewrite stored_app, empties_app, stored_single, empties_single, stored_head.
    pose proof (count_split (f0 :: s)). pose proof (empties_nonneg (f0 :: s)). pose proof (len_nonneg (stored (f0 :: s))).
    unfold fragMaxMisses. rewrite Z.sub_0_r.
    destruct (is_nil (p_data p)).
    - rewrite u16_small by lia. rewrite app_nil_r. reflexivity.
    - rewrite Z.add_0_r. reflexivity.
  Qed.

  (* cluster.done: complete exactly when all M have arrived *)
  Lemma done_not_yet l c : stored l <> [] -> len l < M -> cl_done (clus l c) = None.
  Proof.
    intros Hne Hl. unfold cl_done, clus. cbn [c_data c_e c_max].
    destruct (stored l) eqn:E; [contradiction|]. cbn [is_nil]. rewrite <- E.
    pose proof (count_split l). pose proof (empties_nonneg l). pose proof (len_nonneg (stored l)).
    rewrite (u16_small (len (stored l))) by lia. rewrite u16_small by lia.
    replace (M - 1 <? len (stored l) + empties l) with false by lia. reflexivity.
  Qed.

  Lemma perm_filter (f : packet A -> bool) (l1 l2 : list (packet A)) :
    Permutation l1 l2 -> Permutation (filter f l1) (filter f l2).
  Proof.
    induction 1; cbn [filter]; auto.
    - destruct (f x); auto.
    - destruct (f x), (f y); auto. apply perm_swap.
    - eapply perm_trans; eauto.
  Qed.
  Lemma sorted_filter (f : packet A -> bool) (l : list (packet A)) :
    StronglySorted le_pos l -> StronglySorted le_pos (filter f l).
  Proof.
    induction 1 as [|a l HS IH HF]; cbn [filter]; [constructor|].
    destruct (f a); [|exact IH]. constructor; [exact IH|].
    apply Forall_forall. intros x Hx. apply filter_In in Hx. rewrite Forall_forall in HF. apply HF, Hx.
  Qed.

  Lemma done_complete l c : Permutation l fs -> cl_done (clus l c) = Some V.
  Proof.
    intros HP. unfold cl_done, clus. cbn [c_data c_e c_max].
    assert (Permutation (stored l) (stored fs)) as HPs by (apply perm_filter, HP).
    assert (stored fs = f0 :: stored rest) as Efs by apply stored_head.
    assert (sort_pos (stored l) = f0 :: stored rest) as ->.
    { rewrite <- Efs. apply sort_pos_of_perm; [exact HPs | apply sorted_filter, Hsorted |].
      intros x y Hx Hy. apply filter_In in Hx, Hy. apply Hinj; tauto. }
    destruct (stored l) eqn:E.
    { rewrite Efs in HPs. apply Permutation_nil in HPs. discriminate. }
    cbn [is_nil]. rewrite <- E.
    pose proof (count_split l). pose proof (empties_nonneg l). pose proof (len_nonneg (stored l)).
    assert (len l = M) as Hl by (unfold len in *; rewrite (Permutation_length HP); exact Hlen).
    rewrite (u16_small (len (stored l))) by lia. rewrite u16_small by lia.
    replace (M - 1 <? len (stored l) + empties l) with true by lia. reflexivity.
  Qed.

  (* the three kinds of arrival *)
  Lemma step_first (st : state A) : lookup g st = None ->
    recv self st f0 = (set g (Some (clus [f0] 0)) st, ONone).
  Proof.
    intros L. rewrite recv_own by apply in_eq. rewrite L. unfold frag_step. rewrite Hpos0. cbn [Z.ltb Z.compare].
    destruct (in_fs_props f0 (in_eq _ _)) as (Hl0 & _).
    unfold cl_add at 1. cbn [c_data c_e]. rewrite Hl0, Hdata0, (u16_small (M - 1)) by lia.
    change (mkCluster (M - 1) 0 fragMaxMisses ([] ++ [f0])) with (mkCluster (M - 1) 0 fragMaxMisses [f0]).
    assert (mkCluster (M - 1) 0 fragMaxMisses [f0] = clus [f0] 0) as ->.
    { unfold clus. rewrite stored_head. unfold empties, isempty; cbn [filter]. rewrite Hdata0. reflexivity. }
    rewrite done_not_yet; [reflexivity | rewrite stored_head; discriminate | rewrite len_cons, len_nil; lia].
  Qed.

  Lemma step_more (st : state A) s p c : In p fs -> lookup g st = Some (clus (f0 :: s) c) ->
    len (f0 :: s) + 1 < M ->
    recv self st p = (set g (Some (clus ((f0 :: s) ++ [p]) 0)) st, ONone).
  Proof.
    intros Hin L Hl. rewrite recv_own by assumption. rewrite L. unfold frag_step.
    rewrite add_ok by (assumption || lia).
    rewrite done_not_yet; [reflexivity | |].
    - cbn [app]. rewrite stored_head. discriminate.
    - rewrite len_snoc. lia.
  Qed.

  Lemma step_last (st : state A) s p c : In p fs -> lookup g st = Some (clus (f0 :: s) c) ->
    len (f0 :: s) < M -> Permutation ((f0 :: s) ++ [p]) fs ->
    recv self st p = (set g None st, ODeliver R).
  Proof.
    intros Hin L Hl HP. rewrite recv_own by assumption. rewrite L. unfold frag_step.
    rewrite add_ok by (assumption || lia).
    rewrite (done_complete _ _ HP). apply Hdeliver.
  Qed.

  (* events that are not of the group leave it alone *)
  Lemma own_pkts_exists (evs : list (ev A)) : own_pkts g evs <> [] -> existsb (is_own g) evs = true.
  Proof.
    induction evs as [|[p|] r IH]; cbn [own_pkts existsb is_own]; [congruence | |exact IH].
    destruct (f_group (p_flags p) =? g); [reflexivity | exact IH].
  Qed.

  Lemma run_no_own : forall (evs : list (ev A)) (st : state A),
    own_pkts g evs = [] -> lookup g st = None ->
    lookup g (fst (run self st evs)) = None /\ own_outs g evs (snd (run self st evs)) = [].
  Proof.
    induction evs as [|[p|] r IH]; intros st Ho L.
    - cbn [run fst snd own_outs]. auto.
    - rewrite run_cons_pkt. cbn [fst snd own_outs is_own own_pkts] in *.
      destruct (Z.eqb_spec (f_group (p_flags p)) g) as [Hg|Hg]; [discriminate|].
      apply IH; [assumption|]. rewrite recv_lookup_other by assumption. exact L.
    - rewrite run_cons_sweep. cbn [fst snd own_outs is_own own_pkts] in *.
      apply IH; [assumption|]. now apply lookup_sweep_none.
  Qed.

  Lemma repeat_step (x : out A) (k : Z) : 1 <= k -> repeat x (Z.to_nat k) = x :: repeat x (Z.to_nat (k - 1)).
  Proof. intros. replace (Z.to_nat k) with (S (Z.to_nat (k - 1))) by lia. reflexivity. Qed.

  (* the group is open: `f0 :: s` arrived, c wake-ups ago *)
  Lemma run_open : forall (evs : list (ev A)) (s : list (packet A)) (st : state A) c,
    wf st -> lookup g st = Some (clus (f0 :: s) c) -> 0 <= c < fragMaxMisses ->
    len (f0 :: s) < M ->
    Permutation ((f0 :: s) ++ own_pkts g evs) fs ->
    paced_from g c evs = true ->
    lookup g (fst (run self st evs)) = None /\
    own_outs g evs (snd (run self st evs)) = repeat ONone (Z.to_nat (M - len (f0 :: s) - 1)) ++ [ODeliver R].
  Proof.
    induction evs as [|[p|] r IH]; intros s st c Hwf L Hc Hl HP Hpaced.
    - exfalso. cbn [own_pkts] in HP. rewrite app_nil_r in HP.
      apply Permutation_length in HP. unfold len in *. lia.
    - rewrite run_cons_pkt. cbn [fst snd own_outs is_own own_pkts paced_from] in *.
      destruct (Z.eqb_spec (f_group (p_flags p)) g) as [Hg|Hg].
      + assert (In p fs) as Hin by (eapply Permutation_in; [exact HP | apply in_or_app; right; apply in_eq]).
        assert (len ((f0 :: s) ++ p :: own_pkts g r) = M) as Htot.
        { unfold len in *. rewrite (Permutation_length HP). exact Hlen. }
        rewrite len_app, (len_cons p) in Htot. pose proof (len_nonneg (own_pkts g r)) as Hn.
        destruct (Z.eq_dec (len (f0 :: s) + 1) M) as [Hlast|Hmore].
        * assert (own_pkts g r = []) as Hr.
          { destruct (own_pkts g r); [reflexivity|]. rewrite !len_cons in Htot. rewrite len_cons in Hlast.
            pose proof (len_nonneg l). lia. }
          rewrite Hr in HP.
          rewrite (step_last st s p c Hin L Hl HP). cbn [fst snd].
          destruct (run_no_own r (set g None st) Hr (lookup_set_same g None st)) as [L' O'].
          split; [exact L'|]. rewrite O'. replace (M - len (f0 :: s) - 1) with 0 by lia. reflexivity.
        * rewrite (step_more st s p c Hin L) by lia. cbn [fst snd].
          destruct (IH (s ++ [p]) (set g (Some (clus ((f0 :: s) ++ [p]) 0)) st) 0) as [L' O'].
          -- now apply wf_set.
          -- apply lookup_set_same.
          -- unfold fragMaxMisses; lia.
          -- change (f0 :: s ++ [p]) with ((f0 :: s) ++ [p]). rewrite len_snoc. lia.
          -- change (f0 :: s ++ [p]) with ((f0 :: s) ++ [p]). rewrite <- app_assoc. exact HP.
          -- exact Hpaced.
          -- split; [exact L'|]. rewrite O'.
             change (f0 :: s ++ [p]) with ((f0 :: s) ++ [p]). rewrite len_snoc.
             rewrite (repeat_step ONone (M - len (f0 :: s) - 1)) by lia. cbn [app].
             replace (M - (len (f0 :: s) + 1) - 1) with (M - len (f0 :: s) - 1 - 1) by lia. reflexivity.
      + apply (IH s _ c); auto.
        * now apply recv_wf.
        * rewrite recv_lookup_other by assumption. exact L.
    - rewrite run_cons_sweep. cbn [fst snd own_outs is_own own_pkts paced_from] in *.
      assert (own_pkts g r <> []) as Hne.
      { intros E. rewrite E, app_nil_r in HP. apply Permutation_length in HP. unfold len in *. lia. }
      rewrite (own_pkts_exists r Hne) in Hpaced. apply andb_true_iff in Hpaced. destruct Hpaced as [Hc1 Hp].
      apply (IH s _ (c + 1)); auto.
      + now apply wf_sweep.
      + rewrite (lookup_sweep_some g st _ Hwf L). unfold clus at 1 2 3 4. cbn [c_c c_max c_e c_data].
        unfold fragMaxMisses in *. rewrite u8_small by lia.
        replace (5 - c - 1 =? 0) with false by lia. unfold clus, fragMaxMisses. do 2 f_equal. lia.
      + unfold fragMaxMisses in *; lia.
  Qed.

  (* the whole history: nothing of the group has arrived yet *)
  Theorem run_reassembles : forall (evs : list (ev A)) (st : state A),
    wf st -> lookup g st = None ->
    Permutation (own_pkts g evs) fs -> hd_error (own_pkts g evs) = Some f0 ->
    paced g evs = true ->
    lookup g (fst (run self st evs)) = None /\
    own_outs g evs (snd (run self st evs)) = repeat ONone (Z.to_nat (M - 1)) ++ [ODeliver R].
  Proof.
    induction evs as [|[p|] r IH]; intros st Hwf L HP Hhd Hpaced.
    - discriminate.
    - rewrite run_cons_pkt. cbn [fst snd own_outs is_own own_pkts paced] in *.
      destruct (Z.eqb_spec (f_group (p_flags p)) g) as [Hg|Hg].
      + cbn [hd_error] in Hhd. inversion Hhd; subst p.
        rewrite (step_first st L). cbn [fst snd].
        destruct (run_open r [] (set g (Some (clus [f0] 0)) st) 0) as [L' O']; auto.
        * now apply wf_set.
        * apply lookup_set_same.
        * unfold fragMaxMisses; lia.
        * rewrite len_cons, len_nil. lia.
        * split; [exact L'|]. rewrite O'. rewrite len_cons, len_nil.
          rewrite (repeat_step ONone (M - 1)) by lia. cbn [app].
          replace (M - (0 + 1) - 1) with (M - 1 - 1) by lia. reflexivity.
      + apply IH; auto.
        * now apply recv_wf.
        * rewrite recv_lookup_other by assumption. exact L.
    - rewrite run_cons_sweep. cbn [fst snd own_outs is_own own_pkts paced] in *.
      apply IH; auto. now apply wf_sweep. now apply lookup_sweep_none.
  Qed.
End Reassembly.

(* ---- the split satisfies the hypotheses of the abstract reassembly ------------------------ *)
Section Concrete.
  Context {A : Type}.
  Variables (F g self : Z) (n : packet A).
  Hypothesis HF : HeaderSize <= F.
  Hypothesis Ht : 0 <= p_tags n.
  Hypothesis Hs : F < size n.
  Hypothesis HM : nfrag F n <= 65535.
  Hypothesis Haddr : addressed self n.
  Let M := nfrag F n.
  Let data := p_data n.
  Let b := f_bits (p_flags n).
  Let B := Z.lor (Z.lor (Z.lor b 1) 1) 1.
  Definition hfrag (j : nat) : packet A := mkfrag n g M (Z.of_nat j) (take F (drop (Z.of_nat j * F) data)).

  Lemma F_pos : 0 < F.
  Proof. unfold HeaderSize in HF; lia. Qed.
  Lemma M_ge2 : 2 <= M.
  Proof.
    unfold M, nfrag. pose proof F_pos. assert (1 <= size n / F) by (apply Z.div_le_lower_bound; lia). lia.
  Qed.
  Lemma data_nonempty : 0 < len data.
  Proof.
    unfold data. destruct (is_nil (p_data n)) eqn:E; [|now apply is_nil_false_len].
    exfalso. unfold size in Hs. rewrite E in Hs. lia.
  Qed.

  Lemma pieces_map (m : Z) : forall k i (rest : list A),
    pieces F k n g m i rest =
    map (fun j => mkfrag n g m (i + Z.of_nat j) (take F (drop (Z.of_nat j * F) rest))) (seq 0 k).
  Proof.
    pose proof F_pos as HFp.
    induction k as [|k IH]; intros i rest; [reflexivity|].
    cbn [pieces seq map]. f_equal.
    - cbn [Z.of_nat]. rewrite Z.mul_0_l, drop_0, Z.add_0_r. reflexivity.
    - rewrite IH, <- seq_shift, map_map. apply map_ext. intros j.
      rewrite drop_drop by lia.
      replace (i + 1 + Z.of_nat j) with (i + Z.of_nat (S j)) by lia.
      replace (F + Z.of_nat j * F) with (Z.of_nat (S j) * F) by lia. reflexivity.
  Qed.

  Lemma split_map : split F g n = map hfrag (seq 0 (Z.to_nat M)).
  Proof.
    rewrite (split_pieces F F_pos g n Ht). fold M. rewrite pieces_map. apply map_ext. intros j.
    unfold hfrag. rewrite Z.add_0_l. reflexivity.
  Qed.

  Lemma hfrag_pos j : (j < Z.to_nat M)%nat -> pos (hfrag j) = Z.of_nat j.
  Proof.
    intros Hj. unfold pos, hfrag, mkfrag, set_pos. cbn [p_flags f_pos]. apply u16_small. unfold M in *. lia.
  Qed.

  Lemma hfrag_props j :
    p_dev (hfrag j) = self /\ MvRefresh <= p_id (hfrag j) /\ has_multi (p_flags (hfrag j)) = false /\
    has_frag (p_flags (hfrag j)) = true /\ f_len (p_flags (hfrag j)) = M /\ f_group (p_flags (hfrag j)) = g /\
    f_bits (p_flags (hfrag j)) = B /\ p_id (hfrag j) = p_id n /\ p_job (hfrag j) = p_job n.
  Proof.
    destruct Haddr as (Hd & _ & Hid & Hmu). pose proof M_ge2.
    unfold hfrag, mkfrag, set_pos, set_len, set_group, has_multi, has_frag.
    cbn [p_dev p_id p_job p_flags f_len f_group f_bits f_pos].
    repeat split; try assumption.
    - rewrite !lor1_bitk by lia. exact Hmu.
    - apply lor1_bit0.
    - apply u16_small. unfold M in *. lia.
  Qed.

  Lemma sorted_map_seq : forall k a, (a + k <= Z.to_nat M)%nat -> StronglySorted le_pos (map hfrag (seq a k)).
  Proof.
    induction k as [|k IH]; intros a Ha; cbn [seq map]; constructor.
    - apply IH. lia.
    - apply Forall_forall. intros x Hx. apply in_map_iff in Hx. destruct Hx as (j & <- & Hj).
      apply in_seq in Hj. unfold le_pos. rewrite !hfrag_pos by lia. lia.
  Qed.

  Lemma concat_stored (l : list (packet A)) : concat (map p_data (stored l)) = concat (map p_data l).
  Proof.
    unfold stored, nonempty. induction l as [|x r IH]; cbn [filter map concat]; [reflexivity|].
    destruct (p_data x) eqn:E; cbn [is_nil negb map concat]; rewrite ?E, IH; reflexivity.
  Qed.

  (* receive() of the reassembled packet hands it to the handler *)
  Lemma recv_reassembled k (st : state A) : recv_f (S k) self st (reassembled n) = (st, ODeliver (reassembled n)).
  Proof.
    destruct Haddr as (Hd & Hself & Hid & Hmu). unfold MvRefresh in Hid.
    rewrite recv_f_S. unfold reassembled at 1 2 3 4 5 6 7 8 9.
    cbn [p_dev p_id p_flags p_data].
    rewrite Hd. replace (self =? 0) with false by lia. unfold is_nop. cbn [p_id].
    replace (p_id n <? 2) with false by lia. cbn [andb orb].
    rewrite Z.eqb_refl. cbn [negb]. rewrite andb_false_r.
    unfold SvComplete. replace (p_id n =? 4) with false by lia. cbn [andb].
    unfold has_multi, has_frag. cbn [f_bits].
    rewrite !Z.lxor_spec, !Z.lor_spec, !testbit_1. cbn [Z.eqb orb xorb].
    rewrite orb_false_r, xorb_false_r. unfold has_multi in Hmu. rewrite Hmu. rewrite orb_true_r. cbn [xorb].
    unfold recv_single. change (p_id (reassembled n)) with (p_id n). cbn [p_id].
    unfold SvResync, SvRegister, SvShutdown, SvComplete, MvRefresh.
    replace (p_id n =? 1) with false by lia. replace (p_id n =? 3) with false by lia.
    replace (p_id n =? 5) with false by lia. replace (p_id n =? 4) with false by lia.
    replace (p_id n <? 7) with false by lia. cbn [orb andb]. reflexivity.
  Qed.

  Let K' : nat := (Z.to_nat M - 1)%nat.
  Let f0 := hfrag 0.
  Let rest := map hfrag (seq 1 K').

  Lemma split_cons : split F g n = f0 :: rest.
  Proof.
    rewrite split_map. pose proof M_ge2. replace (Z.to_nat M) with (S K') by (unfold K'; lia). reflexivity.
  Qed.

  Lemma in_split_hfrag x : In x (f0 :: rest) -> exists j, x = hfrag j /\ (j < Z.to_nat M)%nat.
  Proof.
    rewrite <- split_cons, split_map. intros Hx. apply in_map_iff in Hx. destruct Hx as (j & <- & Hj).
    apply in_seq in Hj. exists j. split; [reflexivity | lia].
  Qed.

  Lemma f0_data : is_nil (p_data f0) = false.
  Proof.
    apply is_nil_false_len. unfold f0, hfrag, mkfrag. cbn [p_data Z.of_nat]. rewrite Z.mul_0_l, drop_0.
    pose proof F_pos. pose proof data_nonempty. rewrite len_take by lia. lia.
  Qed.

  Lemma V_is_reassembled :
    with_flags (fclear (p_flags (join f0 (stored rest)))) (join f0 (stored rest)) = reassembled n.
  Proof.
    rewrite (join_all f0 (stored rest) B).
    2:{ apply Forall_forall. intros x Hx. unfold stored in Hx. apply filter_In in Hx. destruct Hx as [Hx Hne].
        destruct (in_split_hfrag x (or_intror Hx)) as (j & -> & _).
        destruct (hfrag_props j) as (_ & _ & _ & _ & _ & _ & HB & Hi & _).
        unfold nonempty in Hne. apply negb_true_iff in Hne. repeat split; auto. }
    2:{ destruct (hfrag_props 0%nat) as (_ & _ & _ & _ & _ & _ & HB & _). exact HB. }
    unfold with_flags, fclear, reassembled. cbn [p_id p_job p_dev p_flags p_tags p_data f_bits].
    assert (p_data f0 ++ concat (map p_data (stored rest)) = p_data n) as ->.
    { change (p_data f0 ++ concat (map p_data (stored rest))) with (concat (map p_data (f0 :: stored rest))).
      rewrite <- (stored_head f0 f0_data). rewrite concat_stored. rewrite <- split_cons.
      apply (split_concat F F_pos g n Ht). }
    unfold B. rewrite !lor1_idem. reflexivity.
  Qed.

  Theorem reassemble_any_order (evs : list (ev A)) (st0 : state A) :
    wf st0 -> lookup g st0 = None ->
    Permutation (own_pkts g evs) (split F g n) ->
    hd_error (own_pkts g evs) = hd_error (split F g n) ->
    paced g evs = true ->
    lookup g (fst (run self st0 evs)) = None /\
    own_outs g evs (snd (run self st0 evs)) = repeat ONone (Z.to_nat (nfrag F n - 1)) ++ [ODeliver (reassembled n)].
  Proof.
    rewrite split_cons. cbn [hd_error]. intros Hwf L HP Hhd Hpaced. fold M.
    pose proof M_ge2 as HM2.
    apply (run_reassembles g M self (p_id n) (p_job n) f0 rest (reassembled n)); try assumption.
    - unfold M in *; lia.
    - rewrite <- split_cons. apply (split_length F F_pos g n Ht).
    - destruct Haddr as (_ & Hself & _). exact Hself.
    - apply Forall_forall. intros x Hx. destruct (in_split_hfrag x Hx) as (j & -> & _).
      destruct (hfrag_props j) as (H1 & H2 & H3 & H4 & H5 & H6 & _ & H8 & H9). auto 10.
    - rewrite <- split_cons, split_map. apply sorted_map_seq. lia.
    - intros x y Hx Hy. destruct (in_split_hfrag x Hx) as (i & -> & Hi). destruct (in_split_hfrag y Hy) as (j & -> & Hj).
      rewrite !hfrag_pos by assumption. intros E. replace j with i by lia. reflexivity.
    - change (pos f0 = 0). unfold f0. rewrite hfrag_pos by lia. reflexivity.
    - exact f0_data.
    - intros st. rewrite V_is_reassembled. apply recv_reassembled.
  Qed.
End Concrete.

(* ---- the same for fragments whose low flag bits were changed on the way (hop flags) ---------------- *)
Section ConcreteHop.
  Context {A : Type}.
  Variables (F g self : Z) (n : packet A) (xb : nat -> Z).
  Hypothesis HF : HeaderSize <= F.
  Hypothesis Ht : 0 <= p_tags n.
  Hypothesis Hs : F < size n.
  Hypothesis HM : nfrag F n <= 65535.
  Hypothesis Haddr : addressed self n.
  Hypothesis Hxb : forall j, Z.testbit (xb j) 1 = false.   (* a hop never turns a fragment into a Multi container *)
  Let M := nfrag F n.
  Lemma Fp : 0 < F.
  Proof. unfold HeaderSize in HF; lia. Qed.
  Definition hfragx (j : nat) : packet A := or_bits (xb j) (hfrag F g n j).
  Let K' : nat := (Z.to_nat M - 1)%nat.
  Let f0 := hfragx 0.
  Let rest := map hfragx (seq 1 K').

  Lemma hop_from_map (mk : nat -> packet A) : forall k a,
    hop_from xb a (map mk (seq a k)) = map (fun j => or_bits (xb j) (mk j)) (seq a k).
  Proof. induction k as [|k IH]; intros a; cbn [seq map hop_from]; [reflexivity|]. now rewrite IH. Qed.

  Lemma hop_split_cons : hop xb (split F g n) = f0 :: rest.
  Proof.
    rewrite (split_map F g n HF Ht). unfold hop. rewrite hop_from_map. fold M.
    pose proof (M_ge2 F n HF Hs). replace (Z.to_nat M) with (S K') by (unfold K', M in *; lia). reflexivity.
  Qed.
  Lemma in_hop x : In x (f0 :: rest) -> exists j, x = hfragx j /\ (j < Z.to_nat M)%nat.
  Proof.
    pose proof (M_ge2 F n HF Hs). intros [<-|Hx]; [exists 0%nat; split; [reflexivity | unfold M in *; lia]|].
    unfold rest in Hx. apply in_map_iff in Hx. destruct Hx as (j & <- & Hj). apply in_seq in Hj.
    exists j. split; [reflexivity | unfold K' in *; lia].
  Qed.
  Lemma hfragx_pos j : pos (hfragx j) = pos (hfrag F g n j).
  Proof. reflexivity. Qed.
  Lemma hfragx_data j : p_data (hfragx j) = p_data (hfrag F g n j).
  Proof. reflexivity. Qed.

  Lemma hfragx_props j :
    p_dev (hfragx j) = self /\ MvRefresh <= p_id (hfragx j) /\ has_multi (p_flags (hfragx j)) = false /\
    has_frag (p_flags (hfragx j)) = true /\ f_len (p_flags (hfragx j)) = M /\ f_group (p_flags (hfragx j)) = g /\
    p_id (hfragx j) = p_id n /\ p_job (hfragx j) = p_job n.
  Proof.
    destruct (hfrag_props F g self n HF Hs HM Haddr j) as (H1 & H2 & H3 & H4 & H5 & H6 & _ & H8 & H9).
    unfold hfragx, or_bits, with_flags, has_multi, has_frag in *.
    cbn [p_dev p_id p_job p_flags f_len f_group f_bits f_pos] in *.
    repeat split; auto.
    - rewrite Z.lor_spec, H3, Hxb. reflexivity.
    - rewrite Z.lor_spec, H4. reflexivity.
  Qed.

  Lemma testbit_fold_lor k : forall (l : list Z) a,
    Z.testbit (fold_left Z.lor l a) k = Z.testbit a k || existsb (fun x => Z.testbit x k) l.
  Proof.
    induction l as [|x r IH]; intros a; cbn [fold_left existsb]; [now rewrite orb_false_r|].
    rewrite IH, Z.lor_spec, orb_assoc. reflexivity.
  Qed.

  Lemma join_any (m : packet A) tl :
    Forall (fun x => is_nil (p_data x) = false /\ p_id x = p_id m) tl ->
    join m tl = mkPacket (p_id m) (p_job m) (p_dev m)
                  (mkFlags (f_len (p_flags m)) (f_pos (p_flags m)) (f_group (p_flags m))
                           (fold_left Z.lor (map (fun x => f_bits (p_flags x)) tl) (f_bits (p_flags m))))
                  (p_tags m) (p_data m ++ concat (map p_data tl)).
  Proof.
    intros H. unfold join.
    assert (filter (joinable m) tl = tl) as ->; [|reflexivity].
    induction tl as [|x r IH]; [reflexivity|]. inversion H as [|? ? (Hn & Hi) Hr]; subst.
    cbn [filter]. unfold joinable at 1. rewrite Hn, Hi, Z.eqb_refl. cbn [orb negb]. f_equal. now apply IH.
  Qed.

  (* receive() hands any ordinary packet for this Session to the handler *)
  Lemma recv_ordinary k (st : state A) (R : packet A) :
    p_dev R = self -> self <> 0 -> MvRefresh <= p_id R ->
    has_multi (p_flags R) = false -> has_frag (p_flags R) = false ->
    recv_f (S k) self st R = (st, ODeliver R).
  Proof.
    intros Hd Hself Hid Hmu Hfr. unfold MvRefresh in Hid. rewrite recv_f_S.
    rewrite Hd. replace (self =? 0) with false by lia. unfold is_nop.
    replace (p_id R <? 2) with false by lia. cbn [andb orb].
    rewrite Z.eqb_refl. cbn [negb]. rewrite andb_false_r.
    unfold SvComplete. replace (p_id R =? 4) with false by lia. cbn [andb].
    rewrite Hmu, Hfr. unfold recv_single, SvResync, SvRegister, SvShutdown, SvComplete, MvRefresh.
    replace (p_id R =? 1) with false by lia. replace (p_id R =? 3) with false by lia.
    replace (p_id R =? 5) with false by lia. replace (p_id R =? 4) with false by lia.
    replace (p_id R <? 7) with false by lia. cbn [orb andb]. reflexivity.
  Qed.

  Lemma f0x_data : is_nil (p_data f0) = false.
  Proof. exact (f0_data F g n HF Hs). Qed.

  Lemma Vx_is_delivered :
    with_flags (fclear (p_flags (join f0 (stored rest)))) (join f0 (stored rest)) = delivered_of (f0 :: rest) n.
  Proof.
    rewrite (join_any f0 (stored rest)).
    2:{ apply Forall_forall. intros x Hx. unfold stored in Hx. apply filter_In in Hx. destruct Hx as [Hx Hne].
        destruct (in_hop x (or_intror Hx)) as (j & -> & _).
        destruct (hfragx_props j) as (_ & _ & _ & _ & _ & _ & Hi & _).
        destruct (hfragx_props 0%nat) as (_ & _ & _ & _ & _ & _ & Hi0 & _).
        unfold nonempty in Hne. apply negb_true_iff in Hne. split; [exact Hne|]. unfold f0. congruence. }
    unfold with_flags, fclear, delivered_of. cbn [p_id p_job p_dev p_flags p_tags p_data f_bits hd tl].
    assert (p_data f0 ++ concat (map p_data (stored rest)) = p_data n) as ->.
    { change (p_data f0 ++ concat (map p_data (stored rest))) with (concat (map p_data (f0 :: stored rest))).
      rewrite <- (stored_head f0 f0x_data). rewrite concat_stored.
      assert (map p_data (f0 :: rest) = map p_data (split F g n)) as ->.
      { rewrite (split_cons F g n HF Ht Hs). fold M. fold K'. unfold f0, rest. cbn [map]. f_equal.
        rewrite !map_map. apply map_ext. intros j. apply hfragx_data. }
      apply (split_concat F Fp g n Ht). }
    reflexivity.
  Qed.

  Theorem reassemble_hop (evs : list (ev A)) (st0 : state A) :
    wf st0 -> lookup g st0 = None ->
    Permutation (own_pkts g evs) (hop xb (split F g n)) ->
    hd_error (own_pkts g evs) = hd_error (hop xb (split F g n)) ->
    paced g evs = true ->
    lookup g (fst (run self st0 evs)) = None /\
    own_outs g evs (snd (run self st0 evs)) =
      repeat ONone (Z.to_nat (nfrag F n - 1)) ++ [ODeliver (delivered_of (hop xb (split F g n)) n)].
  Proof.
    rewrite hop_split_cons. cbn [hd_error]. intros Hwf L HP Hhd Hpaced. fold M.
    pose proof (M_ge2 F n HF Hs) as HM2. destruct Haddr as (Hd & Hself & Hid & Hmu).
    apply (run_reassembles g M self (p_id n) (p_job n) f0 rest (delivered_of (f0 :: rest) n)); try assumption.
    - unfold M in *; lia.
    - rewrite <- hop_split_cons. unfold hop.
      assert (forall (l : list (packet A)) a, len (hop_from xb a l) = len l) as Hl.
      { induction l; intros a0; cbn [hop_from]; [reflexivity | rewrite !len_cons, IHl; reflexivity]. }
      rewrite Hl. apply (split_length F Fp g n Ht).
    - apply Forall_forall. intros x Hx. destruct (in_hop x Hx) as (j & -> & _).
      destruct (hfragx_props j) as (H1 & H2 & H3 & H4 & H5 & H6 & H8 & H9). auto 10.
    - assert (f0 :: rest = map hfragx (seq 0 (S K'))) as -> by reflexivity.
      assert (forall k a, (a + k <= Z.to_nat M)%nat -> StronglySorted le_pos (map hfragx (seq a k))) as Hss.
      { induction k as [|k IH]; intros a Ha; cbn [seq map]; constructor; [apply IH; lia|].
        apply Forall_forall. intros x Hx. apply in_map_iff in Hx. destruct Hx as (j & <- & Hj). apply in_seq in Hj.
        unfold le_pos. rewrite !hfragx_pos, !(hfrag_pos F g n HM) by (unfold M in *; lia). lia. }
      apply Hss. unfold K', M in *. lia.
    - intros x y Hx Hy. destruct (in_hop x Hx) as (i & -> & Hi). destruct (in_hop y Hy) as (j & -> & Hj).
      rewrite !hfragx_pos, !(hfrag_pos F g n HM) by assumption. intros E. replace j with i by lia. reflexivity.
    - change (pos f0 = 0). unfold f0. rewrite hfragx_pos, (hfrag_pos F g n HM) by (unfold M in *; lia). reflexivity.
    - exact f0x_data.
    - intros st. rewrite Vx_is_delivered. apply recv_ordinary; try assumption.
      + unfold delivered_of, has_multi. cbn [p_flags f_bits hd tl].
        rewrite Z.lxor_spec, testbit_fold_lor, testbit_1. cbn [Z.eqb]. rewrite xorb_false_r.
        destruct (hfragx_props 0%nat) as (_ & _ & H3 & _). unfold has_multi in H3. fold f0 in H3. rewrite H3. cbn [orb].
        apply not_true_iff_false. intros Hex. apply existsb_exists in Hex. destruct Hex as (b & Hb & Hbit).
        apply in_map_iff in Hb. destruct Hb as (x & <- & Hx). apply filter_In in Hx. destruct Hx as [Hx _].
        destruct (in_hop x (or_intror Hx)) as (j & -> & _).
        destruct (hfragx_props j) as (_ & _ & H3j & _). unfold has_multi in H3j. congruence.
      + unfold delivered_of, has_frag. cbn [p_flags f_bits hd tl].
        rewrite Z.lxor_spec, testbit_fold_lor, testbit_1. cbn [Z.eqb].
        destruct (hfragx_props 0%nat) as (_ & _ & _ & H4 & _). unfold has_frag in H4. fold f0 in H4. rewrite H4. reflexivity.
  Qed.
End ConcreteHop.

(* ---- a group with a missing fragment, stated for the split ----------------------------------- *)
Section MissingSplit.
  Context {A : Type}.
  Variables (F g self : Z) (n : packet A).
  Hypothesis HF : 0 < F.
  Hypothesis Ht : 0 <= p_tags n.
  Hypothesis Hs : F < size n.
  Hypothesis HM : nfrag F n <= 65535.

  Lemma nfrag_ge2 : 2 <= nfrag F n.
  Proof. unfold nfrag. assert (1 <= size n / F) by (apply Z.div_le_lower_bound; lia). lia. Qed.

  Lemma below_of_absent (st : state A) : lookup g st = None -> below g 0 st.
  Proof.
    intros L. apply Forall_forall. intros [k c] Hin Hk. cbn [fst] in Hk. subst k. exfalso.
    apply lookup_none_notin in L. apply L. apply in_map_iff. exists (g, c). auto.
  Qed.

  Theorem missing_delivers_nothing (evs : list (ev A)) (st0 : state A) :
    lookup g st0 = None ->
    Forall (fun p => In p (split F g n)) (own_pkts g evs) ->
    len (own_pkts g evs) < nfrag F n ->
    Forall (fun o => is_deliver o = false) (own_outs g evs (snd (run self st0 evs))).
  Proof.
    intros L Hin Hlt. pose proof nfrag_ge2.
    apply (missing_run g (nfrag F n) self) with (cnt := 0); try lia.
    - now apply below_of_absent.
    - eapply Forall_impl; [|exact Hin]. cbv beta. intros p Hp.
      pose proof (split_each F HF g n Ht) as He. rewrite Forall_forall in He.
      destruct (He p Hp) as (_ & _ & _ & _ & _ & _ & Hl & Hfr). split; [|exact Hfr].
      rewrite Hl. apply u16_small. lia.
  Qed.

  (* "some fragment never arrives": the arrivals are a duplicate-free strict subset of the fragments *)
  Theorem strict_subset_delivers_nothing (evs : list (ev A)) (st0 : state A) :
    lookup g st0 = None ->
    NoDup (own_pkts g evs) -> incl (own_pkts g evs) (split F g n) ->
    (exists f, In f (split F g n) /\ ~ In f (own_pkts g evs)) ->
    Forall (fun o => is_deliver o = false) (own_outs g evs (snd (run self st0 evs))).
  Proof.
    intros L Hnd Hincl (f & Hf & Hnf). apply missing_delivers_nothing; auto.
    - apply Forall_forall. exact Hincl.
    - pose proof (split_length F HF g n Ht) as Hlen.
      pose proof (NoDup_incl_length Hnd Hincl) as Hle.
      destruct (Nat.eq_dec (length (own_pkts g evs)) (length (split F g n))) as [E|E].
      + exfalso. apply Hnf.
        assert (incl (split F g n) (own_pkts g evs)) as Hrev by (apply NoDup_length_incl; [exact Hnd | lia | exact Hincl]).
        apply Hrev, Hf.
      + unfold len in *. lia.
  Qed.
End MissingSplit.

(* ---- the wake-up sweep ------------------------------------------------------------------------- *)
Section Sweep.
  Context {A : Type}.
  Definition bounded (k : Z) (st : state A) : Prop := Forall (fun kc : Z * cluster A => 1 <= c_c (snd kc) <= k) st.

  Lemma counters_ok_bounded (st : state A) : counters_ok st <-> bounded fragMaxMisses st.
  Proof. reflexivity. Qed.

  Lemma sweep_bounded k (st : state A) : 0 <= k < 255 -> bounded (k + 1) st -> bounded k (sweep st).
  Proof.
    intros Hk. unfold bounded. induction st as [|[g c] r IH]; cbn [sweep]; intros H; [constructor|].
    inversion H as [|? ? Hc Hr]; subst. cbn [snd] in Hc. rewrite u8_small by lia.
    destruct (Z.eqb_spec (c_c c - 1) 0); [now apply IH|].
    constructor; [cbn [snd c_c]; lia | now apply IH].
  Qed.
  Lemma bounded_mono k k' (st : state A) : k <= k' -> bounded k st -> bounded k' st.
  Proof. intros Hle H. eapply Forall_impl; [|exact H]. cbv beta. intros; lia. Qed.
  Lemma bounded_0 (st : state A) : bounded 0 st -> st = [].
  Proof. destruct st; [reflexivity|]. intros H. inversion H; subst. lia. Qed.

  Lemma iter_succ_r' {X} (f : X -> X) : forall k x, Nat.iter (S k) f x = Nat.iter k f (f x).
  Proof. induction k as [|k IH]; intros x; [reflexivity|]. change (Nat.iter (S (S k)) f x) with (f (Nat.iter (S k) f x)). rewrite IH. reflexivity. Qed.

  Lemma iter_sweep : forall (k : nat) (st : state A), Z.of_nat k < 255 -> bounded (Z.of_nat k) st -> Nat.iter k sweep st = [].
  Proof.
    induction k as [|k IH]; intros st Hk Hb.
    - cbn [Nat.iter]. now apply bounded_0.
    - rewrite iter_succ_r'. apply IH; [lia|]. apply sweep_bounded; [lia|].
      replace (Z.of_nat k + 1) with (Z.of_nat (S k)) by lia. exact Hb.
  Qed.

  (* what one call of receive() can put into the table: nothing, or a cluster that was just touched
     (counter fragMaxMisses) or that was there before *)
  Lemma frag_step_counter (oc : option (cluster A)) p oc' fo : frag_step oc p = (oc', fo) ->
    match oc' with None => True | Some c' => c_c c' = fragMaxMisses \/ oc = Some c' end.
  Proof.
    unfold frag_step.
    assert (forall c, match cl_add c p with
              | Ok c' => match cl_done c' with Some v => (None, FAgain v) | None => (Some c', FNone) end
              | Err e => (Some c, FErr e)
              | Panic => (Some c, FErr ErrUnmodelled)
              end = (oc', fo) ->
              (is_nil (c_data c) = true \/ oc = Some c) ->
              match oc' with None => True | Some c' => c_c c' = fragMaxMisses \/ oc = Some c' end) as Hgo.
    { intros c. unfold cl_add. intros H Hc.
      destruct (c_data c) as [|d0 dr] eqn:Ed.
      - destruct (is_nil (p_data p));
          match type of H with context [cl_done ?x] => destruct (cl_done x) end; inversion H; subst; auto.
      - destruct Hc as [Hc|Hc]; [discriminate|].
        destruct (negb (belongs d0 p)); [inversion H; subst; auto|].
        destruct (is_nil (p_data p));
          match type of H with context [cl_done ?x] => destruct (cl_done x) end; inversion H; subst; auto. }
    destruct oc as [c|].
    - intros H. apply (Hgo c H). now right.
    - destruct (0 <? f_pos (p_flags p)); [intros H; inversion H; subst; exact I|].
      intros H. apply (Hgo _ H). now left.
  Qed.

  Lemma bounded_remove k g (st : state A) : bounded k st -> bounded k (remove g st).
  Proof.
    unfold bounded, remove. intros H. apply Forall_forall. intros x Hx. apply filter_In in Hx.
    rewrite Forall_forall in H. apply H, Hx.
  Qed.

  Lemma counters_recv_f : forall k self (st : state A) p, counters_ok st -> counters_ok (fst (recv_f k self st p)).
  Proof.
    intros k self st p H. destruct k; [exact H|]. rewrite recv_f_S. cbv zeta.
    repeat match goal with |- context [if ?b then _ else _] => destruct b end; try exact H.
    - rewrite recv_f_len0 by reflexivity. exact H.
    - destruct (frag_step (lookup (f_group (p_flags p)) st) p) as [oc fo] eqn:E.
      assert (counters_ok (set (f_group (p_flags p)) oc st)) as H'.
      { pose proof (frag_step_counter _ _ _ _ E) as Hc. destruct oc as [c'|]; cbn [set].
        - constructor; [|now apply bounded_remove]. cbn [snd]. destruct Hc as [->|Hc]; [unfold fragMaxMisses; lia|].
          apply lookup_some_in in Hc. unfold counters_ok in H. rewrite Forall_forall in H. apply (H _ Hc).
        - now apply bounded_remove. }
      destruct fo; try exact H'.
      rewrite recv_f_len0; [exact H' | eapply frag_step_again; eauto].
  Qed.

  Lemma counters_run : forall self (evs : list (ev A)) (st : state A), counters_ok st -> counters_ok (fst (run self st evs)).
  Proof.
    induction evs as [|[p|] r IH]; intros st H; [exact H| |].
    - rewrite run_cons_pkt. cbn [fst]. apply IH. now apply counters_recv_f.
    - rewrite run_cons_sweep. cbn [fst]. apply IH.
      apply (bounded_mono 4); [unfold fragMaxMisses; lia|]. apply sweep_bounded; [lia|]. exact H.
  Qed.

  (* after any history, fragMaxMisses wake-ups without traffic leave no reassembly state *)
  Theorem sweep_removes_stale self (evs : list (ev A)) (st0 : state A) :
    counters_ok st0 -> Nat.iter 5 sweep (fst (run self st0 evs)) = [].
  Proof. intros H. apply iter_sweep; [cbn; lia|]. apply (counters_run self evs st0 H). Qed.

  (* and a single cluster disappears exactly when its counter is used up *)
  Theorem sweep_counts_down g (st : state A) c : wf st -> lookup g st = Some c -> 2 <= c_c c <= 256 ->
    lookup g (sweep st) = Some (mkCluster (c_max c) (c_e c) (c_c c - 1) (c_data c)).
  Proof.
    intros Hwf L Hc. rewrite (lookup_sweep_some g st c Hwf L). rewrite u8_small by lia.
    replace (c_c c - 1 =? 0) with false by lia. reflexivity.
  Qed.
  Theorem sweep_removes_last g (st : state A) c : wf st -> lookup g st = Some c -> c_c c = 1 -> lookup g (sweep st) = None.
  Proof. intros Hwf L Hc. rewrite (lookup_sweep_some g st c Hwf L), Hc. reflexivity. Qed.
End Sweep.

(* ---- concrete histories: non-vacuity and the refuted full statements ---------------------------- *)
Module Ex.
  (* F = 60: a 100-byte packet (Size 147) becomes 3 fragments of 60, 40 and 0 bytes; a 70-byte packet
     (Size 117) of another group becomes 2 fragments *)
  Definition F : Z := 60.
  Definition nA : packet Z := mkPacket 9 77 1 (mkFlags 0 0 0 4) 0 (gen 100 0).
  Definition nB : packet Z := mkPacket 8 78 1 (mkFlags 0 0 0 0) 0 (gen 70 5).
  Definition gA : Z := 111.
  Definition gB : Z := 222.
  Definition a (k : nat) : ev Z := EvPkt (nth k (split F gA nA) nA).
  Definition b (k : nat) : ev Z := EvPkt (nth k (split F gB nB) nB).
  Definition w : ev Z := @EvSweep Z.
  (* position 0 first, then the EMPTY last fragment, then the middle one; fragments of B and wake-ups in between *)
  Definition evs_ok : list (ev Z) := [a 0; w; b 0; a 2; w; b 1; w; a 1].
  (* the first arrival is position 1 *)
  Definition evs_pos1_first : list (ev Z) := [a 1; a 0; a 2].
  (* five wake-ups between two fragments of A *)
  Definition evs_idle5 : list (ev Z) := [a 0; w; b 0; w; w; w; b 1; w; a 1; a 2].

  Lemma hyps_ok :
    HeaderSize <= F /\ 0 <= p_tags nA /\ F < size nA /\ nfrag F nA = 3 /\ addressed 1 nA /\
    map (fun f => len (p_data f)) (split F gA nA) = [60; 40; 0] /\
    Permutation (own_pkts gA evs_ok) (split F gA nA) /\ own_pkts gA evs_ok <> split F gA nA /\
    hd_error (own_pkts gA evs_ok) = hd_error (split F gA nA) /\ paced gA evs_ok = true.
  Proof.
    split; [vm_compute; discriminate|]. split; [vm_compute; discriminate|].
    split; [vm_compute; reflexivity|]. split; [vm_compute; reflexivity|].
    split; [repeat split; vm_compute; (reflexivity || discriminate)|].
    split; [vm_compute; reflexivity|].
    split; [vm_compute; apply perm_skip; apply perm_swap|].
    split; [vm_compute; discriminate|].
    split; vm_compute; reflexivity.
  Qed.

  Lemma outcome_ok :
    run 1 [] evs_ok = ([], [ONone; ONone; ONone; ONone; ONone; ODeliver (reassembled nB); ONone; ODeliver (reassembled nA)]).
  Proof. vm_compute. reflexivity. Qed.

  Lemma pos1_first_lost :
    Permutation (own_pkts gA evs_pos1_first) (split F gA nA) /\ paced gA evs_pos1_first = true /\
    forallb (fun o => negb (is_deliver o)) (snd (run 1 [] evs_pos1_first)) = true.
  Proof. repeat split; try (vm_compute; reflexivity). vm_compute. apply perm_swap. Qed.

  Lemma idle5_lost :
    own_pkts gA evs_idle5 = split F gA nA /\ paced gA evs_idle5 = false /\
    own_outs gA evs_idle5 (snd (run 1 [] evs_idle5)) =
      [ONone; ODrop (mkFlags 3 1 111 5) 1; ODrop (mkFlags 3 2 111 5) 1].
  Proof. repeat split; vm_compute; reflexivity. Qed.

  (* write(true, n) into a queue with 3 free slots: 5 fragments are built, 3 are queued, no error *)
  Definition nC : packet Z := mkPacket 9 79 1 (mkFlags 0 0 0 0) 0 (gen 200 0).
  Lemma overflow_drops :
    nfrag F nC = 5 /\ fst (write F 128 true 1 125 7 nC) = 0 /\ len (snd (write F 128 true 1 125 7 nC)) = 3 /\
    fst (write F 128 false 1 125 7 nC) = ErrFullBuffer.
  Proof. repeat split; vm_compute; reflexivity. Qed.

  (* a limit below the header size (no build has one): an empty packet is split into empty fragments only,
     and a cluster without a stored fragment never completes *)
  Definition nE : packet Z := mkPacket 9 80 1 (mkFlags 0 0 0 0) 0 [].
  Lemma tiny_limit_lost :
    nfrag 10 nE = 5 /\
    forallb (fun o => negb (is_deliver o)) (snd (run 1 [] (map EvPkt (split 10 gA nE)))) = true.
  Proof. split; vm_compute; reflexivity. Qed.
End Ex.

(* ---- the statements of Props/C02.v ---------------------------------------------------------------- *)
Theorem thm_split_exact : forall (A : Type) (F g : Z) (n : packet A), 0 < F -> 0 <= p_tags n ->
  len (split F g n) = nfrag F n /\
  (forall i, 0 <= i < nfrag F n ->
     nth_error (split F g n) (Z.to_nat i) = Some (mkfrag n g (nfrag F n) i (take F (drop (i * F) (p_data n))))) /\
  concat (map p_data (split F g n)) = p_data n /\
  Forall (fun f => len (p_data f) <= F /\ p_id f = p_id n /\ p_job f = p_job n /\ p_dev f = p_dev n /\
                   p_tags f = 0 /\ f_group (p_flags f) = g /\ f_len (p_flags f) = u16 (nfrag F n) /\
                   has_frag (p_flags f) = true) (split F g n) /\
  (forall i, 0 <= i -> (is_nil (take F (drop (i * F) (p_data n))) = true <-> len (p_data n) <= i * F)) /\
  (len (p_data n) + F - 1) / F <= nfrag F n.
Proof.
  intros A F g n HF Ht.
  split; [now apply split_length|]. split; [intros; now apply split_nth|].
  split; [now apply split_concat|]. split; [now apply split_each|].
  split; [intros; now apply split_empty_iff | now apply frag_count_enough].
Qed.

Theorem thm_write_queues_split : forall (A : Type) (F cap : Z) (w : bool) (local qlen g : Z) (n : packet A),
  0 < F -> 0 <= p_tags n -> F < size n ->
  (w = true \/ qlen + (nfrag F n - 1) < cap) -> nfrag F n <= cap - qlen ->
  write F cap w local qlen g n = (0, map (stamp local) (split F g n)).
Proof. intros. now apply write_is_split. Qed.

Theorem thm_write_refusal_exact : forall (A : Type) (F cap local qlen g : Z) (n : packet A), 0 < F -> 0 <= p_tags n ->
  (size n <= F ->
     (cap <= qlen + 1 -> write F cap false local qlen g n = (ErrFullBuffer, [])) /\
     (qlen + 1 < cap -> write F cap false local qlen g n = (0, [stamp local n]))) /\
  (F < size n ->
     (cap - qlen < nfrag F n -> write F cap false local qlen g n = (ErrFullBuffer, [])) /\
     (nfrag F n <= cap - qlen -> write F cap false local qlen g n = (0, map (stamp local) (split F g n)))).
Proof. intros. now apply write_refusal_exact. Qed.

Theorem thm_write_false_all_or_nothing : forall (A : Type) (F cap local qlen g : Z) (n : packet A), 0 < F -> 0 <= p_tags n ->
  (fst (write F cap false local qlen g n) = 0 ->
     snd (write F cap false local qlen g n) = map (stamp local) (if size n <=? F then [n] else split F g n)) /\
  (fst (write F cap false local qlen g n) <> 0 ->
     fst (write F cap false local qlen g n) = ErrFullBuffer /\ snd (write F cap false local qlen g n) = []).
Proof. intros. now apply write_false_all_or_nothing. Qed.

Theorem thm_reassemble_any_order : forall (A : Type) (F g self : Z) (n : packet A) (evs : list (ev A)) (st0 : state A),
  HeaderSize <= F -> 0 <= p_tags n -> F < size n -> nfrag F n <= 65535 -> addressed self n ->
  NoDup (map fst st0) -> lookup g st0 = None ->
  Permutation (own_pkts g evs) (split F g n) ->
  hd_error (own_pkts g evs) = hd_error (split F g n) ->
  paced g evs = true ->
  own_outs g evs (snd (run self st0 evs)) = repeat ONone (Z.to_nat (nfrag F n - 1)) ++ [ODeliver (reassembled n)] /\
  lookup g (fst (run self st0 evs)) = None.
Proof. intros. apply and_comm. now apply reassemble_any_order. Qed.

Theorem thm_no_residue : forall (A : Type) (F g self : Z) (n : packet A) (evs : list (ev A)),
  HeaderSize <= F -> 0 <= p_tags n -> F < size n -> nfrag F n <= 65535 -> addressed self n ->
  Permutation (own_pkts g evs) (split F g n) ->
  hd_error (own_pkts g evs) = hd_error (split F g n) ->
  paced g evs = true ->
  ~ In g (map fst (fst (run self [] evs))).
Proof.
  intros. apply lookup_none_notin.
  apply (reassemble_any_order F g self n); auto. constructor.
Qed.

Theorem thm_missing_delivers_nothing : forall (A : Type) (F g self : Z) (n : packet A) (evs : list (ev A)) (st0 : state A),
  0 < F -> 0 <= p_tags n -> F < size n -> nfrag F n <= 65535 ->
  lookup g st0 = None ->
  Forall (fun p => In p (split F g n)) (own_pkts g evs) ->
  len (own_pkts g evs) < nfrag F n ->
  Forall (fun o => is_deliver o = false) (own_outs g evs (snd (run self st0 evs))).
Proof. intros. now apply (missing_delivers_nothing F g self n). Qed.

Theorem thm_strict_subset_delivers_nothing : forall (A : Type) (F g self : Z) (n : packet A) (evs : list (ev A)) (st0 : state A),
  0 < F -> 0 <= p_tags n -> F < size n -> nfrag F n <= 65535 ->
  lookup g st0 = None ->
  NoDup (own_pkts g evs) -> incl (own_pkts g evs) (split F g n) ->
  (exists f, In f (split F g n) /\ ~ In f (own_pkts g evs)) ->
  Forall (fun o => is_deliver o = false) (own_outs g evs (snd (run self st0 evs))).
Proof. intros. now apply (strict_subset_delivers_nothing F g self n). Qed.

Theorem thm_sweep_removes_stale : forall (A : Type) (self : Z) (evs : list (ev A)) (st0 : state A),
  counters_ok st0 -> Nat.iter 5 sweep (fst (run self st0 evs)) = [].
Proof. intros. now apply sweep_removes_stale. Qed.

Theorem thm_sweep_from_empty : forall (A : Type) (self : Z) (evs : list (ev A)),
  Nat.iter 5 sweep (fst (run self [] evs)) = [].
Proof. intros. apply sweep_removes_stale. constructor. Qed.

Theorem thm_sweep_counts_down : forall (A : Type) (g : Z) (st : state A) (c : cluster A),
  NoDup (map fst st) -> lookup g st = Some c ->
  (2 <= c_c c <= 256 -> lookup g (sweep st) = Some (mkCluster (c_max c) (c_e c) (c_c c - 1) (c_data c))) /\
  (c_c c = 1 -> lookup g (sweep st) = None).
Proof. intros. split; intros; [now apply sweep_counts_down | now apply (sweep_removes_last g st c)]. Qed.

(* one wake-up, exactly: every group keeps or loses its cluster according to ITS OWN counter, nothing else changes *)
Theorem thm_sweep_removes_exactly : forall (A : Type) (st : state A), NoDup (map fst st) -> forall g,
  lookup g (sweep st) =
  match lookup g st with
  | Some c => if u8 (c_c c - 1) =? 0 then None
              else Some (mkCluster (c_max c) (c_e c) (u8 (c_c c - 1)) (c_data c))
  | None => None
  end.
Proof.
  intros A st Hwf g. destruct (lookup g st) as [c|] eqn:L.
  - now apply lookup_sweep_some.
  - now apply lookup_sweep_none.
Qed.

(* and as sets of group ids: the groups after a wake-up are exactly those whose counter did not reach 0 *)
Theorem thm_sweep_keys_exactly : forall (A : Type) (st : state A), NoDup (map fst st) -> forall g,
  In g (map fst (sweep st)) <-> exists c, lookup g st = Some c /\ u8 (c_c c - 1) <> 0.
Proof.
  intros A st Hwf g. pose proof (thm_sweep_removes_exactly A st Hwf g) as H.
  split.
  - intros Hin. destruct (lookup g (sweep st)) as [c'|] eqn:L'.
    + destruct (lookup g st) as [c|] eqn:L; [|discriminate].
      exists c. split; [reflexivity|]. destruct (Z.eqb_spec (u8 (c_c c - 1)) 0); [discriminate | assumption].
    + exfalso. apply lookup_none_notin in L'. contradiction.
  - intros (c & L & Hc). rewrite L in H. replace (u8 (c_c c - 1) =? 0) with false in H by lia.
    destruct (in_dec Z.eq_dec g (map fst (sweep st))) as [Hin|Hn]; [assumption|].
    apply lookup_none_notin in Hn. rewrite Hn in H. discriminate.
Qed.

Theorem thm_reassemble_pos0_refuted : exists (F g self : Z) (n : packet Z) (evs : list (ev Z)),
  HeaderSize <= F /\ 0 <= p_tags n /\ F < size n /\ nfrag F n <= 65535 /\ addressed self n /\
  Permutation (own_pkts g evs) (split F g n) /\ paced g evs = true /\
  forallb (fun o => negb (is_deliver o)) (snd (run self [] evs)) = true.
Proof.
  exists Ex.F, Ex.gA, 1, Ex.nA, Ex.evs_pos1_first.
  destruct Ex.hyps_ok as (H1 & H2 & H3 & H4 & H5 & _). destruct Ex.pos1_first_lost as (P1 & P2 & P3).
  repeat split; try assumption; try apply H5; try (rewrite H4; lia).
Qed.

Theorem thm_reassemble_pacing_refuted : exists (F g self : Z) (n : packet Z) (evs : list (ev Z)),
  HeaderSize <= F /\ 0 <= p_tags n /\ F < size n /\ nfrag F n <= 65535 /\ addressed self n /\
  own_pkts g evs = split F g n /\ paced g evs = false /\
  forallb (fun o => negb (is_deliver o)) (own_outs g evs (snd (run self [] evs))) = true.
Proof.
  exists Ex.F, Ex.gA, 1, Ex.nA, Ex.evs_idle5.
  destruct Ex.hyps_ok as (H1 & H2 & H3 & H4 & H5 & _). destruct Ex.idle5_lost as (P1 & P2 & P3).
  repeat split; try assumption; try apply H5; try (rewrite H4; lia); try (rewrite P3; reflexivity).
Qed.

Theorem thm_split_fits_queue_refuted : exists (F cap local qlen g : Z) (n : packet Z),
  0 < F /\ F < size n /\ qlen + nfrag F n > cap /\
  fst (write F cap true local qlen g n) = 0 /\ len (snd (write F cap true local qlen g n)) < nfrag F n /\
  fst (write F cap false local qlen g n) = ErrFullBuffer.
Proof.
  exists Ex.F, 128, 1, 125, 7, Ex.nC. destruct Ex.overflow_drops as (H1 & H2 & H3 & H4).
  rewrite H1, H2, H3, H4. repeat split; vm_compute; (reflexivity || discriminate).
Qed.

Theorem thm_tiny_limit_refuted : exists (F g self : Z) (n : packet Z),
  0 < F < HeaderSize /\ F < size n /\ addressed self n /\
  forallb (fun o => negb (is_deliver o)) (snd (run self [] (map EvPkt (split F g n)))) = true.
Proof.
  exists 10, Ex.gA, 1, Ex.nE. destruct Ex.tiny_limit_lost as (_ & H).
  split; [vm_compute; split; reflexivity|]. split; [vm_compute; reflexivity|].
  split; [repeat split; vm_compute; (reflexivity || discriminate) | exact H].
Qed.

Theorem thm_nonvacuous :
  (HeaderSize <= Ex.F /\ 0 <= p_tags Ex.nA /\ Ex.F < size Ex.nA /\ nfrag Ex.F Ex.nA = 3 /\ addressed 1 Ex.nA /\
   map (fun f => len (p_data f)) (split Ex.F Ex.gA Ex.nA) = [60; 40; 0] /\
   Permutation (own_pkts Ex.gA Ex.evs_ok) (split Ex.F Ex.gA Ex.nA) /\
   own_pkts Ex.gA Ex.evs_ok <> split Ex.F Ex.gA Ex.nA /\
   hd_error (own_pkts Ex.gA Ex.evs_ok) = hd_error (split Ex.F Ex.gA Ex.nA) /\ paced Ex.gA Ex.evs_ok = true) /\
  run 1 [] Ex.evs_ok =
    ([], [ONone; ONone; ONone; ONone; ONone; ODeliver (reassembled Ex.nB); ONone; ODeliver (reassembled Ex.nA)]).
Proof. split; [exact Ex.hyps_ok | exact Ex.outcome_ok]. Qed.

(* ---- the listen loop: failed passes do not count as misses ---------------------------------------- *)
Section Listen.
  Context {A : Type}.

  Lemma paced_from_no_own g : forall (evs : list (ev A)) c, existsb (is_own g) evs = false -> paced_from g c evs = true.
  Proof.
    induction evs as [|[p|] r IH]; intros c H; cbn [paced_from existsb is_own] in *; [reflexivity| |].
    - apply orb_false_iff in H. destruct H as [H1 H2]. rewrite H1. now apply IH.
    - cbn [orb] in H. rewrite H. reflexivity.
  Qed.

  Lemma paced_from_of_sparse g : forall (evs : list (ev A)) (pending : bool) c f,
    sparse pending evs = true -> fgap_from g f evs = true -> 0 <= f < 4 ->
    c <= f + (if pending then 1 else 0) -> paced_from g c evs = true.
  Proof.
    induction evs as [|[p|] r IH]; intros pending c f Hs Hf Hr Hc; cbn [paced_from sparse fgap_from] in *; [reflexivity| |].
    - destruct (f_group (p_flags p) =? g).
      + apply (IH false 0 0); auto; lia.
      + destruct (existsb (is_own g) r) eqn:E.
        * apply andb_true_iff in Hf. destruct Hf as [Hf1 Hf2].
          apply (IH false c (f + 1)); auto; try lia. destruct pending; lia.
        * now apply paced_from_no_own.
    - apply andb_true_iff in Hs. destruct Hs as [Hp Hs]. destruct pending; [discriminate|].
      destruct (existsb (is_own g) r); [|reflexivity].
      apply andb_true_iff. split; [unfold fragMaxMisses; lia|].
      apply (IH true (c + 1) f); auto. lia.
  Qed.

  Lemma sparse_weaken : forall (evs : list (ev A)), sparse true evs = true -> sparse false evs = true.
  Proof. destruct evs as [|[p|] r]; cbn [sparse]; auto. intros H. discriminate. Qed.

  Lemma paced_of_sparse g : forall (evs : list (ev A)) (pending : bool),
    sparse pending evs = true -> fgap g evs = true -> paced g evs = true.
  Proof.
    induction evs as [|[p|] r IH]; intros pending Hs Hf; cbn [paced sparse fgap] in *; [reflexivity| |].
    - destruct (f_group (p_flags p) =? g).
      + apply (paced_from_of_sparse g r false 0 0); auto; lia.
      + now apply (IH false).
    - apply andb_true_iff in Hs. destruct Hs as [_ Hs]. now apply (IH true).
  Qed.

  Lemma sparse_pre errs (pending : bool) (evs : list (ev A)) : (pending = true -> errs <> 0) ->
    sparse (if errs =? 0 then true else pending) evs = true ->
    sparse pending ((if errs =? 0 then [EvSweep] else []) ++ evs) = true.
  Proof.
    intros Hp H. destruct (Z.eqb_spec errs 0) as [E|E]; cbn [app sparse]; [|exact H].
    destruct pending; [exfalso; now apply Hp|]. exact H.
  Qed.
  Lemma sparse_pre_pkt errs (pending : bool) p (evs : list (ev A)) : (pending = true -> errs <> 0) ->
    sparse false evs = true ->
    sparse pending ((if errs =? 0 then [EvSweep] else []) ++ EvPkt p :: evs) = true.
  Proof.
    intros Hp H. apply sparse_pre; [exact Hp|]. destruct (errs =? 0); exact H.
  Qed.

  (* without switches the loop sweeps at most once between two arrivals: a sweep needs errors = 0, a failed
     pass leaves errors >= 1, and only an exchange that went through resets the counter *)
  Lemma listen_sparse self : forall (ws : list (lwake A)) errs (st : state A) (pending : bool),
    no_switch ws = true -> 0 <= errs <= 6 -> (pending = true -> errs <> 0) ->
    sparse pending (listen_evs self errs st ws) = true.
  Proof.
    unfold listen_evs.
    induction ws as [|w r IH]; intros errs st pending Hns He Hp; [reflexivity|].
    cbn [no_switch forallb] in Hns. apply andb_true_iff in Hns. destruct Hns as [Hsw Hns].
    apply negb_true_iff in Hsw. cbn [listen_sim]. rewrite Hsw. unfold maxErrors.
    destruct w as [sw|sw|sw p].
    - destruct (Z.leb_spec errs 5) as [Hle|Hgt].
      + rewrite (u8_small (errs + 1)) by lia.
        pose proof (IH (errs + 1) (if errs =? 0 then sweep st else st) (if errs =? 0 then true else pending) Hns ltac:(lia)) as H.
        destruct (listen_sim self (errs + 1) (if errs =? 0 then sweep st else st) r) as [[evs el] sp]. cbn [fst] in *.
        apply sparse_pre; [exact Hp|]. apply H. intros _. lia.
      + cbn [fst]. replace (errs =? 0) with false by lia. reflexivity.
    - rewrite (u8_small (errs + 1)) by lia.
      destruct (Z.ltb_spec 5 (errs + 1)) as [Hgt|Hle].
      + cbn [fst]. replace (errs =? 0) with false by lia. reflexivity.
      + pose proof (IH (errs + 1) (if errs =? 0 then sweep st else st) (if errs =? 0 then true else pending) Hns ltac:(lia)) as H.
        destruct (listen_sim self (errs + 1) (if errs =? 0 then sweep st else st) r) as [[evs el] sp]. cbn [fst] in *.
        apply sparse_pre; [exact Hp|]. apply H. intros _. lia.
    - rewrite (u8_small (errs + 1)) by lia.
      set (e2 := if is_err (snd (recv self (if errs =? 0 then sweep st else st) p)) then errs + 1 else 0).
      assert (0 <= e2 <= 7) as He2 by (unfold e2; destruct (is_err _); lia).
      destruct (Z.ltb_spec 5 e2) as [Hgt|Hle].
      + cbn [fst]. apply sparse_pre_pkt; [exact Hp | reflexivity].
      + pose proof (IH e2 (fst (recv self (if errs =? 0 then sweep st else st) p)) false Hns ltac:(lia)) as H.
        destruct (listen_sim self e2 (fst (recv self (if errs =? 0 then sweep st else st) p)) r) as [[evs el] sp]. cbn [fst] in *.
        apply sparse_pre_pkt; [exact Hp|]. apply H. intros; discriminate.
  Qed.

  (* the property for a client whose listen loop runs through ANY passes (failed ones in any number, as
     long as the loop itself goes on): the arrivals of group g the loop produces are the fragments of n in
     some order with position 0 first, fewer than 4 foreign exchanges between two of them *)
  Theorem listen_failed_wakeups_free (F g self : Z) (n : packet A) (ws : list (lwake A)) errs (st0 : state A) :
    HeaderSize <= F -> 0 <= p_tags n -> F < size n -> nfrag F n <= 65535 -> addressed self n ->
    wf st0 -> lookup g st0 = None ->
    no_switch ws = true -> 0 <= errs <= 6 ->
    let evs := listen_evs self errs st0 ws in
    Permutation (own_pkts g evs) (split F g n) ->
    hd_error (own_pkts g evs) = hd_error (split F g n) ->
    fgap g evs = true ->
    own_outs g evs (snd (run self st0 evs)) = repeat ONone (Z.to_nat (nfrag F n - 1)) ++ [ODeliver (reassembled n)] /\
    lookup g (fst (run self st0 evs)) = None.
  Proof.
    intros HF Ht Hs HM Ha Hwf L Hns He evs HP Hhd Hfg. apply and_comm.
    apply (reassemble_any_order F g self n); auto.
    apply (paced_of_sparse g evs false); [|exact Hfg].
    apply listen_sparse; auto. intros; discriminate.
  Qed.
End Listen.

Module ExL.
  Import Ex.
  Definition pk (k : nat) : lwake Z := LPkt false (nth k (split F gA nA) nA).
  Definition rf : lwake Z := LRefused false.
  Definition ls : lwake Z := LLost false.
  (* fragment 0; six refused connects; fragment 2; five lost exchanges; fragment 1 *)
  Definition ws_ok : list (lwake Z) := [pk 0; rf; rf; rf; rf; rf; rf; pk 2; ls; ls; ls; ls; ls; pk 1].
  Lemma listen_ok :
    no_switch ws_ok = true /\
    listen_sim 1 0 [] ws_ok =
      ([EvSweep; a 0; EvSweep; a 2; EvSweep; a 1], [0; 1; 2; 3; 4; 5; 6; 0; 1; 2; 3; 4; 5; 0], false) /\
    fgap gA (listen_evs 1 0 [] ws_ok) = true /\
    run 1 [] (listen_evs 1 0 [] ws_ok) = ([], [ONone; ONone; ONone; ONone; ONone; ODeliver (reassembled nA)]).
  Proof. repeat split; vm_compute; reflexivity. Qed.
  (* a seventh refused connect, or a sixth lost exchange, ends the loop *)
  Lemma listen_ends :
    snd (listen_sim 1 0 [] [pk 0; rf; rf; rf; rf; rf; rf; rf; pk 1]) = true /\
    snd (listen_sim 1 0 [] [pk 0; ls; ls; ls; ls; ls; ls; pk 1]) = true /\
    (* Switch reporting a switch while the counter is 0: it wraps to 255 and one refused connect ends the loop *)
    listen_sim 1 0 [] [pk 0; LRefused true; pk 1] = ([EvSweep; a 0; EvSweep], [0; 255], true).
  Proof. repeat split; vm_compute; reflexivity. Qed.
End ExL.

Theorem thm_listen_failed_wakeups_free : forall (A : Type) (F g self : Z) (n : packet A) (ws : list (lwake A)) (errs : Z) (st0 : state A),
  HeaderSize <= F -> 0 <= p_tags n -> F < size n -> nfrag F n <= 65535 -> addressed self n ->
  NoDup (map fst st0) -> lookup g st0 = None ->
  no_switch ws = true -> 0 <= errs <= 6 ->
  Permutation (own_pkts g (listen_evs self errs st0 ws)) (split F g n) ->
  hd_error (own_pkts g (listen_evs self errs st0 ws)) = hd_error (split F g n) ->
  fgap g (listen_evs self errs st0 ws) = true ->
  own_outs g (listen_evs self errs st0 ws) (snd (run self st0 (listen_evs self errs st0 ws))) =
    repeat ONone (Z.to_nat (nfrag F n - 1)) ++ [ODeliver (reassembled n)] /\
  lookup g (fst (run self st0 (listen_evs self errs st0 ws))) = None.
Proof. intros. now apply (listen_failed_wakeups_free F g self n ws errs st0). Qed.

Theorem thm_listen_sweeps_sparse : forall (A : Type) (self : Z) (ws : list (lwake A)) (errs : Z) (st : state A),
  no_switch ws = true -> 0 <= errs <= 6 -> sparse false (listen_evs self errs st ws) = true.
Proof. intros. apply listen_sparse; auto. intros; discriminate. Qed.

Theorem thm_sparse_paced : forall (A : Type) (g : Z) (evs : list (ev A)),
  sparse false evs = true -> fgap g evs = true -> paced g evs = true.
Proof. intros. now apply (paced_of_sparse g evs false). Qed.

Theorem thm_reassemble_hop_flags : forall (A : Type) (F g self : Z) (n : packet A) (xb : nat -> Z) (evs : list (ev A)) (st0 : state A),
  HeaderSize <= F -> 0 <= p_tags n -> F < size n -> nfrag F n <= 65535 -> addressed self n ->
  (forall j, Z.testbit (xb j) 1 = false) ->
  NoDup (map fst st0) -> lookup g st0 = None ->
  Permutation (own_pkts g evs) (hop xb (split F g n)) ->
  hd_error (own_pkts g evs) = hd_error (hop xb (split F g n)) ->
  paced g evs = true ->
  own_outs g evs (snd (run self st0 evs)) =
    repeat ONone (Z.to_nat (nfrag F n - 1)) ++ [ODeliver (delivered_of (hop xb (split F g n)) n)] /\
  lookup g (fst (run self st0 evs)) = None.
Proof. intros. apply and_comm. now apply (reassemble_hop F g self n xb). Qed.

Module ExH.
  Import Ex.
  (* FlagChannel (16) set on fragment 1 only, FlagChannelEnd (32) on the empty fragment 2 *)
  Definition xb (j : nat) : Z := match j with 1%nat => 16 | 2%nat => 32 | _ => 0 end.
  Definition ah (k : nat) : ev Z := EvPkt (nth k (hop xb (split F gA nA)) nA).
  Definition evs : list (ev Z) := [ah 0; w; b 0; ah 2; b 1; ah 1].
  Lemma ok :
    (forall j, Z.testbit (xb j) 1 = false) /\
    map (fun f => f_bits (p_flags f)) (hop xb (split F gA nA)) = [5; 21; 37] /\
    Permutation (own_pkts gA evs) (hop xb (split F gA nA)) /\
    hd_error (own_pkts gA evs) = hd_error (hop xb (split F gA nA)) /\ paced gA evs = true /\
    (* the bits of the EMPTY fragment are not merged (Add skips it), FlagFrag is cleared: 5 | 21 = 21, xor 1 = 20 *)
    f_bits (p_flags (delivered_of (hop xb (split F gA nA)) nA)) = 20 /\
    own_outs gA evs (snd (run 1 [] evs)) = [ONone; ONone; ODeliver (delivered_of (hop xb (split F gA nA)) nA)].
  Proof.
    split; [intros [|[|[|j]]]; reflexivity|].
    split; [vm_compute; reflexivity|].
    split; [vm_compute; apply perm_skip; apply perm_swap|].
    repeat split; vm_compute; reflexivity.
  Qed.
End ExH.
