(* Proofs/Frag.v -- lemmas about Model/Frag.v (C02). *)
From XMT Require Import Base.Prelude Model.Frag.
Lemma placeholder_true : True. Proof. exact I. Qed.
