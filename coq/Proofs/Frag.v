(* Proofs/Frag.v -- lemmas about Model/Frag.v (C02): the sender's split is exact, the receiver
   reassembles every arrival order (position 0 first) under every interleaving and pacing, a group
   with fewer arrivals than fragments delivers nothing, no residue, the sweep removes stale groups. *)
From Coq Require Import Permutation Sorted ZifyBool.
From XMT Require Import Base.Prelude Model.Frag.
Ltac Zify.zify_post_hook ::= Z.div_mod_to_equations.

(* ---- lists with Z indexes ------------------------------------------------ *)
Section Lists.
  Context {A : Type}.
  Implicit Types l : list A.

  Lemma len_nonneg l : 0 <= len l.
  Proof. unfold len; lia. Qed.
  Lemma len_nil : len (@nil A) = 0.
  Proof. reflexivity. Qed.
  Lemma len_cons (a : A) l : len (a :: l) = len l + 1.
  Proof. unfold len; cbn [length]; lia. Qed.
  Lemma len_app l1 l2 : len (l1 ++ l2) = len l1 + len l2.
  Proof. unfold len; rewrite app_length; lia. Qed.
  Lemma is_nil_len l : is_nil l = true <-> len l = 0.
  Proof. destruct l; cbn [is_nil]; [rewrite len_nil | rewrite len_cons; pose proof (len_nonneg l)]; split; (lia || discriminate || reflexivity). Qed.
  Lemma is_nil_false_len l : is_nil l = false <-> 0 < len l.
  Proof. destruct l; cbn [is_nil]; [rewrite len_nil | rewrite len_cons; pose proof (len_nonneg l)]; split; (lia || discriminate || reflexivity). Qed.
  Lemma take_drop n l : take n l ++ drop n l = l.
  Proof. apply firstn_skipn. Qed.
  Lemma len_take n l : 0 <= n -> len (take n l) = Z.min n (len l).
  Proof. intros; unfold len, take; rewrite firstn_length; lia. Qed.
  Lemma len_drop n l : 0 <= n -> len (drop n l) = Z.max 0 (len l - n).
  Proof. intros; unfold len, drop; rewrite skipn_length; lia. Qed.
  Lemma drop_drop a b l : 0 <= a -> 0 <= b -> drop a (drop b l) = drop (b + a) l.
  Proof.
    intros; unfold drop.
    replace (Z.to_nat (b + a)) with (Z.to_nat b + Z.to_nat a)%nat by lia.
    generalize (Z.to_nat a) (Z.to_nat b); clear; intros x y; revert l.
    induction y; intros l; cbn [skipn Nat.add]; [reflexivity|].
    destruct l; [now rewrite !skipn_nil | apply IHy].
  Qed.
  Lemma take_all n l : len l <= n -> take n l = l.
  Proof. intros; unfold take; apply firstn_all2; unfold len in *; lia. Qed.
  Lemma drop_0 l : drop 0 l = l.
  Proof. reflexivity. Qed.
  Lemma take_app_drop a b l : 0 <= a -> 0 <= b -> take a l ++ take b (drop a l) = take (a + b) l.
  Proof.
    intros; unfold take, drop.
    replace (Z.to_nat (a + b)) with (Z.to_nat a + Z.to_nat b)%nat by lia.
    generalize (Z.to_nat a) (Z.to_nat b); clear; intros x y; revert l.
    induction x; intros l; cbn [firstn skipn Nat.add app]; [reflexivity|].
    destruct l; cbn [firstn skipn app]; [now rewrite firstn_nil | now rewrite IHx].
  Qed.
End Lists.
