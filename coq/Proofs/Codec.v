(* Proofs/Codec.v -- lemmas about the typed codec model (C10); primitives are reused by C01/C12/C18. *)
From XMT Require Import Base.Prelude Base.BitLemmas Model.Codec.
From Coq Require Import ZifyBool.
Ltac Zify.zify_post_hook ::= Z.div_mod_to_equations.

(* ---- big-endian integers ------------------------------------------------- *)
Lemma of_be_be16 v : 0 <= v < 65536 -> of_be (be16 v) 0 = v.
Proof. intros H. unfold be16, of_be, u8. lia. Qed.
Lemma of_be_be32 v : 0 <= v < 4294967296 -> of_be (be32 v) 0 = v.
Proof. intros H. unfold be32, of_be, u8. lia. Qed.
Lemma of_be_be64 v : 0 <= v < 18446744073709551616 -> of_be (be64 v) 0 = v.
Proof.
  intros H. unfold be64, of_be, u8.
  assert (E : v = (v / 4294967296) * 4294967296 + v mod 4294967296) by lia.
  set (hi := v / 4294967296) in *. set (lo := v mod 4294967296) in *.
  assert (Hhi : 0 <= hi < 4294967296) by lia. assert (Hlo : 0 <= lo < 4294967296) by lia.
  replace (v / 72057594037927936) with (hi / 16777216) by lia.
  replace (v / 281474976710656) with (hi / 65536) by lia.
  replace (v / 1099511627776) with (hi / 256) by lia.
  replace (v / 16777216) with (hi * 256 + lo / 16777216) by lia.
  replace (v / 65536) with (hi * 65536 + lo / 65536) by lia.
  replace (v / 256) with (hi * 16777216 + lo / 256) by lia.
  lia.
Qed.

Lemma len_be16 v : len (be16 v) = 2. Proof. reflexivity. Qed.
Lemma len_be32 v : len (be32 v) = 4. Proof. reflexivity. Qed.
Lemma len_be64 v : len (be64 v) = 8. Proof. reflexivity. Qed.

Lemma take_app_exact {A} (a b : list A) n : len a = n -> take n (a ++ b) = a.
Proof.
  intros <-. unfold take, len. rewrite Nat2Z.id, firstn_app, Nat.sub_diag, firstn_all. cbn. apply app_nil_r.
Qed.
Lemma drop_app_exact {A} (a b : list A) n : len a = n -> drop n (a ++ b) = b.
Proof.
  intros <-. unfold drop, len. rewrite Nat2Z.id, skipn_app, Nat.sub_diag, skipn_all. reflexivity.
Qed.

(* ---- flat reader: primitives round-trip ------------------------------------ *)
Lemma rd_fixed_app a rest n : len a = n -> rd_fixed n (a ++ rest) = Ok (a, rest).
Proof.
  intros H. unfold rd_fixed. rewrite len_app. pose proof (len_nonneg rest).
  replace (len a + len rest <? n) with false by lia.
  rewrite take_app_exact, drop_app_exact by exact H. reflexivity.
Qed.

Lemma rd_u8_enc v rest : 0 <= v < 256 -> rd_u8 (enc_u8 v ++ rest) = Ok (v, rest).
Proof. intros H. unfold enc_u8. cbn [app rd_u8]. rewrite u8_small by lia. reflexivity. Qed.
Lemma rd_u16_enc v rest : 0 <= v < 65536 -> rd_u16 (enc_u16 v ++ rest) = Ok (v, rest).
Proof. intros H. unfold rd_u16, rd_uN, enc_u16. rewrite rd_fixed_app by reflexivity. cbn [bind]. rewrite of_be_be16 by lia. reflexivity. Qed.
Lemma rd_u32_enc v rest : 0 <= v < 4294967296 -> rd_u32 (enc_u32 v ++ rest) = Ok (v, rest).
Proof. intros H. unfold rd_u32, rd_uN, enc_u32. rewrite rd_fixed_app by reflexivity. cbn [bind]. rewrite of_be_be32 by lia. reflexivity. Qed.
Lemma rd_u64_enc v rest : 0 <= v < 18446744073709551616 -> rd_u64 (enc_u64 v ++ rest) = Ok (v, rest).
Proof. intros H. unfold rd_u64, rd_uN, enc_u64. rewrite rd_fixed_app by reflexivity. cbn [bind]. rewrite of_be_be64 by lia. reflexivity. Qed.
Lemma rd_bool_enc b rest : rd_bool (enc_bool b ++ rest) = Ok (b, rest).
Proof. destruct b; reflexivity. Qed.

(* signed integers travel as their two's complement *)
Lemma sgn_wrap bits v : 0 < bits -> - 2 ^ (bits - 1) <= v < 2 ^ (bits - 1) -> sgn bits (v mod 2 ^ bits) = v.
Proof.
  intros Hb H. unfold sgn.
  assert (E : 2 ^ bits = 2 * 2 ^ (bits - 1)) by (replace bits with (Z.succ (bits - 1)) at 1 by lia; rewrite Z.pow_succ_r by lia; reflexivity).
  assert (P : 0 < 2 ^ (bits - 1)) by (apply Z.pow_pos_nonneg; lia).
  rewrite Z.mod_mod by lia. rewrite E in *.
  replace (2 * 2 ^ (bits - 1) / 2) with (2 ^ (bits - 1)) by lia.
  set (h := 2 ^ (bits - 1)) in *.
  destruct (Z.lt_ge_cases v 0) as [Hn|Hn].
  - rewrite <- (Z.mod_add v 1 (2 * h)) by lia. rewrite Z.mod_small by lia. replace (v + 1 * (2 * h) <? h) with false by lia. lia.
  - rewrite Z.mod_small by lia. replace (v <? h) with true by lia. reflexivity.
Qed.

Lemma rd_prefix_enc l rest :
  0 <= l < 18446744073709551616 ->
  rd_prefix (enc_prefix l ++ rest) = Ok (if l =? 0 then None else Some l, rest).
Proof.
  intros H. unfold enc_prefix, LimitSmall, LimitMedium, LimitLarge.
  destruct (l =? 0) eqn:E0; [reflexivity|].
  destruct (l <? 256) eqn:E1.
  { cbn [app]. unfold rd_prefix. cbn [rd_u8 bind]. cbn [Z.eqb orb].
    change ([u8 l] ++ rest) with (enc_u8 l ++ rest). rewrite u8_small by lia. reflexivity. }
  destruct (l <? 65536) eqn:E2.
  { cbn [app]. unfold rd_prefix. cbn [rd_u8 bind Z.eqb orb].
    fold (enc_u16 l). change (be16 l ++ rest) with (enc_u16 l ++ rest).
    fold rd_u16. rewrite rd_u16_enc by lia. reflexivity. }
  destruct (l <? 4294967296) eqn:E3.
  { cbn [app]. unfold rd_prefix. cbn [rd_u8 bind Z.eqb orb].
    change (be32 l ++ rest) with (enc_u32 l ++ rest).
    fold rd_u32. rewrite rd_u32_enc by lia. reflexivity. }
  cbn [app]. unfold rd_prefix. cbn [rd_u8 bind Z.eqb orb].
  change (be64 l ++ rest) with (enc_u64 l ++ rest).
  fold rd_u64. rewrite rd_u64_enc by lia. reflexivity.
Qed.

Lemma rd_bytes_enc b rest :
  len b <= MaxSlice -> rd_bytes (enc_bytes b ++ rest) = Ok (b, rest).
Proof.
  intros H. unfold rd_bytes, enc_bytes. rewrite <- app_assoc. pose proof (len_nonneg b) as Hn.
  rewrite rd_prefix_enc by (unfold MaxSlice in H; lia). cbn [bind].
  destruct (len b =? 0) eqn:E.
  - destruct b as [|b0 b']; [reflexivity | rewrite len_cons in E; pose proof (len_nonneg b'); lia].
  - rewrite E. replace (MaxSlice <? len b) with false by lia.
    rewrite len_app. pose proof (len_nonneg rest). replace (len b + len rest <? len b) with false by lia.
    rewrite take_app_exact, drop_app_exact by reflexivity. reflexivity.
Qed.

Lemma rd_strings_enc l : forall rest,
  Forall (fun b => len b <= MaxSlice) l ->
  rd_strings (length l) (concat (map enc_bytes l) ++ rest) = Ok (l, rest).
Proof.
  induction l as [|b l IH]; intros rest H; [reflexivity|].
  inversion H as [|? ? Hb Hl]; subst. cbn [length rd_strings map concat]. rewrite <- app_assoc.
  rewrite rd_bytes_enc by exact Hb. cbn [bind]. rewrite IH by exact Hl. reflexivity.
Qed.

Lemma i64_small v : 0 <= v < 9223372036854775808 -> i64 v = v.
Proof. intros H. unfold i64, sgn. change (2 ^ 64) with 18446744073709551616.
  rewrite Z.mod_small by lia. change (18446744073709551616 / 2) with 9223372036854775808.
  replace (v <? 9223372036854775808) with true by lia. reflexivity. Qed.

Lemma rd_strlist_enc l rest :
  Forall (fun b => len b <= MaxSlice) l -> len l * 16 <= maxAlloc ->
  rd_strlist (enc_strlist l ++ rest) = Ok (l, rest).
Proof.
  intros H Hl. unfold rd_strlist, enc_strlist. rewrite <- app_assoc. pose proof (len_nonneg l) as Hn.
  unfold maxAlloc in *.
  rewrite rd_prefix_enc by lia. cbn [bind].
  destruct (len l =? 0) eqn:E.
  - destruct l as [|b0 l']; [reflexivity | rewrite len_cons in E; pose proof (len_nonneg l'); lia].
  - rewrite i64_small by lia. replace (len l <? 0) with false by lia. replace (281474976710656 <? len l * 16) with false by lia.
    unfold len at 1. rewrite Nat2Z.id. apply rd_strings_enc. exact H.
Qed.

(* ---- values ----------------------------------------------------------------- *)
Definition norm (v : value) : value := v.   (* integers are carried by value; bool is (= 1) *)

Lemma in_range_width t x : in_range t x = true -> width t = 1 \/ width t = 2 \/ width t = 4 \/ width t = 8.
Proof. destruct t; cbn; intros; try discriminate; auto. Qed.

Lemma rd_int_enc t x rest :
  in_range t x = true -> rd t (enc_int t x ++ rest) = Ok (VInt t x, rest).
Proof.
  intros H. destruct t; cbn [in_range] in H; try discriminate; unfold rd, enc_int; cbn [width];
    match goal with |- context [?a =? 1] => let b := eval vm_compute in (a =? 1) in change (a =? 1) with b end; cbn [bind norm_int].
  - (* u8 *) rewrite rd_u8_enc by lia. reflexivity.
  - fold rd_u16. rewrite rd_u16_enc by lia. reflexivity.
  - fold rd_u32. rewrite rd_u32_enc by lia. reflexivity.
  - fold rd_u64. rewrite rd_u64_enc by lia. reflexivity.
  - (* i8 *) unfold enc_u8. cbn [app rd_u8 bind]. unfold u8, i8. change 256 with (2 ^ 8). rewrite sgn_wrap by (cbn; lia). reflexivity.
  - unfold enc_u16, rd_uN. rewrite rd_fixed_app by reflexivity. cbn [bind].
    assert (E2 : of_be (be16 x) 0 = x mod 65536).
    { transitivity (of_be (be16 (x mod 65536)) 0); [|apply of_be_be16; lia]. f_equal. unfold be16, u8. f_equal; [|f_equal]; lia. }
    rewrite E2. unfold i16. change 65536 with (2 ^ 16). rewrite sgn_wrap by (cbn; lia). reflexivity.
  - unfold enc_u32, rd_uN. rewrite rd_fixed_app by reflexivity. cbn [bind].
    assert (E2 : of_be (be32 x) 0 = x mod 4294967296).
    { transitivity (of_be (be32 (x mod 4294967296)) 0); [|apply of_be_be32; lia]. f_equal. unfold be32, u8. repeat (f_equal; try lia). }
    rewrite E2. unfold i32. change 4294967296 with (2 ^ 32). rewrite sgn_wrap by (cbn; lia). reflexivity.
  - unfold enc_u64, rd_uN. rewrite rd_fixed_app by reflexivity. cbn [bind].
    assert (E2 : of_be (be64 x) 0 = x mod 18446744073709551616).
    { transitivity (of_be (be64 (x mod 18446744073709551616)) 0); [|apply of_be_be64; lia]. f_equal. unfold be64, u8.
      pose proof (Z.mod_pos_bound x 18446744073709551616 eq_refl) as Hm.
      pose proof (Z.div_mod x 18446744073709551616 ltac:(lia)) as Hd.
      set (m := x mod 18446744073709551616) in *. set (k := x / 18446744073709551616) in *.
      clearbody m k. clear H. subst x.
      repeat (f_equal; try lia). }
    rewrite E2. unfold i64. change 18446744073709551616 with (2 ^ 64). rewrite sgn_wrap by (cbn; lia). reflexivity.
  - (* f32 *) fold rd_u32. rewrite rd_u32_enc by lia. reflexivity.
  - fold rd_u64. rewrite rd_u64_enc by lia. reflexivity.
Qed.

Lemma wf_bytes_len b : wf_bytes b = true -> len b <= MaxSlice.
Proof. unfold wf_bytes. intros H. apply andb_prop in H. lia. Qed.
Lemma wf_bytes_all l : forallb wf_bytes l = true -> Forall (fun b => len b <= MaxSlice) l.
Proof. rewrite forallb_forall, Forall_forall. intros H b Hb. apply wf_bytes_len, H, Hb. Qed.

(* one value: what was encoded is what is read, and nothing more is consumed *)
Lemma rd_enc v rest : wfv v = true -> rd (ty_of v) (enc v ++ rest) = Ok (v, rest).
Proof.
  destruct v as [b|t x|t b|l]; cbn [wfv ty_of enc]; intros H.
  - unfold rd. rewrite rd_bool_enc. reflexivity.
  - apply rd_int_enc. exact H.
  - apply andb_prop in H. destruct H as [Ht Hb]. apply wf_bytes_len in Hb.
    destruct t; try discriminate; unfold rd; rewrite rd_bytes_enc by exact Hb; reflexivity.
  - apply andb_prop in H. destruct H as [Hl Hn]. unfold rd.
    rewrite rd_strlist_enc; [reflexivity | apply wf_bytes_all; exact Hl | lia].
Qed.

Theorem rd_seq_enc vs : forall rest, forallb wfv vs = true ->
  rd_seq (map ty_of vs) (enc_seq vs ++ rest) = Ok (vs, rest).
Proof.
  induction vs as [|v vs IH]; intros rest H; [reflexivity|].
  cbn [forallb] in H. apply andb_prop in H. destruct H as [Hv Hvs].
  unfold enc_seq. cbn [map concat rd_seq]. rewrite <- app_assoc. rewrite rd_enc by exact Hv. cbn [bind].
  fold (enc_seq vs). rewrite IH by exact Hvs. reflexivity.
Qed.

(* ---- reading depends only on the bytes consumed ----------------------------- *)
Definition mono {A} (f : list Z -> res (A * list Z)) : Prop :=
  (forall s v r ext, f s = Ok (v, r) -> f (s ++ ext) = Ok (v, r ++ ext)) /\
  (forall s ext, f s = Panic -> f (s ++ ext) = Panic).

Lemma take_app_le {A} (a b : list A) n : 0 <= n <= len a -> take n (a ++ b) = take n a.
Proof. intros H. unfold take, len in *. rewrite firstn_app. replace (Z.to_nat n - length a)%nat with 0%nat by lia. cbn. apply app_nil_r. Qed.
Lemma drop_app_le {A} (a b : list A) n : 0 <= n <= len a -> drop n (a ++ b) = drop n a ++ b.
Proof. intros H. unfold drop, len in *. rewrite skipn_app. replace (Z.to_nat n - length a)%nat with 0%nat by lia. reflexivity. Qed.

Lemma mono_fixed n : 0 <= n -> mono (rd_fixed n).
Proof.
  intros Hn. split.
  - intros s v r ext H. unfold rd_fixed in *. destruct (len s <? n) eqn:E; [discriminate|]. injection H as <- <-.
    rewrite len_app. pose proof (len_nonneg ext). replace (len s + len ext <? n) with false by lia.
    rewrite take_app_le, drop_app_le by lia. reflexivity.
  - intros s ext H. unfold rd_fixed in H. destruct (len s <? n); discriminate.
Qed.

Lemma mono_u8 : mono rd_u8.
Proof. split; intros s; destruct s; cbn; intros; try discriminate. injection H as <- <-. reflexivity. Qed.

Lemma mono_bind {A B} (f : list Z -> res (A * list Z)) (g : A -> list Z -> res (B * list Z)) :
  mono f -> (forall a, mono (g a)) -> mono (fun s => do '(a, r) <- f s; g a r).
Proof.
  intros [Hf1 Hf2] Hg. split.
  - intros s v r ext H. destruct (f s) as [[a r0]| |] eqn:E; cbn [bind] in *; try discriminate.
    rewrite (Hf1 _ _ _ ext E). cbn [bind]. apply (proj1 (Hg a)). exact H.
  - intros s ext H. destruct (f s) as [[a r0]| |] eqn:E; cbn [bind] in *; try discriminate.
    + rewrite (Hf1 _ _ _ ext E). cbn [bind]. apply (proj2 (Hg a)). exact H.
    + rewrite (Hf2 _ ext E). reflexivity.
Qed.

Lemma mono_ret {A} (a : A) : mono (fun s => Ok (a, s)).
Proof. split; intros; [injection H as <- <-; reflexivity | discriminate]. Qed.
Lemma mono_err {A} e : mono (fun _ : list Z => @Err (A * list Z) e).
Proof. split; intros; discriminate. Qed.
Lemma mono_panic {A} : mono (fun _ : list Z => @Panic (A * list Z)).
Proof. split; intros; [discriminate | reflexivity]. Qed.
Lemma mono_ext {A} (f g : list Z -> res (A * list Z)) : (forall s, f s = g s) -> mono f -> mono g.
Proof. intros E [H1 H2]. split; intros; rewrite <- E in *; eauto. Qed.

Lemma mono_uN n : 0 <= n -> mono (rd_uN n).
Proof.
  intros Hn. unfold rd_uN.
  apply (mono_bind (rd_fixed n) (fun b s => Ok (of_be b 0, s))); [apply mono_fixed; exact Hn | intros; apply mono_ret].
Qed.

Lemma mono_prefix : mono rd_prefix.
Proof.
  unfold rd_prefix.
  apply (mono_bind rd_u8 (fun t r =>
    if t =? 0 then Ok (None, r)
    else if (t =? 1) || (t =? 2) then do '(n, r') <- rd_u8 r; Ok (Some n, r')
    else if (t =? 3) || (t =? 4) then do '(n, r') <- rd_u16 r; Ok (Some n, r')
    else if (t =? 5) || (t =? 6) then do '(n, r') <- rd_u32 r; Ok (Some n, r')
    else if (t =? 7) || (t =? 8) then do '(n, r') <- rd_u64 r; Ok (Some n, r')
    else Err ErrInvalidType)); [apply mono_u8|].
  intros t. destruct (t =? 0); [apply mono_ret|].
  destruct ((t =? 1) || (t =? 2)); [apply (mono_bind rd_u8 (fun n s => Ok (Some n, s))); [apply mono_u8 | intros; apply mono_ret]|].
  destruct ((t =? 3) || (t =? 4)); [apply (mono_bind rd_u16 (fun n s => Ok (Some n, s))); [apply mono_uN; lia | intros; apply mono_ret]|].
  destruct ((t =? 5) || (t =? 6)); [apply (mono_bind rd_u32 (fun n s => Ok (Some n, s))); [apply mono_uN; lia | intros; apply mono_ret]|].
  destruct ((t =? 7) || (t =? 8)); [apply (mono_bind rd_u64 (fun n s => Ok (Some n, s))); [apply mono_uN; lia | intros; apply mono_ret]|].
  apply mono_err.
Qed.

Lemma mono_body l : 0 <= l -> mono (fun r => if len r <? l then Err EOF else Ok (take l r, drop l r)).
Proof. intros H. exact (mono_fixed l H). Qed.

Lemma mono_bytes : mono rd_bytes.
Proof.
  unfold rd_bytes.
  apply (mono_bind rd_prefix (fun ol r => match ol with
    | None => Ok ([], r)
    | Some l => if l =? 0 then Err ErrUnexpectedEOF else if MaxSlice <? l then Err ErrTooLarge
                else if len r <? l then Err EOF else Ok (take l r, drop l r) end)); [apply mono_prefix|].
  intros [l|]; [|apply mono_ret].
  destruct (l =? 0) eqn:E0; [apply mono_err|]. destruct (MaxSlice <? l); [apply mono_err|].
  destruct (Z.lt_ge_cases l 0) as [Hneg|Hpos].
  - (* negative lengths cannot come out of rd_prefix, but the function is total *)
    split; intros s; intros.
    + pose proof (len_nonneg s). replace (len s <? l) with false in * by lia. injection H as <- <-.
      pose proof (len_nonneg (s ++ ext)). replace (len (s ++ ext) <? l) with false by lia.
      unfold take, drop. replace (Z.to_nat l) with 0%nat by lia. reflexivity.
    + destruct (len s <? l); discriminate.
  - apply mono_body. exact Hpos.
Qed.

Lemma mono_strings k : mono (rd_strings k).
Proof.
  induction k as [|k IH]; cbn [rd_strings]; [apply mono_ret|].
  apply (mono_bind rd_bytes (fun b r => do '(l, r') <- rd_strings k r; Ok (b :: l, r'))); [apply mono_bytes|].
  intros b. apply (mono_bind (rd_strings k) (fun l s => Ok (b :: l, s))); [exact IH | intros; apply mono_ret].
Qed.

Lemma mono_strlist : mono rd_strlist.
Proof.
  unfold rd_strlist.
  apply (mono_bind rd_prefix (fun ol r => match ol with
    | None => Ok ([], r)
    | Some n => let l := i64 n in if l <? 0 then Ok ([], r) else if maxAlloc <? l * 16 then Panic else rd_strings (Z.to_nat l) r end)); [apply mono_prefix|].
  intros [n|]; [|apply mono_ret]. cbv zeta. destruct (_ <? 0); [apply mono_ret|]. destruct (_ <? _); [apply mono_panic | apply mono_strings].
Qed.

Lemma mono_rd t : mono (rd t).
Proof.
  assert (Hint : forall t', mono (fun s => do '(x, r) <- (if width t' =? 1 then rd_u8 s else rd_uN (width t') s); Ok (VInt t' (norm_int t' x), r))).
  { intros t'. destruct (width t' =? 1) eqn:E.
    - apply (mono_bind rd_u8 (fun x s => Ok (VInt t' (norm_int t' x), s))); [apply mono_u8 | intros; apply mono_ret].
    - apply (mono_bind (rd_uN (width t')) (fun x s => Ok (VInt t' (norm_int t' x), s))); [apply mono_uN; destruct t'; cbn; lia | intros; apply mono_ret]. }
  destruct t; try apply Hint; unfold rd.
  - apply (mono_bind rd_bool (fun b s => Ok (VBool b, s))); [|intros; apply mono_ret].
    unfold rd_bool. apply (mono_bind rd_u8 (fun b s => Ok (b =? 1, s))); [apply mono_u8 | intros; apply mono_ret].
  - apply (mono_bind rd_bytes (fun b s => Ok (VBytes TBytes b, s))); [apply mono_bytes | intros; apply mono_ret].
  - apply (mono_bind rd_bytes (fun b s => Ok (VBytes TString b, s))); [apply mono_bytes | intros; apply mono_ret].
  - apply (mono_bind rd_strlist (fun l s => Ok (VStrList l, s))); [apply mono_strlist | intros; apply mono_ret].
Qed.

Lemma mono_rd_seq ts : mono (rd_seq ts).
Proof.
  induction ts as [|t ts IH]; cbn [rd_seq]; [apply mono_ret|].
  apply (mono_bind (rd t) (fun v r => do '(vs, r') <- rd_seq ts r; Ok (v :: vs, r'))); [apply mono_rd|].
  intros v. apply (mono_bind (rd_seq ts) (fun vs s => Ok (v :: vs, s))); [exact IH | intros; apply mono_ret].
Qed.

(* ---- truncation: reading a cut encoding is an error, never a value ------------ *)
Theorem truncation_is_error vs k :
  forallb wfv vs = true -> 0 <= k < len (enc_seq vs) ->
  exists e, rd_seq (map ty_of vs) (take k (enc_seq vs)) = Err e.
Proof.
  intros Hwf Hk.
  pose proof (rd_seq_enc vs [] Hwf) as Hfull. rewrite app_nil_r in Hfull.
  assert (Hsplit : enc_seq vs = take k (enc_seq vs) ++ drop k (enc_seq vs)) by (unfold take, drop; symmetry; apply firstn_skipn).
  assert (Hdrop : drop k (enc_seq vs) <> []).
  { intros E. apply (f_equal (@length Z)) in E. unfold drop in E. rewrite skipn_length in E. cbn in E. unfold len in Hk. lia. }
  destruct (rd_seq (map ty_of vs) (take k (enc_seq vs))) as [[vs' r]|e|] eqn:E.
  - exfalso. apply (proj1 (mono_rd_seq _)) with (ext := drop k (enc_seq vs)) in E.
    rewrite <- Hsplit, Hfull in E. injection E as _ E2. apply Hdrop.
    destruct (drop k (enc_seq vs)); [reflexivity|]. destruct r; discriminate.
  - eauto.
  - exfalso. apply (proj2 (mono_rd_seq _)) with (ext := drop k (enc_seq vs)) in E.
    rewrite <- Hsplit, Hfull in E. discriminate.
Qed.

(* ---- the stream reader agrees with the flat reader on the concatenation -------
   for every way the underlying reader splits the bytes into NON-EMPTY short reads *)
Definition no_empty (s : src) : Prop := Forall (fun c => c <> []) s.

Lemma take_nonpos {A} (l : list A) k : k <= 0 -> take k l = [].
Proof. intros. unfold take. replace (Z.to_nat k) with 0%nat by lia. reflexivity. Qed.
Lemma drop_nonpos {A} (l : list A) k : k <= 0 -> drop k l = l.
Proof. intros. unfold drop. replace (Z.to_nat k) with 0%nat by lia. reflexivity. Qed.
Lemma len_take {A} (l : list A) k : 0 <= k <= len l -> len (take k l) = k.
Proof. intros. unfold len, take in *. rewrite firstn_length. lia. Qed.
Lemma take_drop_app {A} (l : list A) k : take k l ++ drop k l = l.
Proof. apply firstn_skipn. Qed.
Lemma take_take_app {A} (a b : list A) k : len a <= k -> take k (a ++ b) = a ++ take (k - len a) b.
Proof.
  intros H. unfold take, len in *. rewrite firstn_app. rewrite firstn_all2 by lia.
  f_equal. f_equal. lia.
Qed.
Lemma drop_drop_app {A} (a b : list A) k : len a <= k -> drop k (a ++ b) = drop (k - len a) b.
Proof.
  intros H. unfold drop, len in *. rewrite skipn_app. rewrite skipn_all2 by lia. cbn [app]. f_equal. lia.
Qed.

Lemma read_full_ok : forall s fuel k acc,
  no_empty s -> (length s < fuel)%nat -> k <= len (concat s) ->
  exists s', read_full fuel k s acc = Ok (acc ++ take k (concat s), s') /\
             concat s' = drop k (concat s) /\ no_empty s'.
Proof.
  induction s as [|c rest IH]; intros fuel k acc Hne Hf Hk.
  - cbn [concat] in *. change (len (@nil Z)) with 0 in Hk.
    destruct fuel; cbn [read_full]; replace (k <=? 0) with true by lia;
      (exists []; rewrite take_nonpos, drop_nonpos by lia; rewrite app_nil_r; repeat split; constructor).
  - destruct (Z.leb_spec k 0) as [Hk0|Hk0].
    + exists (c :: rest). destruct fuel; cbn [read_full]; replace (k <=? 0) with true by lia;
        rewrite take_nonpos, drop_nonpos by lia; rewrite app_nil_r; repeat split; assumption.
    + destruct fuel as [|fuel]; [cbn in Hf; lia|]. cbn [read_full]. replace (k <=? 0) with false by lia.
      inversion Hne as [|? ? Hc Hrest]; subst. cbn [read1 concat] in *.
      destruct (Z.leb_spec (len c) k) as [Hle|Hgt].
      * destruct (IH fuel (k - len c) (acc ++ c) Hrest) as (s' & E & Hc' & Hn'); [cbn in Hf; lia | rewrite len_app in Hk; lia |].
        exists s'. rewrite E. rewrite take_take_app, drop_drop_app by lia. rewrite app_assoc. repeat split; assumption.
      * exists (drop k c :: rest).
        assert (Hl : len (take k c) = k) by (apply len_take; lia).
        destruct fuel as [|fuel]; cbn [read_full]; rewrite Hl; replace (k - k <=? 0) with true by lia;
          rewrite take_app_le, drop_app_le by lia; (split; [reflexivity|]); (split; [reflexivity|]);
          (constructor; [|exact Hrest]); intros E; apply (f_equal (@length Z)) in E; unfold drop in E;
          rewrite skipn_length in E; unfold len in Hgt; cbn in E; lia.
Qed.

Lemma read_full_short : forall s fuel k acc,
  no_empty s -> (length s < fuel)%nat -> len (concat s) < k ->
  exists e, read_full fuel k s acc = Err e.
Proof.
  induction s as [|c rest IH]; intros fuel k acc Hne Hf Hk.
  - change (len (concat [])) with 0 in Hk. destruct fuel; [cbn in Hf; lia|]. cbn [read_full read1].
    replace (k <=? 0) with false by lia. destruct (is_nil acc); eauto.
  - pose proof (len_nonneg (concat (c :: rest))). destruct fuel as [|fuel]; [cbn in Hf; lia|]. cbn [read_full read1].
    replace (k <=? 0) with false by lia. cbn [concat] in Hk. rewrite len_app in Hk. pose proof (len_nonneg (concat rest)).
    replace (len c <=? k) with true by lia. inversion Hne; subst.
    apply IH; [assumption | cbn in Hf; lia | lia].
Qed.

Definition agree {A} (f : list Z -> res (A * list Z)) (g : src -> res (A * src)) : Prop :=
  forall s, no_empty s ->
  match f (concat s), g s with
  | Ok (a, r), Ok (a', s') => a = a' /\ concat s' = r /\ no_empty s'
  | Err _, Err _ => True
  | Panic, Panic => True
  | _, _ => False
  end.

Lemma agree_bind {A B} f g (f' : A -> list Z -> res (B * list Z)) (g' : A -> src -> res (B * src)) :
  agree f g -> (forall a, agree (f' a) (g' a)) ->
  agree (fun s => do '(a, r) <- f s; f' a r) (fun s => do '(a, r) <- g s; g' a r).
Proof.
  intros H H' s Hs. specialize (H s Hs).
  destruct (f (concat s)) as [[a r]| |], (g s) as [[a' s']| |]; cbn [bind]; try contradiction; try exact I.
  destruct H as (<- & <- & Hn). apply H'. exact Hn.
Qed.
Lemma agree_ret {A} (a : A) : agree (fun s => Ok (a, s)) (fun s => Ok (a, s)).
Proof. intros s Hs. repeat split. exact Hs. Qed.
Lemma agree_err {A} e : agree (fun _ => @Err (A * list Z) e) (fun _ => @Err (A * src) e).
Proof. intros s Hs. exact I. Qed.
Lemma agree_panic {A} : agree (fun _ => @Panic (A * list Z)) (fun _ => @Panic (A * src)).
Proof. intros s Hs. exact I. Qed.

Lemma agree_u8 : agree rd_u8 srd_u8.
Proof.
  intros s Hs. destruct s as [|c rest]; [exact I|]. inversion Hs as [|? ? Hc Hrest]; subst.
  destruct c as [|b c']; [contradiction|]. cbn [concat app rd_u8]. unfold srd_u8. cbn [read1].
  destruct (Z.leb_spec (len (b :: c')) 1) as [H1|H1].
  - rewrite len_cons in H1. pose proof (len_nonneg c'). destruct c'; [|rewrite len_cons in H1; pose proof (len_nonneg c'); lia].
    repeat split. exact Hrest.
  - change (take 1 (b :: c')) with [b]. change (drop 1 (b :: c')) with c'. repeat split.
    constructor; [|exact Hrest]. intros ->. cbn in H1. lia.
Qed.

Lemma agree_uN n : 0 <= n -> agree (rd_uN n) (srd_uN n).
Proof.
  intros Hn s Hs. unfold rd_uN, srd_uN, rd_fixed.
  destruct (Z.ltb_spec (len (concat s)) n) as [Hlt|Hge].
  - destruct (read_full_short s (src_fuel s n) n [] Hs) as (e & ->); [unfold src_fuel; lia | exact Hlt | exact I].
  - destruct (read_full_ok s (src_fuel s n) n [] Hs) as (s' & -> & Hc & Hn'); [unfold src_fuel; lia | lia |].
    cbn [bind app]. repeat split; assumption.
Qed.

Lemma agree_prefix : agree rd_prefix srd_prefix.
Proof.
  unfold rd_prefix, srd_prefix.
  apply (agree_bind rd_u8 srd_u8 (fun t r =>
    if t =? 0 then Ok (None, r)
    else if (t =? 1) || (t =? 2) then do '(n, r') <- rd_u8 r; Ok (Some n, r')
    else if (t =? 3) || (t =? 4) then do '(n, r') <- rd_u16 r; Ok (Some n, r')
    else if (t =? 5) || (t =? 6) then do '(n, r') <- rd_u32 r; Ok (Some n, r')
    else if (t =? 7) || (t =? 8) then do '(n, r') <- rd_u64 r; Ok (Some n, r')
    else Err ErrInvalidType) (fun t r =>
    if t =? 0 then Ok (None, r)
    else if (t =? 1) || (t =? 2) then do '(n, r') <- srd_u8 r; Ok (Some n, r')
    else if (t =? 3) || (t =? 4) then do '(n, r') <- srd_uN 2 r; Ok (Some n, r')
    else if (t =? 5) || (t =? 6) then do '(n, r') <- srd_uN 4 r; Ok (Some n, r')
    else if (t =? 7) || (t =? 8) then do '(n, r') <- srd_uN 8 r; Ok (Some n, r')
    else Err ErrInvalidType)); [apply agree_u8|].
  intros t. destruct (t =? 0); [apply agree_ret|].
  destruct ((t =? 1) || (t =? 2)); [apply (agree_bind rd_u8 srd_u8 (fun n s => Ok (Some n, s)) (fun n s => Ok (Some n, s))); [apply agree_u8 | intros; apply agree_ret]|].
  destruct ((t =? 3) || (t =? 4)); [apply (agree_bind rd_u16 (srd_uN 2) (fun n s => Ok (Some n, s)) (fun n s => Ok (Some n, s))); [apply agree_uN; lia | intros; apply agree_ret]|].
  destruct ((t =? 5) || (t =? 6)); [apply (agree_bind rd_u32 (srd_uN 4) (fun n s => Ok (Some n, s)) (fun n s => Ok (Some n, s))); [apply agree_uN; lia | intros; apply agree_ret]|].
  destruct ((t =? 7) || (t =? 8)); [apply (agree_bind rd_u64 (srd_uN 8) (fun n s => Ok (Some n, s)) (fun n s => Ok (Some n, s))); [apply agree_uN; lia | intros; apply agree_ret]|].
  apply agree_err.
Qed.

Lemma agree_bytes : agree rd_bytes srd_bytes.
Proof.
  unfold rd_bytes, srd_bytes.
  apply (agree_bind rd_prefix srd_prefix
    (fun ol r => match ol with
      | None => Ok ([], r)
      | Some l => if l =? 0 then Err ErrUnexpectedEOF else if MaxSlice <? l then Err ErrTooLarge
                  else if len r <? l then Err EOF else Ok (take l r, drop l r) end)
    (fun ol r => match ol with
      | None => Ok ([], r)
      | Some l => if l =? 0 then Err ErrUnexpectedEOF else if MaxSlice <? l then Err ErrTooLarge
                  else read_full (src_fuel r l) l r [] end)); [apply agree_prefix|].
  intros [l|]; [|apply agree_ret].
  destruct (l =? 0); [apply agree_err|]. destruct (MaxSlice <? l); [apply agree_err|].
  intros s Hs. destruct (Z.ltb_spec (len (concat s)) l) as [Hlt|Hge].
  - destruct (read_full_short s (src_fuel s l) l [] Hs) as (e & ->); [unfold src_fuel; lia | exact Hlt | exact I].
  - destruct (read_full_ok s (src_fuel s l) l [] Hs) as (s' & -> & Hc & Hn'); [unfold src_fuel; lia | lia |].
    cbn [app]. repeat split; assumption.
Qed.

Lemma agree_strings k : agree (rd_strings k) (srd_strings k).
Proof.
  induction k as [|k IH]; cbn [rd_strings srd_strings]; [apply agree_ret|].
  apply (agree_bind rd_bytes srd_bytes (fun b r => do '(l, r') <- rd_strings k r; Ok (b :: l, r'))
                                       (fun b r => do '(l, r') <- srd_strings k r; Ok (b :: l, r'))); [apply agree_bytes|].
  intros b. apply (agree_bind (rd_strings k) (srd_strings k) (fun l s => Ok (b :: l, s)) (fun l s => Ok (b :: l, s))); [exact IH | intros; apply agree_ret].
Qed.

Lemma agree_strlist : agree rd_strlist srd_strlist.
Proof.
  unfold rd_strlist, srd_strlist.
  apply (agree_bind rd_prefix srd_prefix
    (fun ol r => match ol with None => Ok ([], r)
      | Some n => let l := i64 n in if l <? 0 then Ok ([], r) else if maxAlloc <? l * 16 then Panic else rd_strings (Z.to_nat l) r end)
    (fun ol r => match ol with None => Ok ([], r)
      | Some n => let l := i64 n in if l <? 0 then Ok ([], r) else if maxAlloc <? l * 16 then Panic else srd_strings (Z.to_nat l) r end)); [apply agree_prefix|].
  intros [n|]; [|apply agree_ret]. cbv zeta. destruct (_ <? 0); [apply agree_ret|]. destruct (_ <? _); [apply agree_panic | apply agree_strings].
Qed.

Lemma agree_rd t : agree (rd t) (srd t).
Proof.
  assert (Hint : forall t', agree
      (fun s => do '(x, r) <- (if width t' =? 1 then rd_u8 s else rd_uN (width t') s); Ok (VInt t' (norm_int t' x), r))
      (fun s => do '(x, r) <- (if width t' =? 1 then srd_u8 s else srd_uN (width t') s); Ok (VInt t' (norm_int t' x), r))).
  { intros t'. destruct (width t' =? 1) eqn:E.
    - apply (agree_bind rd_u8 srd_u8 (fun x s => Ok (VInt t' (norm_int t' x), s)) (fun x s => Ok (VInt t' (norm_int t' x), s))); [apply agree_u8 | intros; apply agree_ret].
    - apply (agree_bind (rd_uN (width t')) (srd_uN (width t')) (fun x s => Ok (VInt t' (norm_int t' x), s)) (fun x s => Ok (VInt t' (norm_int t' x), s)));
        [apply agree_uN; destruct t'; cbn; lia | intros; apply agree_ret]. }
  destruct t; try apply Hint; unfold rd, srd.
  - apply (agree_bind rd_bool srd_bool (fun b s => Ok (VBool b, s)) (fun b s => Ok (VBool b, s))); [|intros; apply agree_ret].
    unfold rd_bool, srd_bool. apply (agree_bind rd_u8 srd_u8 (fun b s => Ok (b =? 1, s)) (fun b s => Ok (b =? 1, s))); [apply agree_u8 | intros; apply agree_ret].
  - apply (agree_bind rd_bytes srd_bytes (fun b s => Ok (VBytes TBytes b, s)) (fun b s => Ok (VBytes TBytes b, s))); [apply agree_bytes | intros; apply agree_ret].
  - apply (agree_bind rd_bytes srd_bytes (fun b s => Ok (VBytes TString b, s)) (fun b s => Ok (VBytes TString b, s))); [apply agree_bytes | intros; apply agree_ret].
  - apply (agree_bind rd_strlist srd_strlist (fun l s => Ok (VStrList l, s)) (fun l s => Ok (VStrList l, s))); [apply agree_strlist | intros; apply agree_ret].
Qed.

Theorem readers_agree ts : agree (rd_seq ts) (srd_seq ts).
Proof.
  induction ts as [|t ts IH]; cbn [rd_seq srd_seq]; [apply agree_ret|].
  apply (agree_bind (rd t) (srd t) (fun v r => do '(vs, r') <- rd_seq ts r; Ok (v :: vs, r'))
                                   (fun v r => do '(vs, r') <- srd_seq ts r; Ok (v :: vs, r'))); [apply agree_rd|].
  intros v. apply (agree_bind (rd_seq ts) (srd_seq ts) (fun vs s => Ok (v :: vs, s)) (fun vs s => Ok (v :: vs, s))); [exact IH | intros; apply agree_ret].
Qed.

(* the stream reader round-trips for every split into non-empty short reads *)
Theorem srd_seq_enc vs s :
  forallb wfv vs = true -> no_empty s -> (exists rest, concat s = enc_seq vs ++ rest) ->
  exists s', srd_seq (map ty_of vs) s = Ok (vs, s') /\ enc_seq vs ++ concat s' = concat s.
Proof.
  intros Hwf Hs (rest & Hc). pose proof (readers_agree (map ty_of vs) s Hs) as H.
  rewrite Hc, rd_seq_enc in H by exact Hwf.
  destruct (srd_seq (map ty_of vs) s) as [[vs' s']| |]; try contradiction.
  destruct H as (<- & E & _). exists s'. split; [reflexivity|]. rewrite E, Hc. reflexivity.
Qed.

Theorem truncation_is_error_stream vs k s :
  forallb wfv vs = true -> 0 <= k < len (enc_seq vs) -> no_empty s ->
  concat s = take k (enc_seq vs) -> exists e, srd_seq (map ty_of vs) s = Err e.
Proof.
  intros Hwf Hk Hs Hc. destruct (truncation_is_error vs k Hwf Hk) as (e & E).
  pose proof (readers_agree (map ty_of vs) s Hs) as H. rewrite Hc, E in H.
  destruct (srd_seq (map ty_of vs) s) as [[? ?]|e'|]; try contradiction. eauto.
Qed.
