(* Proofs/Dns.v -- C07: the DNS framing of Model/Dns.v is lossless for EVERY domain, every random
   draw, both roles, every payload. *)
From XMT Require Import Base.Prelude Base.BitLemmas Model.Dns.
From Coq Require Import ZifyBool.
Ltac Zify.zify_post_hook ::= Z.div_mod_to_equations.

Lemma drop_app_exact {A} (a b : list A) n : len a = n -> drop n (a ++ b) = b.
Proof. intros <-. unfold drop, len. rewrite Nat2Z.id, skipn_app, Nat.sub_diag, skipn_all. reflexivity. Qed.
Lemma take_app_exact {A} (a b : list A) n : len a = n -> take n (a ++ b) = a.
Proof. intros <-. unfold take, len. rewrite Nat2Z.id, firstn_app, Nat.sub_diag, firstn_all. cbn [firstn]. apply app_nil_r. Qed.
Lemma take_drop {A} n (l : list A) : take n l ++ drop n l = l.
Proof. unfold take, drop. apply firstn_skipn. Qed.
Lemma len_take {A} n (l : list A) : 0 <= n -> len (take n l) = Z.min n (len l).
Proof. intros. unfold take, len. rewrite firstn_length. lia. Qed.
Lemma len_drop {A} n (l : list A) : 0 <= n -> len (drop n l) = Z.max 0 (len l - n).
Proof. intros. unfold drop, len. rewrite skipn_length. lia. Qed.

(* ---- labels --------------------------------------------------------------------------------- *)
Definition good_label (l : list Z) : Prop := 1 <= len l <= 63.
Definition enc_label (l : list Z) : list Z := len l :: l.

(* whatever the domain, the encoder writes a sequence of labels of 1..63 bytes *)
Lemma dns_labels_good d : exists ls, Forall good_label ls /\ dns_labels d = flat_map enc_label ls.
Proof.
  unfold dns_labels. generalize (split_dots d []) as parts.
  induction parts as [|e r [ls [Hg He]]].
  - exists []. split; [constructor | reflexivity].
  - cbn [flat_map]. unfold dns_label at 1. destruct e as [|z e'].
    + cbn [is_nil app]. exists ls. split; assumption.
    + cbn [is_nil]. exists (take 63 (z :: e') :: ls). split.
      * constructor; [|assumption]. unfold good_label. rewrite len_take by lia.
        unfold len. cbn [length]. lia.
      * cbn [flat_map]. rewrite He. reflexivity.
Qed.

Lemma len_enc_label l : len (enc_label l) = 1 + len l.
Proof. unfold enc_label. apply len_cons. Qed.

Lemma walk_labels lenb : forall ls fuel i s tail,
  Forall good_label ls -> (length ls < fuel)%nat -> 0 <= i < 64 -> i < lenb -> 0 <= s ->
  s + len (flat_map enc_label ls) < lenb ->
  dns_walk fuel lenb i s (flat_map enc_label ls ++ 0 :: tail) = Ok (s + len (flat_map enc_label ls) + 1, tail).
Proof.
  induction ls as [|l r IH]; intros fuel i s tail Hg Hf Hi Hil Hs Hlen;
    (destruct fuel as [|f]; [cbn in Hf; lia|]).
  - cbn [flat_map app dns_walk]. cbn [flat_map] in Hlen. rewrite len_nil in Hlen. rewrite ?len_nil.
    replace (i <? 64) with true by lia. cbn [negb].
    replace ((lenb <=? i) || (lenb <=? s)) with false by lia.
    cbn [rd bind]. replace (0 =? 0) with true by reflexivity.
    change (drop 1 (0 :: tail)) with tail. f_equal. f_equal. change (len (@nil Z)) with 0. lia.
  - inversion Hg as [|? ? Hl Hr]; subst. unfold good_label in Hl.
    cbn [flat_map] in *. rewrite len_app, len_enc_label in Hlen.
    pose proof (len_nonneg (flat_map enc_label r)) as Hnn.
    rewrite <- app_assoc. unfold enc_label at 1.
    change ((len l :: l) ++ flat_map enc_label r ++ 0 :: tail) with (len l :: (l ++ flat_map enc_label r ++ 0 :: tail)).
    cbn [dns_walk].
    replace (i <? 64) with true by lia. cbn [negb].
    replace ((lenb <=? i) || (lenb <=? s)) with false by lia.
    cbn [rd bind]. replace (len l =? 0) with false by lia.
    change (len l :: (l ++ flat_map enc_label r ++ 0 :: tail)) with ((len l :: l) ++ flat_map enc_label r ++ 0 :: tail).
    assert (Hcons : len (len l :: l) = len l + 1) by (rewrite len_cons; lia).
    rewrite (drop_app_exact (len l :: l) _ (len l + 1) Hcons).
    rewrite IH; [| assumption | cbn [length] in Hf; lia | lia | lia | lia | lia].
    f_equal. f_equal. rewrite len_app, len_enc_label. lia.
Qed.

(* ---- header --------------------------------------------------------------------------------- *)
Lemma header_fields server i0 i1 t tail : 0 <= t < 65536 ->
  let b := dns_header server i0 i1 t ++ tail in
  rd16 (drop 4 b) = Ok 1 /\ rd16 (drop 6 b) = Ok (if server then 1 else 0) /\ rd16 (drop 10 b) = Ok t
  /\ drop 12 b = tail /\ len b = 12 + len tail.
Proof.
  intros Ht. cbn zeta. unfold drop.
  change (Z.to_nat 4) with 4%nat. change (Z.to_nat 6) with 6%nat.
  change (Z.to_nat 10) with 10%nat. change (Z.to_nat 12) with 12%nat.
  destruct server; unfold dns_header; cbn [app skipn]; unfold rd16, drop; change (Z.to_nat 1) with 1%nat;
    cbn [skipn rd bind]; (repeat split; try reflexivity; [f_equal; unfold u8; lia | rewrite !len_cons; lia]).
Qed.

Lemma len_header server i0 i1 t : len (dns_header server i0 i1 t) = 12.
Proof. destruct server; reflexivity. Qed.

(* ---- answers -------------------------------------------------------------------------------- *)
Lemma answers_ok lenb (server : bool) r s tail :
  s + (if server then 16 else 0) + 2 <= lenb ->
  dns_answers (if server then 1 else 0)%nat lenb s ((if server then dns_answer r else @nil Z) ++ tail)
  = Ok (s + (if server then 16 else 0), tail).
Proof.
  intros H. destruct server.
  - unfold dns_answer. cbn [dns_answers app]. unfold drop at 1. change (Z.to_nat 10) with 10%nat. cbn [skipn].
    replace (lenb <=? s + 10 + 1) with false by lia.
    unfold rd16, drop. change (Z.to_nat 1) with 1%nat. cbn [skipn rd bind].
    change (0 * 256 + 4) with 4. change (Z.to_nat (4 + 2)) with 6%nat. cbn [skipn].
    f_equal. f_equal. lia.
  - cbn [dns_answers app]. f_equal. f_equal. lia.
Qed.

(* ---- segments ------------------------------------------------------------------------------- *)
Lemma len_seg d : len (dns_seg d) = 12 + len d.
Proof. unfold dns_seg. rewrite len_app. reflexivity. Qed.

Lemma drop10 {A} (a0 a1 a2 a3 a4 a5 a6 a7 a8 a9 : A) l :
  drop 10 (a0 :: a1 :: a2 :: a3 :: a4 :: a5 :: a6 :: a7 :: a8 :: a9 :: l) = l.
Proof. reflexivity. Qed.
Lemma take6 {A} (a0 a1 a2 a3 a4 a5 : A) l :
  take 6 (a0 :: a1 :: a2 :: a3 :: a4 :: a5 :: l) = [a0; a1; a2; a3; a4; a5].
Proof. reflexivity. Qed.
Lemma drop2 {A} (a0 a1 : A) l : drop 2 (a0 :: a1 :: l) = l.
Proof. reflexivity. Qed.
Lemma drop1 {A} (a0 : A) l : drop 1 (a0 :: l) = l.
Proof. reflexivity. Qed.

Lemma additional_segs lenb : forall segs s acc tail,
  Forall (fun d => len d <= 256) segs -> 0 <= s -> s + len (flat_map dns_seg segs) <= lenb ->
  dns_additional (length segs) lenb s (flat_map dns_seg segs ++ tail) acc
  = Ok (acc ++ concat segs, s + len (flat_map dns_seg segs), tail).
Proof.
  induction segs as [|d r IH]; intros s acc tail Hg Hs Hl.
  - cbn [length flat_map dns_additional app concat]. change (len (@nil Z)) with 0. rewrite app_nil_r.
    f_equal. f_equal. f_equal. lia.
  - inversion Hg as [|? ? Hd Hr]; subst.
    cbn [flat_map] in *. rewrite len_app, len_seg in Hl.
    pose proof (len_nonneg d) as Hd0. pose proof (len_nonneg (flat_map dns_seg r)) as Hr0.
    rewrite <- app_assoc. set (X := flat_map dns_seg r ++ tail).
    change (dns_seg d ++ X)
      with (192 :: 12 :: 0 :: 10 :: 0 :: 1 :: 0 :: 0 :: 0 :: 0 :: u8 (len d / 256) :: u8 (len d) :: (d ++ X)).
    cbn [length dns_additional].
    replace (lenb <=? s + 6) with false by lia.
    rewrite take6. change (list_eqb Z.eqb [192; 12; 0; 10; 0; 1] seg_magic) with true. cbn [negb].
    replace (lenb <=? s + 10 + 1) with false by lia.
    rewrite !drop10. unfold rd16. rewrite drop1. cbn [rd bind].
    assert (Hi : u8 (len d / 256) * 256 + u8 (len d) = len d) by (unfold u8; lia).
    rewrite !Hi. rewrite !drop2.
    replace (lenb <? s + 12 + len d) with false by lia.
    rewrite take_app_exact, drop_app_exact by reflexivity.
    unfold X. rewrite IH; [| assumption | lia | lia].
    cbn [concat]. rewrite <- app_assoc. f_equal. f_equal. f_equal.
    rewrite len_app, len_seg. lia.
Qed.

(* ---- chunks of 256 -------------------------------------------------------------------------- *)
Lemma chunks256_spec : forall fuel x, (length x <= fuel)%nat ->
  Forall (fun d => len d <= 256) (chunks256 fuel x) /\ concat (chunks256 fuel x) = x
  /\ (length (chunks256 fuel x) <= fuel)%nat /\ (x <> [] -> chunks256 fuel x <> []).
Proof.
  induction fuel as [|fuel IH]; intros x Hl.
  - destruct x; [|cbn in Hl; lia]. cbn [chunks256 concat length]. repeat split; try constructor; congruence.
  - destruct x as [|a x'].
    { cbn [chunks256 concat length]. repeat split; try constructor; try lia; congruence. }
    cbn [chunks256].
    assert (Hlx : (0 < length (a :: x'))%nat) by (cbn [length]; lia).
    set (x := a :: x') in *.
    destruct (IH (drop 256 x)) as [H1 [H2 [H3 _]]].
    { unfold drop. rewrite skipn_length. change (Z.to_nat 256) with 256%nat. lia. }
    repeat split.
    + constructor; [|assumption]. rewrite len_take by lia. lia.
    + cbn [concat]. rewrite H2. apply take_drop.
    + cbn [length]. lia.
    + discriminate.
Qed.

(* ---- one packet ----------------------------------------------------------------------------- *)
Lemma len_packet server ls r c :
  len (dns_packet server (flat_map enc_label ls) r c)
  = 12 + len (flat_map enc_label ls) + 5 + (if server then 16 else 0)
    + len (flat_map dns_seg (chunks256 (length c) c)).
Proof.
  unfold dns_packet. rewrite !len_app, len_header.
  change (len dns_question_end) with 5.
  destruct server; [change (len (dns_answer r)) with 16 | rewrite len_nil]; lia.
Qed.

Lemma len_segs_pos segs : segs <> [] -> 12 <= len (flat_map dns_seg segs).
Proof.
  destruct segs as [|d r]; [congruence|]. intros _. cbn [flat_map]. rewrite len_app, len_seg.
  pose proof (len_nonneg d). pose proof (len_nonneg (flat_map dns_seg r)). lia.
Qed.

Lemma decode_packet_ok server ls r c rest :
  Forall good_label ls -> c <> [] -> len c <= 2048 ->
  dns_decode_packet (dns_packet server (flat_map enc_label ls) r c ++ rest)
  = Ok (c, len (dns_packet server (flat_map enc_label ls) r c)).
Proof.
  intros Hg Hc Hlc.
  rewrite (len_packet server ls r c).
  set (L := flat_map enc_label ls) in *.
  destruct (chunks256_spec (length c) c (le_n _)) as [Hs1 [Hs2 [Hs3 Hs4]]].
  set (segs := chunks256 (length c) c) in *.
  assert (Hseg : 12 <= len (flat_map dns_seg segs)) by (apply len_segs_pos; auto).
  assert (Ht : 0 <= len segs < 65536) by (unfold len in *; lia).
  pose proof (len_nonneg L) as HL0. pose proof (len_nonneg rest) as Hrest0.
  unfold dns_packet in *. fold segs.
  set (A := if server then dns_answer r else @nil Z) in *.
  rewrite <- !app_assoc.
  set (tail0 := L ++ dns_question_end ++ A ++ flat_map dns_seg segs ++ rest).
  destruct (header_fields server (r 0) (r 1) (len segs) tail0 Ht) as [Hq [Hcn [Htt [Hd12 Hlb]]]].
  unfold dns_decode_packet.
  set (b := dns_header server (r 0) (r 1) (len segs) ++ tail0) in *.
  assert (HlenA : len A = if server then 16 else 0) by (unfold A; destruct server; reflexivity).
  assert (Hlt0 : len tail0 = len L + 5 + len A + len (flat_map dns_seg segs) + len rest).
  { unfold tail0. rewrite !len_app. change (len dns_question_end) with 5. lia. }
  pose proof (len_nonneg tail0) as Ht0.
  assert (HA0 : len A = 16 \/ len A = 0) by (destruct server; [left | right]; exact HlenA).
  replace (len b <? 12) with false by lia.
  rewrite Hq, Hcn, Htt. cbn [bind]. rewrite Hd12.
  change (Z.to_nat 1) with 1%nat. cbn [dns_questions].
  unfold tail0 at 1 2. unfold dns_question_end.
  change (L ++ [0; 0; 1; 0; 1] ++ A ++ flat_map dns_seg segs ++ rest)
    with (L ++ 0 :: ([0; 1; 0; 1] ++ A ++ flat_map dns_seg segs ++ rest)).
  unfold L at 1 2. rewrite walk_labels; [| assumption | | lia | lia | lia | fold L; lia].
  2:{ (* fuel: one step per label, every label holds at least two bytes of the buffer *)
      rewrite app_length.
      generalize (length (0 :: [0; 1; 0; 1] ++ A ++ flat_map dns_seg segs ++ rest)) as N.
      clear. intros N. induction ls as [|l q IH]; cbn [flat_map length app]; [lia|].
      rewrite app_length. unfold enc_label at 1. cbn [length]. lia. }
  fold L. cbn [bind].
  replace (len b <=? 12 + len L + 1 + 4) with false by lia.
  rewrite drop_app_exact by reflexivity.
  replace (Z.to_nat (if server then 1 else 0)) with (if server then 1%nat else 0%nat) by (destruct server; reflexivity).
  cbn [bind]. unfold A. rewrite answers_ok by (fold A; lia). fold A. cbn [bind].
  replace (Z.to_nat (len segs)) with (length segs) by (unfold len; rewrite Nat2Z.id; reflexivity).
  rewrite additional_segs; [| assumption | lia | lia].
  cbn [bind app]. rewrite Hs2. f_equal. f_equal. lia.
Qed.

(* ---- all packets ---------------------------------------------------------------------------- *)
Lemma encode_decode_f server ls rnd :
  Forall good_label ls ->
  forall fuel b k fuel', (length b <= fuel)%nat ->
  (length (dns_encode_f fuel server (flat_map enc_label ls) rnd k b) < fuel')%nat ->
  dns_decode_f fuel' (dns_encode_f fuel server (flat_map enc_label ls) rnd k b) = Ok b.
Proof.
  intros Hg. induction fuel as [|fuel IH]; intros b k fuel' Hf Hf'.
  - destruct b; [|cbn in Hf; lia]. destruct fuel'; [cbn in Hf'; lia|]. reflexivity.
  - destruct fuel' as [|fuel']; [lia|].
    cbn [dns_encode_f] in *. destruct b as [|a b'] eqn:Eb; [reflexivity|]. rewrite <- Eb in *.
    assert (Hnb : is_nil b = false) by (rewrite Eb; reflexivity). rewrite Hnb in *.
    set (c := take 2048 b) in *.
    assert (Hc : c <> []) by (unfold c, take; change (Z.to_nat 2048) with 2048%nat; rewrite Eb; discriminate).
    assert (Hlc : len c <= 2048) by (unfold c; rewrite len_take by lia; lia).
    set (pkt := dns_packet server (flat_map enc_label ls) (rnd k) c) in *.
    assert (Hpl : 12 <= len pkt).
    { unfold pkt. rewrite len_packet. pose proof (len_nonneg (flat_map enc_label ls)).
      pose proof (len_nonneg (flat_map dns_seg (chunks256 (length c) c))). destruct server; lia. }
    cbn [dns_decode_f].
    assert (Hnn : is_nil (pkt ++ dns_encode_f fuel server (flat_map enc_label ls) rnd (k + 1) (drop 2048 b)) = false).
    { destruct pkt; [change (len (@nil Z)) with 0 in Hpl; lia | reflexivity]. }
    rewrite Hnn.
    unfold pkt. rewrite decode_packet_ok by assumption. fold pkt. cbn [bind].
    rewrite drop_app_exact by reflexivity.
    rewrite IH.
    + cbn [bind]. f_equal. apply take_drop.
    + unfold drop. rewrite skipn_length. change (Z.to_nat 2048) with 2048%nat. rewrite Eb in *. cbn [length] in *. lia.
    + rewrite app_length in Hf'. unfold len in Hpl. lia.
Qed.

(* for EVERY domain (any bytes, any dots), both roles, every random draw, every payload *)
Theorem dns_roundtrip :
  forall server domain rnd x, dns_decode (dns_encode server domain rnd x) = Ok x.
Proof.
  intros server domain rnd x. unfold dns_decode, dns_encode, dns_encode_with.
  destruct (dns_labels_good domain) as [ls [Hg ->]].
  apply encode_decode_f; [assumption | lia | lia].
Qed.

(* ---- the encoder before the repair (commit facc2eb) ------------------------------------------ *)
(* a domain is legal when every label has 1..63 bytes: there the repaired encoder writes exactly what
   the old one wrote *)
Definition legal_domain (d : list Z) : Prop := Forall good_label (split_dots d []).

Lemma old_labels_legal d : legal_domain d -> dns_labels_old d = dns_labels d.
Proof.
  unfold legal_domain, dns_labels_old, dns_labels. generalize (split_dots d []) as parts.
  induction 1 as [|e r He Hr IH]; [reflexivity|].
  cbn [flat_map]. rewrite IH. f_equal. unfold good_label in He.
  unfold dns_label_old, dns_label. destruct e as [|z e']; [rewrite len_nil in He; lia|].
  cbn [is_nil]. replace (256 <? len (z :: e')) with false by lia.
  assert (H63 : take 63 (z :: e') = z :: e') by (unfold take, len in *; apply firstn_all2; lia).
  assert (H255 : take 255 (z :: e') = z :: e') by (unfold take, len in *; apply firstn_all2; lia).
  rewrite H63, H255. f_equal. unfold u8. lia.
Qed.

Theorem dns_roundtrip_old_legal :
  forall server domain rnd x, legal_domain domain ->
  dns_decode (dns_encode_with server (dns_labels_old domain) rnd x) = Ok x.
Proof.
  intros. rewrite old_labels_legal by assumption. apply dns_roundtrip.
Qed.

(* the defect that was repaired: with the old label loop, "example.com." (trailing dot), "a..b" and a
   64-byte label produce a wire the decoder rejects, here for the payload "hello" *)
Definition hello : list Z := [104; 101; 108; 108; 111].
Definition dom_trailing_dot : list Z := [101; 120; 97; 109; 112; 108; 101; 46; 99; 111; 109; 46].
Definition dom_empty_label : list Z := [97; 46; 46; 98].
Definition dom_long_label : list Z := repeat 97 64 ++ [46; 99; 111; 109].

Theorem dns_roundtrip_bad_label_refuted :
  exists d x, dns_decode (dns_encode_with false (dns_labels_old d) (fun _ _ => 0) x) <> Ok x.
Proof. exists dom_trailing_dot, hello. vm_compute. discriminate. Qed.

Example dns_old_rejects :
  map (fun d => is_ok (dns_decode (dns_encode_with false (dns_labels_old d) (fun _ _ => 7) hello)))
      [dom_trailing_dot; dom_empty_label; dom_long_label] = [false; false; false]
  /\ map (fun d => dns_decode (dns_encode false d (fun _ _ => 7) hello))
      [dom_trailing_dot; dom_empty_label; dom_long_label] = [Ok hello; Ok hello; Ok hello].
Proof. split; vm_compute; reflexivity. Qed.

(* ---- the output the reader has written: on success it is the decoded data ------------------- *)
Lemma dns_out_f_ok : forall fuel b x, dns_decode_f fuel b = Ok x -> dns_out_f fuel b = x.
Proof.
  induction fuel as [|fuel IH]; intros b x H; [discriminate|].
  cbn [dns_decode_f dns_out_f] in *. destruct (is_nil b); [injection H as <-; reflexivity|].
  destruct (dns_decode_packet b) as [[d n]| |]; cbn [bind] in H; try discriminate.
  destruct (dns_decode_f fuel (drop n b)) as [r| |] eqn:Er; cbn [bind] in H; try discriminate.
  injection H as <-. rewrite (IH _ _ Er). reflexivity.
Qed.
Lemma dns_out_ok b x : dns_decode b = Ok x -> dns_out b = x.
Proof. apply dns_out_f_ok. Qed.
