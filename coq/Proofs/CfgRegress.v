(* Proofs/CfgRegress.v -- the defects repaired by fix: commits (C08, C09), kept as refuted statements
   about COPIES of the old definitions (the expressions of the pinned tree), so that the regressions
   stay documented next to the proofs about the repaired model. *)
From XMT Require Import Base.Prelude Model.Cfg Model.CfgSettings.

(* C08, fix 4635786: `return i + 3 + int(c[i+2]) | int(c[i+1])<<8` -- in Go `|` binds like `+` *)
Definition old_stride16 (i hdr hi lo : Z) : Z := Z.lor (i + hdr + lo) (Z.shiftl hi 8).
Lemma old_stride16_refuted : exists i hi lo, 0 <= i /\ 0 <= hi < 256 /\ 0 <= lo < 256 /\
  old_stride16 i 3 hi lo <> i + 3 + w16 hi lo.
Proof. exists 11, 1, 255. vm_compute. repeat split; congruence. Qed.
(* the first offset at which a 256-byte host goes wrong: offset + 3 + low byte reaches 256 *)
Lemma old_stride16_refuted_253 : old_stride16 253 3 1 0 = 256 /\ 253 + 3 + w16 1 0 = 512.
Proof. vm_compute. split; reflexivity. Qed.

(* C09, fix 05b4f40: host / xor `v > n` where the data is c[i+3 : v+3] *)
Definition old_host (c : list Z) (i n : Z) : res (list Z) :=
  if n <=? i + 3 then Err EInvalid else
  do b1 <- idx c (i + 1); do b2 <- idx c (i + 2);
  let v := w16 b1 b2 + i in
  if (n <? v) || (v <? i) then Err EInvalid else slice c (i + 3) (v + 3).
Lemma old_host_refuted : exists c, bytes_ok c = true /\ old_host c 0 (len c) = Panic.
Proof. exists [160; 0; 6; 97; 98; 99; 100; 101]. vm_compute. split; reflexivity. Qed.

(* C09, fix 056da82: the WC2 header walk of next read c[n+1] with only n < len(c) checked *)
Fixpoint old_wc2_walk (c : list Z) (x : nat) (n : Z) : res Z :=
  match x with
  | O => Ok n
  | S x' =>
    if (n <? len c) && (0 <? n) then
      do a <- idx c n; do b <- idx c (n + 1); old_wc2_walk c x' (n + (a + b + 2))
    else Ok n
  end.
Lemma old_wc2_walk_refuted : exists c, bytes_ok c = true /\ old_wc2_walk c 1 8 = Panic.
Proof. exists [177; 0; 0; 0; 0; 0; 0; 1; 5]. vm_compute. split; reflexivity. Qed.

(* C09, fix 2c0fa72: validate accepted the percent selectors, build did not *)
Definition old_validate_selpct (n i : Z) : res unit := if n <=? i + 1 then Err EInvalid else Ok tt.
Lemma old_selpct_refuted : old_validate_selpct 2 0 = Ok tt /\ build true [168; 5] = Err EInvalid.
Proof. vm_compute. split; reflexivity. Qed.

(* C08, fix 7950485: ConnectTLSCerts copied key[:p] (p = certificate length) *)
Definition old_tlscerts_key (pem key : list Z) : res (list Z) := slice key 0 (clamp16 (len pem)).
Lemma old_tlscerts_refuted : exists pem key, old_tlscerts_key pem key = Panic.
Proof. exists [1; 2; 3], [4]. vm_compute. reflexivity. Qed.

(* C08, fix 3f3918c: the DNS name loop compared its counter x with the offsets (x > n, x < i) *)
Definition old_dns_guard (x n i : Z) : bool := (n <? x) || (x <? i).
Lemma old_dns_refuted : exists x n i, (* one name, setting at offset 2, ending at 10 *) x = 1 /\ i = 2 /\ n = 10 /\ old_dns_guard x n i = true.
Proof. exists 1, 10, 2. vm_compute. repeat split. Qed.

(* C08, fix 84a9616: a tls-ca setting with an empty CA is 4 bytes; the old guard was i+4 >= n *)
Definition old_tlsca_guard (n i : Z) : bool := n <=? i + 4.
Lemma old_tlsca_refuted : old_tlsca_guard (len (enc (STLSExCA 0 []))) 0 = true
  /\ exists r, build true (enc (STLSExCA 0 [])) = Ok r.
Proof. vm_compute. split; [reflexivity|eexists; reflexivity]. Qed.
