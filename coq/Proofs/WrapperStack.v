(* Proofs/WrapperStack.v -- C07: every profile's wrapper stack, transform and the full send/receive
   path are lossless.  zlib, gzip and the AES block function are not XMT's code: they are Section
   variables with the hypotheses stated below (they appear in the statements of the theorems). *)
From XMT Require Import Base.Prelude Model.Cbk Model.Dns Model.Wrappers
  Proofs.Wrappers Proofs.Cbk Proofs.Dns.

Section Profile.
  (* compress/zlib and compress/gzip: Writer then Reader give the input back *)
  Variables zlib_enc gzip_enc : list Z -> list Z.
  Variables zlib_dec gzip_dec : list Z -> res (list Z).
  Hypothesis zlib_ok : lossless {| w_enc := zlib_enc; w_dec := zlib_dec |}.
  Hypothesis gzip_ok : lossless {| w_enc := gzip_enc; w_dec := gzip_dec |}.
  (* crypto/aes: Encrypt fills a block with bytes (no inverse is needed: CFB only encrypts) *)
  Variable aes : list Z -> list Z -> list Z.
  Hypothesis aes_bytes : forall key, block_fn_bytes (aes key).

  (* everything a profile can stack (cfg.WrapHex, WrapBase64, WrapZlib, WrapGzip, WrapXOR, WrapAES, WrapCBK) *)
  Inductive welem : Type :=
  | WHex | WB64 | WZlib | WGzip
  | WXor (key : list Z)
  | WAes (key iv : list Z)
  | WCbk (sz : nat) (offs : list Z) (consts : nat -> kconst).

  Definition welem_w (e : welem) : wrapper :=
    match e with
    | WHex => hex_w
    | WB64 => b64_w
    | WZlib => {| w_enc := zlib_enc; w_dec := zlib_dec |}
    | WGzip => {| w_enc := gzip_enc; w_dec := gzip_dec |}
    | WXor key => xor_w key
    | WAes key iv => cfb_w (aes key) iv
    | WCbk sz offs consts => cbk_w sz offs consts
    end.

  (* non-empty key material; CBK: the block size the code allows and step constants in 0..7
     (the table bytes and shuffle offsets are arbitrary) *)
  Definition welem_ok (e : welem) : Prop :=
    match e with
    | WXor key => key <> [] /\ bytes key
    | WAes _ iv => iv <> []
    | WCbk sz _ consts => (16 <= sz <= 255)%nat /\ forall k, Forall valid_step (snd (consts k))
    | _ => True
    end.

  Lemma welem_lossless e : welem_ok e -> lossless (welem_w e).
  Proof.
    destruct e; cbn [welem_ok welem_w]; intros H.
    - apply hex_lossless.
    - apply b64_lossless.
    - exact zlib_ok.
    - exact gzip_ok.
    - destruct H. apply xor_lossless; assumption.
    - apply cfb_lossless; [assumption | apply aes_bytes].
    - destruct H as [[H1 H2] H3]. apply cbk_lossless; assumption.
  Qed.

  Theorem profile_stack_roundtrip :
    forall es, Forall welem_ok es -> forall x, bytes x ->
    unwrap_stack (map welem_w es) (wrap_stack (map welem_w es) x) = Ok x.
  Proof.
    intros es Hes x Hx. apply stack_roundtrip; [|assumption].
    apply Forall_forall. intros w Hw. apply in_map_iff in Hw. destruct Hw as [e [<- He]].
    apply welem_lossless. rewrite Forall_forall in Hes. auto.
  Qed.

  (* the transform, for every shift, every domain list, every pick and every random draw *)
  Theorem transform_roundtrip :
    forall t x w, bytes x -> tr_sends t x w -> tr_dec t w = Ok x.
  Proof.
    intros [|s|server ds] x w Hx Hw; cbn [tr_sends tr_dec] in *.
    - subst. reflexivity.
    - subst. apply b64shift_roundtrip. assumption.
    - destruct Hw as [d [rnd [_ ->]]]. apply dns_roundtrip.
  Qed.

  (* the full path: marshal -> stack -> transform -> connection -> transform -> stack -> unmarshal *)
  Variable packet : Type.
  Variable marshal : packet -> list Z.
  Variable unmarshal : list Z -> res packet.
  Hypothesis marshal_bytes : forall p, bytes (marshal p).
  Hypothesis unmarshal_marshal : forall p, unmarshal (marshal p) = Ok p.      (* property C01 *)

  Theorem full_path_roundtrip :
    forall es t p w, Forall welem_ok es ->
    path_sends packet marshal (map welem_w es) t p w ->
    path_recv packet unmarshal (map welem_w es) t w = Ok p.
  Proof.
    intros es t p w Hes Hs. unfold path_sends, path_recv in *.
    assert (Hl : Forall lossless (map welem_w es)).
    { apply Forall_forall. intros v Hv. apply in_map_iff in Hv. destruct Hv as [e [<- He]].
      apply welem_lossless. rewrite Forall_forall in Hes. auto. }
    destruct (stack_roundtrip _ Hl (marshal p) (marshal_bytes p)) as [Hb Hd].
    rewrite (transform_roundtrip t _ w Hb Hs). cbn [bind]. rewrite Hd. cbn [bind].
    apply unmarshal_marshal.
  Qed.
End Profile.

(* ==== the buffer pool as state: histories of sends and receives ================================= *)
Definition pool_inv (p : pool) : Prop := Forall (fun b => b = []) p.

Lemma remove_nth_inv {A} (P : A -> Prop) : forall n l, Forall P l -> Forall P (remove_nth n l).
Proof.
  induction n as [|n IH]; intros [|x l] H; cbn [remove_nth]; try constructor.
  - inversion H; assumption.
  - inversion H; assumption.
  - apply IH. inversion H; assumption.
Qed.

Lemma pool_get_inv pick p : pool_inv p -> fst (pool_get pick p) = [] /\ pool_inv (snd (pool_get pick p)).
Proof.
  intros H. unfold pool_get. destruct (nth_error p pick) as [b|] eqn:E; cbn [fst snd].
  - split; [|apply remove_nth_inv; assumption].
    unfold pool_inv in H. rewrite Forall_forall in H. apply H. eapply nth_error_In; eassumption.
  - split; [reflexivity | assumption].
Qed.

Lemma return_buffer_inv b p : pool_inv p -> pool_inv (return_buffer b p).
Proof. intros. constructor; [reflexivity | assumption]. Qed.

Lemma pool_clean_inv p : pool_clean p = true <-> pool_inv p.
Proof.
  unfold pool_clean, pool_inv. rewrite forallb_forall, Forall_forall.
  split; intros H b Hb; specialize (H b Hb); destruct b; (reflexivity || discriminate).
Qed.

Section PoolPath.
  Variable packet : Type.
  Variable marshal : packet -> list Z.
  Variable unmarshal : list Z -> res packet.
  Variable ws : list wrapper.
  Variable t : tr.

  Notation wr := (write_packet packet marshal ws t).
  Notation rd := (read_packet packet unmarshal ws t true).

  (* every return path of writePacket leaves only empty buffers in the pool *)
  Lemma write_packet_inv enc pick p n : pool_inv p -> pool_inv (fst (wr enc pick p n)).
  Proof.
    intros H. unfold write_packet. destruct (direct ws t); [assumption|].
    destruct (pool_get_inv pick p H) as [_ H1]. destruct (pool_get pick p) as [b p1]. cbn [fst snd] in *.
    apply return_buffer_inv. assumption.
  Qed.

  (* ... and it sends the pure encoding: the buffer it took was empty *)
  Lemma write_packet_pure enc pick p n : pool_inv p ->
    snd (wr enc pick p n) = if direct ws t then marshal n else enc (wrap_stack ws (marshal n)).
  Proof.
    intros H. unfold write_packet. destruct (direct ws t); [reflexivity|].
    destruct (pool_get_inv pick p H) as [Hb _]. destruct (pool_get pick p) as [b p1]. cbn [fst snd] in *.
    subst b. reflexivity.
  Qed.

  (* every return path of readPacket - stream empty, transform failed (with whatever it had already
     written), unwrap or unmarshal failed, success - for ANY bytes on the connection *)
  Lemma read_packet_inv pick1 pick2 p conn : pool_inv p -> pool_inv (fst (fst (rd pick1 pick2 p conn))).
  Proof.
    intros H. unfold read_packet. destruct (direct ws t).
    { destruct (unmarshal conn); assumption. }
    destruct (pool_get_inv pick1 p H) as [_ H1]. destruct (pool_get pick1 p) as [b p1]. cbn [fst snd] in *.
    destruct (is_nil conn). { cbn [fst]. apply return_buffer_inv. assumption. }
    assert (F : forall buf pl, pool_inv pl ->
      pool_inv (fst (fst (match (do plain <- unwrap_stack ws buf; unmarshal plain) with
                          | Ok n => (return_buffer buf pl, ROk, Ok n)
                          | r => (return_buffer buf pl, RLater, r)
                          end)))).
    { intros buf pl Hpl. destruct (do plain <- unwrap_stack ws buf; unmarshal plain); cbn [fst];
        apply return_buffer_inv; assumption. }
    destruct t as [|s|server ds]; [apply F; assumption | |].
    - destruct (pool_get_inv pick2 p1 H1) as [_ H2]. destruct (pool_get pick2 p1) as [o p2]. cbn [fst snd] in *.
      destruct (tr_read (TB64 s) (b ++ conn)) as [out ok]. destruct ok.
      + apply F. apply return_buffer_inv. assumption.
      + cbn [fst]. apply return_buffer_inv, return_buffer_inv. assumption.
    - destruct (pool_get_inv pick2 p1 H1) as [_ H2]. destruct (pool_get pick2 p1) as [o p2]. cbn [fst snd] in *.
      destruct (tr_read (TDns server ds) (b ++ conn)) as [out ok]. destruct ok.
      + apply F. apply return_buffer_inv. assumption.
      + cbn [fst]. apply return_buffer_inv, return_buffer_inv. assumption.
  Qed.

  Lemma tr_read_dec w y : tr_dec t w = Ok y -> tr_read t w = (y, true).
  Proof.
    destruct t as [|s|server ds]; cbn [tr_dec tr_read]; intros H.
    - injection H as <-. reflexivity.
    - rewrite H. reflexivity.
    - rewrite H, (dns_out_ok _ _ H). reflexivity.
  Qed.

  (* with a clean pool readPacket is the pure receive path, whichever buffers Get hands out *)
  Lemma read_packet_pure pick1 pick2 p conn n : pool_inv p -> conn <> [] ->
    path_recv packet unmarshal ws t conn = Ok n ->
    snd (rd pick1 pick2 p conn) = Ok n /\ snd (fst (rd pick1 pick2 p conn)) = ROk.
  Proof.
    intros H Hc Hr. unfold read_packet, path_recv in *.
    destruct (direct ws t) eqn:Ed.
    { unfold direct in Ed. apply andb_prop in Ed. destruct Ed as [Ews Et].
      destruct ws; [|discriminate]. destruct t; try discriminate.
      cbn [tr_dec bind unwrap_stack fold_right] in Hr. rewrite Hr. split; reflexivity. }
    destruct (pool_get_inv pick1 p H) as [Hb H1]. destruct (pool_get pick1 p) as [b p1]. cbn [fst snd] in *.
    subst b. cbn [app].
    destruct conn as [|c0 cr]; [congruence|]. cbn [is_nil]. set (conn := c0 :: cr) in *.
    destruct (tr_dec t conn) as [y| |] eqn:Ed2; cbn [bind] in Hr; try discriminate.
    assert (F : forall pl, (match (do plain <- unwrap_stack ws y; unmarshal plain) with
                            | Ok n0 => (return_buffer y pl, ROk, Ok n0)
                            | r => (return_buffer y pl, RLater, r)
                            end) = (return_buffer y pl, ROk, Ok n)).
    { intros pl. rewrite Hr. reflexivity. }
    pose proof (tr_read_dec conn y Ed2) as Hrd.
    destruct t as [|s|server ds].
    - cbn [tr_dec] in Ed2. injection Ed2 as <-. rewrite F. split; reflexivity.
    - destruct (pool_get_inv pick2 p1 H1) as [Ho _]. destruct (pool_get pick2 p1) as [o p2]. cbn [fst snd] in *.
      subst o. rewrite Hrd. cbn [app]. rewrite F. split; reflexivity.
    - destruct (pool_get_inv pick2 p1 H1) as [Ho _]. destruct (pool_get pick2 p1) as [o p2]. cbn [fst snd] in *.
      subst o. rewrite Hrd. cbn [app]. rewrite F. split; reflexivity.
  Qed.

  (* histories: any sequence of sends (any packet, any pick) and receives (ANY bytes, any picks) *)
  Inductive event : Type :=
  | ESend (enc : list Z -> list Z) (pick : nat) (n : packet)
  | ERecv (pick1 pick2 : nat) (conn : list Z).

  Definition step (p : pool) (e : event) : pool :=
    match e with
    | ESend enc pick n => fst (wr enc pick p n)
    | ERecv pick1 pick2 conn => fst (fst (rd pick1 pick2 p conn))
    end.
  Definition run (h : list event) (p : pool) : pool := fold_left step h p.

  (* the invariant: after every history every pooled buffer is empty *)
  Theorem pool_invariant : forall h p, pool_inv p -> pool_inv (run h p).
  Proof.
    unfold run. induction h as [|e h IH]; intros p H; [assumption|].
    cbn [fold_left]. apply IH. destruct e; cbn [step].
    - apply write_packet_inv. assumption.
    - apply read_packet_inv. assumption.
  Qed.
End PoolPath.

Section History.
  Variables zlib_enc gzip_enc : list Z -> list Z.
  Variables zlib_dec gzip_dec : list Z -> res (list Z).
  Hypothesis zlib_ok : lossless {| w_enc := zlib_enc; w_dec := zlib_dec |}.
  Hypothesis gzip_ok : lossless {| w_enc := gzip_enc; w_dec := gzip_dec |}.
  Variable aes : list Z -> list Z -> list Z.
  Hypothesis aes_bytes : forall key, block_fn_bytes (aes key).
  Variable packet : Type.
  Variable marshal : packet -> list Z.
  Variable unmarshal : list Z -> res packet.
  Hypothesis marshal_bytes : forall p, bytes (marshal p).
  Hypothesis unmarshal_marshal : forall p, unmarshal (marshal p) = Ok p.

  Notation W := (welem_w zlib_enc gzip_enc zlib_dec gzip_dec aes).

  (* after ANY history of sends and of receives of arbitrary (damaged, cut, empty) input, with any
     choice of pooled buffers, a packet written by writePacket is read back identically *)
  Theorem history_roundtrip :
    forall es t (h : list (event packet)), Forall welem_ok es ->
    forall enc, (forall x, tr_sends t x (enc x)) ->
    forall pick pick1 pick2 n,
    let p := run packet marshal unmarshal (map W es) t h [] in
    let sent := write_packet packet marshal (map W es) t enc pick p n in
    snd sent <> [] ->
    snd (read_packet packet unmarshal (map W es) t true pick1 pick2 (fst sent) (snd sent)) = Ok n.
  Proof.
    intros es t h Hes enc Henc pick pick1 pick2 n p sent Hne.
    assert (Hp : pool_inv p) by (apply pool_invariant; constructor).
    assert (Hp' : pool_inv (fst sent)) by (apply write_packet_inv; assumption).
    assert (Hs : path_sends packet marshal (map W es) t n (snd sent)).
    { unfold sent. rewrite write_packet_pure by assumption. unfold path_sends.
      destruct (direct (map W es) t) eqn:Ed; [|apply Henc].
      unfold direct in Ed. apply andb_prop in Ed. destruct Ed as [E1 E2].
      destruct (map W es); [|discriminate]. destruct t; try discriminate. reflexivity. }
    apply read_packet_pure; [assumption | assumption |].
    apply (full_path_roundtrip zlib_enc gzip_enc zlib_dec gzip_dec zlib_ok gzip_ok aes aes_bytes
             packet marshal unmarshal marshal_bytes unmarshal_marshal es t n (snd sent) Hes Hs).
  Qed.
End History.

(* the same receive path with the transform's error path giving its output buffer back WITHOUT
   clearing it (buffers.Put(o) instead of returnBuffer(o)): one DNS stream cut after a complete record,
   then an ordinary round trip - the packet read differs from the packet written *)
Definition nc_dom : list (list Z) := [[97]].
Definition nc_good : list Z := dns_encode false [97] (fun _ _ => 0) (repeat 7 300).
Definition nc_cut : list Z := firstn (length nc_good - 10) nc_good.
Definition nc_read (p : pool) (conn : list Z) :=
  read_packet (list Z) (fun w => Ok w) [] (TDns false nc_dom) false 0 0 p conn.

Example unclear_put_breaks_later_roundtrip :
  let '(p1, st1, _) := nc_read [] nc_cut in
  st1 = RTransform /\ pool_clean p1 = false /\
  let '(p2, w) := write_packet (list Z) (fun p => p) [] (TDns false nc_dom) (tr_enc0 (TDns false nc_dom)) 0 p1 [1; 2; 3] in
  snd (nc_read p2 w) <> Ok [1; 2; 3].
Proof. vm_compute. repeat split; discriminate. Qed.
