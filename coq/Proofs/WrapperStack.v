(* Proofs/WrapperStack.v -- C07: every profile's wrapper stack, transform and the full send/receive
   path are lossless.  zlib, gzip and the AES block function are not XMT's code: they are Section
   variables with the hypotheses stated below (they appear in the statements of the theorems). *)
From XMT Require Import Base.Prelude Model.Cbk Model.Dns Model.Wrappers
  Proofs.Wrappers Proofs.Cbk Proofs.Dns.

Section Profile.
  (* compress/zlib and compress/gzip: Writer then Reader give the input back *)
  Variables zlib_enc gzip_enc : list Z -> list Z.
  Variables zlib_dec gzip_dec : list Z -> res (list Z).
  Hypothesis zlib_ok : lossless {| w_enc := zlib_enc; w_dec := zlib_dec |}.
  Hypothesis gzip_ok : lossless {| w_enc := gzip_enc; w_dec := gzip_dec |}.
  (* crypto/aes: Encrypt fills a block with bytes (no inverse is needed: CFB only encrypts) *)
  Variable aes : list Z -> list Z -> list Z.
  Hypothesis aes_bytes : forall key, block_fn_bytes (aes key).

  (* everything a profile can stack (cfg.WrapHex, WrapBase64, WrapZlib, WrapGzip, WrapXOR, WrapAES, WrapCBK) *)
  Inductive welem : Type :=
  | WHex | WB64 | WZlib | WGzip
  | WXor (key : list Z)
  | WAes (key iv : list Z)
  | WCbk (sz : nat) (offs : list Z) (consts : nat -> kconst).

  Definition welem_w (e : welem) : wrapper :=
    match e with
    | WHex => hex_w
    | WB64 => b64_w
    | WZlib => {| w_enc := zlib_enc; w_dec := zlib_dec |}
    | WGzip => {| w_enc := gzip_enc; w_dec := gzip_dec |}
    | WXor key => xor_w key
    | WAes key iv => cfb_w (aes key) iv
    | WCbk sz offs consts => cbk_w sz offs consts
    end.

  (* non-empty key material; CBK: the block size the code allows and step constants in 0..7
     (the table bytes and shuffle offsets are arbitrary) *)
  Definition welem_ok (e : welem) : Prop :=
    match e with
    | WXor key => key <> [] /\ bytes key
    | WAes _ iv => iv <> []
    | WCbk sz _ consts => (16 <= sz <= 255)%nat /\ forall k, Forall valid_step (snd (consts k))
    | _ => True
    end.

  Lemma welem_lossless e : welem_ok e -> lossless (welem_w e).
  Proof.
    destruct e; cbn [welem_ok welem_w]; intros H.
    - apply hex_lossless.
    - apply b64_lossless.
    - exact zlib_ok.
    - exact gzip_ok.
    - destruct H. apply xor_lossless; assumption.
    - apply cfb_lossless; [assumption | apply aes_bytes].
    - destruct H as [[H1 H2] H3]. apply cbk_lossless; assumption.
  Qed.

  Theorem profile_stack_roundtrip :
    forall es, Forall welem_ok es -> forall x, bytes x ->
    unwrap_stack (map welem_w es) (wrap_stack (map welem_w es) x) = Ok x.
  Proof.
    intros es Hes x Hx. apply stack_roundtrip; [|assumption].
    apply Forall_forall. intros w Hw. apply in_map_iff in Hw. destruct Hw as [e [<- He]].
    apply welem_lossless. rewrite Forall_forall in Hes. auto.
  Qed.

  (* the transform, for every shift, every domain list, every pick and every random draw *)
  Theorem transform_roundtrip :
    forall t x w, bytes x -> tr_sends t x w -> tr_dec t w = Ok x.
  Proof.
    intros [|s|server ds] x w Hx Hw; cbn [tr_sends tr_dec] in *.
    - subst. reflexivity.
    - subst. apply b64shift_roundtrip. assumption.
    - destruct Hw as [d [rnd [_ ->]]]. apply dns_roundtrip.
  Qed.

  (* the full path: marshal -> stack -> transform -> connection -> transform -> stack -> unmarshal *)
  Variable packet : Type.
  Variable marshal : packet -> list Z.
  Variable unmarshal : list Z -> res packet.
  Hypothesis marshal_bytes : forall p, bytes (marshal p).
  Hypothesis unmarshal_marshal : forall p, unmarshal (marshal p) = Ok p.      (* property C01 *)

  Theorem full_path_roundtrip :
    forall es t p w, Forall welem_ok es ->
    path_sends packet marshal (map welem_w es) t p w ->
    path_recv packet unmarshal (map welem_w es) t w = Ok p.
  Proof.
    intros es t p w Hes Hs. unfold path_sends, path_recv in *.
    assert (Hl : Forall lossless (map welem_w es)).
    { apply Forall_forall. intros v Hv. apply in_map_iff in Hv. destruct Hv as [e [<- He]].
      apply welem_lossless. rewrite Forall_forall in Hes. auto. }
    destruct (stack_roundtrip _ Hl (marshal p) (marshal_bytes p)) as [Hb Hd].
    rewrite (transform_roundtrip t _ w Hb Hs). cbn [bind]. rewrite Hd. cbn [bind].
    apply unmarshal_marshal.
  Qed.
End Profile.
