(* Proofs/Chunk.v -- C11: lemmas about the model of data.Chunk (Model/Chunk.v).
   Everything is about Model.Chunk.step / run, the definitions the correspondence run evaluates. *)
From XMT Require Import Base.Prelude Base.BitLemmas Model.Codec Model.Chunk.
From Coq Require Import ZifyBool.
Ltac Zify.zify_post_hook ::= Z.div_mod_to_equations.

(* ================================================================================================ *)
(* 1. lists with Z indices                                                                          *)
(* ================================================================================================ *)

Lemma tk_len {A} k (l : list A) : 0 <= k <= len l -> len (take k l) = k.
Proof. unfold len, take. intros. rewrite firstn_length. lia. Qed.
Lemma tk_len_le {A} k (l : list A) : len (take k l) <= len l.
Proof. unfold len, take. rewrite firstn_length. lia. Qed.
Lemma dr_len {A} k (l : list A) : 0 <= k <= len l -> len (drop k l) = len l - k.
Proof. unfold len, drop. intros. rewrite skipn_length. lia. Qed.
Lemma tk_all {A} k (l : list A) : len l <= k -> take k l = l.
Proof. unfold len, take. intros. apply firstn_all2. lia. Qed.
Lemma tk_0 {A} k (l : list A) : k <= 0 -> take k l = [].
Proof. unfold take. intros. replace (Z.to_nat k) with 0%nat by lia. reflexivity. Qed.
Lemma dr_0 {A} k (l : list A) : k <= 0 -> drop k l = l.
Proof. unfold drop. intros. replace (Z.to_nat k) with 0%nat by lia. reflexivity. Qed.
Lemma dr_all {A} k (l : list A) : len l <= k -> drop k l = [].
Proof. unfold len, drop. intros. apply skipn_all2. lia. Qed.
Lemma tk_dr_id {A} k (l : list A) : take k l ++ drop k l = l.
Proof. unfold take, drop. apply firstn_skipn. Qed.

Lemma tk_app_l {A} k (a b : list A) : k <= len a -> take k (a ++ b) = take k a.
Proof.
  unfold len, take. intros. rewrite firstn_app.
  replace (Z.to_nat k - length a)%nat with 0%nat by lia. cbn [firstn]. apply app_nil_r.
Qed.
Lemma tk_app_r {A} k (a b : list A) : len a <= k -> take k (a ++ b) = a ++ take (k - len a) b.
Proof.
  unfold len, take. intros. rewrite firstn_app. rewrite firstn_all2 by lia.
  f_equal. f_equal. lia.
Qed.
Lemma tk_app_exact {A} k (a b : list A) : k = len a -> take k (a ++ b) = a.
Proof. intros. rewrite tk_app_l by lia. apply tk_all. lia. Qed.
Lemma dr_app_l {A} k (a b : list A) : k <= len a -> drop k (a ++ b) = drop k a ++ b.
Proof.
  unfold len, drop. intros. rewrite skipn_app.
  replace (Z.to_nat k - length a)%nat with 0%nat by lia. reflexivity.
Qed.
Lemma dr_app_r {A} k (a b : list A) : len a <= k -> drop k (a ++ b) = drop (k - len a) b.
Proof.
  unfold len, drop. intros. rewrite skipn_app. rewrite skipn_all2 by lia.
  cbn [app]. f_equal. lia.
Qed.
Lemma dr_app_exact {A} k (a b : list A) : k = len a -> drop k (a ++ b) = b.
Proof. intros. rewrite dr_app_r by lia. apply dr_0. lia. Qed.

Lemma tk_tk {A} a b (l : list A) : a <= b -> take a (take b l) = take a l.
Proof.
  unfold take. intros. rewrite firstn_firstn. f_equal. lia.
Qed.
Lemma skipn_skipn_nat {A} (x y : nat) : forall l : list A, skipn x (skipn y l) = skipn (y + x) l.
Proof.
  induction y as [|y IH]; intros l; [reflexivity|].
  destruct l as [|h t]; [rewrite !skipn_nil; reflexivity|]. cbn [skipn Nat.add]. apply IH.
Qed.
Lemma dr_dr {A} a b (l : list A) : 0 <= a -> 0 <= b -> drop a (drop b l) = drop (a + b) l.
Proof.
  unfold drop. intros. rewrite skipn_skipn_nat. f_equal. lia.
Qed.
Lemma dr_tk {A} a b (l : list A) : 0 <= a <= b -> drop a (take b l) = take (b - a) (drop a l).
Proof.
  unfold take, drop. intros. rewrite skipn_firstn_comm. f_equal. lia.
Qed.
(* take b = take a, then the next b - a *)
Lemma tk_split {A} a b (l : list A) : 0 <= a <= b -> take b l = take a l ++ take (b - a) (drop a l).
Proof.
  intros. rewrite <- (tk_dr_id a (take b l)). rewrite tk_tk by lia. rewrite dr_tk by lia. reflexivity.
Qed.
Lemma len_repeat {A} (x : A) n : len (repeat x n) = Z.of_nat n.
Proof. unfold len. rewrite repeat_length. reflexivity. Qed.

Lemma suffix_refl a : suffix_of a a.
Proof. exists []. reflexivity. Qed.
Lemma suffix_nil a : suffix_of [] a.
Proof. exists a. symmetry. apply app_nil_r. Qed.
Lemma suffix_trans a b c : suffix_of a b -> suffix_of b c -> suffix_of a c.
Proof. intros [x Hx] [y Hy]. exists (y ++ x). subst. apply app_assoc. Qed.
Lemma suffix_drop k l : suffix_of (drop k l) l.
Proof. exists (take k l). symmetry. apply tk_dr_id. Qed.
Lemma suffix_app a b : suffix_of b (a ++ b).
Proof. exists a. reflexivity. Qed.

(* byte lists *)
Lemma bl_app a b : byte_list a -> byte_list b -> byte_list (a ++ b).
Proof. unfold byte_list. intros. apply Forall_app. split; assumption. Qed.
Lemma Forall_firstn_nat {A} (P : A -> Prop) n : forall l, Forall P l -> Forall P (firstn n l).
Proof.
  induction n as [|n IH]; intros l H; [constructor|].
  destruct H; cbn [firstn]; constructor; auto.
Qed.
Lemma Forall_skipn_nat {A} (P : A -> Prop) n : forall l, Forall P l -> Forall P (skipn n l).
Proof.
  induction n as [|n IH]; intros l H; [exact H|].
  destruct H; cbn [skipn]; [constructor | auto].
Qed.
Lemma bl_take k l : byte_list l -> byte_list (take k l).
Proof. apply Forall_firstn_nat. Qed.
Lemma bl_drop k l : byte_list l -> byte_list (drop k l).
Proof. apply Forall_skipn_nat. Qed.
Lemma bl_zeros n : byte_list (repeat 0 n).
Proof. unfold byte_list. rewrite Forall_forall. intros x Hx. apply repeat_spec in Hx. lia. Qed.
Lemma bl_nil : byte_list [].
Proof. constructor. Qed.
Lemma bl_u8 x : 0 <= u8 x < 256.
Proof. unfold u8. lia. Qed.

Lemma of_be_nonneg l : forall acc, byte_list l -> 0 <= acc -> 0 <= of_be l acc.
Proof.
  induction l as [|b r IH]; intros acc H Ha; cbn [of_be]; [exact Ha|].
  inversion H; subst. apply IH; [assumption | lia].
Qed.

(* ---- overwrite ---------------------------------------------------------------------------------- *)
Lemma ow_len m i d : 0 <= i -> i + len d <= len m -> len (overwrite m i d) = len m.
Proof.
  intros. pose proof (len_nonneg d). unfold overwrite. rewrite !len_app, tk_len, dr_len by lia. lia.
Qed.
Lemma ow_take_lo m i d j : j <= i -> 0 <= i <= len m -> take j (overwrite m i d) = take j m.
Proof.
  intros. unfold overwrite. rewrite tk_app_l by (rewrite tk_len by lia; lia). apply tk_tk. lia.
Qed.
Lemma ow_take_hi m i d : 0 <= i <= len m -> take (i + len d) (overwrite m i d) = take i m ++ d.
Proof.
  intros. pose proof (len_nonneg d). unfold overwrite. rewrite tk_app_r by (rewrite tk_len by lia; lia).
  rewrite tk_len by lia. f_equal. apply tk_app_exact. lia.
Qed.
Lemma ow_end m i d : 0 <= i -> i + len d = len m -> overwrite m i d = take i m ++ d.
Proof.
  intros. unfold overwrite. rewrite dr_all by lia. rewrite app_nil_r. reflexivity.
Qed.
(* storing below the length commutes with cutting at the length *)
Lemma ow_take_comm m i d k : 0 <= i -> i + len d <= k -> k <= len m ->
  take k (overwrite m i d) = overwrite (take k m) i d.
Proof.
  intros. pose proof (len_nonneg d). unfold overwrite.
  rewrite tk_app_r by (rewrite tk_len by lia; lia). rewrite tk_len by lia.
  rewrite tk_app_r by lia. rewrite tk_tk by lia. rewrite dr_tk by lia.
  do 3 f_equal. lia.
Qed.
Lemma bl_overwrite m i d : byte_list m -> byte_list d -> byte_list (overwrite m i d).
Proof. intros. unfold overwrite. apply bl_app; [apply bl_take; assumption|]. apply bl_app; [assumption | apply bl_drop; assumption]. Qed.
